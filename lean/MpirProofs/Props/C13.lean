/-
  C13 — mpf results are accurate to the destination precision, exact if representable, and well formed.
  Property theorems only; helper lemmas live in MpirProofs/Lemmas/Mpf.lean.
  Every theorem is about the executable bit-exact model Mpir/Model/Mpf.lean, which the correspondence
  check runs against the real mpf_* functions on every run (limbs, size and exponent compared).

  Notation: `toQ f` = ± val d · B^(exp − |size|) ∈ ℚ; `eps prec` = 2^(2−p), p = 64·prec − 64 =
  `PREC_TO_BITS prec` (what mpf_get_prec returns); `OpWF u` = the operand rules (proper limbs, |size|
  limbs, top limb ≠ 0, zero has exponent 0; an operand may be longer than its own prec+1);
  `WF r` = the format rules for a result of precision r.prec.
-/
import MpirProofs.Lemmas.Mpf
namespace Mpir.Mpf
open Mpir

/-- `__GMPF_PREC_TO_BITS (__GMPF_BITS_TO_PREC n) ≥ n`: the precision mpf_get_prec reports is at least
    the requested one. -/
theorem prec_roundtrip (n : Nat) : PREC_TO_BITS (BITS_TO_PREC n) ≥ n := by
  unfold PREC_TO_BITS BITS_TO_PREC; omega

example : BITS_TO_PREC 65 = 3 ∧ PREC_TO_BITS 3 = 128 := by decide

/-- every precision produced by mpf_init2 / mpf_set_prec is at least 2 limbs -/
theorem prec_ge_two (n : Nat) : 2 ≤ BITS_TO_PREC n := by unfold BITS_TO_PREC; omega

example : BITS_TO_PREC 0 = 2 := by decide

/-! ### exact functions: neg, abs, set -/

/-- mpf_set: the value is copied exactly when it has at most prec+1 limbs. -/
theorem set_exact (prec : Nat) (u : F) (hlen : u.d.length ≤ prec + 1) :
    toQ (set prec u) = toQ u := by
  unfold set
  simp only [top_of_le hlen]
  rw [toQ_mk]; unfold toQ
  by_cases h : u.size < 0
  · have : ¬ u.size ≥ 0 := by omega
    simp [h, this]
  · have : u.size ≥ 0 := by omega
    simp [h, this]

/-- mpf_neg, any aliasing. -/
theorem neg_exact (prec : Nat) (rIsU : Bool) (u : F) (hu : OpWF u) (hlen : u.d.length ≤ prec + 1) :
    toQ (neg prec rIsU u) = - toQ u := by
  unfold neg
  rcases lt_trichotomy u.size 0 with h | h | h
  · have h1 : -u.size ≥ 0 := by omega
    have h2 : ¬ -u.size < 0 := by omega
    cases rIsU
    · simp only [Bool.false_eq_true, if_false, top_of_le hlen]
      rw [toQ_mk, if_pos h1]; unfold toQ; rw [if_pos h]; ring
    · simp only [if_true]; unfold toQ; dsimp only; rw [if_pos h, if_neg h2]; ring
  · have hd := hu.d_nil h
    cases rIsU
    · simp only [Bool.false_eq_true, if_false, top_of_le hlen]
      rw [toQ_mk]; unfold toQ; simp [hd]
    · simp only [if_true]; unfold toQ; simp [hd]
  · have h1 : ¬ -u.size ≥ 0 := by omega
    have h2 : -u.size < 0 := by omega
    have h3 : ¬ u.size < 0 := by omega
    cases rIsU
    · simp only [Bool.false_eq_true, if_false, top_of_le hlen]
      rw [toQ_mk, if_neg h1]; unfold toQ; rw [if_neg h3]; ring
    · simp only [if_true]; unfold toQ; dsimp only; rw [if_neg h3, if_pos h2]; ring

/-- mpf_abs, any aliasing. -/
theorem abs_exact (prec : Nat) (rIsU : Bool) (u : F) (hlen : u.d.length ≤ prec + 1) :
    toQ (Mpf.abs prec rIsU u) = |toQ u| := by
  have hv : (0 : ℚ) ≤ (val u.d : ℚ) * (B : ℚ) ^ (u.exp - (u.d.length : ℤ)) :=
    mul_nonneg (by positivity) (le_of_lt (zpow_pos Bq_pos _))
  have habs : |toQ u| = (val u.d : ℚ) * (B : ℚ) ^ (u.exp - (u.d.length : ℤ)) := by
    unfold toQ
    by_cases h : u.size < 0
    · simp only [h, if_true]; rw [mul_assoc, neg_one_mul, abs_neg, abs_of_nonneg hv]
    · simp only [h, if_false]; rw [mul_assoc, one_mul, abs_of_nonneg hv]
  rw [habs]
  unfold Mpf.abs
  cases rIsU
  · simp only [Bool.false_eq_true, if_false, top_of_le hlen]
    unfold toQ
    have : ¬ ((u.d.length : Int) < 0) := by omega
    simp [this]
  · simp only [if_true]
    unfold toQ
    simp

-- non-vacuity
example : toQ (neg 2 false ⟨2, 2, 1, [3, 5]⟩) = -(5 + 3 / (B : ℚ)) := by
  rw [neg_exact 2 false _ (by decide) (by decide)]
  have := Bq_ne
  simp [toQ, val]; field_simp; ring
example : set 2 ⟨9, -4, 7, [1, 2, 3, 4]⟩ = ⟨2, -3, 7, [2, 3, 4]⟩ := by decide
example : Mpf.abs 2 true ⟨2, -2, 1, [3, 5]⟩ = ⟨2, 2, 1, [3, 5]⟩ := by decide


/-! ### exact functions: mul_2exp, div_2exp -/

/-- mpf_mul_2exp is exact on a stored value of at most prec limbs (prec+1 when the shift is a whole number
    of limbs).  (A (prec+1)-limb value shifted by a non-multiple of 64 loses its lowest limb: mul_2exp.c:102.) -/
theorem mul_2exp_exact (prec : Nat) (u : F) (e : Nat) (hu : OpWF u)
    (hlen : if e % 64 = 0 then u.d.length ≤ prec + 1 else u.d.length ≤ prec) :
    toQ (mul_2exp prec u e) = toQ u * 2 ^ e := by
  unfold mul_2exp
  by_cases h0 : u.size = 0
  · rw [if_pos h0, toQ_zero, toQ_of_size_zero (hu.d_nil h0)]; simp
  rw [if_neg h0]
  by_cases he : e % 64 = 0
  · rw [if_pos he] at hlen ⊢
    simp only [top_of_le hlen]
    rw [toQ_mk, toQ_def', two_pow_split e, he,
      show u.exp + ((e / 64 : ℕ) : ℤ) - (u.d.length : ℤ) = u.exp - (u.d.length : ℤ) + ((e / 64 : ℕ) : ℤ) by ring,
      Bzpow_add_nat]
    ring
  · rw [if_neg he] at hlen ⊢
    simp only [top_of_le hlen]
    have hne : u.d ≠ [] := by
      intro h; exact h0 (by have := hu.2.1; rw [h] at this; simp at this; omega)
    obtain ⟨_, _, s3, _, s5⟩ := shiftUp_spec u.d (e % 64) hu.1 hne hu.2.2.1 (Nat.mod_lt _ (by norm_num))
    generalize shiftUp u.d (e % 64) = r at *
    obtain ⟨rd, adj⟩ := r
    simp only at s3 s5 ⊢
    rw [toQ_mk, toQ_def', s5, s3, two_pow_split e]
    generalize e / 64 = m
    push_cast
    rw [show u.exp + (m : ℤ) + (adj : ℤ) - ((u.d.length : ℤ) + (adj : ℤ))
          = u.exp - (u.d.length : ℤ) + (m : ℤ) by ring, Bzpow_add_nat]
    ring

/-- mpf_div_2exp, same conditions. -/
theorem div_2exp_exact (prec : Nat) (u : F) (e : Nat) (hu : OpWF u)
    (hlen : if e % 64 = 0 then u.d.length ≤ prec + 1 else u.d.length ≤ prec) :
    toQ (div_2exp prec u e) = toQ u / 2 ^ e := by
  unfold div_2exp
  by_cases h0 : u.size = 0
  · rw [if_pos h0, toQ_zero, toQ_of_size_zero (hu.d_nil h0)]; simp
  rw [if_neg h0]
  by_cases he : e % 64 = 0
  · rw [if_pos he] at hlen ⊢
    simp only [top_of_le hlen]
    rw [toQ_mk, toQ_def', two_pow_split e, he,
      show u.exp - ((e / 64 : ℕ) : ℤ) - (u.d.length : ℤ) = u.exp - (u.d.length : ℤ) - ((e / 64 : ℕ) : ℤ) by ring,
      Bzpow_sub_nat]
    field_simp
  · rw [if_neg he] at hlen ⊢
    simp only [top_of_le hlen]
    have hne : u.d ≠ [] := by
      intro h; exact h0 (by have := hu.2.1; rw [h] at this; simp at this; omega)
    have hc : e % 64 < 64 := Nat.mod_lt _ (by norm_num)
    obtain ⟨_, _, s3, _, s5⟩ := shiftUp_spec u.d (64 - e % 64) hu.1 hne hu.2.2.1 (by omega)
    generalize shiftUp u.d (64 - e % 64) = r at *
    obtain ⟨rd, adj⟩ := r
    simp only at s3 s5 ⊢
    rw [toQ_mk, toQ_def', s5, s3, two_pow_split e]
    generalize e / 64 = m
    have h64 : (2 : ℚ) ^ (64 * (m + 1)) = 2 ^ (64 - e % 64) * (2 ^ (e % 64) * 2 ^ (64 * m)) := by
      rw [← pow_add, ← pow_add]; congr 1; omega
    push_cast
    rw [show u.exp - (m : ℤ) - 1 + (adj : ℤ) - ((u.d.length : ℤ) + (adj : ℤ))
          = u.exp - (u.d.length : ℤ) - ((m + 1 : ℕ) : ℤ) by push_cast; ring, Bzpow_sub_nat, h64]
    field_simp

-- non-vacuity: 1.5 * 2^3 = 12 and 12 / 2^67 (sub-limb shift with a carry-out limb)
example : mul_2exp 2 ⟨2, 2, 1, [B / 2, 1]⟩ 3 = ⟨2, 2, 1, [0, 12]⟩ := by decide
example : div_2exp 2 ⟨2, 1, 1, [12]⟩ 67 = ⟨2, 2, 0, [B / 2, 1]⟩ := by decide


/-- mpf_mul_2exp / mpf_div_2exp with an operand of any length: the operand is first cut to prec limbs (prec+1 for a
    whole-limb shift), then shifted exactly; the result is within the error bound. -/
theorem mpf_mul_div_2exp_err (prec : Nat) (hp : 1 ≤ prec) (u : F) (e : Nat) (hu : OpWF u) (h0 : u.size ≠ 0) :
    |toQ (mul_2exp prec u e) - toQ u * 2 ^ e| < eps prec * |toQ u * 2 ^ e| ∧
    |toQ (div_2exp prec u e) - toQ u / 2 ^ e| < eps prec * |toQ u / 2 ^ e| := by
  set n := (if e % 64 = 0 then prec + 1 else prec) with hn
  have hpn : prec ≤ n := by rw [hn]; split <;> omega
  obtain ⟨t1, t2, t3, t4, t5⟩ := truncOp_spec n prec hp hpn u hu h0
  obtain ⟨m1, m2⟩ := mul_2exp_trunc prec u e n hn h0 t2 t3
  have hlen : if e % 64 = 0 then (truncOp n u).d.length ≤ prec + 1 else (truncOp n u).d.length ≤ prec := by
    by_cases h : e % 64 = 0
    · rw [if_pos h]; have : n = prec + 1 := by rw [hn, if_pos h]
      omega
    · rw [if_neg h]; have : n = prec := by rw [hn, if_neg h]
      omega
  have h2 : (0 : ℚ) < (2 : ℚ) ^ e := by positivity
  constructor
  · rw [← m1, mul_2exp_exact prec _ e t1 hlen, ← sub_mul, abs_mul, abs_mul, abs_of_pos h2, ← mul_assoc]
    exact mul_lt_mul_of_pos_right t5 h2
  · rw [← m2, div_2exp_exact prec _ e t1 hlen, ← sub_div, abs_div, abs_div, abs_of_pos h2, ← mul_div_assoc]
    exact div_lt_div_of_pos_right t5 h2

-- a 4-limb operand shifted into a 2-limb destination: cut to 2 limbs first
example : mul_2exp 2 ⟨3, 4, 1, [7, 8, 9, 1]⟩ 1 = ⟨2, 2, 1, [18, 2]⟩ := by decide

/-! ### exact functions: floor, ceil, trunc, integer_p

`hfit`: the integer part (min(|size|, exp) limbs) fits in the destination's prec+1 limbs; otherwise
ceilfloor.c / trunc.c keep only the top prec+1 limbs of it. -/

/-- mpf_floor returns exactly ⌊u⌋. -/
theorem floor_spec (prec : Nat) (u : F) (hu : OpWF u) (hfit : min u.d.length u.exp.toNat ≤ prec + 1) :
    toQ (floor prec u) = (⌊toQ u⌋ : ℤ) := by
  by_cases h0 : u.size = 0
  · unfold floor ceilOrFloor; rw [if_pos h0, toQ_zero, toQ_of_size_zero (hu.d_nil h0)]; simp
  obtain ⟨I, f, f0, f1, hq, _, hr, _⟩ := round_decomp prec u hu h0 hfit (-1) (Or.inr rfl)
  unfold floor; rw [hr, hq]
  by_cases hs : u.size < 0
  · have : sg u = -1 := by unfold sg; rw [if_pos hs]
    rw [this, neg_one_mul, neg_one_mul, Int.floor_neg, ceil_nat_add I f f0 f1]
    by_cases hf : f = 0 <;> simp [hs, hf]
  · have : sg u = 1 := by unfold sg; rw [if_neg hs]
    rw [this, one_mul, one_mul, floor_nat_add I f f0 f1]; simp [hs]

/-- mpf_ceil returns exactly ⌈u⌉. -/
theorem ceil_spec (prec : Nat) (u : F) (hu : OpWF u) (hfit : min u.d.length u.exp.toNat ≤ prec + 1) :
    toQ (ceil prec u) = (⌈toQ u⌉ : ℤ) := by
  by_cases h0 : u.size = 0
  · unfold ceil ceilOrFloor; rw [if_pos h0, toQ_zero, toQ_of_size_zero (hu.d_nil h0)]; simp
  obtain ⟨I, f, f0, f1, hq, _, hr, _⟩ := round_decomp prec u hu h0 hfit 1 (Or.inl rfl)
  unfold ceil; rw [hr, hq]
  by_cases hs : u.size < 0
  · have : sg u = -1 := by unfold sg; rw [if_pos hs]
    rw [this, neg_one_mul, neg_one_mul, Int.ceil_neg, floor_nat_add I f f0 f1]; simp [hs]
  · have : sg u = 1 := by unfold sg; rw [if_neg hs]
    rw [this, one_mul, one_mul, ceil_nat_add I f f0 f1]
    by_cases hf : f = 0 <;> simp [hs, hf]

/-- mpf_trunc rounds towards zero: ⌊u⌋ for u ≥ 0, ⌈u⌉ for u < 0. -/
theorem trunc_spec (prec : Nat) (u : F) (hu : OpWF u) (hfit : min u.d.length u.exp.toNat ≤ prec + 1) :
    toQ (trunc prec u) = if 0 ≤ toQ u then ((⌊toQ u⌋ : ℤ) : ℚ) else ((⌈toQ u⌉ : ℤ) : ℚ) := by
  by_cases h0 : u.size = 0
  · unfold trunc; rw [if_pos (Or.inl h0), toQ_zero, toQ_of_size_zero (hu.d_nil h0)]; simp
  obtain ⟨I, f, f0, f1, hq, ht, _, _⟩ := round_decomp prec u hu h0 hfit 1 (Or.inl rfl)
  rw [ht, hq]
  have hnn : (0 : ℚ) ≤ (I : ℚ) + f := by positivity
  by_cases hs : u.size < 0
  · have : sg u = -1 := by unfold sg; rw [if_pos hs]
    rw [this, neg_one_mul, neg_one_mul, Int.ceil_neg, Int.floor_neg, floor_nat_add I f f0 f1, ceil_nat_add I f f0 f1]
    by_cases hz : (0 : ℚ) ≤ -((I : ℚ) + f)
    · have hIf : (I : ℚ) + f = 0 := by linarith
      have hf : f = 0 := by
        have : (0 : ℚ) ≤ (I : ℚ) := by positivity
        linarith
      rw [if_pos hz]; simp [hf]
    · rw [if_neg hz]; simp
  · have : sg u = 1 := by unfold sg; rw [if_neg hs]
    rw [this, one_mul, one_mul, if_pos hnn, floor_nat_add I f f0 f1]; simp

/-- mpf_integer_p answers whether the stored value is an integer (no condition on lengths). -/
theorem integer_p_iff (u : F) (hu : OpWF u) : integer_p u = true ↔ ∃ z : ℤ, toQ u = z := by
  by_cases h0 : u.size = 0
  · unfold integer_p; rw [if_pos h0, toQ_of_size_zero (hu.d_nil h0)]
    exact ⟨fun _ => ⟨0, by simp⟩, fun _ => rfl⟩
  obtain ⟨I, f, f0, f1, hq, _, _, hi⟩ := round_decomp (u.d.length) u hu h0 (by omega) 1 (Or.inl rfl)
  rw [hi, hq]
  have hsg : sg u = 1 ∨ sg u = -1 := by unfold sg; by_cases hs : u.size < 0 <;> simp [hs]
  constructor
  · intro hf; subst hf
    rcases hsg with h | h <;> rw [h]
    · exact ⟨I, by simp⟩
    · exact ⟨-I, by simp⟩
  · rintro ⟨z, hz⟩
    -- f = ±z - I is an integer in [0,1)
    have hfz : ∃ w : ℤ, f = w := by
      rcases hsg with h | h <;> rw [h] at hz
      · exact ⟨z - I, by push_cast; linarith⟩
      · exact ⟨-z - I, by push_cast; linarith⟩
    obtain ⟨w, hw⟩ := hfz
    rw [hw] at f0 f1 ⊢
    have h1 : (0 : ℤ) ≤ w := by exact_mod_cast f0
    have h2 : w < 1 := by exact_mod_cast f1
    have : w = 0 := by omega
    simp [this]

-- non-vacuity: floor(-5.xx) = -6 ; ceil(…ff.3) carries into a new limb ; 5.0 with a low zero limb is an integer
example : floor 2 ⟨2, -2, 1, [3, 5]⟩ = ⟨2, -1, 1, [6]⟩ := by decide
example : ceil 2 ⟨2, 2, 1, [3, B - 1]⟩ = ⟨2, 1, 2, [1]⟩ := by decide
example : trunc 2 ⟨2, -2, 1, [3, 5]⟩ = ⟨2, -1, 1, [5]⟩ := by decide
example : integer_p ⟨2, 2, 1, [0, 5]⟩ = true ∧ integer_p ⟨2, 2, 1, [3, 5]⟩ = false := by decide


/-! ### mpf_mul -/

/-- mpf_mul: the result satisfies the format rules. -/
theorem mpf_mul_wf (prec : Nat) (u v : F) (hu : OpWF u) (hv : OpWF v) (hp : 2 ≤ prec) :
    WF (mul prec u v) := by
  by_cases hu0 : u.size = 0
  · unfold mul; rw [hu.d_nil hu0]; simp [top, WF_zero]
  by_cases hv0 : v.size = 0
  · unfold mul; rw [hv.d_nil hv0]; simp [top, WF_zero]
  exact (mul_decomp prec u v hu hv hp hu0 hv0).1

/-- mpf_mul with a zero operand is exactly zero. -/
theorem mpf_mul_zero (prec : Nat) (u v : F) (hu : OpWF u) (hv : OpWF v) (h : u.size = 0 ∨ v.size = 0) :
    toQ (mul prec u v) = toQ u * toQ v := by
  rcases h with h | h
  · unfold mul; rw [toQ_of_size_zero (hu.d_nil h), hu.d_nil h]; simp [top, toQ_zero]
  · unfold mul; rw [toQ_of_size_zero (hv.d_nil h), hv.d_nil h]; simp [top, toQ_zero]

/-- mpf_mul: |r − u·v| < 2^(2−p)·|u·v| for all operand lengths and precisions (p = 64·prec − 64). -/
theorem mpf_mul_err (prec : Nat) (u v : F) (hu : OpWF u) (hv : OpWF v) (hp : 2 ≤ prec)
    (hu0 : u.size ≠ 0) (hv0 : v.size ≠ 0) :
    |toQ (mul prec u v) - toQ u * toQ v| < eps prec * |toQ u * toQ v| := by
  obtain ⟨_, U', V', lou, lov, lo, ku, kv, k, rpv, z, hr, he, _, _, hP, h1, h2, h3, h4, h5, h6, h7, h8, _, _, _⟩ :=
    mul_decomp prec u v hu hv hp hu0 hv0
  have hQ : B ≤ B ^ (prec - 1) := by
    calc B = B ^ 1 := (pow_one B).symm
      _ ≤ B ^ (prec - 1) := Nat.pow_le_pow_right B_pos (by omega)
  obtain ⟨c1, c2⟩ := mul_core U' V' lou lov lo (B ^ ku) (B ^ kv) (B ^ k) rpv (B ^ (prec - 1)) hQ hP h1 h2 h3 h4 h5 h6 h7 h8
  rw [hr, he]
  have hσ : sg u * sg v = 1 ∨ sg u * sg v = -1 := by
    rcases sg_cases u with a | a <;> rcases sg_cases v with b | b <;> rw [a, b] <;> norm_num
  exact err_of_nat _ hσ _ _ _ (zpow_pos Bq_pos z) prec c1 c2

/-- mpf_mul is exact whenever both operands and the exact product fit in p bits. -/
theorem mpf_mul_exact_if_fits (prec : Nat) (u v : F) (hu : OpWF u) (hv : OpWF v) (hp : 2 ≤ prec)
    (fu : Fits (toQ u) (PREC_TO_BITS prec)) (fv : Fits (toQ v) (PREC_TO_BITS prec))
    (fe : Fits (toQ u * toQ v) (PREC_TO_BITS prec)) :
    toQ (mul prec u v) = toQ u * toQ v := by
  by_cases hu0 : u.size = 0
  · exact mpf_mul_zero prec u v hu hv (Or.inl hu0)
  by_cases hv0 : v.size = 0
  · exact mpf_mul_zero prec u v hu hv (Or.inr hv0)
  obtain ⟨_, U', V', lou, lov, lo, ku, kv, k, rpv, z, hr, he, hU, hV, hP, h1, h2, h3, _, _, _, h7, h8, hku, hkv, L, hL, hk⟩ :=
    mul_decomp prec u v hu hv hp hu0 hv0
  have hpb : PREC_TO_BITS prec = 64 * (prec - 1) := by unfold PREC_TO_BITS; omega
  rw [hpb] at fu fv fe
  have hnu : u.d ≠ [] := fun h => hu0 (by have := hu.2.1; rw [h] at this; simp at this; omega)
  have hnv : v.d ≠ [] := fun h => hv0 (by have := hv.2.1; rw [h] at this; simp at this; omega)
  -- the dropped low limbs of both operands are zero
  have fu' : FitsN (val u.d) (64 * (prec - 1)) := by
    rw [toQ_sg, ← mul_assoc] at fu; exact fitsN_of_fits (sg_cases u) _ _ _ fu
  have fv' : FitsN (val v.d) (64 * (prec - 1)) := by
    rw [toQ_sg, ← mul_assoc] at fv; exact fitsN_of_fits (sg_cases v) _ _ _ fv
  have du := fitsN_dvd fu' (val_ge_of_top u.d hnu hu.2.2.1) (by omega)
  have dv := fitsN_dvd fv' (val_ge_of_top v.d hnv hv.2.2.1) (by omega)
  rw [← hku] at du; rw [← hkv] at dv
  have l1 : lou = 0 := low_zero_of_dvd hU h1 du
  have l2 : lov = 0 := low_zero_of_dvd hV h2 dv
  subst l1 l2
  -- so is the dropped low part of the product
  have hσ : sg u * sg v = 1 ∨ sg u * sg v = -1 := by
    rcases sg_cases u with a | a <;> rcases sg_cases v with b | b <;> rw [a, b] <;> norm_num
  have fe' : FitsN (U' * V') (64 * (prec - 1)) := by
    rw [he] at fe
    have f1 := fitsN_of_fits hσ _ _ _ fe
    have e : (0 + B ^ ku * U') * (0 + B ^ kv * V') = U' * V' * 2 ^ (64 * (ku + kv)) := by
      have : (2 : ℕ) ^ (64 * (ku + kv)) = B ^ ku * B ^ kv := by unfold B; rw [← pow_mul, ← pow_mul, ← pow_add]; congr 1; ring
      rw [this]; ring
    rw [e] at f1
    exact fitsN_of_mul_pow f1
  have dP := fitsN_dvd fe' hL (by omega : 1 ≤ prec)
  have dk : B ^ k ∣ U' * V' := by
    rw [hk]; exact Dvd.dvd.trans (Nat.pow_dvd_pow B (by omega)) dP
  have l3 : lo = 0 := low_zero_of_dvd hP h3 dk
  subst l3
  have e : rpv * B ^ k * B ^ ku * B ^ kv = (0 + B ^ ku * U') * (0 + B ^ kv * V') := by
    rw [show (0 + B ^ ku * U') * (0 + B ^ kv * V') = B ^ ku * B ^ kv * (U' * V') by ring, hP]; ring
  rw [hr, he, e]

-- non-vacuity: 3-limb by 2-limb product truncated to prec+1 = 3 limbs; and an exact product
example : mul 2 ⟨3, 3, 1, [7, 8, 9]⟩ ⟨2, -2, 0, [5, 6]⟩ = ⟨2, -3, 0, [40, 93, 54]⟩ := by decide
example : toQ (mul 2 ⟨2, 1, 1, [3]⟩ ⟨2, 1, 1, [5]⟩) = 15 := by
  rw [show mul 2 ⟨2, 1, 1, [3]⟩ ⟨2, 1, 1, [5]⟩ = ⟨2, 1, 1, [15]⟩ by decide]; simp [toQ, val]


/-! ### mpf_set_ui, mpf_set_si, mpf_set_z -/

/-- mpf_set_ui is exact and well formed (v < 2^64). -/
theorem set_ui_exact (prec : Nat) (v : Nat) (hv : v < B) :
    toQ (set_ui prec v) = v ∧ WF (set_ui prec v) := by
  unfold set_ui
  by_cases h : v = 0
  · rw [if_pos h, h]; exact ⟨by simp [toQ], WF_zero prec⟩
  · rw [if_neg h]
    refine ⟨by simp [toQ, val], ?_⟩
    exact ⟨Limbs_cons.mpr ⟨hv, Limbs_nil⟩, rfl, by simp, by simpa using h, by simp⟩

/-- mpf_set_si is exact and well formed (|v| ≤ 2^63). -/
theorem set_si_exact (prec : Nat) (v : Int) (hv : v.natAbs < B) :
    toQ (set_si prec v) = v ∧ WF (set_si prec v) := by
  unfold set_si
  by_cases h : v = 0
  · rw [if_pos h, h]; exact ⟨by simp [toQ], by simpa [zero] using WF_zero prec⟩
  · rw [if_neg h]
    refine ⟨?_, ?_⟩
    · by_cases hs : v ≥ 0
      · have : ¬ ((1 : ℤ) < 0) := by omega
        simp only [toQ, hs, if_true, this, if_false, val, List.length_cons, List.length_nil]
        have : ((v.natAbs : ℕ) : ℚ) = (v : ℚ) := by
          rw [Nat.cast_natAbs, abs_of_nonneg hs]
        simp [this]
      · have h1 : ((-1 : ℤ) < 0) := by omega
        simp only [toQ, hs, if_false, h1, if_true, val, List.length_cons, List.length_nil]
        have : ((v.natAbs : ℕ) : ℚ) = -(v : ℚ) := by
          rw [Nat.cast_natAbs, abs_of_neg (by omega)]; push_cast; rfl
        simp [this]
    · refine ⟨Limbs_cons.mpr ⟨hv, Limbs_nil⟩, ?_, ?_, ?_, ?_⟩
      · by_cases hs : v ≥ 0 <;> simp [hs]
      · by_cases hs : v ≥ 0 <;> simp [hs]
      · simp; omega
      · by_cases hs : v ≥ 0 <;> simp [hs]

/-- mpf_set_z: format rules, error bound, exactness. -/
theorem set_z_spec (prec : Nat) (z : Int) (hp : 1 ≤ prec) :
    WF (set_z prec z) ∧
    (z ≠ 0 → |toQ (set_z prec z) - z| < eps prec * |(z : ℚ)|) ∧
    (Fits (z : ℚ) (PREC_TO_BITS prec) → toQ (set_z prec z) = z) := by
  obtain ⟨n1, n2, n3, n4⟩ := natLimbs_spec z.natAbs
  unfold set_z
  by_cases hz : z = 0
  · subst hz
    simp only [Int.natAbs_zero, natLimbs_zero, top, List.length_nil, List.drop_nil]
    refine ⟨by simpa [zero] using WF_zero prec, fun h => absurd rfl h, fun _ => by simp [toQ]⟩
  · have hne : natLimbs z.natAbs ≠ [] := by
      intro h; rw [h] at n1; simp at n1; omega
    obtain ⟨t1, t2, t3, t4, t5, t6, t7⟩ := top_trunc prec hp _ n2 hne n3
    rw [n1] at t5 t6 t7
    generalize natLimbs z.natAbs = zl at *
    have hσ : (if z ≥ 0 then (1 : ℚ) else -1) = 1 ∨ (if z ≥ 0 then (1 : ℚ) else -1) = -1 := by
      by_cases h : z ≥ 0 <;> simp [h]
    have hzq : (z : ℚ) = (if z ≥ 0 then (1 : ℚ) else -1) * (z.natAbs : ℚ) * (B : ℚ) ^ (0 : ℤ) := by
      rw [Nat.cast_natAbs]
      by_cases h : z ≥ 0
      · simp [h, abs_of_nonneg h]
      · simp [h, abs_of_neg (by omega : z < 0)]
    have hval : toQ ⟨prec, if z ≥ 0 then ((top (prec + 1) zl).length : Int) else -((top (prec + 1) zl).length : Int),
        (zl.length : Int), top (prec + 1) zl⟩ =
        (if z ≥ 0 then (1 : ℚ) else -1) * ((val (top (prec + 1) zl) * B ^ (zl.length - (prec + 1)) : ℕ) : ℚ) * (B : ℚ) ^ (0 : ℤ) := by
      rw [toQ_mk, t4]
      have : (zl.length : ℤ) - ((min (prec + 1) zl.length : ℕ) : ℤ) = ((zl.length - (prec + 1) : ℕ) : ℤ) := by omega
      rw [this, zpow_natCast]; push_cast; rw [zpow_zero]; ring
    refine ⟨WF_mk t1 t3 (by rw [t4]; omega) (fun h => absurd h t2), ?_, ?_⟩
    · intro _
      rw [hval, hzq]
      have := err_of_nat _ hσ _ _ ((B : ℚ) ^ (0 : ℤ)) (by simp) prec t5 t6
      simpa using this
    · intro hf
      rw [hzq] at hf
      have f1 := fitsN_of_fits hσ _ _ _ hf
      have hpb : PREC_TO_BITS prec = 64 * (prec - 1) := by unfold PREC_TO_BITS; omega
      rw [hpb] at f1
      have hge : B ^ (zl.length - 1) ≤ z.natAbs := by rw [← n1]; exact val_ge_of_top zl hne n3
      have := t7 (fitsN_dvd f1 hge hp)
      rw [hval, this, ← hzq]

example : toQ (set_z 2 (-7)) = ((-7 : ℤ) : ℚ) :=
  (set_z_spec 2 (-7) (by norm_num)).2.2 ⟨-7, 0, by norm_num, by norm_num [PREC_TO_BITS]⟩
example : set_si 2 (-5) = ⟨2, -1, 1, [5]⟩ := by decide
example : set_ui 3 7 = ⟨3, 1, 1, [7]⟩ := by decide


/-! ### mpf_set / mpf_neg / mpf_abs for operands of any length (truncation to prec+1 limbs) -/

/-- mpf_set with an operand of any length: format rules; error < 2^(2−p)·|u|; exact if u fits in p bits. -/
theorem mpf_set_spec (prec : ℕ) (hp : 1 ≤ prec) (u : F) (hu : OpWF u) :
    WF (set prec u) ∧
    (u.size ≠ 0 → |toQ (set prec u) - toQ u| < eps prec * |toQ u|) ∧
    (Fits (toQ u) (PREC_TO_BITS prec) → toQ (set prec u) = toQ u) := set_spec prec hp u hu

/-- mpf_neg into a different variable, operand of any length. -/
theorem mpf_neg_spec (prec : ℕ) (hp : 1 ≤ prec) (u : F) (hu : OpWF u) :
    WF (neg prec false u) ∧
    (u.size ≠ 0 → |toQ (neg prec false u) - (- toQ u)| < eps prec * |toQ u|) ∧
    (Fits (toQ u) (PREC_TO_BITS prec) → toQ (neg prec false u) = - toQ u) := by
  obtain ⟨h1, h2, h3⟩ := set_spec prec hp _ (OpWF_neg_size u hu)
  rw [neg_eq_set]
  rw [toQ_neg_size u hu] at h2 h3
  refine ⟨h1, fun h => ?_, fun hf => h3 (fits_neg hf)⟩
  have := h2 (by simpa using h)
  rwa [abs_neg] at this

example : set 2 ⟨9, 4, 7, [1, 2, 3, 4]⟩ = ⟨2, 3, 7, [2, 3, 4]⟩ := by decide

/-! ### mpf_add -/

/-- mpf_add of two non-zero operands of the same sign (add.c:66-174): format rules and error bound, for all
    precisions, lengths and exponent differences. -/
theorem mpf_add_same_sign (prec : ℕ) (hp : 1 ≤ prec) (u v : F) (hu : OpWF u) (hv : OpWF v)
    (hu0 : u.size ≠ 0) (hv0 : v.size ≠ 0) (hs : (u.size < 0) ↔ (v.size < 0)) (rIsU rIsV : Bool) :
    WF (add prec rIsU rIsV u v) ∧
    |toQ (add prec rIsU rIsV u v) - (toQ u + toQ v)| < eps prec * |toQ u + toQ v| := by
  have : add prec rIsU rIsV u v = addSame prec u v := by
    unfold add; rw [if_neg hu0, if_neg hv0]
    have : ((decide (u.size < 0)) != (decide (v.size < 0))) = false := by
      by_cases a : u.size < 0
      · simp [a, hs.mp a]
      · have b : ¬ v.size < 0 := fun h => a (hs.mpr h)
        simp [a, b]
    rw [this]; simp
  rw [this]; exact addSame_spec prec hp u v hu hv hu0 hv0 hs

/-- ... and the sum is exact when both operands and the exact sum fit in p bits. -/
theorem mpf_add_same_sign_exact_if_fits (prec : ℕ) (hp : 1 ≤ prec) (u v : F) (hu : OpWF u) (hv : OpWF v)
    (hu0 : u.size ≠ 0) (hv0 : v.size ≠ 0) (hs : (u.size < 0) ↔ (v.size < 0)) (rIsU rIsV : Bool)
    (fu : Fits (toQ u) (PREC_TO_BITS prec)) (fv : Fits (toQ v) (PREC_TO_BITS prec))
    (fe : Fits (toQ u + toQ v) (PREC_TO_BITS prec)) :
    toQ (add prec rIsU rIsV u v) = toQ u + toQ v := by
  have : add prec rIsU rIsV u v = addSame prec u v := by
    unfold add; rw [if_neg hu0, if_neg hv0]
    have : ((decide (u.size < 0)) != (decide (v.size < 0))) = false := by
      by_cases a : u.size < 0
      · simp [a, hs.mp a]
      · have b : ¬ v.size < 0 := fun h => a (hs.mpr h)
        simp [a, b]
    rw [this]; simp
  rw [this]; exact addSame_exact prec hp u v hu hv hu0 hv0 hs fu fv fe

/-- mpf_add with a zero operand, result in a distinct variable: the other operand is copied (mpf_set). -/
theorem mpf_add_zero (prec : ℕ) (hp : 1 ≤ prec) (u v : F) (hu : OpWF u) (hv : OpWF v) (hz : u.size = 0 ∨ v.size = 0) :
    WF (add prec false false u v) ∧
    (toQ u + toQ v ≠ 0 → |toQ (add prec false false u v) - (toQ u + toQ v)| < eps prec * |toQ u + toQ v|) ∧
    (Fits (toQ u + toQ v) (PREC_TO_BITS prec) → toQ (add prec false false u v) = toQ u + toQ v) := by
  by_cases hu0 : u.size = 0
  · have : add prec false false u v = set prec v := by unfold add; rw [if_pos hu0]; rfl
    rw [this, toQ_of_size_zero (hu.d_nil hu0), zero_add]
    obtain ⟨h1, h2, h3⟩ := set_spec prec hp v hv
    refine ⟨h1, fun h => h2 (fun hv0 => h (toQ_of_size_zero (hv.d_nil hv0))), h3⟩
  · have hv0 : v.size = 0 := hz.resolve_left hu0
    have : add prec false false u v = set prec u := by unfold add; rw [if_neg hu0, if_pos hv0]; rfl
    rw [this, toQ_of_size_zero (hv.d_nil hv0), add_zero]
    obtain ⟨h1, h2, h3⟩ := set_spec prec hp u hu
    exact ⟨h1, fun _ => h2 hu0, h3⟩

-- non-vacuity: partial overlap with a carry out of the top limb; v below the window is dropped
example : add 2 false false ⟨2, 2, 1, [B - 1, B - 1]⟩ ⟨2, 1, 0, [1]⟩ = ⟨2, 3, 2, [0, 0, 1]⟩ := by decide
example : add 2 false false ⟨2, 2, 5, [7, 9]⟩ ⟨2, 1, 3, [4]⟩ = ⟨2, 2, 5, [7, 9]⟩ := by decide


/-! ### mpf_div, mpf_div_ui, mpf_ui_div, mpf_set_q

The quotient is the truncated integer quotient of a dividend padded / chopped so that it has prec+1 limbs
(div.c:92-103); it is within one unit of its last limb, and at least B^(prec−1). -/

/-- mpf_div of non-zero operands: returns normally; format rules; error < 2^(2−p)·|u/v|; exact if u/v fits in p bits. -/
theorem mpf_div_err (prec : ℕ) (hp : 1 ≤ prec) (u v : F) (hu : OpWF u) (hv : OpWF v)
    (hu0 : u.size ≠ 0) (hv0 : v.size ≠ 0) :
    ∃ r, div prec u v = .ok r ∧ WF r ∧
      |toQ r - toQ u / toQ v| < eps prec * |toQ u / toQ v| ∧
      (Fits (toQ u / toQ v) (PREC_TO_BITS prec) → toQ r = toQ u / toQ v) :=
  div_spec prec hp u v hu hv hu0 hv0

/-- division by zero raises; a zero dividend gives an exact, well-formed zero -/
theorem mpf_div_zero (prec : ℕ) (u v : F) :
    (v.size = 0 → div prec u v = .div0) ∧ (v.size ≠ 0 → u.size = 0 → div prec u v = .ok (zero prec)) := by
  unfold div
  exact ⟨fun h => by rw [if_pos h], fun h1 h2 => by rw [if_neg h1, if_pos h2]⟩

/-- mpf_div_ui (0 < w < 2^64). -/
theorem mpf_div_ui_err (prec : ℕ) (hp : 1 ≤ prec) (u : F) (w : ℕ) (hu : OpWF u) (hu0 : u.size ≠ 0)
    (hw0 : w ≠ 0) (hwB : w < B) :
    ∃ r, div_ui prec u w = .ok r ∧ WF r ∧
      |toQ r - toQ u / w| < eps prec * |toQ u / w| ∧
      (Fits (toQ u / w) (PREC_TO_BITS prec) → toQ r = toQ u / w) := by
  rw [div_ui_eq_div prec u w hw0, ← toQ_ofLimb w]
  exact div_spec prec hp u _ hu (OpWF_ofLimb w hw0 hwB) hu0 (by simp [ofLimb])

/-- mpf_ui_div (0 < w < 2^64, v ≠ 0). -/
theorem mpf_ui_div_err (prec : ℕ) (hp : 1 ≤ prec) (w : ℕ) (v : F) (hv : OpWF v) (hv0 : v.size ≠ 0)
    (hw0 : w ≠ 0) (hwB : w < B) :
    ∃ r, ui_div prec w v = .ok r ∧ WF r ∧
      |toQ r - w / toQ v| < eps prec * |w / toQ v| ∧
      (Fits (w / toQ v) (PREC_TO_BITS prec) → toQ r = w / toQ v) := by
  rw [ui_div_eq_div prec w v hw0 hv, ← toQ_ofLimb w]
  exact div_spec prec hp _ v (OpWF_ofLimb w hw0 hwB) hv (by simp [ofLimb]) hv0

/-- mpf_set_q (num ≠ 0, den > 0; the fraction need not be in lowest terms). -/
theorem mpf_set_q_err (prec : ℕ) (hp : 1 ≤ prec) (num : ℤ) (den : ℕ) (hn : num ≠ 0) (hd : den ≠ 0) :
    WF (set_q prec num den) ∧
    |toQ (set_q prec num den) - (num : ℚ) / den| < eps prec * |(num : ℚ) / den| ∧
    (Fits ((num : ℚ) / den) (PREC_TO_BITS prec) → toQ (set_q prec num den) = (num : ℚ) / den) := by
  obtain ⟨r, h1, h2, h3, h4⟩ := div_spec prec hp (ofInt num) (ofInt den) (OpWF_ofInt _) (OpWF_ofInt _)
    (ofInt_size_ne hn) (ofInt_size_ne (by omega))
  rw [set_q_eq_div prec num den hn hd] at h1
  injection h1 with h1
  rw [← h1] at h2 h3 h4
  rw [toQ_ofInt, toQ_ofInt] at h3 h4
  exact ⟨h2, by simpa using h3, by simpa using h4⟩

-- non-vacuity: 5 / -7 with a 2-limb precision; 1/3
example : div 2 ⟨2, 1, 1, [5]⟩ ⟨2, -1, 1, [7]⟩ = .ok ⟨2, -2, 0, [0x6db6db6db6db6db6, 0xb6db6db6db6db6db]⟩ := by decide
example : ui_div 2 1 ⟨2, 1, 1, [3]⟩ = .ok ⟨2, 2, 0, [0x5555555555555555, 0x5555555555555555]⟩ := by decide
example : div 2 ⟨2, 1, 1, [5]⟩ ⟨2, 0, 0, []⟩ = .div0 := by decide


/-! ### mpf_sqrt, mpf_sqrt_ui

No square root function on ℚ: the bound is stated in squared form.  `r ≤ √u < r·(1 + 2^(−p))` is
`r² ≤ u < (r·(1 + 1/B^(prec−1)))²` with r > 0, which implies |r − √u| < 2^(−p)·√u < 2^(2−p)·√u. -/

/-- mpf_sqrt of a positive operand: returns normally; format rules; r ≤ √u < r·(1 + 2^(−p));
    and r is the exact root whenever u has a root that fits in p bits. -/
theorem mpf_sqrt_err (prec : ℕ) (hp : 1 ≤ prec) (u : F) (hu : OpWF u) (hpos : 0 < u.size) :
    ∃ r, sqrt prec u = .ok r ∧ WF r ∧ 0 < toQ r ∧ (toQ r) ^ 2 ≤ toQ u ∧
      toQ u < (toQ r * (1 + 1 / (B : ℚ) ^ (prec - 1))) ^ 2 ∧
      (∀ x : ℚ, 0 ≤ x → x ^ 2 = toQ u → Fits x (PREC_TO_BITS prec) → toQ r = x) :=
  sqrt_spec prec hp u hu hpos

/-- square root of a negative operand raises; of zero it is a well-formed zero -/
theorem mpf_sqrt_neg_zero (prec : ℕ) (u : F) :
    (u.size < 0 → sqrt prec u = .sqrtneg) ∧ (u.size = 0 → sqrt prec u = .ok (zero prec)) := by
  unfold sqrt
  exact ⟨fun h => by rw [if_pos h], fun h => by rw [if_neg (by omega), if_pos h]⟩

/-- mpf_sqrt_ui (0 < w < 2^64). -/
theorem mpf_sqrt_ui_err (prec : ℕ) (hp : 1 ≤ prec) (w : ℕ) (hw0 : w ≠ 0) (hwB : w < B) :
    WF (sqrt_ui prec w) ∧ 0 < toQ (sqrt_ui prec w) ∧ (toQ (sqrt_ui prec w)) ^ 2 ≤ w ∧
      (w : ℚ) < (toQ (sqrt_ui prec w) * (1 + 1 / (B : ℚ) ^ (prec - 1))) ^ 2 ∧
      (∀ x : ℚ, 0 ≤ x → x ^ 2 = w → Fits x (PREC_TO_BITS prec) → toQ (sqrt_ui prec w) = x) := by
  obtain ⟨r, h1, h2, h3, h4, h5, h6⟩ := sqrt_spec prec hp (ofLimb w) (OpWF_ofLimb w hw0 hwB) (by simp [ofLimb])
  rw [sqrt_ui_eq_sqrt prec hp w hw0] at h1
  injection h1 with h1
  subst h1
  rw [toQ_ofLimb] at h4 h5 h6
  exact ⟨h2, h3, h4, h5, h6⟩

-- non-vacuity: √5 to 2 limbs, √4 exactly, negative operand
example : ∃ r, sqrt 2 ⟨2, 1, 1, [5]⟩ = .ok r ∧ WF r ∧ (toQ r) ^ 2 ≤ 5 := by
  obtain ⟨r, h1, h2, _, h4, _⟩ := mpf_sqrt_err 2 (by norm_num) ⟨2, 1, 1, [5]⟩ (by decide) (by decide)
  exact ⟨r, h1, h2, by simpa [toQ, val] using h4⟩
example : toQ (sqrt_ui 2 4) = 2 :=
  (mpf_sqrt_ui_err 2 (by norm_num) 4 (by norm_num) (by rw [B_eq]; norm_num)).2.2.2.2 2 (by norm_num) (by norm_num)
    ⟨1, 1, by norm_num, by norm_num [PREC_TO_BITS]⟩
example : sqrt 3 ⟨2, -1, 1, [5]⟩ = .sqrtneg := by decide


/-! ### mpf_sub and mpf_add in full: all sign combinations, zero operands, aliasing, every geometric case

`Accurate prec r E` (Lemmas/Mpf.lean) = `WF r ∧ (E = 0 → toQ r = 0) ∧ (E ≠ 0 → |toQ r − E| < eps prec · |E|)`.

The proof of `mpf_sub_err` follows sub.c branch by branch: operands ordered by exponent; ediff = 0 with the
leading-equal-limbs scan (`scan_spec`), one operand exhausted (`cancellation_ok`), the x+1|000… − x|fff… path with
its implicit leading one (`subClose_spec`: the scan re-aligns on the first limb pair that is not 000/fff, so at most
one limb of the prec kept is lost), `general_case` when the operands are at least B^(e−2) apart (`subGeneral_ok`);
ediff = 1 with the 1|000… − 0|fff… test (`subOne_ok`); ediff ≥ 2.

`hau`/`hav`: if the destination is the same variable as a zero-partner operand the value is left in place, so it
must already fit the destination (it does unless mpf_set_prec_raw lowered the precision below the stored size). -/

/-- mpf_sub: format rules and |r − (u−v)| < 2^(2−p)·|u−v| (r = 0 when u = v), no restriction on the operands. -/
theorem mpf_sub_err (prec : ℕ) (hp : 2 ≤ prec) (u v : F) (hu : OpWF u) (hv : OpWF v) (rIsU rIsV : Bool)
    (hau : rIsU = true → u.d.length ≤ prec + 1) (hav : rIsV = true → v.d.length ≤ prec + 1) :
    WF (sub prec rIsU rIsV u v) ∧ (toQ u - toQ v = 0 → toQ (sub prec rIsU rIsV u v) = 0) ∧
    (toQ u - toQ v ≠ 0 → |toQ (sub prec rIsU rIsV u v) - (toQ u - toQ v)| < eps prec * |toQ u - toQ v|) :=
  sub_accurate prec hp u v hu hv rIsU rIsV hau hav

/-- mpf_add: the same for u + v (operands of opposite sign go through the subtraction code). -/
theorem mpf_add_err (prec : ℕ) (hp : 2 ≤ prec) (u v : F) (hu : OpWF u) (hv : OpWF v) (rIsU rIsV : Bool)
    (hau : rIsU = true → u.d.length ≤ prec + 1) (hav : rIsV = true → v.d.length ≤ prec + 1) :
    WF (add prec rIsU rIsV u v) ∧ (toQ u + toQ v = 0 → toQ (add prec rIsU rIsV u v) = 0) ∧
    (toQ u + toQ v ≠ 0 → |toQ (add prec rIsU rIsV u v) - (toQ u + toQ v)| < eps prec * |toQ u + toQ v|) :=
  add_accurate prec hp u v hu hv rIsU rIsV hau hav

/-- mpf_sub is exact whenever both operands and the exact difference fit in p bits.
    (Window argument: the result and the exact value are both multiples of the unit of the precision window and
    less than one unit apart — `exact_of_win`.) -/
theorem mpf_sub_exact_if_fits (prec : ℕ) (hp : 2 ≤ prec) (u v : F) (hu : OpWF u) (hv : OpWF v) (rIsU rIsV : Bool)
    (fu : Fits (toQ u) (PREC_TO_BITS prec)) (fv : Fits (toQ v) (PREC_TO_BITS prec))
    (fe : Fits (toQ u - toQ v) (PREC_TO_BITS prec)) :
    toQ (sub prec rIsU rIsV u v) = toQ u - toQ v :=
  sub_exact prec hp u v hu hv rIsU rIsV fu fv fe

/-- mpf_add is exact whenever both operands and the exact sum fit in p bits (all sign combinations). -/
theorem mpf_add_exact_if_fits (prec : ℕ) (hp : 2 ≤ prec) (u v : F) (hu : OpWF u) (hv : OpWF v) (rIsU rIsV : Bool)
    (fu : Fits (toQ u) (PREC_TO_BITS prec)) (fv : Fits (toQ v) (PREC_TO_BITS prec))
    (fe : Fits (toQ u + toQ v) (PREC_TO_BITS prec)) :
    toQ (add prec rIsU rIsV u v) = toQ u + toQ v :=
  add_exact prec hp u v hu hv rIsU rIsV fu fv fe

-- non-vacuity of the `Fits` hypotheses: 3 + 5 at two limbs of precision
example : toQ (add 2 false false ⟨2, 1, 1, [3]⟩ ⟨2, 1, 1, [5]⟩) = toQ ⟨2, 1, 1, [3]⟩ + toQ ⟨2, 1, 1, [5]⟩ :=
  mpf_add_exact_if_fits 2 (le_refl _) _ _ (by decide) (by decide) false false
    ⟨3, 0, by simp [toQ, val], by norm_num [PREC_TO_BITS]⟩ ⟨5, 0, by simp [toQ, val], by norm_num [PREC_TO_BITS]⟩
    ⟨8, 0, by simp [toQ, val]; norm_num, by norm_num [PREC_TO_BITS]⟩
example : toQ (sub 2 false false ⟨2, 1, 1, [3]⟩ ⟨2, 1, 1, [5]⟩) = toQ ⟨2, 1, 1, [3]⟩ - toQ ⟨2, 1, 1, [5]⟩ :=
  mpf_sub_exact_if_fits 2 (le_refl _) _ _ (by decide) (by decide) false false
    ⟨3, 0, by simp [toQ, val], by norm_num [PREC_TO_BITS]⟩ ⟨5, 0, by simp [toQ, val], by norm_num [PREC_TO_BITS]⟩
    ⟨-2, 0, by simp [toQ, val]; norm_num, by norm_num [PREC_TO_BITS]⟩

/-- mpf_sub_ui (w < 2^64). -/
theorem mpf_sub_ui_err (prec : ℕ) (hp : 2 ≤ prec) (u : F) (w : ℕ) (hu : OpWF u) (hw : w < B) (rIsU : Bool)
    (hau : rIsU = true → u.d.length ≤ prec + 1) :
    Accurate prec (sub_ui prec rIsU u w) (toQ u - w) := by
  unfold sub_ui
  by_cases h0 : w = 0
  · rw [if_pos h0, h0]; simpa using accurate_of_set prec (by omega) u hu
  · rw [if_neg h0]
    have := sub_accurate prec hp u (ofLimb w) hu (OpWF_ofLimb w h0 hw) rIsU false hau (by simp)
    rwa [toQ_ofLimb] at this

/-- mpf_ui_sub (w < 2^64) — since ea17729 a wrapper over mpf_sub. -/
theorem mpf_ui_sub_err (prec : ℕ) (hp : 2 ≤ prec) (w : ℕ) (v : F) (hv : OpWF v) (hw : w < B) (rIsV : Bool)
    (hav : rIsV = true → v.d.length ≤ prec + 1) :
    Accurate prec (ui_sub prec rIsV w v) (w - toQ v) := by
  unfold ui_sub
  by_cases h0 : w = 0
  · rw [if_pos h0, h0]
    have := sub_accurate prec hp (zero 2) v ⟨Limbs_nil, rfl, by simp [zero], fun _ => rfl⟩ hv false rIsV (by simp) hav
    have e : sub prec false rIsV (zero 2) v = neg prec rIsV v := by unfold sub; simp [zero]
    rw [e, toQ_zero] at this
    simpa using this
  · rw [if_neg h0]
    have := sub_accurate prec hp (ofLimb w) v (OpWF_ofLimb w h0 hw) hv false rIsV (by simp) hav
    rwa [toQ_ofLimb] at this

-- non-vacuity: x+1|000 − x|fff across one limb boundary with tails; equal operands; the former ui_sub failure
example : sub 2 false false ⟨3, 3, 1, [5, 0, 8]⟩ ⟨3, 3, 1, [9, B - 1, 7]⟩ = ⟨2, 1, -1, [B - 4]⟩ := by decide
example : sub 2 false false ⟨2, 2, 1, [3, 5]⟩ ⟨2, 2, 1, [3, 5]⟩ = ⟨2, 0, 0, []⟩ := by decide
example : ui_sub 3 false 2 ⟨4, 4, 1, [B - 1, B - 1, B - 1, 1]⟩ = ⟨3, 1, -2, [1]⟩ := by decide


/-! ### mpf_add_ui -/

/-- mpf_add_ui (w < 2^64), its own code path add_ui.c: u ≷ 0, v = 0, v below the precision, gap between u and v,
    overlap with carry, u < 1 — format rules and error bound in every case. -/
theorem mpf_add_ui_err (prec : ℕ) (hp : 2 ≤ prec) (u : F) (w : ℕ) (hu : OpWF u) (hw : w < B) (rIsU : Bool)
    (hau : rIsU = true → u.d.length ≤ prec + 1) :
    Accurate prec (add_ui prec rIsU u w) (toQ u + w) :=
  add_ui_accurate prec hp u w hu hw rIsU hau

example : add_ui 2 false ⟨2, 2, 1, [3, 5]⟩ (B - 1) = ⟨2, 3, 2, [3, 4, 1]⟩ := by decide

/-! ### mpf_mul_ui, mpf_set_d -/

/-- mpf_mul_ui (w < 2^64): format rules, error bound, and exact when u has at most prec limbs
    (the carry-in scan of mul_ui.c makes the kept limbs those of the full product). -/
theorem mpf_mul_ui_err (prec : ℕ) (hp : 1 ≤ prec) (u : F) (w : ℕ) (hu : OpWF u) (hw : w < B) :
    Accurate prec (mul_ui prec u w) (toQ u * w) ∧ (u.d.length ≤ prec → toQ (mul_ui prec u w) = toQ u * w) :=
  mul_ui_spec prec hp u w hu hw

example : mul_ui 2 ⟨2, 3, 1, [3, 5, B - 1]⟩ (B - 1) = ⟨2, 3, 2, [B - 3, 5, B - 2]⟩ := by decide

/-- mpf_set_d on a normal double is exact and well formed.
    PARTIAL (`_partial`): the full statement also covers denormals (the normalisation loop of
    extract-dbl.c:66-77); those are covered by the correspondence run only (every shift count, smallest and
    largest denormal).  Zero and NaN/Inf are the two theorems below. -/
theorem mpf_set_d_exact_partial (prec : ℕ) (hp : 1 ≤ prec) (bits sign bexp man : ℕ)
    (h1 : bits / 2 ^ 63 % 2 = sign) (h2 : bits / 2 ^ 52 % 2 ^ 11 = bexp) (h3 : bits % 2 ^ 52 = man)
    (hb1 : 1 ≤ bexp) (hb2 : bexp ≤ 2046) :
    ∃ r, set_d prec bits = .ok r ∧ WF r ∧
      toQ r = (if sign = 1 then -1 else 1) * ((2 ^ 52 + man : ℕ) : ℚ) * (2 : ℚ) ^ ((bexp : ℤ) - 1075) :=
  set_d_normal prec hp bits sign bexp man h1 h2 h3 hb1 hb2

/-- ±0.0 gives a well-formed zero; NaN and ±Inf raise (set_d.c:37-39). -/
theorem mpf_set_d_special (prec : ℕ) (bits : ℕ) :
    (bits / 2 ^ 52 % 2 ^ 11 = 0x7FF → set_d prec bits = .invalid) ∧
    (bits / 2 ^ 52 % 2 ^ 11 = 0 → bits % 2 ^ 52 = 0 → set_d prec bits = .ok (zero prec)) := by
  unfold set_d
  refine ⟨fun h => by dsimp only; rw [if_pos h], fun h1 h2 => ?_⟩
  dsimp only
  rw [if_neg (by rw [h1]; norm_num), if_pos ⟨h1, h2⟩]

example : set_d 2 0x3ff8000000000000 = .ok ⟨2, 2, 1, [B / 2, 1]⟩ := by decide
example : set_d 2 0x7ff0000000000000 = .invalid ∧ set_d 2 (2 ^ 63) = .ok (zero 2) := by decide

/-! ### wf_preserved: every modelled operation returns a well-formed result

mul, add, sub, div, div_ui, ui_div, set_q, sqrt, sqrt_ui, set, set_z, set_ui, set_si, mul_ui, sub_ui, ui_sub: the
`WF` component of the theorems above.  The remaining ones: -/

theorem wf_preserved (prec : ℕ) (hp : 1 ≤ prec) (u : F) (hu : OpWF u) (rIsU : Bool)
    (hau : rIsU = true → u.d.length ≤ prec + 1) (e : ℕ) :
    WF (neg prec rIsU u) ∧ WF (Mpf.abs prec rIsU u) ∧ WF (floor prec u) ∧ WF (ceil prec u) ∧ WF (trunc prec u) ∧
    WF (mul_2exp prec u e) ∧ WF (div_2exp prec u e) :=
  ⟨neg_wf prec hp rIsU u hu hau, abs_wf prec rIsU u hu hau, floor_wf prec u hu, ceil_wf prec u hu, trunc_wf prec u hu,
    mul_2exp_wf prec hp u e hu, div_2exp_wf prec hp u e hu⟩

example : WF (mul_2exp 2 ⟨2, 3, 1, [1, 2, B - 1]⟩ 63) := by decide


/-! ### precision changes: mpf_init2, mpf_set_prec, mpf_set_prec_raw, mpf_get_prec -/

theorem WF.toOpWF {x : F} (h : WF x) : OpWF x := ⟨h.1, h.2.1, h.2.2.2.1, h.2.2.2.2⟩

/-- mpf_init2 (n): a well-formed zero whose reported precision is at least n bits. -/
theorem init2_spec (n : ℕ) : WF (init2 n) ∧ toQ (init2 n) = 0 ∧ get_prec (init2 n) ≥ n :=
  ⟨WF_zero _, toQ_zero _, prec_roundtrip n⟩

/-- mpf_set_prec keeps the variable well formed at the new precision (BITS_TO_PREC bits ≥ 2 limbs); the value is
    unchanged when it has at most newprec+1 limbs, otherwise truncated within the error bound of the new precision. -/
theorem set_prec_spec (x : F) (bits : ℕ) (hx : WF x) :
    WF (set_prec x bits) ∧ (set_prec x bits).prec = BITS_TO_PREC bits ∧ get_prec (set_prec x bits) ≥ bits ∧
    (x.d.length ≤ BITS_TO_PREC bits + 1 → toQ (set_prec x bits) = toQ x) ∧
    (x.size ≠ 0 → |toQ (set_prec x bits) - toQ x| < eps (BITS_TO_PREC bits) * |toQ x|) := by
  have hp2 := prec_ge_two bits
  have hrt := prec_roundtrip bits
  unfold set_prec
  by_cases h : BITS_TO_PREC bits = x.prec
  · simp only [h, if_true]
    refine ⟨hx, trivial, by unfold get_prec; rw [← h]; exact hrt, fun _ => trivial, fun h0 => ?_⟩
    rw [sub_self, abs_zero]
    apply mul_pos (by unfold eps; positivity)
    rw [abs_pos, toQ_sg]
    have hne := hx.toOpWF.ne_nil h0
    have : 0 < qv x.d x.exp := qv_pos_iff.mpr (val_pos_of_top hne hx.2.2.2.1)
    rcases sg_cases x with s | s <;> rw [s] <;> unfold qv at this <;> linarith
  · simp only [h, if_false]
    obtain ⟨s1, s2, _⟩ := set_spec (BITS_TO_PREC bits) (by omega) x hx.toOpWF
    have e : (⟨BITS_TO_PREC bits, if x.size ≥ 0 then ((top (BITS_TO_PREC bits + 1) x.d).length : ℤ)
        else -((top (BITS_TO_PREC bits + 1) x.d).length : ℤ), x.exp, top (BITS_TO_PREC bits + 1) x.d⟩ : F)
        = set (BITS_TO_PREC bits) x := rfl
    rw [e]
    exact ⟨s1, trivial, hrt, fun hl => set_exact _ x hl, s2⟩

/-- mpf_set_prec_raw never changes the value; the variable stays well formed as long as the stored size fits the
    new precision (it always does when the precision is restored to the original one). -/
theorem set_prec_raw_spec (x : F) (bits : ℕ) (hx : WF x) :
    toQ (set_prec_raw x bits) = toQ x ∧ (x.d.length ≤ BITS_TO_PREC bits + 1 → WF (set_prec_raw x bits)) :=
  ⟨rfl, fun h => ⟨hx.1, hx.2.1, by show x.size.natAbs ≤ BITS_TO_PREC bits + 1; rw [← hx.2.1]; exact h, hx.2.2.2.1, hx.2.2.2.2⟩⟩

example : (set_prec ⟨4, 5, 3, [1, 2, 3, 4, 5]⟩ 64).d = [3, 4, 5] := by decide
example : WF (set_prec_raw ⟨4, 3, 3, [1, 2, 3]⟩ 64) ∧ ¬ WF (set_prec_raw ⟨4, 5, 3, [1, 2, 3, 4, 5]⟩ 64) := by decide
example : get_prec (init2 65) = 128 := by decide

end Mpir.Mpf
