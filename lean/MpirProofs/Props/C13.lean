/-
  C13 — mpf results are accurate to the destination precision, exact if representable, and well formed.
  Property theorems only; helper lemmas live in MpirProofs/Lemmas/Mpf.lean.
  Every theorem is about the executable bit-exact model Mpir/Model/Mpf.lean, which the correspondence
  check runs against the real mpf_* functions on every run (limbs, size and exponent compared).

  Notation: `toQ f` = ± val d · B^(exp − |size|) ∈ ℚ; `eps prec` = 2^(2−p), p = 64·prec − 64 =
  `PREC_TO_BITS prec` (what mpf_get_prec returns); `OpWF u` = the operand rules (proper limbs, |size|
  limbs, top limb ≠ 0, zero has exponent 0; an operand may be longer than its own prec+1);
  `WF r` = the format rules for a result of precision r.prec.
-/
import MpirProofs.Lemmas.Mpf
namespace Mpir.Mpf
open Mpir

/-- `__GMPF_PREC_TO_BITS (__GMPF_BITS_TO_PREC n) ≥ n`: the precision mpf_get_prec reports is at least
    the requested one. -/
theorem prec_roundtrip (n : Nat) : PREC_TO_BITS (BITS_TO_PREC n) ≥ n := by
  unfold PREC_TO_BITS BITS_TO_PREC; omega

example : BITS_TO_PREC 65 = 3 ∧ PREC_TO_BITS 3 = 128 := by decide

/-- every precision produced by mpf_init2 / mpf_set_prec is at least 2 limbs -/
theorem prec_ge_two (n : Nat) : 2 ≤ BITS_TO_PREC n := by unfold BITS_TO_PREC; omega

example : BITS_TO_PREC 0 = 2 := by decide

/-! ### exact functions: neg, abs, set -/

/-- mpf_set: the value is copied exactly when it has at most prec+1 limbs. -/
theorem set_exact (prec : Nat) (u : F) (hlen : u.d.length ≤ prec + 1) :
    toQ (set prec u) = toQ u := by
  unfold set
  simp only [top_of_le hlen]
  rw [toQ_mk]; unfold toQ
  by_cases h : u.size < 0
  · have : ¬ u.size ≥ 0 := by omega
    simp [h, this]
  · have : u.size ≥ 0 := by omega
    simp [h, this]

/-- mpf_neg, any aliasing. -/
theorem neg_exact (prec : Nat) (rIsU : Bool) (u : F) (hu : OpWF u) (hlen : u.d.length ≤ prec + 1) :
    toQ (neg prec rIsU u) = - toQ u := by
  unfold neg
  rcases lt_trichotomy u.size 0 with h | h | h
  · have h1 : -u.size ≥ 0 := by omega
    have h2 : ¬ -u.size < 0 := by omega
    cases rIsU
    · simp only [Bool.false_eq_true, if_false, top_of_le hlen]
      rw [toQ_mk, if_pos h1]; unfold toQ; rw [if_pos h]; ring
    · simp only [if_true]; unfold toQ; dsimp only; rw [if_pos h, if_neg h2]; ring
  · have hd := hu.d_nil h
    cases rIsU
    · simp only [Bool.false_eq_true, if_false, top_of_le hlen]
      rw [toQ_mk]; unfold toQ; simp [hd]
    · simp only [if_true]; unfold toQ; simp [hd]
  · have h1 : ¬ -u.size ≥ 0 := by omega
    have h2 : -u.size < 0 := by omega
    have h3 : ¬ u.size < 0 := by omega
    cases rIsU
    · simp only [Bool.false_eq_true, if_false, top_of_le hlen]
      rw [toQ_mk, if_neg h1]; unfold toQ; rw [if_neg h3]; ring
    · simp only [if_true]; unfold toQ; dsimp only; rw [if_neg h3, if_pos h2]; ring

/-- mpf_abs, any aliasing. -/
theorem abs_exact (prec : Nat) (rIsU : Bool) (u : F) (hlen : u.d.length ≤ prec + 1) :
    toQ (Mpf.abs prec rIsU u) = |toQ u| := by
  have hv : (0 : ℚ) ≤ (val u.d : ℚ) * (B : ℚ) ^ (u.exp - (u.d.length : ℤ)) :=
    mul_nonneg (by positivity) (le_of_lt (zpow_pos Bq_pos _))
  have habs : |toQ u| = (val u.d : ℚ) * (B : ℚ) ^ (u.exp - (u.d.length : ℤ)) := by
    unfold toQ
    by_cases h : u.size < 0
    · simp only [h, if_true]; rw [mul_assoc, neg_one_mul, abs_neg, abs_of_nonneg hv]
    · simp only [h, if_false]; rw [mul_assoc, one_mul, abs_of_nonneg hv]
  rw [habs]
  unfold Mpf.abs
  cases rIsU
  · simp only [Bool.false_eq_true, if_false, top_of_le hlen]
    unfold toQ
    have : ¬ ((u.d.length : Int) < 0) := by omega
    simp [this]
  · simp only [if_true]
    unfold toQ
    simp

-- non-vacuity
example : toQ (neg 2 false ⟨2, 2, 1, [3, 5]⟩) = -(5 + 3 / (B : ℚ)) := by
  rw [neg_exact 2 false _ (by decide) (by decide)]
  have := Bq_ne
  simp [toQ, val]; field_simp; ring
example : set 2 ⟨9, -4, 7, [1, 2, 3, 4]⟩ = ⟨2, -3, 7, [2, 3, 4]⟩ := by decide
example : Mpf.abs 2 true ⟨2, -2, 1, [3, 5]⟩ = ⟨2, 2, 1, [3, 5]⟩ := by decide

end Mpir.Mpf
