/-
  C02 (multi-limb layer) — the glue of mpn_tdiv_q (mpn/generic/tdiv_q.c): GIVEN the contracts of its callees
  (mpn_divrem_2, mpn_sb_div_q, mpn_dc_div_q, mpn_inv_div_q exact; mpn_sb_divappr_q, mpn_dc_divappr_q,
  mpn_inv_divappr_q "either correct, or one too large"; mpn_mul the product) mpn_tdiv_q writes exactly the nn-dn+1
  limbs of ⌊N/D⌋, for all nn ≥ dn ≥ 1, all limb contents with dp[dn-1] ≠ 0, all threshold values and EVERY behaviour of
  the approximate callees that their contract allows (error e ∈ {0,1}; the proof covers e ≤ 3).
  Property theorems only; helper lemmas: MpirProofs/Lemmas/TdivQCore.lean (value level), TdivQ.lean, TdivQBranch1.lean,
  TdivQBranch2.lean, TdivQFinish.lean.  Model: Mpir/Model/TdivQ.lean, run against the real function on every check
  (ops `tdiv_q_model`, `tdiv_q_guard`).

  Findings about the C recorded here as theorems:
   * the code needs nn ≥ dn only, not N ≥ D as values (header comment "N >= D > 0", tdiv_q.c:40);
   * the constant 4 of `tp[0] <= 4` (tdiv_q.c:280) is sound for callee errors up to 3 — truncating the operands costs
     exactly 1 unit of the guard limb — and unsound for 4 (`guard_constant_tight`);
   * the `qh != 0` fill of the FIRST branch (tdiv_q.c:154-163) is dead code (`first_branch_fill_unreachable`); the same
     fill in the second branch is reachable and harmless (`saturation_within_budget`);
   * "FUDGE must be >= 2" (tdiv_q.c:76-78): the model is correct, and every index in range, for FUDGE ≥ 1
     (`second_branch_indices`, `tdivQF_spec`); FUDGE = 0 reads dp[-1];
   * the dispatch respects the callees' ASSERTed sizes iff DC_DIV_Q_THRESHOLD ≥ 6 and DC_DIVAPPR_Q_THRESHOLD ≥ 4
     (`dispatch_div_q_domain`, `dispatch_divappr_q_domain` and the examples after them).
-/
import MpirProofs.Lemmas.TdivQFinish
import MpirProofs.Lemmas.TdivQBranch1
import MpirProofs.Lemmas.DivWordHensel
namespace Mpir.TdivQ
open Mpir Mpir.DivWord

/-! ## value level: the error budget of the truncated division -/

/-- Value-level core of the second branch.  N' = ⌊N/P⌋·c is the truncated, shifted dividend, D' = ⌊D·c/(P·B)⌋ the
    truncated, shifted divisor (one limb more is dropped), c·c' = B, D' normalised on qn+1 limbs, ⌊N/D⌋ < B^qn.
    For a callee result Q' ∈ [⌊N'/D'⌋, ⌊N'/D'⌋ + E]:
    (a) ⌊N/D⌋ ≤ ⌊Q'/B⌋ ≤ ⌊N/D⌋ + 1;  (b) ⌊Q'/B⌋ = ⌊N/D⌋ + 1 forces the guard limb Q' mod B ≤ E + 1.
    So the operand truncation costs exactly one unit of the guard limb on top of the callee's error. -/
theorem truncated_quotient_budget (N D P c c' qn Q' E : Nat) (hP : 0 < P) (hc : c * c' = B)
    (hnorm : B ^ (qn + 1) ≤ 2 * (D * c / (P * B))) (hND : N < D * B ^ qn)
    (hlo : N / P * c / (D * c / (P * B)) ≤ Q') (hhi : Q' ≤ N / P * c / (D * c / (P * B)) + E)
    (hE : E + 1 < B) :
    N / D ≤ Q' / B ∧ Q' / B ≤ N / D + 1 ∧ (Q' / B = N / D + 1 → Q' % B ≤ E + 1) :=
  guard_budget N D P c c' qn Q' E hP hc hnorm hND hlo hhi hE

/-- The guard-limb test of tdiv_q.c:280 with its constant 4: for every callee error E ≤ 3 a guard limb above 4
    certifies ⌊Q'/B⌋ = ⌊N/D⌋, and in every case (c) the compare `N < D·⌊Q'/B⌋` of tdiv_q.c:289 decides the decrement.
    E = 3 is the largest error for which the constant is sound (`guard_constant_tight`); the documented E is 1. -/
theorem guard_constant_sound (N D P c c' qn Q' E : Nat) (hP : 0 < P) (hc : c * c' = B)
    (hnorm : B ^ (qn + 1) ≤ 2 * (D * c / (P * B))) (hND : N < D * B ^ qn)
    (hlo : N / P * c / (D * c / (P * B)) ≤ Q') (hhi : Q' ≤ N / P * c / (D * c / (P * B)) + E)
    (hE : E ≤ 3) :
    (4 < Q' % B → Q' / B = N / D) ∧
    (if N < D * (Q' / B) then Q' / B - 1 else Q' / B) = N / D :=
  guard_four N D P c c' qn Q' E hP hc hnorm hND hlo hhi hE

/-- Tightness: D = B^7 + 2·B^4 - 1 = 2^448 + 2^257 - 1 (8 limbs, top limb 1, so c = 2^63), N = (B²-1)·D - 1 (9 limbs, qn = 2, P = B^4).
    All hypotheses of `guard_constant_sound` hold; the exact truncated quotient already has guard limb 1 with a high
    part one too large (the truncation unit); with callee error 3 the guard limb is 4 = E + 1 (the bound of
    `truncated_quotient_budget` is attained, the test `<= 4` still fires); with callee error 4 the guard limb is 5 > 4
    although ⌊Q'/B⌋ = ⌊N/D⌋ + 1: the constant 4 is NOT sound for E = 4. -/
theorem guard_constant_tight :
    let D := B ^ 7 + 2 * B ^ 4 - 1
    let N := (B * B - 1) * D - 1
    let P := B ^ 4
    let c := 2 ^ 63
    let N' := N / P * c
    let D' := D * c / (P * B)
    c * 2 = B ∧ B ^ 3 ≤ 2 * D' ∧ N < D * B ^ 2 ∧
    (N' / D') % B = 1 ∧ (N' / D') / B = N / D + 1 ∧
    (N' / D' + 3) % B = 4 ∧ (N' / D' + 3) / B = N / D + 1 ∧
    4 < (N' / D' + 4) % B ∧ (N' / D' + 4) / B = N / D + 1 := by
  decide

/-! ## the model: mpn_tdiv_q returns ⌊N/D⌋ -/

/-- every (q, qh) a callee may return under the contract "m = nn-dn proper limbs q and a number qh with
    qh·B^m + val q = ⌊N/D⌋ + e" is the value `quotOracle e` the model uses: quantifying over `e` quantifies over
    every admissible callee -/
theorem callee_oracle_complete (e : Nat) (np dp q : List Nat) (qh : Nat) (hq : Limbs q)
    (hl : q.length = np.length - dp.length)
    (hv : qh * B ^ (np.length - dp.length) + val q = val np / val dp + e) :
    quotOracle e np dp = (q, qh) :=
  oracle_complete e np dp q qh hq hl hv

example : quotOracle 1 [5, 0, B - 1] [B - 1] = ([1, 0], 1) := by decide

theorem val_singleton_top (d : List Nat) (h : d.length = 1) : val d = d.getD (d.length - 1) 0 := by
  have := SbDiv.val_take_top d 0 h
  rw [h]
  simpa using this.symm

/-- mpn_tdiv_q with FUDGE as a parameter: for every FUDGE ≥ 1, every threshold setting and every callee error e ≤ 3
    the limbs stored are those of ⌊N/D⌋ -/
theorem tdivQF_spec (F : Nat) (hF : 1 ≤ F) (T : Thresholds) (e : Nat) (he : e ≤ 3) (n d : List Nat)
    (hn : Limbs n) (hd : Limbs d) (hdn : 1 ≤ d.length) (hnn : d.length ≤ n.length)
    (htop : d.getD (d.length - 1) 0 ≠ 0) :
    (tdivQF F T e n d).1 = toLimbs (n.length - d.length + 1) (val n / val d) := by
  unfold tdivQF
  simp only []
  split
  · -- dn == 1: mpn_divrem_1 (limb-level model, proved in C02_word)
    rename_i h1
    have hdhB := SbDiv.limb_getD hd (d.length - 1)
    obtain ⟨dv, dr, dL, dl⟩ := divrem_1_spec 0 n (d.getD (d.length - 1) 0) hn (Nat.pos_of_ne_zero htop) hdhB
    rw [pow_zero, Nat.mul_one] at dv
    have hdv : val d = d.getD (d.length - 1) 0 := val_singleton_top d h1
    have := (divmod_of_eq (val n) (val d) (val (divrem_1 0 n (d.getD (d.length - 1) 0)).1)
      (divrem_1 0 n (d.getD (d.length - 1) 0)).2 (by rw [hdv]; exact dv.symm) (by rw [hdv]; exact dr)).1
    dsimp only
    exact eq_toLimbs _ _ _ dL (by rw [dl]; omega) this.symm
  · rename_i h1
    split
    · dsimp only; exact branch1_spec T n d hn hd hdn hnn htop
    · rename_i h2
      dsimp only
      exact branch2_spec T e he n d hn hd hnn (by omega) htop

/-- mpn_tdiv_q (qp, np, nn, dp, dn), tdiv_q.c:81-295.  Preconditions = the C's ASSERTs (tdiv_q.c:94-96): nn ≥ dn,
    dn > 0, dp[dn-1] ≠ 0 — NOT N ≥ D as values.  For every threshold setting `T` and every behaviour of the approximate
    callees (error `e` ≤ 3; the contract of mpn_*_divappr_q is e ≤ 1) the model's output has nn-dn+1 proper limbs and
    their value is ⌊N/D⌋.  Covers: dn = 1 (mpn_divrem_1), the first branch with and without the normalising shift and
    with and without the extra limb cy, the second branch with the truncated operands, the shifted-in divisor bits, the
    all-ones saturation, the guard-limb test, the multiply-back, rn, the compare and the decrement. -/
theorem tdiv_q_val (T : Thresholds) (e : Nat) (he : e ≤ 3) (n d : List Nat)
    (hn : Limbs n) (hd : Limbs d) (hdn : 1 ≤ d.length) (hnn : d.length ≤ n.length)
    (htop : d.getD (d.length - 1) 0 ≠ 0) :
    (tdiv_q T e n d).length = n.length - d.length + 1 ∧ Limbs (tdiv_q T e n d) ∧
    val (tdiv_q T e n d) = val n / val d := by
  unfold tdiv_q
  rw [tdivQF_spec FUDGE (by decide) T e he n d hn hd hdn hnn htop]
  have hQ : val n / val d < B ^ (n.length - d.length + 1) :=
    Nat.div_lt_of_lt_mul (quot_fits n d hn hd hdn hnn htop)
  exact ⟨toLimbs_length _ _, toLimbs_Limbs _ _, toLimbs_val_lt _ _ hQ⟩

/-- the model equals the VALUE contract `DivZ.mpnTdivQ` that the mpz layer (C02_mpz) and the differential op
    `mpn_tdiv_q` assume for mpn_tdiv_q: that contract is now a theorem about the glue, given the callee contracts -/
theorem tdiv_q_contract (T : Thresholds) (e : Nat) (he : e ≤ 3) (n d : List Nat)
    (hn : Limbs n) (hd : Limbs d) (hdn : 1 ≤ d.length) (hnn : d.length ≤ n.length)
    (htop : d.getD (d.length - 1) 0 ≠ 0) :
    DivZ.mpnTdivQ n d = some (tdiv_q T e n d) := by
  have ht : DivZ.topNonzero d = true := by
    unfold DivZ.topNonzero
    rw [List.getLast?_eq_getElem?]
    rw [List.getD_eq_getElem?_getD] at htop
    rcases h : d[d.length - 1]? with _ | x
    · rw [h] at htop; simp at htop
    · rw [h] at htop; simpa using htop
  unfold DivZ.mpnTdivQ tdiv_q
  rw [if_neg (by simp [ht]; omega), tdivQF_spec FUDGE (by decide) T e he n d hn hd hdn hnn htop]

/-- the callee's error never shows: every admissible behaviour of the approximate division gives the same limbs as
    the exact one (this is why the driver may answer `tdiv_q_model` with e = 0) -/
theorem tdiv_q_error_irrelevant (T T' : Thresholds) (e e' : Nat) (he : e ≤ 3) (he' : e' ≤ 3) (n d : List Nat)
    (hn : Limbs n) (hd : Limbs d) (hdn : 1 ≤ d.length) (hnn : d.length ≤ n.length)
    (htop : d.getD (d.length - 1) 0 ≠ 0) :
    tdiv_q T e n d = tdiv_q T' e' n d := by
  unfold tdiv_q
  rw [tdivQF_spec FUDGE (by decide) T e he n d hn hd hdn hnn htop,
    tdivQF_spec FUDGE (by decide) T' e' he' n d hn hd hdn hnn htop]

/-! ### non-vacuity of `tdiv_q_val` (every line below was also run against the real function: the op lines
    `tdiv_q_model` at the end of tools/props/c02_tdivq.py) -/

-- dn = 1
example : tdivQF FUDGE shipped 0 [1, 2, 3] [7] = ([0x2492492492492492, 0x6db6db6db6db6db7, 0], 0, .divrem_1) := by decide
-- first branch, dn = 2, unnormalised divisor, no extra limb (cy = 0): qp[qn-1] = qh
example : tdivQF FUDGE shipped 0 [1, 2, 3, 4, 5] [7, 9] =
    ([0x301c17e118eecaf9, 0xe6b74f0329161f9b, 0x8e38e38e38e38e38, 0], 1, .divrem_2) := by decide
-- first branch, unnormalised divisor, extra limb (cy ≠ 0): the callee stores all qn limbs, qh = 0
example : tdivQF FUDGE shipped 0 [0, 0, 0, B - 1] [5, 7, 1] = ([0x32, 0xfffffffffffffff8], 1, .sb_div_q) := by
  decide
-- first branch, normalised divisor, qh = 1
example : tdivQF FUDGE shipped 0 [0, 9, 9, B - 1] [5, 7, B - 1] = ([0, 1], 2, .sb_div_q) := by decide
-- N < D as values with nn = dn: quotient 0 (the header's "N >= D" is not needed)
example : tdivQF FUDGE shipped 0 [9, 9, 1] [5, 7, 2] = ([0], 1, .sb_div_q) := by decide

/-- the 9-limb dividend and 8-limb divisor of `guard_constant_tight` (second branch: qn = 2, dn = 8 > qn + FUDGE) -/
def exD : List Nat := [B - 1, B - 1, B - 1, B - 1, 1, 0, 0, 1]
def exN : List Nat := toLimbs 9 ((B * B - 1) * val exD - 1)

-- second branch, approximate callee: truncation alone makes the estimate one too large (guard limb 1), the
-- multiply-back finds D·Qh > N and the decrement repairs it — for every callee error 0..3
example : (tpOf shipped 0 exN exD).1 = [1, B - 1, B - 1] ∧ (finish2 exN exD (tpOf shipped 0 exN exD).1) = ([B - 2, B - 1], true, true) := by
  decide
example : ∀ e ∈ [0, 1, 2, 3], tdivQF FUDGE shipped e exN exD = ([B - 2, B - 1], 3, .sb_divappr_q) := by decide
example : toLimbs 2 (val exN / val exD) = [B - 2, B - 1] := by decide
-- … and a callee error of 4 (outside every documented contract) slips through the test `tp[0] <= 4`:
-- the constant 4 is sound for E ≤ 3 only
example : (tpOf shipped 4 exN exD).1 = [5, B - 1, B - 1] ∧ (tdivQF FUDGE shipped 4 exN exD).1 = [B - 1, B - 1] ∧
    val (tdivQF FUDGE shipped 4 exN exD).1 ≠ val exN / val exD := by decide
-- second branch, guard limb > 4: no multiply-back
example : finish2 [1, 2, 3, 4, 5, 6, 7, 8, 9] [1, 2, 3, 4, 5, 6, 7, B - 1] (tpOf shipped 1 [1, 2, 3, 4, 5, 6, 7, 8, 9] [1, 2, 3, 4, 5, 6, 7, B - 1]).1
    = ([9, 0], false, false) := by decide
-- second branch, guard limb ≤ 4, multiply-back done, no decrement (N = Q·D exactly, low divisor limbs zero)
example : finish2 [0, 0, 0, 0, 0, 0, 3, 6, 0] [0, 0, 0, 0, 0, 0, 1, 2] (tpOf shipped 1 [0, 0, 0, 0, 0, 0, 3, 6, 0] [0, 0, 0, 0, 0, 0, 1, 2]).1
    = ([3, 0], true, false) := by decide

/-! ## the two `qh != 0` fills -/

/-- tdiv_q.c:154-163 (first branch) is unreachable: with the extra limb cy ≠ 0 the callee divides an nn+1-limb number
    whose exact quotient still fits nn+1-dn limbs, and the callees of this branch are exact, so qh = 0.
    The comment there ("mpn_*_divappr_q returned B^n") belongs to the second branch. -/
theorem first_branch_fill_unreachable (c : Callee) (n d : List Nat) (hn : Limbs n) (hd : Limbs d) (hdn : 1 ≤ d.length)
    (hnn : d.length ≤ n.length) (htop : d.getD (d.length - 1) 0 ≠ 0)
    (hcy : (lshift n (count_leading_zeros (d.getD (d.length - 1) 0))).2 ≠ 0) :
    (call c 0 ((lshift n (count_leading_zeros (d.getD (d.length - 1) 0))).1 ++
        [(lshift n (count_leading_zeros (d.getD (d.length - 1) 0))).2])
      (lshift d (count_leading_zeros (d.getD (d.length - 1) 0))).1).2 = 0 :=
  branch1_qh_zero c n d hn hd hdn hnn htop hcy

example : (lshift [0, 0, 0, B - 1] (count_leading_zeros 1)).2 ≠ 0 ∧
    (call .sb_div_q 0 ((lshift [0, 0, 0, B - 1] 63).1 ++ [(lshift [0, 0, 0, B - 1] 63).2]) (lshift [5, 7, 1] 63).1).2 = 0 := by
  decide

/-- tdiv_q.c:237-248 / :276 (second branch): whatever the callee does within e ≤ 3 — including qh ≠ 0 with cy ≠ 0,
    where tp[] is filled with GMP_NUMB_MAX — the qn+1 limbs left in tp[] are proper limbs whose value Q' satisfies
    ⌊N'/D'⌋ ≤ Q' ≤ ⌊N'/D'⌋ + e: the saturation replaces an overshoot B^(qn+1) by B^(qn+1) - 1, which is still at least
    the exact truncated quotient because N' < D'·B^(qn+1).  Here the fill IS reachable (example below). -/
theorem saturation_within_budget (T : Thresholds) (e : Nat) (he : e ≤ 3) (n d : List Nat) (hn : Limbs n) (hd : Limbs d)
    (hnn : d.length ≤ n.length) (hq : n.length - d.length + 1 + 2 ≤ d.length) (htop : d.getD (d.length - 1) 0 ≠ 0) :
    (tpOf T e n d).1.length = n.length - d.length + 1 + 1 ∧ Limbs (tpOf T e n d).1 ∧
    val (prep2 n d).1 / val (prep2 n d).2.1 ≤ val (tpOf T e n d).1 ∧
    val (tpOf T e n d).1 ≤ val (prep2 n d).1 / val (prep2 n d).2.1 + e :=
  tpOf_spec T e he n d hn hd hnn hq htop

-- N = B^9 - 1, D = B^7: cy ≠ 0, ⌊N'/D'⌋ = B^3 - 1; a callee that is one too large returns qh = 1 (B^3): all ones are stored
example : (prep2 (List.replicate 9 (B - 1)) [0, 0, 0, 0, 0, 0, 0, 1]).2.2 ≠ 0 ∧
    (call .sb_divappr_q 1 (prep2 (List.replicate 9 (B - 1)) [0, 0, 0, 0, 0, 0, 0, 1]).1
      (prep2 (List.replicate 9 (B - 1)) [0, 0, 0, 0, 0, 0, 0, 1]).2.1) = ([0, 0, 0], 1) ∧
    (tpOf shipped 1 (List.replicate 9 (B - 1)) [0, 0, 0, 0, 0, 0, 0, 1]).1 = [B - 1, B - 1, B - 1] ∧
    (tdivQF FUDGE shipped 1 (List.replicate 9 (B - 1)) [0, 0, 0, 0, 0, 0, 0, 1]).1 = [B - 1, B - 1] := by decide

/-! ## FUDGE, indices, callee domains -/

/-- the else branch (tdiv_q.c:194) reads np + nn - (2qn+1) … and dp[dn-(qn+1)-1]; with qn = nn-dn+1 both offsets are
    non-negative exactly when qn + 2 ≤ dn, which `qn + FUDGE < dn` gives for every FUDGE ≥ 1 (and also: new_np of
    2qn+2 limbs fits the scratch of nn+1 limbs, mpn_mul's dn ≥ qn ≥ 1).  The file's "FUDGE must be >= 2" is one more
    than this model needs. -/
theorem second_branch_indices (F nn dn : Nat) (hF : 1 ≤ F) (hnn : dn ≤ nn) (h : ¬ (nn - dn + 1 + F ≥ dn)) :
    let qn := nn - dn + 1
    2 * qn + 1 ≤ nn ∧ qn + 1 + 1 ≤ dn ∧ dn - (qn + 1) - 1 < dn ∧ 2 * qn + 2 ≤ nn + 1 ∧ 1 ≤ qn ∧ qn ≤ dn ∧
      dn - (qn + 1) = nn - (2 * qn + 1) + 1 := by
  intro qn; omega

-- FUDGE = 0 would let dn = qn + 1 into the else branch, where dn-(qn+1)-1 = -1 (dp[-1]) and nn-(2qn+1) = -1
example : let nn := 4; let dn := 3; let qn := nn - dn + 1; ¬ (qn + 0 ≥ dn) ∧ ¬ (2 * qn + 1 ≤ nn) ∧ ¬ (qn + 1 + 1 ≤ dn) := by decide

/-- first branch: if DC_DIV_Q_THRESHOLD ≥ 6 (for any INV_DIV_Q_THRESHOLD) every callee is called within the sizes it
    ASSERTs: mpn_divrem_2 dn = 2; mpn_sb_div_q dn > 2, nn ≥ dn; mpn_dc_div_q / mpn_inv_div_q dn ≥ 6, nn-dn ≥ 3
    (dn ≥ 2 because dn == 1 returned early; new_nn ≥ nn ≥ dn).  6 is the minimum: example below. -/
theorem dispatch_div_q_domain (T : Thresholds) (dn new_nn nn : Nat) (hT : thrGe 6 T.dcDivQ)
    (hdn : 2 ≤ dn) (hnn : dn ≤ new_nn) :
    (dispatchDivQ T dn new_nn nn).domain new_nn dn :=
  dispatchDivQ_domain T dn new_nn nn hT hdn hnn

-- DC_DIV_Q_THRESHOLD = 5: dn = 5, nn = 10 goes to mpn_dc_div_q, whose ASSERT (dn >= 6) fails; = 0 ("always"): dn = 3 does
example : dispatchDivQ ⟨some 5, some 998, some 21, some 14326⟩ 5 10 10 = .dc_div_q ∧ ¬ Callee.dc_div_q.domain 10 5 := by
  refine ⟨by decide, ?_⟩; unfold Callee.domain; omega
example : dispatchDivQ ⟨some 0, some 998, some 21, some 14326⟩ 3 3 3 = .dc_div_q := by decide
example : dispatchDivQ shipped 65 130 130 = .dc_div_q ∧ dispatchDivQ shipped 64 130 130 = .sb_div_q ∧
    dispatchDivQ shipped 65 129 129 = .sb_div_q ∧ dispatchDivQ shipped 2 100 100 = .divrem_2 := by decide

/-- second branch: if DC_DIVAPPR_Q_THRESHOLD ≥ 4 every callee is called within the sizes it ASSERTs (divisor of qn+1
    limbs): mpn_divrem_2 qn+1 = 2; mpn_sb_divappr_q qn+1 > 2; mpn_dc_divappr_q qn+1 ≥ 6, new_nn ≥ qn+1+3;
    mpn_inv_divappr_q qn+1 ≥ 6, new_nn > qn+1.  4 is the minimum: example below. -/
theorem dispatch_divappr_q_domain (T : Thresholds) (qn new_nn : Nat) (hT : thrGe 4 T.dcDivapprQ)
    (hqn : 1 ≤ qn) (hnn : 2 * qn + 1 ≤ new_nn) :
    (dispatchDivapprQ T qn).domain new_nn (qn + 1) :=
  dispatchDivapprQ_domain T qn new_nn hT hqn hnn

-- DC_DIVAPPR_Q_THRESHOLD = 3: qn = 4 (divisor of 5 limbs) goes to mpn_dc_divappr_q, whose ASSERT (dn >= 6) fails
example : dispatchDivapprQ ⟨some 65, some 998, some 3, some 14326⟩ 4 = .dc_divappr_q ∧ ¬ Callee.dc_divappr_q.domain 9 5 := by
  refine ⟨by decide, ?_⟩; unfold Callee.domain; omega
example : dispatchDivapprQ shipped 1 = .divrem_2 ∧ dispatchDivapprQ shipped 21 = .sb_divappr_q ∧
    dispatchDivapprQ shipped 22 = .dc_divappr_q := by decide

/-- the divisor handed to the callee in the second branch is normalised (B^(qn+1) ≤ 2·D') and has qn+1 limbs, the
    dividend has 2qn+1 or 2qn+2 limbs: the remaining precondition of every callee -/
theorem second_branch_operands (n d : List Nat) (hn : Limbs n) (hd : Limbs d) (hnn : d.length ≤ n.length)
    (hq : n.length - d.length + 1 + 2 ≤ d.length) (htop : d.getD (d.length - 1) 0 ≠ 0) :
    (prep2 n d).2.1.length = n.length - d.length + 1 + 1 ∧
    B ^ (n.length - d.length + 1 + 1) ≤ 2 * val (prep2 n d).2.1 ∧
    (prep2 n d).1.length = 2 * (n.length - d.length + 1) + 1 + (if (prep2 n d).2.2 ≠ 0 then 1 else 0) := by
  obtain ⟨c, c', _, _, _, h1, h2, h3, _, _⟩ := prep2_spec n d hn hd hnn hq htop
  exact ⟨h2, h3, h1⟩

example : prep2 exN exD = ([0x8000000000000000, 0xfffffffffffffffe, 0xffffffffffffffff, 0x8000000000000000, 0xffffffffffffffff,
    0x7fffffffffffffff], [0, 0, 0x8000000000000000], 0x7fffffffffffffff) := by decide

end Mpir.TdivQ
