/-
  C01 (leaves) — the multiplication leaf kernels mul_1, addmul_1, submul_1 and mul_basecase compute the
  exact limb-vector function, for every length and every limb content.
  Property theorems only; helper lemmas live in MpirProofs/Lemmas/Kernels.lean.
  Every theorem is about the executable models in Mpir/Model/Kernels.lean (mirrors of
  mpn/generic/{mul_1,addmul_1,submul_1,mul_basecase}.c), which the correspondence check runs against
  the real mpn_* functions on every run.  `umul_ppmm` (the 64×64→128 multiply) is the trusted primitive.
-/
import MpirProofs.Lemmas.Kernels
namespace Mpir

/-- mpn_mul_1 (C domain n ≥ 1; the identity also holds for n = 0): result + B^n·ret = u·v, the
    returned carry limb is a proper limb, result limbs proper, n limbs. -/
theorem mul_1_val (u : List Nat) (v : Nat) (hu : Limbs u) (hv : v < B) :
    val (mul_1 u v).1 + B ^ u.length * (mul_1 u v).2 = val u * v ∧
    (mul_1 u v).2 < B ∧ Limbs (mul_1 u v).1 ∧ (mul_1 u v).1.length = u.length := by
  simpa [mul_1] using mul1C_val v hv u 0 hu B_pos

-- non-vacuity: (B²−1)·(B−1) = B³ − B² − B + 1
example : mul_1 [B - 1, B - 1] (B - 1) = ([1, B - 1], B - 2) := by decide

/-- mpn_addmul_1: result + B^n·ret = r + u·v, returned carry limb < B, n limbs. -/
theorem addmul_1_val (r u : List Nat) (v : Nat) (hr : Limbs r) (hu : Limbs u)
    (hl : r.length = u.length) (hv : v < B) :
    val (addmul_1 r u v).1 + B ^ u.length * (addmul_1 r u v).2 = val r + val u * v ∧
    (addmul_1 r u v).2 < B ∧ Limbs (addmul_1 r u v).1 ∧ (addmul_1 r u v).1.length = u.length := by
  simpa [addmul_1] using addmul1C_val v hv r u 0 hr hu hl B_pos

-- non-vacuity: the extreme case r = u = B²−1, v = B−1 gives carry limb B−1
example : addmul_1 [B - 1, B - 1] [B - 1, B - 1] (B - 1) = ([0, B - 1], B - 1) := by decide

/-- mpn_submul_1: result + u·v = r + B^n·ret, returned borrow limb < B, n limbs. -/
theorem submul_1_val (r u : List Nat) (v : Nat) (hr : Limbs r) (hu : Limbs u)
    (hl : r.length = u.length) (hv : v < B) :
    val (submul_1 r u v).1 + val u * v = val r + B ^ u.length * (submul_1 r u v).2 ∧
    (submul_1 r u v).2 < B ∧ Limbs (submul_1 r u v).1 ∧ (submul_1 r u v).1.length = u.length := by
  simpa [submul_1] using submul1C_val v hv r u 0 hr hu hl B_pos

-- non-vacuity: 0 − (B²−1)(B−1) needs the maximal borrow limb B−1
example : submul_1 [0, 0] [B - 1, B - 1] (B - 1) = ([B - 1, 0], B - 1) := by decide
example : submul_1 [5, 7] [2, 3] 2 = ([1, 1], 0) := by decide

/-- mpn_mul_basecase (the C asserts un ≥ vn ≥ 1; the model identity needs only vn ≥ 1): the un+vn
    result limbs are exactly the product, all proper limbs. -/
theorem mul_basecase_val (u v : List Nat) (hu : Limbs u) (hv : Limbs v)
    (hun : v.length ≤ u.length) (hvn : 1 ≤ v.length) :
    val (mul_basecase u v) = val u * val v ∧ Limbs (mul_basecase u v) ∧
    (mul_basecase u v).length = u.length + v.length := by
  match v, hvn with
  | v0 :: vs, _ => exact mul_basecase_val' u v0 vs hu hv

-- non-vacuity: (B²−1)² = B⁴ − 2B² + 1
example : mul_basecase [B - 1, B - 1] [B - 1, B - 1] = [1, 0, B - 2, B - 1] := by decide
example : mul_basecase [3, 5, 7] [2, 4] = [6, 22, 34, 28, 0] := by decide

end Mpir
