/-
  C05 (aliasing) — mpz functions other than division on the POINTER-LEVEL model (Mpir/Model/AliasMem.lean):
  in-place shifts (offsets inside a block, the overlap rules of mpn_lshift / mpn_rshift / MPN_COPY_INCR / _DECR),
  bit operations (pointer re-reads after `_mpz_realloc`), neg / abs / set.
  Property theorems only; proofs in MpirProofs/Lemmas/AliasShift.lean, AliasBits.lean.
  Same shape as C05_div.lean: every state with the object invariant, EVERY choice of variable ids (so `w = u` is one
  instance), the call succeeds, the invariant holds again, `w` holds the specified value of the values before the
  call, every other variable keeps its value.
-/
import MpirProofs.Lemmas.AliasShift
import MpirProofs.Lemmas.AliasBits
import MpirProofs.Lemmas.AliasRoot
import MpirProofs.Lemmas.AliasShift2
import MpirProofs.Lemmas.AliasGcd
import MpirProofs.Lemmas.AliasR2exp
import MpirProofs.Lemmas.AliasIor
import MpirProofs.Lemmas.AliasCfdivR
namespace Mpir.AliasMem
open Mpir

def exSt2 : St := ofInts [2 ^ 200 + 12345, -(2 ^ 70 + 3), 7, 0]
def look2 (r : R St) (k : Nat) : Except String (List (Int × Nat × Nat)) := r.map (·.view k)
def errOf2 (r : R St) : String := match r with | .error e => e | .ok _ => "ok"

/-! ## mpz_mul_2exp, mpz_tdiv_q_2exp -/

/-- mpz_mul_2exp (mpz/mul_2exp.c): `w = u` in place — mpn_lshift / MPN_COPY_DECR write at `wp + limb_cnt` while
    reading `up = wp` (destination above the source: the permitted direction), the carry limb goes above, and
    `MPN_ZERO (wp, limb_cnt)` comes LAST. -/
theorem mul_2exp_ptr_spec {s : St} (h : Inv s) {w u : Nat} (hw : w < s.nv) (hu : u < s.nv) (cnt : Nat) :
    ∃ s', mul_2exp w u cnt s = .ok s' ∧ Inv s' ∧ s'.nv = s.nv ∧ s'.value w = s.value u * 2 ^ cnt ∧
      ∀ i, i < s.nv → i ≠ w → s'.value i = s.value i :=
  mul_2exp_ok h hw hu cnt

-- in place by 70 bits (one whole limb + 6 bits, carry limb, the block moves); by 128 bits (whole limbs only)
example : look2 (mul_2exp 0 0 70 exSt2) 1 = .ok [((2 ^ 200 + 12345) * 2 ^ 70, 6, 4)] := by decide
example : look2 (mul_2exp 1 1 128 exSt2) 2 = .ok [(2 ^ 200 + 12345, 4, 0), (-(2 ^ 70 + 3) * 2 ^ 128, 5, 4)] := by decide
-- negative example: MPN_ZERO before the shift (mul_2exp.c:64-66 "not to lose for U == W") loses u when w = u
example : look2 (mul_2expV { zeroAfterShift := false } 1 1 128 exSt2) 2 = .ok [(2 ^ 200 + 12345, 4, 0), (0, 5, 4)] := by
  decide

/-- mpz_tdiv_q_2exp (mpz/tdiv_q_2exp.c): `w = u` in place — mpn_rshift / MPN_COPY_INCR write at `wp` while reading
    `up + limb_cnt` (destination below the source: the permitted direction). -/
theorem tdiv_q_2exp_ptr_spec {s : St} (h : Inv s) {w u : Nat} (hw : w < s.nv) (hu : u < s.nv) (cnt : Nat) :
    ∃ s', tdiv_q_2exp w u cnt s = .ok s' ∧ Inv s' ∧ s'.nv = s.nv ∧
      s'.value w = Int.tdiv (s.value u) ((2 ^ cnt : Nat) : Int) ∧
      ∀ i, i < s.nv → i ≠ w → s'.value i = s.value i :=
  tdiv_q_2exp_ok h hw hu cnt

example : look2 (tdiv_q_2exp 0 0 70 exSt2) 1 = .ok [((2 ^ 200 + 12345) / 2 ^ 70, 4, 0)] := by decide
example : look2 (tdiv_q_2exp 1 1 64 exSt2) 2 = .ok [(2 ^ 200 + 12345, 4, 0), (-64, 2, 1)] := by decide
-- negative example: the model refuses a shift in the forbidden direction (what an in-place mpn_lshift towards LOWER
-- addresses would be)
example : (match mpn_lshift 0 0 0 1 3 5 exSt2 with | .error e => e | .ok _ => "ok") = "ub:mpn_lshift overlap" := by decide

/-- mpz_cdiv_q_2exp (`dir = 1`) and mpz_fdiv_q_2exp (`dir = -1`) (mpz/cfdiv_q_2exp.c): `w = u` in place — the limbs that
    the shift is going to skip (and, with w = u, overwrite) are inspected BEFORE it (:57-62); the increment may carry into
    limb wsize, for which `MPZ_REALLOC (w, wsize + 1)` made room.  `1 ≤ ALLOC (w)` is MPIR's object invariant (the
    `PTR(w)[0] = 1` of :47 is done without a realloc).  The result is ⌈u / 2^cnt⌉ resp. ⌊u / 2^cnt⌋ (`DivZ.specQ`). -/
theorem cfdiv_q_2exp_ptr_spec {s : St} (h : Inv s) {w u : Nat} (hw : w < s.nv) (hu : u < s.nv) (cnt : Nat) (dir : Int)
    (hdir : dir = 1 ∨ dir = -1) (ha : 1 ≤ s.alloc w) :
    ∃ s', cfdiv_q_2expV .c w u cnt dir s = .ok s' ∧ Inv s' ∧ s'.nv = s.nv ∧
      s'.value w = DivZ.specQ dir (s.value u) ((2 ^ cnt : Nat) : Int) ∧
      ∀ i, i < s.nv → i ≠ w → s'.value i = s.value i := by
  have := cfdiv_q_2exp_ok h hw hu cnt dir hdir ha
  rw [cfq_spec _ _ _ hdir] at this
  exact this

example : look2 (cdiv_q_2exp 0 0 70 exSt2) 1 = .ok [((2 ^ 200 + 12345) / 2 ^ 70 + 1, 4, 0)] := by decide
example : look2 (fdiv_q_2exp 1 1 64 exSt2) 2 = .ok [(2 ^ 200 + 12345, 4, 0), (-65, 2, 1)] := by decide
-- the increment carries into a new limb: ⌈(2^128 - 1) / 4⌉ = 2^126
example : look2 (cdiv_q_2exp 2 2 2 (ofInts [0, 0, 2 ^ 128 - 1])) 3 = .ok [(0, 1, 0), (0, 1, 1), (2 ^ 126, 3, 3)] := by decide
-- negative example: the low limbs inspected AFTER the shift (cfdiv_q_2exp.c:57-62 moved below :72), w = u = 2^128 + 5,
-- cnt = 64: limb 0 has been overwritten by the zero limb 1, the rounding is lost (2^64 instead of 2^64 + 1)
example : look2 (cfdiv_q_2expV { roundBeforeShift := false } 0 0 64 1 (ofInts [2 ^ 128 + 5])) 1 = .ok [(2 ^ 64, 3, 0)] := by decide
example : look2 (cdiv_q_2exp 0 0 64 (ofInts [2 ^ 128 + 5])) 1 = .ok [(2 ^ 64 + 1, 3, 0)] := by decide

/-- mpz_tdiv_r_2exp (mpz/tdiv_r_2exp.c): `res = in` in place (nothing is copied, the masked limb is stored over the
    operand's limb), or separate (low limbs copied after the reallocation of res). -/
theorem tdiv_r_2exp_ptr_spec {s : St} (h : Inv s) {r u : Nat} (hr : r < s.nv) (hu : u < s.nv) (cnt : Nat) :
    ∃ s', tdiv_r_2exp r u cnt s = .ok s' ∧ Inv s' ∧ s'.nv = s.nv ∧
      s'.value r = Int.tmod (s.value u) ((2 ^ cnt : Nat) : Int) ∧
      ∀ i, i < s.nv → i ≠ r → s'.value i = s.value i :=
  tdiv_r_2exp_ok h hr hu cnt

example : look2 (tdiv_r_2exp 0 0 70 exSt2) 1 = .ok [(12345, 4, 0)] := by decide
example : look2 (tdiv_r_2exp 2 1 68 exSt2) 3 = .ok [(2 ^ 200 + 12345, 4, 0), (-(2 ^ 70 + 3), 2, 1), (-3, 1, 2)] := by decide
example : look2 (tdiv_r_2exp 1 1 68 exSt2) 2 = .ok [(2 ^ 200 + 12345, 4, 0), (-3, 2, 1)] := by decide

/-- mpz_cdiv_r_2exp (`dir = 1`) and mpz_fdiv_r_2exp (`dir = -1`) (mpz/cfdiv_r_2exp.c), `w = u` or separate: on the side that
    truncates, `up = PTR (u)` fetched early (:57) stays valid because w is reallocated only when w ≠ u; on the side that
    negates, w is reallocated to limb_cnt+1 limbs and `up` is fetched again (:109-111) — w may be u there.  The result is
    the ceiling resp. floor remainder `u - 2^cnt * ⌈u / 2^cnt⌉` resp. `u - 2^cnt * ⌊u / 2^cnt⌋` (`DivZ.specR`). -/
theorem cfdiv_r_2exp_ptr_spec {s : St} (h : Inv s) {w u : Nat} (hw : w < s.nv) (hu : u < s.nv) (cnt : Nat) (dir : Int)
    (hdir : dir = 1 ∨ dir = -1) :
    ∃ s', cfdiv_r_2exp w u cnt dir s = .ok s' ∧ Inv s' ∧ s'.nv = s.nv ∧
      s'.value w = DivZ.specR dir (s.value u) ((2 ^ cnt : Nat) : Int) ∧
      ∀ i, i < s.nv → i ≠ w → s'.value i = s.value i :=
  cfdiv_r_2exp_ok h hw hu cnt dir hdir

example : look2 (cdiv_r_2exp 0 0 70 exSt2) 1 = .ok [(12345 - 2 ^ 70, 4, 0)] := by decide
example : look2 (fdiv_r_2exp 1 1 68 exSt2) 2 = .ok [(2 ^ 200 + 12345, 4, 0), (2 ^ 68 - 3, 2, 1)] := by decide
example : look2 (cdiv_r_2exp 2 1 300 exSt2) 3 = .ok [(2 ^ 200 + 12345, 4, 0), (-(2 ^ 70 + 3), 2, 1), (-(2 ^ 70 + 3), 2, 4)] := by
  decide

/-! ## mpz_and, mpz_xor, mpz_com (and the plumbing shared with mpz_ior) -/

/-- mpz_and (mpz/and.c), every choice of res, op1, op2 (res = op1, res = op2, op1 = op2, all equal): op1_ptr, op2_ptr,
    res_ptr are fetched at the top (:40-42); after `_mpz_realloc (res, …)` the C re-reads res_ptr and those operand
    pointers that do not point to TMP space (:58-63, :106-113, :223-231, :249-257).  The result is Int.land of the values
    before the call (value-level part: C10 `mpz_and_spec`). -/
theorem mpz_and_ptr_spec {s : St} (h : Inv s) {res op1 op2 : Nat} (hr : res < s.nv) (h1 : op1 < s.nv) (h2 : op2 < s.nv) :
    ∃ s', mpz_and res op1 op2 s = .ok s' ∧ Inv s' ∧ s'.nv = s.nv ∧ s'.value res = Int.land (s.value op1) (s.value op2) ∧
      ∀ i, i < s.nv → i ≠ res → s'.value i = s.value i :=
  mpz_and_ok h hr h1 h2

/-- mpz_xor (mpz/xor.c), same plumbing, allocation `MAX` / `MAX + 1`. -/
theorem mpz_xor_ptr_spec {s : St} (h : Inv s) {res op1 op2 : Nat} (hr : res < s.nv) (h1 : op1 < s.nv) (h2 : op2 < s.nv) :
    ∃ s', mpz_xor res op1 op2 s = .ok s' ∧ Inv s' ∧ s'.nv = s.nv ∧ s'.value res = Int.xor (s.value op1) (s.value op2) ∧
      ∀ i, i < s.nv → i ≠ res → s'.value i = s.value i :=
  mpz_xor_ok h hr h1 h2

/-- mpz_ior (mpz/ior.c), same plumbing; the allocation requests are tight: `MIN (sizes)` in the -,- case (:106, :118-121) and
    the size of the negative operand in the mixed case (:178-187) suffice because `(x & (y-1)) + 1` cannot carry out of the
    limbs of `y` (`ior_fit`). -/
theorem mpz_ior_ptr_spec {s : St} (h : Inv s) {res op1 op2 : Nat} (hr : res < s.nv) (h1 : op1 < s.nv) (h2 : op2 < s.nv) :
    ∃ s', mpz_ior res op1 op2 s = .ok s' ∧ Inv s' ∧ s'.nv = s.nv ∧ s'.value res = Int.lor (s.value op1) (s.value op2) ∧
      ∀ i, i < s.nv → i ≠ res → s'.value i = s.value i :=
  mpz_ior_ok h hr h1 h2

/-- the shared plumbing, for ANY sign-case table whose result fits the allocation it asks for. -/
theorem logic_ptr_spec (plan : Bool → List Nat → Bool → List Nat → LogicPlan) (F : Bits.Z → Bits.Z → Bits.Z)
    (hres : ∀ n1 a n2 b, (plan n1 a n2 b).result = F ⟨n1, a⟩ ⟨n2, b⟩)
    (hwf : ∀ x y : Bits.Z, x.WF → y.WF → (F x y).WF)
    (hfit : ∀ x y : Bits.Z, x.WF → y.WF → (F x y).mag.length ≤ (plan x.neg x.mag y.neg y.mag).need)
    {s : St} (h : Inv s) {res op1 op2 : Nat} (hr : res < s.nv) (h1 : op1 < s.nv) (h2 : op2 < s.nv) :
    ∃ s', logicV .c plan res op1 op2 s = .ok s' ∧ Res s s' res (F (Zof s op1) (Zof s op2)).toInt :=
  logic_ok plan F hres hwf hfit h hr h1 h2

/-- mpz_com (mpz/com.c): `_mpz_realloc (dst, …)` first, then `src_ptr = src->_mp_d`; dst = src allowed. -/
theorem mpz_com_ptr_spec {s : St} (h : Inv s) {dst src : Nat} (hd : dst < s.nv) (hs : src < s.nv) :
    ∃ s', mpz_com dst src s = .ok s' ∧ Inv s' ∧ s'.nv = s.nv ∧ s'.value dst = -(s.value src) - 1 ∧
      ∀ i, i < s.nv → i ≠ dst → s'.value i = s.value i :=
  mpz_com_ok h hd hs

/-- mpz_neg / mpz_abs (neg.c, abs.c): `w = u` touches the size field only; otherwise realloc, then the pointers, then
    the copy.  mpz_set (set.c): `w = u` copies the block onto itself. -/
theorem mpz_neg_ptr_spec {s : St} (h : Inv s) {w u : Nat} (hw : w < s.nv) (hu : u < s.nv) :
    ∃ s', mpz_neg w u s = .ok s' ∧ Inv s' ∧ s'.nv = s.nv ∧ s'.value w = -(s.value u) ∧
      ∀ i, i < s.nv → i ≠ w → s'.value i = s.value i :=
  mpz_negabs_ok false h hw hu

theorem mpz_abs_ptr_spec {s : St} (h : Inv s) {w u : Nat} (hw : w < s.nv) (hu : u < s.nv) :
    ∃ s', mpz_abs w u s = .ok s' ∧ Inv s' ∧ s'.nv = s.nv ∧ s'.value w = ((s.value u).natAbs : Int) ∧
      ∀ i, i < s.nv → i ≠ w → s'.value i = s.value i :=
  mpz_negabs_ok true h hw hu

theorem mpz_set_ptr_spec {s : St} (h : Inv s) {w u : Nat} (hw : w < s.nv) (hu : u < s.nv) :
    ∃ s', mpz_set w u s = .ok s' ∧ Inv s' ∧ s'.nv = s.nv ∧ s'.value w = s.value u ∧
      ∀ i, i < s.nv → i ≠ w → s'.value i = s.value i :=
  mpz_set_ok h hw hu

example : look2 (mpz_neg 1 1 exSt2) 2 = .ok [(2 ^ 200 + 12345, 4, 0), (2 ^ 70 + 3, 2, 1)] := by decide
example : look2 (mpz_abs 2 1 exSt2) 3 = .ok [(2 ^ 200 + 12345, 4, 0), (-(2 ^ 70 + 3), 2, 1), (2 ^ 70 + 3, 2, 4)] := by decide
example : look2 (mpz_set 0 0 exSt2) 1 = .ok [(2 ^ 200 + 12345, 4, 0)] := by decide

def exSt3 : St := ofInts [2 ^ 200 + 12345, -(2 ^ 70 + 3), 7, -(2 ^ 130)]
-- res = op2 with a 2-limb block receiving a 4-limb result (x & -y, PN case): the block of res moves, op1_ptr is re-read
example : look2 (mpz_and 1 0 1 exSt3) 2 = .ok [(2 ^ 200 + 12345, 4, 0), (2 ^ 200 + 12345, 4, 5)] := by
  decide
-- both negative, res = op1: both operands sit in TMP copies, res grows to 1 + MAX limbs
example : look2 (mpz_and 1 1 3 exSt3) 2 = .ok [(2 ^ 200 + 12345, 4, 0), (-1361129467683753853853498429727072845824, 4, 6)] := by
  decide
example : look2 (mpz_xor 2 2 0 exSt3) 3 = .ok [(2 ^ 200 + 12345, 4, 0), (-(2 ^ 70 + 3), 2, 1), (2 ^ 200 + 12345 + 5, 4, 4)] := by
  decide
example : look2 (mpz_com 2 2 (ofInts [5, 6, 2 ^ 64 - 1])) 3 = .ok [(5, 1, 0), (6, 1, 1), (-(2 ^ 64), 2, 3)] := by decide
-- negative examples: without the re-read after `_mpz_realloc` (and.c:58-63 removed), res = op2 and a result that does
-- not fit the old block: the limb loop reads op2 through the stale pointer
example : errOf2 (logicV { reread := false } xorPlan 2 0 2 exSt3) = "ub:read of a freed block" := by decide
example : errOf2 (logicV { reread := false } iorPlan 2 0 2 exSt3) = "ub:read of a freed block" := by decide
-- (for mpz_and the re-read is never exercised when res is an operand: the result is never longer than a non-negative
--  operand, and negative operands are read from their TMP copies)
-- mpz_com with `src_ptr = src->_mp_d` fetched before the realloc, dst = src, carry into a new limb
example : errOf2 (mpz_comV { ptrAfterRealloc := false } 2 2 (ofInts [5, 6, 2 ^ 64 - 1])) = "ub:read of a freed block" := by
  decide

/-! ## mpz_gcd -/

/-- mpz_gcd (mpz/gcd.c), every choice of g, u, v (g = u, g = v, u = v, all equal): the result is gcd(|u|, |v|) of the
    values before the call.  `1 ≤ ALLOC (g)` is MPIR's object invariant (the one-limb cases store `PTR (g)[0]` without
    a realloc, :66-67). -/
theorem mpz_gcd_ptr_spec {s : St} (h : Inv s) {g u v : Nat} (hg : g < s.nv) (hu : u < s.nv) (hv : v < s.nv)
    (ha : 1 ≤ s.alloc g) :
    ∃ s', mpz_gcd g u v s = .ok s' ∧ Inv s' ∧ s'.nv = s.nv ∧ s'.value g = (Int.gcd (s.value u) (s.value v) : Int) ∧
      ∀ i, i < s.nv → i ≠ g → s'.value i = s.value i :=
  mpz_gcd_ok h hg hu hv ha

def exSt5 : St := ofInts [(2 ^ 100 + 1) * 6 * 2 ^ 70, -(2 ^ 70 + 3) * 15 * 2 ^ 70, 21, 0]
example : look2 (mpz_gcd 1 0 1 exSt5) 2 = .ok [((2 ^ 100 + 1) * 6 * 2 ^ 70, 3, 0), (3 * 2 ^ 70, 3, 1)] := by decide +kernel
example : look2 (mpz_gcd 2 2 1 exSt5) 3 = .ok [((2 ^ 100 + 1) * 6 * 2 ^ 70, 3, 0), (-(2 ^ 70 + 3) * 15 * 2 ^ 70, 3, 1), (3, 1, 2)] := by
  decide +kernel
-- gcd (0, v) with g = u = 0 held in a one-limb block: SIZ (g) is written first, then the block is reallocated and v copied
example : look2 (mpz_gcd 3 3 1 exSt5) 4 = .ok [((2 ^ 100 + 1) * 6 * 2 ^ 70, 3, 0), (-(2 ^ 70 + 3) * 15 * 2 ^ 70, 3, 1), (21, 1, 2),
    ((2 ^ 70 + 3) * 15 * 2 ^ 70, 3, 4)] := by decide +kernel

/-! ## mpz_sqrtrem -/

/-- mpz_sqrtrem (mpz/sqrtrem.c), every choice of root, rem, op with root ≠ rem (root = op: the operand is copied to TMP
    space "Make OP not overlap with ROOT", :74-81; rem = op: mpn_sqrtrem writes the remainder over the operand, which its
    contract allows; a root block that is too small is freed and a new one allocated, :57-70), op ≥ 0:
    root = ⌊√op⌋, rem = op - root², computed from the value of op before the call. -/
theorem sqrtrem_ptr_spec {s : St} (h : Inv s) {root rem op : Nat} (hr : root < s.nv) (hm : rem < s.nv) (ho : op < s.nv)
    (hrm : root ≠ rem) (hop : 0 ≤ s.value op) :
    ∃ s', sqrtrem root rem op s = .ok s' ∧ Inv s' ∧ s'.nv = s.nv ∧
      s'.value root = (Nat.sqrt (s.value op).toNat : Int) ∧
      s'.value rem = s.value op - (Nat.sqrt (s.value op).toNat : Int) * (Nat.sqrt (s.value op).toNat : Int) ∧
      ∀ i, i < s.nv → i ≠ root → i ≠ rem → s'.value i = s.value i :=
  sqrtrem_ok h hr hm ho hrm hop

def exSt4 : St := ofInts [2 ^ 200 + 12345, 2 ^ 70 + 3, 7, 0]
-- root = op (TMP copy of the operand), rem a one-limb variable that must grow to 4 limbs
example : look2 (sqrtrem 0 3 0 exSt4) 4 = .ok [(2 ^ 100, 4, 0), (2 ^ 70 + 3, 2, 1), (7, 1, 2), (12345, 4, 4)] := by decide +kernel
-- rem = op, root a one-limb variable: its block is freed and a 2-limb block allocated
example : look2 (sqrtrem 2 0 0 exSt4) 3 = .ok [(12345, 4, 0), (2 ^ 70 + 3, 2, 1), (2 ^ 100, 2, 4)] := by decide +kernel
-- negative example: without the copy (sqrtrem.c:74-81 removed), root = op
example : errOf2 (sqrtremV { copyNum := false } 0 3 0 exSt4) = "ub:mpn_sqrtrem operands overlap" := by decide

end Mpir.AliasMem
