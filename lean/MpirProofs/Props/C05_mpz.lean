/-
  C05 (aliasing) — mpz functions other than division on the POINTER-LEVEL model (Mpir/Model/AliasMem.lean):
  in-place shifts (offsets inside a block, the overlap rules of mpn_lshift / mpn_rshift / MPN_COPY_INCR / _DECR),
  bit operations (pointer re-reads after `_mpz_realloc`), neg / abs / set.
  Property theorems only; proofs in MpirProofs/Lemmas/AliasShift.lean, AliasBits.lean.
  Same shape as C05_div.lean: every state with the object invariant, EVERY choice of variable ids (so `w = u` is one
  instance), the call succeeds, the invariant holds again, `w` holds the specified value of the values before the
  call, every other variable keeps its value.
-/
import MpirProofs.Lemmas.AliasShift
namespace Mpir.AliasMem
open Mpir

def exSt2 : St := ofInts [2 ^ 200 + 12345, -(2 ^ 70 + 3), 7, 0]
def look2 (r : R St) (k : Nat) : Except String (List (Int × Nat × Nat)) := r.map (·.view k)
def errOf2 (r : R St) : String := match r with | .error e => e | .ok _ => "ok"

/-! ## mpz_mul_2exp, mpz_tdiv_q_2exp -/

/-- mpz_mul_2exp (mpz/mul_2exp.c): `w = u` in place — mpn_lshift / MPN_COPY_DECR write at `wp + limb_cnt` while
    reading `up = wp` (destination above the source: the permitted direction), the carry limb goes above, and
    `MPN_ZERO (wp, limb_cnt)` comes LAST. -/
theorem mul_2exp_ptr_spec {s : St} (h : Inv s) {w u : Nat} (hw : w < s.nv) (hu : u < s.nv) (cnt : Nat) :
    ∃ s', mul_2exp w u cnt s = .ok s' ∧ Inv s' ∧ s'.nv = s.nv ∧ s'.value w = s.value u * 2 ^ cnt ∧
      ∀ i, i < s.nv → i ≠ w → s'.value i = s.value i :=
  mul_2exp_ok h hw hu cnt

-- in place by 70 bits (one whole limb + 6 bits, carry limb, the block moves); by 128 bits (whole limbs only)
example : look2 (mul_2exp 0 0 70 exSt2) 1 = .ok [((2 ^ 200 + 12345) * 2 ^ 70, 6, 4)] := by decide
example : look2 (mul_2exp 1 1 128 exSt2) 2 = .ok [(2 ^ 200 + 12345, 4, 0), (-(2 ^ 70 + 3) * 2 ^ 128, 5, 4)] := by decide
-- negative example: MPN_ZERO before the shift (mul_2exp.c:64-66 "not to lose for U == W") loses u when w = u
example : look2 (mul_2expV { zeroAfterShift := false } 1 1 128 exSt2) 2 = .ok [(2 ^ 200 + 12345, 4, 0), (0, 5, 4)] := by
  decide

/-- mpz_tdiv_q_2exp (mpz/tdiv_q_2exp.c): `w = u` in place — mpn_rshift / MPN_COPY_INCR write at `wp` while reading
    `up + limb_cnt` (destination below the source: the permitted direction). -/
theorem tdiv_q_2exp_ptr_spec {s : St} (h : Inv s) {w u : Nat} (hw : w < s.nv) (hu : u < s.nv) (cnt : Nat) :
    ∃ s', tdiv_q_2exp w u cnt s = .ok s' ∧ Inv s' ∧ s'.nv = s.nv ∧
      s'.value w = Int.tdiv (s.value u) ((2 ^ cnt : Nat) : Int) ∧
      ∀ i, i < s.nv → i ≠ w → s'.value i = s.value i :=
  tdiv_q_2exp_ok h hw hu cnt

example : look2 (tdiv_q_2exp 0 0 70 exSt2) 1 = .ok [((2 ^ 200 + 12345) / 2 ^ 70, 4, 0)] := by decide
example : look2 (tdiv_q_2exp 1 1 64 exSt2) 2 = .ok [(2 ^ 200 + 12345, 4, 0), (-64, 2, 1)] := by decide
-- negative example: the model refuses a shift in the forbidden direction (what an in-place mpn_lshift towards LOWER
-- addresses would be)
example : (match mpn_lshift 0 0 0 1 3 5 exSt2 with | .error e => e | .ok _ => "ok") = "ub:mpn_lshift overlap" := by decide

end Mpir.AliasMem
