/-
  C20 — mpf_class expressions: the expression templates compute exactly the tree of mpf_* calls at the
  precisions mpirxx.h's rule gives, limb for limb, wherever the target occurs in the expression.

  Model: lean/Mpir/Model/CxxF.lean on top of the bit-exact mpf model lean/Mpir/Model/Mpf.lean (property C13).
  `evalTmpF P` = every mpf-typed sub-expression into a fresh temporary of `P` limbs with the C function(s) its
  function object calls (all `r == u` pointer shortcuts of the C off), mpz/mpq-typed operands evaluated exactly
  (`Cxx.evalTmp`, theorems of Props/C20.lean) and converted with mpf_set_z / mpf_set_q at `P` limbs, doubles
  through a 2-limb temporary.  `evalF` = what mpirxx.h does: `__gmp_expr<mpf_t,…>::eval(p)` specialisations,
  `__gmp_temp<mpf_t>` = `mpf_class(expr, mpf_get_prec(p))`, function objects called with the real pointer
  identities (`p` may be an operand).

  Hypotheses are the format rules of mpf (MPF_CHECK_FORMAT: `WF`, in particular at most prec+1 limbs — false only
  after mpf_set_prec_raw, which the manual forbids to keep while computing) and prec ≥ 2 limbs (every mpf_init2).
-/
import MpirProofs.Lemmas.CxxF
namespace Mpir.CxxF
open Mpir Mpir.Cxx Mpir.Mpf

/-- **fnobj_spec (mpf)**: every binary mpf function object (`+ - * / hypot` × mpf/ui/si/double on either side),
    called with a destination that may be one (or both) of its operands, stores what the same C calls give with
    a fresh destination — the `r == u` shortcuts of mpf_add/sub/neg/add_ui/… are invisible for a well-formed
    destination.  Raises exactly when the C function does. -/
theorem fnobj_spec_f (o : FBin) (p : Nat) (a b : FArg) (h : FHeap) (hwf : WF (h.get p)) :
    fnBinF o p a b h = (fnBinV (h.get p).prec o false false (a.val h) (b.val h)).map (h.set p) := by
  have hf : Fit (h.get p).prec (h.get p) := (show Good _ _ from ⟨hwf, rfl⟩).fit
  unfold fnBinF
  rw [fnBinV_flag _ o _ _ _ _ (fit_arg a hf) (fit_arg b hf)]

/-- the unary function objects (`+ - abs sqrt trunc floor ceil`) -/
theorem fnobj_spec_f_un (o : FUn) (p g : Nat) (h : FHeap) (hwf : WF (h.get p)) :
    fnUnF o p g h = (fnUnV (h.get p).prec o false (h.get g)).map (h.set p) := by
  have hf : Fit (h.get p).prec (h.get p) := (show Good _ _ from ⟨hwf, rfl⟩).fit
  unfold fnUnF
  have hfit : (g == p) = true → Fit (h.get p).prec (h.get g) := by
    intro hb
    have e : g = p := by simpa using hb
    rw [e]; exact hf
  rw [fnUnV_flag _ o _ _ hfit]

-- non-vacuity: `f0 = 5 - f0` with f0 = 3 (destination aliased: mpf_sub_ui then mpf_neg in place) gives 2
example : (fnBinF .sub 0 (.bi (.si 5)) (.loc 0) ⟨fun _ => ⟨2, 1, 1, [3]⟩⟩).map (·.get 0) = some ⟨2, 1, 1, [2]⟩ := by decide
-- `f0 = hypot(f0, 4)` with f0 = 3 gives 5 exactly (2 limbs)
example : (fnBinF .hypot 0 (.loc 0) (.bi (.ui 4)) ⟨fun _ => ⟨2, 1, 1, [3]⟩⟩).map (fun h => ((h.get 0).exp, (h.get 0).d.getLast?)) = some (1, some 5) := by
  decide +kernel

/-- **expr_eval_correct (mpf)**.  A whole assignment `f_t = e;` — `f_t` an mpf_class variable that may occur
    anywhere in `e`; `e` any well-typed tree over mpf_class, mpz_class, mpq_class variables (each with its own
    precision), built-ins on either side, unary functions, `hypot`, shifts — as evaluated by mpirxx.h's
    templates, for both answers of `__builtin_constant_p`: it raises iff the evaluation into temporaries raises;
    otherwise `f_t` holds, limb for limb, `evalTmpF P e` with `P` = the precision of the *destination* (not of
    the operands, not `get_prec()` of the expression), and every other variable is unchanged.
    Compound assignments `f_t op= r`, `f_t <<= n` are this theorem for `expandF op t r` / `.sh o (.fv t) n`
    (the tree mpirxx.h's operator builds, mpirxx.h:3188-3207). -/
theorem expr_eval_correct_f (cst : Bool) (KZ : Nat) (zh : Heap) (K t : Nat) (e : FE) (h : FHeap)
    (hwt : e.wt = true) (hz : e.zqOK KZ zh) (ht : t < K) (hb : e.fbelow K)
    (hwf : ∀ i, i < K → WF (h.get i)) (hp : 2 ≤ (h.get t).prec) :
    match evalTmpF (h.get t).prec zh.abs h.get e with
    | none => evalF cst KZ zh K t e h = none
    | some x => ∃ h', evalF cst KZ zh K t e h = some h' ∧ h'.get t = x ∧ ∀ j, j < K → j ≠ t → h'.get j = h.get j :=
  evalF_correct cst KZ zh e hwt hz K t h ht hb hwf hp

/-- **The result does not depend on the alias position of the target**: two targets of equal precision receive
    the same limbs from the same expression, whether or not either of them occurs in it. -/
theorem alias_independent_f (cst : Bool) (KZ : Nat) (zh : Heap) (K t1 t2 : Nat) (e : FE) (h : FHeap)
    (hwt : e.wt = true) (hz : e.zqOK KZ zh) (ht1 : t1 < K) (ht2 : t2 < K) (hb : e.fbelow K)
    (hwf : ∀ i, i < K → WF (h.get i)) (hp : 2 ≤ (h.get t1).prec) (heq : (h.get t1).prec = (h.get t2).prec) :
    (evalF cst KZ zh K t1 e h).map (·.get t1) = (evalF cst KZ zh K t2 e h).map (·.get t2) := by
  have H1 := expr_eval_correct_f cst KZ zh K t1 e h hwt hz ht1 hb hwf hp
  have H2 := expr_eval_correct_f cst KZ zh K t2 e h hwt hz ht2 hb hwf (heq ▸ hp)
  rw [← heq] at H2
  cases hr : evalTmpF (h.get t1).prec zh.abs h.get e with
  | none => rw [hr] at H1 H2; simp only at H1 H2; rw [H1, H2]; rfl
  | some x =>
    rw [hr] at H1 H2
    obtain ⟨h1, e1, x1, _⟩ := H1
    obtain ⟨h2, e2, x2, _⟩ := H2
    rw [e1, e2]; simp [x1, x2]

-- non-vacuity: `f0 = f1 * f0 + f0` with f0 = 3 (2 limbs), f1 = 2^64+1 (3 limbs): the strategy multiplies into a temporary
-- because the destination is the right leaf; the result 3·(2^64+1)+3 is kept exactly in 2+1 limbs.
example : (evalF false 4 ⟨fun _ => 1⟩ 3 0 (.bin .add (.bin .mul (.fv 1) (.fv 0)) (.fv 0))
    ⟨fun i => if i = 0 then ⟨2, 1, 1, [3]⟩ else ⟨3, 2, 2, [1, 1]⟩⟩).map (fun h => (h.get 0, (h.get 3).prec)) =
    some (⟨2, 2, 2, [6, 3]⟩, 2) := by decide +kernel
-- the same expression into a different target of the same precision gives the same limbs
example : (evalF false 4 ⟨fun _ => 1⟩ 3 2 (.bin .add (.bin .mul (.fv 1) (.fv 0)) (.fv 0))
    ⟨fun i => if i = 1 then ⟨3, 2, 2, [1, 1]⟩ else ⟨2, 1, 1, [3]⟩⟩).map (fun h => h.get 2) = some ⟨2, 2, 2, [6, 3]⟩ := by decide +kernel
-- an exception of the temporaries semantics is an exception of the templates: `f0 = f1 / (f0 - f0)`
example : evalF true 4 ⟨fun _ => 1⟩ 3 0 (.bin .div (.fv 1) (.bin .sub (.fv 0) (.fv 0))) ⟨fun _ => ⟨2, 1, 1, [3]⟩⟩ = none := by decide +kernel

end Mpir.CxxF
