/-
  C10 part `swar` — the SWAR bit counting of mpn/generic/popcount.c (model: Mpir/Model/Swar.lean, namespace `Mpir.Swar`).
  Property theorems only; helper lemmas live in MpirProofs/Lemmas/Swar.lean.  `mapB f 8 x` is Σ_{i<8} f(byte_i x)·256^i
  (the word whose byte i is f of byte i of x); `n4 b` holds in its two nibbles the bit counts of the two nibbles of b.

  PROVED here, for EVERY 64-bit limb: the per-limb reduction (popcount.c:53-55: field-wise action, no overflow between
  fields, fields add up to the limb's bit count), the whole 4-limb block (:53-80, block_eq, block_le_256) and the tail
  loop's per-limb step (:96-99, tailLimb_fields).
  and the tail (tail_eq), the outer loop, hence popcount_swar_eq(_mod), hamdist_swar_eq and the digit-sum corollaries.
-/
import MpirProofs.Lemmas.Swar
import MpirProofs.Props.C10
namespace Mpir.Swar
open Mpir

/-- popcount.c:53-55 (`p0 -= (p0 >> 1) & MAX/3; p0 = ((p0 >> 2) & MAX/5) + (p0 & MAX/5);`, comment "4 0-4"): for every
    limb u < 2^64 the result consists of sixteen 4-bit fields and field j holds the number of one bits of nibble j of u
    (stated per byte: byte i of the result is popc(low nibble of byte i of u) + 16·popc(high nibble)); in particular no
    step wraps modulo 2^64 and no field overflows into its neighbour. -/
theorem limb4_fields (u : Nat) (hu : u < B) : limb4 u = mapB n4 8 u := limb4_bytes u hu
example : limb4 0xffff00000f0100f3 = 0x4444000004010042 := by decide

/-- popcount.c:53-55 computes the bit count of the limb, spread over its sixteen 4-bit fields: for every limb u < 2^64
    the fields of `limb4 u` (two per byte: b % 16 and b / 16, summed over the 8 bytes) add up to `Bits.popc u`, the
    per-limb bit count that the "by meaning" model Bits.mpn_popcount of part c10_bits sums. -/
theorem limb4_popc (u : Nat) (hu : u < B) : sumB (fun b => b % 16 + b / 16) 8 (limb4 u) = Bits.popc u := limb4_sum u hu
example : sumB (fun b => b % 16 + b / 16) 8 (limb4 0xffff00000f0100f3) = 27 ∧ Bits.popc 0xffff00000f0100f3 = 27 := by decide

/-- the range comment "4 0-4" of popcount.c:55: every 4-bit field of `n4 b` is at most 4, and the two fields add up to
    the bit count of the byte. -/
theorem n4_range : ∀ b, b < 256 → n4 b % 16 ≤ 4 ∧ n4 b / 16 ≤ 4 ∧ n4 b % 16 + n4 b / 16 = pc8 b := by decide +kernel
example : n4 0xf7 = 0x43 := by decide

/-- popcount.c:54 alone ("2 0-2"): for every limb, `p0 - ((p0 >> 1) & MAX/3)` does not borrow and acts on each byte
    separately as b ↦ b - ((b/2) & 0x55). -/
theorem red2_fields (x : Nat) (hx : x < B) : red2 x = mapB h1 8 x := red2_bytes x hx
example : red2 0xff03 = 0xaa02 := by decide

/-- popcount.c:55 alone: for every word, `((p >> 2) & MAX/5) + (p & MAX/5)` acts on each byte separately, without
    wrap-around. -/
theorem red4_fields (p : Nat) : red4 p = mapB h2 8 p := red4_bytes p
example : red4 0xaa02 = 0x4402 := by decide

/-- popcount.c:53-80, the body of the 4-limb unrolled loop: for ALL limbs u0..u3 < 2^64 the value added to `result`
    is the exact number of one bits of the four limbs.  (Proof: p01/p23 have byte fields popc(byte of u0)+popc(byte of u1)
    ≤ 16 — comment "8 0-16"; their sum has fields ≤ 32 — "8 0-32"; the folds :76, :77 add fields without a carry crossing
    a byte — "8 0-64", "8 0-128"; :79 adds the two masked half sums.) -/
theorem block_eq (u0 u1 u2 u3 : Nat) (h0 : u0 < B) (h1 : u1 < B) (h2 : u2 < B) (h3 : u3 < B) :
    block u0 u1 u2 u3 = Bits.popc u0 + Bits.popc u1 + Bits.popc u2 + Bits.popc u3 := block_popc u0 u1 u2 u3 h0 h1 h2 h3
example : block 0xff (B - 1) 0 0x8000000000000001 = 74 := by decide

/-- range comment "8 0-256" of popcount.c:79: a block contributes at most 256 (and 256 is attained, see the examples
    below: it does not fit a byte field, which is why :79 masks before adding). -/
theorem block_le_256 (u0 u1 u2 u3 : Nat) (h0 : u0 < B) (h1 : u1 < B) (h2 : u2 < B) (h3 : u3 < B) :
    block u0 u1 u2 u3 ≤ 256 := by
  rw [block_eq u0 u1 u2 u3 h0 h1 h2 h3]
  have := popc_le_64 u0; have := popc_le_64 u1; have := popc_le_64 u2; have := popc_le_64 u3
  omega
example : block (B - 1) (B - 1) (B - 1) (B - 1) = 256 := by decide

/-- popcount.c:96-99, the per-limb step of the tail loop: for every limb u < 2^64 the value added to x has eight byte
    fields and field i is the bit count of byte i of u (comment "8 0-8"); `(p0 >> 4) + p0` neither wraps nor carries
    into a neighbouring byte before the mask. -/
theorem tailLimb_fields (u : Nat) (hu : u < B) : tailLimb u = mapB pc8 8 u := tailLimb_bytes u hu
example : tailLimb 0xffff00000f0100f3 = 0x0808000004010006 := by decide

/-- popcount.c:93-114, the tail for the n & 3 remaining limbs (any list of at most 3 limbs, all contents): the byte
    fields of x stay ≤ 24 during the accumulation :101 (no carry between fields, no wrap), the folds :109-112 add them
    and the masked byte :114 is exactly the number of one bits of the remaining limbs (≤ 192, fits the byte). -/
theorem tail_eq (us : List Nat) (hl : Limbs us) (hn : us.length ≤ 3) :
    tailFin (tailLoop us 0) = Bits.mpn_popcount us := tail_popc us hl hn
example : tailFin (tailLoop [B - 1, B - 1, B - 1] 0) = 192 := by decide

/-- mpn_popcount of popcount.c, statement by statement, equals for EVERY limb list (all lengths, all contents) the
    "by meaning" model of part c10_bits (sum of the per-limb bit counts), reduced modulo 2^64 because `result` is an
    mp_bitcnt_t.  This closes the TRUSTED item of c10_bits about the SWAR loop. -/
theorem popcount_swar_eq_mod (u : List Nat) (hu : Limbs u) : mpn_popcount u = Bits.mpn_popcount u % B :=
  popcount_mod u hu
example : mpn_popcount [B - 1, 0, 5, 7, B - 1, 1] = 134 ∧ Bits.mpn_popcount [B - 1, 0, 5, 7, B - 1, 1] = 134 := by decide

/-- … and without the modulus whenever the count is representable (64·n < 2^64, true for every operand that fits
    in memory). -/
theorem popcount_swar_eq (u : List Nat) (hu : Limbs u) (hn : 64 * u.length < B) :
    mpn_popcount u = Bits.mpn_popcount u := by
  rw [popcount_swar_eq_mod u hu, Nat.mod_eq_of_lt (Nat.lt_of_le_of_lt (psum_le u) hn)]
example : mpn_popcount [B - 1, B - 1, B - 1, B - 1, 3] = 258 := by decide

/-- mpn_hamdist (hamdist.c = the same code with POPHAM(u,v) = u ^ v) equals the by-meaning model for all operand
    pairs of equal length (the C's precondition: one size n for both). -/
theorem hamdist_swar_eq (u v : List Nat) (hu : Limbs u) (hv : Limbs v) (hl : u.length = v.length)
    (hn : 64 * u.length < B) : mpn_hamdist u v = Bits.mpn_hamdist u v := by
  obtain ⟨_, l, len⟩ := Bits.xor_n_spec u v hu hv hl
  show mpn_popcount (Bits.xor_n u v) = Bits.mpn_popcount (Bits.xor_n u v)
  exact popcount_swar_eq _ l (by rw [len]; exact hn)
example : mpn_hamdist [B - 1, 1, 0, 7, 9] [0, 3, 0, 7, 8] = 66 := by decide

/-- the SWAR code computes the plain bit count: the sum of the binary digits of the operand's value. -/
theorem popcount_swar_digits (u : List Nat) (hu : Limbs u) (hn : 64 * u.length < B) :
    mpn_popcount u = (Nat.digits 2 (val u)).sum := by
  rw [popcount_swar_eq u hu hn, Bits.mpn_popcount_spec u hu]

/-- the SWAR hamming distance is the number of differing bit positions. -/
theorem hamdist_swar_digits (u v : List Nat) (hu : Limbs u) (hv : Limbs v) (hl : u.length = v.length)
    (hn : 64 * u.length < B) : mpn_hamdist u v = (Nat.digits 2 (val u ^^^ val v)).sum := by
  rw [hamdist_swar_eq u v hu hv hl hn, Bits.mpn_hamdist_spec u v hu hv hl]
example : mpn_hamdist [B - 1, 1] [0, 3] = 65 := by decide

/-! popcount.c:79 masks BEFORE adding: a full block contributes 256, which does not fit the byte field.  The variant
    `x = (x >> 32) + x; … x & 0xff` (what the tail at :112-114 does, where at most 3 limbs = 192 bits arrive) is WRONG
    for the block: on four all-ones limbs it yields 0. -/
example : block (B - 1) (B - 1) (B - 1) (B - 1) = 256 := by decide
example : blockWrong (B - 1) (B - 1) (B - 1) (B - 1) = 0 := by decide
example : blockWrong (B - 1) (B - 1) (B - 1) (B - 1) ≠ block (B - 1) (B - 1) (B - 1) (B - 1) := by decide
example : mpn_popcount [B - 1, B - 1, B - 1, B - 1, B - 1, 0, 5] = 322 := by decide
example : mpn_hamdist [B - 1, 1, 0, 7, 9] [0, 3, 0, 7, 8] = 66 := by decide

end Mpir.Swar
