/-
  C02 (multi-limb layer) — division with a precomputed Newton inverse (mpn/generic/invert.c, inv_div_qr_n.c).
  Property theorems only; helper lemmas live in MpirProofs/Lemmas/InvDiv.lean.  The theorems are about the executable
  value-level model Mpir/Model/InvDiv.lean, which the correspondence check runs against the real functions
  (ops `inv_is_invert`, `inv_invert`, `inv_div_qr_n`, `inv_div_qr_n_auto`) on every run.
-/
import MpirProofs.Lemmas.InvDiv
namespace Mpir.InvDiv
open Mpir

/-- mpn_is_invert (xp, ap, n), invert.c:37-66, decides exactly the contract written in the header comment of mpn_invert
    (invert.c:68-77): with X = B^n + {xp, n},  A·X < B^(2n) ≤ A·(X+1).  (A ≠ 0; for A = 0 the C returns 1.) -/
theorem isInvert_iff (n X A : Nat) (hA : 0 < A) :
    isInvert n X A = true ↔ (B ^ n + X) * A < B ^ (2 * n) ∧ B ^ (2 * n) ≤ (B ^ n + X + 1) * A :=
  isInvert_iff' n X A hA

example : isInvert 1 1 (B - 1) = true ∧ isInvert 1 2 (B - 1) = false ∧ isInvert 1 0 (B - 1) = false := by decide

/-- inv_div_qr_n.c:45-49 (`if (mpn_cmp (np + dn, dp, dn) >= 0) { ret2 = 1; mpn_sub_n (np + dn, np + dn, dp, dn); }`):
    for a normalised D and any 2dn-limb N the area afterwards is N - ret2·D·B^dn, which is below D·B^dn. -/
theorem reduceTop_exact (dn N D : Nat) (hnorm : B ^ dn ≤ 2 * D) (hN : N < B ^ dn * B ^ dn) :
    let ret2 := if D ≤ N / B ^ dn then 1 else 0
    reduceTop dn N D = (N - ret2 * (D * B ^ dn), ret2) ∧ N - ret2 * (D * B ^ dn) < D * B ^ dn ∧
      ret2 * (D * B ^ dn) ≤ N :=
  reduceTop_eq dn N D hnorm hN

example : reduceTop 1 (B * (B - 1) + 5) (B - 2) = (B * 1 + 5, 1) := by decide

/-- The quotient estimate of mpn_inv_div_qr_n, inv_div_qr_n.c:51-73, for dn = j+1 limbs, on the reduced dividend
    N1 < D·B^dn with X = B^dn + inv, D·X ≤ B^(2dn): the limb code (mpn_mul, add_ssaaaa, two additions, the `ret`
    bookkeeping and its two ASSERTs) computes max(⌊W·X/B^(dn+1)⌋ - 1, 0), W = ⌊N1/B^(dn-1)⌋, with ret = 0 and both
    ASSERT (ret == 0) true; in particular the branch `ret == 1` of :63-67 is dead. -/
theorem estimate_exact (j N1 D inv : Nat) (hN1 : N1 < D * B ^ (j+1))
    (hDX : D * (B ^ (j+1) + inv) ≤ B ^ j * B ^ (j+2)) :
    estimate (j+1) N1 inv = ((N1 / B ^ j) * (B ^ (j+1) + inv) / B ^ (j+2) - 1, 0, true) :=
  estimate_eq j N1 D inv hN1 hDX

example : estimate 1 (5 * (B - 1) + 7) 1 = (4, 0, true) := by decide

/-- The inequalities of the comment inv_div_qr_n.c:57-62 in integer form: with P = B^(dn-1), E = B^(dn+1),
    D·X ≤ P·E ≤ D·(X+1), W = ⌊N1/P⌋ < E, X + 1 ≤ E, the estimate qf = ⌊W·X/E⌋ satisfies qf·D ≤ N1 < (qf+3)·D: after the
    unconditional decrement of :69 at most 3 rounds of the final loop are needed and N1 - q·D < 4·D < B^(dn+1). -/
theorem estimate_bounds (P E D X W N1 qf : Nat) (hE : 0 < E) (hD : 0 < D) (hDX : D * X ≤ P * E)
    (hXD : P * E ≤ D * (X + 1)) (hW : W * P ≤ N1) (hW' : N1 < (W + 1) * P) (hqf : qf * E ≤ W * X)
    (hqf' : W * X < (qf + 1) * E) (hWE : W < E) (hXE : X + 1 ≤ E) :
    qf * D ≤ N1 ∧ N1 < (qf + 3) * D :=
  ⟨est_le P E D X W N1 qf hE hDX hW hqf, est_ge P E D X W N1 qf hD hXD hW' hqf' hWE hXE⟩

example : (3 : Nat) * 7 ≤ 25 ∧ 25 < (3 + 3) * 7 := by decide

/-- The final loop of mpn_inv_div_qr_n, inv_div_qr_n.c:99-103, started on an area r < B^(dn+1) with enough fuel and room
    in the quotient: it ends with q + ⌊r/D⌋, r mod D, after exactly ⌊r/D⌋ rounds, and `ret` is unchanged. -/
theorem finalLoop_exact (dn D : Nat) (hD0 : 0 < D) (hD : D < B ^ dn) (fuel : Nat) (s : Loop) (hret : s.ret < B)
    (hr : s.r < B ^ (dn + 1)) (hf : s.r / D ≤ fuel) (hq : s.q + s.r / D < B ^ dn) :
    corrLoop dn D fuel s = { q := s.q + s.r / D, ret := s.ret, r := s.r % D, adds := s.adds + s.r / D } :=
  corrLoop_spec dn D hD0 hD fuel s hret hr hf hq

example : corrLoop 1 (B - 1) 8 { q := 4, ret := 0, r := 2 * (B - 1) + 3, adds := 0 } = { q := 6, ret := 0, r := 3, adds := 2 } := by decide

end Mpir.InvDiv
