/-
  C02 (multi-limb layer) — division with a precomputed Newton inverse (mpn/generic/invert.c, inv_div_qr_n.c).
  Property theorems only; helper lemmas live in MpirProofs/Lemmas/InvDiv.lean.  The theorems are about the executable
  value-level model Mpir/Model/InvDiv.lean, which the correspondence check runs against the real functions
  (ops `inv_is_invert`, `inv_invert`, `inv_div_qr_n`, `inv_div_qr_n_auto`) on every run.
-/
import MpirProofs.Lemmas.InvDiv
namespace Mpir.InvDiv
open Mpir

/-- mpn_is_invert (xp, ap, n), invert.c:37-66, decides exactly the contract written in the header comment of mpn_invert
    (invert.c:68-77): with X = B^n + {xp, n},  A·X < B^(2n) ≤ A·(X+1).  (A ≠ 0; for A = 0 the C returns 1.) -/
theorem isInvert_iff (n X A : Nat) (hA : 0 < A) :
    isInvert n X A = true ↔ (B ^ n + X) * A < B ^ (2 * n) ∧ B ^ (2 * n) ≤ (B ^ n + X + 1) * A :=
  isInvert_iff' n X A hA

example : isInvert 1 1 (B - 1) = true ∧ isInvert 1 2 (B - 1) = false ∧ isInvert 1 0 (B - 1) = false := by decide

end Mpir.InvDiv
