/-
  C01 (FFT ring layer) — the arithmetic between "the FFT parameters are sound" and "the product is right":
  residues modulo p = 2^(64·n)+1 held in n+1 limbs whose top limb is a SIGNED carry (`rval`), as the code of
  /repo/fft manipulates them.  Property theorems only; lemmas in MpirProofs/Lemmas/FftRing*.lean.
  Every theorem is about the executable limb-level models of Mpir/Model/FftRing.lean (statement-by-statement
  mirrors of fft/*.c), which the correspondence check runs bit-exact against the real functions on every run.

  `rval x = val(low n limbs) + B^n · (signed top limb)`, `pmod n = B^n + 1`.
  Top-limb hypotheses (all far beyond what the transforms produce — their top limbs stay within a few units):
    `TopSmall x`  signed top limb strictly between ±2^62: the sum or difference of two top limbs does not overflow;
    `Top61 x`     in [−2^61, 2^61);   `TopTiny x`  in [−2^59, 2^59)  (the √2 paths chain several operations).

  Theorems:  normmod_val · mul_2expmod_val · div_2expmod_val · adjust_val · butterfly_val · ifft_butterfly_val ·
    split_bits_val · combine_bits_eval (+ rval_of_small) · split_combine_id · mulmod_2expp1_basecase_val ·
    mulmod_Bexpp1_val · sqrt2_sq · adjust_sqrt2_val · butterfly_sqrt2_val · ifft_butterfly_sqrt2_val ·
    sqrt2_twiddle_inverse.
  Not proved here (models exist and are run bit-exact against the library): mpir_butterfly_lshB/rshB with a
  non-zero first shift x and the MFA twiddle butterflies built on them; the transforms themselves.
-/
import MpirProofs.Lemmas.FftRingBfly
import MpirProofs.Lemmas.FftRingCombine
import MpirProofs.Lemmas.FftRingMulmod
import MpirProofs.Lemmas.FftRingMulmodK
import MpirProofs.Lemmas.FftRingSqrt2
namespace Mpir.Fft
open Mpir

/-- a residue vector is `xs ++ [t]` -/
private theorem as_snoc (x : List Nat) (n : Nat) (hl : x.length = n + 1) :
    ∃ xs t, x = xs ++ [t] ∧ xs.length = n := exists_snoc x n hl

/-- mpn_normmod_2expp1 (precondition: the top limb is not LONG_MIN — the C computes `-hi`): the value is
    preserved modulo p and the result is fully reduced: top limb 0, or (0,…,0,1) for the single value 2^(64n);
    hence 0 ≤ value ≤ p − 1. -/
theorem normmod_val (x : List Nat) (n : Nat) (hx : Limbs x) (hl : x.length = n + 1) (hn : 1 ≤ n)
    (hmin : top x ≠ B / 2) :
    (normmod x).length = n + 1 ∧ Limbs (normmod x) ∧
    rval (normmod x) ≡ rval x [ZMOD pmod n] ∧
    (top (normmod x) = 0 ∨ (top (normmod x) = 1 ∧ val (lo (normmod x)) = 0)) ∧
    0 ≤ rval (normmod x) ∧ rval (normmod x) ≤ pmod n - 1 := by
  obtain ⟨xs, t, rfl, hxs⟩ := as_snoc x n hl
  simp only [top_snoc] at hmin
  obtain ⟨ys, g, e, l, hL, hc, hr⟩ := normmod_spec xs t hx (by omega) hmin
  have rg := canonical_range ys g hL hc
  rw [e, hxs] at *
  refine ⟨by simp [l], hL, hr, hc, rg.1, ?_⟩
  unfold pmod; rw [l] at rg; linarith [rg.2]

-- non-vacuity: −1 held as (B−1, −1) normalises to 2^64 = (0, 1); 3·2^64 + 5 ≡ 2; p = (1, 1) to 0; −2·2^64 ≡ 2
example : normmod [B - 1, B - 1] = [0, 1] := by decide
example : normmod [5, 3] = [2, 0] := by decide
example : normmod [1, 1] = [0, 0] := by decide
example : normmod [0, B - 2] = [2, 0] := by decide

/-- mpn_mul_2expmod_2expp1 (0 < d < 64): multiplication by 2^d modulo p for EVERY input (no condition on the
    top limb), and the range of the result: with q = ⌊signed top / 2^(64−d)⌋ (the bits shifted out),
    −B·(q+1) < value < B^n − B·q; for the small top limbs of the FFT (|top| < 2^(64−d), q ∈ {−1, 0})
    that is −B < value < B^n + B. -/
theorem mul_2expmod_val (x : List Nat) (n d : Nat) (hx : Limbs x) (hl : x.length = n + 1) (hn : 1 ≤ n)
    (hd1 : 1 ≤ d) (hd : d < 64) :
    (mul_2expmod x d).length = n + 1 ∧ Limbs (mul_2expmod x d) ∧
    rval (mul_2expmod x d) ≡ rval x * 2 ^ d [ZMOD pmod n] ∧
    -((B : Int) * (sint (top x) / 2 ^ (64 - d) + 1)) < rval (mul_2expmod x d) ∧
    rval (mul_2expmod x d) < (B : Int) ^ n - (B : Int) * (sint (top x) / 2 ^ (64 - d)) := by
  obtain ⟨xs, t, rfl, hxs⟩ := as_snoc x n hl
  obtain ⟨ys, g, e, l, hL, hr, b1, b2⟩ := mul_2expmod_spec xs t d hx (by omega) hd1 (by omega)
  rw [e, hxs] at *
  simp only [top_snoc]
  exact ⟨by simp [l], hL, hr, b1, b2⟩

/-- d = 0 copies -/
theorem mul_2expmod_zero (x : List Nat) : mul_2expmod x 0 = x := by simp [mul_2expmod]

-- non-vacuity: 2^63·2 = 2^64 ≡ −1, which the C leaves as (B−1, −1); and (7 − 2^64)·8 ≡ 56 + 8 = 64
example : mul_2expmod [2 ^ 63, 0] 1 = [B - 1, B - 1] := by decide
example : rval (mul_2expmod [7, B - 1] 3) = 64 := by decide

/-- mpn_div_2expmod_2expp1 (0 < d < 64): division by 2^d modulo p for every input; the result lies within one
    modulus-width of ⌊signed top / 2^d⌋·B^n (so its top limb is that quotient or one less). -/
theorem div_2expmod_val (x : List Nat) (n d : Nat) (hx : Limbs x) (hl : x.length = n + 1) (hn : 1 ≤ n)
    (hd1 : 1 ≤ d) (hd : d < 64) :
    (div_2expmod x d).length = n + 1 ∧ Limbs (div_2expmod x d) ∧
    rval (div_2expmod x d) * 2 ^ d ≡ rval x [ZMOD pmod n] ∧
    (sint (top x) / 2 ^ d - 1) * (B : Int) ^ n < rval (div_2expmod x d) ∧
    rval (div_2expmod x d) < (sint (top x) / 2 ^ d + 1) * (B : Int) ^ n := by
  obtain ⟨xs, t, rfl, hxs⟩ := as_snoc x n hl
  obtain ⟨ys, g, e, l, hL, hr, b1, b2⟩ := div_2expmod_spec xs t d hx (by omega) hd1 (by omega)
  rw [e, hxs] at *
  simp only [top_snoc]
  exact ⟨by simp [l], hL, hr, b1, b2⟩

theorem div_2expmod_zero (x : List Nat) : div_2expmod x 0 = x := by simp [div_2expmod]

-- non-vacuity: 1/2 modulo 2^64+1 (checked by value), and an exact division
example : (rval (div_2expmod [1, 0] 1) * 2 - 1) % pmod 1 = 0 := by decide
example : div_2expmod [8, 0] 3 = [1, 0] := by decide

/-- mpir_fft_adjust (i·w < 64·n as in the transforms; top limb not LONG_MIN): multiplication by 2^(i·w). -/
theorem adjust_val (x : List Nat) (n i w : Nat) (hx : Limbs x) (hl : x.length = n + 1)
    (hiw : i * w < 64 * n) (hmin : top x ≠ B / 2) :
    (adjust x i w).length = n + 1 ∧ Limbs (adjust x i w) ∧
    rval (adjust x i w) ≡ rval x * 2 ^ (i * w) [ZMOD pmod n] := by
  obtain ⟨xs, t, rfl, hxs⟩ := as_snoc x n hl
  simp only [top_snoc] at hmin
  obtain ⟨ys, g, e, l, hL, hr⟩ := adjust_spec xs t i w hx (by rw [hxs]; exact hiw) hmin
  rw [e, hxs] at *
  exact ⟨by simp [l], hL, hr⟩

-- non-vacuity: 1·2^(3·43) = 2^129 modulo B²+1: a two-limb rotation with negation plus one bit
example : (rval (adjust [1, 0, 0] 3 43) - 2 ^ 129) % pmod 2 = 0 := by decide
example : adjust [1, 0, 0] 3 43 ≠ [1, 0, 0] := by decide

/-- mpir_fft_butterfly (i·w < 64·n, both top limbs strictly between ±2^62):
    (s, t) = (a + b, (a − b)·2^(i·w)) modulo p. -/
theorem butterfly_val (a b : List Nat) (n i w : Nat) (ha : Limbs a) (hb : Limbs b)
    (hla : a.length = n + 1) (hlb : b.length = n + 1) (hiw : i * w < 64 * n)
    (ta : TopSmall a) (tb : TopSmall b) :
    (fft_butterfly a b i w).1.length = n + 1 ∧ (fft_butterfly a b i w).2.length = n + 1 ∧
    Limbs (fft_butterfly a b i w).1 ∧ Limbs (fft_butterfly a b i w).2 ∧
    rval (fft_butterfly a b i w).1 ≡ rval a + rval b [ZMOD pmod n] ∧
    rval (fft_butterfly a b i w).2 ≡ (rval a - rval b) * 2 ^ (i * w) [ZMOD pmod n] := by
  obtain ⟨A, h1, rfl, hA⟩ := as_snoc a n hla
  obtain ⟨C, h2, rfl, hC⟩ := as_snoc b n hlb
  obtain ⟨ss, sg, ts, tg, e, l1, l2, L1, L2, r1, r2⟩ :=
    fft_butterfly_spec A C h1 h2 i w ha hb (by omega) (by rw [hA]; exact hiw) ta tb
  rw [e, hA] at *
  exact ⟨by simp [l1], by simp [l2], L1, L2, r1, r2⟩

-- non-vacuity (n = 2, twiddle 2^70 = one limb and six bits)
example : (rval (fft_butterfly [5, 7, 1] [9, 2, B - 1] 10 7).1 - (rval [5, 7, 1] + rval [9, 2, B - 1])) % pmod 2 = 0 := by decide
example : (rval (fft_butterfly [5, 7, 1] [9, 2, B - 1] 10 7).2 - (rval [5, 7, 1] - rval [9, 2, B - 1]) * 2 ^ 70) % pmod 2 = 0 := by
  decide

/-- mpir_ifft_butterfly: (s, t) = (a + b/2^(i·w), a − b/2^(i·w)) modulo p, stated without division. -/
theorem ifft_butterfly_val (a b : List Nat) (n i w : Nat) (ha : Limbs a) (hb : Limbs b)
    (hla : a.length = n + 1) (hlb : b.length = n + 1) (hiw : i * w < 64 * n)
    (ta : TopSmall a) (tb : TopSmall b) :
    (ifft_butterfly a b i w).1.length = n + 1 ∧ (ifft_butterfly a b i w).2.1.length = n + 1 ∧
    Limbs (ifft_butterfly a b i w).1 ∧ Limbs (ifft_butterfly a b i w).2.1 ∧
    rval (ifft_butterfly a b i w).1 * 2 ^ (i * w) ≡ rval a * 2 ^ (i * w) + rval b [ZMOD pmod n] ∧
    rval (ifft_butterfly a b i w).2.1 * 2 ^ (i * w) ≡ rval a * 2 ^ (i * w) - rval b [ZMOD pmod n] := by
  obtain ⟨A, h1, rfl, hA⟩ := as_snoc a n hla
  obtain ⟨C, h2, rfl, hC⟩ := as_snoc b n hlb
  obtain ⟨ss, sg, ts, tg, i2', e, l1, l2, L1, L2, r1, r2⟩ :=
    ifft_butterfly_spec A C h1 h2 i w ha hb (by omega) (by rw [hA]; exact hiw) ta tb
  rw [e, hA] at *
  exact ⟨by simp [l1], by simp [l2], L1, L2, r1, r2⟩

example : (rval (ifft_butterfly [5, 7, 1] [9, 2, B - 1] 10 7).1 * 2 ^ 70 - (rval [5, 7, 1] * 2 ^ 70 + rval [9, 2, B - 1])) % pmod 2 = 0 := by
  decide

/-! ### splitting into coefficients and recombination

`polyEval bits cs = Σ_j val(c_j)·2^(j·bits)`.  Coefficient buffers have `ol + 1` limbs (`ol` = output_limbs). -/

/-- mpir_fft_split_bits (total_limbs ≥ 1, bits ≥ 1, a coefficient's ⌈bits/64⌉ limbs fit the buffer): the
    ⌈64·total/bits⌉ coefficients are the base-2^bits digits of the operand — they evaluate back to it and each is
    below 2^bits — in zero-padded buffers of ol+1 proper limbs. -/
theorem split_bits_val (x : List Nat) (bits ol : Nat) (hx : Limbs x) (hn : 1 ≤ x.length) (hb : 1 ≤ bits)
    (hol : (bits + 63) / 64 ≤ ol + 1) :
    polyEval bits (split_bits x bits ol) = val x ∧
    (∀ c ∈ split_bits x bits ol, c.length = ol + 1 ∧ Limbs c ∧ val c < 2 ^ bits) ∧
    (split_bits x bits ol).length = (64 * x.length - 1) / bits + 1 :=
  split_bits_spec x bits ol hx hn hb hol

-- non-vacuity: 28-bit coefficients of a one-limb operand (the first FFT size: depth 6, w 1), and a limb-aligned split
example : split_bits [0xfedcba9876543210] 28 1 = [[0x6543210, 0], [0xdcba987, 0], [0xfe, 0]] := by decide
example : split_bits [1, 2, 3] 128 2 = [[1, 2, 0], [3, 0, 0]] := by decide

/-- mpir_fft_combine_bits into a zeroed destination (as every caller prepares it), for coefficients whose value
    fits `ol` limbs (top limb zero — what mpn_normmod_2expp1 leaves for every coefficient of a product):
    the result is Σ c_j·2^(j·bits) truncated to the destination's length.  With top limb zero
    `rval c = val c`, so this is the sum of the residue values. -/
theorem combine_bits_eval (res : List Nat) (cs : List (List Nat)) (bits ol : Nat) (hr : Limbs res)
    (hz : val res = 0) (hb : 1 ≤ bits)
    (hcs : ∀ c ∈ cs, c.length = ol + 1 ∧ Limbs c ∧ val c < B ^ ol) :
    (combine_bits res cs bits ol).length = res.length ∧ Limbs (combine_bits res cs bits ol) ∧
    val (combine_bits res cs bits ol) = polyEval bits cs % B ^ res.length :=
  combine_bits_spec res cs bits ol hr hz hb hcs

/-- for such coefficients the signed residue value is the plain value -/
theorem rval_of_small (c : List Nat) (ol : Nat) (hl : c.length = ol + 1) (hc : Limbs c) (hv : val c < B ^ ol) :
    rval c = val c := by
  obtain ⟨cs, t, rfl, hcs⟩ := as_snoc c ol hl
  have ⟨hL, ht⟩ := Limbs_snoc.mp hc
  rw [rval_snoc, val_snoc, hcs] at *
  have : t = 0 := by
    by_contra hne
    have : B ^ ol * 1 ≤ B ^ ol * t := Nat.mul_le_mul_left _ (Nat.one_le_iff_ne_zero.mpr hne)
    omega
  subst this; simp

-- non-vacuity: three 28-bit coefficients, overlapping sums with carries across the limb boundary
example : combine_bits [0, 0] [[0xfffffff, 0], [0xfffffff, 0], [0xfffffff, 0]] 28 1 = [0xffffffffffffffff, 0xfffff] := by
  decide
example : combine_bits [0, 0, 0] [[B - 1, 0], [B - 1, 0], [5, 0]] 64 1 = [B - 1, B - 1, 5] := by decide

/-- split followed by combine into a zeroed destination of the operand's length is the identity
    (coefficients of at most 64·ol bits). -/
theorem split_combine_id (x : List Nat) (bits ol : Nat) (hx : Limbs x) (hn : 1 ≤ x.length) (hb : 1 ≤ bits)
    (hol : bits ≤ 64 * ol) :
    combine_bits (List.replicate x.length 0) (split_bits x bits ol) bits ol = x :=
  split_combine x bits ol hx hn hb hol

example : combine_bits [0, 0] (split_bits [0xfedcba9876543210, 0x123] 37 1) 37 1 = [0xfedcba9876543210, 0x123] := by
  decide

/-! ### the pointwise product -/

/-- mpn_mulmod_2expp1_basecase for every b ≥ 1 (n = ⌈b/64⌉ limbs, operands below 2^b as the C ASSERTs) on the
    path that does not enter mpir_fft_mulmod_2expp1, with mpn_mul_n taken as the exact product:
    `ret·2^b + x ≡ y·z (mod 2^b + 1)`, where an operand whose flag bit in `c` is set stands for 2^b; the result is
    fully reduced (`x + 2^b·ret ≤ 2^b`, ret ∈ {0, 1}).  Both the whole-limb path (:103-105) and the masked, shifted
    path for b mod 64 ≠ 0 (:108-123) are covered.  Not modelled (hence not covered): the branch into
    mpir_fft_mulmod_2expp1 taken for b = 64·n, n > FFT_MULMOD_2EXPP1_CUTOFF, n = mpir_fft_adjust_limbs(n). -/
theorem mulmod_2expp1_basecase_val (yp zp : List Nat) (c b : Nat) (hb : 1 ≤ b) (hy : Limbs yp) (hz : Limbs zp)
    (hly : yp.length = (b + 63) / 64) (hlz : zp.length = (b + 63) / 64)
    (hyb : val yp < 2 ^ b) (hzb : val zp < 2 ^ b) :
    (mulmod_2expp1_basecase yp zp c b).1.length = (b + 63) / 64 ∧ Limbs (mulmod_2expp1_basecase yp zp c b).1 ∧
    (mulmod_2expp1_basecase yp zp c b).2 ≤ 1 ∧
    val (mulmod_2expp1_basecase yp zp c b).1 + 2 ^ b * (mulmod_2expp1_basecase yp zp c b).2 ≤ 2 ^ b ∧
    ((val (mulmod_2expp1_basecase yp zp c b).1 : Int) + 2 ^ b * (mulmod_2expp1_basecase yp zp c b).2 ≡
        flaggedb (c / 2 % 2) b yp * flaggedb (c % 2) b zp [ZMOD 2 ^ b + 1]) := by
  generalize hn : (b + 63) / 64 = n at *
  have hn1 : 1 ≤ n := by omega
  by_cases hk : 64 * n - b = 0
  · have hb' : b = 64 * n := by omega
    subst hb'
    obtain ⟨r1, r2, r3, r4, r5⟩ := basecase_spec yp zp c n hn1 hy hz hly hlz
    have e : (B : Int) ^ n = 2 ^ (64 * n) := B_pow_two n
    have e' : B ^ n = 2 ^ (64 * n) := B_pow_two' n
    have f : ∀ fl u, flagged fl n u = flaggedb fl (64 * n) u := fun fl u => by
      unfold flagged flaggedb; rw [e]
    unfold pmod at r5
    rw [e, f, f] at r5; rw [e'] at r4
    exact ⟨r1, r2, r3, r4, r5⟩
  · have hb' : b = 64 * n - (64 * n - b) := by omega
    rw [hb'] at hyb hzb ⊢
    exact basecase_spec_k yp zp c n (64 * n - b) hn1 (by omega) (by omega) hy hz hly hlz hyb hzb

-- non-vacuity modulo B+1: (B−1)² ≡ (−2)² = 4; 2^64·2^64 ≡ 1; 1·2^64 = 2^64 (returned as limb 0 with ret 1)
example : mulmod_2expp1_basecase [B - 1] [B - 1] 0 64 = ([4], 0) := by decide
example : mulmod_2expp1_basecase [0] [0] 3 64 = ([1], 0) := by decide
example : mulmod_2expp1_basecase [1] [0] 1 64 = ([0], 1) := by decide
-- b = 70 (two limbs, k = 58): (2^70 − 1)² ≡ (−2)² = 4, and 3·2^70 ≡ −3 ≡ 2^70 − 2
example : mulmod_2expp1_basecase [B - 1, 63] [B - 1, 63] 0 70 = ([4, 0], 0) := by decide
example : mulmod_2expp1_basecase [3, 0] [0, 0] 1 70 = ([B - 2, 63], 0) := by decide

/-- mpn_mulmod_Bexpp1 for limbs ≤ FFT_MULMOD_2EXPP1_CUTOFF (the pointwise multiplication of the MFA transforms):
    for fully reduced operands (top limb 0, or the vector (0,…,0,1)) the result is their product modulo p,
    again fully reduced.  (Built on the basecase theorem; same exclusions.) -/
theorem mulmod_Bexpp1_val (a b : List Nat) (n : Nat) (ha : Limbs a) (hb : Limbs b)
    (hla : a.length = n + 1) (hlb : b.length = n + 1) (hn : 1 ≤ n)
    (ca : top a = 0 ∨ (top a = 1 ∧ val (lo a) = 0)) (cb : top b = 0 ∨ (top b = 1 ∧ val (lo b) = 0)) :
    (mulmod_Bexpp1 a b).1.length = n + 1 ∧ Limbs (mulmod_Bexpp1 a b).1 ∧
    (top (mulmod_Bexpp1 a b).1 = 0 ∨ (top (mulmod_Bexpp1 a b).1 = 1 ∧ val (lo (mulmod_Bexpp1 a b).1) = 0)) ∧
    rval (mulmod_Bexpp1 a b).1 ≡ rval a * rval b [ZMOD pmod n] := by
  obtain ⟨A, t1, rfl, hA⟩ := as_snoc a n hla
  obtain ⟨C, t2, rfl, hC⟩ := as_snoc b n hlb
  obtain ⟨ys, g, e, l, L, cn, r⟩ := mulmod_Bexpp1_spec A C t1 t2 ha hb (by omega) (by omega) ca cb
  rw [e, hA] at *
  exact ⟨by simp [l], L, cn, r⟩

-- non-vacuity modulo B²+1: (B² ≡ −1)·5 = −5; (−1)·(−1) = 1; an ordinary product
example : rval (mulmod_Bexpp1 [0, 0, 1] [5, 0, 0]).1 = (B : Int) ^ 2 + 1 - 5 := by decide
example : mulmod_Bexpp1 [0, 0, 1] [0, 0, 1] = ([1, 0, 0], 0) := by decide
example : (rval (mulmod_Bexpp1 [B - 1, 7, 0] [3, B - 1, 0]).1 - rval [B - 1, 7, 0] * rval [3, B - 1, 0]) % pmod 2 = 0 := by
  decide

/-! ### the √2 twiddles (truncated sqrt2 transforms)

With wn = 64·n, √2 ≡ 2^(wn/4)·(2^(wn/2) − 1) modulo p.  `TopTiny`: signed top limb in [−2^59, 2^59);
`Top61`: in [−2^61, 2^61). -/

/-- the square root of two that the code uses really squares to 2 -/
theorem sqrt2_sq (n : Nat) : ((2 : Int) ^ (16 * n) * (2 ^ (32 * n) - 1)) ^ 2 ≡ 2 [ZMOD pmod n] := by
  rw [modEq_pmod_iff]; refine ⟨2 ^ (32 * n) - 2, ?_⟩
  have e1 : ((2 : Int) ^ (16 * n)) ^ 2 = 2 ^ (32 * n) := by rw [← pow_mul]; congr 1; ring
  have e2 : ((2 : Int) ^ (32 * n)) ^ 2 = (B : Int) ^ n := by rw [B_pow_two, ← pow_mul]; congr 1; ring
  generalize (2 : Int) ^ (32 * n) = u at *
  generalize (2 : Int) ^ (16 * n) = v at *
  linear_combination (u - 1) ^ 2 * e1 + (u - 2) * e2

/-- mpir_fft_adjust_sqrt2 (exponent below 2·wn as in the transforms, top limb below 2^61 in absolute value):
    multiplication by 2^(i/2 + wn/4 + i·(w/2))·(2^(wn/2) − 1), i.e. by √2·2^(i/2 + i·(w/2)). -/
theorem adjust_sqrt2_val (x : List Nat) (n i w : Nat) (hx : Limbs x) (hl : x.length = n + 1) (hn : 1 ≤ n)
    (hb : i / 2 + n * 64 / 4 + i * (w / 2) < 2 * (n * 64)) (ht : Top61 x) :
    (adjust_sqrt2 x i w).length = n + 1 ∧ Limbs (adjust_sqrt2 x i w) ∧
    rval (adjust_sqrt2 x i w) ≡ rval x * (2 ^ (i / 2 + n * 64 / 4 + i * (w / 2)) * (2 ^ (32 * n) - 1)) [ZMOD pmod n] := by
  obtain ⟨xs, t, rfl, hxs⟩ := as_snoc x n hl
  obtain ⟨ys, g, e, l, L, r⟩ := adjust_sqrt2_spec xs t i w hx (by rw [hxs]; exact hb) (by omega) ht
  rw [e, hxs] at *
  exact ⟨by simp [l], L, r⟩

-- non-vacuity: n = 1 (half-limb shifts, no limb rotation) and n = 3 (odd size: rotation plus half limb)
example : (rval (adjust_sqrt2 [5, 0] 3 1) - 5 * (2 ^ (1 + 16 + 0) * (2 ^ 32 - 1))) % pmod 1 = 0 := by decide
example : (rval (adjust_sqrt2 [5, 7, 9, 1] 37 2) - rval [5, 7, 9, 1] * (2 ^ (18 + 48 + 37) * (2 ^ 96 - 1))) % pmod 3 = 0 := by
  decide

/-- mpir_fft_butterfly_sqrt2 (both top limbs below 2^59 in absolute value):
    (s, t) = (a + b, (a − b)·√2·2^(i/2 + i·(w/2))). -/
theorem butterfly_sqrt2_val (a b : List Nat) (n i w : Nat) (ha : Limbs a) (hb : Limbs b)
    (hla : a.length = n + 1) (hlb : b.length = n + 1) (hn : 1 ≤ n)
    (hbd : i / 2 + n * 64 / 4 + i * (w / 2) < 2 * (n * 64)) (ta : TopTiny a) (tb : TopTiny b) :
    (fft_butterfly_sqrt2 a b i w).1.length = n + 1 ∧ (fft_butterfly_sqrt2 a b i w).2.length = n + 1 ∧
    Limbs (fft_butterfly_sqrt2 a b i w).1 ∧ Limbs (fft_butterfly_sqrt2 a b i w).2 ∧
    rval (fft_butterfly_sqrt2 a b i w).1 ≡ rval a + rval b [ZMOD pmod n] ∧
    rval (fft_butterfly_sqrt2 a b i w).2 ≡
      (rval a - rval b) * (2 ^ (i / 2 + n * 64 / 4 + i * (w / 2)) * (2 ^ (32 * n) - 1)) [ZMOD pmod n] := by
  obtain ⟨A, h1, rfl, hA⟩ := as_snoc a n hla
  obtain ⟨C, h2, rfl, hC⟩ := as_snoc b n hlb
  obtain ⟨ss, sg, ts, tg, e, l1, l2, L1, L2, r1, r2⟩ :=
    fft_butterfly_sqrt2_spec A C h1 h2 i w ha hb (by omega) (by omega) (by rw [hA]; exact hbd) ta tb
  rw [e, hA] at *
  exact ⟨by simp [l1], by simp [l2], L1, L2, r1, r2⟩

example : (rval (fft_butterfly_sqrt2 [5, 7, 1] [9, 2, B - 1] 5 3).2 -
    (rval [5, 7, 1] - rval [9, 2, B - 1]) * (2 ^ (2 + 32 + 5) * (2 ^ 64 - 1))) % pmod 2 = 0 := by decide

/-- mpir_ifft_butterfly_sqrt2 (i/2 + i·(w/2) + 1 ≤ wn): (s, t) = (a − b·ω, a + b·ω) with
    ω = 2^(wn − i/2 − i·(w/2) − 1 + wn/4)·(2^(wn/2) − 1). -/
theorem ifft_butterfly_sqrt2_val (a b : List Nat) (n i w : Nat) (ha : Limbs a) (hb : Limbs b)
    (hla : a.length = n + 1) (hlb : b.length = n + 1) (hn : 1 ≤ n)
    (hbd : i / 2 + i * (w / 2) + 1 ≤ n * 64) (ta : TopTiny a) (tb : TopTiny b) :
    (ifft_butterfly_sqrt2 a b i w).1.length = n + 1 ∧ (ifft_butterfly_sqrt2 a b i w).2.1.length = n + 1 ∧
    Limbs (ifft_butterfly_sqrt2 a b i w).1 ∧ Limbs (ifft_butterfly_sqrt2 a b i w).2.1 ∧
    rval (ifft_butterfly_sqrt2 a b i w).1 ≡ rval a - rval b *
      (2 ^ (n * 64 - i / 2 - i * (w / 2) - 1 + n * 64 / 4) * (2 ^ (32 * n) - 1)) [ZMOD pmod n] ∧
    rval (ifft_butterfly_sqrt2 a b i w).2.1 ≡ rval a + rval b *
      (2 ^ (n * 64 - i / 2 - i * (w / 2) - 1 + n * 64 / 4) * (2 ^ (32 * n) - 1)) [ZMOD pmod n] := by
  obtain ⟨A, h1, rfl, hA⟩ := as_snoc a n hla
  obtain ⟨C, h2, rfl, hC⟩ := as_snoc b n hlb
  obtain ⟨ss, sg, ts, tg, i2', e, l1, l2, L1, L2, r1, r2⟩ :=
    ifft_butterfly_sqrt2_spec A C h1 h2 i w ha hb (by omega) (by omega) (by rw [hA]; exact hbd) ta tb
  rw [e, hA] at *
  exact ⟨by simp [l1], by simp [l2], L1, L2, r1, r2⟩

/-- the forward and inverse √2 twiddles are inverse to each other (e = i/2 + i·(w/2)):
    2^(e + wn/4)·(2^(wn/2) − 1) · (−2^(wn − e − 1 + wn/4)·(2^(wn/2) − 1)) ≡ 1 -/
theorem sqrt2_twiddle_inverse (n e : Nat) (he : e + 1 ≤ 64 * n) :
    ((2 : Int) ^ (e + 16 * n) * (2 ^ (32 * n) - 1)) * (-(2 ^ (64 * n - e - 1 + 16 * n) * (2 ^ (32 * n) - 1))) ≡ 1
      [ZMOD pmod n] := by
  have hn : 1 ≤ n := by omega
  have hab : (2 : Int) ^ (e + 16 * n) * 2 ^ (64 * n - e - 1 + 16 * n) = (B : Int) ^ n * 2 ^ (32 * n - 1) := by
    rw [B_pow_two, ← pow_add, ← pow_add]; congr 1; omega
  have hu2 : ((2 : Int) ^ (32 * n)) ^ 2 = (B : Int) ^ n := by rw [B_pow_two, ← pow_mul]; congr 1; ring
  have hu : (2 : Int) ^ (32 * n) = 2 * 2 ^ (32 * n - 1) := by rw [← pow_succ']; congr 1; omega
  rw [modEq_pmod_iff]
  refine ⟨-((B : Int) ^ n * 2 ^ (32 * n - 1)) + (B : Int) ^ n - 1, ?_⟩
  generalize (2 : Int) ^ (32 * n) = u at *
  generalize (2 : Int) ^ (32 * n - 1) = h at *
  generalize (2 : Int) ^ (e + 16 * n) = a at *
  generalize (2 : Int) ^ (64 * n - e - 1 + 16 * n) = b at *
  generalize (B : Int) ^ n = P at *
  linear_combination (-(u - 1) ^ 2) * hab + (-(P * h) + P) * hu2 + (-(P * u)) * hu

end Mpir.Fft
