/-
  C16, part binsmall — the small-k, divide-and-conquer and bdiv binomial algorithms of mpz/bin_uiui.c, the dispatcher
  mpz_bin_uiui for every argument, and mpz_mfac_uiui.  Property theorems only; lemmas in MpirProofs/Lemmas/BinSmall.lean,
  BinBdiv.lean, BinTop.lean, Mfac.lean.  The models are those of Mpir/Model/Numth.lean (compared with the C by the ops
  smallk_bin_uiui, smallkdc_bin_uiui, bdiv_bin_uiui, bin_uiui_sel, mpz_mfac_uiui and, added by this part, bin_mulfunc,
  hensel_rsh_preinv, bin_alg_assert); the tables are the regenerated ones of Mpir/Gen/NumthTabs.lean.
-/
import MpirProofs.Lemmas.BinTop
import MpirProofs.Lemmas.Mfac
import MpirProofs.Props.C16_sieve
namespace Mpir.Numth
open Mpir Mpir.Gen.NumthTabs Nat

/-! ## mul1 … mul8, tcnttab, MAXFACS -/

/-- The eight identities of `mulfunc[] = {mul1,…,mul8}` (bin_uiui.c:131-203) with `tcnttab[]` (:207): in limb arithmetic,
    mulW (m) · 2^tcnttab[W−1] = m (m+1) ⋯ (m+W−1), provided (m+W−1)^W < 2^64 (the `M_i` bound: every partial product in
    the function body is a product of at most W numbers ≤ m+W−1, so none wraps, and every `>> 1` / `>> 3` is exact). -/
theorem mulfunc_identities (w m : ℕ) (hw1 : 1 ≤ w) (hw8 : w ≤ 8) (hfit : (m + w - 1) ^ w < B) :
    mulfunc w m * 2 ^ tcnt (w - 1) = m.ascFactorial w := mulfunc_spec w m hw1 hw8 hfit
example : mulfunc 8 248 = 248 * 249 * 250 * 251 * 252 * 253 * 254 * 255 / 64 ∧ (248 + 8 - 1) ^ 8 < B ∧ tcnt 7 = 6 ∧
    mulfunc 2 4294967294 = 4294967295 * 2147483647 := by decide +kernel

/-- `MAXFACS (nmax, n)` = log_n_max (n) (gmp-impl.h, table `__gmp_limbroots_table`): 1 ≤ nmax ≤ 8 = numberof (mulfunc) and
    n^nmax < 2^64 — which is the hypothesis of `mulfunc_identities` for every chunk of factors ≤ n. -/
theorem maxfacs_spec (n : ℕ) (hn : n < B) : 1 ≤ log_n_max n ∧ log_n_max n ≤ 8 ∧ n ^ log_n_max n < B :=
  log_n_max_spec n hn
example : log_n_max 255 = 8 ∧ log_n_max 256 = 7 ∧ log_n_max 4294967295 = 2 ∧ log_n_max 4294967296 = 1 := by decide +kernel

/-- `facinv[]`, `__gmp_oddfac_table`, `__gmp_fac2cnt_table` as used by mpz_smallk_bin_uiui (:399-400), every 2 ≤ k ≤
    ODD_FACTORIAL_TABLE_LIMIT: k! = 2^fac2cnt[k/2−1] · oddfac[k], oddfac[k] is a limb and facinv[k−2] is its inverse mod 2^64
    (a wrong table entry in the source breaks this theorem: the tables are regenerated on every run). -/
theorem smallk_tables_ok : ∀ k < ODD_FACTORIAL_TABLE_LIMIT + 1, 2 ≤ k →
    k ! = 2 ^ fac2cntTab (k / 2 - 1) * oddfacTab k ∧ oddfacTab k < B ∧ oddfacTab k * facinvTab (k - 2) % B = 1 :=
  smallk_tables
example : Nat.factorial 25 = 2 ^ 22 * oddfacTab 25 ∧ fac2cntTab 11 = 22 ∧ oddfacTab 25 * facinvTab 23 % B = 1 := by decide +kernel

/-- The twos removed on the fly (`i2cnt`, sums of tcnttab[]) never exceed the twos of k!: the shift count
    `__gmp_fac2cnt_table[k / 2 - 1] - i2cnt` passed to mpn_divrem_hensel_rsh_qr_1_preinv is ≥ 0, for every chunk size
    1 … 8 and every 2 ≤ k ≤ ODD_FACTORIAL_TABLE_LIMIT. -/
theorem smallk_shift_nonneg : ∀ nm < 9, 1 ≤ nm → ∀ k < ODD_FACTORIAL_TABLE_LIMIT + 1, 2 ≤ k →
    (smallkLoop k (min nm k) (k - min nm k) 0 0 (tcnt (min nm k - 1))).2 ≤ fac2cntTab (k / 2 - 1) := smallk_i2_le
example : (smallkLoop 24 8 16 0 0 (tcnt 7)).2 = 18 ∧ fac2cntTab 11 = 22 := by decide +kernel

/-! ## exact division by an odd limb -/

/-- mpn_divrem_hensel_rsh_qr_1_preinv (qp, xp, n, d, m, s) (mpn/generic/divrem_hensel_rsh_qr_1.c:26-80) with d·m ≡ 1 mod 2^64:
    when the n-limb number x shifted right by s is an exact multiple d·T, the n quotient limbs are T (Hensel division:
    invariant x mod B^j + (h + c)·B^j = q·d after j limbs, no borrow is lost). -/
theorem hensel_rsh_exact_division (x n d m s T : ℕ) (hx : x < B ^ n) (hd : d < B) (hdm : d * m % B = 1)
    (hT : x >>> s = d * T) : henselRshDiv x n d m s = T := henselRshDiv_exact x n d m s T hx hd hdm hT
example : henselRshDiv (3 * (2 ^ 100 + 12345) * 2 ^ 5) 2 3 0xaaaaaaaaaaaaaaab 5 = 2 ^ 100 + 12345 := by decide +kernel

/-! ## the three algorithms -/

/-- **mpz_smallk_bin_uiui (r, n, k) = binomial (n, k)** for every 2 ≤ k ≤ ODD_FACTORIAL_TABLE_LIMIT (= 25) and every
    k ≤ n < 2^64 (the dispatcher sends 2 ≤ k ≤ 25, n > 67, 2k ≤ n): chunks by mulfunc[nmax−1] with nmax = MIN (log_n_max n, k,
    remaining), accumulation by mpn_mul_1, `i2cnt` twos, then exact Hensel division by the odd part of k! through `facinv[k−2]`
    after the shift by fac2cnt − i2cnt. -/
theorem smallk_bin_uiui_spec (n k : ℕ) (hk2 : 2 ≤ k) (hk : k ≤ ODD_FACTORIAL_TABLE_LIMIT) (hkn : k ≤ n) (hn : n < B) :
    smallk_bin_uiui n k = n.choose k := smallk_bin_uiui_eq n k hk2 hk hkn hn
example : smallk_bin_uiui 100 25 = 242519269720337121015504 ∧
    smallk_bin_uiui (2 ^ 64 - 1) 3 = 1046183622564446793632349203613672605920836997447371718655 := by decide +kernel

/-- **mpz_smallkdc_bin_uiui (r, n, k) = binomial (n, k)** for ODD_FACTORIAL_TABLE_LIMIT < k ≤ 2·ODD_CENTRAL_BINOMIAL_TABLE_LIMIT
    (26 … 70) and 2k ≤ n < 2^64: bin (n,k) = bin (n,hk) · bin (n−hk, k−hk) / bin (k,hk), hk = k>>1, recursively (one more level
    for k > 50), `bc_bin_uiui` when n−hk ≤ ODD_FACTORIAL_EXTTABLE_LIMIT, exact division by the odd central binomial `bin2kk[]`
    through `bin2kkinv[]` with shift `fac2bin[] − (k != hk)`. -/
theorem smallkdc_bin_uiui_spec (n k : ℕ) (hk : ODD_FACTORIAL_TABLE_LIMIT < k) (hk2 : k ≤ 2 * ODD_CENTRAL_BINOMIAL_TABLE_LIMIT)
    (h2k : 2 * k ≤ n) (hn : n < B) : smallkdc_bin_uiui 8 n k = n.choose k :=
  smallkdc_bin_uiui_eq 8 n k hk hk2 (by have : ODD_CENTRAL_BINOMIAL_TABLE_LIMIT = 35 := by decide
                                        omega) h2k hn
example : smallkdc_bin_uiui 8 1000 60 =
    19742748621859838806445290867590842097270339314978449118678002674641952503075171748033908989976400 := by decide +kernel

/-- the divisor inverse used by the exact 2-adic division (meaning of mpn_sb_bdiv_q's `dinv` iteration): d · invPow2 d bits ≡ 1 -/
theorem bdiv_inverse_spec (d bits : ℕ) (hd : d % 2 = 1) (hb : 1 ≤ bits) : d * invPow2 d bits % 2 ^ bits = 1 :=
  invPow2_spec d bits hd hb
example : 12345 * invPow2 12345 128 % 2 ^ 128 = 1 := by decide +kernel

/-- `nn += (np[nn - 1] >= kp[kn - 1]); nn -= kn;` (bin_uiui.c:324-325): when N = D·Q exactly, N has at most nn limbs and D
    exactly kn, the quotient is not empty and fits the nn + (top limb test) − kn limbs that mpn_sb_bdiv_q is asked for. -/
theorem bdiv_quotient_fits {N D Q nn kn : ℕ} (h : N = D * Q) (hQ : 1 ≤ Q) (hN : N < B ^ nn) (hnn : 1 ≤ nn) (hkn : 1 ≤ kn)
    (hDlo : B ^ (kn - 1) ≤ D) (hDhi : D < B ^ kn) :
    kn < nn + (if topLimb N nn ≥ topLimb D kn then 1 else 0) ∧
    Q < B ^ (nn + (if topLimb N nn ≥ topLimb D kn then 1 else 0) - kn) := quot_size h hQ hN hnn hkn hDlo hDhi
example : topLimb (5 * B + 7) 2 = 5 ∧ topLimb 9 1 = 9 ∧ (5 * B + 7) / 9 < B ^ (2 + 0 - 1) := by decide +kernel

/-- **mpz_bdiv_bin_uiui (r, n, k) = binomial (n, k)** for every k > ODD_FACTORIAL_TABLE_LIMIT and 2k ≤ n < 2^64 (the C's
    `ASSERT (k > ODD_FACTORIAL_TABLE_LIMIT)`; the dispatcher sends k > 70).  `some`: in the model every `ASSERT (nn < alloc)`
    (:321 — the allocation marked "FIXME: This allocation might be insufficient" IS sufficient: nn ≤ k and
    nn ≤ 1 + n/64 + 21), the quotient size bookkeeping and the loop bound hold; every partial division is exact because the
    same number of factors is accumulated on both sides and the divisor is odd; the final count i2cnt − j2cnt is ≥ 0. -/
theorem bdiv_bin_uiui_spec (n k : ℕ) (hk : ODD_FACTORIAL_TABLE_LIMIT < k) (h2k : 2 * k ≤ n) (hn : n < B) :
    bdiv_bin_uiui n k = some (n.choose k) := bdiv_bin_uiui_eq n k hk h2k hn
example : bdiv_bin_uiui 300 71 = some 10668045122007095756693423430548958571449389457293007580530849586524000 ∧
    (bdiv_bin_uiui (2 ^ 40) 80).map (· % 10 ^ 9) = some 292441600 := by decide +kernel

/-- binomial (n, k) has fewer than 64 factors of two for n < 2^64 (Kummer: adding k and n−k below 2^64 carries at most 63 times) -/
theorem choose_two_adic_lt_limb (n k : ℕ) (hn : n < B) (hk : k ≤ n) : ¬ 2 ^ 64 ∣ n.choose k :=
  choose_not_dvd_two_pow_64 n k hn hk
example : 2 ^ 63 ∣ Nat.choose (2 ^ 64 - 2 ^ 63) 1 ∧ popcount (2 ^ 63 - 1) + popcount 1 - popcount (2 ^ 63) = 63 := by
  constructor
  · simp
  · decide +kernel

/-- `cnt = i2cnt - j2cnt` (bin_uiui.c:343) in the state where the loop of mpz_bdiv_bin_uiui ends: the subtraction does not
    wrap and `ASSERT (cnt < GMP_NUMB_BITS)` ("can happen, but not for intended use") holds for EVERY k > 25, 2k ≤ n < 2^64,
    so mpn_lshift gets a legal count. -/
theorem bdiv_shift_count_spec (n k : ℕ) (hk : ODD_FACTORIAL_TABLE_LIMIT < k) (h2k : 2 * k ≤ n) (hn : n < B) :
    bdiv_bin_uiui n k = (if !(bdivFinal n k).ok then none
      else some ((bdivFinal n k).np <<< ((bdivFinal n k).i2cnt - (bdivFinal n k).j2cnt))) ∧
    (bdivFinal n k).j2cnt ≤ (bdivFinal n k).i2cnt ∧ (bdivFinal n k).i2cnt - (bdivFinal n k).j2cnt < 64 :=
  ⟨bdiv_bin_uiui_unfold n k, bdiv_shift_count n k hk h2k hn⟩
example : (bdivFinal 256 128).i2cnt - (bdivFinal 256 128).j2cnt = 1 ∧ (bdivFinal 300 71).ok = true := by decide +kernel

/-! ## the dispatcher -/

/-- **mpz_bin_uiui (r, n, k) = binomial (n, k) for every n < 2^64 and every k** (k > n gives 0; k is replaced by MIN (k, n−k);
    k < 2; bc_bin_uiui for n ≤ 67; smallk for k ≤ 25; smallkdc for k ≤ 70; Goetgheluck for k ≥ 1000, k > n/16; bdiv otherwise). -/
theorem mpz_bin_uiui_spec (n k : ℕ) (hn : n < B) : mpz_bin_uiui n k = some (n.choose k) := mpz_bin_uiui_eq n k hn
example : mpz_bin_uiui 200 100 = some 90548514656103281165404177077484163874504589675413336841320 ∧
    binDispatch 200 100 = (.bdiv, 100) ∧ binDispatch 200 150 = (.smallkdc, 50) ∧ mpz_bin_uiui 5 7 = some 0 := by decide +kernel

/-! ## multifactorial -/

/-- (g·n)!^(g·m) = g^⌈n/m⌉ · n!^(m): the reduction by g = gcd (n, m) of mfac_uiui.c:57-59 and the exponents `sn` -/
theorem mfac_gcd_reduction (g m : ℕ) (hg : 1 ≤ g) (hm : 1 ≤ m) (n : ℕ) :
    multiFactorial (g * n) (g * m) = g ^ ((n + m - 1) / m) * multiFactorial n m := mf_scale g m hg hm n
example : multiFactorial 120 36 = 12 ^ 4 * multiFactorial 10 3 ∧ multiFactorial 10 3 = 10 * 7 * 4 * 1 := by decide +kernel

/-- **mpz_mfac_uiui (x, n, m) = n!^(m) = n (n−m) (n−2m) ⋯** for every n < 2^64 and every 1 ≤ m < 2^64 (`ASSERT (m != 0)`):
    the early exit n < 3 ∨ n−3 < m−1, g = gcd (n, m) (Euclid needs < 200 steps below 2^64), m/g = 1 → g^n · n! (g > 2),
    (2n)!! (g = 2), n!; m/g = 2 → g^(n/2+1) · n!! or n!!; otherwise the product loop with FACTOR_LIST_STORE
    (max_prod = GMP_NUMB_MAX / (n−m): no limb product wraps; the last factor is never 0 because gcd = 1) times g^(n/m+1). -/
theorem mfac_uiui_spec (n m : ℕ) (hm : 1 ≤ m) (hn : n < B) (hmB : m < B) : mpz_mfac_uiui n m = multiFactorial n m :=
  mpz_mfac_uiui_eq (fun x hx => fac_ui_spec x hx) (fun x hx => two_fac_ui_spec x hx) n m hm hn hmB
example : mpz_mfac_uiui 120 36 = 5806080 ∧ mpz_mfac_uiui 99 6 = 817800727933873464057151875 ∧
    mpz_mfac_uiui 7 (2 ^ 64 - 1) = 7 := by decide +kernel

end Mpir.Numth
