/-
  C06 — radix conversion is exact in every base and round-trips.
  Property theorems only; helper lemmas live in MpirProofs/Lemmas/Radix.lean.
  The tables (`Mpir.Gen.mpBases`, `mpBases10`, `digitValueTab`) are regenerated from mpn/generic/mp_bases.c,
  gmp-impl.h and mp_dv_tab.c on every check; the models are in Mpir/Model/Radix.lean and are run against the
  real library on every check.
-/
import MpirProofs.Lemmas.Radix
namespace Mpir.Radix
open Mpir

/-- The regenerated `mp_bases` table is what its definition requires, for every base 2..62:
    * not a power of two: `big_base = b^chars_per_limb`, `b^chars_per_limb < 2^64 ≤ b^(chars_per_limb+1)`
      (so chars_per_limb is the largest exponent that fits a limb), and
      `big_base_inverted = ⌊(B²-1) / (big_base << clz)⌋ - B` (= `invert_limb` of the normalised big_base);
    * power of two: `big_base = log2 b`, `chars_per_limb = ⌊64 / log2 b⌋`, no inverse;
    * the base-10 constants of gmp-impl.h (`MP_BASES_*_10`) equal the table entry, chars_per_limb is 19 and
      the normalisation count is 0 (the base-10 fast path of mpn_sb_get_str relies on that);
    * the table has exactly the 61 entries 2..62. -/
theorem bases_table_ok :
    (∀ b < 63, 2 ≤ b → (pow2P b = false → NonPow2Ok b) ∧ (pow2P b = true → Pow2Ok b)) ∧
    Base10Ok ∧ Gen.mpBases.length = 61 := by
  decide +kernel

-- non-vacuity: the base-10 entry
example : charsPerLimb 10 = 19 ∧ bigBase 10 = 10 ^ 19 ∧ bigBaseInv 10 = 0xd83c94fb6d2ac34a ∧ pow2P 10 = false := by
  decide +kernel
example : bigBase 32 = 5 ∧ charsPerLimb 32 = 12 ∧ pow2P 32 = true := by decide +kernel

/-- `__gmp_digit_value_tab` decodes exactly the documented alphabets: the first half (bases up to 36) maps
    `0-9` to 0..9 and both `A-Z` and `a-z` to 10..35; the second half (offset 224, bases 37..62) maps `0-9`,
    `A-Z` to 10..35 and `a-z` to 36..61; every other byte is 255 in both halves; 480 entries. -/
theorem digit_tab_ok :
    Gen.digitValueTab.length = 480 ∧
    ∀ c < 256,
      digitValue 0 c = (match charValue 36 c with | some v => v | none => 255) ∧
      digitValue 224 c = (match charValue 62 c with | some v => v | none => 255) := by
  decide +kernel

example : digitValue 0 'z'.toNat = 35 ∧ digitValue 224 'z'.toNat = 61 ∧ digitValue 224 'Z'.toNat = 35 ∧
    digitValue 0 ' '.toNat = 255 := by decide +kernel

/-- mpn_sb_get_str (the basecase conversion: divide by big_base with one fraction limb, then develop
    chars_per_limb digits by repeated multiplication, with the base-10 special case) produces exactly the
    digits of the operand, most significant first, without leading zeros — for every base 3..62 that is not
    a power of two and every operand with a non-zero most significant limb. -/
theorem sb_get_str_digits (b : Nat) (hb : 2 ≤ b) (hb62 : b ≤ 62) (hnp : pow2P b = false)
    (up : List Nat) (hu : Limbs up) (hne : up ≠ []) (htop : up.getLast! ≠ 0) :
    sb_get_str b up = digitsOf b (val up) :=
  sb_get_str_of_table hb hb62 ((bases_table_ok.1 b (by omega) hb).1 hnp) bases_table_ok.2.1 up hu hne htop

example : sb_get_str 7 [5, 1] = digitsOf 7 (5 + 2 ^ 64) := by decide +kernel
example : sb_get_str 10 [0xffffffffffffffff, 0xffffffffffffffff] = digitsOf 10 (2 ^ 128 - 1) := by decide +kernel

/-- mpn_get_str for a power-of-two base (2, 4, 8, 16, 32): the bit-extraction loop, which walks the limbs
    from the most significant end and assembles the digits that straddle a limb boundary from two limbs,
    produces exactly the digits of the operand, most significant first, without a leading zero. -/
theorem get_str_pow2_digits (b : Nat) (hb : 2 ≤ b) (hb62 : b ≤ 62) (hp : pow2P b = true)
    (up : List Nat) (hu : Limbs up) (hne : up ≠ []) (htop : up.getLast! ≠ 0) :
    get_str_pow2 b up = digitsOf b (val up) := by
  have hok := (bases_table_ok.1 b (by omega) hb).2 hp
  exact get_str_pow2_of_table hb hok (bigBase_le_64 hb62 hok) up hu hne htop

example : get_str_pow2 8 [0xfedcba9876543210, 0x1f] = digitsOf 8 (0xfedcba9876543210 + 2 ^ 64 * 0x1f) := by
  decide +kernel
example : get_str_pow2 32 [1, 0, 1] = digitsOf 32 (1 + 2 ^ 128) := by decide +kernel

/-- mpn_bc_set_str (Horner evaluation in chunks of chars_per_limb digits: each chunk is accumulated in one
    limb, then `rp = rp·big_base + chunk` by mpn_mul_1 and mpn_add_1; the last chunk uses base^(its length))
    returns exactly the value of the digit string, as proper limbs — every base 3..62 that is not a power
    of two, every non-empty string of digits below the base. -/
theorem bc_set_str_val (b : Nat) (hb : 2 ≤ b) (hb62 : b ≤ 62) (hnp : pow2P b = false)
    (str : List Nat) (hne : str ≠ []) (hd : ∀ d ∈ str, d < b) :
    val (bc_set_str b str) = ofDigits b str ∧ Limbs (bc_set_str b str) := by
  have hok := (bases_table_ok.1 b (by omega) hb).1 hnp
  have := bcLoop_val hb (hok.cpl_pos hb62) hok.1 (hok.1 ▸ hok.2.1) str.length str [] rfl hne hd Limbs_nil
  simpa [bc_set_str] using this

example : val (bc_set_str 10 ([1] ++ List.replicate 19 0 ++ [7])) = 10 ^ 20 + 7 := by decide +kernel
example : bc_set_str 7 [6, 6, 6] = [342] := by decide +kernel

/-- mpn_set_str for a power-of-two base (digits packed from the least significant end, a digit that
    straddles a limb boundary is split over two limbs) returns exactly the value of the digit string. -/
theorem set_str_pow2_val (b : Nat) (hb : 2 ≤ b) (hb62 : b ≤ 62) (hp : pow2P b = true)
    (str : List Nat) (hd : ∀ d ∈ str, d < b) :
    val (set_str_pow2 b str) = ofDigits b str ∧ Limbs (set_str_pow2 b str) := by
  have hok := (bases_table_ok.1 b (by omega) hb).2 hp
  exact set_str_pow2_of_table hok (bigBase_le_64 hb62 hok) str hd

example : set_str_pow2 8 (List.replicate 22 7) = [2 ^ 64 - 1, 3] := by decide +kernel

/-- mpz_set_str accepts exactly the language of `parseSpec` and returns exactly its value: for every byte
    string and every base except the undocumented base 1 (bases above 62 and negative bases are rejected by
    both).  The model goes through the digit table, the leading-zero skipping, and mpn_set_str at limb level
    (power-of-two packing / basecase Horner; divide-and-conquer at specification level); the specification
    is the declarative `parseSpec` (white space, sign, base-0 prefixes, case rule, embedded white space).
    (For base 1 the C accepts strings of `0` characters and returns 0; the manual does not define base 1.) -/
theorem mpz_set_str_eq_parse (base : Int) (hb1 : base ≠ 1) (s : List Nat) (hs : ∀ c ∈ s, c < 256) :
    mpz_set_str base s = parseSpec base s :=
  mpz_set_str_eq_parse_of digit_tab_ok.2 bases_table_ok.1 base hb1 s hs

example : mpz_set_str 0 ("  -0x1F f".toUTF8.toList.map (·.toNat)) = some (-511) := by decide +kernel
example : parseSpec 0 ("  -0x1F f".toUTF8.toList.map (·.toNat)) = some (-511) := by decide +kernel
example : parseSpec 10 ("- 5".toUTF8.toList.map (·.toNat)) = none := by decide +kernel
example : parseSpec 0 ("0x".toUTF8.toList.map (·.toNat)) = some 0 := by decide +kernel
example : parseSpec 63 ("1".toUTF8.toList.map (·.toNat)) = none := by decide +kernel
example : parseSpec 62 ("zZ".toUTF8.toList.map (·.toNat)) = some (61 * 62 + 35) := by decide +kernel
example : parseSpec 36 ("zZ".toUTF8.toList.map (·.toNat)) = some (35 * 36 + 35) := by decide +kernel

/-- mpz_get_str (and the digits mpz_out_str writes) for every legal base 2..62, -2..-36 and every integer:
    exactly an optional `-` followed by the digits of |x| in the documented alphabet, most significant
    first, no leading zero, `"0"` for zero.  (mpn_get_str: basecase and power-of-two paths as modelled from
    the C; the divide-and-conquer path, ≥ GET_STR_PRECOMPUTE_THRESHOLD limbs, is taken at specification level.) -/
theorem mpz_get_str_spec (base : Int) (hb : LegalOutBase base) (x : Int) :
    mpz_get_str base x = some (getStrSpec base x) :=
  mpz_get_str_spec_of bases_table_ok.1 bases_table_ok.2.1 base hb x

example : mpz_get_str (-16) (-255) = some [45, 70, 70] := by decide +kernel
example : getStrSpec 62 (61 * 62 + 35) = [122, 90] := by decide +kernel

/-- Round trip: for every legal output base and every integer, what mpz_get_str writes is accepted by
    mpz_set_str in base |base| and converts back to exactly the same integer — stated both for the
    specification (`parseSpec (getStrSpec …)`) and for the two models. -/
theorem roundtrip (base : Int) (hb : LegalOutBase base) (x : Int) :
    parseSpec (base.natAbs : Int) (getStrSpec base x) = some x ∧
    ∃ s, mpz_get_str base x = some s ∧ mpz_set_str (base.natAbs : Int) s = some x := by
  have h1 := parse_getStrSpec base hb x
  refine ⟨h1, getStrSpec base x, mpz_get_str_spec base hb x, ?_⟩
  have hb2 : 2 ≤ base.natAbs := by unfold LegalOutBase at hb; omega
  rw [mpz_set_str_eq_parse _ (by omega) _ (getStrSpec_bytes base hb x)]
  exact h1

example : mpz_get_str (-36) (-1295) = some [45, 90, 90] ∧ mpz_set_str 36 [45, 90, 90] = some (-1295) := by
  decide +kernel

/-- mpz_sizeinbase is exact for powers of two (2, 4, 8, 16, 32): the digit count of |x|, and 1 for x = 0. -/
theorem sizeinbase_pow2_exact (b : Nat) (hb : 2 ≤ b) (hb62 : b ≤ 62) (hp : pow2P b = true) (x : Int) :
    mpz_sizeinbase x b = if x = 0 then 1 else (digitsOf b x.natAbs).length :=
  sizeinbase_pow2_of_table ((bases_table_ok.1 b (by omega) hb).2 hp) hp x

example : mpz_sizeinbase (2 ^ 64) 16 = 17 ∧ mpz_sizeinbase (2 ^ 64 - 1) 16 = 16 ∧ mpz_sizeinbase 0 8 = 1 := by
  decide +kernel

/-- The certificates for the regenerated `chars_per_bit_exactly` column: for every base 3..62 that is not a
    power of two the binary64 constant c lies on the right side of Farey neighbours of log_b 2 whose
    denominators add up to more than 2^24 (kernel-checked big-number comparisons `2^v < b^u`, `b^p ≤ 2^q`). -/
theorem sizeinbase_table_ok : ∀ b < 63, 2 ≤ b → pow2P b = false → SibOk b := by decide +kernel

-- non-vacuity: the base-10 certificate, spelled out: 3774669/12539179 > log10(2) and the Farey neighbour below c
example : sibHint 10 = (97879, 325147, 1936274, 6432163, 3774669, 12539179) ∧ 3774669 * 6432163 = 1936274 * 12539179 + 1 ∧
    2 ^ 24 < 6432163 + 12539179 := by decide +kernel

/- FULL STATEMENT (the property as written): for every x ≠ 0 and every base 3..62 that is not a power of
   two, `mpz_sizeinbase x b` is the digit count of |x| or one more.
   It is NOT provable — and for the source as pinned it was false: with the table constant below
   log 2 / log b the answer is one too SMALL, first at x = 58^3700209 (21 675 754 bits), see
   corpus/C06/sizeinbase_too_small.ops; repaired in /repo by making every constant an upper bound.
   With a 53-bit constant the statement cannot hold for unboundedly large operands in any case
   (`≤ digits + 1` fails near 10^16 bits), and certifying `c ≥ log_b 2` itself needs 10^8..10^9-bit
   powers per base.  What is proved is the statement for every operand below 2^(2^24) (bit length up to
   16 777 216, i.e. 2 MiB operands / about 5 million decimal digits): -/
/-- sizeinbase_bound (partial: |x| < 2^sibT, sibT = 2^24 bits): exact or one too large — in particular never too small,
    which is what makes the `sizeinbase + 2` buffer of mpz_get_str sufficient. -/
theorem sizeinbase_bound_partial (b : Nat) (hb : 2 ≤ b) (hb62 : b ≤ 62) (hnp : pow2P b = false)
    (x : Int) (hx : x ≠ 0) (hbits : x.natAbs < 2 ^ sibT) :
    mpz_sizeinbase x b = (digitsOf b x.natAbs).length ∨ mpz_sizeinbase x b = (digitsOf b x.natAbs).length + 1 :=
  sizeinbase_bound_of hb hnp (sizeinbase_table_ok b (by omega) hb hnp) x hx hbits

-- exact (1000, 10, 7) and one too large (999, 64, 8, 9)
example : mpz_sizeinbase 1000 10 = 4 ∧ mpz_sizeinbase 10 10 = 2 ∧ mpz_sizeinbase 7 10 = 1 ∧
    mpz_sizeinbase 999 10 = 4 ∧ mpz_sizeinbase 64 10 = 3 ∧ mpz_sizeinbase 8 10 = 2 ∧ mpz_sizeinbase 9 10 = 2 := by
  decide +kernel

/-- Buffer clause (partial, same bound): the string mpz_get_str produces, with its terminating NUL, fits
    in `mpz_sizeinbase (x, |base|) + 2` bytes, for every legal base and every |x| < 2^(2^24). -/
theorem get_str_fits_partial (base : Int) (hb : LegalOutBase base) (x : Int) (hbits : x.natAbs < 2 ^ sibT) :
    (getStrSpec base x).length + 1 ≤ mpz_sizeinbase x base.natAbs + 2 := by
  have hb2 : 2 ≤ base.natAbs ∧ base.natAbs ≤ 62 := by unfold LegalOutBase at hb; omega
  unfold getStrSpec
  simp only [List.length_append, List.length_map]
  by_cases hx : x = 0
  · subst hx; simp [mpz_sizeinbase, sizeinbase, natLimbs_zero]
  · have hsign : (if x < 0 then [45] else ([] : List Nat)).length ≤ 1 := by split <;> simp
    simp only [hx, if_false]
    cases hp : pow2P base.natAbs with
    | true =>
      have := sizeinbase_pow2_exact _ hb2.1 hb2.2 hp x
      simp only [hx, if_false] at this
      omega
    | false =>
      have := sizeinbase_bound_partial _ hb2.1 hb2.2 hp x hx hbits
      omega

example : (getStrSpec (-10) (-999)).length + 1 = 5 ∧ mpz_sizeinbase (-999) 10 + 2 = 6 := by decide +kernel

end Mpir.Radix
