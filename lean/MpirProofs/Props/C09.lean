/-
  C09 — integer roots, remainders, perfect-square / perfect-power tests.
  Property theorems only; helper lemmas live in MpirProofs/Lemmas/Root.lean.
  Every theorem is about the executable models in Mpir/Model/Root.lean (run against the real
  library on every check) and the tables regenerated from the source in Mpir/Gen/SqrtTabs.lean.
-/
import MpirProofs.Lemmas.Root
namespace Mpir.Root
open Mpir Mpir.Gen.SqrtTabs

/-- The residue filters of mpn_perfect_square_p never reject a square: if `{up, n}` has value `k²`
    then the mod-256 probe (`sq_res_0x100`) passes and every PERFSQR_MOD_1/PERFSQR_MOD_2 test of
    PERFSQR_MOD_TEST passes on the folded mpn_mod_34lsub1 residue.  The table facts (bit `i` set
    whenever `i` is the modexact index of a square residue mod `d`; `inv·d ≡ 1 mod 2^49`;
    `d ∣ 2^48-1`) are kernel-checked on the REGENERATED tables (`sqRes256_table`, `perfsqrTests_ok`). -/
theorem perfsqr_filters_sound (up : List Nat) (k : Nat) (hl : Limbs up) (hne : up ≠ [])
    (hn : up.length + 1 < B) (hv : val up = k * k) :
    sqRes256 (up.headD 0) = true ∧ perfsqrModTest (perfsqrFold (mod34lsub1 up)) = true := by
  constructor
  · obtain ⟨x, xs, rfl⟩ := List.exists_cons_of_ne_nil hne
    have hx := (Limbs_cons.mp hl).1
    have : x = k * k % B := by
      rw [← hv, val_cons, Nat.add_mul_mod_self_left, Nat.mod_eq_of_lt hx]
    simp only [List.headD_cons]
    rw [this]; exact sqRes256_sq k
  · obtain ⟨hc, hlt⟩ := mod34lsub1_congr up hl hn
    obtain ⟨fc, flt⟩ := perfsqrFold_spec _ hlt
    have hb := bits_facts
    have hmod : perfsqrFold (mod34lsub1 up) % (2 ^ mod34Bits - 1) = k * k % (2 ^ mod34Bits - 1) := by
      rw [hb.2.2, fc, hc, hv]
    have hr : perfsqrFold (mod34lsub1 up) < 2 ^ perfsqrModBits := by
      rw [← hb.2.1, hb.2.2]; exact flt
    unfold perfsqrModTest
    rw [List.all_eq_true]
    intro t ht
    exact perfsqrTest_sq t (List.all_eq_true.mp perfsqrTests_ok t ht) k _ hr hmod

-- non-vacuity: a two-limb square passes, and the filters do reject something
example : sqRes256 ([0x2a05f20c1, 0x1].headD 0) = true ∧
    perfsqrModTest (perfsqrFold (mod34lsub1 [0xfffffffe00000001, 0])) = true := by decide +kernel
example : perfsqrModTest (perfsqrFold (mod34lsub1 [5, 1])) = false := by decide +kernel

/-- mpn_perfect_square_p answers the manual's question, given that the final mpn_sqrtrem call reports a
    zero remainder exactly for squares (`sqrtrem_rn_zero_iff` below discharges that hypothesis from the
    square-root theorems). -/
theorem perfect_square_p_iff (up : List Nat) (hl : Limbs up) (hne : up ≠ []) (hn : up.length + 1 < B)
    (hs : (sqrtrem up).rn = 0 ↔ ∃ k, val up = k * k) :
    perfectSquareP up = true ↔ ∃ k, val up = k * k := by
  unfold perfectSquareP
  generalize hA : sqRes256 (up.headD 0) = A
  generalize hB : perfsqrModTest (perfsqrFold (mod34lsub1 up)) = Bv
  constructor
  · intro h
    cases A <;> cases Bv <;> simp at h
    exact hs.mp h
  · rintro ⟨k, hk⟩
    obtain ⟨h1, h2⟩ := perfsqr_filters_sound up k hl hne hn hk
    rw [hA] at h1; rw [hB] at h2; subst h1; subst h2
    simpa using hs.mpr ⟨k, hk⟩

example : perfectSquareP [0xfffffffe00000001] = true ∧ perfectSquareP [0xfffffffe00000002] = false := by
  decide +kernel

end Mpir.Root
