/-
  C09 — integer roots, remainders, perfect-square / perfect-power tests.
  Property theorems only; helper lemmas live in MpirProofs/Lemmas/Root.lean.
-/
import MpirProofs.Lemmas.Root
namespace Mpir.Root
end Mpir.Root
