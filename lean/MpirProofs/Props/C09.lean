/-
  C09 — integer roots, remainders, perfect-square / perfect-power tests.
  Property theorems only; helper lemmas live in MpirProofs/Lemmas/Root.lean.
  Every theorem is about the executable models in Mpir/Model/Root.lean (run against the real
  library on every check) and the tables regenerated from the source in Mpir/Gen/SqrtTabs.lean.
-/
import MpirProofs.Lemmas.PerfPow
namespace Mpir.Root
open Mpir Mpir.Gen.SqrtTabs

/-- The residue filters of mpn_perfect_square_p never reject a square: if `{up, n}` has value `k²`
    then the mod-256 probe (`sq_res_0x100`) passes and every PERFSQR_MOD_1/PERFSQR_MOD_2 test of
    PERFSQR_MOD_TEST passes on the folded mpn_mod_34lsub1 residue.  The table facts (bit `i` set
    whenever `i` is the modexact index of a square residue mod `d`; `inv·d ≡ 1 mod 2^49`;
    `d ∣ 2^48-1`) are kernel-checked on the REGENERATED tables (`sqRes256_table`, `perfsqrTests_ok`). -/
theorem perfsqr_filters_sound (up : List Nat) (k : Nat) (hl : Limbs up) (hne : up ≠ [])
    (hn : up.length + 1 < B) (hv : val up = k * k) :
    sqRes256 (up.headD 0) = true ∧ perfsqrModTest (perfsqrFold (mod34lsub1 up)) = true := by
  constructor
  · obtain ⟨x, xs, rfl⟩ := List.exists_cons_of_ne_nil hne
    have hx := (Limbs_cons.mp hl).1
    have : x = k * k % B := by
      rw [← hv, val_cons, Nat.add_mul_mod_self_left, Nat.mod_eq_of_lt hx]
    simp only [List.headD_cons]
    rw [this]; exact sqRes256_sq k
  · obtain ⟨hc, hlt⟩ := mod34lsub1_congr up hl hn
    obtain ⟨fc, flt⟩ := perfsqrFold_spec _ hlt
    have hb := bits_facts
    have hmod : perfsqrFold (mod34lsub1 up) % (2 ^ mod34Bits - 1) = k * k % (2 ^ mod34Bits - 1) := by
      rw [hb.2.2, fc, hc, hv]
    have hr : perfsqrFold (mod34lsub1 up) < 2 ^ perfsqrModBits := by
      rw [← hb.2.1, hb.2.2]; exact flt
    unfold perfsqrModTest
    rw [List.all_eq_true]
    intro t ht
    exact perfsqrTest_sq t (List.all_eq_true.mp perfsqrTests_ok t ht) k _ hr hmod

-- non-vacuity: a two-limb square passes, and the filters do reject something
example : sqRes256 ([0x2a05f20c1, 0x1].headD 0) = true ∧
    perfsqrModTest (perfsqrFold (mod34lsub1 [0xfffffffe00000001, 0])) = true := by decide +kernel
example : perfsqrModTest (perfsqrFold (mod34lsub1 [5, 1])) = false := by decide +kernel

/-- mpn_perfect_square_p answers the manual's question, given that its third test (normalise, zero is a
    square, then mpn_sqrtrem reports a zero remainder) is right; `mpn_perfect_square_p_spec` below
    discharges that hypothesis from the square-root theorems. -/
theorem perfect_square_p_iff (up : List Nat) (hl : Limbs up) (hne : up ≠ []) (hn : up.length + 1 < B)
    (hs : perfectSquareFinal up = true ↔ ∃ k, val up = k * k) :
    perfectSquareP up = true ↔ ∃ k, val up = k * k := by
  unfold perfectSquareP
  generalize hA : sqRes256 (up.headD 0) = A
  generalize hB : perfsqrModTest (perfsqrFold (mod34lsub1 up)) = Bv
  constructor
  · intro h
    cases A <;> cases Bv <;> simp at h
    exact hs.mp h
  · rintro ⟨k, hk⟩
    obtain ⟨h1, h2⟩ := perfsqr_filters_sound up k hl hne hn hk
    rw [hA] at h1; rw [hB] at h2; subst h1; subst h2
    simpa using hs.mpr ⟨k, hk⟩

example : perfectSquareP [0xfffffffe00000001] = true ∧ perfectSquareP [0xfffffffe00000002] = false := by
  decide +kernel

/-- The normalising wrapper of mpn_sqrtrem (sqrtrem.c:311-372: even shift count `2c`, a zero low limb for
    an odd limb count, then `S >> k`, `R + 2·s0·S − s0²` shifted down by `2k` bits): given the contract of
    mpn_dc_sqrtrem on normalised operands, every call that takes the mpn_dc_sqrtrem path (all but the
    one-limb operand with the top bit set, which goes to mpn_sqrtrem1) returns `⌊√u⌋` and `u − ⌊√u⌋²`.
    `high` is the most significant limb `np[nn-1]`, non-zero as the manual requires. -/
theorem sqrtrem_normalise_ok (u nn high : Nat) (hnn : 0 < nn) (hu1 : high * B ^ (nn - 1) ≤ u)
    (hu2 : u < (high + 1) * B ^ (nn - 1)) (hp : 0 < high) (hB : high < B)
    (hbr : ¬(nn = 1 ∧ high ≥ B / 2)) (hdc : DcSpec) :
    sqrtremVal u nn high = (Nat.sqrt u, u - Nat.sqrt u * Nat.sqrt u) :=
  sqrtremVal_norm u nn high hnn hu1 hu2 hp hB hbr hdc

-- non-vacuity: a 3-limb operand with 5 leading zero bits (odd limb count and c = 2)
example : sqrtremVal (0x0712345678abcdef * B ^ 2 + 12345) 3 0x0712345678abcdef
    = (Nat.sqrt (0x0712345678abcdef * B ^ 2 + 12345),
       0x0712345678abcdef * B ^ 2 + 12345 - Nat.sqrt (0x0712345678abcdef * B ^ 2 + 12345) ^ 2) := by
  decide +kernel

/-- mpz_root / mpz_nthroot / mpz_rootrem (mpz/root.c, nthroot.c, rootrem.c), given the contract of
    mpn_rootrem: an even root of a negative number raises the square-root exception (checked before the
    zeroth-root division by zero); otherwise the root is `sign(u)·⌊|u|^(1/n)⌋` (truncation toward zero, also
    for negative `u` with odd `n`), the return value of mpz_root is non-zero exactly when
    `⌊|u|^(1/n)⌋^n = |u|`, equivalently `root^n = u`, and mpz_rootrem's remainder is `u − root^n`. -/
theorem mpz_root_sign_flag (u : Int) (n : Nat) (hrr : RootremSpec) :
    (u < 0 ∧ n % 2 = 0 → mpzRoot u n = .error "sqrtneg" ∧ mpzRootrem u n = .error "sqrtneg") ∧
    (¬(u < 0 ∧ n % 2 = 0) → n = 0 → mpzRoot u n = .error "div0" ∧ mpzRootrem u n = .error "div0") ∧
    (¬(u < 0 ∧ n % 2 = 0) → n ≠ 0 → ∃ (root rem : Int) (flag : Bool),
        mpzRoot u n = .ok (root, flag) ∧ mpzRootrem u n = .ok (root, rem) ∧
        root = u.sign * (iroot n u.natAbs : Nat) ∧
        (flag = true ↔ (iroot n u.natAbs) ^ n = u.natAbs) ∧ (flag = true ↔ root ^ n = u) ∧
        root ^ n + rem = u) :=
  mpz_root_sign_flag_at u n (fun h0 h1 w => hrr u.natAbs n w (Int.natAbs_pos.mpr h0) h1)

/-- THE CONTRACT OF mpn_rootrem, DISCHARGED: for every operand `a ≥ 1` of at most 2^61 bits and every index `k ≥ 2` the
    model `rootrem a (limbCount a) k w` the mpz layer calls returns the floor root; its second component is zero exactly
    for perfect k-th powers and is the remainder when `remp ≠ NULL`.  (Composition of `Rootrem.mpn_rootrem_spec` — basecase,
    padded approximate call, mpn_rootrem_internal over the whole schedule — with the agreement of the two models,
    Lemmas/RootremBridge.lean.  `RootremSpec`, the same for ALL `a`, is not provable: beyond 2^(2^62) the schedule
    array `sizes[65]` overflows, in the C as in the model.) -/
theorem rootrem_contract (a k : Nat) (w : Bool) (ha : 0 < a) (hk : 2 ≤ k) (hsz : bitLen a ≤ 2 ^ 61) :
    (rootrem a (limbCount a) k w).1 = iroot k a ∧
    ((rootrem a (limbCount a) k w).2 = 0 ↔ (iroot k a) ^ k = a) ∧
    (w = true → (rootrem a (limbCount a) k w).2 = a - (iroot k a) ^ k) :=
  Rootrem.rootremAt_holds a k ha hk hsz w

example : rootrem (7 ^ 150 + 5) (limbCount (7 ^ 150 + 5)) 5 true = (7 ^ 30, 5) ∧
    (rootrem ((2 ^ 200 + 12345) ^ 2 + 2 ^ 200) 7 2 false).1 = 2 ^ 200 + 12345 := by decide +kernel

/-- mpz_root / mpz_nthroot / mpz_rootrem, UNCONDITIONAL (`mpz_root_sign_flag` without its hypothesis) for every operand
    an mpz_t can hold (`|SIZ| < 2^31` limbs, i.e. below 2^37 bits; proved up to 2^61 bits) and every index. -/
theorem mpz_root_spec (u : Int) (n : Nat) (hsz : bitLen u.natAbs ≤ 2 ^ 61) :
    (u < 0 ∧ n % 2 = 0 → mpzRoot u n = .error "sqrtneg" ∧ mpzRootrem u n = .error "sqrtneg") ∧
    (¬(u < 0 ∧ n % 2 = 0) → n = 0 → mpzRoot u n = .error "div0" ∧ mpzRootrem u n = .error "div0") ∧
    (¬(u < 0 ∧ n % 2 = 0) → n ≠ 0 → ∃ (root rem : Int) (flag : Bool),
        mpzRoot u n = .ok (root, flag) ∧ mpzRootrem u n = .ok (root, rem) ∧
        root = u.sign * (iroot n u.natAbs : Nat) ∧
        (flag = true ↔ (iroot n u.natAbs) ^ n = u.natAbs) ∧ (flag = true ↔ root ^ n = u) ∧
        root ^ n + rem = u) :=
  mpz_root_sign_flag_at u n (fun h0 h1 => Rootrem.rootremAt_holds u.natAbs n (Int.natAbs_pos.mpr h0) h1 hsz)

example : mpzRoot (-(7 ^ 150)) 5 = .ok (-(7 ^ 30), true) ∧ mpzRootrem (-(7 ^ 150) - 3) 5 = .ok (-(7 ^ 30), -3) ∧
    mpzRoot ((2 ^ 200 + 12345) ^ 2 + 2 ^ 200) 2 = .ok (2 ^ 200 + 12345, false) := by decide +kernel

-- non-vacuity: a negative cube and a negative non-cube, an even root of a negative, a zeroth root
example : mpzRoot (-27) 3 = .ok (-3, true) ∧ mpzRootrem (-30) 3 = .ok (-3, -3) ∧
    mpzRoot (-4) 2 = .error "sqrtneg" ∧ mpzRoot 5 0 = .error "div0" ∧ mpzRoot (-5) 0 = .error "sqrtneg" := by
  decide +kernel

/-- UNCONDITIONAL for a root index at least the bit length of `|u|` (the region of repaired defect
    4290b4f: `mpz_root (r, 2^384, 2^44)` used to abort on a 1.2 TB allocation): on every dispatch path of
    mpn_rootrem (basecase, mpn_rootrem_internal's root-is-1 exit, taken before any temporary is
    allocated) the root is `sign(u)·1`, the flag says `|u| = 1`, the remainder is `u − sign(u)`; no
    hypothesis about the Newton iterations is needed. -/
theorem mpz_root_huge_index (u : Int) (n : Nat) (hu : u ≠ 0) (hn : bitLen u.natAbs ≤ n)
    (hs : ¬(u < 0 ∧ n % 2 = 0)) :
    mpzRoot u n = .ok (u.sign, decide (u.natAbs = 1)) ∧ mpzRootrem u n = .ok (u.sign, u - u.sign) := by
  have ha : 0 < u.natAbs := Int.natAbs_pos.mpr hu
  have hn0 : n ≠ 0 := by have := bitLen_spec u.natAbs ha; omega
  obtain ⟨root, rem, flag, e1, e2, hr, hf, -, hsum⟩ :=
    (mpz_root_sign_flag_at u n (fun _ _ => rootremAt_huge u.natAbs n ha hn)).2.2 hs hn0
  rw [iroot_eq_one u.natAbs n ha hn (Nat.pos_of_ne_zero hn0)] at hr hf
  simp only [Nat.cast_one, mul_one] at hr
  subst hr
  have hpow : u.sign ^ n = u.sign := by
    rcases lt_trichotomy u 0 with h | h | h
    · have hodd : Odd n := Nat.odd_iff.mpr (by have := Nat.mod_two_eq_zero_or_one n; omega)
      rw [Int.sign_eq_neg_one_of_neg h, Odd.neg_one_pow hodd]
    · exact absurd h hu
    · rw [Int.sign_eq_one_of_pos h, one_pow]
  rw [hpow] at hsum
  have hrem : rem = u - u.sign := by omega
  have hflag : flag = decide (u.natAbs = 1) := by
    simp only [Nat.one_pow] at hf
    by_cases h1 : u.natAbs = 1
    · simp [h1, hf.mpr h1.symm]
    · have : flag ≠ true := fun h => h1 (hf.mp h).symm
      simp [h1, this]
  rw [e1, e2, hrem, hflag]
  exact ⟨rfl, rfl⟩

example : mpzRoot (2 ^ 384) (2 ^ 44) = .ok (1, false) ∧ mpzRootrem (-(2 ^ 384)) (2 ^ 64 - 1) = .ok (-1, 1 - 2 ^ 384) := by
  decide +kernel

/-- mpn_sqrtrem1 (sqrtrem.c:145-196) on a normalised limb `B/4 ≤ a < B`: the `approx_tab` seed, its
    correction and the two precision-doubling passes (8 → 16 → 32 bits), every operation reduced mod `B`
    as the C's `mp_limb_t` arithmetic, return exactly `(⌊√a⌋, a − ⌊√a⌋²)`.  Uses the kernel-checked fact
    `approxTab_ok` about the REGENERATED seed table (`tab[i] = ⌊√(256·(i+64))⌋`) and Zimmermann's step
    lemma `zstep` (at most one correction per pass). -/
theorem sqrtrem1_spec (a : Nat) (h1 : B / 4 ≤ a) (h2 : a < B) :
    sqrtrem1 a = (Nat.sqrt a, a - Nat.sqrt a * Nat.sqrt a) := by
  obtain ⟨e, r⟩ := sqrtrem1_sq a h1 h2
  obtain ⟨d1, d2⟩ := sqrt_of_rem e r
  exact Prod.ext d1 d2

-- non-vacuity: smallest and largest normalised limb, and a limb just below a square
example : sqrtrem1 (B / 4) = (2 ^ 31, 0) ∧ sqrtrem1 (B - 1) = (2 ^ 32 - 1, 2 * (2 ^ 32 - 1)) ∧
    sqrtrem1 (3037000500 * 3037000500 - 1) = (3037000499, 2 * 3037000499) := by decide +kernel

/-- mpn_sqrtrem2 (sqrtrem.c:203-243) on a normalised two-limb operand (`np1 ≥ B/4`), word level: the
    subtraction loop, the division by `2·sp[0]`, the `qhl` bookkeeping (including the wrap of
    `sp[0]` to 0 when the root candidate is `B`), the borrow of `q²` and the add-back with carries give
    `{np0, np1} = sp² + cc·B + rp` with `cc·B + rp ≤ 2·sp`; hence `sp = ⌊√N⌋`. -/
theorem sqrtrem2_spec' (np0 np1 : Nat) (h0 : np0 < B) (h1 : B / 4 ≤ np1) (h2 : np1 < B) :
    ∃ sp rp cc, sqrtrem2 np0 np1 = (sp, rp, cc) ∧ sp = Nat.sqrt (np1 * B + np0) ∧
      (cc * (B : Int) + (rp : Int)).toNat = np1 * B + np0 - sp * sp := by
  obtain ⟨sp, rp, cc, e, p1, p2⟩ := sqrtrem2_ex np0 np1 h0 h1 h2
  obtain ⟨d1, d2⟩ := sqrt_of_rem p1 p2
  exact ⟨sp, rp, cc, e, d1, by rw [d2, ← d1]⟩

example : sqrtrem2 (B - 1) (B - 1) = (B - 1, B - 2, 1) ∧ sqrtrem2 0 (B / 4) = (B / 2, 0, 0) := by
  decide +kernel

/-- mpn_dc_sqrtrem (sqrtrem.c:252-293, Zimmermann's "Karatsuba square root") at value level: for every
    limb count `n ≥ 1` and every normalised operand `B^(2n)/4 ≤ N < B^(2n)` the recursion (high half,
    division of `R'·B^l + a1` by `S'`, parity bit and halving, subtraction of `q²`, one correction)
    returns `(⌊√N⌋, N − ⌊√N⌋²)`.  The base case is the word-level mpn_sqrtrem2 theorem above, the step
    is `zstep`.  (Value level: limb carries and buffer aliasing inside the function are not modelled.) -/
theorem dc_sqrtrem_spec (n N : Nat) (hn : 0 < n) (h1 : B ^ (2 * n) ≤ 4 * N) (h2 : N < B ^ (2 * n)) :
    dcSqrtrem n N = (Nat.sqrt N, N - Nat.sqrt N * Nat.sqrt N) := by
  obtain ⟨e, r⟩ := dcSpec n N hn h1 h2
  obtain ⟨d1, d2⟩ := sqrt_of_rem e r
  exact Prod.ext d1 d2

example : dcSqrtrem 3 (B ^ 6 - 1) = (B ^ 3 - 1, 2 * (B ^ 3 - 1)) := by decide +kernel

/-- mpn_sqrtrem (sqrtrem.c:296-378) for every operand the manual admits (`n ≥ 1`, most significant limb
    non-zero): `{r1p, ⌈n/2⌉}` is `⌊√u⌋`, `{r2p, retval}` is `u − ⌊√u⌋²`, and the return value is zero
    exactly for perfect squares.  Composition of `sqrtrem1_spec`, `sqrtrem2_spec'`, `dc_sqrtrem_spec` and
    `sqrtrem_normalise_ok`; the wrapper and the recursion are value-level models. -/
theorem mpn_sqrtrem_spec (np : List Nat) (hl : Limbs np) (hne : np ≠ []) (hhi : np.getLastD 0 ≠ 0) :
    val (sqrtrem np).sp = Nat.sqrt (val np) ∧ (sqrtrem np).sp.length = (np.length + 1) / 2 ∧
    val (sqrtrem np).rp = val np - Nat.sqrt (val np) * Nat.sqrt (val np) ∧
    (sqrtrem np).rn = (sqrtrem np).rp.length ∧
    ((sqrtrem np).rn = 0 ↔ ∃ k, val np = k * k) := sqrtrem_full np hl hne hhi

example : (sqrtrem [5, 0, 1]).sp = [0, 1] ∧ (sqrtrem [5, 0, 1]).rp = [5] ∧ (sqrtrem [5, 0, 1]).rn = 1 := by
  decide +kernel

/-- mpn_perfect_square_p answers exactly "is `{s1p, n}` a perfect square" for EVERY limb vector with
    `n ≥ 1` limbs — the most significant limbs may be zero and the all-zero vector is a square (the C
    normalises before its final mpn_sqrtrem call, perfect_square_p.c:214-216): unconditional form of
    `perfect_square_p_iff`.  (`n + 1 < B` is mpn_mod_34lsub1's ASSERT on the size.) -/
theorem mpn_perfect_square_p_spec (up : List Nat) (hl : Limbs up) (hne : up ≠ []) (hn : up.length + 1 < B) :
    perfectSquareP up = true ↔ ∃ k, val up = k * k :=
  perfect_square_p_iff up hl hne hn (perfectSquareFinal_iff up hl)

-- non-vacuity: unnormalised operands, the all-zero vector
example : perfectSquareP [4, 0] = true ∧ perfectSquareP [0, 0] = true ∧ perfectSquareP [0, 1, 0] = true ∧
    perfectSquareP [5, 0] = false ∧ perfectSquareP [0, 2, 0, 0] = false := by decide +kernel

/-- mpz_sqrt, mpz_sqrtrem (mpz/sqrt.c, mpz/sqrtrem.c) and mpz_perfect_square_p (mpir.h): negative operands
    raise the square-root exception, otherwise `⌊√u⌋` and `u − ⌊√u⌋²`; the predicate is true exactly
    for squares — 0 and 1 included, negatives excluded. -/
theorem mpz_sqrt_spec (u : Int) :
    (u < 0 → mpzSqrt u = .error "sqrtneg" ∧ mpzSqrtrem u = .error "sqrtneg") ∧
    (0 ≤ u → mpzSqrt u = .ok (Nat.sqrt u.toNat : Nat) ∧
      mpzSqrtrem u = .ok ((Nat.sqrt u.toNat : Nat), ((u.toNat - Nat.sqrt u.toNat * Nat.sqrt u.toNat : Nat) : Int))) ∧
    (u.toNat + 1 < B ^ (B - 2) → (mpzPerfectSquareP u = true ↔ ∃ k : Int, u = k * k)) := by
  refine ⟨fun h => by simp [mpzSqrt, mpzSqrtrem, h], fun h => ?_, fun hsz => ?_⟩
  · by_cases h0 : u = 0
    · subst h0; simp [mpzSqrt, mpzSqrtrem]
    · have hpos : u.toNat ≠ 0 := by omega
      obtain ⟨w1, w2, w3⟩ := natLimbs_wf u.toNat hpos
      obtain ⟨f1, -, f3, -, -⟩ := sqrtrem_full (natLimbs u.toNat) w2 w1 w3
      rw [(val_natLimbs u.toNat).1] at f1 f3
      have hn : ¬ u < 0 := by omega
      simp only [mpzSqrt, mpzSqrtrem, hn, h0, if_false, f1, f3]
      exact ⟨trivial, trivial⟩
  · by_cases hneg : u < 0
    · have : ¬ u > 0 := by omega
      simp only [mpzPerfectSquareP, this, if_false]
      constructor
      · intro h; simp at h; omega
      · rintro ⟨k, rfl⟩; exact absurd hneg (not_lt.mpr (mul_self_nonneg k))
    · by_cases h0 : u = 0
      · subst h0; simp [mpzPerfectSquareP]
      · have hpos : u.toNat ≠ 0 := by omega
        have hgt : u > 0 := by omega
        obtain ⟨w1, w2, w3⟩ := natLimbs_wf u.toNat hpos
        have hlen : (natLimbs u.toNat).length + 1 < B := by
          by_contra hc
          have h1 := val_getLast _ w1 w2
          rw [(val_natLimbs u.toNat).1] at h1
          have h2 : B ^ (B - 2) ≤ B ^ ((natLimbs u.toNat).length - 1) :=
            Nat.pow_le_pow_right B_pos (by omega)
          have h3 : 1 * B ^ ((natLimbs u.toNat).length - 1) ≤
              (natLimbs u.toNat).getLastD 0 * B ^ ((natLimbs u.toNat).length - 1) :=
            Nat.mul_le_mul_right _ (Nat.pos_of_ne_zero w3)
          omega
        have key := mpn_perfect_square_p_spec (natLimbs u.toNat) w2 w1 hlen
        rw [(val_natLimbs u.toNat).1] at key
        simp only [mpzPerfectSquareP, hgt, if_true]
        rw [key]
        constructor
        · rintro ⟨k, hk⟩; exact ⟨k, by have : (u.toNat : Int) = u := Int.toNat_of_nonneg (by omega); rw [← this, hk]; push_cast; ring⟩
        · rintro ⟨k, hk⟩
          refine ⟨k.natAbs, ?_⟩
          have : (u.toNat : Int) = (k.natAbs * k.natAbs : Nat) := by
            rw [Int.toNat_of_nonneg (by omega), hk]; push_cast; rcases abs_choice k with h | h <;> rw [h] <;> ring
          exact_mod_cast this

example : mpzSqrtrem 99 = .ok (9, 18) ∧ mpzSqrt (-1) = .error "sqrtneg" ∧ mpzPerfectSquareP 0 = true ∧
    mpzPerfectSquareP 1 = true ∧ mpzPerfectSquareP (-4) = false ∧ mpzPerfectSquareP 8 = false := by
  decide +kernel

/-- The final adjustment of both n-th root algorithms (rootrem.c:329-352 `for (c = 0;; c++) { ... if
    (S^k > R) S--; else break; }`, rootrem_basecase.c:90-98 `if (U < x^nth) x--`): from any candidate in the
    range the code guarantees (the code ASSERTs at most one decrement, i.e. `root ≤ S ≤ root + 1`; the
    model's loop allows two) it returns the exact floor root and the remainder `R − root^k`. -/
theorem root_final_adjust (k R s : Nat) (hk : 0 < k) (h1 : iroot k R ≤ s) :
    (s ≤ iroot k R + 2 → finalAdjust k R s = (iroot k R, R - (iroot k R) ^ k)) ∧
    (s ≤ iroot k R + 1 → finalAdjust1 k R s = (iroot k R, R - (iroot k R) ^ k)) := by
  constructor
  · intro h2; unfold finalAdjust; rw [adjustDown_spec k R hk 2 s h1 h2]; rfl
  · intro h2; unfold finalAdjust1; rw [adjustDown_spec k R hk 1 s h1 h2]; rfl

example : finalAdjust 3 1000 11 = (10, 0) ∧ finalAdjust1 5 (3 ^ 5 - 1) 3 = (2, 3 ^ 5 - 1 - 2 ^ 5) := by
  decide +kernel

/-- PARTIAL (soundness half of `perfect_power_p_iff`).  Full statement:
      `mpzPerfectPowerP u = true ↔ ∃ a b, 2 ≤ b ∧ a ^ b = u`   (the manual's definition; 0, 1 and −1 are
      perfect powers, negative numbers only with odd `b`).
    Proved: whenever the model of mpz/perfpow.c answers "yes" — `u = 0`, the early `n2prime` exits, the
    "factoring completed" exit with its power-of-two test for negative numbers, and both root-attempt loops —
    `u` is a perfect power in exactly that sense (the exponent is odd when `u < 0`).  The hypothesis is the
    contract of mpn_rootrem, which supplies mpz_root's exactness flags.
    Missing: the completeness half ("no" is only answered for non-powers), which needs unique
    factorisation (the gcd-of-multiplicities argument and the `SMALLEST_OMITTED_PRIME` cut-off); it is
    covered by the differential run against the exhaustive-exponent specification `isPerfectPower`. -/
theorem perfect_power_p_iff_partial (hrr : RootremSpec) (u : Int) (h : mpzPerfectPowerP u = true) :
    ∃ (a : Int) (b : Nat), 2 ≤ b ∧ a ^ b = u := perfect_power_sound hrr u h

/-- Soundness of mpz_perfect_power_p, UNCONDITIONAL (`perfect_power_p_iff_partial` without its hypothesis): every
    call of mpz_root made by mpz/perfpow.c is on a divisor of `|u|`, where the contract of mpn_rootrem is now proved. -/
theorem perfect_power_p_sound (u : Int) (hsz : bitLen u.natAbs ≤ 2 ^ 61) (h : mpzPerfectPowerP u = true) :
    ∃ (a : Int) (b : Nat), 2 ≤ b ∧ a ^ b = u := by
  by_cases h0 : u = 0
  · exact ⟨0, 2, by omega, by rw [h0]; norm_num⟩
  · have hpos : 0 < u.natAbs := Int.natAbs_pos.mpr h0
    exact perfect_power_sound_at u (fun a k ha hk hd =>
      Rootrem.rootremAt_holds a k ha hk (Nat.le_trans (Rootrem.bitLen_mono (Nat.le_of_dvd hpos hd)) hsz)) h

/-- mpz_perfect_power_p (mpz/perfpow.c) IN FULL, for every integer an mpz_t can hold (proved up to 2^61 bits): the
    function answers "yes" exactly for the perfect powers of the manual — `u = a^b` with integers `a` and `b ≥ 2`;
    0, 1 and −1 are perfect powers, a negative number only with an odd exponent (automatic: an even power is `≥ 0`).
    Completeness (`IsPP u → yes`, Lemmas/PerfPow.lean) carries, for every exponent `b ≥ 2`, the invariant
      `|u|` is a b-th power  ⟺  `b ∣ n2` ∧ the remaining cofactor is a b-th power
    through `mpz_scan1` / the division by `2^n2` and every round of the trial-division loop (`n2 = 0`: no constraint;
    `gcd` of multiplicities; unique factorisation enters as `isPow_split`), and shows for each "no" exit that no admissible
    exponent is left: 2 or an odd prime dividing exactly once, a multiplicity or a final `n2` that is a power of two
    with `u < 0` (the 2-power rule), `gcd = 1`, a prime `n2` whose root is not exact (`n2prime:`; `n2 = 2` with `u < 0`),
    and both root-attempt loops over prime exponents `nth` (starting at 3 for `u < 0`): they reach a prime divisor of the
    exponent before the cut-off `root < SMALLEST_OMITTED_PRIME` (the cofactor has no divisor below that bound: the
    REGENERATED table contains a divisor of every `2 ≤ d < 1009`, `perfpowPrimes_cover`), before the bound `nth ≤ n2`
    and within the bit length of the cofactor.  `isprime` of the C is proved equal to primality (`isprime_iff`). -/
theorem perfect_power_p_iff (u : Int) (hsz : bitLen u.natAbs ≤ 2 ^ 61) :
    mpzPerfectPowerP u = true ↔ ∃ (a : Int) (b : Nat), 2 ≤ b ∧ a ^ b = u := by
  refine ⟨perfect_power_p_sound u hsz, fun h => ?_⟩
  by_cases h0 : u = 0
  · subst h0; decide
  · have hpos : 0 < u.natAbs := Int.natAbs_pos.mpr h0
    exact perfect_power_complete_at u (fun a k ha hk hd =>
      Rootrem.rootremAt_holds a k ha hk (Nat.le_trans (Rootrem.bitLen_mono (Nat.le_of_dvd hpos hd)) hsz)) h

-- non-vacuity (both directions on concrete operands): −(2^12·1009^4) has only the even exponent 4 → no; 2^6·1009^3 = (4·1009)^3
example : mpzPerfectPowerP (-(2 ^ 12 * 1009 ^ 4)) = false ∧ mpzPerfectPowerP (2 ^ 6 * 1009 ^ 3) = true ∧
    mpzPerfectPowerP (-(2 ^ 6 * 1009 ^ 3)) = true ∧ mpzPerfectPowerP (1013 ^ 7) = true ∧
    mpzPerfectPowerP (1013 ^ 7 + 1) = false ∧ mpzPerfectPowerP (-(3 ^ 20 * 5 ^ 12)) = false ∧
    mpzPerfectPowerP (-(3 ^ 9 * 5 ^ 6)) = true := by decide +kernel

-- non-vacuity: the model says yes on 0, 1, −1, −27·64, 2^10·3^15 and no on 2, −16, −4·81
example : mpzPerfectPowerP 0 = true ∧ mpzPerfectPowerP 1 = true ∧ mpzPerfectPowerP (-1) = true ∧
    mpzPerfectPowerP (-1728) = true ∧ mpzPerfectPowerP (2 ^ 10 * 3 ^ 15) = true ∧
    mpzPerfectPowerP 2 = false ∧ mpzPerfectPowerP (-16) = false ∧ mpzPerfectPowerP (-324) = false := by
  decide +kernel

end Mpir.Root
