/-
  C06 — mpz_sizeinbase / MPN_SIZEINBASE for bases that are not powers of two, WITHOUT the 2^24-bit restriction
  of `sizeinbase_bound_partial` / `get_str_fits_partial` (Props/C06.lean).
  Property theorems only; helper lemmas in MpirProofs/Lemmas/RadixSib.lean.  Model: `Mpir.Radix.sizeinbase`
  (gmp-impl.h:2699 MPN_SIZEINBASE, the binary64 product as exact product + round-to-nearest-even), table
  `Mpir.Gen.mpBases` regenerated from mpn/generic/mp_bases.c on every check.

  Result.  With r = mpz_sizeinbase (x, b), d = number of digits of |x|, t = bit count of |x|:
    * d ≤ r ("never too small", what the buffers of mpz_get_str / mpz_out_str rely on) holds for EVERY base and
      every t ≤ 2^53 + 20 and fails at t = 2^53 + 21 (base 30, x = 2^t - 1): exact threshold;
    * r ≤ d + 1 holds for every base and every t ≤ 2 626 805 675 765 606 (≈ 2^51.22) and fails at
      t = 2 626 805 754 981 986 (base 3, x = 2^(t-1)): the C's answer is then d + 2.
  An mpz_t has at most 2^31 - 1 limbs (`int _mp_size`, mpir.h:246), i.e. t < 2^37, and no x86-64 address space
  holds 2^51 bits: for every operand the C can represent both claims hold (`sizeinbase_bound`, `get_str_fits`).
-/
import MpirProofs.Props.C06
import MpirProofs.Lemmas.RadixSib
namespace Mpir.Radix
open Mpir

/-- The certificates for the regenerated `chars_per_bit_exactly` column, every base 3..62 that is not a power
    of two, with c = M/2^k the binary64 constant (kernel-checked with 256-bit truncated powers, `powLo`/`powHi`):
    `2^(2^k) < b^M` (c is ABOVE log_b 2 — the point of the table repair e2aa8a0), `b^p ≤ 2^(2^128)` for the hint
    p = ⌊2^128·log_b 2⌋, the error budget `T·(c - p/2^128) + half ulp ≤ 1 - p/2^128` at T = `sibT2`, and claim A
    at the 21 bit counts 2^53 .. 2^53+20 one by one. -/
theorem sizeinbase_table_ok2 : ∀ b < 63, 2 ≤ b → pow2P b = false → SibOk2 b := by decide +kernel

-- non-vacuity: base 10: c = 0x134413509f79ff·2^-54 > log10 2 and the 128-bit lower bound of log10 2
example : dM 10 = 0x134413509f79ff ∧ dk 10 = 54 ∧ sibP 10 = 102435199438739363750012109250103232700 := by decide +kernel
example : powGt 256 10 53 0x134413509f79ff (2 ^ 54) = true := by decide +kernel
example : powLe 256 10 128 102435199438739363750012109250103232700 (2 ^ 128) = true := by decide +kernel
example : powLe 256 10 128 102435199438739363750012109250103232701 (2 ^ 128) = false := by decide +kernel

/-- MPN_SIZEINBASE (mpn level), every base 3..62 that is not a power of two, every normalised operand of at most
    `sibT2` = 2 626 805 675 765 606 bits: the digit count or one more. -/
theorem mpn_sizeinbase_bound (b : Nat) (hb : 2 ≤ b) (hb62 : b ≤ 62) (hnp : pow2P b = false)
    (up : List Nat) (hu : Limbs up) (hne : up ≠ []) (htop : up.getLast! ≠ 0) (hbits : val up < 2 ^ sibT2) :
    sizeinbase up b = (digitsOf b (val up)).length ∨ sizeinbase up b = (digitsOf b (val up)).length + 1 :=
  sizeinbase_bound_of2 hb hnp (sizeinbase_table_ok2 b (by omega) hb hnp) hu hne htop hbits

example : sizeinbase [0, 0, 1] 10 = 39 ∧ (digitsOf 10 (val [0, 0, 1])).length = 39 ∧
    sizeinbase [B - 1, B - 1] 10 = 39 ∧ (digitsOf 10 (val [B - 1, B - 1])).length = 39 ∧
    sizeinbase [0, 8] 10 = 21 ∧ (digitsOf 10 (val [0, 8])).length = 21 ∧
    sizeinbase [1, 5] 10 = 21 ∧ (digitsOf 10 (val [1, 5])).length = 20 := by decide +kernel

/-- mpz_sizeinbase, every base 3..62 that is not a power of two, every x ≠ 0 of at most `sibT2` bits: exact or one
    too large.  (Supersedes `sizeinbase_bound_partial`, which stops at 2^24 bits.) -/
theorem sizeinbase_bound_bits (b : Nat) (hb : 2 ≤ b) (hb62 : b ≤ 62) (hnp : pow2P b = false)
    (x : Int) (hx : x ≠ 0) (hbits : x.natAbs < 2 ^ sibT2) :
    mpz_sizeinbase x b = (digitsOf b x.natAbs).length ∨ mpz_sizeinbase x b = (digitsOf b x.natAbs).length + 1 := by
  have hxn : x.natAbs ≠ 0 := by omega
  obtain ⟨t1, t2⟩ := natLimbs_top _ hxn
  obtain ⟨v1, v2⟩ := val_natLimbs x.natAbs
  have := mpn_sizeinbase_bound b hb hb62 hnp _ v2 t1 t2 (by rw [v1]; exact hbits)
  rw [v1] at this
  exact this

/-- what an `mpz_t` can hold: `_mp_size` is an `int` (mpir.h:246), so |x| has at most 2^31 - 1 limbs -/
def MpzFits (x : Int) : Prop := x.natAbs < 2 ^ (64 * (2 ^ 31 - 1))

/-- sizeinbase_bound — THE FULL STATEMENT for the C's types: for every base 3..62 that is not a power of two and
    every non-zero integer an mpz_t can represent, mpz_sizeinbase is the digit count of |x| or one more. -/
theorem sizeinbase_bound (b : Nat) (hb : 2 ≤ b) (hb62 : b ≤ 62) (hnp : pow2P b = false)
    (x : Int) (hx : x ≠ 0) (hfit : MpzFits x) :
    mpz_sizeinbase x b = (digitsOf b x.natAbs).length ∨ mpz_sizeinbase x b = (digitsOf b x.natAbs).length + 1 :=
  sizeinbase_bound_bits b hb hb62 hnp x hx
    (lt_of_lt_of_le hfit (Nat.pow_le_pow_right (by omega) (by unfold sibT2; norm_num)))

example : MpzFits (-(10 ^ 30)) ∧ mpz_sizeinbase (-(10 ^ 30)) 10 = 31 ∧ (digitsOf 10 (10 ^ 30)).length = 31 ∧
    mpz_sizeinbase (10 ^ 30 - 1) 10 = 31 ∧ (digitsOf 10 (10 ^ 30 - 1)).length = 30 := by
  refine ⟨?_, by decide +kernel⟩
  unfold MpzFits
  calc (-(10 ^ 30 : Int)).natAbs < 2 ^ 100 := by norm_num
    _ ≤ 2 ^ (64 * (2 ^ 31 - 1)) := Nat.pow_le_pow_right (by omega) (by norm_num)

/-- Never too small, the exact range: for every base 3..62 that is not a power of two and every x ≠ 0 of at most
    `sibTA` = 2^53 + 20 bits, mpz_sizeinbase is at least the digit count. -/
theorem sizeinbase_ge (b : Nat) (hb : 2 ≤ b) (hb62 : b ≤ 62) (hnp : pow2P b = false)
    (x : Int) (hx : x ≠ 0) (hbits : x.natAbs < 2 ^ sibTA) :
    (digitsOf b x.natAbs).length ≤ mpz_sizeinbase x b := by
  have hxn : x.natAbs ≠ 0 := by omega
  obtain ⟨t1, t2⟩ := natLimbs_top _ hxn
  obtain ⟨v1, v2⟩ := val_natLimbs x.natAbs
  have := sizeinbase_ge_of2 hb hnp (sizeinbase_table_ok2 b (by omega) hb hnp) v2 t1 t2 (by rw [v1]; exact hbits)
  rw [v1] at this
  exact this

/-- mpz_sizeinbase of a positive x with `2^(t-1) ≤ x < 2^t` is `sizeinbaseBits t` -/
theorem mpz_sizeinbase_of_bits {x t : Nat} (ht : 1 ≤ t) (hlo : 2 ^ (t - 1) ≤ x) (hhi : x < 2 ^ t) (b : Nat) :
    mpz_sizeinbase (x : Int) b = sizeinbaseBits t b := by
  have hxn : x ≠ 0 := by have := Nat.pow_pos (n := t - 1) (show 0 < 2 by omega); omega
  obtain ⟨t1, t2⟩ := natLimbs_top _ hxn
  obtain ⟨v1, v2⟩ := val_natLimbs x
  obtain ⟨t', ht1, hlo', hhi', heq⟩ := sizeinbase_eq_bits v2 t1 t2 b
  rw [v1] at hlo' hhi'
  have e : t' = t := by
    have a1 : t' - 1 < t := (Nat.pow_lt_pow_iff_right (by omega : 1 < 2)).mp (lt_of_le_of_lt hlo' hhi)
    have a2 : t - 1 < t' := (Nat.pow_lt_pow_iff_right (by omega : 1 < 2)).mp (lt_of_le_of_lt hlo hhi')
    omega
  unfold mpz_sizeinbase
  rw [Int.natAbs_natCast, heq, e]

/-- the digit count from a bracket `b^n ≤ x < b^(n+1)` -/
theorem digits_of_bracket {b x n : Nat} (hb : 2 ≤ b) (hlo : b ^ n ≤ x) (hhi : x < b ^ (n + 1)) :
    (digitsOf b x).length = n + 1 := by
  have hx : 0 < x := lt_of_lt_of_le (Nat.pow_pos (by omega)) hlo
  obtain ⟨d0, dlo, dhi⟩ := digitsOf_length_bounds hb hx
  have a1 : n < (digitsOf b x).length := (Nat.pow_lt_pow_iff_right (by omega)).mp (lt_of_le_of_lt hlo dhi)
  have a2 : (digitsOf b x).length - 1 < n + 1 := (Nat.pow_lt_pow_iff_right (by omega)).mp (lt_of_le_of_lt dlo hhi)
  omega

/-- `sibTA + 1` -/
def sibTA1 : Nat := 2 ^ 53 + 21

theorem bits_of_pow_pred {t : Nat} (ht : 1 ≤ t) : 2 ^ (t - 1) ≤ 2 ^ t - 1 ∧ 2 ^ t - 1 < 2 ^ t := by
  obtain ⟨s, rfl⟩ : ∃ s, t = s + 1 := ⟨t - 1, by omega⟩
  have := Nat.pow_pos (n := s) (show 0 < 2 by omega)
  simp only [Nat.add_sub_cancel, pow_succ]
  omega

/-- the model's answer at 2^53 + 21 bits, base 30 -/
def sibRA : Nat := 1835622596273517
/-- ⌊(sibTB - 1)·log_3 2⌋ -/
def sibRB : Nat := 1657329907670869

/-- Sharpness of `sizeinbase_ge`: at 2^53 + 21 bits the claim fails.  For x = 2^(2^53+21) - 1 (`sibTA1 = sibTA + 1` bits) and base 30 the
    model of the C returns `sibRA` = 1 835 622 596 273 517 while x has 1 835 622 596 273 518 digits: the double
    `(double) totbits` has already lost the low bit, the product is rounded down.  (A 1 PiB operand: not
    addressable, no run against the library is possible.  For -x the string of mpz_get_str then needs one byte
    more than `mpz_sizeinbase + 2`: `get_str_fits` below is sharp as well.) -/
theorem sizeinbase_too_small_above :
    mpz_sizeinbase ((2 ^ sibTA1 - 1 : Nat) : Int) 30 = sibRA ∧
    (digitsOf 30 (2 ^ sibTA1 - 1)).length = sibRA + 1 := by
  have h1 : 1 ≤ sibTA1 := by unfold sibTA1; omega
  constructor
  · rw [mpz_sizeinbase_of_bits (t := sibTA1) h1 (bits_of_pow_pred h1).1 (bits_of_pow_pred h1).2]
    decide +kernel
  · have a1 : 30 ^ sibRA < 2 ^ sibTA1 := powLt_sound (P := 256) (f := 54) (by decide +kernel)
    have a2 : 2 ^ sibTA1 < 30 ^ (sibRA + 1) := powGt_sound (P := 256) (f := 54) (by decide +kernel)
    exact digits_of_bracket (n := sibRA) (by omega : 2 ≤ 30) (Nat.le_sub_one_of_lt a1)
      (lt_of_le_of_lt (Nat.sub_le _ _) a2)

/-- first bit count at which "at most one too large" fails -/
def sibTB : Nat := 2626805754981986

/-- Beyond `sibT2` the second half is false: for x = 2^(sibTB - 1) (a number of sibTB = 2 626 805 754 981 986 bits,
    ≈ 2^51.22 bits = 300 TiB) and base 3 the model of the C returns the digit count (`sibRB + 1` = 1 657 329 907 670 870) plus TWO — the product
    `totbits · chars_per_bit_exactly`, with the constant 0.84 ulp above log_3 2 and the result rounded to a
    multiple of 1/4, has drifted by more than 1 - log_3 2.  Between `sibT2` and `sibTB` (79 216 380 bit counts,
    base 3 only) the claim is true but not covered by `sizeinbase_bound_bits` (see the part module). -/
theorem sizeinbase_two_too_large_above :
    mpz_sizeinbase ((2 ^ (sibTB - 1) : Nat) : Int) 3 = sibRB + 3 ∧
    (digitsOf 3 (2 ^ (sibTB - 1))).length = sibRB + 1 := by
  have h1 : 1 ≤ sibTB := by decide
  constructor
  · rw [mpz_sizeinbase_of_bits (t := sibTB) h1 (le_refl _) (Nat.pow_lt_pow_right (by omega) (by omega))]
    decide +kernel
  · have a1 : 3 ^ sibRB ≤ 2 ^ (sibTB - 1) := powLe_sound (P := 256) (f := 54) (by decide +kernel)
    have a2 : 2 ^ (sibTB - 1) < 3 ^ (sibRB + 1) := powGt_sound (P := 256) (f := 54) (by decide +kernel)
    exact digits_of_bracket (n := sibRB) (by omega : 2 ≤ 3) a1 a2

/-- Buffer clause, the exact range: for every legal base and every x of at most 2^53 + 20 bits — in particular
    every x an mpz_t can hold — the string mpz_get_str produces, with its terminating NUL, fits in
    `mpz_sizeinbase (x, |base|) + 2` bytes.  (Supersedes `get_str_fits_partial`.) -/
theorem get_str_fits (base : Int) (hb : LegalOutBase base) (x : Int) (hbits : x.natAbs < 2 ^ sibTA) :
    (getStrSpec base x).length + 1 ≤ mpz_sizeinbase x base.natAbs + 2 := by
  have hb2 : 2 ≤ base.natAbs ∧ base.natAbs ≤ 62 := by unfold LegalOutBase at hb; omega
  unfold getStrSpec
  simp only [List.length_append, List.length_map]
  by_cases hx : x = 0
  · subst hx; simp [mpz_sizeinbase, sizeinbase, natLimbs_zero]
  · have hsign : (if x < 0 then [45] else ([] : List Nat)).length ≤ 1 := by split <;> simp
    simp only [hx, if_false]
    cases hp : pow2P base.natAbs with
    | true =>
      have := sizeinbase_pow2_exact _ hb2.1 hb2.2 hp x
      simp only [hx, if_false] at this
      omega
    | false =>
      have := sizeinbase_ge _ hb2.1 hb2.2 hp x hx hbits
      omega

theorem get_str_fits_mpz (base : Int) (hb : LegalOutBase base) (x : Int) (hfit : MpzFits x) :
    (getStrSpec base x).length + 1 ≤ mpz_sizeinbase x base.natAbs + 2 :=
  get_str_fits base hb x (lt_of_lt_of_le hfit (Nat.pow_le_pow_right (by omega) (by unfold sibTA; norm_num)))

example : (getStrSpec (-10) (-1000)).length + 1 = 6 ∧ mpz_sizeinbase (-1000) 10 + 2 = 6 := by decide +kernel

end Mpir.Radix
