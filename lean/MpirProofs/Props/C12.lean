/-
  C12 — rational arithmetic is exact and canonical (and, for the mpq functions, C05: outputs may alias
  inputs; variables that are not outputs keep their value).
  Property theorems only; helper lemmas live in MpirProofs/Lemmas/Mpq.lean.

  Every theorem is about the executable heap model in Mpir/Model/Mpq.lean, which mirrors mpq/*.c statement
  by statement and is run against the real functions by the correspondence check.  Operations take
  variable *ids*; the theorems quantify over ALL ids, so every alias pattern (rop = op1, rop = op2,
  op1 = op2, all equal, all distinct) is covered by one statement.  `Q.toRat q = num / den` in Mathlib's ℚ,
  `Canonical q := 0 < den ∧ Int.gcd num den = 1` (hence zero is 0/1).
-/
import MpirProofs.Lemmas.Mpq
import MpirProofs.Lemmas.MpqConv
namespace Mpir.Mpq

/-- a store with 1/6 in variable 1 and 3/10 in every other variable (for the non-vacuity examples) -/
def exHeap : Heap := fun i => if i = 1 then ⟨1, 6⟩ else ⟨3, 10⟩

/-- mpq_add (`sub = false`) and mpq_sub (`sub = true`): for canonical operands and every alias
    pattern the destination holds exactly a ± b in canonical form; no other variable changes. -/
theorem mpq_aors_spec (sub : Bool) (rop op1 op2 : Nat) (h : Heap)
    (h1 : Canonical (h op1)) (h2 : Canonical (h op2)) :
    (aors sub rop op1 op2 h rop).toRat =
      (if sub then (h op1).toRat - (h op2).toRat else (h op1).toRat + (h op2).toRat) ∧
    Canonical (aors sub rop op1 op2 h rop) ∧
    ∀ j, j ≠ rop → aors sub rop op1 op2 h j = h j := by
  rw [aors_eq]
  refine ⟨?_, ?_, fun j hj => upd_other _ _ _ _ hj⟩ <;> rw [upd_self] <;> cases sub
  · simpa using (aorsVal_add_spec h1 h2).1
  · simpa using (aorsVal_sub_spec h1 h2).1
  · exact (aorsVal_add_spec h1 h2).2
  · exact (aorsVal_sub_spec h1 h2).2

-- non-vacuity: 1/6 + 3/10 = 7/15 takes the gcd(d1,d2) = 2, gcd(t,g) = 2 branch, destination = op1;
-- 1/6 - 1/6 with all three the same variable gives 0/1
example : add 1 1 2 exHeap 1 = ⟨7, 15⟩ ∧ add 1 1 2 exHeap 2 = ⟨3, 10⟩ := by decide
example : sub 1 1 1 exHeap 1 = ⟨0, 1⟩ := by decide
example : Canonical (exHeap 1) ∧ Canonical (exHeap 2) := by decide

/-- mpq_mul: exact canonical product for every alias pattern, including the squaring shortcut taken
    when op1 and op2 are the same variable. -/
theorem mpq_mul_spec (prod op1 op2 : Nat) (h : Heap)
    (h1 : Canonical (h op1)) (h2 : Canonical (h op2)) :
    (mul prod op1 op2 h prod).toRat = (h op1).toRat * (h op2).toRat ∧
    Canonical (mul prod op1 op2 h prod) ∧
    ∀ j, j ≠ prod → mul prod op1 op2 h j = h j := by
  rw [mul_eq]
  refine ⟨?_, ?_, fun j hj => upd_other _ _ _ _ hj⟩ <;> rw [upd_self]
  · by_cases e : op1 = op2
    · subst e; simpa using (mulVal_same_spec h1).1
    · simpa [e] using (mulVal_general_spec h1 h2).1
  · by_cases e : op1 = op2
    · subst e; simpa using (mulVal_same_spec h1).2
    · simpa [e] using (mulVal_general_spec h1 h2).2

-- non-vacuity: (1/6)·(3/10) = 1/20 cancels on both sides, destination = op2; squaring in place
example : mul 2 1 2 exHeap 2 = ⟨1, 20⟩ ∧ mul 2 1 2 exHeap 1 = ⟨1, 6⟩ := by decide
example : mul 1 1 1 exHeap 1 = ⟨1, 36⟩ := by decide

/-- mpq_div: a zero divisor raises DIVIDE_BY_ZERO; otherwise the exact canonical quotient (denominator
    made positive) for every alias pattern. -/
theorem mpq_div_spec (quot op1 op2 : Nat) (h : Heap)
    (h1 : Canonical (h op1)) (h2 : Canonical (h op2)) :
    ((h op2).num = 0 → div quot op1 op2 h = none) ∧
    ((h op2).num ≠ 0 → ∃ h', div quot op1 op2 h = some h' ∧
      (h' quot).toRat = (h op1).toRat / (h op2).toRat ∧ Canonical (h' quot) ∧
      ∀ j, j ≠ quot → h' j = h j) := by
  rw [div_eq]
  refine ⟨fun h0 => by simp [h0], fun h0 => ⟨upd h quot (divVal (h op1) (h op2)), by simp [h0], ?_, ?_,
    fun j hj => upd_other _ _ _ _ hj⟩⟩
  · rw [upd_self]; exact (divVal_spec h1 h2 h0).1
  · rw [upd_self]; exact (divVal_spec h1 h2 h0).2

-- non-vacuity: (1/6)/(-3/10) = -5/9 needs the sign move; division by 0/1 is rejected
example : (div 0 1 2 (fun i => if i = 1 then ⟨1, 6⟩ else ⟨-3, 10⟩)).map (· 0) = some ⟨-5, 9⟩ := by decide
example : (div 0 1 2 (fun i => if i = 1 then ⟨1, 6⟩ else ⟨0, 1⟩)).isNone = true := by decide

/-- mpq_inv: zero raises DIVIDE_BY_ZERO; otherwise the exact canonical reciprocal, both for
    dest = src (numerator and denominator swapped in place) and for distinct variables. -/
theorem mpq_inv_spec (dest src : Nat) (h : Heap) (h1 : Canonical (h src)) :
    ((h src).num = 0 → inv dest src h = none) ∧
    ((h src).num ≠ 0 → ∃ h', inv dest src h = some h' ∧
      (h' dest).toRat = ((h src).toRat)⁻¹ ∧ Canonical (h' dest) ∧
      ∀ j, j ≠ dest → h' j = h j) := by
  rw [inv_eq]
  refine ⟨fun h0 => by simp [h0], fun h0 => ⟨upd h dest (invVal (h src)), by simp [h0], ?_, ?_,
    fun j hj => upd_other _ _ _ _ hj⟩⟩
  · rw [upd_self]; exact (invVal_spec h1 h0).1
  · rw [upd_self]; exact (invVal_spec h1 h0).2

-- non-vacuity: in-place inverse of -3/10 is -10/3
example : (inv 1 1 (fun _ => ⟨-3, 10⟩)).map (· 1) = some ⟨-10, 3⟩ := by decide
example : (inv 0 1 (fun _ => ⟨0, 1⟩)).isNone = true := by decide

/-- mpq_neg: exact, canonical, for dst = src and for distinct variables. -/
theorem mpq_neg_spec (dst src : Nat) (h : Heap) (h1 : Canonical (h src)) :
    (neg dst src h dst).toRat = -(h src).toRat ∧ Canonical (neg dst src h dst) ∧
    ∀ j, j ≠ dst → neg dst src h j = h j := by
  rw [neg_eq]
  refine ⟨?_, ?_, fun j hj => upd_other _ _ _ _ hj⟩ <;> rw [upd_self]
  · unfold Q.toRat; push_cast; ring
  · rw [canonical_iff] at h1 ⊢; exact ⟨h1.1, h1.2.neg_left⟩

example : neg 0 1 exHeap 0 = ⟨-1, 6⟩ ∧ neg 1 1 exHeap 1 = ⟨-1, 6⟩ := by decide

/-- mpq_abs: exact, canonical, for dst = src and for distinct variables. -/
theorem mpq_abs_spec (dst src : Nat) (h : Heap) (h1 : Canonical (h src)) :
    (Mpq.abs dst src h dst).toRat = |(h src).toRat| ∧ Canonical (Mpq.abs dst src h dst) ∧
    ∀ j, j ≠ dst → Mpq.abs dst src h j = h j := by
  rw [abs_eq]
  refine ⟨?_, ?_, fun j hj => upd_other _ _ _ _ hj⟩ <;> rw [upd_self]
  · unfold Q.toRat
    have hd : (0 : ℚ) < ((h src).den : ℚ) := by exact_mod_cast h1.1
    rw [abs_div, abs_of_pos hd]; push_cast; rfl
  · rw [canonical_iff] at h1 ⊢
    refine ⟨h1.1, ?_⟩
    show IsCoprime |(h src).num| (h src).den
    rcases abs_choice (h src).num with e | e <;> rw [e]
    · exact h1.2
    · exact h1.2.neg_left

example : Mpq.abs 1 1 (fun _ => ⟨-3, 10⟩) 1 = ⟨3, 10⟩ := by decide

/-- mpq_set copies the pair unchanged (any ids); mpq_swap exchanges the two variables (also u = v). -/
theorem mpq_set_spec (dest src : Nat) (h : Heap) :
    set dest src h dest = h src ∧ ∀ j, j ≠ dest → set dest src h j = h j := by
  rw [set_eq]; exact ⟨upd_self _ _ _, fun j hj => upd_other _ _ _ _ hj⟩

theorem mpq_swap_spec (u v : Nat) (h : Heap) :
    swap u v h u = h v ∧ swap u v h v = h u ∧ ∀ j, j ≠ u → j ≠ v → swap u v h j = h j := by
  rw [swap_eq]
  refine ⟨by simp, ?_, fun j h1 h2 => by simp [h1, h2]⟩
  by_cases e : v = u <;> simp [e]

example : swap 1 2 exHeap 1 = ⟨3, 10⟩ ∧ swap 1 2 exHeap 2 = ⟨1, 6⟩ ∧ swap 1 1 exHeap 1 = ⟨1, 6⟩ := by decide

/-- mpq_set_z converts exactly: z/1, canonical. -/
theorem mpq_set_z_spec (dest : Nat) (z : Int) (h : Heap) :
    (set_z dest z h dest).toRat = z ∧ Canonical (set_z dest z h dest) ∧
    ∀ j, j ≠ dest → set_z dest z h j = h j := by
  rw [set_z_eq]
  refine ⟨?_, ?_, fun j hj => upd_other _ _ _ _ hj⟩ <;> rw [upd_self]
  · simp [Q.toRat]
  · exact ⟨by norm_num, by simp⟩

example : set_z 1 (-7) exHeap 1 = ⟨-7, 1⟩ := by decide

/-- mpq_set_si / mpq_set_ui convert exactly (non-zero denominator): the value is n/d; 0/d is stored as
    0/1; the result is canonical whenever n and d are coprime and d > 0 (the functions do not reduce —
    the manual asks for mpq_canonicalize otherwise). -/
theorem mpq_set_si_spec (dest : Nat) (n : Int) (d : Nat) (h : Heap) (hd : d ≠ 0) :
    (set_si dest n d h dest).toRat = (n : ℚ) / d ∧
    (Int.gcd n d = 1 → Canonical (set_si dest n d h dest)) ∧
    ∀ j, j ≠ dest → set_si dest n d h j = h j := by
  rw [set_si_eq]
  refine ⟨?_, ?_, fun j hj => upd_other _ _ _ _ hj⟩ <;> rw [upd_self]
  · split_ifs with h0
    · subst h0; simp [Q.toRat]
    · simp [Q.toRat]
  · intro hc; split_ifs with h0
    · exact ⟨by norm_num, by simp⟩
    · exact ⟨by simpa using Nat.pos_of_ne_zero hd, hc⟩

theorem mpq_set_ui_spec (dest : Nat) (n d : Nat) (h : Heap) (hd : d ≠ 0) :
    (set_ui dest n d h dest).toRat = (n : ℚ) / d ∧
    (Nat.gcd n d = 1 → Canonical (set_ui dest n d h dest)) ∧
    ∀ j, j ≠ dest → set_ui dest n d h j = h j := by
  rw [set_ui_eq]
  refine ⟨?_, ?_, fun j hj => upd_other _ _ _ _ hj⟩ <;> rw [upd_self]
  · split_ifs with h0
    · subst h0; simp [Q.toRat]
    · simp [Q.toRat]
  · intro hc; split_ifs with h0
    · exact ⟨by norm_num, by simp⟩
    · exact ⟨by simpa using Nat.pos_of_ne_zero hd, by simpa [Int.gcd] using hc⟩

example : set_si 1 (-3) 4 exHeap 1 = ⟨-3, 4⟩ ∧ set_si 1 0 4 exHeap 1 = ⟨0, 1⟩ ∧ set_ui 1 5 2 exHeap 1 = ⟨5, 2⟩ := by
  decide

/-- mpq_set_num / mpq_set_den replace exactly one component. -/
theorem mpq_set_num_spec (dest : Nat) (z : Int) (h : Heap) :
    set_num dest z h dest = ⟨z, (h dest).den⟩ ∧ ∀ j, j ≠ dest → set_num dest z h j = h j := by
  unfold set_num setNum; exact ⟨by simp, fun j hj => by simp [hj]⟩

theorem mpq_set_den_spec (dest : Nat) (z : Int) (h : Heap) :
    set_den dest z h dest = ⟨(h dest).num, z⟩ ∧ ∀ j, j ≠ dest → set_den dest z h j = h j := by
  unfold set_den setDen; exact ⟨by simp, fun j hj => by simp [hj]⟩

example : set_num 1 5 exHeap 1 = ⟨5, 6⟩ ∧ set_den 1 7 exHeap 1 = ⟨1, 7⟩ := by decide

/-- mpq_canonicalize: a zero denominator raises DIVIDE_BY_ZERO; any other pair is brought to canonical
    form without changing its value. -/
theorem mpq_canonicalize_spec (op : Nat) (h : Heap) :
    ((h op).den = 0 → canonicalize op h = none) ∧
    ((h op).den ≠ 0 → ∃ h', canonicalize op h = some h' ∧
      (h' op).toRat = (h op).toRat ∧ Canonical (h' op) ∧ ∀ j, j ≠ op → h' j = h j) := by
  rw [canonicalize_eq]
  refine ⟨fun h0 => by simp [h0], fun h0 => ⟨upd h op (canonVal (h op)), by simp [h0], ?_, ?_,
    fun j hj => upd_other _ _ _ _ hj⟩⟩
  · rw [upd_self]; exact (canonVal_spec h0).1
  · rw [upd_self]; exact (canonVal_spec h0).2

-- non-vacuity: 6/-4 -> -3/2 ; 0/-5 -> 0/1 ; x/0 rejected
example : (canonicalize 0 (fun _ => ⟨6, -4⟩)).map (· 0) = some ⟨-3, 2⟩ := by decide
example : (canonicalize 0 (fun _ => ⟨0, -5⟩)).map (· 0) = some ⟨0, 1⟩ := by decide
example : (canonicalize 0 (fun _ => ⟨3, 0⟩)).isNone = true := by decide

/-- mpq_mul_2exp: exact multiplication by 2^n with a canonical result (the power of two is cancelled
    against the denominator first), for dst = src and for distinct variables, every shift count. -/
theorem mpq_mul_2exp_spec (dst src n : Nat) (h : Heap) (h1 : Canonical (h src)) :
    (mul_2exp dst src n h dst).toRat = (h src).toRat * 2 ^ n ∧ Canonical (mul_2exp dst src n h dst) ∧
    ∀ j, j ≠ dst → mul_2exp dst src n h j = h j := by
  rw [mul_2exp_eq]
  refine ⟨?_, ?_, fun j hj => upd_other _ _ _ _ hj⟩ <;> rw [upd_self]
  · exact (mul2expVal_spec h1 n).1
  · exact (mul2expVal_spec h1 n).2

/-- mpq_div_2exp: exact division by 2^n with a canonical result (zero stays 0/1), for dst = src and for
    distinct variables, every shift count. -/
theorem mpq_div_2exp_spec (dst src n : Nat) (h : Heap) (h1 : Canonical (h src)) :
    (div_2exp dst src n h dst).toRat = (h src).toRat / 2 ^ n ∧ Canonical (div_2exp dst src n h dst) ∧
    ∀ j, j ≠ dst → div_2exp dst src n h j = h j := by
  rw [div_2exp_eq]
  refine ⟨?_, ?_, fun j hj => upd_other _ _ _ _ hj⟩ <;> rw [upd_self]
  · exact (div2expVal_spec h1 n).1
  · exact (div2expVal_spec h1 n).2

-- non-vacuity: 1/2^128 * 2^64 in place (two low zero limbs, one skipped: the input of the md_2exp.c defect);
-- 3/40 * 2^5 = 12/5 (partial cancellation); (3*2^70)/5 / 2^67 = 24/5 (limb skip then bit shift)
example : mul_2exp 1 1 64 (fun _ => ⟨1, 2 ^ 128⟩) 1 = ⟨1, 2 ^ 64⟩ := by decide +kernel
example : mul_2exp 0 1 5 (fun _ => ⟨3, 40⟩) 0 = ⟨12, 5⟩ := by decide +kernel
example : div_2exp 1 1 67 (fun _ => ⟨3 * 2 ^ 70, 5⟩) 1 = ⟨24, 5⟩ := by decide +kernel
example : div_2exp 0 1 9 (fun _ => ⟨0, 1⟩) 0 = ⟨0, 1⟩ := by decide

/-- mpq_set_f converts exactly: for the mpf operand `± F · B^(fexp − limbs F)` (mantissa `F`, exponent
    in limbs, low zero limbs allowed) the result is that rational number in canonical form. -/
theorem mpq_set_f_spec (dest : Nat) (neg : Bool) (F : Nat) (fexp : Int) (h : Heap) :
    (set_f dest neg F fexp h dest).toRat = mpfVal neg F fexp ∧ Canonical (set_f dest neg F fexp h dest) ∧
    ∀ j, j ≠ dest → set_f dest neg F fexp h j = h j := by
  unfold set_f
  simp only [setDen_setNum]
  refine ⟨?_, ?_, fun j hj => upd_other _ _ _ _ hj⟩ <;> rw [upd_self]
  · exact (setFVal_spec neg F fexp).1
  · exact (setFVal_spec neg F fexp).2

-- non-vacuity: mantissa limbs [0, 6] with exponent 1 is 6·B·B^(1-2) = 6 (the zero low limb is stripped);
-- mantissa 12 with exponent 0 is 12/B = 3/2^62 (even low limb: shift by ctz)
example : set_f 1 false (6 * B) 1 exHeap 1 = ⟨6, 1⟩ := by decide +kernel
example : set_f 1 true 12 0 exHeap 1 = ⟨-3, 2 ^ 62⟩ := by decide +kernel

/-- mpq_set_d converts exactly: for every finite double (sign bit `s`, exponent field `e < 2047`,
    fraction `f < 2^52`; normal, denormal or zero) the result is its exact value in canonical form.
    (NaN and infinities raise the invalid-operation exception before anything is stored.) -/
theorem mpq_set_d_spec (dest : Nat) (s : Bool) (e f : Nat) (h : Heap) (hf : f < 2 ^ 52) :
    (set_d dest s e f h dest).toRat = dblVal s e f ∧ Canonical (set_d dest s e f h dest) ∧
    ∀ j, j ≠ dest → set_d dest s e f h j = h j := by
  unfold set_d
  simp only [setDen_setNum]
  refine ⟨?_, ?_, fun j hj => upd_other _ _ _ _ hj⟩ <;> rw [upd_self]
  · exact (setDVal_spec s e f hf).1
  · exact (setDVal_spec s e f hf).2

-- non-vacuity: 0.75 (e = 1022, f = 2^51) -> 3/4 ; -2^70 ; the smallest denormal 2^-1074
example : set_d 1 false 1022 (2 ^ 51) exHeap 1 = ⟨3, 4⟩ := by decide +kernel
example : set_d 1 true 1093 0 exHeap 1 = ⟨-(2 ^ 70), 1⟩ := by decide +kernel
example : set_d 1 false 0 1 exHeap 1 = ⟨1, 2 ^ 1074⟩ := by decide +kernel
example : dblVal false 1022 (2 ^ 51) = 3 / 4 := by
  unfold dblVal dblMag; norm_num

/-- mpq_equal on canonical operands decides equality of the rational values. -/
theorem mpq_equal_iff (op1 op2 : Nat) (h : Heap) (h1 : Canonical (h op1)) (h2 : Canonical (h op2)) :
    (equal op1 op2 h = 1 ↔ (h op1).toRat = (h op2).toRat) ∧
    (equal op1 op2 h = 0 ↔ (h op1).toRat ≠ (h op2).toRat) := by
  rw [equal_eq]
  simp only [ne_eq, toRat_eq_iff h1.1.ne' h2.1.ne']
  by_cases e : h op1 = h op2
  · simp [e]
  · have : ¬ (h op1).num * (h op2).den = (h op2).num * (h op1).den :=
      fun hc => e (canonical_unique h1 h2 hc)
    simp [e, this]

example : equal 1 2 exHeap = 0 ∧ equal 1 1 exHeap = 1 := by decide

end Mpir.Mpq
