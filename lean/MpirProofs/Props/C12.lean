/- C12 — rational arithmetic exact and canonical.  Property theorems only. -/
import MpirProofs.Lemmas.Mpq
namespace Mpir.Mpq
end Mpir.Mpq
