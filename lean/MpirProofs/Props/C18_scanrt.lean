/-
  C18, scanf side — gmp_sscanf / gmp_fscanf read back what the output functions print, and the field reader of
  scanf/doscan.c.  Property theorems only; helper lemmas are in MpirProofs/Lemmas/Scanf.lean.  Every theorem is
  about the executable models Mpir/Model/Printf.lean (`layoutModel` = bytes of gmp_printf ("%<flags><width><prec>Z<conv>"))
  and Mpir/Model/Scanf.lean (`doscan` = __gmp_doscan, `gmpscan` = its field reader), which the correspondence run
  compares with the real functions on every check (ops gmp_print_scan_*, gmp_rt_*, gmp_sscanf, gmp_fscanf).
-/
import MpirProofs.Lemmas.Scanf
namespace Mpir.Scanf
open Mpir.Printf

/-- the scanf conversion that matches a printf conversion (`%Zi` prints decimal, so `d` reads it back) -/
def readConv : Conv → Char
  | .d => 'd' | .i => 'd' | .u => 'u' | .o => 'o' | .x => 'x' | .X => 'X'

/-- view of a scan result for the examples: count, assigned numbers in order (a rational as two), input left -/
def Out.nums : Out → List Int
  | .int v => [v] | .z v => [v] | .q n d => [n, d] | .str s => s.map (fun c => (c.toNat : Int))
def view (r : Option ScanResult) : Option (Int × List Int × String) :=
  r.map (fun r => (r.fields, r.outs.flatMap Out.nums, String.ofList r.rest))

theorem readConv_convChar (conv : Conv) : ConvChar (readConv conv) conv.base := by
  cases conv <;> simp [ConvChar, readConv, Conv.base]

/-- `print_scan_roundtrip_Z`: for EVERY mpz value `v`, every list of flag characters `- + space # 0` in any order,
    every width form (none, number, `*` with any int), every precision form (none, number, `*` with any int; the empty
    precision `.` is outside, as in `doprnti_big_layout`) and every conversion d i u o x X:
    `gmp_sscanf (text, "%Z<c>%n", x, &n)` applied to the text printed by `gmp_printf ("%<flags><width><prec>Z<conv>", v)`
    with the matching conversion c (d for d/i, else the same letter) returns 1, assigns exactly `v`, and `%n` is the
    length of the text up to the trailing blanks that left adjustment (`-`) adds; those `t` blanks are all that is left
    unread, and there are none without `-`.  Width padding in front and a space flag are skipped as white space, a `+`
    is accepted, precision zeros and `0`-flag zeros are read as leading zeros.
    The documented exceptions, exactly:
    * `hdig`: at least one digit must have been printed: the value 0 with precision 0 prints no digit (unless `#` with o
      prints the single "0"), so there is nothing to read;
    * `hx`: `%Zx`/`%ZX` do not accept a `0x`/`0X` prefix, so `#` on a non-zero value with x/X is excluded here (such text
      is read back by `%Zi`: `print_scan_roundtrip_Zi`);
    * `hlen`: the scanner counts characters in an `int` and stops a field at INT_MAX-1 characters (doscan.c:230). -/
theorem print_scan_roundtrip_Z (fl : List Char) (w : WidthArg) (p : PrecArg) (conv : Conv) (v : Int)
    (hp : p ≠ .dot)
    (hdig : ¬ (v = 0 ∧ cPrec p = some 0 ∧ ¬ ('#' ∈ fl ∧ conv = .o)))
    (hx : ¬ ('#' ∈ fl ∧ conv.base = 16 ∧ v ≠ 0))
    (hlen : (layoutModel fl w p conv v).length ≤ 2147483646) :
    ∃ t, doscan ['%', 'Z', readConv conv, '%', 'n'] (layoutModel fl w p conv v) =
        some { fields := 1, outs := [.z v, .int (((layoutModel fl w p conv v).length - t : Nat) : Int)],
               rest := List.replicate t ' ' } ∧
      t ≤ (layoutModel fl w p conv v).length ∧ ((cFlags fl w).minus = false → t = 0) := by
  have hx' : ¬ ('#' ∈ fl ∧ cPrec p = some 0 ∧ v = 0 ∧ conv.base = 16) := by
    rintro ⟨h1, h2, h3, h4⟩
    apply hdig
    refine ⟨h3, h2, ?_⟩
    rintro ⟨-, h6⟩; rw [h6] at h4; cases h4
  rw [layoutModel_eq_spec fl w p conv v hp hx'] at hlen ⊢
  unfold gmpLayoutSpec at hlen ⊢
  obtain ⟨a, k, t, htext, ht, hk8, -⟩ :=
    layoutCore_shape (cFlags fl w) (cWidth w) (cPrec p) conv.base conv.upper (decide (v < 0)) v.natAbs
  rw [htext] at hlen ⊢
  have hhash : (cFlags fl w).hash = true ↔ '#' ∈ fl := by simp [cFlags]
  -- no base prefix
  have hpre : printedPrefix (cFlags fl w) conv.base conv.upper v.natAbs = [] := by
    unfold printedPrefix
    rw [if_neg]
    rintro ⟨h1, h2, h3⟩
    exact hx ⟨hhash.mp h1, h2, by omega⟩
  rw [hpre, List.nil_append] at hlen ⊢
  have hcb := conv_ConvBase conv
  have hb := ConvBase_base _ _ hcb
  obtain ⟨hval, hdigs⟩ := natDigits_props conv.base conv.upper (by omega) (digitChar_props _ _ hcb) v.natAbs
  -- the digits with their zeros
  have hbody_all : ∀ c ∈ List.replicate k '0' ++ printedDigits (cPrec p) conv.base conv.upper v.natAbs,
      isDigitIn conv.base c = true := by
    intro c hc
    rcases List.mem_append.mp hc with h | h
    · rw [(List.mem_replicate.mp h).2]; rcases hb with h | h | h <;> rw [h] <;> decide
    · unfold printedDigits at h; split at h
      · cases h
      · exact hdigs c h
  have hbody_ne : List.replicate k '0' ++ printedDigits (cPrec p) conv.base conv.upper v.natAbs ≠ [] := by
    intro h
    obtain ⟨h1, h2⟩ := List.append_eq_nil_iff.mp h
    have hk0 : k = 0 := by cases k <;> simp_all [List.replicate_succ]
    unfold printedDigits at h2 hk8
    split at h2
    · rename_i h3
      apply hdig
      refine ⟨by omega, ?_, ?_⟩
      · have := h3.2; cases hcp : cPrec p <;> simp_all
      · intro h4
        have := hk8 ⟨hhash.mpr h4.1, by rw [h4.2]; rfl⟩
        rw [if_pos h3] at this
        rcases this with h5 | h5
        · omega
        · cases h5
    · exact natDigits_ne_nil _ _ _ h2
  have hbody_val : strVal conv.base (List.replicate k '0' ++ printedDigits (cPrec p) conv.base conv.upper v.natAbs) = v.natAbs := by
    rw [strVal_zeros]
    unfold printedDigits; split
    · rename_i h; rw [h.1]; rfl
    · exact hval
  rw [← List.append_assoc (List.replicate k '0')] at hlen ⊢
  generalize List.replicate k '0' ++ printedDigits (cPrec p) conv.base conv.upper v.natAbs = body at *
  have hsg : printedSign (cFlags fl w) (decide (v < 0)) = [] ∨ printedSign (cFlags fl w) (decide (v < 0)) = ['-'] ∨
      printedSign (cFlags fl w) (decide (v < 0)) = ['+'] := by
    unfold printedSign; split
    · right; left; rfl
    · split
      · right; right; rfl
      · left; rfl
  have hsgneg : printedSign (cFlags fl w) (decide (v < 0)) = ['-'] ↔ v < 0 := by
    unfold printedSign; split
    · rename_i h; simpa using h
    · rename_i h; split <;> simpa using h
  generalize printedSign (cFlags fl w) (decide (v < 0)) = sg at *
  have hsp : ∀ c, (List.replicate t ' ').head? = some c → isDigitIn conv.base c = false := by
    intro c hc
    cases t with
    | zero => simp at hc
    | succ n =>
      simp [List.replicate_succ] at hc; subst hc
      rcases hb with h | h | h <;> rw [h] <;> decide
  -- the field after the blanks does not start with white space
  obtain ⟨c0, t0, hc0⟩ : ∃ c0 t0, body = c0 :: t0 := by
    cases body with
    | nil => exact absurd rfl hbody_ne
    | cons c t => exact ⟨c, t, rfl⟩
  have hc0d := digit_not_special conv.base c0 (hbody_all c0 (by rw [hc0]; exact List.mem_cons_self))
  have hws : ∀ c, (sg ++ (body ++ List.replicate t ' ')).head? = some c → isSpace c = false := by
    intro c hc
    rcases hsg with h | h | h <;> subst h
    · simp [hc0] at hc; subst hc; exact hc0d.2.2.2.2.2
    · simp at hc; subst hc; decide
    · simp at hc; subst hc; decide
  have hlen2 : (sg ++ (body ++ List.replicate t ' ')).length ≤ 2147483646 := by
    simp only [List.length_append, List.length_replicate] at hlen ⊢; omega
  have hvv : (if sg = ['-'] then -((v.natAbs : Nat) : Int) else ((v.natAbs : Nat) : Int)) = v := by
    by_cases hv : v < 0
    · rw [if_pos (hsgneg.mpr hv)]; omega
    · rw [if_neg (fun h => hv (hsgneg.mp h))]; omega
  have hn : (List.replicate a ' ' ++ (sg ++ (body ++ List.replicate t ' '))).length - t = a + (sg.length + body.length) := by
    simp only [List.length_append, List.length_replicate]; omega
  refine ⟨t, ?_, by simp only [List.length_append, List.length_replicate]; omega, ht⟩
  rw [doscan_Tn 'Z' (readConv conv) conv.base (Or.inl rfl) (readConv_convChar conv), skipWhite_spaces a _ hws]
  simp only
  rw [gmpscan_Z_field conv.base hb sg body _ hsg hbody_ne hbody_all hsp hlen2]
  have e2 : ¬ (((sg.length + body.length : Nat) : Int) = -2) := by omega
  have e1 : ¬ (((sg.length + body.length : Nat) : Int) = -1) := by omega
  simp only [e2, e1, if_false, valOuts, hbody_val, Int.toNat_natCast, hvv, hn, List.cons_append, List.nil_append]

-- non-vacuity: values printed with sign, zero and blank padding and read back; every hypothesis is satisfiable
example : view (doscan "%Zd%n".toList (layoutModel ['+'] (.num 9) (.num 5) .d (-255))) = some (1, [-255, 9], "") := by
  decide +kernel
example : String.ofList (layoutModel ['-', ' '] (.num 9) (.num 5) .X 255) = " 000FF   " ∧
    view (doscan "%ZX%n".toList (layoutModel ['-', ' '] (.num 9) (.num 5) .X 255)) = some (1, [255, 6], "   ") := by
  decide +kernel
-- `#` with o and precision 0 on the value 0 prints "0" and is read back
example : view (doscan "%Zo%n".toList (layoutModel ['#'] .none (.num 0) .o 0)) = some (1, [0, 1], "") := by decide +kernel
-- the exceptions are real: nothing printed (EOF) / `0x` not accepted by %Zx (value 0 assigned, stops at the x)
example : layoutModel [] .none (.num 0) .d 0 = [] ∧
    view (doscan "%Zd%n".toList (layoutModel [] .none (.num 0) .d 0)) = some (-1, [], "") := by decide +kernel
example : String.ofList (layoutModel ['#'] .none .none .x 255) = "0xff" ∧
    view (doscan "%Zx%n".toList (layoutModel ['#'] .none .none .x 255)) = some (1, [0, 1], "xff") := by decide +kernel

end Mpir.Scanf
