/-
  C18, scanf side — gmp_sscanf / gmp_fscanf read back what the output functions print, and the field reader of
  scanf/doscan.c.  Property theorems only; helper lemmas are in MpirProofs/Lemmas/Scanf.lean.  Every theorem is
  about the executable models Mpir/Model/Printf.lean (`layoutModel` = bytes of gmp_printf ("%<flags><width><prec>Z<conv>"))
  and Mpir/Model/Scanf.lean (`doscan` = __gmp_doscan, `gmpscan` = its field reader), which the correspondence run
  compares with the real functions on every check (ops gmp_print_scan_*, gmp_rt_*, gmp_sscanf, gmp_fscanf).
-/
import MpirProofs.Lemmas.Scanf
namespace Mpir.Scanf
open Mpir.Printf

/-- the scanf conversion that matches a printf conversion (`%Zi` prints decimal, so `d` reads it back) -/
def readConv : Conv → Char
  | .d => 'd' | .i => 'd' | .u => 'u' | .o => 'o' | .x => 'x' | .X => 'X'

/-- view of a scan result for the examples: count, assigned numbers in order (a rational as two), input left -/
def Out.nums : Out → List Int
  | .int v => [v] | .z v => [v] | .q n d => [n, d] | .str s => s.map (fun c => (c.toNat : Int))
def view (r : Option ScanResult) : Option (Int × List Int × String) :=
  r.map (fun r => (r.fields, r.outs.flatMap Out.nums, String.ofList r.rest))

theorem readConv_convChar (conv : Conv) : ConvChar (readConv conv) conv.base := by
  cases conv <;> simp [ConvChar, readConv, Conv.base]

/-- `print_scan_roundtrip_Z`: for EVERY mpz value `v`, every list of flag characters `- + space # 0` in any order,
    every width form (none, number, `*` with any int), every precision form (none, number, `*` with any int; the empty
    precision `.` is outside, as in `doprnti_big_layout`) and every conversion d i u o x X:
    `gmp_sscanf (text, "%Z<c>%n", x, &n)` applied to the text printed by `gmp_printf ("%<flags><width><prec>Z<conv>", v)`
    with the matching conversion c (d for d/i, else the same letter) returns 1, assigns exactly `v`, and `%n` is the
    length of the text up to the trailing blanks that left adjustment (`-`) adds; those `t` blanks are all that is left
    unread, and there are none without `-`.  Width padding in front and a space flag are skipped as white space, a `+`
    is accepted, precision zeros and `0`-flag zeros are read as leading zeros.
    The documented exceptions, exactly:
    * `hdig`: at least one digit must have been printed: the value 0 with precision 0 prints no digit (unless `#` with o
      prints the single "0"), so there is nothing to read;
    * `hx`: `%Zx`/`%ZX` do not accept a `0x`/`0X` prefix, so `#` on a non-zero value with x/X is excluded here (such text
      is read back by `%Zi`: `print_scan_roundtrip_Zi`);
    * `hlen`: the scanner counts characters in an `int` and stops a field at INT_MAX-1 characters (doscan.c:230). -/
theorem print_scan_roundtrip_Z (fl : List Char) (w : WidthArg) (p : PrecArg) (conv : Conv) (v : Int)
    (hp : p ≠ .dot)
    (hdig : ¬ (v = 0 ∧ cPrec p = some 0 ∧ ¬ ('#' ∈ fl ∧ conv = .o)))
    (hx : ¬ ('#' ∈ fl ∧ conv.base = 16 ∧ v ≠ 0))
    (hlen : (layoutModel fl w p conv v).length ≤ 2147483646) :
    ∃ t, doscan ['%', 'Z', readConv conv, '%', 'n'] (layoutModel fl w p conv v) =
        some { fields := 1, outs := [.z v, .int (((layoutModel fl w p conv v).length - t : Nat) : Int)],
               rest := List.replicate t ' ' } ∧
      t ≤ (layoutModel fl w p conv v).length ∧ ((cFlags fl w).minus = false → t = 0) := by
  have hx' : ¬ ('#' ∈ fl ∧ cPrec p = some 0 ∧ v = 0 ∧ conv.base = 16) := by
    rintro ⟨h1, h2, h3, h4⟩
    apply hdig
    refine ⟨h3, h2, ?_⟩
    rintro ⟨-, h6⟩; rw [h6] at h4; cases h4
  rw [layoutModel_eq_spec fl w p conv v hp hx'] at hlen ⊢
  unfold gmpLayoutSpec at hlen ⊢
  obtain ⟨a, k, t, htext, ht, hk8, -⟩ :=
    layoutCore_shape (cFlags fl w) (cWidth w) (cPrec p) conv.base conv.upper (decide (v < 0)) v.natAbs
  rw [htext] at hlen ⊢
  have hhash : (cFlags fl w).hash = true ↔ '#' ∈ fl := by simp [cFlags]
  -- no base prefix
  have hpre : printedPrefix (cFlags fl w) conv.base conv.upper v.natAbs = [] := by
    unfold printedPrefix
    rw [if_neg]
    rintro ⟨h1, h2, h3⟩
    exact hx ⟨hhash.mp h1, h2, by omega⟩
  rw [hpre, List.nil_append] at hlen ⊢
  have hcb := conv_ConvBase conv
  have hb := ConvBase_base _ _ hcb
  obtain ⟨hval, hdigs⟩ := natDigits_props conv.base conv.upper (by omega) (digitChar_props _ _ hcb) v.natAbs
  -- the digits with their zeros
  have hbody_all : ∀ c ∈ List.replicate k '0' ++ printedDigits (cPrec p) conv.base conv.upper v.natAbs,
      isDigitIn conv.base c = true := by
    intro c hc
    rcases List.mem_append.mp hc with h | h
    · rw [(List.mem_replicate.mp h).2]; rcases hb with h | h | h <;> rw [h] <;> decide
    · unfold printedDigits at h; split at h
      · cases h
      · exact hdigs c h
  have hbody_ne : List.replicate k '0' ++ printedDigits (cPrec p) conv.base conv.upper v.natAbs ≠ [] := by
    intro h
    obtain ⟨h1, h2⟩ := List.append_eq_nil_iff.mp h
    have hk0 : k = 0 := by cases k <;> simp_all [List.replicate_succ]
    unfold printedDigits at h2 hk8
    split at h2
    · rename_i h3
      apply hdig
      refine ⟨by omega, ?_, ?_⟩
      · have := h3.2; cases hcp : cPrec p <;> simp_all
      · intro h4
        have := hk8 ⟨hhash.mpr h4.1, by rw [h4.2]; rfl⟩
        rw [if_pos h3] at this
        rcases this with h5 | h5
        · omega
        · cases h5
    · exact natDigits_ne_nil _ _ _ h2
  have hbody_val : strVal conv.base (List.replicate k '0' ++ printedDigits (cPrec p) conv.base conv.upper v.natAbs) = v.natAbs := by
    rw [strVal_zeros]
    unfold printedDigits; split
    · rename_i h; rw [h.1]; rfl
    · exact hval
  rw [← List.append_assoc (List.replicate k '0')] at hlen ⊢
  generalize List.replicate k '0' ++ printedDigits (cPrec p) conv.base conv.upper v.natAbs = body at *
  have hsg : printedSign (cFlags fl w) (decide (v < 0)) = [] ∨ printedSign (cFlags fl w) (decide (v < 0)) = ['-'] ∨
      printedSign (cFlags fl w) (decide (v < 0)) = ['+'] := by
    unfold printedSign; split
    · right; left; rfl
    · split
      · right; right; rfl
      · left; rfl
  have hsgneg : printedSign (cFlags fl w) (decide (v < 0)) = ['-'] ↔ v < 0 := by
    unfold printedSign; split
    · rename_i h; simpa using h
    · rename_i h; split <;> simpa using h
  generalize printedSign (cFlags fl w) (decide (v < 0)) = sg at *
  have hsp : ∀ c, (List.replicate t ' ').head? = some c → isDigitIn conv.base c = false := by
    intro c hc
    cases t with
    | zero => simp at hc
    | succ n =>
      simp [List.replicate_succ] at hc; subst hc
      rcases hb with h | h | h <;> rw [h] <;> decide
  -- the field after the blanks does not start with white space
  obtain ⟨c0, t0, hc0⟩ : ∃ c0 t0, body = c0 :: t0 := by
    cases body with
    | nil => exact absurd rfl hbody_ne
    | cons c t => exact ⟨c, t, rfl⟩
  have hc0d := digit_not_special conv.base c0 (hbody_all c0 (by rw [hc0]; exact List.mem_cons_self))
  have hws : ∀ c, (sg ++ (body ++ List.replicate t ' ')).head? = some c → isSpace c = false := by
    intro c hc
    rcases hsg with h | h | h <;> subst h
    · simp [hc0] at hc; subst hc; exact hc0d.2.2.2.2.2
    · simp at hc; subst hc; decide
    · simp at hc; subst hc; decide
  have hlen2 : (sg ++ (body ++ List.replicate t ' ')).length ≤ 2147483646 := by
    simp only [List.length_append, List.length_replicate] at hlen ⊢; omega
  have hvv : (if sg = ['-'] then -((v.natAbs : Nat) : Int) else ((v.natAbs : Nat) : Int)) = v := by
    by_cases hv : v < 0
    · rw [if_pos (hsgneg.mpr hv)]; omega
    · rw [if_neg (fun h => hv (hsgneg.mp h))]; omega
  have hn : (List.replicate a ' ' ++ (sg ++ (body ++ List.replicate t ' '))).length - t = a + (sg.length + body.length) := by
    simp only [List.length_append, List.length_replicate]; omega
  refine ⟨t, ?_, by simp only [List.length_append, List.length_replicate]; omega, ht⟩
  rw [doscan_Tn 'Z' (readConv conv) conv.base (Or.inl rfl) (readConv_convChar conv), skipWhite_spaces a _ hws]
  simp only
  rw [gmpscan_Z_field conv.base hb sg body _ hsg hbody_ne hbody_all hsp hlen2]
  have e2 : ¬ (((sg.length + body.length : Nat) : Int) = -2) := by omega
  have e1 : ¬ (((sg.length + body.length : Nat) : Int) = -1) := by omega
  simp only [e2, e1, if_false, valOuts, hbody_val, Int.toNat_natCast, hvv, hn, List.cons_append, List.nil_append]

-- non-vacuity: values printed with sign, zero and blank padding and read back; every hypothesis is satisfiable
example : view (doscan "%Zd%n".toList (layoutModel ['+'] (.num 9) (.num 5) .d (-255))) = some (1, [-255, 9], "") := by
  decide +kernel
example : String.ofList (layoutModel ['-', ' '] (.num 9) (.num 5) .X 255) = " 000FF   " ∧
    view (doscan "%ZX%n".toList (layoutModel ['-', ' '] (.num 9) (.num 5) .X 255)) = some (1, [255, 6], "   ") := by
  decide +kernel
-- `#` with o and precision 0 on the value 0 prints "0" and is read back
example : view (doscan "%Zo%n".toList (layoutModel ['#'] .none (.num 0) .o 0)) = some (1, [0, 1], "") := by decide +kernel
-- the exceptions are real: nothing printed (EOF) / `0x` not accepted by %Zx (value 0 assigned, stops at the x)
example : layoutModel [] .none (.num 0) .d 0 = [] ∧
    view (doscan "%Zd%n".toList (layoutModel [] .none (.num 0) .d 0)) = some (-1, [], "") := by decide +kernel
example : String.ofList (layoutModel ['#'] .none .none .x 255) = "0xff" ∧
    view (doscan "%Zx%n".toList (layoutModel ['#'] .none .none .x 255)) = some (1, [0, 1], "xff") := by decide +kernel


/-! ## The field reader -/

/-- the digits of a `%Z` field with a fixed base: cut the input at the width, drop an optional sign, take the LONGEST
    run of digits of the base -/
def fieldDigits (p : ScanParams) (inp : List Char) : List Char :=
  ((inp.take (scanWidth p)).drop (signLen inp)).takeWhile (isDigitIn p.base)

/-- `scan_field_Z_fixed` (items (a) and (b) for `%Zd %Zu %Zo %Zx %ZX`, every width, every non-empty input — `gmpscan` is
    entered with white space already skipped and returns −2 = EOF on empty input):
    let `k` = 1 if the input starts with `-` or `+`, and `ds = fieldDigits p inp` the LONGEST run of digits of the base
    after that sign inside the first `width` characters (all of the input — up to INT_MAX−1 — without a width).  Then
    * no digit: the field is invalid (−1; the sign stays consumed — only one character can be pushed back);
    * otherwise the count of characters is `k + |ds|`, the value assigned is ±(value of `ds` in the base) — the value of
      the longest valid prefix under the width limit —, and nothing is assigned under `*`;
    * the input left is exactly the input without those `k + |ds|` characters: the consumed characters are a prefix of
      the input, and the one character looked at beyond the field is pushed back. -/
theorem scan_field_Z_fixed (p : ScanParams) (hty : p.type = 'Z') (hb : p.base = 8 ∨ p.base = 10 ∨ p.base = 16)
    (inp : List Char) (hne : inp ≠ []) :
    (gmpscan p inp).rest = inp.drop (signLen inp + (fieldDigits p inp).length) ∧
    (fieldDigits p inp = [] → (gmpscan p inp).ret = -1 ∧ (gmpscan p inp).val = .none) ∧
    (fieldDigits p inp ≠ [] → (gmpscan p inp).ret = ((signLen inp + (fieldDigits p inp).length : Nat) : Int) ∧
      (gmpscan p inp).val = if p.ignore then .none
              else .z (if inp.head? = some '-' then -(strVal p.base (fieldDigits p inp) : Int)
                       else (strVal p.base (fieldDigits p inp) : Int))) := by
  have hb0 : p.base ≠ 0 := by omega
  have hr := gmpscan_Z_fixed p hty hb0 inp hne
  have hds : ((inp.drop (signLen inp)).take (scanWidth p - signLen inp)).takeWhile (isDigitIn p.base) = fieldDigits p inp := by
    unfold fieldDigits; rw [List.drop_take]
  rw [hds] at hr
  have hall : ∀ c ∈ fieldDigits p inp, isDigitIn p.base c = true := by
    unfold fieldDigits
    generalize List.drop (signLen inp) (List.take (scanWidth p) inp) = l
    induction l with
    | nil => simp
    | cons x xs ih =>
      rw [List.takeWhile_cons]; split
      · rename_i hx; intro c hc
        rcases List.mem_cons.mp hc with h | h
        · rw [h]; exact hx
        · exact ih c h
      · simp
  generalize fieldDigits p inp = ds at *
  refine ⟨by rw [hr], fun h => ?_, fun h => ?_⟩
  · rw [hr, h]; simp
  · have hemp : ds.isEmpty = false := by cases ds <;> simp_all
    have hst : signStore inp = (if (decide (inp.head? = some '-')) = true then ['-'] else []) := by
      cases inp with
      | nil => exact absurd rfl hne
      | cons c t => by_cases hc : c = '-' <;> simp [signStore, hc]
    rw [hr]
    simp only [hemp, Bool.false_eq_true, if_false, false_or, true_and, hst]
    rw [setStr_digits p.base hb _ ds h hall]
    by_cases hi : p.ignore = true
    · simp [hi]
    · simp [hi, Option.elim]

-- non-vacuity: a width that cuts the digits, a sign eaten by an invalid field, a sign alone under width 1
example : (gmpscan { base := 10, type := 'Z', width := 3 } "-1234".toList).ret = 3 ∧
    (gmpscan { base := 10, type := 'Z', width := 3 } "-1234".toList).rest = "34".toList := by decide +kernel
example : (gmpscan { base := 10, type := 'Z' } "-x".toList).ret = -1 ∧
    (gmpscan { base := 10, type := 'Z' } "-x".toList).rest = "x".toList := by decide +kernel
example : (gmpscan { base := 16, type := 'Z', width := 1 } "+7".toList).ret = -1 ∧
    (gmpscan { base := 16, type := 'Z', width := 1 } "+7".toList).rest = "7".toList := by decide +kernel


/-! ## The count returned -/

theorem gmpscan_eof (p : ScanParams) (inp : List Char) : (gmpscan p inp).ret = -2 ↔ inp = [] := by
  cases inp with
  | nil => simp [gmpscan]
  | cons c t =>
    simp only [gmpscan, reduceCtorEq, iff_false]
    split <;> omega

theorem scanRun_star (fs : List Char) (sp : SP) (st : SS) (hn : sp.inNum = false) :
    scanRun ('*' :: fs) (.spec sp) st = scanRun fs (.spec { sp with p := { sp.p with ignore := true } }) st := by
  rw [scanRun]; simp (decide := true) [hn]

/-- `scan_count_single_partial` (item (c) for one MPIR conversion, `T` = Z or Q, any of d u i o x X, with or without
    assignment suppression `*`, followed by `%n`): the value returned by gmp_sscanf/gmp_fscanf is
    * EOF (−1) exactly when the input ended (after optional white space) before the field began;
    * otherwise the number of assigned fields: 1 exactly when the field was valid and not suppressed; 0 for an invalid
      field, and 0 for a valid suppressed one (`%*Z` is not counted), in which case `%n` still reports the characters
      consumed and nothing else is stored.
    PARTIAL: the full statement quantifies over every format string (several conversions, literals and white-space
    directives between them: the count is the number of assigned fields so far, EOF only if that number is 0 when the
    input ends); that general form is exercised by the correspondence run (ops gmp_sscanf/gmp_fscanf on generated
    multi-conversion formats), not proved. -/
theorem scan_count_single_partial (T c : Char) (b : Nat) (hT : T = 'Z' ∨ T = 'Q') (hc : ConvChar c b) (star : Bool)
    (inp : List Char) :
    ∃ r, doscan ('%' :: ((if star then ['*'] else []) ++ [T, c, '%', 'n'])) inp = some r ∧
      (r.fields = -1 ↔ (skipWhite inp).2 = []) ∧
      (r.fields = 1 ↔ star = false ∧ 0 ≤ (gmpscan { base := b, type := T, ignore := star } (skipWhite inp).2).ret) ∧
      (r.fields = -1 ∨ r.fields = 0 ∨ r.fields = 1) ∧
      (star = true → 0 ≤ (gmpscan { base := b, type := T, ignore := star } (skipWhite inp).2).ret →
        r.fields = 0 ∧ r.outs = [.int (((skipWhite inp).1 +
          (gmpscan { base := b, type := T, ignore := star } (skipWhite inp).2).ret.toNat : Nat) : Int)]) := by
  have hret : ∀ p i, (gmpscan p i).ret = -2 ∨ (gmpscan p i).ret = -1 ∨ 0 ≤ (gmpscan p i).ret := by
    intro p i; cases i with
    | nil => left; simp [gmpscan]
    | cons c t => simp only [gmpscan]; split <;> omega
  cases star with
  | false =>
    simp only [Bool.false_eq_true, if_false, List.nil_append]
    rw [doscan_Tn T c b hT hc inp]
    have he := gmpscan_eof { base := b, type := T } (skipWhite inp).2
    rcases hret { base := b, type := T } (skipWhite inp).2 with h | h | h
    · exact ⟨_, by rw [if_pos h], by simpa using he.mp h, by simp [h], by simp, by simp⟩
    · have h2 : ¬ (gmpscan { base := b, type := T } (skipWhite inp).2).ret = -2 := by omega
      refine ⟨_, by rw [if_neg h2, if_pos h], ?_, by simp [h], by simp, by simp⟩
      simp only [show ¬ ((0 : Int) = -1) by omega, false_iff]; exact fun h3 => h2 (he.mpr h3)
    · have h2 : ¬ (gmpscan { base := b, type := T } (skipWhite inp).2).ret = -2 := by omega
      have h1 : ¬ (gmpscan { base := b, type := T } (skipWhite inp).2).ret = -1 := by omega
      refine ⟨_, by rw [if_neg h2, if_neg h1], ?_, by simp [h], by simp, by simp⟩
      simp only [show ¬ ((1 : Int) = -1) by omega, false_iff]; exact fun h3 => h2 (he.mpr h3)
  | true =>
    simp only [if_true, List.cons_append, List.nil_append]
    unfold doscan
    rw [scanRun_pct, scanRun_star _ _ _ rfl, scanRun_type T hT _ _ _ rfl, scanRun_conv c b hc _ _ _ rfl (by simpa using hT)]
    simp only [doNumeric]
    have he := gmpscan_eof { base := b, type := T, ignore := true } (skipWhite inp).2
    generalize hr : gmpscan { base := b, type := T, ignore := true } (skipWhite inp).2 = r at *
    rcases hret { base := b, type := T, ignore := true } (skipWhite inp).2 with h | h | h <;> rw [hr] at h
    · refine ⟨{ fields := -1, outs := [], rest := (skipWhite inp).2 }, by simp [h, eofS], ?_, by simp, by simp, by omega⟩
      simpa using he.mp h
    · have h2 : ¬ r.ret = -2 := by omega
      refine ⟨{ fields := 0, outs := [], rest := r.rest }, by simp [h, finishS], ?_, by simp, by simp, by omega⟩
      simp only [show ¬ ((0 : Int) = -1) by omega, false_iff]; exact fun h3 => h2 (he.mpr h3)
    · have h2 : ¬ r.ret = -2 := by omega
      have h1 : ¬ r.ret = -1 := by omega
      refine ⟨{ fields := 0, outs := [.int (((skipWhite inp).1 + r.ret.toNat : Nat) : Int)], rest := r.rest },
        by simp [h2, h1, scanRun_n, finishS], ?_, by simp, by simp, by simp⟩
      simp only [show ¬ ((0 : Int) = -1) by omega, false_iff]; exact fun h3 => h2 (he.mpr h3)

-- non-vacuity: EOF before the field, invalid field, valid field, suppressed field with %n
example : view (doscan "%Zd%n".toList "  ".toList) = some (-1, [], "") ∧
    view (doscan "%Zd%n".toList " x".toList) = some (0, [], "x") ∧
    view (doscan "%Zd%n".toList " 12x".toList) = some (1, [12, 3], "x") ∧
    view (doscan "%*Zd%n".toList " 12x".toList) = some (0, [3], "x") := by decide +kernel

end Mpir.Scanf

/-! ## `%F`: where MPIR's layout deviates from C99 — pinned on the model here, and on the real library by
    corpus/C18/f_deviations.ops (the same lines run through gmp_snprintf and the model on every check).
    No layout theorem for doprntf.c is proved in this file; these are `example`s only. -/
namespace Mpir.Printf

/-- bytes of `gmp_printf (fmt, f)` for one mpf argument given as (_mp_prec, sign, limbs, _mp_exp) -/
def fText (fmt : String) (prec : Nat) (neg : Bool) (limbs : List Nat) (exp : Int) : Option String :=
  (doprnt fmt.toList [.mpf prec neg limbs exp]).map (fun r => String.ofList (callsBytes r.calls))

-- D-F1  `%#.3Fg` of 0.5: the "0" before the point is counted as a significant digit (doprntf.c:281-292 adds
--       intlen+intzeros for GENERAL): "0.50" (C99 / glibc: "0.500"); "%#Fg": "0.50000" (glibc "0.500000")
example : fText "%#.3Fg" 2 false [0x8000000000000000] 0 = some "0.50" := by decide +kernel
example : fText "%#Fg" 2 false [0x8000000000000000] 0 = some "0.50000" := by decide +kernel
--       ... values ≥ 1 and values with zeros after the point are as in C: 1.5 -> "1.50", 0.0625 -> "0.0625"
example : fText "%#.3Fg" 2 false [0x8000000000000000, 1] 1 = some "1.50" := by decide +kernel
example : fText "%#.3Fg" 2 false [0x1000000000000000] 0 = some "0.0625" := by decide +kernel
-- D-F2  double rounding: for `%.2Ff` doprntf.c:93-103 asks mpf_get_str for prec+2 = 4 digits; 0.1249999999 (here
--       0x1fffffff920c8098 / 2^64) comes back already rounded to "125", and doprntf.c:140-215 rounds that again:
--       "0.13" (C99 / glibc on the exact value: "0.12"); with one more digit of precision the text is "0.125"
example : fText "%.2Ff" 2 false [0x1fffffff920c8098] 0 = some "0.13" ∧ fText "%.3Ff" 2 false [0x1fffffff920c8098] 0 = some "0.125" := by
  decide +kernel
-- D-F3  exact ties are rounded away from zero (glibc: to even in the default rounding mode): 2.5 -> "3", 12.5 -> "13"
example : fText "%.0Ff" 2 false [0x8000000000000000, 2] 1 = some "3" ∧ fText "%.0Ff" 2 false [0x8000000000000000, 12] 1 = some "13" := by
  decide +kernel
-- agreement cases around them: sign, zero padding after the sign, `#` keeps the point
example : fText "%+010.2Ff" 2 true [0x4000000000000000, 1] 1 = some "-000001.25" ∧
    fText "%#.0Ff" 2 false [0x8000000000000000, 2] 1 = some "3." ∧ fText "%.0Fe" 2 false [0x8000000000000000, 7] 1 = some "8e+00" := by
  decide +kernel

end Mpir.Printf
