/-
  C07 — the cofactor layer: mpn_gcdext_1's cofactor sizes, mpn_gcdext_hook, mpn_gcdext_lehmer_n, and the
  contract of mpn_gcdext below GCDEXT_DC_THRESHOLD; consequences for mpz_gcdext / mpz_invert.
  Property theorems only (helper lemmas: MpirProofs/Lemmas/Gcdext*.lean).  They are about the sized models of
  Mpir/Model/Gcdext.lean (compared with the real functions on {gp, gn}, *usize, {up, |*usize|} by the ops of
  harness/ops_gcdext.c) and the value-level models of Mpir/Model/Gcd.lean.
  `CofBound V G S` = 2·G·|S| < V ∨ (S = 1 ∧ V = 2G): what the code achieves; it implies the manual's
  "S = 1 or |S| < V/(2G)" and, with the identity, "S = 0 ↔ V ∣ U" (`cofBound_contract`).
-/
import MpirProofs.Lemmas.GcdextLehmer2
import MpirProofs.Lemmas.GcdExtZ
import MpirProofs.Lemmas.Hgcd2
namespace Mpir.C07x
open Mpir Mpir.Gcd Mpir.Hgcd Mpir.Gcdext

/-- mpn_gcdext_1 (a, b) on two DIFFERENT non-zero limbs, beyond the identity `gcdext_1_spec`: the cofactors
    have opposite signs (or one is zero), 2·g·|u| ≤ b and 2·g·|v| ≤ a, and 2·g·|u| = b only for u = 1
    (comment at gcdext.c:401 "|u| <= b, |v| <= a" sharpened by the factor 2g). -/
theorem gcdext_1_bounds (a b : Nat) (ha : 0 < a) (hb : 0 < b) (haB : a < B) (hbB : b < B) (hne : a ≠ b) :
    let g : Int := (gcdext_1 a b).1; let u := (gcdext_1 a b).2.1; let v := (gcdext_1 a b).2.2
    (0 ≤ u ∧ v ≤ 0 ∧ 2 * g * u ≤ b ∧ 2 * g * (-v) ≤ a ∧ (2 * g * u = b → u = 1)) ∨
    (u ≤ 0 ∧ 0 ≤ v ∧ 2 * g * (-u) < b ∧ 2 * g * v ≤ a) :=
  gcdext_1_bound a b ha hb haB hbB hne

example : gcdext_1 5 2 = (1, 1, -2) := by decide
example : gcdext_1 (2 ^ 64 - 59) (2 ^ 63 + 7) = (1, -1137128059338260032, 2274256118676520055) := by decide +kernel

/-- mpn_gcdext_hook.  (1) gp == NULL, quotient q in direction d: when the cofactor buffers hold u0, u1 in
    exactly un limbs (`SzInv`) and the updated values still fit N = ualloc − 1 limbs, the new buffers hold
    exactly u0 + q·u1 resp. u1 + q·u0 (one-limb q through mpn_add_n / mpn_addmul_1, multi-limb q through
    mpn_mul + mpn_add, u1 = 0: nothing), the new `un` is again exact (so `MPN_CMP (c, u0, u1, un)` compares the
    values), and neither `u0[un] = cy` nor the product in ctx->tp went outside a ualloc-limb buffer.
    (2) gp != NULL: the returned cofactor is +u1 (d = 0), −u0 (d = 1), or for d = −1 the smaller of the two
    with +u1 on a tie; {up, |*usize|} is normalised and the sign of *usize is the sign of the cofactor. -/
theorem gcdext_hook_correct (N : Nat) (c : Ctx) (hs : SzInv c) :
    (∀ q d, (hookQ (c.u0, c.u1) (q, d)).1 < B ^ N → (hookQ (c.u0, c.u1) (q, d)).2 < B ^ N →
      (hookQS (N + 1) c (q, d)).u0 = (if d then c.u0 else c.u0 + q * c.u1) ∧
      (hookQS (N + 1) c (q, d)).u1 = (if d then c.u1 + q * c.u0 else c.u1) ∧ SzInv (hookQS (N + 1) c (q, d))) ∧
    (∀ g d, FinOk (hookG c g (nlimbs g) d) g (pickCofactor c.u0 c.u1 d) ∧
      (hookG c g (nlimbs g) d).S = pickCofactor c.u0 c.u1 d) := by
  refine ⟨fun q d h0 h1 => ?_, fun g d => ⟨hookG_spec c g d hs, finOk_S (hookG_spec c g d hs)⟩⟩
  obtain ⟨e0, e1, e2⟩ := hookQS_spec N c (q, d) hs h0 h1
  refine ⟨?_, ?_, e2⟩
  · rw [e0]; unfold hookQ; cases d <;> simp
  · rw [e1]; unfold hookQ; cases d <;> simp

-- non-vacuity: a two-limb quotient added into a one-limb cofactor (un 1 → 3), and the tie of the d = -1 exit
example : hookQS 5 ⟨7, B - 1, 1, true⟩ (B + 3, false) = ⟨7 + (B + 3) * (B - 1), B - 1, 3, true⟩ := by decide +kernel
example : (hookG ⟨1, 1, 1, true⟩ 5 1 (-1)).usize = 1 ∧ (hookG ⟨2, 3, 1, true⟩ 5 1 (-1)).usize = -1 := by decide +kernel

/-- **mpn_gcdext_lehmer_n** (gp, up, usize, ap, bp, n) — sized model `lehmerNS`: the loop of mpn_hgcd2 steps
    with mpn_matrix22_mul1_inverse_vector on (a, b) and mpn_hgcd_mul_matrix1_vector on (u0, u1), the
    mpn_gcd_subdiv_step fallback with mpn_gcdext_hook, the exits through the hook, a = b, and mpn_gcdext_1 with
    the `negate` combination — for ALL a, b > 0 below B^n with one of them using limb n−1 (the C's ASSERT):
    g = gcd(a, b) in gn = nlimbs g limbs; b ∣ g − S·a for the returned S = ±{up, |usize|};
    2·g·|S| < b, or S = 1 and b = 2g; {up, |usize|} is normalised, usize < 0 iff S < 0; no store went outside
    the (n+1)-limb cofactor buffers or n limbs of up (`ok`); and (g, S) is what the value-level model
    `Mpir.Gcd.gcdext_lehmer_n` returns. -/
theorem mpn_gcdext_lehmer_n_correct (a b n : Nat) (ha : 0 < a) (hb : 0 < b) (haB : a < B ^ n) (hbB : b < B ^ n)
    (ht : B ^ (n - 1) ≤ a ∨ B ^ (n - 1) ≤ b) (hn : 1 ≤ n) :
    let r := lehmerNS a b n
    r.g = Nat.gcd a b ∧ r.gn = nlimbs (Nat.gcd a b) ∧ r.ok = true ∧
    ((Nat.gcd a b : Int) - a * r.S) % b = 0 ∧ CofBound b (Nat.gcd a b) r.S ∧
    r.up = r.S.natAbs ∧ r.usize.natAbs = nlimbs r.up ∧ (r.usize < 0 ↔ r.S < 0) ∧
    (r.g, r.S) = gcdext_lehmer_n a b n := by
  intro r
  have hinv : LInv a b n := ⟨ha, hb, haB, hbB, ht, hn⟩
  have hc0 : CofOk a b a b 0 1 := ⟨1, 0, cofInv_init a b⟩
  have hsz0 : SzInv ⟨0, 1, 1, true⟩ := by
    unfold SzInv; rw [B_eq]; decide
  have h := lehmerLoopS_spec Mpir.Gcd.hgcd2_contract a b n hbB (a + b + 1) a b n ⟨0, 1, 1, true⟩ hinv hc0 hsz0 (by omega)
  have key : ∃ g S, FinOk r g S ∧ g = Nat.gcd a b ∧ (∃ t : Int, (a : Int) * S + b * t = g) ∧ CofBound b g S ∧
      (g, S) = gcdext_lehmer_n a b n := by
    show ∃ g S, FinOk (lehmerNS a b n) g S ∧ _
    unfold lehmerNS gcdext_lehmer_n
    simp only at h
    generalize lehmerLoopS (n + 1) (a + b + 1) a b n ⟨0, 1, 1, true⟩ = x at h ⊢
    generalize gcdextLehmerLoop (a + b + 1) a b n 0 1 = y at h ⊢
    match x, y, h with
    | .inr r', .inr (g, S), h =>
      obtain ⟨h1, h2, h3, h4⟩ := h
      exact ⟨g, S, h1, h2, h3, h4, rfl⟩
    | .inl (a', b', c), .inl (a'', b'', u0, u1), h =>
      obtain ⟨e1, e2, e3, e4, hsz, p1, p2, p3, p4, p5, p6⟩ := h
      subst e1; subst e2; subst e3; subst e4
      obtain ⟨f1, f2, f3, f4⟩ := lehmerFinS_spec a b n a' b' c hbB hsz p1 p2 p3 p4 p6 _ rfl
      simp only
      refine ⟨_, _, f1, by rw [f2, p5], f3, f4, ?_⟩
      split <;> rfl
  obtain ⟨g, S, hF, hg, ⟨t, ht'⟩, hbnd, hval⟩ := key
  have hS := finOk_S hF
  obtain ⟨q1, q2, q3, q4, q5⟩ := hF
  subst hg
  rw [hS]
  refine ⟨q1, by rw [q2], q3, ?_, hbnd, q4, ?_, ?_, by rw [q1]; exact hval⟩
  · apply Int.emod_eq_zero_of_dvd
    exact ⟨t, by rw [← ht']; ring⟩
  · rw [q5, q4]; split <;> simp
  · rw [q5]
    by_cases hneg : S < 0
    · have hp : 0 < nlimbs S.natAbs := nlimbs_pos (Int.natAbs_pos.mpr (by omega))
      rw [if_pos hneg]; constructor <;> intro <;> omega
    · rw [if_neg hneg]; constructor <;> intro <;> omega

-- non-vacuity: three limbs (hgcd2 steps, then the single-limb endgame with negate = 1); b = 2g; a = b
example : lehmerNS (3 ^ 100 * 7) (5 ^ 60 * 7) 3 = ⟨7, 1, -3, 178542298016104659201242269581302973131374, true⟩ := by decide +kernel
example : lehmerNS (3 * (2 ^ 70 + 1)) (2 * (2 ^ 70 + 1)) 2 = ⟨2 ^ 70 + 1, 2, 1, 1, true⟩ := by decide +kernel
example : lehmerNS (2 ^ 70) (2 ^ 70) 2 = ⟨2 ^ 70, 2, 0, 0, true⟩ := by decide +kernel

/-- the same for the value-level model used by `Mpir.Gcd.mpn_gcdext` / `mpz_gcdext`: identity AND bound. -/
theorem gcdext_lehmer_n_value_correct (a b n : Nat) (ha : 0 < a) (hb : 0 < b) (haB : a < B ^ n) (hbB : b < B ^ n)
    (ht : B ^ (n - 1) ≤ a ∨ B ^ (n - 1) ≤ b) (hn : 1 ≤ n) :
    (gcdext_lehmer_n a b n).1 = Nat.gcd a b ∧
    ((Nat.gcd a b : Int) - a * (gcdext_lehmer_n a b n).2) % b = 0 ∧
    CofBound b (Nat.gcd a b) (gcdext_lehmer_n a b n).2 := by
  obtain ⟨r1, _, _, r4, r5, _, _, _, r9⟩ := mpn_gcdext_lehmer_n_correct a b n ha hb haB hbB ht hn
  rw [← r9]
  exact ⟨r1, r4, r5⟩

/-- the normalisation the code achieves gives the manual's contract of mpn_gcdext -/
theorem cofBound_contract (U V G : Nat) (S : Int) (hV : 0 < V) (hG : G = Nat.gcd U V)
    (hid : ((G : Int) - U * S) % V = 0) (hb : CofBound V G S) : mpnGcdextOk U V G S := by
  have hGV : G ∣ V := by rw [hG]; exact Nat.gcd_dvd_right _ _
  have hGpos : 0 < G := by rw [hG]; exact Nat.gcd_pos_of_pos_right _ hV
  refine ⟨hG, hid, ?_, ?_, ?_⟩
  · rcases hb with h | ⟨h, _⟩
    · exact Or.inr h
    · exact Or.inl h
  · intro hS
    rw [hS] at hid
    simp only [mul_zero, sub_zero] at hid
    have hVG : V ∣ G := by
      have := Int.dvd_of_emod_eq_zero hid
      exact_mod_cast this
    have hGe : G = V := Nat.dvd_antisymm hGV hVG
    rw [hGe] at hG
    have : V ∣ U := by rw [hG]; exact Nat.gcd_dvd_left _ _
    exact Nat.mod_eq_zero_of_dvd this
  · intro hUV
    have hVU : V ∣ U := Nat.dvd_of_mod_eq_zero hUV
    have hGe : G = V := by rw [hG]; exact Nat.gcd_eq_right hVU
    rcases hb with h | ⟨_, h⟩
    · rw [hGe] at h
      by_contra hS
      have : 1 ≤ S.natAbs := Int.natAbs_pos.mpr hS
      have : 2 * V * 1 ≤ 2 * V * S.natAbs := Nat.mul_le_mul_left _ this
      omega
    · omega

/-- PARTIAL (full statement: `MpnGcdextContract`, the same for every n; missing: n ≥ GCDEXT_DC_THRESHOLD, where
    `Mpir.Gcd.mpn_gcdext` returns the canonical cofactor by definition and the divide-and-conquer model
    `Mpir.Gcdext.mpnGcdextS` — dcFirst/dcLoop/dcFinish with hgcd_mul_matrix_vector and compute_v — is tied by the
    differential run and the predicate op only; its proof from `mpn_hgcd_correct_partial` is not done).
    **The contract of mpn_gcdext below GCDEXT_DC_THRESHOLD**, for every call satisfying the C's ASSERTs
    (an ≥ n > 0, bp[n-1] ≠ 0): G = gcd(U, V), V ∣ G − U·S, S = 1 or 2·G·|S| < V, S = 0 ↔ V ∣ U — for the
    value-level model AND for the sized model (initial mpn_tdiv_qr, zero remainder exit, mpn_gcdext_lehmer_n),
    which agree; the sized result is normalised and no store leaves a buffer. -/
theorem mpn_gcdext_contract_partial (hg : Nat → Nat → Nat → HM → StepRes) (U V : Nat) (hV0 : 0 < V)
    (hle : nlimbs V ≤ nlimbs U) (hlt : nlimbs V < GCDEXT_DC_THRESHOLD) :
    mpnGcdextOk U V (mpn_gcdext U (nlimbs U) V (nlimbs V)).1 (mpn_gcdext U (nlimbs U) V (nlimbs V)).2 ∧
    (let r := mpnGcdextS hg GCDEXT_DC_THRESHOLD U (nlimbs U) V (nlimbs V)
     (r.g, r.S) = mpn_gcdext U (nlimbs U) V (nlimbs V) ∧ r.ok = true ∧ r.gn = nlimbs r.g ∧
       r.usize.natAbs = nlimbs r.up ∧ (r.usize < 0 ↔ r.S < 0)) := by
  have hnV := nlimbs_bounds V hV0
  have hn1 := nlimbs_pos hV0
  unfold mpn_gcdext mpnGcdextS
  dsimp only
  by_cases hgt : nlimbs U > nlimbs V
  · simp only [if_pos hgt]
    have hgcd : Nat.gcd (U % V) V = Nat.gcd U V := by rw [Nat.gcd_comm U V, Nat.gcd_rec V U]
    by_cases hz : U % V = 0
    · rw [if_pos ⟨hgt, hz⟩, if_pos ⟨hgt, hz⟩]
      simp only
      have hVU : V ∣ U := Nat.dvd_of_mod_eq_zero hz
      refine ⟨⟨(Nat.gcd_eq_right hVU).symm, by simp, Or.inr (by simpa using hV0), by simp [hz]⟩, ?_⟩
      unfold Fin.S; simp [nlimbs_zero]
    · rw [if_neg (fun h => hz h.2), if_pos hlt, if_neg (fun h => hz h.2), if_pos hlt]
      have hlt' : U % V < V := Nat.mod_lt _ hV0
      obtain ⟨r1, r2, r3, r4, r5, r6, r7, r8, r9⟩ := mpn_gcdext_lehmer_n_correct (U % V) V (nlimbs V)
        (Nat.pos_of_ne_zero hz) hV0 (lt_trans hlt' hnV.1) hnV.1 (Or.inr hnV.2) hn1
      rw [← r9]
      simp only
      rw [hgcd] at r1 r2 r4 r5
      refine ⟨cofBound_contract U V _ _ hV0 r1 ?_ (by rw [r1]; exact r5), (by first | rfl | trivial), r3, by rw [r2, r1], r7, r8⟩
      rw [r1]
      apply Int.emod_eq_zero_of_dvd
      obtain ⟨t, ht⟩ := Int.dvd_of_emod_eq_zero r4
      refine ⟨t - (U / V : Nat) * (lehmerNS (U % V) V (nlimbs V)).S, ?_⟩
      have hU : (U : Int) = (U % V : Nat) + V * (U / V : Nat) := by exact_mod_cast (Nat.mod_add_div U V).symm
      have ht' : (Nat.gcd U V : Int) - ((U % V : Nat) : Int) * (lehmerNS (U % V) V (nlimbs V)).S = V * t := ht
      conv_lhs => rw [hU]
      linear_combination ht'
  · have hn : nlimbs U = nlimbs V := by omega
    have hU0 : 0 < U := by
      rcases Nat.eq_zero_or_pos U with h | h
      · rw [h, nlimbs_zero] at hn; omega
      · exact h
    have hnU := nlimbs_bounds U hU0
    rw [hn] at hnU
    simp only [if_neg hgt]
    rw [if_neg (fun h => hgt h.1), if_pos hlt, if_neg (fun h => hgt h.1), if_pos hlt]
    obtain ⟨r1, r2, r3, r4, r5, r6, r7, r8, r9⟩ := mpn_gcdext_lehmer_n_correct U V (nlimbs V)
      hU0 hV0 hnU.1 hnV.1 (Or.inr hnV.2) hn1
    rw [← r9]
    simp only
    exact ⟨cofBound_contract U V _ _ hV0 r1 (by rw [r1]; exact r4) (by rw [r1]; exact r5), (by first | rfl | trivial), r3, by rw [r2, r1], r7, r8⟩

example : mpnGcdextS (fun _ a b M => ⟨0, a, b, M⟩) GCDEXT_DC_THRESHOLD (3 ^ 50 * 7 ^ 30) 3 (3 ^ 45 * 5 ^ 20) 2
    = ⟨3 ^ 45, 2, 1, 14541962523518, true⟩ := by decide +kernel
example : mpnGcdextOk 240 46 2 (-9) ∧ ¬ mpnGcdextOk 240 46 2 14 := by decide

/-- what remains of `MpnGcdextContract`: the divide-and-conquer range -/
def MpnGcdextContractDC : Prop :=
  ∀ U V : Nat, 0 < V → nlimbs V ≤ nlimbs U → GCDEXT_DC_THRESHOLD ≤ nlimbs V →
    mpnGcdextOk U V (mpn_gcdext U (nlimbs U) V (nlimbs V)).1 (mpn_gcdext U (nlimbs U) V (nlimbs V)).2

theorem mpnGcdextContract_of_dc (hdc : MpnGcdextContractDC) : MpnGcdextContract := by
  intro U V hV hle
  by_cases hlt : nlimbs V < GCDEXT_DC_THRESHOLD
  · exact (mpn_gcdext_contract_partial (fun _ a b M => ⟨0, a, b, M⟩) U V hV hle hlt).1
  · exact hdc U V hV hle (by omega)

/-- PARTIAL (full statement: without `hdc`).  mpz_gcdext meets the manual's full contract `gcdextOk` — g = gcd ≥ 0,
    a·s + b·t = g, |s| < |b|/(2g), |t| < |a|/(2g) with all the documented special cases — for all a, b, where the
    contract of mpn_gcdext is now PROVED for every call with fewer than GCDEXT_DC_THRESHOLD (342) limbs in the
    smaller operand; `hdc` is the contract on the remaining range only (there the model is the canonical cofactor,
    tied by the run).  `Mpir.C07.mpz_gcdext_spec` (hypothesis: the whole contract) is the old form. -/
theorem mpz_gcdext_correct_partial (hdc : MpnGcdextContractDC) (a b : Int) :
    gcdextOk a b (mpz_gcdext a b).1 (mpz_gcdext a b).2.1 (mpz_gcdext a b).2.2 :=
  Mpir.Gcd.mpz_gcdext_spec (mpnGcdextContract_of_dc hdc) a b

example : mpz_gcdext (-(3 ^ 100 * 7)) (5 ^ 60 * 14) = (7, -688819439972298888004719971114650396009251, -204644751812698827570619471103382862379195346745) := by
  decide +kernel

/-- PARTIAL in the same sense.  mpz_invert for |m| > 1: non-zero return iff gcd(a, m) = 1, then 0 ≤ r < |m| and
    a·r ≡ 1 (mod m). -/
theorem mpz_invert_correct_partial (hdc : MpnGcdextContractDC) (a m : Int) (hm : 1 < m.natAbs) :
    match mpz_invert a m with
    | none => invertOk a m 0 0
    | some r => invertOk a m 1 r :=
  Mpir.Gcd.invert_spec (mpnGcdextContract_of_dc hdc) a m hm

example : mpz_invert (-3) (-7) = some 2 := by decide +kernel

end Mpir.C07x
