/-
  C01 (algorithm layer) — every multiplication algorithm returns exactly the mathematical product, and the
  size dispatch never leaves an algorithm's domain.  Property theorems only; lemmas are in
  MpirProofs/Lemmas/{MulAlgo,MulDispatch,FftParams}.lean.

  What the theorems are about:
  * `Mpir.MulAlgo.*`        hand-written value-level models of the C algorithms (Mpir/Model/MulAlgo.lean), each run
                            against the real entry point on every check (op `mpn_<algo>`, answer `!model` on mismatch);
  * `Mpir.Gen.MulDispatch.*` call skeletons TRANSLATED from mul.c / mul_n.c on every check (tools/gen_mul_dispatch.py);
  * `Mpir.Gen.params`       thresholds and tables EXTRACTED from the build's headers on every check (tools/gen_params.py);
  * `Mpir.FftParams.*`      hand-written mirror of the integer code of fft/mul_fft_main.c.
-/
import MpirProofs.Lemmas.MulAlgo
import MpirProofs.Lemmas.MulDispatch
import MpirProofs.Lemmas.FftParams

namespace Mpir.MulAlgo

/-- mpn_kara_mul_n (mul_n.c:143-223): for every recursion threshold T ≥ 3, every n ≥ 2 and ALL operand values, the
    model — |xh−xl|, |yh−yl|, the `suboradd` sign logic, karasub/karaadd recombination, and the recursion on
    n/2 and n−n/2 — returns x·y.  (T ≥ 3 is needed: with T = 2 the C recurses into n = 1, whose halves are empty.) -/
theorem kara_mul_n_val (T : Nat) (hT : 3 ≤ T) (n : Nat) (hn : 2 ≤ n) (x y : Nat) :
    kara_mul_n T x y n = some (x * y) := kara_mul_n_eq T hT n hn x y

-- non-vacuity: an odd size with xh < xl and yh > yl (karaadd path), threshold 3 forces a recursion at n = 7
example : kara_mul_n 3 (5 + B * 7 + B ^ 2 * 1 + B ^ 3 * 0 + B ^ 4 * 0 + B ^ 5 * 0 + B ^ 6 * 0)
                       (1 + B ^ 3 * 9 + B ^ 6 * 2) 7
    = some ((5 + B * 7 + B ^ 2 * 1 + B ^ 3 * 0 + B ^ 4 * 0 + B ^ 5 * 0 + B ^ 6 * 0) * (1 + B ^ 3 * 9 + B ^ 6 * 2)) :=
  kara_mul_n_val 3 (by decide) 7 (by decide) _ _
example : kara_mul_n 3 0 0 1 = none := by rw [kara_mul_n]; simp      -- outside the domain the model refuses, it does not default

/-- mpn_toom3_interpolate (toom3_mul.c:69-187): for ALL integer coefficient vectors (c0..c4), the C's sequence
    (v2−vm1, /3, (v1−vm1)/2, v1−v0−vinf, −5·vinf, (v2−v1)/2, v1−vm1, vm1−v2) applied to the five evaluation
    values returns the coefficients, and each of the three exact divisions is applied to a multiple of its divisor.
    `vm1`/`sa` are the magnitude and sign as the C passes them. -/
theorem toom3_interp_exact (c0 c1 c2 c3 c4 vm1 sa : Int)
    (hs : (if sa < 0 then -vm1 else vm1) = c0 - c1 + c2 - c3 + c4) :
    (toom3Interp c0 (c0 + c1 + c2 + c3 + c4) (c0 + 2 * c1 + 4 * c2 + 8 * c3 + 16 * c4) vm1 c4 sa).coeffs
      = [c0, c1, c2, c3, c4] ∧
    ∀ p ∈ (toom3Interp c0 (c0 + c1 + c2 + c3 + c4) (c0 + 2 * c1 + 4 * c2 + 8 * c3 + 16 * c4) vm1 c4 sa).divs, p.2 ∣ p.1 :=
  toom3Interp_spec c0 c1 c2 c3 c4 vm1 sa hs

-- non-vacuity: (1 + 2x + 3x²)(4 + 5x + 6x²) = 4 + 13x + 28x² + 27x³ + 18x⁴; p(-1) = 10
example : (toom3Interp 4 90 (4 + 26 + 112 + 216 + 288) 10 18 1).coeffs = [4, 13, 28, 27, 18] := by decide
example : (toom3Interp 4 90 (4 + 26 + 112 + 216 + 288) 10 18 1).divs = [(636, 3), (80, 2), (54, 2)] := by decide

/-- mpn_toom3_mul / mpn_toom3_mul_n (toom3_mul.c:244-414, toom3_mul_n.c:79-251): splitting at B^k, the five
    evaluations with their signs, the pointwise products (callee = exact product) and the interpolation give a·b
    for ALL operand values and ALL sizes. -/
theorem toom3_mul_val (mul : Nat → Nat → Nat) (hmul : ∀ x y, mul x y = x * y) (a an b bn : Nat) :
    toom3_mul mul a an b bn = a * b := toom3_mul_eq mul hmul a an b bn

example : toom3_mul (· * ·) (3 + B * 5 + B ^ 2 * 7) 3 (11 + B * 2 + B ^ 2 * 1) 3
    = (3 + B * 5 + B ^ 2 * 7) * (11 + B * 2 + B ^ 2 * 1) := toom3_mul_val _ (fun _ _ => rfl) _ _ _ _

/-- mpn_toom42_mul (toom3_mul.c:416-608): 4×2 blocks, same five points and interpolation. -/
theorem toom42_exact (mul : Nat → Nat → Nat) (hmul : ∀ x y, mul x y = x * y) (a an b bn : Nat) :
    toom42_mul mul a an b bn = a * b := toom42_mul_eq mul hmul a an b bn

example : toom42_mul (· * ·) (1 + B * 2 + B ^ 2 * 3 + B ^ 3 * 4) 4 (9 + B * 1) 2
    = (1 + B * 2 + B ^ 2 * 3 + B ^ 3 * 4) * (9 + B * 1) := toom42_exact _ (fun _ _ => rfl) _ _ _ _

/-- mpn_toom32_mul (toom3_mul.c:617-812): 3×2 blocks, points 0, ∞, −1, 1, interpolation inline
    ((v1 ± vm1)/2 exact). -/
theorem toom32_exact (mul : Nat → Nat → Nat) (hmul : ∀ x y, mul x y = x * y) (a an b bn : Nat) :
    toom32_mul mul a an b bn = a * b := toom32_mul_eq mul hmul a an b bn

example : toom32_mul (· * ·) (1 + B * 20 + B ^ 2 * 3) 3 (9 + B * 1) 2
    = (1 + B * 20 + B ^ 2 * 3) * (9 + B * 1) := toom32_exact _ (fun _ _ => rfl) _ _ _ _

/-- mpn_toom4_interpolate (toom4_mul_n.c:852-976): for ALL integer coefficient vectors (c0..c6) the C's 25-step
    sequence returns the coefficients; each of the eight exact divisions (by 2, 8, 3, 2, 3, 3, 15, 4) is applied to a
    multiple of its divisor; and the three values shifted LOGICALLY (mpn_rshift at :925, :937, :956) are
    non-negative as soon as c1, c2, c5 ≥ 0 (they are 24·c2, 18·(c1+c5), 4·c1). -/
theorem toom4_interp_exact (c0 c1 c2 c3 c4 c5 c6 r4 r6 : Int) (n4 n6 : Bool)
    (h4 : (if n4 then -r4 else r4) = c0 - c1 + c2 - c3 + c4 - c5 + c6)
    (h6 : (if n6 then -r6 else r6) = 64 * c0 - 32 * c1 + 16 * c2 - 8 * c3 + 4 * c4 - 2 * c5 + c6) :
    let r := toom4Interp c6 (c0 + 2 * c1 + 4 * c2 + 8 * c3 + 16 * c4 + 32 * c5 + 64 * c6) (c0 + c1 + c2 + c3 + c4 + c5 + c6) r4
        (64 * c0 + 32 * c1 + 16 * c2 + 8 * c3 + 4 * c4 + 2 * c5 + c6) r6 c0 n4 n6
    r.coeffs = [c0, c1, c2, c3, c4, c5, c6] ∧ (∀ p ∈ r.divs, p.2 ∣ p.1) ∧
    (0 ≤ c1 → 0 ≤ c2 → 0 ≤ c5 → ∀ p ∈ r.shifts, 0 ≤ p.1) :=
  toom4Interp_spec c0 c1 c2 c3 c4 c5 c6 r4 r6 n4 n6 h4 h6

-- non-vacuity: p(x) = 1 + 2x + 3x² + 4x³ + 5x⁴ + 6x⁵ + 7x⁶: p(1) = 28, p(-1) = 4, p(2) = 769,
-- 64 p(1/2) = 64+64+48+32+20+12+7 = 247, 64 p(-1/2) = 64-64+48-32+20-12+7 = 31
example : (toom4Interp 7 769 28 4 247 31 1 false false).coeffs = [1, 2, 3, 4, 5, 6, 7] := by decide

/-- mpn_toom4_mul / mpn_toom4_mul_n (toom4_mul.c:128-306, toom4_mul_n.c:560-735). -/
theorem toom4_mul_val (mul : Nat → Nat → Nat) (hmul : ∀ x y, mul x y = x * y) (a un b vn : Nat) :
    toom4_mul mul a un b vn = a * b := toom4_mul_eq mul hmul a un b vn

example : toom4_mul (· * ·) (1 + B * 2 + B ^ 2 * 3 + B ^ 3 * 4) 4 (9 + B * 1 + B ^ 2 * 0 + B ^ 3 * 77) 4
    = (1 + B * 2 + B ^ 2 * 3 + B ^ 3 * 4) * (9 + B * 1 + B ^ 2 * 0 + B ^ 3 * 77) := toom4_mul_val _ (fun _ _ => rfl) _ _ _ _

/-- mpn_toom53_mul (toom4_mul.c:314-435): 5×3 blocks, the same seven points and interpolation. -/
theorem toom53_exact (mul : Nat → Nat → Nat) (hmul : ∀ x y, mul x y = x * y) (a un b vn : Nat) :
    toom53_mul mul a un b vn = a * b := toom53_mul_eq mul hmul a un b vn

example : toom53_mul (· * ·) (1 + B * 2 + B ^ 2 * 3 + B ^ 3 * 4 + B ^ 4 * 5) 5 (9 + B * 1 + B ^ 2 * 6) 3
    = (1 + B * 2 + B ^ 2 * 3 + B ^ 3 * 4 + B ^ 4 * 5) * (9 + B * 1 + B ^ 2 * 6) := toom53_exact _ (fun _ _ => rfl) _ _ _ _

/-- The evaluation values fit the 2k+1 limbs the C gives them, with the top-limb bounds it asserts
    (toom3_mul_n.c: `ASSERT(c2[k+k] < 9)`, `ASSERT(t[k+k] < 4)`, `ASSERT(v2[k+k] < 49)`). -/
theorem toom3_eval_fits (t a0 a1 a2 b0 b1 b2 : Nat) (ha0 : a0 < t) (ha1 : a1 < t) (ha2 : a2 < t)
    (hb0 : b0 < t) (hb1 : b1 < t) (hb2 : b2 < t) :
    (a0 + a2 + a1) * (b0 + b2 + b1) < 9 * t ^ 2 ∧
    absDiff (a0 + a2) a1 * absDiff (b0 + b2) b1 < 4 * t ^ 2 ∧
    ((2 * a2 + a1) * 2 + a0) * ((2 * b2 + b1) * 2 + b0) < 49 * t ^ 2 :=
  toom3_eval_bounds t a0 a1 a2 b0 b1 b2 ha0 ha1 ha2 hb0 hb1 hb2

-- non-vacuity and tightness: all-ones blocks reach top limb 8 = 9 - 1 in v1
example : ((B - 1) + (B - 1) + (B - 1)) * ((B - 1) + (B - 1) + (B - 1)) / B ^ 2 = 8 := by decide

-- the Toom-4.2 assertion `c2[k+k] < 6` (toom3_mul.c:472) is NOT a consequence of the size preconditions:
-- with full blocks the top limb of v1 is 7 (see `toom42_eval_bounds`: the true bound is 8·B^2k)
example : ((B - 1) + (B - 1) + ((B - 1) + (B - 1))) * ((B - 1) + (B - 1)) / B ^ 2 = 7 := by decide

end Mpir.MulAlgo

namespace Mpir.MulDispatch
open Mpir.Skel Mpir.Gen Mpir.Gen.MulDispatch

/-- The thresholds and limits extracted from the tree under check satisfy what the dispatch code assumes. -/
theorem params_are_valid : Valid params := params_valid

/-- mpn_mul (GENERATED skeleton of mul.c:52-280), for EVERY parameter record satisfying `Valid` and all
    un ≥ vn ≥ 1, whichever pointers are passed (up == vp or not): every path terminates with `un + 1` units of
    fuel (both loops), returns the limb `prodp[un + vn - 1]` of the ORIGINAL prodp, and every call it makes —
    basecase (also each chunk of the un > MUL_BASECASE_MAX_UN loop, and the swapped call at mul.c:134), FFT, toom8h,
    toom4, toom53, toom42, toom3, toom32, mpn_mul_n / mpn_sqr, every mpn_add_n / mpn_add_1 of the slide loop, the
    ASSERTs — is inside the callee's size domain (`domainOk`). -/
theorem mul_dispatch_safe (P : Params) (hP : Valid P) (un vn ub uo vb vo : Int) (hv : 1 ≤ vn) (hu : vn ≤ un) :
    Good P (un + vn - 1) (mpn_mul P (un + 1).toNat [] 1 0 ub uo un vb vo vn) :=
  mul_ok P hP _ un vn ub uo vb vo hv hu (by omega)

-- non-vacuity: the tree's parameters, a size in the slide loop (17 ≤ vn ≤ ceil(un/4)) and one in the chunk loop
example : Good params (200 + 20 - 1) (mpn_mul params 201 [] 1 0 2 0 200 3 0 20) :=
  mul_dispatch_safe params params_valid 200 20 2 0 3 0 (by decide) (by decide)
example : ((runMul params false 1300 7).trace.filter isProduct).length = 3 := by decide
example : dispatch params false 200 60 = Algo.toom42 ∧ dispatch params false 200 110 = Algo.toom32
    ∧ dispatch params false 200 180 = Algo.toom4 ∧ dispatch params false 300 140 = Algo.toom42 := by decide

/-- mpn_mul_n (generated skeleton of mul_n.c:282-330): for all n ≥ 1 the selected algorithm is called inside its
    domain (kara n ≥ 2, toom3 n ≥ 17, toom4 n ≥ MPN_TOOM4_MUL_N_MINSIZE, toom8h n ≥ 86, fft n ≥ 1). -/
theorem mul_n_dispatch_safe (P : Params) (hP : Valid P) (n ab ao bb bo : Int) (hn : 1 ≤ n) :
    GoodVoid P (mpn_mul_n P 0 [] 1 0 ab ao bb bo n) := mul_n_ok P hP 0 n ab ao bb bo hn

example : dispatchN params 16 = Algo.basecase ∧ dispatchN params 17 = Algo.kara ∧ dispatchN params 98 = Algo.toom3n
    ∧ dispatchN params 148 = Algo.toom4n ∧ dispatchN params 238 = Algo.toom8h ∧ dispatchN params 3520 = Algo.fft := by decide

/-- mpn_sqr (generated skeleton of mul_n.c:332-387). -/
theorem sqr_dispatch_safe (P : Params) (hP : Valid P) (n ab ao : Int) (hn : 1 ≤ n) :
    GoodVoid P (mpn_sqr P 0 [] 1 0 ab ao n) := sqr_ok P hP 0 n ab ao hn

example : dispatchSqr params 23 = Algo.sqrBasecase ∧ dispatchSqr params 24 = Algo.karaSqr
    ∧ dispatchSqr params 2016 = Algo.fft := by decide

/-- PARTIAL composition (the full statement is: "the limbs mpn_mul stores are toLimbs (un+vn) (u·v)").
    Proved: every call recorded by the skeletons that has a value-level model (Karatsuba, Toom-3 balanced and
    unbalanced, Toom-4.2, Toom-3.2, Toom-4 balanced and unbalanced, Toom-5.3), made at sizes inside its domain —
    which `mul_dispatch_safe` establishes for every call mpn_mul makes — returns the exact product of its operands.
    Missing for the full statement: the value-level accumulation of the chunk loop (mul.c:112-137) and of the slide
    loop (mul.c:210-277); toom8h / toom8 squaring / the 16-point interpolation; the FFT transforms (only the
    parameter selection is proved, see `fft_params_sound_partial`); the squaring variants kara_sqr/toom3_sqr/toom4_sqr
    (same evaluation/interpolation sequence with b = a, not separately modelled); limb-level carries. -/
theorem mpn_mul_val_partial (P : Params) (hP : Valid P) (e : Ev) (hd : domainOk P e = true) (u v r : Nat)
    (hr : callValue P e u v = some r) : r = u * v := by
  obtain ⟨hk3, _⟩ := hP
  unfold callValue at hr
  split at hr
  · rename_i n hargs
    split_ifs at hr with h1 h2 h3
    · have hn : n ≥ 2 := by
        have : e = ⟨"mpn_kara_mul_n", e.args⟩ := by cases e; simp_all
        rw [this] at hd
        unfold domainOk at hd
        unfold sizeArgs at hargs hd
        simp only [hargs] at hd
        simp at hd; omega
      rw [MulAlgo.kara_mul_n_eq _ (by omega) _ (by omega)] at hr
      exact (Option.some.inj hr).symm
    · simp only [Option.some.injEq] at hr; rw [← hr]; exact MulAlgo.toom3_mul_eq _ (fun _ _ => rfl) _ _ _ _
    · simp only [Option.some.injEq] at hr; rw [← hr]; exact MulAlgo.toom4_mul_eq _ (fun _ _ => rfl) _ _ _ _
  · split_ifs at hr
    · simp only [Option.some.injEq] at hr; rw [← hr]; exact MulAlgo.toom3_mul_eq _ (fun _ _ => rfl) _ _ _ _
    · simp only [Option.some.injEq] at hr; rw [← hr]; exact MulAlgo.toom42_mul_eq _ (fun _ _ => rfl) _ _ _ _
    · simp only [Option.some.injEq] at hr; rw [← hr]; exact MulAlgo.toom32_mul_eq _ (fun _ _ => rfl) _ _ _ _
    · simp only [Option.some.injEq] at hr; rw [← hr]; exact MulAlgo.toom4_mul_eq _ (fun _ _ => rfl) _ _ _ _
    · simp only [Option.some.injEq] at hr; rw [← hr]; exact MulAlgo.toom53_mul_eq _ (fun _ _ => rfl) _ _ _ _
  · exact absurd hr (by simp)

-- non-vacuity: the Toom-4.2 call mpn_mul makes for (200, 60)
example : callValue params ⟨"mpn_toom42_mul", [.ptr 1 0, .ptr 2 0, .sz 200, .ptr 3 0, .sz 60, .ptr 102 0]⟩ 12345 678
    = some (12345 * 678) := by
  have h := mpn_mul_val_partial params params_valid
    ⟨"mpn_toom42_mul", [.ptr 1 0, .ptr 2 0, .sz 200, .ptr 3 0, .sz 60, .ptr 102 0]⟩ (by decide) 12345 678
  cases hc : callValue params ⟨"mpn_toom42_mul", [.ptr 1 0, .ptr 2 0, .sz 200, .ptr 3 0, .sz 60, .ptr 102 0]⟩ 12345 678 with
  | none => simp [callValue, sizeArgs] at hc
  | some r => rw [h r hc]

end Mpir.MulDispatch

namespace Mpir.FftParams

/-- PARTIAL CORRECTNESS of the parameter selection of mpn_mul_fft_main (fft/mul_fft_main.c:40-102), for every
    table whose entries are offsets ≤ 4 and ALL n1, n2 ≥ 1: whenever the model returns a choice, the parameters
    handed to mpn_mul_trunc_sqrt2 / mpn_mul_mfa_trunc_sqrt2 satisfy what those functions need:
    64 | n·w (coefficients are whole limbs), bits ≥ 1, depth+1 ≤ n·w (no unsigned wrap), j1 + j2 − 1 ≤ 4n (the
    product fits the transform length), 2·bits + depth + 1 ≤ n·w (no coefficient wraps mod 2^(nw)+1).
    Covers the FFT_TAB adjustment with its rounding argument (all 50 (depth, w, off) cases), the "smaller w" loop
    (any number of iterations) and the depth ≥ 11 MFA branch including depth−−, w·=3.
    `_partial`: says nothing when the model returns `none`; `fft_params_sound` below closes that gap. -/
theorem fft_params_sound_partial (tab : List (List Int))
    (htab : ∀ d w, 6 ≤ d → d < 11 → (w = 1 ∨ w = 2) → tabGet tab d w ≤ 4)
    (n1 n2 : Nat) (hn1 : 1 ≤ n1) (hn2 : 1 ≤ n2) (c : Choice) (h : fftParams tab n1 n2 = some c) :
    Sound n1 n2 c := by
  unfold fftParams at h
  simp only [] at h
  split at h
  · simp at h
  · rename_i depth w hf
    obtain ⟨hd6, hw, htr⟩ := findInit_spec _ _ _ 6 1 depth w (le_refl 6) (Or.inl rfl) hf
    simp only [Option.some.injEq] at h
    subst h
    by_cases hd : depth < 11
    · exact adjust_lt11 tab n1 n2 depth w hd6 hd hw (htab depth w hd6 hd hw) htr
    · exact adjust_ge11 tab n1 n2 depth w hn1 hn2 (by omega) hw htr

/-- TOTAL correctness of the parameter selection: for every admissible table and ALL n1, n2 ≥ 1 the first loop
    of mul_fft_main.c:55-68 terminates (within the model's fuel 2·(log2(n1+n2)+8): the exit test holds at the
    latest when (2^depth)² ≥ 64·(n1+n2)), and the parameters passed on are sound. -/
theorem fft_params_sound (tab : List (List Int))
    (htab : ∀ d w, 6 ≤ d → d < 11 → (w = 1 ∨ w = 2) → tabGet tab d w ≤ 4)
    (n1 n2 : Nat) (hn1 : 1 ≤ n1) (hn2 : 1 ≤ n2) :
    ∃ c, fftParams tab n1 n2 = some c ∧ Sound n1 n2 c := by
  cases h : fftParams tab n1 n2 with
  | none => exact absurd h (fftParams_total tab n1 n2 hn1 hn2)
  | some c => exact ⟨c, rfl, fft_params_sound_partial tab htab n1 n2 hn1 hn2 c h⟩

/-- the table extracted from the tree under check is admissible -/
theorem fftTab_admissible : ∀ d w, 6 ≤ d → d < 11 → (w = 1 ∨ w = 2) → tabGet Mpir.Gen.params.FFT_TAB d w ≤ 4 := by
  intro d w h1 h2 hw
  interval_cases d <;> rcases hw with rfl | rfl <;> decide

-- non-vacuity: the model does return choices (small, threshold-sized, MFA-sized operands), and they are sound
example : fftParams Mpir.Gen.params.FFT_TAB 1 1 = some ⟨false, 2, 32⟩ := by decide
example : fftParams Mpir.Gen.params.FFT_TAB 3520 3520 = some ⟨false, 7, 14⟩ := by decide
example : ∃ c, fftParams Mpir.Gen.params.FFT_TAB 100000 50000 = some c ∧ Sound 100000 50000 c :=
  fft_params_sound _ fftTab_admissible 100000 50000 (by decide) (by decide)
example : Sound 3520 3520 ⟨false, 7, 14⟩ :=
  fft_params_sound_partial _ fftTab_admissible 3520 3520 (by decide) (by decide) _ (by decide)

end Mpir.FftParams
