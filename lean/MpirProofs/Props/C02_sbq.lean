/-
  C02 (multi-limb layer) — mpn_sb_divappr_q: the approximate schoolbook quotient is ⌊N/D⌋ or ⌊N/D⌋ + 1
  ("The quotient returned is either correct, or one too large", sb_divappr_q.c:1-3), and mpn_sb_div_q: the quotient is exactly
  ⌊N/D⌋, including the final correction code — for ALL lengths and limb contents.
  Property theorems only; helper lemmas live in MpirProofs/Lemmas/SbDivQ.lean, SbDivQLoop.lean, SbDivQTop.lean (divappr) and
  SbDivQExact.lean, SbDivQExactLoop.lean, SbDivQFix.lean, SbDivQFix2.lean, SbDivQTri.lean, SbDivQExactTop.lean (div_q).
  The theorems are about the executable limb-for-limb model Mpir/Model/SbDivQ.lean of mpn/generic/sb_divappr_q.c, which the
  correspondence check runs against the real function (op `sb_divappr_q`, outputs compared verbatim) on every run.
  Ingredients: udiv_qr_3by2 / invert_pi1 (C02_word), submul_1, add_n, sub_n, cmp (Kernels), the arithmetic cores of C02_sb.
-/
import MpirProofs.Lemmas.SbDivQTop
import MpirProofs.Lemmas.SbDivQExactTop
namespace Mpir.SbDivQ
open Mpir Mpir.DivWord Mpir.SbDiv

/-- mpn_sb_divappr_q (qp, np, nn, dp, dn, dinv), sb_divappr_q.c:48-245.  Preconditions = the C's ASSERTs (dn > 2, high bit
    of dp[dn-1] set), nn > dn (the ASSERT says nn ≥ dn, but the code stores qp[0] unconditionally: every caller passes
    nn > dn), dinv = mpir_invert_pi1 (dp[dn-1], dp[dn-2]), and 2·dn + 2 ≤ 2^64 (sizes are mp_size_t; the accumulated
    truncation error is below (dn+1)·B^(dn-1), which has to stay below D ≥ B^dn/2).
    The nn-dn quotient limbs q and the returned high limb qh satisfy qh·B^(nn-dn) + q ∈ {⌊N/D⌋, ⌊N/D⌋ + 1}; qh is 0 or 1.
    Covers every path: the cut of the divisor to qn+1 limbs, initial compare/subtract, the exact first loop (3/2 estimate,
    borrow out of submul_1/sub_333, add-back, the cy == d1 && n1 == d0 branch with cy2), the truncating loop with its
    "truncation ruins normalisation" exits through __divappr_helper (remaining limbs all ones), the q = B-1 steps, and
    the three-way code of the last limb. -/
theorem sb_divappr_q_contract (n d : List Nat) (dinv : Nat) (hdn : 3 ≤ d.length) (hnn : d.length < n.length)
    (hnorm : B / 2 ≤ d.getD (d.length - 1) 0) (hn : Limbs n) (hd : Limbs d)
    (hdinv : dinv = invert_pi1 (d.getD (d.length - 1) 0) (d.getD (d.length - 2) 0))
    (hsize : 2 * d.length + 2 ≤ B) :
    let (q, _, qh) := sb_divappr_q n d dinv
    q.length = n.length - d.length ∧ Limbs q ∧ qh ≤ 1 ∧
      (qh * B ^ (n.length - d.length) + val q = val n / val d ∨
       qh * B ^ (n.length - d.length) + val q = val n / val d + 1) := by
  obtain ⟨q, r3, qh, e, h⟩ := sb_divappr_q_spec n d dinv hdn hnn hnorm hn hd hdinv hsize
  rw [e]; exact h

/-- the predicate `DivZ.divapprOk` with which the driver judges the real mpn_sb_divappr_q (predicate op `mpn_sb_divappr_q`)
    holds of the limb-level model: on the domain of the function the model can never be rejected by it -/
theorem sb_divappr_q_ok (n d : List Nat) (dinv : Nat) (hdn : 3 ≤ d.length) (hnn : d.length < n.length)
    (hnorm : B / 2 ≤ d.getD (d.length - 1) 0) (hn : Limbs n) (hd : Limbs d)
    (hdinv : dinv = invert_pi1 (d.getD (d.length - 1) 0) (d.getD (d.length - 2) 0))
    (hsize : 2 * d.length + 2 ≤ B) :
    DivZ.divapprOk n d (sb_divappr_q n d dinv).1 (sb_divappr_q n d dinv).2.2 = true := by
  obtain ⟨q, r3, qh, e, hl, _, _, h⟩ := sb_divappr_q_spec n d dinv hdn hnn hnorm hn hd hdinv hsize
  rw [e]
  unfold DivZ.divapprOk
  simp only [hl, beq_self_eq_true, Bool.true_and, Bool.or_eq_true, beq_iff_eq]
  rcases h with h | h
  · left; rw [← h]; ring
  · right; rw [← h]; ring

/-- the `else if (np[1] >= d0)` arm of the last limb's code (sb_divappr_q.c:208-221) is dead: it is entered only when
    cy ≥ d1 and not (cy > d1 or (cy == d1 and np[1] ≥ d0)), which forces np[1] < d0 -/
theorem daFinal_dead (d1 d0 n1 cy : Nat) (h1 : cy ≥ d1) (h2 : ¬ (cy > d1 ∨ (cy = d1 ∧ n1 ≥ d0))) : ¬ n1 ≥ d0 := by
  omega

/-! Non-vacuity (values cross-checked with the real function by the directed ops of tools/props/c02_sbq.py). -/

-- the quotient is one too large: ⌊N/D⌋ = 0x12, returned 0x13 (dn is cut to qn+1 = 2 limbs, the ignored low limb of D is B-1)
example : sb_divappr_q [0xffffffffffffffff, 1, 0x8000000000000000, 9] [0xffffffffffffffff, 0, 0x8000000000000000]
      (invert_pi1 0x8000000000000000 0) = ([0x13], [1, 0, 0], 0) ∧
    val [0xffffffffffffffff, 1, 0x8000000000000000, 9] / val [0xffffffffffffffff, 0, 0x8000000000000000] = 0x12 := by
  decide

-- add-back in the truncating loop, then "truncation ruins normalisation" at the last limb: q0 = B-1 through __divappr_helper; exact
example : sb_divappr_q [9, 0x13, 0x1c, 0, 2] [5, 7, 0x8000000000000000] (invert_pi1 0x8000000000000000 7)
      = ([0xffffffffffffffff, 3], [0xb, 0x8000000000000000, 0], 0) ∧
    val [9, 0x13, 0x1c, 0, 2] / val [5, 7, 0x8000000000000000] = 3 * B + (B - 1) := by
  decide

-- saturation inside the truncating loop (two limbs set to B-1 at once), dn = 4
example : sb_divappr_q [9, 9, 0x13, 0x18, 0x1c, 0, 2] [5, 6, 7, 0x8000000000000000] (invert_pi1 0x8000000000000000 7)
      = ([0xffffffffffffffff, 0xffffffffffffffff, 3], [0x11, 0x8000000000000000, 0], 0) := by
  decide

-- add-back in the first (exact) loop, nn - dn = dn
example : sb_divappr_q [0x8000000000000000, 0, 0x8000000000000000, 0, 0, 9] [0xffffffffffffffff, 0, 0x8000000000000000]
      (invert_pi1 0x8000000000000000 0) = ([0xffffffffffffffdd, 0xffffffffffffffff, 0x11], [0xffffffffffffffff, 0x12, 0], 0) := by
  decide

-- the q = B-1 step of the truncating loop (cy == d1, n1 ≥ d0) and qh = 0
example : sb_divappr_q [3, 0xfffffffffffffffe, 0x8000000000000000, 1, 0x8000000000000000] [0xffffffffffffffff, 1, 0x8000000000000000]
      (invert_pi1 0x8000000000000000 1) = ([0xffffffffffffffff, 0xffffffffffffffff], [0xfffffffffffffffe, 2, 0], 0) := by
  decide

-- qh = 1 with an add-back in the truncating loop
example : sb_divappr_q [9, 0, 2, 2, 0xfffffffffffffffe] [5, 1, 0x8000000000000000] (invert_pi1 0x8000000000000000 1)
      = ([0xffffffffffffffff, 0xfffffffffffffffb], [0x1a, 0x7ffffffffffffffc, 0], 1) := by
  decide

/-! ## mpn_sb_div_q -/

/-- mpn_sb_div_q (qp, np, nn, dp, dn, dinv), sb_div_q.c:36-301.  Preconditions = the C's ASSERTs (dn > 2, nn ≥ dn, high bit of
    dp[dn-1] set), dinv = mpir_invert_pi1 (dp[dn-1], dp[dn-2]), and 2·dn + 2 ≤ 2^64 (sizes are mp_size_t; the test
    `n1 < dn` at :202 is sound only while the ignored parts stay below dn·B^(dn-1) ≤ D).
    The model returns `some` (no ASSERT_ALWAYS of the C can fire), the nn-dn quotient limbs q and qh ∈ {0,1} with
    qh·B^(nn-dn) + q = ⌊N/D⌋ exactly.  Covers every path: the cut of the divisor to qn+1 limbs, the exact first loop, the
    truncating loop (ordinary 3/2 steps with add-back; the q = B-1 steps with exact / add-back / `flag = 0` outcome,
    after which every limb is B-1 and the fix-up is skipped), the last limb, the test `n1 < dn`, and the fix-up code:
    triangularization compensation with its early exit, compensation for the ignored divisor and dividend tails (qh·D_low
    and q·D_low) with their three exits and the borrow into qh. -/
theorem sb_div_q_exact (n d : List Nat) (dinv : Nat) (hdn : 3 ≤ d.length) (hnn : d.length ≤ n.length)
    (hnorm : B / 2 ≤ d.getD (d.length - 1) 0) (hn : Limbs n) (hd : Limbs d)
    (hdinv : dinv = invert_pi1 (d.getD (d.length - 1) 0) (d.getD (d.length - 2) 0))
    (hsize : 2 * d.length + 2 ≤ B) :
    ∃ q qh, sb_div_q n d dinv = some (q, qh) ∧ q.length = n.length - d.length ∧ Limbs q ∧ qh ≤ 1 ∧
      qh * B ^ (n.length - d.length) + val q = val n / val d := by
  rcases Nat.lt_or_ge d.length n.length with h | h
  · exact sb_div_q_spec n d dinv hdn h hnorm hn hd hdinv hsize
  · have hl : n.length = d.length := by omega
    obtain ⟨qh, e, hqh, hv⟩ := sb_div_q_spec0 n d dinv hdn hl hnorm hn hd
    refine ⟨[], qh, e, by simp [hl], Limbs_nil, hqh, ?_⟩
    rw [hl, Nat.sub_self, pow_zero, Nat.mul_one, val_nil, Nat.add_zero]; exact hv

/-! Non-vacuity (values cross-checked with the real function by the directed ops of tools/props/c02_sbq.py). -/

-- fix-up, "ignored tails" part: the borrow of qh·D_low with x = 0 decrements B^1 + 0 to 0·B + (B-1)
example : sb_div_q [0xffffffffffffffff, 4, 0, 0, 0x8000000000000001] [5, 0, 0, 0x8000000000000001]
      (invert_pi1 0x8000000000000001 0) = some ([0xffffffffffffffff], 0) ∧
    val [0xffffffffffffffff, 4, 0, 0, 0x8000000000000001] / val [5, 0, 0, 0x8000000000000001] = B - 1 := by
  decide

-- q = B-1 steps with exact borrow (n1 == cy), truncating loop
example : sb_div_q [0xfffffffffffffffc, 0, 0x8000000000000003, 0xfffffffffffffffe, 0x8000000000000001]
      [5, 0xffffffffffffffff, 0x8000000000000001] (invert_pi1 0x8000000000000001 0xffffffffffffffff)
    = some ([0xffffffffffffffff, 0xffffffffffffffff], 0) := by
  decide

-- q = B-1 step with add-back (q = B-2) in the truncating loop, first loop before it
example : sb_div_q [0xffffffffffffffff, 9, 0xfffffffffffffffe, 9, 3, 2] [5, 0xffffffffffffffff, 0x8000000000000000]
      (invert_pi1 0x8000000000000000 0xffffffffffffffff) = some ([0x1f, 0xfffffffffffffffe, 3], 0) := by
  decide

-- fix-up: early exit of the triangularization loop (quotient B^2 + 1 decremented to B^2)
example : sb_div_q [0xffffffffffffffff, 0, 5, 0x8000000000000002, 5, 0x8000000000000001] [0, 1, 5, 0x8000000000000001]
      (invert_pi1 0x8000000000000001 5) = some ([0, 0], 1) := by
  decide

-- fix-up: exit of the tail loop (q·D_low borrows with x = 0)
example : sb_div_q [0xfffffffffffffffe, 4, 6, 0x8000000000000001, 0x8000000000000001] [0xffffffffffffffff, 5, 0, 0x8000000000000001]
      (invert_pi1 0x8000000000000001 0) = some ([0], 1) := by
  decide

-- `flag = 0`: the window exceeds (B-1)·d by B^len, all remaining limbs B-1, no fix-up
example : sb_div_q [0xffffffffffffffff, 0xffffffffffffffff, 4, 0xffffffffffffffff, 0xffffffffffffffff]
      [5, 0xffffffffffffffff, 0xffffffffffffffff] (invert_pi1 0xffffffffffffffff 0xffffffffffffffff)
    = some ([0xffffffffffffffff, 0xffffffffffffffff], 0) := by
  decide

-- nn = dn: qh decided by the fix-up alone (N = D - 1 gives 0, N = D gives 1)
example : sb_div_q [4, 7, 0x8000000000000000] [5, 7, 0x8000000000000000] (invert_pi1 0x8000000000000000 7) = some ([], 0) ∧
    sb_div_q [5, 7, 0x8000000000000000] [5, 7, 0x8000000000000000] (invert_pi1 0x8000000000000000 7) = some ([], 1) := by
  decide

end Mpir.SbDivQ
