/-
  C02 (multi-limb layer) — mpn_sb_divappr_q: the approximate schoolbook quotient is ⌊N/D⌋ or ⌊N/D⌋ + 1
  ("The quotient returned is either correct, or one too large", sb_divappr_q.c:1-3) for ALL lengths and limb contents.
  Property theorems only; helper lemmas live in MpirProofs/Lemmas/SbDivQ.lean, SbDivQLoop.lean, SbDivQTop.lean.
  The theorems are about the executable limb-for-limb model Mpir/Model/SbDivQ.lean of mpn/generic/sb_divappr_q.c, which the
  correspondence check runs against the real function (op `sb_divappr_q`, outputs compared verbatim) on every run.
  Ingredients: udiv_qr_3by2 / invert_pi1 (C02_word), submul_1, add_n, sub_n, cmp (Kernels), the arithmetic cores of C02_sb.
-/
import MpirProofs.Lemmas.SbDivQTop
namespace Mpir.SbDivQ
open Mpir Mpir.DivWord Mpir.SbDiv

/-- mpn_sb_divappr_q (qp, np, nn, dp, dn, dinv), sb_divappr_q.c:48-245.  Preconditions = the C's ASSERTs (dn > 2, high bit
    of dp[dn-1] set), nn > dn (the ASSERT says nn ≥ dn, but the code stores qp[0] unconditionally: every caller passes
    nn > dn), dinv = mpir_invert_pi1 (dp[dn-1], dp[dn-2]), and 2·dn + 2 ≤ 2^64 (sizes are mp_size_t; the accumulated
    truncation error is below (dn+1)·B^(dn-1), which has to stay below D ≥ B^dn/2).
    The nn-dn quotient limbs q and the returned high limb qh satisfy qh·B^(nn-dn) + q ∈ {⌊N/D⌋, ⌊N/D⌋ + 1}; qh is 0 or 1.
    Covers every path: the cut of the divisor to qn+1 limbs, initial compare/subtract, the exact first loop (3/2 estimate,
    borrow out of submul_1/sub_333, add-back, the cy == d1 && n1 == d0 branch with cy2), the truncating loop with its
    "truncation ruins normalisation" exits through __divappr_helper (remaining limbs all ones), the q = B-1 steps, and
    the three-way code of the last limb. -/
theorem sb_divappr_q_contract (n d : List Nat) (dinv : Nat) (hdn : 3 ≤ d.length) (hnn : d.length < n.length)
    (hnorm : B / 2 ≤ d.getD (d.length - 1) 0) (hn : Limbs n) (hd : Limbs d)
    (hdinv : dinv = invert_pi1 (d.getD (d.length - 1) 0) (d.getD (d.length - 2) 0))
    (hsize : 2 * d.length + 2 ≤ B) :
    let (q, _, qh) := sb_divappr_q n d dinv
    q.length = n.length - d.length ∧ Limbs q ∧ qh ≤ 1 ∧
      (qh * B ^ (n.length - d.length) + val q = val n / val d ∨
       qh * B ^ (n.length - d.length) + val q = val n / val d + 1) := by
  obtain ⟨q, r3, qh, e, h⟩ := sb_divappr_q_spec n d dinv hdn hnn hnorm hn hd hdinv hsize
  rw [e]; exact h

/-- the predicate `DivZ.divapprOk` with which the driver judges the real mpn_sb_divappr_q (predicate op `mpn_sb_divappr_q`)
    holds of the limb-level model: on the domain of the function the model can never be rejected by it -/
theorem sb_divappr_q_ok (n d : List Nat) (dinv : Nat) (hdn : 3 ≤ d.length) (hnn : d.length < n.length)
    (hnorm : B / 2 ≤ d.getD (d.length - 1) 0) (hn : Limbs n) (hd : Limbs d)
    (hdinv : dinv = invert_pi1 (d.getD (d.length - 1) 0) (d.getD (d.length - 2) 0))
    (hsize : 2 * d.length + 2 ≤ B) :
    DivZ.divapprOk n d (sb_divappr_q n d dinv).1 (sb_divappr_q n d dinv).2.2 = true := by
  obtain ⟨q, r3, qh, e, hl, _, _, h⟩ := sb_divappr_q_spec n d dinv hdn hnn hnorm hn hd hdinv hsize
  rw [e]
  unfold DivZ.divapprOk
  simp only [hl, beq_self_eq_true, Bool.true_and, Bool.or_eq_true, beq_iff_eq]
  rcases h with h | h
  · left; rw [← h]; ring
  · right; rw [← h]; ring

/-- the `else if (np[1] >= d0)` arm of the last limb's code (sb_divappr_q.c:208-221) is dead: it is entered only when
    cy ≥ d1 and not (cy > d1 or (cy == d1 and np[1] ≥ d0)), which forces np[1] < d0 -/
theorem daFinal_dead (d1 d0 n1 cy : Nat) (h1 : cy ≥ d1) (h2 : ¬ (cy > d1 ∨ (cy = d1 ∧ n1 ≥ d0))) : ¬ n1 ≥ d0 := by
  omega

/-! Non-vacuity (values cross-checked with the real function by the directed ops of tools/props/c02_sbq.py). -/

-- the quotient is one too large: ⌊N/D⌋ = 0x12, returned 0x13 (dn is cut to qn+1 = 2 limbs, the ignored low limb of D is B-1)
example : sb_divappr_q [0xffffffffffffffff, 1, 0x8000000000000000, 9] [0xffffffffffffffff, 0, 0x8000000000000000]
      (invert_pi1 0x8000000000000000 0) = ([0x13], [1, 0, 0], 0) ∧
    val [0xffffffffffffffff, 1, 0x8000000000000000, 9] / val [0xffffffffffffffff, 0, 0x8000000000000000] = 0x12 := by
  decide

-- add-back in the truncating loop, then "truncation ruins normalisation" at the last limb: q0 = B-1 through __divappr_helper; exact
example : sb_divappr_q [9, 0x13, 0x1c, 0, 2] [5, 7, 0x8000000000000000] (invert_pi1 0x8000000000000000 7)
      = ([0xffffffffffffffff, 3], [0xb, 0x8000000000000000, 0], 0) ∧
    val [9, 0x13, 0x1c, 0, 2] / val [5, 7, 0x8000000000000000] = 3 * B + (B - 1) := by
  decide

-- saturation inside the truncating loop (two limbs set to B-1 at once), dn = 4
example : sb_divappr_q [9, 9, 0x13, 0x18, 0x1c, 0, 2] [5, 6, 7, 0x8000000000000000] (invert_pi1 0x8000000000000000 7)
      = ([0xffffffffffffffff, 0xffffffffffffffff, 3], [0x11, 0x8000000000000000, 0], 0) := by
  decide

-- add-back in the first (exact) loop, nn - dn = dn
example : sb_divappr_q [0x8000000000000000, 0, 0x8000000000000000, 0, 0, 9] [0xffffffffffffffff, 0, 0x8000000000000000]
      (invert_pi1 0x8000000000000000 0) = ([0xffffffffffffffdd, 0xffffffffffffffff, 0x11], [0xffffffffffffffff, 0x12, 0], 0) := by
  decide

-- the q = B-1 step of the truncating loop (cy == d1, n1 ≥ d0) and qh = 0
example : sb_divappr_q [3, 0xfffffffffffffffe, 0x8000000000000000, 1, 0x8000000000000000] [0xffffffffffffffff, 1, 0x8000000000000000]
      (invert_pi1 0x8000000000000000 1) = ([0xffffffffffffffff, 0xffffffffffffffff], [0xfffffffffffffffe, 2, 0], 0) := by
  decide

-- qh = 1 with an add-back in the truncating loop
example : sb_divappr_q [9, 0, 2, 2, 0xfffffffffffffffe] [5, 1, 0x8000000000000000] (invert_pi1 0x8000000000000000 1)
      = ([0xffffffffffffffff, 0xfffffffffffffffb], [0x1a, 0x7ffffffffffffffc, 0], 1) := by
  decide

end Mpir.SbDivQ
