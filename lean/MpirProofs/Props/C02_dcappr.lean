/-
  C02 (multi-limb layer) — mpn_dc_divappr_q (mpn/generic/dc_divappr_q.c), value-level model Mpir/Model/DcDivappr.lean.

  RESULT: the contract stated in the file header of dc_divappr_q.c ("The quotient returned is either correct, or one too
  large") is FALSE for this routine, for every admissible value of its cutoff SB_DIVAPPR_Q_CUTOFF ("must be at least 3"):
  the theorems below exhibit, kernel-checked on the executable model that the correspondence run compares verbatim with
  the real function (op `dc_divappr_q_model`), inputs inside the ASSERTed domain on which the model — and the real
  mpn_dc_divappr_q, see findings/C02_dc_divappr_q_floor2.ops — returns ⌊N/D⌋ + 2, and, one recursion level higher, a
  quotient that is too large by more than B^85 (this one reaches the public mpz_tdiv_q / mpn_tdiv_q through
  mpn_dc_div_q, tdiv_q.c:179-182).

  Mechanism.  A call keeps its partial remainder only from limb n-1 of its window upwards (products d_i·q_j with
  i + j < n-1 are never subtracted), so the remainder handed to the low-half sub-call (:131) exceeds the true one by those
  neglected products.  The sub-call's "rare case" test (:78-79) looks at the top qn limbs only and then stores B-1 in
  every quotient limb (:81): correct or one too large for ITS operands, but up to two too large for the true remainder.
  One level up, the single correction step (:105, an `if`) cannot repair a high half that is two too large; `cy` stays
  negative, ":120 unable to canonicalise" saturates the low half as well.
  Recipe (n = qn = dn-1, sh = n/2, sl = n-sh): D = B^n/2 + B^(sh+1) - 1, N = Qh·B^sl·D + B^(n+sl+1)/2 - E with
  E = Σ_j qh_j·(D mod B^(sh-1-j))·B^(sl+j) the neglected part; needs sl ≥ cutoff so that the low half recurses.

  Consequently the hypothesis `hX` of Mpir.DcDiv.dcDivQ_exact and the divappr hypothesis of the tdiv_q theorems cannot be
  discharged for mpn_dc_divappr_q as it stands; they remain assumptions that the real code violates on these inputs.
-/
import Mpir.Model.DcDivappr
namespace Mpir.DcDivappr
open Mpir

/-- With the smallest admissible cutoff (SB_DIVAPPR_Q_CUTOFF = 3, DC_DIV_QR_THRESHOLD = 6) a 13-limb dividend and a
    7-limb normalised divisor suffice: every callee stays inside its ASSERTed domain (`ok`), the returned high limb is 0
    and the 6 quotient limbs are ⌊N/D⌋ + 2. -/
theorem dcDivappr_floor2_small :
    let N := 0x4000000000000000000000000000000000000000000000006fffffffffffffffffffffffffffffff900000000000000000000000000000000000000000000000000000000000000000000000000000000
    let D := 0x800000000000000000000000000000000000000000000000ffffffffffffffffffffffffffffffffffffffffffffffffffffffffffffffff
    let r := dcDivappr false 6 3 sbLeaf 13 7 N D
    B ^ 7 / 2 ≤ D ∧ D < B ^ 7 ∧ N < B ^ 13 ∧ r.ok = true ∧ r.qh = 0 ∧ r.q = N / D + 2 := by
  decide +kernel

/-- The same with the parameters of the tree under test (SB_DIVAPPR_Q_CUTOFF = 43, DC_DIV_QR_THRESHOLD = 50): dn = 87,
    nn = 173, D = 2^63·B^86 + B^44 - 1, N = 7·B^43·D + B^130/2 - 7·(B^42-1)·B^43.  The real function returns the same
    limbs (findings/C02_dc_divappr_q_floor2.ops, line 1). -/
theorem dcDivappr_floor2 :
    let D := 2 ^ 63 * B ^ 86 + B ^ 44 - 1
    let N := 7 * B ^ 43 * D + B ^ 130 / 2 - 7 * (B ^ 42 - 1) * B ^ 43
    let r := dcDivappr false 50 43 sbLeaf 173 87 N D
    B ^ 87 / 2 ≤ D ∧ D < B ^ 87 ∧ N < B ^ 173 ∧ r.ok = true ∧ r.qh = 0 ∧ r.q = N / D + 2 := by
  decide +kernel

/-- One level higher (dn = 173, nn = 345; D = D₁·B^86 + B^86 - 1, N = N₁·B^172 with D₁, N₁ the operands above): the
    high-half sub-call returns a quotient two too large, one correction is not enough, and the result exceeds ⌊N/D⌋
    by more than B^85.  mpn_dc_div_q copies the high limbs of such a result (its guard limb is B-1), which is how
    mpz_tdiv_q (5·D·B^171 + N₁·B^171, D) comes out wrong (findings/C02_dc_divappr_q_floor2.ops, lines 2-4). -/
theorem dcDivappr_far_off :
    let D1 := 2 ^ 63 * B ^ 86 + B ^ 44 - 1
    let N1 := 7 * B ^ 43 * D1 + B ^ 130 / 2 - 7 * (B ^ 42 - 1) * B ^ 43
    let D := D1 * B ^ 86 + (B ^ 86 - 1)
    let N := N1 * B ^ 172
    let r := dcDivappr false 50 43 sbLeaf 345 173 N D
    B ^ 173 / 2 ≤ D ∧ D < B ^ 173 ∧ N < B ^ 345 ∧ r.ok = true ∧ r.qh = 0 ∧ N / D + B ^ 85 < r.q := by
  decide +kernel

/-- The repaired C (model parameter `rep` = true; findings/dc_divappr_q_fix.diff: in the rare case :78-82 the sign of the
    three remainder limbs decides between B^qn - 1 and B^qn - 2, and :105 is a `while`) returns ⌊N/D⌋ + 1 and ⌊N/D⌋ + 1
    on the two inputs above.  (The general statement — result ∈ {⌊N/D⌋, ⌊N/D⌋ + 1} for every size, by the invariant
    "the truncated remainder t(Q) = ⌊W/B^(n-1)⌋ - Σ_j q_j·⌊D/B^(n-1-j)⌋ left in np[dn-2 .. dn] is ≥ 0 on every exit" —
    is not proved yet; the correspondence run measured only 0 and +1 on 281 000 generated inputs and on the nested
    constructions at two and three recursion levels.) -/
theorem dcDivappr_repaired_examples :
    let D1 := 2 ^ 63 * B ^ 86 + B ^ 44 - 1
    let N1 := 7 * B ^ 43 * D1 + B ^ 130 / 2 - 7 * (B ^ 42 - 1) * B ^ 43
    let D := D1 * B ^ 86 + (B ^ 86 - 1)
    let N := N1 * B ^ 172
    let r1 := dcDivappr true 50 43 sbLeaf 173 87 N1 D1
    let r := dcDivappr true 50 43 sbLeaf 345 173 N D
    r1.ok = true ∧ r1.qh = 0 ∧ r1.q = N1 / D1 + 1 ∧ r.ok = true ∧ r.qh = 0 ∧ r.q = N / D + 1 := by
  decide +kernel

end Mpir.DcDivappr
