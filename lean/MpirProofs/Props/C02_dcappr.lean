/-
  C02 (multi-limb layer) — mpn_dc_divappr_q (mpn/generic/dc_divappr_q.c), value-level model Mpir/Model/DcDivappr.lean.

  RESULT: the contract stated in the file header of dc_divappr_q.c ("The quotient returned is either correct, or one too
  large") is FALSE for this routine, for every admissible value of its cutoff SB_DIVAPPR_Q_CUTOFF ("must be at least 3"):
  the theorems below exhibit, kernel-checked on the executable model that the correspondence run compares verbatim with
  the real function (op `dc_divappr_q_model`), inputs inside the ASSERTed domain on which the model — and the real
  mpn_dc_divappr_q, see findings/C02_dc_divappr_q_floor2.ops — returns ⌊N/D⌋ + 2, and, one recursion level higher, a
  quotient that is too large by more than B^85 (this one reaches the public mpz_tdiv_q / mpn_tdiv_q through
  mpn_dc_div_q, tdiv_q.c:179-182).

  Mechanism.  A call keeps its partial remainder only from limb n-1 of its window upwards (products d_i·q_j with
  i + j < n-1 are never subtracted), so the remainder handed to the low-half sub-call (:131) exceeds the true one by those
  neglected products.  The sub-call's "rare case" test (:78-79) looks at the top qn limbs only and then stores B-1 in
  every quotient limb (:81): correct or one too large for ITS operands, but up to two too large for the true remainder.
  One level up, the single correction step (:105, an `if`) cannot repair a high half that is two too large; `cy` stays
  negative, ":120 unable to canonicalise" saturates the low half as well.
  Recipe (n = qn = dn-1, sh = n/2, sl = n-sh): D = B^n/2 + B^(sh+1) - 1, N = Qh·B^sl·D + B^(n+sl+1)/2 - E with
  E = Σ_j qh_j·(D mod B^(sh-1-j))·B^(sl+j) the neglected part; needs sl ≥ cutoff so that the low half recurses.

  Consequently the hypothesis `hX` of Mpir.DcDiv.dcDivQ_exact and the divappr hypothesis of the tdiv_q theorems could not be
  discharged for mpn_dc_divappr_q as it stood (the real code violated them on these inputs).

  REPAIRED C (/repo commit 631f91d, model parameter rep = true): `dc_divappr_q_contract` below proves the contract for EVERY
  size, every DC_DIV_QR_THRESHOLD ≥ 6 and every SB_DIVAPPR_Q_CUTOFF ≥ 3 (lemmas: MpirProofs/Lemmas/DcDivapprArith.lean,
  SbDivQRem.lean, DcDivappr.lean).  Invariant of every call on its window W (2n+1 limbs) and cut divisor D (n+1 limbs):
  the quotient limbs Q and the three limbs r3 left in np[dn-2 .. dn] satisfy  W < (Q+1)·D  and  ⌊W/B^(n-1)⌋ = tS D Q n + r3,
  tS D Q n = Σ_j q_j·⌊D/B^(n-1-j)⌋ the truncated product; r3 ≥ 0 is the point, Q·D - B^(n-1)·tS D Q n < n·B^n ≤ D gives
  Q ≤ ⌊W/D⌋ + 1.  The leaf mpn_sb_divappr_q keeps the same invariant (`Mpir.SbDivQ.sbLeaf_spec`), so do both saturating
  exits through __divappr_helper, the repaired rare case (sign test) and the correction loop, which runs AT MOST ONCE.
  `dc_div_q_exact` discharges the callee hypothesis of Mpir.DcDiv.dcDivQ_exact; `dc_divappr_q_ok` is the hypothesis
  "callee error ≤ 1" of the tdiv_q theorems (Props/C02_tdivq.lean, which hold for every callee error e ≤ 3) for this callee.
-/
import MpirProofs.Lemmas.DcDivappr
import MpirProofs.Lemmas.TdivQ
namespace Mpir.DcDivappr
open Mpir

/-- With the smallest admissible cutoff (SB_DIVAPPR_Q_CUTOFF = 3, DC_DIV_QR_THRESHOLD = 6) a 13-limb dividend and a
    7-limb normalised divisor suffice: every callee stays inside its ASSERTed domain (`ok`), the returned high limb is 0
    and the 6 quotient limbs are ⌊N/D⌋ + 2. -/
theorem dcDivappr_floor2_small :
    let N := 0x4000000000000000000000000000000000000000000000006fffffffffffffffffffffffffffffff900000000000000000000000000000000000000000000000000000000000000000000000000000000
    let D := 0x800000000000000000000000000000000000000000000000ffffffffffffffffffffffffffffffffffffffffffffffffffffffffffffffff
    let r := dcDivappr false 6 3 sbLeaf 13 7 N D
    B ^ 7 / 2 ≤ D ∧ D < B ^ 7 ∧ N < B ^ 13 ∧ r.ok = true ∧ r.qh = 0 ∧ r.q = N / D + 2 := by
  decide +kernel

/-- The same with the parameters of the tree under test (SB_DIVAPPR_Q_CUTOFF = 43, DC_DIV_QR_THRESHOLD = 50): dn = 87,
    nn = 173, D = 2^63·B^86 + B^44 - 1, N = 7·B^43·D + B^130/2 - 7·(B^42-1)·B^43.  The real function returns the same
    limbs (findings/C02_dc_divappr_q_floor2.ops, line 1). -/
theorem dcDivappr_floor2 :
    let D := 2 ^ 63 * B ^ 86 + B ^ 44 - 1
    let N := 7 * B ^ 43 * D + B ^ 130 / 2 - 7 * (B ^ 42 - 1) * B ^ 43
    let r := dcDivappr false 50 43 sbLeaf 173 87 N D
    B ^ 87 / 2 ≤ D ∧ D < B ^ 87 ∧ N < B ^ 173 ∧ r.ok = true ∧ r.qh = 0 ∧ r.q = N / D + 2 := by
  decide +kernel

/-- One level higher (dn = 173, nn = 345; D = D₁·B^86 + B^86 - 1, N = N₁·B^172 with D₁, N₁ the operands above): the
    high-half sub-call returns a quotient two too large, one correction is not enough, and the result exceeds ⌊N/D⌋
    by more than B^85.  mpn_dc_div_q copies the high limbs of such a result (its guard limb is B-1), which is how
    mpz_tdiv_q (5·D·B^171 + N₁·B^171, D) comes out wrong (findings/C02_dc_divappr_q_floor2.ops, lines 2-4). -/
theorem dcDivappr_far_off :
    let D1 := 2 ^ 63 * B ^ 86 + B ^ 44 - 1
    let N1 := 7 * B ^ 43 * D1 + B ^ 130 / 2 - 7 * (B ^ 42 - 1) * B ^ 43
    let D := D1 * B ^ 86 + (B ^ 86 - 1)
    let N := N1 * B ^ 172
    let r := dcDivappr false 50 43 sbLeaf 345 173 N D
    B ^ 173 / 2 ≤ D ∧ D < B ^ 173 ∧ N < B ^ 345 ∧ r.ok = true ∧ r.qh = 0 ∧ N / D + B ^ 85 < r.q := by
  decide +kernel

/-- The repaired C (model parameter `rep` = true; findings/dc_divappr_q_fix.diff: in the rare case :78-82 the sign of the
    three remainder limbs decides between B^qn - 1 and B^qn - 2, and :105 is a `while`) returns ⌊N/D⌋ + 1 and ⌊N/D⌋ + 1
    on the two inputs above.  (The general statement — result ∈ {⌊N/D⌋, ⌊N/D⌋ + 1} for every size, by the invariant
    "the truncated remainder t(Q) = ⌊W/B^(n-1)⌋ - Σ_j q_j·⌊D/B^(n-1-j)⌋ left in np[dn-2 .. dn] is ≥ 0 on every exit" —
    is not proved yet; the correspondence run measured only 0 and +1 on 281 000 generated inputs and on the nested
    constructions at two and three recursion levels.) -/
theorem dcDivappr_repaired_examples :
    let D1 := 2 ^ 63 * B ^ 86 + B ^ 44 - 1
    let N1 := 7 * B ^ 43 * D1 + B ^ 130 / 2 - 7 * (B ^ 42 - 1) * B ^ 43
    let D := D1 * B ^ 86 + (B ^ 86 - 1)
    let N := N1 * B ^ 172
    let r1 := dcDivappr true 50 43 sbLeaf 173 87 N1 D1
    let r := dcDivappr true 50 43 sbLeaf 345 173 N D
    r1.ok = true ∧ r1.qh = 0 ∧ r1.q = N1 / D1 + 1 ∧ r.ok = true ∧ r.qh = 0 ∧ r.q = N / D + 1 := by
  decide +kernel

/-! ## the contract of the repaired routine -/

private theorem norm_of_half' {n D : Nat} (hn : 1 ≤ n) (h : B ^ n / 2 ≤ D) : B ^ n ≤ 2 * D := by
  obtain ⟨j, hj⟩ : ∃ j, n = j + 1 := ⟨n - 1, by omega⟩
  have he : B ^ n = 2 * (B ^ n / 2) := by rw [hj, pow_succ, B_eq]; omega
  omega

/-- mpn_dc_divappr_q (qp, np, nn, dp, dn, dinv), dc_divappr_q.c:35-148 as repaired (model parameter rep = true), for EVERY size
    in the C's ASSERTed domain (dn ≥ 6, nn ≥ dn + 3, high bit of dp[dn-1]), EVERY DC_DIV_QR_THRESHOLD T ≥ 6 and EVERY
    SB_DIVAPPR_Q_CUTOFF C ≥ 3 ("must be at least 3"), any nn-limb N; sizes are mp_size_t (2·dn + 2 ≤ 2^64, the hypothesis of
    `sb_divappr_q_contract`):  every callee (mpn_sb_div_qr, mpn_dc_div_qr, mpn_sb_divappr_q, the recursive calls) is used
    inside its ASSERTed domain and qn == dn - 1 after the reduction loop (`ok`), the nn-dn quotient limbs q and the returned
    high limb qh ≤ 1 satisfy qh·B^(nn-dn) + q ∈ {⌊N/D⌋, ⌊N/D⌋ + 1} — the header of the file —, and the correction loop
    `while ((mp_limb_signed_t) cy < 0)` at :116 runs at most once in every call of the recursion tree (`wl`). -/
theorem dc_divappr_q_contract (T C nn dn N D : Nat) (hT : 6 ≤ T) (hC : 3 ≤ C) (hdn : 6 ≤ dn) (hnn : dn + 3 ≤ nn)
    (hnorm : B ^ dn / 2 ≤ D) (hD : D < B ^ dn) (hN : N < B ^ nn) (hsize : 2 * dn + 2 ≤ B) :
    let r := dcDivappr true T C sbLeaf nn dn N D
    r.ok = true ∧ r.q < B ^ (nn - dn) ∧ r.qh ≤ 1 ∧ r.wl ≤ 1 ∧
      (r.qh * B ^ (nn - dn) + r.q = N / D ∨ r.qh * B ^ (nn - dn) + r.q = N / D + 1) :=
  dcDivappr_contract T C nn dn N D hT hC hdn hnn (norm_of_half' (by omega) hnorm) hD hN hsize

-- non-vacuity: the smallest operands on which the pinned C returned ⌊N/D⌋ + 2 (`dcDivappr_floor2_small`); the repaired
-- C takes the rare case :78 in the low half with a negative truncated remainder (sign test), one pass of the loop
example :
    let N := 0x4000000000000000000000000000000000000000000000006fffffffffffffffffffffffffffffff900000000000000000000000000000000000000000000000000000000000000000000000000000000
    let D := 0x800000000000000000000000000000000000000000000000ffffffffffffffffffffffffffffffffffffffffffffffffffffffffffffffff
    let r := dcDivappr true 6 3 sbLeaf 13 7 N D
    r.ok = true ∧ r.qh = 0 ∧ r.wl ≤ 1 ∧ r.q = N / D + 1 := by
  decide +kernel

/-- the three limbs np[dn-2 .. dn] a call leaves are the (non-negative) truncated remainder of its window by the quotient
    it returns — the invariant behind the contract, for a call whose divisor is cut (qn + 1 < dn) and whose window is
    below B^qn·(cut divisor), which is how every recursive call is made -/
theorem dc_divappr_q_remainder (T C nn dn N D : Nat) (hT : 6 ≤ T) (hC : 3 ≤ C) (hdn : 6 ≤ dn) (hnn : dn + 3 ≤ nn)
    (hnorm : B ^ dn / 2 ≤ D) (hD : D < B ^ dn) (hN : N < B ^ nn) (hsize : 2 * dn + 2 ≤ B)
    (hcut : nn - dn + 1 < dn) (hpre : N / B ^ (dn - (nn - dn + 1)) / B ^ (nn - dn) < D / B ^ (dn - (nn - dn + 1))) :
    let r := dcDivappr true T C sbLeaf nn dn N D
    r.qh = 0 ∧ N / B ^ (dn - (nn - dn + 1)) / B ^ (nn - dn - 1) = tS (D / B ^ (dn - (nn - dn + 1))) r.q (nn - dn) + r.r3 := by
  have hspec := dcDivapprF_spec T C hT hC nn nn dn N D (by omega) (by omega) hD (norm_of_half' (by omega) hnorm) hN hsize
    (by omega)
  unfold CallSpec at hspec
  simp only [] at hspec
  rw [if_pos hcut] at hspec
  exact hspec.2.2.2.2.2.2 hcut hpre

example :
    let D := B ^ 7 - 1
    let N := (B ^ 4 - 5) * (D / B ^ 2) * B ^ 2
    let r := dcDivappr true 6 3 sbLeaf 11 7 N D
    r.qh = 0 ∧ r.q = B ^ 4 - 5 ∧ N / B ^ 2 / B ^ 3 = tS (D / B ^ 2) r.q 4 + r.r3 := by
  decide +kernel

/-- LEAF: what mpn_sb_divappr_q (qp, np, dn + m, dp, dn, dinv) leaves behind when the divisor is cut (m + 1 < dn, s = dn - m - 1
    limbs ignored) and the window's top m + 1 limbs are below the cut divisor — the way mpn_dc_divappr_q calls it (:101, :140):
    with Wc = ⌊N/B^s⌋, Dc = ⌊D/B^s⌋ the m quotient limbs Q and the three limbs r3 = np[dn-2 .. dn] satisfy Wc < (Q+1)·Dc and
    ⌊Wc/B^(m-1)⌋ = tS Dc Q m + r3, on every exit of the limb-level model (ordinary last limb, __divappr_helper from the
    truncating loop or from the last limb).  Strengthens `Mpir.SbDivQ.sb_divappr_q_contract`. -/
theorem sb_divappr_q_remainder (m dn N D : Nat) (hm : 1 ≤ m) (hcut : m + 1 < dn) (hN : N < B ^ (dn + m)) (hD : D < B ^ dn)
    (hnorm : B ^ dn / 2 ≤ D) (hsize : 2 * dn + 2 ≤ B)
    (hpre : N / B ^ (dn - (m + 1)) / B ^ m < D / B ^ (dn - (m + 1))) :
    let r := sbLeaf (dn + m) dn N D
    r.ok = true ∧ r.q < B ^ m ∧ N / B ^ (dn - (m + 1)) < (r.q + 1) * (D / B ^ (dn - (m + 1))) ∧
      N / B ^ (dn - (m + 1)) / B ^ (m - 1) = tS (D / B ^ (dn - (m + 1))) r.q m + r.r3 := by
  obtain ⟨h1, h2, _, h4, h5⟩ := SbDivQ.sbLeaf_spec m dn N D hm hcut hN hD (norm_of_half' (by omega) hnorm) hsize hpre
  exact ⟨h1, h2, h4, h5⟩

-- dn = 5, m = 2: the divisor is cut to 3 limbs, two limbs of divisor and dividend are ignored
example :
    let N := val [7, 7, 7, 7, 5, 6, 0x4000000000000000]
    let D := val [1, 2, 3, 4, 0x8000000000000000]
    let r := sbLeaf 7 5 N D
    r.ok = true ∧ N / B ^ 2 / B = tS (D / B ^ 2) r.q 2 + r.r3 ∧ (r.q = N / D ∨ r.q = N / D + 1) ∧ 0 < r.r3 := by
  decide +kernel

/-- on limb vectors: the predicate `DivZ.divapprOk` (callee error ≤ 1, the hypothesis under which mpn_tdiv_q's approximate
    callee is used: Props/C02_tdivq.lean) holds of the model of the repaired mpn_dc_divappr_q on its whole domain; the
    `!modeldomain` / `!modelspec` markers of the op `dc_divappr_q_model` are unreachable for rep = 1 -/
theorem dc_divappr_q_ok (T C : Nat) (n d : List Nat) (hT : 6 ≤ T) (hC : 3 ≤ C) (hdn : 6 ≤ d.length)
    (hnn : d.length + 3 ≤ n.length) (hnorm : B / 2 ≤ d.getD (d.length - 1) 0) (hn : Limbs n) (hd : Limbs d)
    (hsize : 2 * d.length + 2 ≤ B) :
    DivZ.divapprOk n d (dc_divappr_q true T C n d).1 (dc_divappr_q true T C n d).2.2.1 = true ∧
    (dc_divappr_q true T C n d).2.2.1 ≤ 1 ∧ (dc_divappr_q true T C n d).2.2.2 = true := by
  obtain ⟨n1, n2, _⟩ := DcDiv.norm_val d hd (by omega) hnorm
  obtain ⟨c1, c2, c3, _, c5⟩ := dcDivappr_contract T C n.length d.length (val n) (val d) hT hC hdn hnn n1 n2 (val_lt n hn) hsize
  unfold dc_divappr_q
  simp only []
  obtain ⟨tv, tl, _⟩ := SbDivQ.toLimbs_spec' (n.length - d.length) (dcDivappr true T C sbLeaf n.length d.length (val n) (val d)).q
  rw [Nat.mod_eq_of_lt c2] at tv
  refine ⟨?_, c3, c1⟩
  unfold DivZ.divapprOk
  simp only [tl, tv, beq_self_eq_true, Bool.true_and, Bool.or_eq_true, beq_iff_eq]
  rcases c5 with h | h
  · left; rw [← h]; ring
  · right; rw [← h]; ring

/-- The model of the repaired mpn_dc_divappr_q IS one of the callee oracles over which the mpn_tdiv_q theorems quantify
    (Props/C02_tdivq.lean: `tdiv_q_contract` etc. hold for every callee error e ≤ 3 through `TdivQ.quotOracle e`): on its
    domain its quotient limbs and high limb are `quotOracle e` for some e ≤ 1.  So for the generic-C path through
    mpn_dc_divappr_q the tdiv_q theorems need no assumption about this callee. -/
theorem dc_divappr_q_oracle (T C : Nat) (n d : List Nat) (hT : 6 ≤ T) (hC : 3 ≤ C) (hdn : 6 ≤ d.length)
    (hnn : d.length + 3 ≤ n.length) (hnorm : B / 2 ≤ d.getD (d.length - 1) 0) (hn : Limbs n) (hd : Limbs d)
    (hsize : 2 * d.length + 2 ≤ B) :
    ∃ e, e ≤ 1 ∧ TdivQ.quotOracle e n d = ((dc_divappr_q true T C n d).1, (dc_divappr_q true T C n d).2.2.1) := by
  obtain ⟨n1, n2, _⟩ := DcDiv.norm_val d hd (by omega) hnorm
  obtain ⟨_, c2, _, _, c5⟩ := dcDivappr_contract T C n.length d.length (val n) (val d) hT hC hdn hnn n1 n2 (val_lt n hn) hsize
  obtain ⟨tv, tl, tL⟩ := SbDivQ.toLimbs_spec' (n.length - d.length) (dcDivappr true T C sbLeaf n.length d.length (val n) (val d)).q
  rw [Nat.mod_eq_of_lt c2] at tv
  have hcall : ∀ e, (dcDivappr true T C sbLeaf n.length d.length (val n) (val d)).qh * B ^ (n.length - d.length)
      + (dcDivappr true T C sbLeaf n.length d.length (val n) (val d)).q = val n / val d + e →
      TdivQ.quotOracle e n d = ((dc_divappr_q true T C n d).1, (dc_divappr_q true T C n d).2.2.1) := by
    intro e he
    have e1 : (dc_divappr_q true T C n d).1
        = toLimbs (n.length - d.length) (dcDivappr true T C sbLeaf n.length d.length (val n) (val d)).q := rfl
    have e2 : (dc_divappr_q true T C n d).2.2.1 = (dcDivappr true T C sbLeaf n.length d.length (val n) (val d)).qh := rfl
    rw [e1, e2]
    exact TdivQ.oracle_complete e n d _ _ tL tl (by rw [tv]; exact he)
  rcases c5 with h | h
  · exact ⟨0, by omega, hcall 0 (by rw [h, Nat.add_zero])⟩
  · exact ⟨1, by omega, hcall 1 h⟩

/-- mpn_dc_div_q (qp, np, nn, dp, dn, dinv), dc_div_q.c:31-76, UNCONDITIONALLY for the generic C: with the callee
    mpn_dc_divappr_q (wp, tp, nn + 1, dp, dn, dinv) on tp = N·B as modelled above (repaired C), the result is exactly ⌊N/D⌋.
    Preconditions = the C's ASSERTs (dn ≥ 6, nn - dn ≥ 3, normalised divisor), T ≥ 6, C ≥ 3, sizes mp_size_t. -/
theorem dc_div_q_exact (T C nn dn N D : Nat) (hT : 6 ≤ T) (hC : 3 ≤ C) (hdn : 6 ≤ dn) (hnn : dn + 3 ≤ nn)
    (hnorm : B ^ dn / 2 ≤ D) (hD : D < B ^ dn) (hN : N < B ^ nn) (hsize : 2 * dn + 2 ≤ B) :
    let a := dcDivappr true T C sbLeaf (nn + 1) dn (N * B) D
    let r := DcDiv.dcDivQ nn dn N D a.q a.qh
    a.ok = true ∧ r.2 * B ^ (nn - dn) + r.1 = N / D ∧ r.1 < B ^ (nn - dn) ∧ r.2 ≤ 1 := by
  have hNB : N * B < B ^ (nn + 1) := by
    rw [pow_succ]; exact Nat.mul_lt_mul_of_pos_right hN B_pos
  obtain ⟨c1, c2, c3, _, c5⟩ := dcDivappr_contract T C (nn + 1) dn (N * B) D hT hC hdn (by omega)
    (norm_of_half' (by omega) hnorm) hD hNB hsize
  have e : nn + 1 - dn = nn - dn + 1 := by omega
  rw [e] at c2 c5
  have hD0 : 0 < D := by
    have : 0 < B ^ dn / 2 := by
      have : 2 ≤ B ^ dn := by
        calc 2 ≤ B := by rw [B_eq]; omega
          _ = B ^ 1 := (pow_one B).symm
          _ ≤ B ^ dn := Nat.pow_le_pow_right B_pos (by omega)
      omega
    omega
  obtain ⟨r1, r2, r3⟩ := DcDiv.dcDivQ_spec nn dn N D _ _ (by omega) hD0 hD hN c2 c3 c5
  exact ⟨c1, r1, r2, r3⟩

example :
    let D := B ^ 6 - 1
    let N := (B ^ 3 - 2) * D + 5
    let a := dcDivappr true 6 3 sbLeaf 10 6 (N * B) D
    (DcDiv.dcDivQ 9 6 N D a.q a.qh) = (N / D % B ^ 3, N / D / B ^ 3) := by
  decide +kernel

end Mpir.DcDivappr
