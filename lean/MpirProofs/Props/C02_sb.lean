/-
  C02 (multi-limb layer) — schoolbook division: mpn_sb_div_qr returns the exact Euclidean quotient and
  remainder for ALL lengths (dn ≥ 3, nn ≥ dn) and ALL limb contents with a normalised divisor.
  Property theorems only; helper lemmas live in MpirProofs/Lemmas/SbDiv.lean.
  The theorems are about the executable limb-for-limb model Mpir/Model/SbDiv.lean of mpn/generic/sb_div_qr.c,
  which the correspondence check runs against the real function (op `mpn_sb_div_qr`) on every run.
  Ingredients: udiv_qr_3by2 / invert_pi1 (C02_word), submul_1, add_n, sub_n, cmp (Kernels).
-/
import MpirProofs.Lemmas.SbDiv
namespace Mpir.SbDiv
open Mpir Mpir.DivWord

/-- mpn_sb_div_qr (qp, np, nn, dp, dn, dinv), sb_div_qr.c:36-107.  Preconditions = the C's ASSERTs
    (dn > 2, nn ≥ dn, high bit of dp[dn-1] set) and dinv = mpir_invert_pi1 (dp[dn-1], dp[dn-2]).
    The nn-dn quotient limbs q, the returned high quotient limb qh and the dn limbs r left in np satisfy
    n = (qh·B^(nn-dn) + q)·d + r with r < d; qh is 0 or 1; all outputs are proper limb vectors of the
    documented lengths.  Covers every path: initial compare/subtract, the `n1 == d1 && np[1] == d0` branch
    (q = B-1), the 3/2 estimate with the borrow out of submul_1 / sub_333, and the single add-back. -/
theorem sb_div_qr_val (n d : List Nat) (dinv : Nat) (hdn : 3 ≤ d.length) (hnn : d.length ≤ n.length)
    (hnorm : B / 2 ≤ d.getD (d.length - 1) 0) (hn : Limbs n) (hd : Limbs d)
    (hdinv : dinv = invert_pi1 (d.getD (d.length - 1) 0) (d.getD (d.length - 2) 0)) :
    let (q, r, qh) := sb_div_qr n d dinv
    val n = (qh * B ^ (n.length - d.length) + val q) * val d + val r ∧ val r < val d ∧ qh ≤ 1 ∧
      Limbs q ∧ q.length = n.length - d.length ∧ Limbs r ∧ r.length = d.length := by
  obtain ⟨q, r, qh, e, h⟩ := sb_div_qr_correct n d dinv hdn hnn hnorm hn hd hdinv
  rw [e]; exact h

/-- the same as floor division: qh·B^(nn-dn) + q = ⌊n/d⌋ and r = n mod d -/
theorem sb_div_qr_floor (n d : List Nat) (dinv : Nat) (hdn : 3 ≤ d.length) (hnn : d.length ≤ n.length)
    (hnorm : B / 2 ≤ d.getD (d.length - 1) 0) (hn : Limbs n) (hd : Limbs d)
    (hdinv : dinv = invert_pi1 (d.getD (d.length - 1) 0) (d.getD (d.length - 2) 0)) :
    (sb_div_qr n d dinv).2.2 * B ^ (n.length - d.length) + val (sb_div_qr n d dinv).1 = val n / val d ∧
      val (sb_div_qr n d dinv).2.1 = val n % val d := by
  obtain ⟨q, r, qh, e, h, hr, _⟩ := sb_div_qr_correct n d dinv hdn hnn hnorm hn hd hdinv
  rw [e]
  have := divmod_of_eq (val n) (val d) _ _ h hr
  exact ⟨this.1.symm, this.2.symm⟩

/-- the limb-level model returns exactly the value-level contract `DivZ.mpnDivQr 3 0` (⌊n/d⌋ split into nn-dn limbs
    and qh, n mod d on dn limbs) that the driver's handler compares it with: the handler's `!modelspec` marker is
    unreachable on the domain of the function -/
theorem sb_div_qr_contract (n d : List Nat) (dinv : Nat) (hdn : 3 ≤ d.length) (hnn : d.length ≤ n.length)
    (hnorm : B / 2 ≤ d.getD (d.length - 1) 0) (hn : Limbs n) (hd : Limbs d)
    (hdinv : dinv = invert_pi1 (d.getD (d.length - 1) 0) (d.getD (d.length - 2) 0)) :
    DivZ.mpnDivQr 3 0 n d = some (sb_div_qr n d dinv) := by
  obtain ⟨q, r, qh, e, h, hr, _, hq, hql, hrl, hrn⟩ := sb_div_qr_correct n d dinv hdn hnn hnorm hn hd hdinv
  have hnd : DivZ.normalised d = true := by
    obtain ⟨k, hk⟩ : ∃ k, d.length = k + 2 := ⟨d.length - 2, by omega⟩
    have hsplit := split_top2 d k hk
    rw [hk, show k + 2 - 1 = k + 1 from rfl] at hnorm
    rw [hsplit]; exact normalised_of_top _ _ _ hnorm
  obtain ⟨hQ, hR⟩ := divmod_of_eq (val n) (val d) _ _ h hr
  have hqlt := val_lt q hq
  rw [hql] at hqlt
  have hP : 0 < B ^ (n.length - d.length) := by have := B_pos; positivity
  unfold DivZ.mpnDivQr
  rw [if_neg (by simp [hnd]; omega), e]
  simp only []
  rw [hQ, hR]
  have e1 : toLimbs (n.length - d.length) (qh * B ^ (n.length - d.length) + val q) = q := by
    rw [← hql, Nat.add_comm, Nat.mul_comm]; exact toLimbs_val_add q qh hq
  have e2 : toLimbs d.length (val r) = r := by
    have := toLimbs_val_add r 0 hrl
    rw [Nat.mul_zero, Nat.add_zero, hrn] at this; exact this
  have e3 : (qh * B ^ (n.length - d.length) + val q) / B ^ (n.length - d.length) = qh := by
    rw [Nat.add_comm, Nat.add_mul_div_right _ _ hP, Nat.div_eq_of_lt hqlt, Nat.zero_add]
  rw [e1, e2, e3]

/-! Non-vacuity (values cross-checked with the real function by the directed ops of tools/props/c02_sb.py). -/

-- ordinary step, no correction: the 3/2 estimate is the quotient limb
example : sb_div_qr [0xa, 0xb, 0xc, 0xd] [1, 2, 0x8000000000000003] (invert_pi1 0x8000000000000003 2)
    = ([0x19], [0xfffffffffffffff1, 0xffffffffffffffd8, 0x7fffffffffffffc0], 0) := by decide

-- add-back: the estimate 2^63 is one too large (borrow out of submul_1 exceeds the 3/2 remainder), q-- and d is added back once
example : (udiv_qr_3by2 0x4000000000000000 0 0 0x8000000000000000 0 (invert_pi1 0x8000000000000000 0)).1
      = 0x8000000000000000 ∧
    sb_div_qr [0, 0, 0, 0x4000000000000000] [0xffffffffffffffff, 0, 0x8000000000000000] (invert_pi1 0x8000000000000000 0)
      = ([0x7fffffffffffffff], [0x7fffffffffffffff, 0x8000000000000001, 0x7fffffffffffffff], 0) := by decide

-- the `n1 == d1 && np[1] == d0` branch: q = B-1
example : sb_div_qr [9, 3, 7, 0x8000000000000000] [5, 7, 0x8000000000000000] (invert_pi1 0x8000000000000000 7)
    = ([0xffffffffffffffff], [0xe, 5, 0x8000000000000000], 0) := by decide

-- qh = 1 (initial subtraction) and four loop iterations, dn = 4
example : sb_div_qr [1, 2, 3, 4, 5, 0xffffffffffffffff, 0xffffffffffffffff, 0xffffffffffffffff]
      [0xffffffffffffffff, 0xfffffffffffffffe, 7, 0x8000000000000001] (invert_pi1 0x8000000000000001 7)
    = ([0xa1, 0x72, 0xffffffffffffffe8, 0xfffffffffffffffb],
       [0xa2, 0x115, 0xfffffffffffffb55, 0x7ffffffffffffbb6], 1) := by decide

end Mpir.SbDiv
