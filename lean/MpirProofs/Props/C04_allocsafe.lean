/-
  C04, object-layer memory safety as theorems.  Property theorems only; helper lemmas live in
  MpirProofs/Lemmas/AllocSafe.lean (the core) and MpirProofs/Lemmas/AllocSafeMpz.lean.

  The theorems are about the SIZE-AWARE models of Mpir/Model/AllocSafeMpz.lean (mirror of the allocation
  logic and the write pattern of the C, on the memory model of Mpir/Model/AllocSafe.lean: blocks with
  their allocated length, every load/store checked against it, pointers that dangle after `_mpz_realloc`).
  `<fn>_alloc_safe` says, for all heaps and all variable ids `w u v` (equal ids = the same variable, so
  every alias pattern is an instance) whose objects are well formed (`OWF`: the block has `alloc` limbs,
  |size| ≤ alloc, top limb non-zero — any alloc ≥ |size|):
    * `ok = true`: no load or store outside a block or through a stale pointer,
    * the destination is well formed again, every other variable is untouched,
    * the destination's value-level view equals the existing value-level model (Mpir/Model/Mpz.lean) — hence
      the arithmetic result by the C03/C01 theorems.
  Tied by ops `as_*` (harness/ops_allocsafe.c: the real function on objects of the given allocations; the
  model's `alloc' size' value` compared exactly) and pins on every C file mirrored.
-/
import MpirProofs.Lemmas.AllocSafeMpz
import MpirProofs.Props.C03_mpz
namespace Mpir.AllocSafe
open Mpir

/-- the shape of every `_alloc_safe` statement -/
def Safe (s s' : St) (w : Nat) (m : Mpz.Mpz) : Prop :=
  s'.ok = true ∧ OWF (s'.h w) ∧ (∀ x, x ≠ w → s'.h x = s.h x) ∧ view (s'.h w) = m

theorem Refines.safe {s s' : St} {w : Nat} {m : Mpz.Mpz} (R : Refines s s' w m) (hm : Mpz.WF m) :
    Safe s s' w m :=
  ⟨R.ok, ⟨R.bwf, by rw [R.view]; exact hm⟩, R.frame, R.view⟩

/-- a small heap for the examples: w = 0 (one limb allocated, value 0), u = 1 (B^2 - 1, exact block),
    v = 2 (the value 1) -/
def ex : St := ⟨fun i => if i = 0 then ⟨0, 0, ⟨1, [junk]⟩⟩ else if i = 1 then ⟨2, 0, ⟨2, [B - 1, B - 1]⟩⟩
                 else ⟨1, 0, ⟨1, [1]⟩⟩, true⟩

/-- mpz_add (mpz/aors.h): `MPZ_REALLOC (w, |usize| + 1)` makes room for everything the three cases write,
    for every alias pattern; exact sum. -/
theorem mpz_add_alloc_safe (s : St) (w u v : Nat) (hs : s.ok = true)
    (hw : OWF (s.h w)) (hu : OWF (s.h u)) (hv : OWF (s.h v)) :
    Safe s (mpz_add s w u v) w (Mpz.add (view (s.h w)) (view (s.h u)) (view (s.h v))) ∧
    Mpz.toInt (view ((mpz_add s w u v).h w)) = Mpz.toInt (view (s.h u)) + Mpz.toInt (view (s.h v)) := by
  have R := aors_refines false s w u v hs hw hu hv
  have E := Mpz.mpz_add_exact (view (s.h w)) (view (s.h u)) (view (s.h v)) hu.2 hv.2
  refine ⟨R.safe E.2, ?_⟩
  show Mpz.toInt (view ((aors false 1 false s w u v).h w)) = _
  rw [R.view]; exact E.1

-- non-vacuity: (B^2-1) + 1 carries into a third limb, destination grown 1 → 3; in place (w = u) 2 → 3
example : (mpz_add ex 0 1 2).ok = true ∧ view ((mpz_add ex 0 1 2).h 0) = ⟨3, 3, [0, 0, 1]⟩ := by decide
example : (mpz_add ex 1 1 2).ok = true ∧ view ((mpz_add ex 1 1 2).h 1) = ⟨3, 3, [0, 0, 1]⟩ := by decide
-- negative: `MPZ_REALLOC (w, usize)` without the +1 — the carry store `wp[abs_usize] = cy` is outside the block
example : (aors false 0 false ex 0 1 2).ok = false := by decide
-- negative: `up = PTR (u)` read BEFORE the realloc (aors.h:70 "These must be after realloc"), w = u: stale pointer
example : (aors true 1 false ex 1 1 2).ok = false := by decide
-- … and the same wrong variant is harmless when nothing has to grow or nothing is aliased
example : (aors true 1 false ex 0 1 2).ok = true := by decide

/-- mpz_sub (mpz/aors.h with VARIATION = -). -/
theorem mpz_sub_alloc_safe (s : St) (w u v : Nat) (hs : s.ok = true)
    (hw : OWF (s.h w)) (hu : OWF (s.h u)) (hv : OWF (s.h v)) :
    Safe s (mpz_sub s w u v) w (Mpz.sub (view (s.h w)) (view (s.h u)) (view (s.h v))) ∧
    Mpz.toInt (view ((mpz_sub s w u v).h w)) = Mpz.toInt (view (s.h u)) - Mpz.toInt (view (s.h v)) := by
  have R := aors_refines true s w u v hs hw hu hv
  have E := Mpz.mpz_sub_exact (view (s.h w)) (view (s.h u)) (view (s.h v)) hu.2 hv.2
  refine ⟨R.safe E.2, ?_⟩
  show Mpz.toInt (view ((aors false 1 true s w u v).h w)) = _
  rw [R.view]; exact E.1

-- 1 - (B^2-1) = -(B^2-2): two limbs into a one-limb destination; u - u = 0 in place
example : (mpz_sub ex 0 2 1).ok = true ∧ view ((mpz_sub ex 0 2 1).h 0) = ⟨3, -2, [B - 2, B - 1]⟩ := by decide
example : (mpz_sub ex 1 1 1).ok = true ∧ view ((mpz_sub ex 1 1 1).h 1) = ⟨3, 0, []⟩ := by decide

/-- mpz_add_ui (mpz/aors_ui.h): `MPZ_REALLOC (w, |usize| + 1)` covers the carry store, the one-limb cases and
    `wp[abs_usize - 1]`; exact sum. -/
theorem mpz_add_ui_alloc_safe (s : St) (w u : Nat) (v : Nat) (hs : s.ok = true)
    (hw : OWF (s.h w)) (hu : OWF (s.h u)) (hv : v < B) :
    Safe s (mpz_add_ui s w u v) w (Mpz.add_ui (view (s.h w)) (view (s.h u)) v) ∧
    Mpz.toInt (view ((mpz_add_ui s w u v).h w)) = Mpz.toInt (view (s.h u)) + (v : Int) := by
  have R := aors_ui_refines false s w u v hs hw hu hv
  have E := Mpz.mpz_add_ui_exact (view (s.h w)) (view (s.h u)) v hu.2 hv
  refine ⟨R.safe E.2, ?_⟩
  show Mpz.toInt (view ((aors_ui 1 false s w u v).h w)) = _
  rw [R.view]; exact E.1

-- (B^2-1) + 1 in place: block grown 2 → 3, carry limb stored at index 2
example : (mpz_add_ui ex 1 1 1).ok = true ∧ view ((mpz_add_ui ex 1 1 1).h 1) = ⟨3, 3, [0, 0, 1]⟩ := by decide
-- negative: `MPZ_REALLOC (w, abs_usize)` — the carry store falls outside
example : (aors_ui 0 false ex 1 1 1).ok = false := by decide

/-- mpz_sub_ui (mpz/aors_ui.h). -/
theorem mpz_sub_ui_alloc_safe (s : St) (w u : Nat) (v : Nat) (hs : s.ok = true)
    (hw : OWF (s.h w)) (hu : OWF (s.h u)) (hv : v < B) :
    Safe s (mpz_sub_ui s w u v) w (Mpz.sub_ui (view (s.h w)) (view (s.h u)) v) ∧
    Mpz.toInt (view ((mpz_sub_ui s w u v).h w)) = Mpz.toInt (view (s.h u)) - (v : Int) := by
  have R := aors_ui_refines true s w u v hs hw hu hv
  have E := Mpz.mpz_sub_ui_exact (view (s.h w)) (view (s.h u)) v hu.2 hv
  refine ⟨R.safe E.2, ?_⟩
  show Mpz.toInt (view ((aors_ui 1 true s w u v).h w)) = _
  rw [R.view]; exact E.1

-- 1 - 5 = -4 (the `abs_usize == 1 && up[0] < vval` case); 0 - 7 into the one-limb destination
example : (mpz_sub_ui ex 0 2 5).ok = true ∧ view ((mpz_sub_ui ex 0 2 5).h 0) = ⟨2, -1, [4]⟩ := by decide
example : (mpz_sub_ui ex 0 0 7).ok = true ∧ view ((mpz_sub_ui ex 0 0 7).h 0) = ⟨1, -1, [7]⟩ := by decide

/-- mpz_set (mpz/set.c). -/
theorem mpz_set_alloc_safe (s : St) (w u : Nat) (hs : s.ok = true) (hw : OWF (s.h w)) (hu : OWF (s.h u)) :
    Safe s (mpz_set s w u) w (Mpz.set (view (s.h w)) (view (s.h u))) ∧
    Mpz.toInt (view ((mpz_set s w u).h w)) = Mpz.toInt (view (s.h u)) := by
  have R := set_refines s w u hs hw hu
  have E := Mpz.mpz_set_exact (view (s.h w)) (view (s.h u)) hw.2.1 hu.2
  exact ⟨R.safe E.2, by rw [R.view]; exact E.1⟩

example : (mpz_set ex 0 1).ok = true ∧ view ((mpz_set ex 0 1).h 0) = ⟨2, 2, [B - 1, B - 1]⟩ := by decide

/-- mpz_neg (mpz/neg.c): `u != w` is the comparison of the variables. -/
theorem mpz_neg_alloc_safe (s : St) (w u : Nat) (hs : s.ok = true) (hw : OWF (s.h w)) (hu : OWF (s.h u)) :
    Safe s (mpz_neg s w u) w (Mpz.neg (decide (u = w)) (view (s.h w)) (view (s.h u))) ∧
    Mpz.toInt (view ((mpz_neg s w u).h w)) = -Mpz.toInt (view (s.h u)) := by
  have R := neg_refines s w u hs hw hu
  have E := Mpz.mpz_neg_exact (decide (u = w)) (view (s.h w)) (view (s.h u)) hw.2.1 hu.2
    (by intro h; have : u = w := by simpa using h
        rw [this])
  exact ⟨R.safe E.2, by rw [R.view]; exact E.1⟩

example : (mpz_neg ex 0 1).ok = true ∧ view ((mpz_neg ex 0 1).h 0) = ⟨2, -2, [B - 1, B - 1]⟩ := by decide
example : (mpz_neg ex 1 1).ok = true ∧ view ((mpz_neg ex 1 1).h 1) = ⟨2, -2, [B - 1, B - 1]⟩ := by decide

/-- mpz_abs (mpz/abs.c). -/
theorem mpz_abs_alloc_safe (s : St) (w u : Nat) (hs : s.ok = true) (hw : OWF (s.h w)) (hu : OWF (s.h u)) :
    Safe s (mpz_abs s w u) w (Mpz.abs (decide (u = w)) (view (s.h w)) (view (s.h u))) ∧
    Mpz.toInt (view ((mpz_abs s w u).h w)) = ((Mpz.toInt (view (s.h u))).natAbs : Int) := by
  have R := abs_refines s w u hs hw hu
  have E := Mpz.mpz_abs_exact (decide (u = w)) (view (s.h w)) (view (s.h u)) hw.2.1 hu.2
    (by intro h; have : u = w := by simpa using h
        rw [this])
  exact ⟨R.safe E.2, by rw [R.view]; exact E.1⟩

example : (mpz_abs ex 0 1).ok = true ∧ view ((mpz_abs ex 0 1).h 0) = ⟨2, 2, [B - 1, B - 1]⟩ := by decide

/-- mpz_set_ui (mpz/set_ui.c): the store `dest->_mp_d[0] = val` is not preceded by any realloc; it is safe
    because a well-formed object has at least one limb ("never allocate zero space", realloc.c:31). -/
theorem mpz_set_ui_alloc_safe (s : St) (w : Nat) (val : Nat) (hs : s.ok = true) (hw : OWF (s.h w)) (hv : val < B) :
    Safe s (mpz_set_ui s w val) w ⟨(s.h w).buf.alloc, (if val != 0 then 1 else 0 : Nat), [val].take (if val != 0 then 1 else 0)⟩ ∧
    Mpz.toInt (view ((mpz_set_ui s w val).h w)) = (val : Int) := by
  have R := set1_refines s w val false hs hw.1 hw.2.1 hv
  have hm : Mpz.WF ⟨(s.h w).buf.alloc, Mpz.sgn false (if val != 0 then 1 else 0), [val].take (if val != 0 then 1 else 0)⟩ := by
    have h1 : 1 ≤ (s.h w).buf.alloc := hw.2.1
    by_cases h : val = 0
    · subst h; exact ⟨h1, by simp [Mpz.sgn], by simp [Mpz.sgn], by simp [Limbs], by simp⟩
    · have : (val != 0) = true := by simpa using h
      simp only [this, if_true, Mpz.sgn]
      exact ⟨h1, by simpa using h1, by simp, by simp [Limbs, hv], by simp [h]⟩
  have S := R.safe hm
  refine ⟨by simpa [mpz_set_ui, Mpz.sgn] using S, ?_⟩
  show Mpz.toInt (view (((s.store (s.PTR w) 0 val).setSize w _).h w)) = _
  have := R.view
  simp only [Mpz.sgn, Bool.false_eq_true, if_false] at this
  rw [this]
  by_cases h : val = 0
  · subst h; simp [Mpz.toInt]
  · have : (val != 0) = true := by simpa using h
    simp [this, Mpz.toInt]

-- a one-limb destination that held a two-limb-allocated value; and the WRONG world: a zero-limb block
example : (mpz_set_ui ex 1 5).ok = true ∧ view ((mpz_set_ui ex 1 5).h 1) = ⟨2, 1, [5]⟩ := by decide
example : (mpz_set_ui ⟨fun _ => ⟨0, 0, ⟨0, []⟩⟩, true⟩ 0 5).ok = false := by decide

/-- mpz_set_si (mpz/set_si.c), `val` in the range of `long`. -/
theorem mpz_set_si_alloc_safe (s : St) (w : Nat) (val : Int) (hs : s.ok = true) (hw : OWF (s.h w))
    (hv : val.natAbs < B) :
    Safe s (mpz_set_si s w val) w
      ⟨(s.h w).buf.alloc, Mpz.sgn (decide (val < 0)) (if val.natAbs != 0 then 1 else 0),
        [val.natAbs].take (if val.natAbs != 0 then 1 else 0)⟩ ∧
    Mpz.toInt (view ((mpz_set_si s w val).h w)) = val := by
  have hmod : val.natAbs % B = val.natAbs := Nat.mod_eq_of_lt hv
  have R := set1_refines s w val.natAbs (decide (val < 0)) hs hw.1 hw.2.1 hv
  have h1 : 1 ≤ (s.h w).buf.alloc := hw.2.1
  have hm : Mpz.WF ⟨(s.h w).buf.alloc, Mpz.sgn (decide (val < 0)) (if val.natAbs != 0 then 1 else 0),
      [val.natAbs].take (if val.natAbs != 0 then 1 else 0)⟩ := by
    by_cases h : val.natAbs = 0
    · simp only [h]; exact ⟨h1, by simp [Mpz.sgn], by simp [Mpz.sgn], by simp [Limbs], by simp⟩
    · have : (val.natAbs != 0) = true := by simpa using h
      simp only [this, if_true]
      exact ⟨h1, by rw [Mpz.natAbs_sgn]; exact h1, by simp [Mpz.natAbs_sgn], by simp [Limbs, hv], by simpa using h⟩
  have S := R.safe hm
  refine ⟨by simpa [mpz_set_si, hmod] using S, ?_⟩
  have e : mpz_set_si s w val = (s.store (s.PTR w) 0 val.natAbs).setSize w
      (Mpz.sgn (decide (val < 0)) (if val.natAbs != 0 then 1 else 0)) := by simp [mpz_set_si, hmod]
  rw [e, R.view]
  by_cases h : val.natAbs = 0
  · have : val = 0 := Int.natAbs_eq_zero.mp h
    subst this; simp [Mpz.toInt, Mpz.sgn]
  · have h' : (val.natAbs != 0) = true := by simpa using h
    simp only [h', if_true, Mpz.toInt, Mpz.sgn]
    by_cases hn : val < 0
    · simp [hn]; rw [abs_of_neg hn]; omega
    · simp [hn]; omega

example : view ((mpz_set_si ex 1 (-5)).h 1) = ⟨2, -1, [5]⟩ ∧ (mpz_set_si ex 1 (-5)).ok = true := by decide

/-- mpz_mul_2exp (mpz/mul_2exp.c): `MPZ_REALLOC (w, |usize| + limb_cnt + 1)` covers the shifted limbs written at
    `wp + limb_cnt`, the limb shifted out stored at `wp[|usize| + limb_cnt]`, and the zeroed low limbs — also in
    place (`MPN_ZERO` after the shift, "not to lose for U == W"); exact product. -/
theorem mpz_mul_2exp_alloc_safe (s : St) (w u : Nat) (cnt : Nat) (hs : s.ok = true)
    (hw : OWF (s.h w)) (hu : OWF (s.h u)) :
    Safe s (mpz_mul_2exp s w u cnt) w (Mpz.mul_2exp (view (s.h w)) (view (s.h u)) cnt) ∧
    Mpz.toInt (view ((mpz_mul_2exp s w u cnt).h w)) = Mpz.toInt (view (s.h u)) * 2 ^ cnt := by
  have R := mul_2exp_refines s w u cnt hs hw hu
  have E := Mpz.mpz_mul_2exp_exact (view (s.h w)) (view (s.h u)) cnt hw.2.1 hu.2
  refine ⟨R.safe E.2, ?_⟩
  show Mpz.toInt (view ((mul_2exp 1 s w u cnt).h w)) = _
  rw [R.view]; exact E.1

-- (B^2-1) << 65 in place: block grown 2 → 4, one zero limb below, the bit shifted out in a new top limb
example : (mpz_mul_2exp ex 1 1 65).ok = true ∧
    view ((mpz_mul_2exp ex 1 1 65).h 1) = ⟨4, 4, [0, B - 2, B - 1, 1]⟩ := by decide
-- negative: `wsize = abs_usize + limb_cnt` without the +1 — `wp[wsize] = wlimb` is outside the block
example : (mul_2exp 0 ex 1 1 65).ok = false := by decide
-- … which goes unnoticed whenever no bit is shifted out of the top limb
example : (mul_2exp 0 ex 0 2 65).ok = true := by decide

/-- mpz_com (mpz/com.c), PARTIAL.  Proved: no bad access for every alias pattern and allocation (`size + 1` limbs
    cover the carry store of the non-negative case, `size` limbs the negative case incl. the read of
    `dst_ptr[size - 1]`), nothing else touched, and the destination equals the list-level result `Spec.com`
    (Mpir/Model/AllocSafeMpz.lean).  Full statement:
      `Safe s (mpz_com s w u) w (Spec.com (view (s.h w)) (view (s.h u))) ∧ toInt (view ((mpz_com s w u).h w)) = -toInt (view (s.h u)) - 1`;
    missing: `Mpz.WF (Spec.com ..)` (top limb non-zero after the carry / the strip) and the value identity — both are
    statements about `Spec.com` alone (C10 proves them for the sign-magnitude model Mpir.Bits.mpz_com, which carries no alloc). -/
theorem mpz_com_alloc_safe_partial (s : St) (w u : Nat) (hs : s.ok = true) (hw : OWF (s.h w)) (hu : OWF (s.h u)) :
    (mpz_com s w u).ok = true ∧ BWF ((mpz_com s w u).h w).buf ∧ (∀ x, x ≠ w → (mpz_com s w u).h x = s.h x) ∧
    view ((mpz_com s w u).h w) = Spec.com (view (s.h w)) (view (s.h u)) := by
  have R := com_refines s w u hs hw hu
  exact ⟨R.ok, R.bwf, R.frame, R.view⟩

-- ~(B^2-1) = -B^2 in place: three limbs in a block grown 2 → 3; ~0 = -1 into the one-limb destination
example : (mpz_com ex 1 1).ok = true ∧ view ((mpz_com ex 1 1).h 1) = ⟨3, -3, [0, 0, 1]⟩ := by decide
example : (mpz_com ex 0 0).ok = true ∧ view ((mpz_com ex 0 0).h 0) = ⟨1, -1, [1]⟩ := by decide
-- negative: `_mpz_realloc (dst, size)` without the +1
example : (com 0 ex 1 1).ok = false := by decide

/-- mpz_tdiv_q_2exp (mpz/tdiv_q_2exp.c), PARTIAL.  Proved: no bad access (the source is read at
    `up + limb_cnt` for `wsize = |usize| - limb_cnt` limbs — inside the operand; `wp[wsize - 1]` is inside what was
    just written), nothing else touched, destination = the list-level result `Spec.tdiv_q_2exp`.  Full statement adds
    `Mpz.WF (Spec.tdiv_q_2exp ..)` and `toInt = Int.tdiv (toInt u) (2 ^ cnt)`; missing: the value identity of
    `mpn_rshift` on the dropped limbs composed with the strip (C02 proves the quotient for the Int-level model DivZ.tdiv_q_2exp). -/
theorem mpz_tdiv_q_2exp_alloc_safe_partial (s : St) (w u : Nat) (cnt : Nat) (hs : s.ok = true)
    (hw : OWF (s.h w)) (hu : OWF (s.h u)) :
    (mpz_tdiv_q_2exp s w u cnt).ok = true ∧ BWF ((mpz_tdiv_q_2exp s w u cnt).h w).buf ∧
    (∀ x, x ≠ w → (mpz_tdiv_q_2exp s w u cnt).h x = s.h x) ∧
    view ((mpz_tdiv_q_2exp s w u cnt).h w) = Spec.tdiv_q_2exp (view (s.h w)) (view (s.h u)) cnt := by
  have R := tdiv_q_2exp_refines s w u cnt hs hw hu
  exact ⟨R.ok, R.bwf, R.frame, R.view⟩

-- (B^2-1) >> 65 = 2^63 - 1 into the one-limb destination, and in place
example : (mpz_tdiv_q_2exp ex 0 1 65).ok = true ∧ view ((mpz_tdiv_q_2exp ex 0 1 65).h 0) = ⟨1, 1, [2 ^ 63 - 1]⟩ := by decide
example : (mpz_tdiv_q_2exp ex 1 1 64).ok = true ∧ view ((mpz_tdiv_q_2exp ex 1 1 64).h 1) = ⟨2, 1, [B - 1]⟩ := by decide

end Mpir.AllocSafe
