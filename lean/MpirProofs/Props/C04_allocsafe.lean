/-
  C04, object-layer memory safety as theorems.  Property theorems only; helper lemmas live in
  MpirProofs/Lemmas/AllocSafe.lean (the core) and MpirProofs/Lemmas/AllocSafeMpz.lean.

  The theorems are about the SIZE-AWARE models of Mpir/Model/AllocSafeMpz.lean (mirror of the allocation
  logic and the write pattern of the C, on the memory model of Mpir/Model/AllocSafe.lean: blocks with
  their allocated length, every load/store checked against it, pointers that dangle after `_mpz_realloc`).
  `<fn>_alloc_safe` says, for all heaps and all variable ids `w u v` (equal ids = the same variable, so
  every alias pattern is an instance) whose objects are well formed (`OWF`: the block has `alloc` limbs,
  |size| ≤ alloc, top limb non-zero — any alloc ≥ |size|):
    * `ok = true`: no load or store outside a block or through a stale pointer,
    * the destination is well formed again, every other variable is untouched,
    * the destination's value-level view equals the existing value-level model (Mpir/Model/Mpz.lean) — hence
      the arithmetic result by the C03/C01 theorems.
  Tied by ops `as_*` (harness/ops_allocsafe.c: the real function on objects of the given allocations; the
  model's `alloc' size' value` compared exactly) and pins on every C file mirrored.
-/
import MpirProofs.Lemmas.AllocSafeMpz
import MpirProofs.Props.C03_mpz
namespace Mpir.AllocSafe
open Mpir

/-- the shape of every `_alloc_safe` statement -/
def Safe (s s' : St) (w : Nat) (m : Mpz.Mpz) : Prop :=
  s'.ok = true ∧ OWF (s'.h w) ∧ (∀ x, x ≠ w → s'.h x = s.h x) ∧ view (s'.h w) = m

theorem Refines.safe {s s' : St} {w : Nat} {m : Mpz.Mpz} (R : Refines s s' w m) (hm : Mpz.WF m) :
    Safe s s' w m :=
  ⟨R.ok, ⟨R.bwf, by rw [R.view]; exact hm⟩, R.frame, R.view⟩

/-- a small heap for the examples: w = 0 (one limb allocated, value 0), u = 1 (B^2 - 1, exact block),
    v = 2 (the value 1) -/
def ex : St := ⟨fun i => if i = 0 then ⟨0, 0, ⟨1, [junk]⟩⟩ else if i = 1 then ⟨2, 0, ⟨2, [B - 1, B - 1]⟩⟩
                 else ⟨1, 0, ⟨1, [1]⟩⟩, true⟩

/-- mpz_add (mpz/aors.h): `MPZ_REALLOC (w, |usize| + 1)` makes room for everything the three cases write,
    for every alias pattern; exact sum. -/
theorem mpz_add_alloc_safe (s : St) (w u v : Nat) (hs : s.ok = true)
    (hw : OWF (s.h w)) (hu : OWF (s.h u)) (hv : OWF (s.h v)) :
    Safe s (mpz_add s w u v) w (Mpz.add (view (s.h w)) (view (s.h u)) (view (s.h v))) ∧
    Mpz.toInt (view ((mpz_add s w u v).h w)) = Mpz.toInt (view (s.h u)) + Mpz.toInt (view (s.h v)) := by
  have R := aors_refines false s w u v hs hw hu hv
  have E := Mpz.mpz_add_exact (view (s.h w)) (view (s.h u)) (view (s.h v)) hu.2 hv.2
  refine ⟨R.safe E.2, ?_⟩
  show Mpz.toInt (view ((aors false 1 false s w u v).h w)) = _
  rw [R.view]; exact E.1

-- non-vacuity: (B^2-1) + 1 carries into a third limb, destination grown 1 → 3; in place (w = u) 2 → 3
example : (mpz_add ex 0 1 2).ok = true ∧ view ((mpz_add ex 0 1 2).h 0) = ⟨3, 3, [0, 0, 1]⟩ := by decide
example : (mpz_add ex 1 1 2).ok = true ∧ view ((mpz_add ex 1 1 2).h 1) = ⟨3, 3, [0, 0, 1]⟩ := by decide
-- negative: `MPZ_REALLOC (w, usize)` without the +1 — the carry store `wp[abs_usize] = cy` is outside the block
example : (aors false 0 false ex 0 1 2).ok = false := by decide
-- negative: `up = PTR (u)` read BEFORE the realloc (aors.h:70 "These must be after realloc"), w = u: stale pointer
example : (aors true 1 false ex 1 1 2).ok = false := by decide
-- … and the same wrong variant is harmless when nothing has to grow or nothing is aliased
example : (aors true 1 false ex 0 1 2).ok = true := by decide

/-- mpz_sub (mpz/aors.h with VARIATION = -). -/
theorem mpz_sub_alloc_safe (s : St) (w u v : Nat) (hs : s.ok = true)
    (hw : OWF (s.h w)) (hu : OWF (s.h u)) (hv : OWF (s.h v)) :
    Safe s (mpz_sub s w u v) w (Mpz.sub (view (s.h w)) (view (s.h u)) (view (s.h v))) ∧
    Mpz.toInt (view ((mpz_sub s w u v).h w)) = Mpz.toInt (view (s.h u)) - Mpz.toInt (view (s.h v)) := by
  have R := aors_refines true s w u v hs hw hu hv
  have E := Mpz.mpz_sub_exact (view (s.h w)) (view (s.h u)) (view (s.h v)) hu.2 hv.2
  refine ⟨R.safe E.2, ?_⟩
  show Mpz.toInt (view ((aors false 1 true s w u v).h w)) = _
  rw [R.view]; exact E.1

-- 1 - (B^2-1) = -(B^2-2): two limbs into a one-limb destination; u - u = 0 in place
example : (mpz_sub ex 0 2 1).ok = true ∧ view ((mpz_sub ex 0 2 1).h 0) = ⟨3, -2, [B - 2, B - 1]⟩ := by decide
example : (mpz_sub ex 1 1 1).ok = true ∧ view ((mpz_sub ex 1 1 1).h 1) = ⟨3, 0, []⟩ := by decide

end Mpir.AllocSafe
