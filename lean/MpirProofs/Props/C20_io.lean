/-
  C20 (part c20_cxxio) — stream insertion / extraction of the C++ interface.
  Property theorems only; helper lemmas live in MpirProofs/Lemmas/CxxIo.lean.  Every theorem is about the executable
  model in Mpir/Model/CxxIo.lean (a statement-by-statement mirror of cxx/is*.cc and cxx/os*.cc over a model of
  std::istringstream / std::ostringstream), which the correspondence run executes against the real operators
  (tools/cxxio_driver.cc) on every check.
-/
import MpirProofs.Lemmas.CxxIo
namespace Mpir.CxxIo
open Mpir.Printf

/-! ## (a) insertion -/

/-- `insertZ_layout`: `o << z` for every stream state, every combination of flags, every width (also negative), every fill
    character and every integer: the width is reset to 0 and what is handed to `o.write` is
    [padding] sign prefix [padding] digits [padding], with
      sign   = "-" for z < 0, "+" under showpos, else nothing;
      prefix = "0x"/"0X" under showbase on a hex stream (also for 0), "0" under showbase on an octal stream for z ≠ 0;
      digits = |z| in base 16 / 8 when exactly that basefield bit is set, else base 10 (more than one bit = decimal),
               upper case on a hex stream with `uppercase`;
      padding = width − length fill characters, after the digits under `left`, between prefix and digits under `internal`
               (each alone in adjustfield), before the sign otherwise.
    Every byte of it is written, also NUL fill characters (since /repo 2def0d3; before, gmp_allocated_string took strlen
    of the formatted text, a NUL fill character truncated the output and the buffer was freed with the wrong size).
    A stream that is not good() receives nothing (`OStream.write`). -/
theorem insertZ_layout (o : OStream) (z : Int) :
    insertZ o z = ({ o with width := 0 } : OStream).write (fieldLayout o.fmt o.width o.fill
        (signStr o.fmt (decide (z < 0))) (prefixStr o.fmt (decide (z = 0)))
        (natDigits o.fmt.outBase o.fmt.outUpper z.natAbs)) :=
  insertZ_eq o z

-- non-vacuity: internal adjustment with showbase, negative number, '*' fill; octal zero; two basefield bits = decimal
example : (insertZ { fmt := { dec := false, hex := true, showbase := true, internal := true }, width := 10, fill := '*' } (-255)).out = "-0x*****ff".toList ∧
    (insertZ { fmt := { dec := false, oct := true, showbase := true, showpos := true, left := true }, width := 4, fill := '.' } 0).out = "+0..".toList ∧
    (insertZ { fmt := { dec := true, hex := true, showbase := true, uppercase := true } } 255).out = "255".toList ∧
    (insertZ { fmt := { dec := false, hex := true, showbase := true, uppercase := true } } 255).out = "0XFF".toList := by
  decide +kernel
-- a NUL fill character is written like any other (it used to truncate the output: nothing at all under right adjustment)
example : (insertZ { width := 5, fill := '\x00' } 7).out = ['\x00', '\x00', '\x00', '\x00', '7'] ∧
    (insertZ { width := 5, fill := '\x00', fmt := { left := true } } 7).out = ['7', '\x00', '\x00', '\x00', '\x00'] := by
  decide +kernel

/-- `insertQ_layout`: `o << q` for a rational with positive denominator: as `insertZ_layout` for the numerator, the
    digits being followed, unless the denominator is 1, by "/" and the denominator with a base prefix of its own;
    the padding counts the whole text and `internal` padding goes after the numerator's prefix. -/
theorem insertQ_layout (o : OStream) (n d : Int) (hd : 0 < d) :
    insertQ o n d = ({ o with width := 0 } : OStream).write (fieldLayout o.fmt o.width o.fill
        (signStr o.fmt (decide (n < 0))) (prefixStr o.fmt (decide (n = 0)))
        (natDigits o.fmt.outBase o.fmt.outUpper n.natAbs ++
          (if d = 1 then [] else '/' :: (prefixStr o.fmt false ++ natDigits o.fmt.outBase o.fmt.outUpper d.natAbs)))) :=
  insertQ_eq o n d hd

example : (insertQ { fmt := { dec := false, hex := true, showbase := true, internal := true }, width := 14, fill := '_' } (-255) 16).out = "-0x____ff/0x10".toList ∧
    (insertQ { fmt := { dec := false, oct := true, showbase := true } } 0 8).out = "0/010".toList ∧
    (insertQ { fmt := { showpos := true } } 5 1).out = "+5".toList := by
  decide +kernel

/-- `insert_width_reset`: after `o << x` (mpz, mpq, mpf) the stream's width is 0, whatever its state was, and nothing
    else of the formatting state changes. -/
theorem insert_width_reset (o : OStream) (z n d : Int) (fprec : Nat) (neg : Bool) (limbs : List Nat) (fexp : Int) :
    (insertZ o z).width = 0 ∧ (insertQ o n d).width = 0 ∧ (∀ r, insertF o fprec neg limbs fexp = some r → r.width = 0) ∧
    (insertZ o z).fmt = o.fmt ∧ (insertZ o z).fill = o.fill ∧ (insertZ o z).precision = o.precision ∧
    (insertQ o n d).fmt = o.fmt ∧ (insertQ o n d).fill = o.fill ∧ (insertQ o n d).precision = o.precision := by
  have hw : ∀ (o' : OStream) (t : List Char), (o'.write t).width = o'.width ∧ (o'.write t).fmt = o'.fmt ∧
      (o'.write t).fill = o'.fill ∧ (o'.write t).precision = o'.precision := by
    intro o' t; unfold OStream.write; split_ifs <;> simp
  refine ⟨?_, ?_, ?_, ?_, ?_, ?_, ?_, ?_, ?_⟩
  · exact (hw _ _).1
  · exact (hw _ _).1
  · intro r hr
    unfold insertF at hr
    simp only at hr
    split_ifs at hr
    cases hr
    exact (hw _ _).1
  · exact (hw _ _).2.1
  · exact (hw _ _).2.2.1
  · exact (hw _ _).2.2.2
  · exact (hw _ _).2.1
  · exact (hw _ _).2.2.1
  · exact (hw _ _).2.2.2

example : (insertZ { width := 12 } 5).width = 0 ∧ (insertZ { width := 12, fail := true } 5).width = 0 ∧
    (insertZ { width := 12, fail := true } 5).out = [] := by decide +kernel

/-! ## (b) extraction -/

/-- `extractZ_spec`: `i >> z` on a good stream over the text `t`, for every setting of basefield and skipws, is the
    grammar `specZ`: white space (under skipws), an optional sign, then — in the base basefield names, or with 0x/0X
    (hex) and 0 (octal) prefixes detected when basefield has no single bit — the LONGEST run of digits of that base
    (`List.takeWhile`).  Exactly those characters stay consumed (`after`: the character that stopped the scan is put
    back; `done`/`rest` always recompose the text), the value is that of the digit string, failbit is set exactly when
    there was no digit (eofbit with it if the text ended there); after a successful read the state is good() even at
    the end of the text (the code clears eofbit). -/
theorem extractZ_spec (f : Fmt) (t : List Char) : extractZ (mkG t [] f) = specZ f t := by
  rw [extractZ_at f t []]; simp [specZ]

-- non-vacuity: one character put back; "0x" alone consumes both characters and fails; octal zero; "-" alone
example : extractZ (mkG "  -0x1Fg".toList [] { dec := false }) =
    ({ rest := ['g'], done := "  -0x1F".toList.reverse, fmt := { dec := false } }, .value (-31)) := by decide +kernel
example : (extractZ (mkG "0x".toList [] { dec := false })).2 = .unchanged ∧ (extractZ (mkG "0x".toList [] { dec := false })).1.pos = 2 ∧
    (extractZ (mkG "0x".toList [] { dec := false })).1.eof = true ∧ (extractZ (mkG "0x".toList [] { dec := false })).1.fail = true := by
  decide +kernel
example : extractZ (mkG "08".toList [] { dec := false }) = ({ rest := ['8'], done := ['0'], fmt := { dec := false } }, .value 0) := by
  decide +kernel
example : (extractZ (mkG "-".toList [] {})).2 = .unchanged ∧ (extractZ (mkG " 12".toList [] { skipws := false })).1.pos = 0 := by
  decide +kernel
-- a hex stream does not take the 0x prefix: it reads the 0 and stops at the x
example : extractZ (mkG "0x1f".toList [] { dec := false, hex := true }) =
    ({ rest := "x1f".toList, done := ['0'], fmt := { dec := false, hex := true } }, .value 0) := by decide +kernel

theorem numSpec_props (f : Fmt) (u : List Char) :
    ((numSpec f u).fail = true ↔ (numSpec f u).val = .unchanged) ∧ (numSpec f u).val ≠ .invalid ∧
    ((numSpec f u).fail = false → (numSpec f u).eof = false) ∧ (numSpec f u).n ≤ u.length := by
  have hd : ∀ b neg pre zero (t : List Char), ((digitsPart b neg pre zero t).fail = true ↔ (digitsPart b neg pre zero t).val = .unchanged) ∧
      (digitsPart b neg pre zero t).val ≠ .invalid ∧ (digitsPart b neg pre zero t).n ≤ pre + t.length := by
    intro b neg pre zero t
    have hl := length_takeWhile_le' (digitTest b) t
    unfold digitsPart
    simp only
    split_ifs <;> simp <;> omega
  have hb : ∀ neg k (u : List Char), ((bodySpec f neg k u).fail = true ↔ (bodySpec f neg k u).val = .unchanged) ∧
      (bodySpec f neg k u).val ≠ .invalid ∧ (bodySpec f neg k u).n ≤ k + u.length := by
    intro neg k u
    unfold bodySpec
    split
    · exact hd _ _ _ _ _
    · split
      · have := hd 16 neg (k + 2) false ‹_›; exact ⟨this.1, this.2.1, by simp only [List.length_cons]; omega⟩
      · have := hd 16 neg (k + 2) false ‹_›; exact ⟨this.1, this.2.1, by simp only [List.length_cons]; omega⟩
      · have := hd 8 neg (k + 1) true ‹_›; exact ⟨this.1, this.2.1, by simp only [List.length_cons]; omega⟩
      · exact hd _ _ _ _ _
  refine ⟨?_, ?_, numSpec_eof_fail f u, ?_⟩
  · unfold numSpec; split <;> exact (hb _ _ _).1
  · unfold numSpec; split <;> exact (hb _ _ _).2.1
  · unfold numSpec
    split
    · have := (hb true 1 ‹_›).2.2; simp only [List.length_cons]; omega
    · have := (hb false 1 ‹_›).2.2; simp only [List.length_cons]; omega
    · have := (hb false 0 u).2.2; omega

/-- `extractZ_props`: for every text, basefield and skipws setting: no character is lost or invented (characters read
    and characters left recompose the text), badbit is never set, failbit is set iff nothing was stored, the string
    handed to mpz_set_str is never refused (the ASSERT_NOCARRY cannot fire), and a successful read leaves the
    stream good(). -/
theorem extractZ_props (f : Fmt) (t : List Char) :
    let r := extractZ (mkG t [] f)
    r.1.text = t ∧ r.1.bad = false ∧ (r.1.fail = true ↔ r.2 = .unchanged) ∧ r.2 ≠ .invalid ∧
    (r.1.fail = false → r.1.good = true) := by
  have hp := numSpec_props f (t.drop (wsPrefix f t).length)
  rw [extractZ_at f t []]
  refine ⟨?_, rfl, hp.1, hp.2.1, ?_⟩
  · have hw : wsPrefix f t = t.take (wsPrefix f t).length := by
      unfold wsPrefix; split
      · rw [take_takeWhile_length]
      · rfl
    simp only [after, IStream.text, List.append_nil, List.reverse_append, List.reverse_reverse, List.append_assoc,
      List.take_append_drop]
    rw [hw, List.length_take]
    have : min (wsPrefix f t).length t.length = (wsPrefix f t).length := by
      have : (wsPrefix f t).length ≤ t.length := by
        unfold wsPrefix; split
        · exact length_takeWhile_le' _ _
        · simp
      omega
    rw [this, List.take_append_drop]
  · intro hf
    have he := hp.2.2.1 hf
    simp only [after] at hf ⊢
    simp [IStream.good, hf, he]

/-- `extractZ_not_good`: a stream that is not good() on entry gets failbit, nothing is read, nothing is stored. -/
theorem extractZ_not_good (i : IStream) (h : i.good = false) : extractZ i = ({ i with fail := true }, Val.unchanged) :=
  extractZ_not_good' i h

example : extractZ { rest := ['1'], eof := true } = ({ rest := ['1'], eof := true, fail := true }, .unchanged) := by decide +kernel

/-- `extractQ_spec`: `i >> q` = the numerator as `extractZ_spec`; if that failed, nothing more; else, if the very next
    character is '/', a denominator read without white-space skipping, with its own sign and its own base detection
    (a failure there leaves the new numerator stored and the old denominator); else the denominator is set to 1 and
    the character is put back.  No canonicalisation, no check for a zero denominator. -/
theorem extractQ_spec (f : Fmt) (t : List Char) : extractQ (mkG t [] f) = specQ f t :=
  extractQ_spec' f t

example : extractQ (mkG "1/0x10;".toList [] { dec := false }) =
    ({ rest := [';'], done := "1/0x10".toList.reverse, fmt := { dec := false } }, .value 1, .value 16) := by decide +kernel
example : extractQ (mkG "1/0x10;".toList [] { dec := false, hex := true }) =
    ({ rest := "x10;".toList, done := "1/0".toList.reverse, fmt := { dec := false, hex := true } }, .value 1, .value 0) := by decide +kernel
example : (extractQ (mkG "1/".toList [] {})).2 = (.value 1, .unchanged) ∧ (extractQ (mkG "1/".toList [] {})).1.fail = true ∧
    (extractQ (mkG "17,5".toList [] {})) = ({ rest := ",5".toList, done := ['7', '1'] }, .value 17, .value 1) ∧
    (extractQ (mkG "3/-6".toList [] {})).2 = (.value 3, .value (-6)) := by decide +kernel

/-! ## (c) round trip -/

section
open List

/-- `roundtripZ_partial`: for every integer z, every output stream `fo` (any basefield bits, showbase, showpos, uppercase,
    any adjustfield, any fill) whose width is ≤ 0 (no padding), and every input stream `fi` whose basefield names — with
    exactly one bit — the base `fo` prints in (more than one basefield bit on `fo` = decimal): `in >> y` after `out << z`
    stores y = z, consumes the whole text and leaves the stream good(), EXCEPT for a hex output stream with showbase:
    a hex input stream does not accept the "0x" it writes (it reads 0 and stops at the x; see the example after
    `extractZ_spec`), unlike `std::num_get`.  (Octal with showbase is fine: the leading 0 is an octal digit.)
    FULL STATEMENT: the same conclusion when `fi` has no single basefield bit (auto-detection), under the condition
    `fo.outBase = 10 ∨ fo.showbase` — decimal text needs no prefix, hex/octal text is only recognised with the prefix
    showbase writes; and the mpq analogue (numerator and denominator each, denominator > 0).  Both are now proved:
    `roundtripZ` and `roundtripQ` in Props/C20_io2.lean (condition `ReadsBack fo fi`); this theorem is the fixed-base half. -/
theorem roundtripZ_partial (fo fi : Fmt) (z w : Int) (hw : w ≤ 0) (fill : Char) (hfi : fi.base? = some fo.outBase)
    (hx : ¬ (fo.showbase = true ∧ fo.hexOnly = true)) :
    extractZ (mkG (insertZ { fmt := fo, width := w, fill := fill } z).out [] fi) =
      (mkG [] (insertZ { fmt := fo, width := w, fill := fill } z).out.reverse fi, .value z) := by
  have hb := outBase_cases fo
  obtain ⟨hall, hval⟩ := natDigits_spec fo.outBase hb fo.outUpper z.natAbs
  have hdne := natDigits_ne_nil fo.outBase fo.outUpper z.natAbs
  generalize hds : natDigits fo.outBase fo.outUpper z.natAbs = ds at *
  -- the prefix is empty or the octal "0"
  have hpre : prefixStr fo (decide (z = 0)) = [] ∨ (prefixStr fo (decide (z = 0)) = ['0'] ∧ fo.outBase = 8) := by
    unfold prefixStr Fmt.outBase
    by_cases hs : fo.showbase = true
    · have hh : fo.hexOnly = false := by cases h : fo.hexOnly <;> simp_all
      simp only [hs, if_true, hh, Bool.false_eq_true, if_false]
      split_ifs <;> simp_all
    · simp [hs]
  generalize hp : prefixStr fo (decide (z = 0)) = pre at *
  have h0 : digitTest fo.outBase '0' = true := by rcases hb with h | h | h <;> rw [h] <;> decide
  have hallbd : ∀ c ∈ pre ++ ds, digitTest fo.outBase c = true := by
    intro c hc
    rcases mem_append.mp hc with h | h
    · rcases hpre with rfl | ⟨rfl, _⟩
      · simp at h
      · simp only [mem_singleton] at h; rw [h]; exact h0
    · exact hall c h
  have hvalbd : digitsVal fo.outBase (pre ++ ds) = z.natAbs := by
    rcases hpre with rfl | ⟨rfl, _⟩
    · simpa using hval
    · have : digitsVal fo.outBase (['0'] ++ ds) = digitsVal fo.outBase ds := by
        simp [digitsVal, show Scanf.digitValue '0' = 0 by decide]
      rw [this, hval]
  have hbdne : pre ++ ds ≠ [] := by simp [hdne]
  -- the sign
  have hsg : signStr fo (decide (z < 0)) = [] ∧ decide (z < 0) = false ∨ signStr fo (decide (z < 0)) = ['-'] ∧ decide (z < 0) = true ∨
      signStr fo (decide (z < 0)) = ['+'] ∧ decide (z < 0) = false := by
    unfold signStr
    by_cases hz : z < 0
    · simp [hz]
    · by_cases hsp : fo.showpos = true <;> simp [hz, hsp]
  generalize hsgs : signStr fo (decide (z < 0)) = sg at *
  -- the text written
  have hge : ∀ c ∈ sg ++ (pre ++ ds), 1 ≤ c.toNat := by
    intro c hc
    rcases mem_append.mp hc with h | h
    · rcases hsg with ⟨rfl, _⟩ | ⟨rfl, _⟩ | ⟨rfl, _⟩ <;> simp at h <;> rw [h] <;> decide
    · have := digit_ge_48 _ hb c (hallbd c h); omega
  have htext : (insertZ { fmt := fo, width := w, fill := fill } z).out = sg ++ (pre ++ ds) := by
    rw [insertZ_layout]
    simp only [hds, hp, hsgs]
    have hpad : (w - ((sg.length + pre.length + ds.length : Nat) : Int)).toNat = 0 := by omega
    have hl : fieldLayout fo w fill sg pre ds = sg ++ (pre ++ ds) := by
      unfold fieldLayout
      simp only [hpad, replicate_zero, append_nil, nil_append]
      split_ifs <;> simp
    rw [hl]
    simp [OStream.write, OStream.good]
  rw [htext, extractZ_spec]
  -- no white space in front
  have hws : wsPrefix fi (sg ++ (pre ++ ds)) = [] := by
    unfold wsPrefix
    split
    · have hhead : ∀ c, (sg ++ (pre ++ ds)).head? = some c → isspace c = false := by
        intro c hc
        have hmem : c ∈ sg ++ (pre ++ ds) := mem_of_mem_head? hc
        rcases mem_append.mp hmem with h | h
        · rcases hsg with ⟨rfl, _⟩ | ⟨rfl, _⟩ | ⟨rfl, _⟩ <;> simp at h <;> rw [h] <;> decide
        · have := digit_ge_48 _ hb c (hallbd c h)
          by_contra hsp
          have := (isspace_iff c).mp (by simpa using hsp)
          omega
      cases hT : sg ++ (pre ++ ds) with
      | nil => rfl
      | cons a t =>
        have := hhead a (by rw [hT]; rfl)
        simp [this]
    · rfl
  unfold specZ
  simp only [hws, length_nil, drop_zero, reverse_nil]
  rw [numSpec_fixed_roundtrip fi fo.outBase hb hfi sg (pre ++ ds) (decide (z < 0)) hsg hbdne hallbd, hvalbd]
  have hv : (if decide (z < 0) = true then -((z.natAbs : Nat) : Int) else ((z.natAbs : Nat) : Int)) = z := by
    by_cases hz : z < 0
    · rw [if_pos (by simpa using hz)]; omega
    · rw [if_neg (by simpa using hz)]; omega
  simp only [hv]
  generalize sg ++ (pre ++ ds) = T
  simp [after, mkG]

end

-- non-vacuity: -255 written by a hex upper-case showpos stream and read by a hex stream; octal with showbase
example : extractZ (mkG (insertZ { fmt := { dec := false, hex := true, uppercase := true, showpos := true } } (-255)).out [] { dec := false, hex := true }) =
    (mkG [] "-FF".toList.reverse { dec := false, hex := true }, .value (-255)) := by decide +kernel
example : extractZ (mkG (insertZ { fmt := { dec := false, oct := true, showbase := true } } 15).out [] { dec := false, oct := true }) =
    (mkG [] "017".toList.reverse { dec := false, oct := true }, .value 15) := by decide +kernel
-- the exception is real: hex with showbase does not come back through a hex stream
example : (extractZ (mkG (insertZ { fmt := { dec := false, hex := true, showbase := true } } 31).out [] { dec := false, hex := true })).2 = .value 0 := by
  decide +kernel
-- auto-detection reads it
example : (extractZ (mkG (insertZ { fmt := { dec := false, hex := true, showbase := true } } 31).out [] { dec := false })).2 = .value 31 := by
  decide +kernel

end Mpir.CxxIo
