/-
  C11 — comparisons and C-type conversions (mpz / mpf functions and the double conversions).
  Property theorems only; helper lemmas live in MpirProofs/Lemmas/Conv.lean.
  Every theorem is about the executable models in Mpir/Model/Conv.lean, which the correspondence
  check runs against the real library on every run.
-/
import MpirProofs.Lemmas.Conv
namespace Mpir.Conv
open Mpir

end Mpir.Conv
