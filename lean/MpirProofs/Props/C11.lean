/-
  C11 — comparisons and C-type conversions (mpz / mpf functions and the double conversions).
  Property theorems only; helper lemmas live in MpirProofs/Lemmas/Conv.lean.
  Every theorem is about the executable models in Mpir/Model/Conv.lean, which the correspondence
  check runs against the real library on every run.
-/
import MpirProofs.Lemmas.Conv
namespace Mpir.Conv
open Mpir

/-! ## 1. One total order: mpz_cmp and everything consistent with it -/

/-- mpz_cmp: for all well-formed operands (any sizes, any signs) the sign of the result is the sign of
    the exact difference.  Hence mpz_cmp is `compare` on the integers: total, antisymmetric, transitive. -/
theorem cmp_total_order (a b : Z) (ha : a.wf) (hb : b.wf) :
    sgn (mpz_cmp a b) = sgn (a.toInt - b.toInt) := by
  unfold mpz_cmp
  dsimp only
  by_cases hd : a.size - b.size ≠ 0
  · rw [if_pos hd]
    by_cases hp : a.size - b.size > 0
    · have := Z.toInt_lt_of_size_lt hb ha (by omega)
      simp only [hp, if_true]; exact sgn_eq_pos (by decide) (by omega)
    · have := Z.toInt_lt_of_size_lt ha hb (by omega)
      simp only [hp, if_false]; exact sgn_eq_neg (by decide) (by omega)
  · rw [if_neg hd]
    have hs : a.size = b.size := by omega
    have hl : a.d.length = b.d.length := by rw [ha.1, hb.1, hs]
    rw [cmp_spec _ _ ha.2.1 hb.2.1 hl]
    unfold Z.toInt
    by_cases hn : a.size ≥ 0
    · have h1 : ¬ a.size < 0 := by omega
      have h2 : ¬ b.size < 0 := by omega
      simp only [hn, h1, h2, if_true, if_false, sgn_sgn]
    · have h1 : a.size < 0 := by omega
      have h2 : b.size < 0 := by omega
      simp only [hn, h1, h2, if_true, if_false]
      rw [← sgn_neg_eq, sgn_sgn]; congr 1; ring

-- non-vacuity: two-limb operands of equal size differing in the low limb; opposite signs; different sizes
example : mpz_cmp ⟨2, [5, 7]⟩ ⟨2, [6, 7]⟩ = -1 ∧ mpz_cmp ⟨-2, [5, 7]⟩ ⟨-2, [6, 7]⟩ = 1 ∧
    mpz_cmp ⟨1, [B - 1]⟩ ⟨-2, [0, 1]⟩ = 1 ∧ (⟨-2, [0, 1]⟩ : Z).toInt = -(2 ^ 64) := by decide

/-- antisymmetry, as a consequence -/
theorem cmp_antisymm (a b : Z) (ha : a.wf) (hb : b.wf) : sgn (mpz_cmp a b) = -sgn (mpz_cmp b a) := by
  rw [cmp_total_order a b ha hb, cmp_total_order b a hb ha, ← sgn_neg_eq]; congr 1; ring

example : sgn (mpz_cmp ⟨1, [3]⟩ ⟨-1, [4]⟩) = 1 ∧ sgn (mpz_cmp ⟨-1, [4]⟩ ⟨1, [3]⟩) = -1 := by decide

/-- transitivity, as a consequence -/
theorem cmp_trans (a b c : Z) (ha : a.wf) (hb : b.wf) (hc : c.wf)
    (h1 : sgn (mpz_cmp a b) ≤ 0) (h2 : sgn (mpz_cmp b c) ≤ 0) : sgn (mpz_cmp a c) ≤ 0 := by
  rw [cmp_total_order _ _ ha hb] at h1
  rw [cmp_total_order _ _ hb hc] at h2
  rw [cmp_total_order _ _ ha hc]
  have e1 := sgn_eq_iff (a.toInt - b.toInt)
  have e2 := sgn_eq_iff (b.toInt - c.toInt)
  have e3 := sgn_eq_iff (a.toInt - c.toInt)
  rcases lt_trichotomy (a.toInt - c.toInt) 0 with h | h | h
  · rw [sgn_neg h]; decide
  · rw [h, sgn_zero]
  · exfalso
    have : ¬ (0 < a.toInt - b.toInt) := fun h' => by rw [sgn_pos h'] at h1; omega
    have : ¬ (0 < b.toInt - c.toInt) := fun h' => by rw [sgn_pos h'] at h2; omega
    omega

example : sgn (mpz_cmp ⟨-1, [9]⟩ ⟨0, []⟩) ≤ 0 ∧ sgn (mpz_cmp ⟨0, []⟩ ⟨2, [0, 1]⟩) ≤ 0 ∧ sgn (mpz_cmp ⟨-1, [9]⟩ ⟨2, [0, 1]⟩) ≤ 0 := by decide

/-- The defect repaired by /repo commit bf39310: the former `return dsize;` (a 64-bit difference returned as
    `int`) breaks the order for x of 2^30 limbs against -x: the result is negative in both directions. -/
example : mpz_cmp_old ⟨2 ^ 30, []⟩ ⟨-(2 ^ 30), []⟩ = -(2 ^ 31) ∧ mpz_cmp_old ⟨-(2 ^ 30), []⟩ ⟨2 ^ 30, []⟩ = -(2 ^ 31) ∧
    mpz_cmp ⟨2 ^ 30, []⟩ ⟨-(2 ^ 30), []⟩ = 1 := by decide

/-- mpz_sgn is the sign of the value. -/
theorem sgn_spec (a : Z) (ha : a.wf) : mpz_sgn a = sgn a.toInt := by
  obtain ⟨h1, h2, h3⟩ := Z.toInt_sign ha
  unfold mpz_sgn
  rcases lt_trichotomy a.size 0 with h | h | h
  · rw [if_pos h, sgn_neg (h1 h)]
  · rw [if_neg (by omega), if_neg (by omega), h2 h, sgn_zero]
  · rw [if_neg (by omega), if_pos h, sgn_pos (h3 h)]

example : mpz_sgn ⟨-3, [1, 2, 3]⟩ = -1 := by decide

/-- mpz_cmp_ui (function form) is consistent with the order: sign of a - v for every unsigned long v. -/
theorem cmp_ui_consistent (a : Z) (ha : a.wf) (v : Nat) (hv : v < B) :
    sgn (mpz_cmp_ui a v) = sgn (a.toInt - v) := by
  obtain ⟨h1, h2, h3⟩ := Z.toInt_sign ha
  unfold mpz_cmp_ui
  by_cases h0 : a.size = 0
  · simp only [h0, if_true]; rw [h2 h0]
    by_cases hv0 : v = 0
    · subst hv0; simp [sgn_zero]
    · simp only [ne_eq, hv0, not_false_eq_true, if_true]; exact sgn_eq_neg (by decide) (by omega)
  · simp only [h0, if_false]
    by_cases h1' : a.size = 1
    · obtain ⟨x, hx, _, _, hval⟩ := Z.one_limb ha (by omega)
      simp only [h1', if_true, hx, List.getD_cons_zero]
      have : a.toInt = x := by unfold Z.toInt; rw [if_neg (by omega), hval]
      rw [this]
      by_cases g : x > v
      · rw [if_pos g]; exact sgn_eq_pos (by decide) (by omega)
      · rw [if_neg g]
        by_cases l : x < v
        · rw [if_pos l]; exact sgn_eq_neg (by decide) (by omega)
        · rw [if_neg l]; have : x = v := by omega
          subst this; simp [sgn_zero]
    · simp only [h1', if_false]
      by_cases hp : a.size > 0
      · have hb := Z.big_of_two_limbs ha (by omega)
        have : a.toInt = val a.d := by unfold Z.toInt; rw [if_neg (by omega)]
        rw [if_pos hp, this]; exact sgn_eq_pos (by decide) (by omega)
      · have := h1 (by omega)
        rw [if_neg hp]; exact sgn_eq_neg (by decide) (by omega)

example : mpz_cmp_ui ⟨1, [B - 1]⟩ (B - 1) = 0 ∧ mpz_cmp_ui ⟨2, [0, 1]⟩ (B - 1) = 1 ∧ mpz_cmp_ui ⟨-1, [1]⟩ 0 = -1 := by decide

theorem toS64_toU64 {v : Int} (h1 : LONG_MIN ≤ v) (h2 : v ≤ LONG_MAX) : toS64 (toU64 v) = v := by
  unfold toS64 toU64 LONG_MIN LONG_MAX at *; omega

/-- mpz_cmp_si (function form) is consistent with the order, for every long v including LONG_MIN. -/
theorem cmp_si_consistent (a : Z) (ha : a.wf) (v : Int) (hv1 : LONG_MIN ≤ v) (hv2 : v ≤ LONG_MAX) :
    sgn (mpz_cmp_si a v) = sgn (a.toInt - v) := by
  obtain ⟨h1, h2, h3⟩ := Z.toInt_sign ha
  unfold LONG_MIN at hv1; unfold LONG_MAX at hv2
  unfold mpz_cmp_si
  rcases lt_trichotomy v 0 with hv | hv | hv
  · -- v < 0: vsize = -1, |v| as unsigned
    have hvl : toU64 (toS64 (toU64 (-v))) = (-v).toNat := by unfold toS64 toU64; omega
    simp only [show ¬ v > 0 by omega, hv, if_true, if_false]
    by_cases hs : a.size ≠ -1
    · rw [if_pos hs]
      by_cases hgt : a.size > -1
      · rw [if_pos hgt]
        have : 0 ≤ a.toInt := by
          rcases eq_or_lt_of_le (show 0 ≤ a.size by omega) with e | e
          · rw [h2 e.symm]
          · exact le_of_lt (h3 e)
        exact sgn_eq_pos (by decide) (by omega)
      · rw [if_neg hgt]
        have hb := Z.big_of_two_limbs ha (by omega)
        have : a.toInt = -(val a.d : Int) := by unfold Z.toInt; rw [if_pos (by omega)]
        rw [this]; exact sgn_eq_neg (by decide) (by unfold B at hb; omega)
    · have hs' : a.size = -1 := by omega
      obtain ⟨x, hx, _, _, hval⟩ := Z.one_limb ha (by omega)
      have : a.toInt = -(x : Int) := by unfold Z.toInt; rw [if_pos (by omega), hval]
      rw [if_neg hs, if_neg (by omega), hx, List.getD_cons_zero, hvl, this, hs']
      by_cases e : x = (-v).toNat
      · rw [if_pos e]; rw [show -(x : Int) - v = 0 by omega]
      · rw [if_neg e]
        by_cases g : x > (-v).toNat
        · rw [if_pos g]; exact sgn_eq_neg (by decide) (by omega)
        · rw [if_neg g]; exact sgn_eq_pos (by decide) (by omega)
  · subst hv
    simp only [show ¬ (0 : Int) > 0 by omega, if_false]
    by_cases hs : a.size ≠ 0
    · rw [if_pos hs]
      by_cases hgt : a.size > 0
      · rw [if_pos hgt]; exact sgn_eq_pos (by decide) (by have := h3 hgt; omega)
      · rw [if_neg hgt]; exact sgn_eq_neg (by decide) (by have := h1 (by omega); omega)
    · rw [if_neg hs, if_pos (by omega), h2 (by omega)]; decide
  · simp only [show v > 0 by omega, if_true]
    have hvl : toU64 v = v.toNat := by unfold toU64; omega
    by_cases hs : a.size ≠ 1
    · rw [if_pos hs]
      by_cases hgt : a.size > 1
      · have hb := Z.big_of_two_limbs ha (by omega)
        have : a.toInt = (val a.d : Int) := by unfold Z.toInt; rw [if_neg (by omega)]
        rw [if_pos hgt, this]; exact sgn_eq_pos (by decide) (by unfold B at hb; omega)
      · rw [if_neg hgt]
        have : a.toInt ≤ 0 := by
          rcases eq_or_lt_of_le (show a.size ≤ 0 by omega) with e | e
          · rw [h2 e]
          · exact le_of_lt (h1 e)
        exact sgn_eq_neg (by decide) (by omega)
    · have hs' : a.size = 1 := by omega
      obtain ⟨x, hx, _, _, hval⟩ := Z.one_limb ha (by omega)
      have : a.toInt = (x : Int) := by unfold Z.toInt; rw [if_neg (by omega), hval]
      rw [if_neg hs, if_neg (by omega), hx, List.getD_cons_zero, hvl, this, hs']
      by_cases e : x = v.toNat
      · rw [if_pos e]; rw [show (x : Int) - v = 0 by omega]
      · rw [if_neg e]
        by_cases g : x > v.toNat
        · rw [if_pos g]; exact sgn_eq_pos (by decide) (by omega)
        · rw [if_neg g]; exact sgn_eq_neg (by decide) (by omega)

example : mpz_cmp_si ⟨-1, [2 ^ 63]⟩ LONG_MIN = 0 ∧ mpz_cmp_si ⟨-1, [2 ^ 63 + 1]⟩ LONG_MIN = -1 ∧
    mpz_cmp_si ⟨1, [2 ^ 63]⟩ LONG_MAX = 1 ∧ mpz_cmp_si ⟨-2, [0, 1]⟩ (-5) = -1 := by decide

/-- The macro forms (constant or run-time argument) give the same sign as the function forms' specification. -/
theorem cmp_macros_consistent (c : Bool) (a : Z) (ha : a.wf) :
    (∀ v, v < B → sgn (mpz_cmp_ui_macro c a v) = sgn (a.toInt - v)) ∧
    (∀ v : Int, LONG_MIN ≤ v → v ≤ LONG_MAX → sgn (mpz_cmp_si_macro c a v) = sgn (a.toInt - v)) := by
  constructor
  · intro v hv
    unfold mpz_cmp_ui_macro
    by_cases h : (c && v == 0) = true
    · rw [if_pos h]
      have : v = 0 := by simp at h; exact h.2
      subst this; rw [sgn_spec a ha, sgn_sgn]; simp
    · rw [if_neg h]; exact cmp_ui_consistent a ha v hv
  · intro v h1 h2
    unfold mpz_cmp_si_macro
    by_cases h : (c && v == 0) = true
    · rw [if_pos h]
      have : v = 0 := by simp at h; exact h.2
      subst this; rw [sgn_spec a ha, sgn_sgn]; simp
    · rw [if_neg h]
      by_cases g : (c && decide (v > 0)) = true
      · rw [if_pos g]
        have vp : v > 0 := by simp at g; exact g.2
        have := cmp_ui_consistent a ha (toU64 v) (by unfold toU64 B LONG_MAX at *; omega)
        rw [this]; congr 2; unfold toU64 LONG_MAX at *; omega
      · rw [if_neg g]; exact cmp_si_consistent a ha v h1 h2

example : mpz_cmp_si_macro true ⟨-1, [7]⟩ 0 = -1 ∧ mpz_cmp_si_macro true ⟨1, [7]⟩ 7 = 0 ∧ mpz_cmp_ui_macro true ⟨2, [1, 1]⟩ 0 = 1 := by decide

/-- mpz_cmpabs compares absolute values. -/
theorem cmpabs_spec (a b : Z) (ha : a.wf) (hb : b.wf) :
    sgn (mpz_cmpabs a b) = sgn ((a.toInt.natAbs : Int) - b.toInt.natAbs) := by
  rw [Z.natAbs_toInt, Z.natAbs_toInt]
  obtain ⟨a0, a1, a2⟩ := Z.wf_bounds ha
  obtain ⟨b0, b1, b2⟩ := Z.wf_bounds hb
  unfold mpz_cmpabs
  dsimp only
  by_cases hd : ((a.size.natAbs : Int) - b.size.natAbs) ≠ 0
  · rw [if_pos hd]
    by_cases hp : (a.size.natAbs : Int) - b.size.natAbs > 0
    · have := b1
      have : B ^ b.size.natAbs ≤ B ^ (a.size.natAbs - 1) := pow_le_pow_B (by omega)
      have := a1 (by omega)
      exact sgn_eq_pos hp (by omega)
    · have : B ^ a.size.natAbs ≤ B ^ (b.size.natAbs - 1) := pow_le_pow_B (by omega)
      have := b1 (by omega)
      exact sgn_eq_neg (by omega) (by omega)
  · rw [if_neg hd]
    rw [cmp_spec _ _ ha.2.1 hb.2.1 (by rw [ha.1, hb.1]; omega), sgn_sgn]

example : mpz_cmpabs ⟨-2, [5, 7]⟩ ⟨2, [4, 7]⟩ = 1 ∧ mpz_cmpabs ⟨-1, [5]⟩ ⟨2, [4, 7]⟩ = -1 := by decide

/-- mpz_cmpabs_ui compares |a| with v. -/
theorem cmpabs_ui_spec (a : Z) (ha : a.wf) (v : Nat) (hv : v < B) :
    sgn (mpz_cmpabs_ui a v) = sgn ((a.toInt.natAbs : Int) - v) := by
  rw [Z.natAbs_toInt]
  obtain ⟨a0, a1, a2⟩ := Z.wf_bounds ha
  unfold mpz_cmpabs_ui
  by_cases h0 : a.size = 0
  · simp only [h0, if_true]; rw [a0 h0]
    by_cases hv0 : v = 0
    · subst hv0; simp [sgn_zero]
    · simp only [ne_eq, hv0, not_false_eq_true, if_true]; exact sgn_eq_neg (by decide) (by omega)
  · simp only [h0, if_false]
    by_cases h1' : a.size.natAbs = 1
    · obtain ⟨x, hx, _, _, hval⟩ := Z.one_limb ha h1'
      simp only [h1', if_true, hx, List.getD_cons_zero]
      rw [← hx, hval]
      by_cases g : x > v
      · rw [if_pos g]; exact sgn_eq_pos (by decide) (by omega)
      · rw [if_neg g]
        by_cases l : x < v
        · rw [if_pos l]; exact sgn_eq_neg (by decide) (by omega)
        · rw [if_neg l]; have : x = v := by omega
          subst this; simp [sgn_zero]
    · simp only [h1', if_false]
      have hb := Z.big_of_two_limbs ha (by omega)
      exact sgn_eq_pos (by decide) (by omega)

example : mpz_cmpabs_ui ⟨-1, [9]⟩ 9 = 0 ∧ mpz_cmpabs_ui ⟨-2, [0, 1]⟩ (B - 1) = 1 := by decide

/-! ## 2. fits_*_p: true exactly on the representable range -/

/-- Signed predicates (fits_s.h): for a type with range [-minabs, maxv] (maxv, minabs at most one limb),
    the predicate holds iff the value is in the range. -/
theorem fits_s_iff_range (maxv minabs : Nat) (hm : maxv < B) (hn : minabs < B) (z : Z) (hz : z.wf) :
    fits_s maxv minabs z = true ↔ (-(minabs : Int) ≤ z.toInt ∧ z.toInt ≤ maxv) := by
  obtain ⟨h1, h2, h3⟩ := Z.toInt_sign hz
  unfold fits_s
  by_cases e0 : z.size = 0
  · simp only [e0, if_true, true_iff]; rw [h2 e0]; omega
  · by_cases e1 : z.size = 1
    · obtain ⟨x, hx, _, _, hval⟩ := Z.one_limb hz (by omega)
      have : z.toInt = x := by unfold Z.toInt; rw [if_neg (by omega), hval]
      simp only [e1, hx, List.getD_cons_zero, this]
      simp only [show ¬ ((1 : Int) = 0) by omega, if_false, if_true, decide_eq_true_eq]; omega
    · by_cases e2 : z.size = -1
      · obtain ⟨x, hx, _, _, hval⟩ := Z.one_limb hz (by omega)
        have : z.toInt = -(x : Int) := by unfold Z.toInt; rw [if_pos (by omega), hval]
        simp only [e2, hx, List.getD_cons_zero, this]
        simp only [show ¬ ((-1 : Int) = 0) by omega, show ¬ ((-1 : Int) = 1) by omega, if_false, if_true, decide_eq_true_eq]; omega
      · simp only [e0, e1, e2, if_false]
        have hb := Z.big_of_two_limbs hz (by omega)
        have := Z.natAbs_toInt z
        constructor
        · intro h; exact absurd h (by decide)
        · intro ⟨l, u⟩; omega

/-- Unsigned predicates (__GMPZ_FITS_UTYPE_P): true iff 0 ≤ value ≤ maxval. -/
theorem fits_u_iff_range (maxv : Nat) (hm : maxv < B) (z : Z) (hz : z.wf) :
    fits_u maxv z = true ↔ (0 ≤ z.toInt ∧ z.toInt ≤ maxv) := by
  obtain ⟨h1, h2, h3⟩ := Z.toInt_sign hz
  unfold fits_u
  by_cases e0 : z.size = 0
  · simp only [e0, decide_true, Bool.true_or, true_iff]; rw [h2 e0]; omega
  · by_cases e1 : z.size = 1
    · obtain ⟨x, hx, _, _, hval⟩ := Z.one_limb hz (by omega)
      have : z.toInt = x := by unfold Z.toInt; rw [if_neg (by omega), hval]
      simp only [e1, hx, List.getD_cons_zero, this]
      simp only [show ¬ ((1 : Int) = 0) by omega, decide_false, decide_true, Bool.false_or, Bool.true_and, decide_eq_true_eq]; omega
    · simp only [e0, e1, decide_false, Bool.false_and, Bool.false_or]
      constructor
      · intro h; exact absurd h (by decide)
      · intro ⟨l, u⟩
        exfalso
        by_cases hn : z.size < 0
        · have := h1 hn; omega
        · have hb := Z.big_of_two_limbs hz (by omega)
          have : z.toInt = (val z.d : Int) := by unfold Z.toInt; rw [if_neg hn]
          omega

/-- fits_iff_range: each of the six documented predicates (and MPIR's _ui/_si forms) is true exactly when the
    value lies in the C type's range. -/
theorem fits_iff_range (z : Z) (hz : z.wf) :
    (mpz_fits_ulong_p z = true ↔ 0 ≤ z.toInt ∧ z.toInt ≤ 2 ^ 64 - 1) ∧
    (mpz_fits_slong_p z = true ↔ -(2 ^ 63) ≤ z.toInt ∧ z.toInt ≤ 2 ^ 63 - 1) ∧
    (mpz_fits_uint_p z = true ↔ 0 ≤ z.toInt ∧ z.toInt ≤ 2 ^ 32 - 1) ∧
    (mpz_fits_sint_p z = true ↔ -(2 ^ 31) ≤ z.toInt ∧ z.toInt ≤ 2 ^ 31 - 1) ∧
    (mpz_fits_ushort_p z = true ↔ 0 ≤ z.toInt ∧ z.toInt ≤ 2 ^ 16 - 1) ∧
    (mpz_fits_sshort_p z = true ↔ -(2 ^ 15) ≤ z.toInt ∧ z.toInt ≤ 2 ^ 15 - 1) ∧
    (mpz_fits_ui_p z = true ↔ 0 ≤ z.toInt ∧ z.toInt ≤ 2 ^ 64 - 1) ∧
    (mpz_fits_si_p z = true ↔ -(2 ^ 63) ≤ z.toInt ∧ z.toInt ≤ 2 ^ 63 - 1) := by
  have hB : B = 2 ^ 64 := rfl
  refine ⟨?_, ?_, ?_, ?_, ?_, ?_, ?_, ?_⟩
  · have := fits_u_iff_range (2 ^ 64 - 1) (by rw [hB]; norm_num) z hz; simpa [mpz_fits_ulong_p] using this
  · have := fits_s_iff_range (2 ^ 63 - 1) (2 ^ 63) (by rw [hB]; norm_num) (by rw [hB]; norm_num) z hz
    simpa [mpz_fits_slong_p] using this
  · have := fits_u_iff_range (2 ^ 32 - 1) (by rw [hB]; norm_num) z hz; simpa [mpz_fits_uint_p] using this
  · have := fits_s_iff_range (2 ^ 31 - 1) (2 ^ 31) (by rw [hB]; norm_num) (by rw [hB]; norm_num) z hz
    simpa [mpz_fits_sint_p] using this
  · have := fits_u_iff_range (2 ^ 16 - 1) (by rw [hB]; norm_num) z hz; simpa [mpz_fits_ushort_p] using this
  · have := fits_s_iff_range (2 ^ 15 - 1) (2 ^ 15) (by rw [hB]; norm_num) (by rw [hB]; norm_num) z hz
    simpa [mpz_fits_sshort_p] using this
  · have := fits_u_iff_range (2 ^ 64 - 1) (by rw [hB]; norm_num) z hz; simpa [mpz_fits_ui_p] using this
  · have := fits_s_iff_range (2 ^ 63 - 1) (2 ^ 63) (by rw [hB]; norm_num) (by rw [hB]; norm_num) z hz
    simpa [mpz_fits_si_p] using this

example : mpz_fits_slong_p ⟨-1, [2 ^ 63]⟩ = true ∧ mpz_fits_slong_p ⟨-1, [2 ^ 63 + 1]⟩ = false ∧
    mpz_fits_slong_p ⟨1, [2 ^ 63]⟩ = false ∧ mpz_fits_ushort_p ⟨1, [65535]⟩ = true ∧ mpz_fits_ushort_p ⟨1, [65536]⟩ = false ∧
    mpz_fits_ulong_p ⟨2, [0, 1]⟩ = false ∧ mpz_fits_uint_p ⟨-1, [1]⟩ = false := by decide

/-! ## 3. get_ui / get_si / get_ux / get_sx and set_ui / set_si / set_ux / set_sx -/

/-- mpz_get_ui and mpz_get_ux: the least significant 64 bits of |op| (the sign is ignored), for every op. -/
theorem get_ui_spec (z : Z) (hz : z.wf) :
    mpz_get_ui z = z.toInt.natAbs % 2 ^ 64 ∧ mpz_get_ux z = z.toInt.natAbs % 2 ^ 64 := by
  rw [Z.natAbs_toInt]
  obtain ⟨r, hr, hlt⟩ := val_split z.d hz.2.1
  have h0 := (Z.wf_bounds hz).1
  unfold mpz_get_ui mpz_get_ux
  by_cases e : z.size = 0
  · simp [e, h0 e]
  · simp only [ne_eq, e, not_false_eq_true, if_true]; rw [hr]; unfold B at *; omega

example : mpz_get_ui ⟨-2, [5, 9]⟩ = 5 ∧ mpz_get_ux ⟨0, []⟩ = 0 := by decide

/-- mpz_get_si: exact when op fits a long; otherwise the low 63 bits with the sign of op
    (for negative op: -(((|op| - 1) mod 2^63) + 1), so that -2^63 is handled). -/
theorem get_si_spec (z : Z) (hz : z.wf) :
    (LONG_MIN ≤ z.toInt → z.toInt ≤ LONG_MAX → mpz_get_si z = z.toInt) ∧
    (0 < z.toInt → mpz_get_si z = z.toInt % 2 ^ 63) ∧
    (z.toInt < 0 → mpz_get_si z = -((-z.toInt - 1) % 2 ^ 63) - 1) := by
  obtain ⟨r, hr, hlt⟩ := val_split z.d hz.2.1
  obtain ⟨s1, s2, s3⟩ := Z.toInt_sign hz
  have h0 := (Z.wf_bounds hz).1
  have key : (0 < z.toInt → mpz_get_si z = z.toInt % 2 ^ 63) ∧
      (z.toInt < 0 → mpz_get_si z = -((-z.toInt - 1) % 2 ^ 63) - 1) ∧ (z.toInt = 0 → mpz_get_si z = 0) := by
    refine ⟨fun hp => ?_, fun hn => ?_, fun he => ?_⟩
    · have hs : z.size > 0 := by
        rcases lt_trichotomy z.size 0 with h | h | h
        · have := s1 h; omega
        · have := s2 h; omega
        · exact h
      unfold mpz_get_si Z.toInt
      simp only [hs, if_true, show ¬ z.size < 0 by omega, if_false]
      rw [hr]; unfold B at *; omega
    · have hs : z.size < 0 := by
        rcases lt_trichotomy z.size 0 with h | h | h
        · exact h
        · have := s2 h; omega
        · have := s3 h; omega
      have hv : 0 < val z.d := by unfold Z.toInt at hn; rw [if_pos hs] at hn; omega
      unfold mpz_get_si Z.toInt
      simp only [hs, if_true, show ¬ z.size > 0 by omega, if_false]
      rw [hr] at hv ⊢; unfold B at *; omega
    · have hs : z.size = 0 := by
        rcases lt_trichotomy z.size 0 with h | h | h
        · have := s1 h; omega
        · exact h
        · have := s3 h; omega
      unfold mpz_get_si; simp [hs]
  refine ⟨fun l u => ?_, key.1, key.2.1⟩
  unfold LONG_MIN at l; unfold LONG_MAX at u
  rcases lt_trichotomy z.toInt 0 with h | h | h
  · rw [key.2.1 h]; omega
  · rw [key.2.2 h, h]
  · rw [key.1 h]; omega

example : mpz_get_si ⟨-1, [2 ^ 63]⟩ = LONG_MIN ∧ mpz_get_si ⟨1, [2 ^ 63 - 1]⟩ = LONG_MAX ∧
    mpz_get_si ⟨-2, [5, 1]⟩ = -5 ∧ mpz_get_si ⟨1, [2 ^ 63 + 5]⟩ = 5 := by decide

/-- mpz_get_sx: exact when op fits an intmax_t; in general the value modulo 2^64 read as a signed number. -/
theorem get_sx_spec (z : Z) (hz : z.wf) :
    mpz_get_sx z = toS64 (toU64 z.toInt) ∧
    (LONG_MIN ≤ z.toInt → z.toInt ≤ LONG_MAX → mpz_get_sx z = z.toInt) := by
  obtain ⟨r, hr, hlt⟩ := val_split z.d hz.2.1
  have h0 := (Z.wf_bounds hz).1
  have gen : mpz_get_sx z = toS64 (toU64 z.toInt) := by
    unfold mpz_get_sx Z.toInt
    by_cases e : z.size = 0
    · simp [e, h0 e]; decide
    · simp only [ne_eq, e, not_false_eq_true, if_true]
      by_cases hn : z.size < 0
      · simp only [hn, if_true]; rw [hr]; unfold toS64 toU64 B at *; omega
      · simp only [hn, if_false]; rw [hr]; unfold toS64 toU64 B at *; omega
  exact ⟨gen, fun l u => by rw [gen]; exact toS64_toU64 l u⟩

example : mpz_get_sx ⟨-1, [2 ^ 63]⟩ = LONG_MIN ∧ mpz_get_sx ⟨-1, [7]⟩ = -7 ∧ mpz_get_sx ⟨1, [2 ^ 63]⟩ = LONG_MIN := by decide

/-- mpz_set_ui / mpz_set_ux: the result is well formed and has exactly the value of the argument. -/
theorem set_ui_spec (v : Nat) (hv : v < B) :
    (mpz_set_ui v).wf ∧ (mpz_set_ui v).toInt = v ∧ (mpz_set_ux v).wf ∧ (mpz_set_ux v).toInt = v := by
  have main : (mpz_set_ui v).wf ∧ (mpz_set_ui v).toInt = v := by
    unfold mpz_set_ui
    by_cases h : v = 0
    · subst h; exact ⟨⟨rfl, Limbs_nil, fun h => absurd rfl h⟩, rfl⟩
    · simp only [ne_eq, h, not_false_eq_true, if_true]
      exact ⟨⟨rfl, Limbs_cons.mpr ⟨hv, Limbs_nil⟩, fun _ => by simp [h]⟩, by simp [Z.toInt]⟩
  exact ⟨main.1, main.2, main.1, main.2⟩

example : mpz_set_ui (B - 1) = ⟨1, [B - 1]⟩ ∧ mpz_set_ui 0 = ⟨0, []⟩ := by decide

/-- mpz_set_si / mpz_set_sx: for every long (LONG_MIN included) the result is well formed and has the value. -/
theorem set_si_spec (v : Int) (h1 : LONG_MIN ≤ v) (h2 : v ≤ LONG_MAX) :
    (mpz_set_si v).wf ∧ (mpz_set_si v).toInt = v ∧ (mpz_set_sx v).wf ∧ (mpz_set_sx v).toInt = v := by
  unfold LONG_MIN at h1; unfold LONG_MAX at h2
  rcases lt_trichotomy v 0 with h | h | h
  · have e : toU64 (-v) = (-v).toNat := by unfold toU64; omega
    have ne : (-v).toNat ≠ 0 := by omega
    have lt : (-v).toNat < B := by unfold B; omega
    have w : Z.wf ⟨-1, [(-v).toNat]⟩ := ⟨rfl, Limbs_cons.mpr ⟨lt, Limbs_nil⟩, fun _ => by simp [ne]⟩
    have t : Z.toInt ⟨-1, [(-v).toNat]⟩ = v := by simp [Z.toInt]; omega
    have a : mpz_set_si v = ⟨-1, [(-v).toNat]⟩ := by
      unfold mpz_set_si; simp only [show ¬ v ≥ 0 by omega, if_false, e, ne_eq, ne, not_false_eq_true, if_true]
    have b : mpz_set_sx v = ⟨-1, [(-v).toNat]⟩ := by
      unfold mpz_set_sx; simp only [h, if_true, e, ne_eq, show v ≠ 0 by omega, not_false_eq_true]
    rw [a, b]; exact ⟨w, t, w, t⟩
  · subst h; exact ⟨⟨rfl, Limbs_nil, fun h => absurd rfl h⟩, rfl, ⟨rfl, Limbs_nil, fun h => absurd rfl h⟩, rfl⟩
  · have e : toU64 v = v.toNat := by unfold toU64; omega
    have ne : v.toNat ≠ 0 := by omega
    have lt : v.toNat < B := by unfold B; omega
    have w : Z.wf ⟨1, [v.toNat]⟩ := ⟨rfl, Limbs_cons.mpr ⟨lt, Limbs_nil⟩, fun _ => by simp [ne]⟩
    have t : Z.toInt ⟨1, [v.toNat]⟩ = v := by simp [Z.toInt]; omega
    have a : mpz_set_si v = ⟨1, [v.toNat]⟩ := by
      unfold mpz_set_si; simp only [show v ≥ 0 by omega, if_true, e, ne_eq, ne, not_false_eq_true]
    have b : mpz_set_sx v = ⟨1, [v.toNat]⟩ := by
      unfold mpz_set_sx; simp only [show ¬ v < 0 by omega, if_false, e, ne_eq, show v ≠ 0 by omega, not_false_eq_true, if_true]
    rw [a, b]; exact ⟨w, t, w, t⟩

example : mpz_set_si LONG_MIN = ⟨-1, [2 ^ 63]⟩ ∧ mpz_set_sx (-5) = ⟨-1, [5]⟩ ∧ mpz_set_si LONG_MAX = ⟨1, [2 ^ 63 - 1]⟩ := by decide

/-! ## 4. Integers to doubles: mpn_get_d is truncation toward zero -/

/-- get_d_bits_spec.  For every limb vector with a non-zero high limb (any size an address space can hold),
    either sign and every exponent in the range of `long`, the word-level model of `mpn_get_d` (limb selection,
    shifts, `m0 >>= 11`, overflow test, denormal shifts, assembly of the sign / exponent / mantissa fields)
    returns exactly the bit pattern of ±{ptr,size}·2^exp truncated toward zero to a double, and decoding that
    pattern gives the specification `truncate53`: 53 significant bits, ±∞ when the value is ≥ 2^1024,
    the fixed quantum 2^-1074 in the denormal range, +0.0 below 2^-1074. -/
theorem get_d_bits_spec (ptr : List Nat) (sign exp : Int) (hL : Limbs ptr) (ht : ptr ≠ [] → ptr.getLast? ≠ some 0)
    (hsz : ptr.length < 2 ^ 57) (he1 : LONG_MIN ≤ exp) (he2 : exp ≤ LONG_MAX) :
    decode (mpn_get_d ptr sign exp) = truncate53 (if sign < 0 then -(val ptr : Int) else (val ptr : Int)) exp ∧
    mpn_get_d ptr sign exp = truncToDouble (if sign < 0 then -(val ptr : Int) else (val ptr : Int)) exp := by
  have h := mpn_get_d_eq ptr sign exp hL ht hsz he1 he2
  exact ⟨by rw [h]; exact decode_truncToDouble _ _, h⟩

-- non-vacuity: 2^53+1 truncates (not rounds) to 2^53; a 2-limb value; overflow; largest denormal; underflow
example : mpn_get_d [2 ^ 53 + 1] 1 0 = 0x4340000000000000 ∧ mpn_get_d [2 ^ 64 - 1, 2 ^ 64 - 1] (-1) 0 = 0xC7EFFFFFFFFFFFFF ∧
    mpn_get_d [1] 1 1024 = 0x7FF0000000000000 ∧ mpn_get_d [2 ^ 64 - 1] 1 (-1086) = 0x000FFFFFFFFFFFFF ∧
    mpn_get_d [1] 1 (-1074) = 1 ∧ mpn_get_d [1] (-1) (-1075) = 0 := by decide

/-- The clauses of the specification: what `truncate53` (hence the decoded result of mpn_get_d) is, with
    v = |x| ≠ 0 and E = bitlen v + e (so 2^(E-1) ≤ v·2^e < 2^E):
    overflow to ±∞ iff E > 1024; otherwise sign, mantissa = floor (v·2^e / 2^q), quantum q = max (E-53) (-1074);
    a zero mantissa (E ≤ -1074) gives +0.0.  The mantissa is a floor: m·2^q ≤ v·2^e < (m+1)·2^q (`shiftZ_floor`). -/
theorem truncate53_clauses (x e : Int) (hx : x ≠ 0) :
    (bitlen x.natAbs + e > 1024 → truncate53 x e = .inf (decide (x < 0))) ∧
    (-1021 ≤ bitlen x.natAbs + e → bitlen x.natAbs + e ≤ 1024 →
      truncate53 x e = .fin (decide (x < 0)) (shiftZ x.natAbs (53 - (bitlen x.natAbs : Int))) ((bitlen x.natAbs : Int) + e - 53) ∧
      2 ^ 52 ≤ shiftZ x.natAbs (53 - (bitlen x.natAbs : Int)) ∧ shiftZ x.natAbs (53 - (bitlen x.natAbs : Int)) < 2 ^ 53) ∧
    (-1073 ≤ bitlen x.natAbs + e → bitlen x.natAbs + e ≤ -1022 →
      truncate53 x e = .fin (decide (x < 0)) (shiftZ x.natAbs (e + 1074)) (-1074) ∧
      1 ≤ shiftZ x.natAbs (e + 1074) ∧ shiftZ x.natAbs (e + 1074) < 2 ^ 52) ∧
    (bitlen x.natAbs + e ≤ -1074 → truncate53 x e = .fin false 0 (-1074)) := by
  obtain ⟨d1, d2, d3, d4⟩ := truncate53_cases x e hx
  obtain ⟨t1, t2⟩ := top53_bounds (v := x.natAbs) (by omega)
  refine ⟨d1, fun a b => ⟨d2 a b, t1, t2⟩, fun a b => ?_, d4⟩
  obtain ⟨dd, l1, l2, eq⟩ := d3 a b
  rw [← eq]; exact ⟨dd, l1, l2⟩

example : truncate53 (2 ^ 53 + 1) 0 = .fin false (2 ^ 52) 1 ∧ truncate53 (-3) (-1075) = .fin true 1 (-1074) ∧
    truncate53 1 1024 = .inf false ∧ truncate53 (-1) (-1075) = .fin false 0 (-1074) := by decide

/-- mpz_get_d: op truncated toward zero to a double (±∞ when |op| ≥ 2^1024), for every well-formed op. -/
theorem mpz_get_d_spec (z : Z) (hz : z.wf) (hsz : z.d.length < 2 ^ 57) :
    mpz_get_d z = truncToDouble z.toInt 0 ∧ decode (mpz_get_d z) = truncate53 z.toInt 0 := by
  have main : mpz_get_d z = truncToDouble z.toInt 0 := by
    unfold mpz_get_d
    by_cases h0 : z.size = 0
    · rw [if_pos h0, (Z.toInt_sign hz).2.1 h0]; decide
    · rw [if_neg h0]
      have := mpn_get_d_eq z.d z.size 0 hz.2.1 hz.2.2 hsz (by decide) (by decide)
      rw [this]; rfl
  exact ⟨main, by rw [main]; exact decode_truncToDouble _ _⟩

example : mpz_get_d ⟨-2, [1, 2 ^ 63]⟩ = 0xC7E0000000000000 ∧ mpz_get_d ⟨17, List.replicate 16 0 ++ [1]⟩ = 0x7FF0000000000000 := by decide

/-- mpz_get_d_2exp: the exponent is the bit length of |op| and the double is op·2^-exp truncated, so that
    0.5 ≤ |d| < 1: decoded, d = ± m·2^-53 with 2^52 ≤ m < 2^53, m the 53 leading bits of |op|. -/
theorem mpz_get_d_2exp_spec (z : Z) (hz : z.wf) (hnz : z.size ≠ 0) (hsz : z.d.length < 2 ^ 57) :
    (mpz_get_d_2exp z).2 = bitlen z.toInt.natAbs ∧
    (mpz_get_d_2exp z).1 = truncToDouble z.toInt (-(bitlen z.toInt.natAbs : Int)) ∧
    decode (mpz_get_d_2exp z).1 = .fin (decide (z.toInt < 0)) (shiftZ z.toInt.natAbs (53 - (bitlen z.toInt.natAbs : Int))) (-53) ∧
    2 ^ 52 ≤ shiftZ z.toInt.natAbs (53 - (bitlen z.toInt.natAbs : Int)) ∧
    shiftZ z.toInt.natAbs (53 - (bitlen z.toInt.natAbs : Int)) < 2 ^ 53 := by
  have hne : z.d ≠ [] := by intro e; have := hz.1; rw [e] at this; simp at this; omega
  obtain ⟨hbl, hls⟩ := bitlen_val hz.2.1 hne hz.2.2
  have hlen := hz.1
  have hx : z.toInt ≠ 0 := by
    obtain ⟨s1, _, s3⟩ := Z.toInt_sign hz
    rcases lt_or_gt_of_ne hnz with h | h
    · have := s1 h; omega
    · have := s3 h; omega
  have e1 : (mpz_get_d_2exp z).2 = bitlen z.toInt.natAbs := by
    unfold mpz_get_d_2exp; rw [if_neg hnz]; dsimp only
    rw [Z.natAbs_toInt, hbl, ← hlen]; omega
  have e2 : (mpz_get_d_2exp z).1 = truncToDouble z.toInt (-(bitlen z.toInt.natAbs : Int)) := by
    unfold mpz_get_d_2exp; rw [if_neg hnz]; dsimp only
    have hexp : ((z.size.natAbs : Int) * 64 - (clz64 (z.d.getD (z.size.natAbs - 1) 0) : Int)) = (bitlen z.toInt.natAbs : Int) := by
      rw [Z.natAbs_toInt, hbl, ← hlen]; omega
    rw [hexp]
    have hb : (bitlen z.toInt.natAbs : Int) ≤ 2 ^ 63 := by rw [Z.natAbs_toInt, hbl]; omega
    have := mpn_get_d_eq z.d z.size (-(bitlen z.toInt.natAbs : Int)) hz.2.1 hz.2.2 hsz
      (by unfold LONG_MIN; omega) (by unfold LONG_MAX; omega)
    rw [this]; rfl
  obtain ⟨_, c2, _, _⟩ := truncate53_clauses z.toInt (-(bitlen z.toInt.natAbs : Int)) hx
  obtain ⟨dd, t1, t2⟩ := c2 (by omega) (by omega)
  refine ⟨e1, e2, ?_, t1, t2⟩
  rw [e2, decode_truncToDouble, dd]; congr 1; omega

example : mpz_get_d_2exp ⟨1, [5]⟩ = (0x3FE4000000000000, 3) ∧ mpz_get_d_2exp ⟨-2, [1, 2 ^ 63]⟩ = (0xBFE0000000000000, 128) := by decide

/-! ## 5. Doubles to integers: __gmp_extract_double and mpz_set_d -/

/-- `dblNum b` is the exact value of the finite double b scaled by 2^1074:
    if `decode b = fin neg m q` then dblNum b = m · 2^(q + 1074). -/
theorem dblNum_decode (b : Nat) (hf : expOf b ≠ 2047) :
    ∃ neg m q, decode b = .fin neg m q ∧ 0 ≤ q + 1074 ∧ dblNum b = m * 2 ^ (q + 1074).toNat := by
  unfold decode dblNum
  rw [if_neg hf]
  by_cases e0 : expOf b = 0
  · rw [if_pos e0, if_pos e0]; exact ⟨_, _, _, rfl, by decide, by simp⟩
  · rw [if_neg e0, if_neg e0]
    refine ⟨_, _, _, rfl, by omega, ?_⟩
    congr 2; omega

example : decode 0x3FF8000000000000 = .fin false (3 * 2 ^ 51) (-52) ∧ dblNum 0x0020000000000001 = (2 ^ 52 + 1) * 2 ∧ dblNum 5 = 5 := by decide

/-- extract_double_spec.  For every finite non-zero double d (normal or denormal; the sign bit is ignored),
    `__gmp_extract_double` returns two proper limbs with a non-zero high limb and an exponent `ex` such that
    {rp,2}·B^(ex-2) = |d| exactly; stated without negative powers via d·2^1074:
    (rp[1]·B + rp[0])·2^(64·ex + 1074) = (|d|·2^1074)·2^128.  ex ≥ 1 iff |d| ≥ 1 (the callers' ASSERT). -/
theorem extract_double_spec (b : Nat) (hz : isZero b = false) (hf : expOf b ≠ 2047) :
    ∃ r0 r1 ex, extract_double b = (r0, r1, ex) ∧ r0 < B ∧ 1 ≤ r1 ∧ r1 < B ∧ -16 ≤ ex ∧ ex ≤ 16 ∧
      (r1 * B + r0) * 2 ^ (64 * ex + 1074).toNat = dblNum b * 2 ^ 128 ∧ (1023 ≤ expOf b → 1 ≤ ex) ∧ (expOf b < 1023 → ex ≤ 0) :=
  extract_double_eq b hz hf

-- non-vacuity: 1.5 (one integer limb, fraction in the low limb), the smallest denormal, 2^64, the largest finite double
example : extract_double 0x3FF8000000000000 = (2 ^ 63, 1, 1) ∧ extract_double 1 = (0, 2 ^ 14, -16) ∧
    extract_double 0x43F0000000000000 = (0, 1, 2) ∧ extract_double 0x7FEFFFFFFFFFFFFF = (0, 2 ^ 64 - 2 ^ 11, 16) := by decide

/-- set_d_spec.  mpz_set_d raises the invalid-operation exception exactly for NaN and ±∞; for every finite
    double (zeros, denormals, normals) the result is a well-formed mpz whose value is the double's exact value
    truncated toward zero: sign · floor (|d|), with |d| = dblNum / 2^1074. -/
theorem set_d_spec (b : Nat) :
    (expOf b = 2047 → mpz_set_d b = none) ∧
    (expOf b ≠ 2047 → ∃ z, mpz_set_d b = some z ∧ z.wf ∧
      z.toInt = (if sigOf b = 1 then -1 else 1) * ((dblNum b / 2 ^ 1074 : Nat) : Int)) := by
  constructor
  · intro h
    unfold mpz_set_d isNaN isInf
    by_cases m : manOf b = 0 <;> simp [h, m]
  · intro hf
    obtain ⟨a1, a2, a3, a4, _⟩ := absBits_fields b
    have hni : (isNaN b || isInf b) = false := by unfold isNaN isInf; simp [hf]
    unfold mpz_set_d
    rw [hni]
    simp only [Bool.false_eq_true, if_false]
    by_cases hz : isZero b = true
    · have : extract_double (absBits b) = (0, 0, 0) := by unfold extract_double; rw [a3, hz]; rfl
      rw [this]
      dsimp only
      simp only [le_refl, if_true, neg_zero, ite_self]
      refine ⟨_, rfl, ⟨rfl, Limbs_nil, fun h => absurd rfl h⟩, ?_⟩
      rw [dblNum_zero hz]; simp [Z.toInt]
    · have hz' : isZero b = false := by simpa using hz
      have hneg : isNeg b = decide (sigOf b = 1) := by unfold isNeg; rw [hz']; simp
      obtain ⟨r0, r1, ex, he, h0, h1, h1', x1, x2, hrel, _, _⟩ := extract_double_eq (absBits b) (by rw [a3]; exact hz') (by rw [a1]; exact hf)
      rw [a4] at hrel
      obtain ⟨q0, q1, q2⟩ := set_d_quot r0 r1 ex (dblNum b) h0 h1' hrel
      obtain ⟨s0, s1, s2⟩ := set_d_shapes r0 r1 h0 h1 h1' (isNeg b)
      rw [he]
      dsimp only
      have sgn_eq : (if isNeg b = true then (-1 : Int) else 1) = (if sigOf b = 1 then -1 else 1) := by
        rw [hneg]; by_cases c : sigOf b = 1 <;> simp [c]
      generalize hrn : (if ex ≤ 0 then (0 : Int) else ex) = rn
      by_cases c0 : ex ≤ 0
      · rw [if_pos c0] at hrn; subst hrn
        simp only [if_true, neg_zero, ite_self]
        exact ⟨_, rfl, s0.1, by rw [q0 c0, s0.2]; simp⟩
      · rw [if_neg c0] at hrn; subst hrn
        by_cases c1 : ex = 1
        · subst c1
          rw [if_neg (show ¬ (1 : Int) = 0 by decide), if_pos (show (1 : Int) = 1 from rfl)]
          refine ⟨_, rfl, s1.1, ?_⟩
          rw [s1.2, q1 rfl, sgn_eq]
        · obtain ⟨k, hk⟩ : ∃ k : Nat, ex = ((k + 2 : Nat) : Int) := ⟨ex.toNat - 2, by omega⟩
          subst hk
          have t : ((k + 2 : Nat) : Int).toNat - 2 = k := by omega
          rw [if_neg (show ¬ ((k + 2 : Nat) : Int) = 0 by omega), if_neg (show ¬ ((k + 2 : Nat) : Int) = 1 by omega), t]
          refine ⟨_, rfl, (s2 k).1, ?_⟩
          rw [(s2 k).2, q2 (by omega), t, sgn_eq]

-- non-vacuity: -1.5 ↦ -1; 2^64 ↦ a two-limb value; the largest denormal ↦ 0; NaN and -∞ raise
example : mpz_set_d 0xBFF8000000000000 = some ⟨-1, [1]⟩ ∧ mpz_set_d 0x43F0000000000000 = some ⟨2, [0, 1]⟩ ∧
    mpz_set_d 0x000FFFFFFFFFFFFF = some ⟨0, []⟩ ∧ mpz_set_d 0x7FF8000000000000 = none ∧ mpz_set_d 0xFFF0000000000000 = none ∧
    mpz_set_d 0x4340000000000001 = some ⟨1, [2 ^ 53 + 2]⟩ := by decide

/-! ## 6. Comparing an integer with a double -/

/-- cmp_d_spec.  `dblInt b` = d·2^1074 is the exact value of the finite double (scaled to an integer).
    * NaN: both functions raise the invalid-operation exception (`none`);
    * ±∞: mpz_cmp_d returns -1 for +∞ and +1 for -∞ whatever z is; mpz_cmpabs_d returns -1;
    * finite d (zeros, denormals, normals): the sign of mpz_cmp_d is the sign of the exact difference z - d,
      and the sign of mpz_cmpabs_d is the sign of |z| - |d|.  So both agree with the order of `cmp_total_order`
      extended to the doubles' exact values. -/
theorem cmp_d_spec (z : Z) (hz : z.wf) (b : Nat) :
    (isNaN b = true → mpz_cmp_d z b = none ∧ mpz_cmpabs_d z b = none) ∧
    (isInf b = true → mpz_cmp_d z b = some (if sigOf b = 1 then 1 else -1) ∧ mpz_cmpabs_d z b = some (-1)) ∧
    (expOf b ≠ 2047 →
      (∃ r, mpz_cmp_d z b = some r ∧ sgn r = sgn (z.toInt * 2 ^ 1074 - dblInt b)) ∧
      (∃ r, mpz_cmpabs_d z b = some r ∧ sgn r = sgn ((z.toInt.natAbs : Int) * 2 ^ 1074 - dblNum b))) := by
  refine ⟨fun h => ?_, fun h => ?_, fun hf => ?_⟩
  · unfold mpz_cmp_d mpz_cmpabs_d; rw [h]; simp
  · have hn : isNaN b = false := by
      unfold isNaN; unfold isInf at h; simp at h; simp [h.1, h.2]
    have hzf : isZero b = false := by
      unfold isInf expOf at h; unfold isZero; simp at h ⊢; omega
    have hneg : isNeg b = decide (sigOf b = 1) := by unfold isNeg; rw [hzf]; simp
    unfold mpz_cmp_d mpz_cmpabs_d; rw [hn, h, hneg]
    by_cases c : sigOf b = 1 <;> simp [c]
  · obtain ⟨a1, a2, a3, a4, _⟩ := absBits_fields b
    have hn : isNaN b = false := by unfold isNaN; simp [hf]
    have hi : isInf b = false := by unfold isInf; simp [hf]
    have habs : absBits b < 2 ^ 63 := by unfold absBits; omega
    obtain ⟨s1, s2, s3⟩ := Z.toInt_sign hz
    obtain ⟨w0, w1, _⟩ := Z.wf_bounds hz
    have hna := Z.natAbs_toInt z
    have p1074 : (0 : Int) < 2 ^ 1074 := by positivity
    have tail : ∀ ret : Int, z.size ≠ 0 → isZero b = false →
        cmpTailD z.d (z.size.natAbs : Int) (absBits b) ret = ret * sgn ((val z.d : Int) * 2 ^ 1074 - dblNum b) := by
      intro ret hs hzb
      have hne : z.d ≠ [] := by intro e; have := hz.1; rw [e] at this; simp at this; omega
      rw [← a4]
      exact cmpTailD_spec z.d hz.2.1 hz.2.2 hne _ (by rw [hz.1]) (absBits b) habs (by rw [a3]; exact hzb) (by rw [a1]; exact hf) ret
    generalize (2 : Int) ^ 1074 = S at *
    constructor
    · -- mpz_cmp_d
      unfold mpz_cmp_d
      rw [hn, hi]
      simp only [Bool.false_eq_true, if_false]
      by_cases hzb : isZero b = true
      · rw [if_pos hzb]
        refine ⟨_, rfl, ?_⟩
        have : dblInt b = 0 := by unfold dblInt; rw [dblNum_zero hzb]; simp
        rw [this, sub_zero]
        rcases lt_trichotomy z.size 0 with h | h | h
        · exact sgn_eq_neg h (mul_neg_of_neg_of_pos (s1 h) p1074)
        · rw [h, s2 h]; simp
        · exact sgn_eq_pos h (mul_pos (s3 h) p1074)
      · have hzb' : isZero b = false := by simpa using hzb
        have dpos := dblNum_pos hzb'
        have hneg : (isNeg b = true) ↔ sigOf b = 1 := by unfold isNeg; rw [hzb']; simp
        rw [if_neg hzb]
        by_cases h0 : z.size = 0
        · rw [if_pos h0]
          refine ⟨_, rfl, ?_⟩
          rw [s2 h0, zero_mul, zero_sub]
          unfold dblInt
          by_cases c : sigOf b = 1
          · rw [if_pos (hneg.mpr c), if_pos c]; exact sgn_eq_pos (by decide) (by omega)
          · rw [if_neg (fun h => c (hneg.mp h)), if_neg c]; exact sgn_eq_neg (by decide) (by omega)
        · rw [if_neg h0]
          have vpos : 0 < val z.d := lt_of_lt_of_le (Bpow_pos _) (w1 h0)
          by_cases c1 : z.size ≥ 0 ∧ isNeg b = true
          · rw [if_pos c1]
            refine ⟨_, rfl, ?_⟩
            have := s3 (by omega)
            have hd : dblInt b < 0 := by unfold dblInt; rw [if_pos (hneg.mp c1.2)]; omega
            have := mul_pos this p1074
            exact sgn_eq_pos (by decide) (by linarith)
          · rw [if_neg c1]
            by_cases c2 : z.size < 0 ∧ (!isNeg b) = true
            · rw [if_pos c2]
              refine ⟨_, rfl, ?_⟩
              have := s1 c2.1
              have nn : ¬ sigOf b = 1 := fun h => by have := hneg.mpr h; simp [this] at c2
              have hd : 0 < dblInt b := by unfold dblInt; rw [if_neg nn]; omega
              have := mul_neg_of_neg_of_pos this p1074
              exact sgn_eq_neg (by decide) (by linarith)
            · rw [if_neg c2]
              refine ⟨_, rfl, ?_⟩
              rw [tail _ h0 hzb']
              by_cases hp : z.size ≥ 0
              · have nn : ¬ sigOf b = 1 := fun h => c1 ⟨hp, hneg.mpr h⟩
                have ti : z.toInt = (val z.d : Int) := by unfold Z.toInt; rw [if_neg (by omega)]
                rw [if_pos hp, one_mul, sgn_sgn, ti]
                unfold dblInt; rw [if_neg nn]
              · have nn : sigOf b = 1 := by
                  by_contra h
                  have hb : isNeg b = false := by
                    cases hq : isNeg b with
                    | false => rfl
                    | true => exact absurd (hneg.mp hq) h
                  exact c2 ⟨by omega, by rw [hb]; rfl⟩
                have ti : z.toInt = -(val z.d : Int) := by unfold Z.toInt; rw [if_pos (by omega)]
                rw [if_neg hp, ti]
                unfold dblInt; rw [if_pos nn]
                have : -(val z.d : Int) * S - -(dblNum b : Int) = -((val z.d : Int) * S - dblNum b) := by ring
                rw [this, sgn_neg_eq, neg_one_mul, sgn_neg_eq, sgn_sgn]
    · -- mpz_cmpabs_d
      unfold mpz_cmpabs_d
      rw [hn, hi, hna]
      simp only [Bool.false_eq_true, if_false]
      by_cases hzb : isZero b = true
      · rw [if_pos hzb, dblNum_zero hzb]
        refine ⟨_, rfl, ?_⟩
        simp only [Nat.cast_zero, sub_zero]
        by_cases h0 : z.size = 0
        · rw [if_neg (by simpa using h0), w0 h0]; simp
        · rw [if_pos h0]
          have vpos : 0 < val z.d := lt_of_lt_of_le (Bpow_pos _) (w1 h0)
          exact sgn_eq_pos (by decide) (mul_pos (by exact_mod_cast vpos) p1074)
      · have hzb' : isZero b = false := by simpa using hzb
        have dpos := dblNum_pos hzb'
        rw [if_neg hzb]
        by_cases h0 : z.size = 0
        · rw [if_pos h0, w0 h0]
          refine ⟨_, rfl, ?_⟩
          exact sgn_eq_neg (by decide) (by simp; omega)
        · rw [if_neg h0]
          refine ⟨_, rfl, ?_⟩
          rw [tail _ h0 hzb', one_mul, sgn_sgn]

-- non-vacuity: 2^53+1 against the double 2^53 (equal after truncation, but the comparison is exact: greater);
-- a negative two-limb value against -2^64; a fraction; infinities; NaN
example : mpz_cmp_d ⟨1, [2 ^ 53 + 1]⟩ 0x4340000000000000 = some 1 ∧ mpz_cmp_d ⟨-2, [0, 1]⟩ 0xC3F0000000000000 = some 0 ∧
    mpz_cmp_d ⟨1, [1]⟩ 0x3FF8000000000000 = some (-1) ∧ mpz_cmpabs_d ⟨-1, [2]⟩ 0x3FF8000000000000 = some 1 ∧
    mpz_cmp_d ⟨1, [1]⟩ 0xFFF0000000000000 = some 1 ∧ mpz_cmp_d ⟨1, [1]⟩ 0x7FF8000000000000 = none ∧
    dblInt 0x8000000000000003 = -3 := by decide

/-! ## 7. mpf: conversion to double -/

/-- mpf_get_d_spec.  An mpf is F.mant · B^(exp - |size|) (signed integer mantissa, limb exponent).  mpf_get_d returns
    that value truncated toward zero to a double — ±∞ above the double range, denormals truncated, +0.0 below —
    for every well-formed operand and EVERY exponent of an mp_exp_t (the bit exponent (exp - |size|)·64 need not
    fit a `long`: mpf/get_d.c:39-44 saturates; before /repo commit 0f91e63 it overflowed).
    Hypotheses: |size| < 2^31 (`_mp_size` is an int) and exp - |size| is representable in a long. -/
theorem mpf_get_d_spec (f : F) (hf : f.wf) (hsz : f.d.length < 2 ^ 31)
    (he1 : LONG_MIN ≤ f.exp - f.size.natAbs) (he2 : f.exp - f.size.natAbs ≤ LONG_MAX) :
    mpf_get_d f = truncToDouble f.mant ((f.exp - f.size.natAbs) * 64) ∧
    decode (mpf_get_d f) = truncate53 f.mant ((f.exp - f.size.natAbs) * 64) := by
  have main : mpf_get_d f = truncToDouble f.mant ((f.exp - f.size.natAbs) * 64) := by
    unfold mpf_get_d
    by_cases h0 : f.size = 0
    · have : val f.d = 0 := val_eq_zero_of_nil (by rw [hf.1, h0]; rfl)
      unfold F.mant
      rw [if_pos h0, this, h0]; simp [truncToDouble_zero]
    · rw [if_neg h0]
      dsimp only
      have hne : f.d ≠ [] := by intro e; have := hf.1; rw [e] at this; simp at this; omega
      obtain ⟨hbl, hls⟩ := bitlen_val hf.2.1 hne hf.2.2.1
      have hn : 1 ≤ f.d.length := by cases hd : f.d with | nil => exact absurd hd hne | cons _ _ => simp
      have hv : 1 ≤ val f.d := le_trans (Bpow_pos _) (val_ge_of_top f.d hne hf.2.2.1)
      have hx : f.mant ≠ 0 := by unfold F.mant; split <;> omega
      have hxa : f.mant.natAbs = val f.d := by unfold F.mant; split <;> omega
      have hsz' : f.d.length < 2 ^ 57 := by omega
      have hmant : (if f.size < 0 then -(val f.d : Int) else (val f.d : Int)) = f.mant := rfl
      unfold LONG_MIN at he1; unfold LONG_MAX at he2
      obtain ⟨EMAX, hEMAX⟩ : ∃ E : Int, E = LONG_MAX := ⟨_, rfl⟩
      obtain ⟨EMIN, hEMIN⟩ : ∃ E : Int, E = LONG_MIN / 2 := ⟨_, rfl⟩
      have q0 : EMAX = 2 ^ 63 - 1 := by rw [hEMAX]; rfl
      have q1 : LONG_MAX / 64 = 2 ^ 57 - 1 := by unfold LONG_MAX; norm_num
      have q2 : LONG_MIN / 64 = -(2 ^ 57) := by unfold LONG_MIN; norm_num
      have q3 : EMIN = -(2 ^ 62) := by rw [hEMIN]; unfold LONG_MIN; norm_num
      rw [q1, q2, ← hEMAX, ← hEMIN]
      clear hEMAX hEMIN q1 q2
      by_cases big : f.exp - (f.size.natAbs : Int) > 2 ^ 57 - 1
      · rw [if_pos big]
        have e := mpn_get_d_eq f.d f.size EMAX hf.2.1 hf.2.2.1 hsz' (by unfold LONG_MIN; omega) (by unfold LONG_MAX; omega)
        rw [e, hmant]
        obtain ⟨c1, _, _, _⟩ := trunc_cases f.mant EMAX hx
        obtain ⟨d1, _, _, _⟩ := trunc_cases f.mant ((f.exp - (f.size.natAbs : Int)) * 64) hx
        rw [hxa] at c1 d1
        have g1 : (bitlen (val f.d) : Int) + EMAX > 1024 := by omega
        have g2 : (bitlen (val f.d) : Int) + (f.exp - (f.size.natAbs : Int)) * 64 > 1024 := by omega
        rw [c1 g1]; exact (d1 g2).symm
      · rw [if_neg big]
        by_cases small : f.exp - (f.size.natAbs : Int) < -(2 ^ 57)
        · rw [if_pos small]
          have e := mpn_get_d_eq f.d f.size EMIN hf.2.1 hf.2.2.1 hsz' (by unfold LONG_MIN; omega) (by unfold LONG_MAX; omega)
          rw [e, hmant]
          obtain ⟨_, _, _, c4⟩ := trunc_cases f.mant EMIN hx
          obtain ⟨_, _, _, d4⟩ := trunc_cases f.mant ((f.exp - (f.size.natAbs : Int)) * 64) hx
          rw [hxa] at c4 d4
          have g1 : (bitlen (val f.d) : Int) + EMIN ≤ -1074 := by omega
          have g2 : (bitlen (val f.d) : Int) + (f.exp - (f.size.natAbs : Int)) * 64 ≤ -1074 := by omega
          rw [c4 g1]; exact (d4 g2).symm
        · rw [if_neg small]
          exact mpn_get_d_eq f.d f.size _ hf.2.1 hf.2.2.1 hsz' (by unfold LONG_MIN; omega) (by unfold LONG_MAX; omega)
  exact ⟨main, by rw [main]; exact decode_truncToDouble _ _⟩

-- non-vacuity: 1.5 = [2^63, 1]·B^(1-2); -(2^64+1)·B^16 overflows; 1·B^-17 = 2^-1088 is below the denormals;
-- 1.5·2^-1074 truncates to the smallest denormal
example : mpf_get_d ⟨2, 1, [2 ^ 63, 1]⟩ = 0x3FF8000000000000 ∧ mpf_get_d ⟨-2, 18, [1, 1]⟩ = 0xFFF0000000000000 ∧
    mpf_get_d ⟨1, -16, [1]⟩ = 0 ∧ mpf_get_d ⟨1, -16, [3 * 2 ^ 13]⟩ = 1 ∧
    mpf_get_d ⟨1, 2 ^ 58, [2 ^ 63]⟩ = 0x7FF0000000000000 ∧ mpf_get_d ⟨1, -(2 ^ 58) + 1, [2]⟩ = 0 := by decide

/-- mpf_get_d_2exp: the exponent is the bit position just above the value's leading bit and the double is the
    mantissa scaled into [0.5, 1) and truncated: decoded, d = ± m·2^-53 with m the 53 leading bits. -/
theorem mpf_get_d_2exp_spec (f : F) (hf : f.wf) (hnz : f.size ≠ 0) (hsz : f.d.length < 2 ^ 57) :
    (mpf_get_d_2exp f).2 = f.exp * 64 - (64 * f.d.length - bitlen (val f.d) : Nat) ∧
    (mpf_get_d_2exp f).1 = truncToDouble f.mant (-(bitlen (val f.d) : Int)) ∧
    decode (mpf_get_d_2exp f).1 = .fin (decide (f.mant < 0)) (shiftZ (val f.d) (53 - (bitlen (val f.d) : Int))) (-53) ∧
    2 ^ 52 ≤ shiftZ (val f.d) (53 - (bitlen (val f.d) : Int)) ∧ shiftZ (val f.d) (53 - (bitlen (val f.d) : Int)) < 2 ^ 53 := by
  have hne : f.d ≠ [] := by intro e; have := hf.1; rw [e] at this; simp at this; omega
  obtain ⟨hbl, hls⟩ := bitlen_val hf.2.1 hne hf.2.2.1
  have hlen := hf.1
  have hn : 1 ≤ f.d.length := by cases hd : f.d with | nil => exact absurd hd hne | cons _ _ => simp
  have hv : 1 ≤ val f.d := le_trans (Bpow_pos _) (val_ge_of_top f.d hne hf.2.2.1)
  have hx : f.mant ≠ 0 := by unfold F.mant; split <;> omega
  have hxa : f.mant.natAbs = val f.d := by unfold F.mant; split <;> omega
  have e1 : (mpf_get_d_2exp f).2 = f.exp * 64 - (64 * f.d.length - bitlen (val f.d) : Nat) := by
    unfold mpf_get_d_2exp; rw [if_neg hnz]; dsimp only
    rw [hbl, ← hlen]; omega
  have e2 : (mpf_get_d_2exp f).1 = truncToDouble f.mant (-(bitlen (val f.d) : Int)) := by
    unfold mpf_get_d_2exp; rw [if_neg hnz]; dsimp only
    have hexp : ((f.size.natAbs : Int) * 64 - (clz64 (f.d.getD (f.size.natAbs - 1) 0) : Int)) = (bitlen (val f.d) : Int) := by
      rw [hbl, ← hlen]; omega
    rw [hexp]
    have hb : (bitlen (val f.d) : Int) ≤ 2 ^ 63 := by rw [hbl]; omega
    have := mpn_get_d_eq f.d f.size (-(bitlen (val f.d) : Int)) hf.2.1 hf.2.2.1 hsz
      (by unfold LONG_MIN; omega) (by unfold LONG_MAX; omega)
    rw [this]; rfl
  obtain ⟨_, c2, _, _⟩ := truncate53_clauses f.mant (-(bitlen (val f.d) : Int)) hx
  rw [hxa] at c2
  obtain ⟨dd, t1, t2⟩ := c2 (by omega) (by omega)
  refine ⟨e1, e2, ?_, t1, t2⟩
  rw [e2, decode_truncToDouble, dd]; congr 1; omega

example : mpf_get_d_2exp ⟨2, 1, [2 ^ 63, 1]⟩ = (0x3FE8000000000000, 1) ∧ mpf_get_d_2exp ⟨-1, -3, [5]⟩ = (0xBFE4000000000000, -253) := by decide

/-! ## 8. mpf comparisons -/

/-- mpf_cmp_spec.  An mpf is the exact number F.mant · B^F.lowExp (signed integer mantissa, limb exponent of the
    lowest limb).  For all well-formed operands — any precisions, sizes, exponents, low zero limbs allowed —
    the sign of mpf_cmp u v is the sign of the exact difference u - v, written with integers by scaling both
    numbers with B^(-min of the two low exponents).  So mpf_cmp is a total order consistent with the values. -/
theorem mpf_cmp_spec (u v : F) (hu : u.wf) (hv : v.wf) :
    sgn (mpf_cmp u v) =
      sgn (u.mant * ((B ^ (u.lowExp - min u.lowExp v.lowExp).toNat : Nat) : Int)
         - v.mant * ((B ^ (v.lowExp - min u.lowExp v.lowExp).toNat : Nat) : Int)) := by
  obtain ⟨u0, u1, u2⟩ := F.wf_bounds hu
  obtain ⟨v0, v1, v2⟩ := F.wf_bounds hv
  have hPA : (0 : Int) < ((B ^ (u.lowExp - min u.lowExp v.lowExp).toNat : Nat) : Int) := by exact_mod_cast Bpow_pos _
  have hPB : (0 : Int) < ((B ^ (v.lowExp - min u.lowExp v.lowExp).toNat : Nat) : Int) := by exact_mod_cast Bpow_pos _
  have hvu : (0 : Int) ≤ val u.d := by positivity
  have hvv : (0 : Int) ≤ val v.d := by positivity
  have upos : u.size ≠ 0 → (0 : Int) < val u.d := fun h => by
    have := lt_of_lt_of_le (Bpow_pos _) (u1 h); exact_mod_cast this
  have vpos : v.size ≠ 0 → (0 : Int) < val v.d := fun h => by
    have := lt_of_lt_of_le (Bpow_pos _) (v1 h); exact_mod_cast this
  unfold mpf_cmp
  dsimp only
  by_cases hs : (decide (u.size < 0) != decide (v.size < 0)) = true
  · rw [if_pos hs]
    have hs' : (u.size < 0 ∧ ¬ v.size < 0) ∨ (¬ u.size < 0 ∧ v.size < 0) := by
      by_cases a : u.size < 0 <;> by_cases b : v.size < 0 <;> simp [a, b] at hs ⊢
    unfold F.mant
    rcases hs' with ⟨a, b⟩ | ⟨a, b⟩
    · rw [if_neg (by omega), if_pos a, if_neg b]
      have := upos (by omega)
      exact sgn_eq_neg (by decide) (by nlinarith [mul_pos this hPA, mul_nonneg hvv (le_of_lt hPB)])
    · rw [if_pos (by omega), if_neg a, if_pos b]
      have := vpos (by omega)
      exact sgn_eq_pos (by decide) (by nlinarith [mul_pos this hPB, mul_nonneg hvu (le_of_lt hPA)])
  · rw [if_neg hs]
    have same : (u.size < 0 ↔ v.size < 0) := by
      by_cases a : u.size < 0 <;> by_cases b : v.size < 0 <;> simp [a, b] at hs ⊢
    by_cases hu0 : u.size = 0
    · rw [if_pos hu0]
      have hm : u.mant = 0 := by unfold F.mant; rw [u0 hu0]; simp
      rw [hm, zero_mul, zero_sub]
      have vn : ¬ v.size < 0 := fun h => by have := same.mpr h; omega
      unfold F.mant; rw [if_neg vn]
      by_cases hv0 : v.size = 0
      · rw [if_neg (by simpa using hv0), v0 hv0]; simp
      · rw [if_pos hv0]
        exact sgn_eq_neg (by decide) (by nlinarith [mul_pos (vpos hv0) hPB])
    · rw [if_neg hu0]
      by_cases hv0 : v.size = 0
      · rw [if_pos hv0, if_pos hu0]
        have un : ¬ u.size < 0 := fun h => by have := same.mp h; omega
        have hm : v.mant = 0 := by unfold F.mant; rw [v0 hv0]; simp
        rw [hm, zero_mul, sub_zero]
        unfold F.mant; rw [if_neg un]
        exact sgn_eq_pos (by decide) (mul_pos (upos hu0) hPA)
      · rw [if_neg hv0]
        -- same sign, both non-zero: everything is usign·(|u| - |v|)
        generalize hsg : (if u.size ≥ 0 then (1 : Int) else -1) = usign
        have hsg' : usign = 1 ∨ usign = -1 := by rw [← hsg]; by_cases a : u.size ≥ 0 <;> simp [a]
        have mu : u.mant = usign * val u.d := by
          unfold F.mant; rw [← hsg]
          by_cases a : u.size ≥ 0
          · rw [if_neg (by omega), if_pos a]; ring
          · rw [if_pos (by omega), if_neg a]; ring
        have mv : v.mant = usign * val v.d := by
          unfold F.mant; rw [← hsg]
          by_cases a : u.size ≥ 0
          · rw [if_neg (fun h => by have := same.mpr h; omega), if_pos a]; ring
          · rw [if_pos (same.mp (by omega)), if_neg a]; ring
        have goal_form : ∀ r : Int,
            r = usign * sgn ((val u.d : Int) * ((B ^ (u.lowExp - min u.lowExp v.lowExp).toNat : Nat) : Int)
              - (val v.d : Int) * ((B ^ (v.lowExp - min u.lowExp v.lowExp).toNat : Nat) : Int)) →
            sgn r = sgn (u.mant * ((B ^ (u.lowExp - min u.lowExp v.lowExp).toNat : Nat) : Int)
              - v.mant * ((B ^ (v.lowExp - min u.lowExp v.lowExp).toNat : Nat) : Int)) := by
          intro r hr
          rw [hr, sgn_usign_mul _ _ hsg', mu, mv]; congr 1; ring
        apply goal_form
        have ul := hu.1
        have vl := hv.1
        have unn : 1 ≤ u.size.natAbs := by omega
        have vnn : 1 ≤ v.size.natAbs := by omega
        have hu1 := u1 hu0
        have hv1 := v1 hv0
        by_cases g : u.exp > v.exp
        · rw [if_pos g]
          -- |u| ≥ B^(u.exp-1) ≥ B^v.exp > |v|
          have hexp : v.size.natAbs + (v.lowExp - min u.lowExp v.lowExp).toNat ≤
              (u.size.natAbs - 1) + (u.lowExp - min u.lowExp v.lowExp).toNat := by
            unfold F.lowExp; omega
          have h1 : val v.d * B ^ (v.lowExp - min u.lowExp v.lowExp).toNat <
              val u.d * B ^ (u.lowExp - min u.lowExp v.lowExp).toNat := by
            calc val v.d * B ^ (v.lowExp - min u.lowExp v.lowExp).toNat
                < B ^ v.size.natAbs * B ^ (v.lowExp - min u.lowExp v.lowExp).toNat := Nat.mul_lt_mul_of_pos_right v2 (Bpow_pos _)
              _ = B ^ (v.size.natAbs + (v.lowExp - min u.lowExp v.lowExp).toNat) := by rw [pow_add]
              _ ≤ B ^ ((u.size.natAbs - 1) + (u.lowExp - min u.lowExp v.lowExp).toNat) := pow_le_pow_B hexp
              _ = B ^ (u.size.natAbs - 1) * B ^ (u.lowExp - min u.lowExp v.lowExp).toNat := by rw [pow_add]
              _ ≤ val u.d * B ^ (u.lowExp - min u.lowExp v.lowExp).toNat := Nat.mul_le_mul_right _ hu1
          have h2 : (0 : Int) < (val u.d : Int) * ((B ^ (u.lowExp - min u.lowExp v.lowExp).toNat : Nat) : Int)
              - (val v.d : Int) * ((B ^ (v.lowExp - min u.lowExp v.lowExp).toNat : Nat) : Int) := by
            have : ((val v.d * B ^ (v.lowExp - min u.lowExp v.lowExp).toNat : Nat) : Int) <
                ((val u.d * B ^ (u.lowExp - min u.lowExp v.lowExp).toNat : Nat) : Int) := by exact_mod_cast h1
            push_cast at this ⊢; linarith
          rw [sgn_pos h2, mul_one]
        · rw [if_neg g]
          by_cases g2 : u.exp < v.exp
          · rw [if_pos g2]
            have hexp : u.size.natAbs + (u.lowExp - min u.lowExp v.lowExp).toNat ≤
                (v.size.natAbs - 1) + (v.lowExp - min u.lowExp v.lowExp).toNat := by
              unfold F.lowExp; omega
            have h1 : val u.d * B ^ (u.lowExp - min u.lowExp v.lowExp).toNat <
                val v.d * B ^ (v.lowExp - min u.lowExp v.lowExp).toNat := by
              calc val u.d * B ^ (u.lowExp - min u.lowExp v.lowExp).toNat
                  < B ^ u.size.natAbs * B ^ (u.lowExp - min u.lowExp v.lowExp).toNat := Nat.mul_lt_mul_of_pos_right u2 (Bpow_pos _)
                _ = B ^ (u.size.natAbs + (u.lowExp - min u.lowExp v.lowExp).toNat) := by rw [pow_add]
                _ ≤ B ^ ((v.size.natAbs - 1) + (v.lowExp - min u.lowExp v.lowExp).toNat) := pow_le_pow_B hexp
                _ = B ^ (v.size.natAbs - 1) * B ^ (v.lowExp - min u.lowExp v.lowExp).toNat := by rw [pow_add]
                _ ≤ val v.d * B ^ (v.lowExp - min u.lowExp v.lowExp).toNat := Nat.mul_le_mul_right _ hv1
            have h2 : (val u.d : Int) * ((B ^ (u.lowExp - min u.lowExp v.lowExp).toNat : Nat) : Int)
                - (val v.d : Int) * ((B ^ (v.lowExp - min u.lowExp v.lowExp).toNat : Nat) : Int) < 0 := by
              have : ((val u.d * B ^ (u.lowExp - min u.lowExp v.lowExp).toNat : Nat) : Int) <
                  ((val v.d * B ^ (v.lowExp - min u.lowExp v.lowExp).toNat : Nat) : Int) := by exact_mod_cast h1
              push_cast at this ⊢; linarith
            rw [sgn_neg h2]; ring
          · rw [if_neg g2]
            have hE : u.exp = v.exp := by omega
            obtain ⟨su1, su2⟩ := stripLow_val u.d
            obtain ⟨sv1, sv2⟩ := stripLow_val v.d
            have hK1 : (stripLow u.d).length ≤ max u.d.length v.d.length := by omega
            have hK2 : (stripLow v.d).length ≤ max u.d.length v.d.length := by omega
            rw [mpf_cmp_limbs_spec _ _ (Limbs_stripLow hu.2.1) (Limbs_stripLow hv.2.1) (stripLow_headNZ _) (stripLow_headNZ _)
              usign (max u.d.length v.d.length) hK1 hK2]
            have ea : (u.lowExp - min u.lowExp v.lowExp).toNat = max u.d.length v.d.length - u.d.length := by
              unfold F.lowExp; omega
            have eb : (v.lowExp - min u.lowExp v.lowExp).toNat = max u.d.length v.d.length - v.d.length := by
              unfold F.lowExp; omega
            rw [ea, eb]
            have pu : val u.d * B ^ (max u.d.length v.d.length - u.d.length) =
                val (stripLow u.d) * B ^ (max u.d.length v.d.length - (stripLow u.d).length) := by
              have : max u.d.length v.d.length - (stripLow u.d).length =
                  (u.d.length - (stripLow u.d).length) + (max u.d.length v.d.length - u.d.length) := by omega
              rw [this, pow_add]; conv_lhs => rw [su2]
              ring
            have pv : val v.d * B ^ (max u.d.length v.d.length - v.d.length) =
                val (stripLow v.d) * B ^ (max u.d.length v.d.length - (stripLow v.d).length) := by
              have : max u.d.length v.d.length - (stripLow v.d).length =
                  (v.d.length - (stripLow v.d).length) + (max u.d.length v.d.length - v.d.length) := by omega
              rw [this, pow_add]; conv_lhs => rw [sv2]
              ring
            have pu' : (val u.d : Int) * ((B ^ (max u.d.length v.d.length - u.d.length) : Nat) : Int) =
                (val (stripLow u.d) : Int) * ((B ^ (max u.d.length v.d.length - (stripLow u.d).length) : Nat) : Int) := by
              exact_mod_cast pu
            have pv' : (val v.d : Int) * ((B ^ (max u.d.length v.d.length - v.d.length) : Nat) : Int) =
                (val (stripLow v.d) : Int) * ((B ^ (max u.d.length v.d.length - (stripLow v.d).length) : Nat) : Int) := by
              exact_mod_cast pv
            rw [pu', pv']

-- non-vacuity: 1.5 against 1.5 written with a low zero limb (equal); against 1.5 + B^-2 (less);
-- different exponents; opposite signs; zero
example : mpf_cmp ⟨2, 1, [2 ^ 63, 1]⟩ ⟨3, 1, [0, 2 ^ 63, 1]⟩ = 0 ∧ mpf_cmp ⟨2, 1, [2 ^ 63, 1]⟩ ⟨3, 1, [1, 2 ^ 63, 1]⟩ = -1 ∧
    mpf_cmp ⟨-1, 2, [1]⟩ ⟨-1, 1, [7]⟩ = -1 ∧ mpf_cmp ⟨1, -5, [1]⟩ ⟨-1, 9, [1]⟩ = 1 ∧ mpf_cmp ⟨0, 0, []⟩ ⟨-1, 0, [1]⟩ = 1 := by decide

/-- mpf_set_d: NaN and ±∞ raise; ±0 gives 0; every other finite double is stored EXACTLY in two limbs
    (no rounding whatever the precision of the destination): well formed, sign as the double's,
    |mant|·B^lowExp = |d|, written without negative powers as |mant|·2^(64·(lowExp+2) + 1074) = (|d|·2^1074)·2^128. -/
theorem mpf_set_d_spec (b : Nat) :
    (expOf b = 2047 → mpf_set_d b = none) ∧
    (expOf b ≠ 2047 → isZero b = true → mpf_set_d b = some ⟨0, 0, []⟩) ∧
    (expOf b ≠ 2047 → isZero b = false → ∃ f, mpf_set_d b = some f ∧ f.wf ∧ (f.mant < 0 ↔ sigOf b = 1) ∧
      0 ≤ 64 * (f.lowExp + 2) + 1074 ∧
      f.mant.natAbs * 2 ^ (64 * (f.lowExp + 2) + 1074).toNat = dblNum b * 2 ^ 128) := by
  refine ⟨fun h => ?_, fun hf hz => ?_, fun hf hz => ?_⟩
  · unfold mpf_set_d isNaN isInf
    by_cases m : manOf b = 0 <;> simp [h, m]
  · have hni : (isNaN b || isInf b) = false := by unfold isNaN isInf; simp [hf]
    unfold mpf_set_d; rw [hni, hz]; simp
  · obtain ⟨a1, a2, a3, a4, _⟩ := absBits_fields b
    have hni : (isNaN b || isInf b) = false := by unfold isNaN isInf; simp [hf]
    have hneg : (isNeg b = true) ↔ sigOf b = 1 := by unfold isNeg; rw [hz]; simp
    obtain ⟨r0, r1, ex, he, h0, h1, h1', x1, x2, hrel, _, _⟩ := extract_double_eq (absBits b) (by rw [a3]; exact hz) (by rw [a1]; exact hf)
    rw [a4] at hrel
    unfold mpf_set_d
    rw [hni, hz, he]
    simp only [Bool.false_eq_true, if_false]
    refine ⟨_, rfl, ⟨?_, Limbs_cons.mpr ⟨h0, Limbs_cons.mpr ⟨h1', Limbs_nil⟩⟩, fun _ => by simp; omega, ?_⟩, ?_, ?_, ?_⟩
    · by_cases c : isNeg b = true <;> simp [c]
    · intro h; by_cases c : isNeg b = true <;> simp [c] at h
    · have hv : 0 < val [r0, r1] := by simp only [val_cons, val_nil]; nlinarith [B_pos]
      unfold F.mant; dsimp only
      by_cases c : isNeg b = true
      · simp only [c, if_true]; rw [if_pos (by decide)]
        constructor
        · intro _; exact hneg.mp c
        · intro _; omega
      · simp only [c, if_false]; rw [if_neg (by decide)]
        constructor
        · intro h; omega
        · intro h; exact absurd (hneg.mpr h) c
    · unfold F.lowExp; dsimp only
      by_cases c : isNeg b = true <;> simp [c] <;> omega
    · have hv : val [r0, r1] = r1 * B + r0 := by simp only [val_cons, val_nil]; ring
      have hm : (F.mant ⟨if isNeg b = true then -2 else 2, ex, [r0, r1]⟩).natAbs = r1 * B + r0 := by
        unfold F.mant; dsimp only
        rw [hv]
        generalize r1 * B + r0 = n
        by_cases c : isNeg b = true
        · simp only [c, if_true]; rw [if_pos (by decide)]; simp
        · simp only [c, if_false]; rw [if_neg (by decide)]; simp
      have hl : F.lowExp ⟨if isNeg b = true then -2 else 2, ex, [r0, r1]⟩ + 2 = ex := by
        unfold F.lowExp; dsimp only
        by_cases c : isNeg b = true <;> simp [c]
      rw [hm, hl, hrel]

example : mpf_set_d 0xBFF8000000000000 = some ⟨-2, 1, [2 ^ 63, 1]⟩ ∧ mpf_set_d 1 = some ⟨2, -16, [0, 2 ^ 14]⟩ ∧
    mpf_set_d 0x8000000000000000 = some ⟨0, 0, []⟩ ∧ mpf_set_d 0x7FF0000000000000 = none := by decide

/-- mpf_cmp_d is consistent with mpf_cmp: for a finite non-zero double it is literally the comparison with the
    exact mpf image of the double (`mpf_set_d`, which is exact by `mpf_set_d_spec`), so `mpf_cmp_spec` applies;
    for ±0 it is the sign of f; +∞ / -∞ compare above / below everything; NaN raises. -/
theorem mpf_cmp_d_spec (f : F) (hf : f.wf) (b : Nat) :
    (isNaN b = true → mpf_cmp_d f b = none) ∧
    (isInf b = true → mpf_cmp_d f b = some (if sigOf b = 1 then 1 else -1)) ∧
    (expOf b ≠ 2047 → isZero b = true → ∃ r, mpf_cmp_d f b = some r ∧ sgn r = sgn f.mant) ∧
    (expOf b ≠ 2047 → isZero b = false → ∃ g, mpf_set_d b = some g ∧ mpf_cmp_d f b = some (mpf_cmp f g)) := by
  refine ⟨fun h => ?_, fun h => ?_, fun hfin hz => ?_, fun hfin hz => ?_⟩
  · unfold mpf_cmp_d; rw [h]; simp
  · have hn : isNaN b = false := by
      unfold isNaN; unfold isInf at h; simp at h; simp [h.1, h.2]
    have hzf : isZero b = false := by
      unfold isInf expOf at h; unfold isZero; simp at h ⊢; omega
    have hneg : isNeg b = decide (sigOf b = 1) := by unfold isNeg; rw [hzf]; simp
    unfold mpf_cmp_d; rw [hn, h, hneg]
    by_cases c : sigOf b = 1 <;> simp [c]
  · have hn : isNaN b = false := by unfold isNaN; simp [hfin]
    have hi : isInf b = false := by unfold isInf; simp [hfin]
    unfold mpf_cmp_d; rw [hn, hi, hz]
    simp only [Bool.false_eq_true, if_false, if_true]
    refine ⟨_, rfl, ?_⟩
    obtain ⟨u0, u1, _⟩ := F.wf_bounds hf
    unfold F.mant
    rcases lt_trichotomy f.size 0 with h | h | h
    · have := lt_of_lt_of_le (Bpow_pos _) (u1 (by omega))
      rw [if_pos h]; exact sgn_eq_neg h (by omega)
    · rw [h, if_neg (by omega), u0 h]; simp
    · have := lt_of_lt_of_le (Bpow_pos _) (u1 (by omega))
      rw [if_neg (by omega)]; exact sgn_eq_pos h (by omega)
  · have hn : isNaN b = false := by unfold isNaN; simp [hfin]
    have hi : isInf b = false := by unfold isInf; simp [hfin]
    have hni : (isNaN b || isInf b) = false := by rw [hn, hi]; rfl
    unfold mpf_cmp_d mpf_set_d; rw [hn, hi, hz]
    simp only [Bool.false_eq_true, Bool.or_self, if_false]
    refine ⟨_, rfl, ?_⟩
    by_cases c : isNeg b = true <;> simp [c]

example : mpf_cmp_d ⟨2, 1, [2 ^ 63, 1]⟩ 0x3FF8000000000000 = some 0 ∧ mpf_cmp_d ⟨3, 1, [1, 2 ^ 63, 1]⟩ 0x3FF8000000000000 = some 1 ∧
    mpf_cmp_d ⟨-1, 1, [1]⟩ 0 = some (-1) ∧ mpf_cmp_d ⟨1, 900, [1]⟩ 0x7FF0000000000000 = some (-1) ∧
    mpf_cmp_d ⟨1, 1, [1]⟩ 0x7FF0000000000001 = none := by decide

/-- mpf_cmp_z compares with the mpf whose mantissa is the integer and whose low exponent is 0, so by
    `mpf_cmp_spec` its sign is the sign of u - v. -/
theorem mpf_cmp_z_spec (u : F) (hu : u.wf) (v : Z) (hv : v.wf) :
    sgn (mpf_cmp_z u v) =
      sgn (u.mant * ((B ^ (u.lowExp - min u.lowExp 0).toNat : Nat) : Int) - v.toInt * ((B ^ (0 - min u.lowExp 0).toNat : Nat) : Int)) := by
  have wfv : F.wf ⟨v.size, v.size.natAbs, v.d⟩ := ⟨hv.1, hv.2.1, hv.2.2, fun h => by have h' : v.size = 0 := h; simp [h']⟩
  have := mpf_cmp_spec u ⟨v.size, v.size.natAbs, v.d⟩ hu wfv
  have hl : F.lowExp ⟨v.size, v.size.natAbs, v.d⟩ = 0 := by unfold F.lowExp; simp
  have hm : F.mant ⟨v.size, v.size.natAbs, v.d⟩ = v.toInt := rfl
  rw [hl, hm] at this
  exact this

example : mpf_cmp_z ⟨2, 1, [2 ^ 63, 1]⟩ ⟨1, [1]⟩ = 1 ∧ mpf_cmp_z ⟨2, 1, [2 ^ 63, 1]⟩ ⟨1, [2]⟩ = -1 ∧ mpf_cmp_z ⟨1, 2, [1]⟩ ⟨2, [0, 1]⟩ = 0 := by decide

/-- mpf_cmp_ui: sign of the exact difference u - v for every unsigned long v (integers scaled by
    B^(-min (lowExp u) 0) as in `mpf_cmp_spec`). -/
theorem mpf_cmp_ui_spec (u : F) (hu : u.wf) (v : Nat) (hv : v < B) :
    sgn (mpf_cmp_ui u v) =
      sgn (u.mant * ((B ^ (u.lowExp - min u.lowExp 0).toNat : Nat) : Int) - (v : Int) * ((B ^ (0 - min u.lowExp 0).toNat : Nat) : Int)) := by
  obtain ⟨u0, u1, u2⟩ := F.wf_bounds hu
  have hPA : (0 : Int) < ((B ^ (u.lowExp - min u.lowExp 0).toNat : Nat) : Int) := by exact_mod_cast Bpow_pos _
  have hPB : (0 : Int) < ((B ^ (0 - min u.lowExp 0).toNat : Nat) : Int) := by exact_mod_cast Bpow_pos _
  have upos : u.size ≠ 0 → (0 : Int) < val u.d := fun h => by
    have := lt_of_lt_of_le (Bpow_pos _) (u1 h); exact_mod_cast this
  have hv0 : (0 : Int) ≤ v := by positivity
  unfold mpf_cmp_ui F.mant
  by_cases hn : u.size < 0
  · rw [if_pos hn, if_pos hn]
    exact sgn_eq_neg (by decide) (by nlinarith [mul_pos (upos (by omega)) hPA, mul_nonneg hv0 (le_of_lt hPB)])
  · rw [if_neg hn, if_neg hn]
    by_cases hvz : v = 0
    · subst hvz
      rw [if_pos rfl]
      simp only [Nat.cast_zero, zero_mul, sub_zero]
      by_cases h0 : u.size = 0
      · rw [if_neg (by simpa using h0), u0 h0]; simp
      · rw [if_pos h0]; exact sgn_eq_pos (by decide) (mul_pos (upos h0) hPA)
    · rw [if_neg hvz, mpf_cmp_limb1_spec u hu v (by omega) hv 1, one_mul, sgn_sgn]

example : mpf_cmp_ui ⟨2, 1, [2 ^ 63, 7]⟩ 7 = 1 ∧ mpf_cmp_ui ⟨2, 1, [0, 7]⟩ 7 = 0 ∧ mpf_cmp_ui ⟨1, 0, [7]⟩ 1 = -1 ∧
    mpf_cmp_ui ⟨1, 2, [1]⟩ (B - 1) = 1 ∧ mpf_cmp_ui ⟨-1, 2, [1]⟩ 0 = -1 := by decide

/-- mpf_cmp_si: sign of the exact difference u - v for every long v, LONG_MIN included. -/
theorem mpf_cmp_si_spec (u : F) (hu : u.wf) (v : Int) (h1 : LONG_MIN ≤ v) (h2 : v ≤ LONG_MAX) :
    sgn (mpf_cmp_si u v) =
      sgn (u.mant * ((B ^ (u.lowExp - min u.lowExp 0).toNat : Nat) : Int) - v * ((B ^ (0 - min u.lowExp 0).toNat : Nat) : Int)) := by
  obtain ⟨u0, u1, u2⟩ := F.wf_bounds hu
  unfold LONG_MIN at h1; unfold LONG_MAX at h2
  have hPA : (0 : Int) < ((B ^ (u.lowExp - min u.lowExp 0).toNat : Nat) : Int) := by exact_mod_cast Bpow_pos _
  have hPB : (0 : Int) < ((B ^ (0 - min u.lowExp 0).toNat : Nat) : Int) := by exact_mod_cast Bpow_pos _
  have hvu : (0 : Int) ≤ val u.d := by positivity
  have upos : u.size ≠ 0 → (0 : Int) < val u.d := fun h => by
    have := lt_of_lt_of_le (Bpow_pos _) (u1 h); exact_mod_cast this
  unfold mpf_cmp_si
  by_cases hs : (decide (u.size < 0) != decide (v < 0)) = true
  · rw [if_pos hs]
    have hs' : (u.size < 0 ∧ ¬ v < 0) ∨ (¬ u.size < 0 ∧ v < 0) := by
      by_cases a : u.size < 0 <;> by_cases b : v < 0 <;> simp [a, b] at hs ⊢
    unfold F.mant
    rcases hs' with ⟨a, b⟩ | ⟨a, b⟩
    · rw [if_neg (by omega), if_pos a]
      have := upos (by omega)
      exact sgn_eq_neg (by decide) (by nlinarith [mul_pos this hPA, mul_nonneg (show (0 : Int) ≤ v by omega) (le_of_lt hPB)])
    · rw [if_pos (by omega), if_neg a]
      exact sgn_eq_pos (by decide) (by nlinarith [mul_nonneg hvu (le_of_lt hPA), mul_pos (show (0 : Int) < -v by omega) hPB])
  · rw [if_neg hs]
    have same : (u.size < 0 ↔ v < 0) := by
      by_cases a : u.size < 0 <;> by_cases b : v < 0 <;> simp [a, b] at hs ⊢
    by_cases hu0 : u.size = 0
    · rw [if_pos hu0]
      have hm : u.mant = 0 := by unfold F.mant; rw [u0 hu0]; simp
      have vn : ¬ v < 0 := fun h => by have := same.mpr h; omega
      rw [hm, zero_mul, zero_sub]
      by_cases hv0 : v = 0
      · subst hv0; simp
      · rw [if_pos hv0]
        exact sgn_eq_neg (by decide) (by nlinarith [mul_pos (show (0 : Int) < v by omega) hPB])
    · rw [if_neg hu0]
      by_cases hv0 : v = 0
      · subst hv0
        rw [if_pos rfl, if_pos hu0, zero_mul, sub_zero]
        have un : ¬ u.size < 0 := fun h => by have := same.mp h; omega
        unfold F.mant; rw [if_neg un]
        exact sgn_eq_pos (by decide) (mul_pos (upos hu0) hPA)
      · rw [if_neg hv0]
        dsimp only
        generalize hsg : (if u.size ≥ 0 then (1 : Int) else -1) = usign
        have hsg' : usign = 1 ∨ usign = -1 := by rw [← hsg]; by_cases a : u.size ≥ 0 <;> simp [a]
        have mu : u.mant = usign * val u.d := by
          unfold F.mant; rw [← hsg]
          by_cases a : u.size ≥ 0
          · rw [if_neg (by omega), if_pos a]; ring
          · rw [if_pos (by omega), if_neg a]; ring
        have hvv : toU64 (if v ≥ 0 then v else -v) = v.natAbs := by unfold toU64; split <;> omega
        have mv : v = usign * (v.natAbs : Int) := by
          rw [← hsg]
          by_cases a : u.size ≥ 0
          · have : ¬ v < 0 := fun h => by have := same.mpr h; omega
            rw [if_pos a]; omega
          · have : v < 0 := same.mp (by omega)
            rw [if_neg a]; omega
        rw [hvv, mpf_cmp_limb1_spec u hu v.natAbs (by omega) (by unfold B; omega) usign, sgn_usign_mul _ _ hsg']
        congr 1
        conv_rhs => rw [mu, mv]
        ring

example : mpf_cmp_si ⟨-1, 1, [2 ^ 63]⟩ LONG_MIN = 0 ∧ mpf_cmp_si ⟨-2, 1, [1, 2 ^ 63]⟩ LONG_MIN = -1 ∧
    mpf_cmp_si ⟨1, 0, [1]⟩ 0 = 1 ∧ mpf_cmp_si ⟨-1, 0, [1]⟩ (-1) = 1 ∧ mpf_cmp_si ⟨1, 1, [5]⟩ (-5) = 1 := by decide

/-! ## 9. mpf: fits_*_p, get_si / get_ui, integer_p (F.truncInt = the value truncated toward zero) -/

/-- mpf_fits_s*_p: true iff the truncated value lies in the signed type's range [-minabs, maxv]. -/
theorem mpf_fits_s_iff_range (maxv minabs : Nat) (hm : maxv < B) (hn : minabs < B) (f : F) (hf : f.wf) :
    mpf_fits_s maxv minabs f = true ↔ (-(minabs : Int) ≤ f.truncInt ∧ f.truncInt ≤ maxv) := by
  obtain ⟨t0, t1, t2, _⟩ := F.trunc_facts hf
  have hz := hf.2.2.2
  unfold mpf_fits_s F.truncInt
  by_cases s0 : f.size = 0
  · have := t0 (by have := hz s0; omega)
    rw [if_pos s0, this]; simp
  · rw [if_neg s0]
    by_cases e0 : f.exp < 1
    · have := t0 (by omega)
      rw [if_pos e0, this]; simp
    · rw [if_neg e0]
      by_cases e1 : f.exp = 1
      · obtain ⟨k, k1, k2⟩ := t1 e1
        rw [if_pos e1, ← k]
        generalize f.truncNat = T at *
        by_cases sn : f.size < 0
        · rw [if_pos sn, if_neg (by omega)]; simp only [decide_eq_true_eq]; omega
        · rw [if_neg sn, if_pos (by omega)]; simp only [decide_eq_true_eq]; omega
      · have := t2 (by omega)
        rw [if_neg e1]
        generalize f.truncNat = T at *
        constructor
        · intro h; exact absurd h (by decide)
        · intro ⟨l, u⟩; exfalso; split at l <;> omega

/-- mpf_fits_u*_p: true iff the truncated value lies in [0, maxv] (so -0.5 fits, -1.5 does not). -/
theorem mpf_fits_u_iff_range (maxv : Nat) (hm : maxv < B) (f : F) (hf : f.wf) :
    mpf_fits_u maxv f = true ↔ (0 ≤ f.truncInt ∧ f.truncInt ≤ maxv) := by
  obtain ⟨t0, t1, t2, _⟩ := F.trunc_facts hf
  have hz := hf.2.2.2
  unfold mpf_fits_u F.truncInt
  by_cases e0 : f.exp < 1
  · have := t0 (by omega)
    rw [if_pos e0, this]; simp
  · rw [if_neg e0]
    have s0 : f.size ≠ 0 := fun e => by have := hz e; omega
    have tpos : 1 ≤ f.truncNat := by
      by_cases e1 : f.exp = 1
      · exact (t1 e1).2.1
      · have := t2 (by omega); have := B_pos; omega
    by_cases sn : f.size ≤ 0
    · rw [if_pos sn, if_pos (show f.size < 0 by omega)]
      simp only [decide_eq_true_eq]
      constructor
      · intro h; exact absurd h s0
      · intro ⟨l, _⟩; omega
    · rw [if_neg sn, if_neg (show ¬ f.size < 0 by omega)]
      by_cases e1 : f.exp = 1
      · obtain ⟨k, k1, k2⟩ := t1 e1
        rw [if_pos e1, ← k]; simp only [decide_eq_true_eq]; omega
      · have := t2 (by omega)
        rw [if_neg e1]
        constructor
        · intro h; exact absurd h (by decide)
        · intro ⟨_, u⟩; omega

/-- The eight mpf predicates (six documented + MPIR's _ui/_si) against the ranges of the C types. -/
theorem mpf_fits_iff_range (f : F) (hf : f.wf) :
    (mpf_fits_u (2 ^ 64 - 1) f = true ↔ 0 ≤ f.truncInt ∧ f.truncInt ≤ 2 ^ 64 - 1) ∧
    (mpf_fits_s (2 ^ 63 - 1) (2 ^ 63) f = true ↔ -(2 ^ 63) ≤ f.truncInt ∧ f.truncInt ≤ 2 ^ 63 - 1) ∧
    (mpf_fits_u (2 ^ 32 - 1) f = true ↔ 0 ≤ f.truncInt ∧ f.truncInt ≤ 2 ^ 32 - 1) ∧
    (mpf_fits_s (2 ^ 31 - 1) (2 ^ 31) f = true ↔ -(2 ^ 31) ≤ f.truncInt ∧ f.truncInt ≤ 2 ^ 31 - 1) ∧
    (mpf_fits_u (2 ^ 16 - 1) f = true ↔ 0 ≤ f.truncInt ∧ f.truncInt ≤ 2 ^ 16 - 1) ∧
    (mpf_fits_s (2 ^ 15 - 1) (2 ^ 15) f = true ↔ -(2 ^ 15) ≤ f.truncInt ∧ f.truncInt ≤ 2 ^ 15 - 1) := by
  have hB : B = 2 ^ 64 := rfl
  have c64 : ((2 ^ 64 - 1 : Nat) : Int) = 2 ^ 64 - 1 := by norm_num
  have c63 : ((2 ^ 63 - 1 : Nat) : Int) = 2 ^ 63 - 1 := by norm_num
  have c32 : ((2 ^ 32 - 1 : Nat) : Int) = 2 ^ 32 - 1 := by norm_num
  have c31 : ((2 ^ 31 - 1 : Nat) : Int) = 2 ^ 31 - 1 := by norm_num
  have c16 : ((2 ^ 16 - 1 : Nat) : Int) = 2 ^ 16 - 1 := by norm_num
  have c15 : ((2 ^ 15 - 1 : Nat) : Int) = 2 ^ 15 - 1 := by norm_num
  have d63 : ((2 ^ 63 : Nat) : Int) = 2 ^ 63 := by norm_num
  have d31 : ((2 ^ 31 : Nat) : Int) = 2 ^ 31 := by norm_num
  have d15 : ((2 ^ 15 : Nat) : Int) = 2 ^ 15 := by norm_num
  refine ⟨?_, ?_, ?_, ?_, ?_, ?_⟩
  · have h := mpf_fits_u_iff_range (2 ^ 64 - 1) (by rw [hB]; norm_num) f hf; rw [c64] at h; exact h
  · have h := mpf_fits_s_iff_range (2 ^ 63 - 1) (2 ^ 63) (by rw [hB]; norm_num) (by rw [hB]; norm_num) f hf
    rw [c63, d63] at h; exact h
  · have h := mpf_fits_u_iff_range (2 ^ 32 - 1) (by rw [hB]; norm_num) f hf; rw [c32] at h; exact h
  · have h := mpf_fits_s_iff_range (2 ^ 31 - 1) (2 ^ 31) (by rw [hB]; norm_num) (by rw [hB]; norm_num) f hf
    rw [c31, d31] at h; exact h
  · have h := mpf_fits_u_iff_range (2 ^ 16 - 1) (by rw [hB]; norm_num) f hf; rw [c16] at h; exact h
  · have h := mpf_fits_s_iff_range (2 ^ 15 - 1) (2 ^ 15) (by rw [hB]; norm_num) (by rw [hB]; norm_num) f hf
    rw [c15, d15] at h; exact h

-- non-vacuity: -(2^31 + 0.5) truncates to -2^31 and fits an int; -(2^31 + 1.5) does not; -0.5 fits unsigned; 65536.5 does not fit ushort
example : mpf_fits_s (2 ^ 31 - 1) (2 ^ 31) ⟨-2, 1, [2 ^ 63, 2 ^ 31]⟩ = true ∧ mpf_fits_s (2 ^ 31 - 1) (2 ^ 31) ⟨-2, 1, [2 ^ 63, 2 ^ 31 + 1]⟩ = false ∧
    mpf_fits_u (2 ^ 16 - 1) ⟨-1, 0, [2 ^ 63]⟩ = true ∧ mpf_fits_u (2 ^ 16 - 1) ⟨2, 1, [2 ^ 63, 65536]⟩ = false ∧
    F.truncInt ⟨-2, 1, [2 ^ 63, 2 ^ 31]⟩ = -(2 ^ 31) := by decide

/-- mpf_get_ui: the low 64 bits of |op| truncated to an integer, for every op;
    mpf_get_si: the truncated value itself whenever it fits a long. -/
theorem mpf_get_si_ui_spec (f : F) (hf : f.wf) :
    mpf_get_ui f = f.truncNat % 2 ^ 64 ∧
    (LONG_MIN ≤ f.truncInt → f.truncInt ≤ LONG_MAX → mpf_get_si f = f.truncInt) := by
  obtain ⟨t0, t1, t2, t3⟩ := F.trunc_facts hf
  have hz := hf.2.2.2
  have hB : B = 2 ^ 64 := rfl
  constructor
  · unfold mpf_get_ui
    by_cases e : f.exp > 0
    · rw [if_pos e, ← t3 e, hB]
    · rw [if_neg e, t0 (by omega)]; rfl
  · intro l u
    unfold LONG_MIN at l; unfold LONG_MAX at u
    unfold mpf_get_si
    by_cases e0 : f.exp ≤ 0
    · rw [if_pos e0]; unfold F.truncInt; rw [t0 e0]; simp
    · rw [if_neg e0]
      have s0 : f.size ≠ 0 := fun e => by have := hz e; omega
      have h3 := t3 (by omega)
      dsimp only
      rw [← h3]
      unfold F.truncInt at l u ⊢
      by_cases e1 : f.exp = 1
      · obtain ⟨_, k1, k2⟩ := t1 e1
        generalize f.truncNat = T at *
        by_cases sp : f.size > 0
        · rw [if_pos sp, if_neg (by omega)]; rw [if_neg (by omega)] at l u; rw [hB] at *; omega
        · rw [if_neg sp, if_pos (by omega)]; rw [if_pos (by omega)] at l u; rw [hB] at *; omega
      · have := t2 (by omega)
        generalize f.truncNat = T at *
        exfalso; rw [hB] at this; split at l <;> omega

example : mpf_get_si ⟨-2, 1, [2 ^ 63, 2 ^ 63]⟩ = LONG_MIN ∧ mpf_get_ui ⟨3, 2, [9, 7, 1]⟩ = 7 ∧ mpf_get_si ⟨2, 1, [2 ^ 63, 5]⟩ = 5 ∧
    mpf_get_ui ⟨1, 3, [1]⟩ = 0 ∧ F.truncNat ⟨3, 2, [9, 7, 1]⟩ = 2 ^ 64 + 7 := by decide

/-- mpf_integer_p: true iff the value is an integer, i.e. the low exponent is non-negative or the mantissa is
    divisible by B^(-lowExp). -/
theorem mpf_integer_p_spec (f : F) (hf : f.wf) :
    mpf_integer_p f = true ↔ (0 ≤ f.lowExp ∨ val f.d % B ^ (-f.lowExp).toNat = 0) := by
  obtain ⟨u0, u1, u2⟩ := F.wf_bounds hf
  have ul := hf.1
  unfold mpf_integer_p F.lowExp
  by_cases s0 : f.size = 0
  · rw [if_pos s0, u0 s0]; simp
  · rw [if_neg s0]
    have vpos : 0 < val f.d := lt_of_lt_of_le (Bpow_pos _) (u1 s0)
    by_cases e0 : f.exp ≤ 0
    · rw [if_pos e0]
      have : val f.d % B ^ (-(f.exp - (f.size.natAbs : Int))).toNat = val f.d :=
        Nat.mod_eq_of_lt (lt_of_lt_of_le u2 (pow_le_pow_B (by omega)))
      rw [this]
      constructor
      · intro h; exact absurd h (by decide)
      · intro h; rcases h with h | h <;> omega
    · rw [if_neg e0]
      dsimp only
      by_cases c : (f.size.natAbs : Int) - f.exp ≤ 0
      · have : ((f.size.natAbs : Int) - f.exp).toNat = 0 := by omega
        rw [this]; simp only [List.take_zero, List.all_nil, true_iff]; left; omega
      · have hk : ((f.size.natAbs : Int) - f.exp).toNat ≤ f.d.length := by omega
        have e := val_take_drop f.d _ hk
        have lt : val (f.d.take ((f.size.natAbs : Int) - f.exp).toNat) < B ^ ((f.size.natAbs : Int) - f.exp).toNat := by
          have := val_lt _ (Limbs_take hf.2.1 ((f.size.natAbs : Int) - f.exp).toNat)
          rwa [List.length_take, Nat.min_eq_left hk] at this
        have hmod : val f.d % B ^ ((f.size.natAbs : Int) - f.exp).toNat = val (f.d.take ((f.size.natAbs : Int) - f.exp).toNat) := by
          rw [e, Nat.add_mul_mod_self_left, Nat.mod_eq_of_lt lt]
        have e1 : (-(f.exp - (f.size.natAbs : Int))).toNat = ((f.size.natAbs : Int) - f.exp).toNat := by omega
        rw [e1, hmod, List.all_eq_true, val_eq_zero_iff]
        constructor
        · intro h; right; intro x hx; simpa using h x hx
        · intro h x hx
          rcases h with h | h
          · omega
          · simpa using h x hx

example : mpf_integer_p ⟨3, 2, [0, 7, 1]⟩ = true ∧ mpf_integer_p ⟨3, 2, [9, 7, 1]⟩ = false ∧ mpf_integer_p ⟨1, 5, [1]⟩ = true ∧
    mpf_integer_p ⟨1, 0, [1]⟩ = false := by decide

end Mpir.Conv
