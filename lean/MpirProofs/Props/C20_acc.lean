/-
  C20 (part) — the accessor sub-objects of mpq_class: `q.get_num()` / `q.get_den()` (mpirxx.h:1967-1974) are
  `mpz_class &` references INTO the mpq object, usable wherever an mpz_class is.

  Model: the leaves `E.zn i` / `E.zd i` of `Mpir.Cxx.E` (Model/Cxx.lean).  Specification side: `evalTmp` reads a component of
  the (canonical) mpq store.  Implementation side: `evalZ` / `evalQ` hand the field object `.num i` / `.den i` to the function
  objects exactly as they hand an `mpz_class` variable (pointer comparison `p != leaf` included), and
  `__gmp_set_expr(mpq_ptr, const __gmp_expr<mpz_t,T>&)` (`convZ`) evaluates the integer expression into the numerator FIRST,
  from the old state, then sets the denominator to 1 — so `q = q.get_den() * 2` on q = 3/7 is 14.

  `expr_eval_correct_acc`      `target = e` for every tree with accessor leaves, every target (mpz, mpq) and every alias position,
                               including target = the mpq object whose components occur in `e` (the statement of
                               `expr_eval_correct_partial`, whose induction now runs over the two new leaves as well; `cmp_eval_correct_partial`
                               and `sgn_eval_correct_partial` likewise cover them).
  `acc_assign_order`           the same on the RAW fields for an mpz-typed tree into an mpq object, no canonicity assumed: the numerator ends with
                               the value computed from the old fields, the denominator with 1.
  `acc_canonicalize_correct`   `q.get_X() = e; …; q.canonicalize();` (any number of steps, either field, compound `op=` included, each right-hand
                               side reading the fields written before) = the temporaries semantics statement after statement, then n/d.
  `acc_set_num_den`            the two-step instance: `q.get_num() = e1; q.get_den() = e2; q.canonicalize();` holds the rational n/d.
  `init2_correct`              `mpq_class t(e1, e2); t.canonicalize();` holds n/d; nothing else changes.
  Negative example: the model of the seeded order (`convZSeeded`: denominator := 1 first) gives 2 for `q = q.get_den() * 2` on 3/7.
-/
import MpirProofs.Lemmas.CxxAcc
import MpirProofs.Props.C20
namespace Mpir.Cxx

/-- **expr_eval_correct for trees with accessor leaves.**  `e` any well-typed tree over `mpz_class` / `mpq_class` variables, the
    accessor sub-objects `q_j.get_num()` / `q_j.get_den()` (`E.zn j` / `E.zd j`, `j < K` by `hq`, `q_j` canonical by `hc`),
    sub-expressions and built-ins; the target an `mpz_class` or `mpq_class` variable at ANY alias position — in particular
    `t = .q` with `E.zn i` / `E.zd i` inside `e`: the target is the object whose own components the expression reads.
    As evaluated by mpirxx.h's templates, for both answers of `__builtin_constant_p`: an exception iff evaluation into
    temporaries raises one, otherwise the target holds the (converted, canonical) value `evalTmp` gives — every accessor leaf
    read from the state BEFORE the statement — and every other variable is unchanged. -/
theorem expr_eval_correct_acc (cst : Bool) (K : Nat) (t : Ty) (i : Nat) (e : E) (h : Heap)
    (hwt : e.wt = true) (hi : i < K) (hz : e.zbelow K) (hq : e.qbelow K) (hc : e.canon h) :
    match evalTmp h.abs e with
    | none => execAssign cst K t i e h = none
    | some v => ∃ h', execAssign cst K t i e h = some h' ∧
        (∀ j, j < K → h'.abs.z j = (assign h.abs t i v).z j) ∧
        (∀ j, j < K → h'.abs.q j = (assign h.abs t i v).q j) ∧
        (∀ j, j < K → Canon h j → Canon h' j) ∧ (t = .q → Canon h' i) :=
  expr_eval_correct_partial cst K t i e h hwt hi hz hq hc

-- non-vacuity: q0 = 3/7.  `q0 = q0.get_den() * 2` is 14/1 (the expression reads the OLD denominator);
-- `q0 = q0.get_den() - q0.get_num() * q1.get_den()` with q1 = 1/2 is 1/1; `q0 = q1 + q0.get_den()` is 15/2;
-- `z1 = q0.get_num() + q2.get_den()` with q2 = 5/3 is 6.  The specification gives the same: `evalTmp` reads 7 for `zd 0`.
def exHeap : Heap := ⟨fun l => match l with
  | .v 0 => 1 | .v 1 => 2 | .num 0 => 3 | .den 0 => 7 | .num 1 => 1 | .den 1 => 2 | .num 2 => 5 | .den 2 => 3 | _ => 1⟩
example : (execAssign false 4 .q 0 (.binR .mul (.zd 0) (.si 2)) exHeap).map (fun h => (h (.num 0), h (.den 0))) = some (14, 1) := by decide
example : (execAssign true 4 .q 0 (.bin .sub (.zd 0) (.bin .mul (.zn 0) (.zd 1))) exHeap).map (fun h => (h (.num 0), h (.den 0))) = some (1, 1) := by
  decide
example : (execAssign false 4 .q 0 (.bin .add (.qv 1) (.zd 0)) exHeap).map (fun h => (h (.num 0), h (.den 0))) = some (15, 2) := by decide +kernel
example : (execAssign false 4 .z 1 (.bin .add (.zn 0) (.zd 2)) exHeap).map (· (.v 1)) = some 6 := by decide
example : evalTmp exHeap.abs (.binR .mul (.zd 0) (.si 2)) = some (.z 14) := by decide +kernel

/-- **The order of `__gmp_set_expr(mpq_ptr, const __gmp_expr<mpz_t,T>&)`, on the raw fields.**  `q_p = e` for an mpz-typed tree `e`
    (which may read `q_p.get_num()` / `q_p.get_den()`; no canonicity of any object is assumed): the numerator of `q_p` ends with the
    value of `e` evaluated into temporaries from the fields as they were BEFORE the statement, the denominator with 1, every other
    pre-existing mpz_t object (variables below `K`, all fields of the other mpq objects) is unchanged; an exception iff the
    temporaries semantics raises one. -/
theorem acc_assign_order (cst : Bool) (K p : Nat) (e : E) (h : Heap)
    (hty : e.ty = .z) (hwt : e.wt = true) (hz : e.zbelow K) :
    match evalTmpZ h.get e with
    | none => execAssign cst K .q p e h = none
    | some x => ∃ h', execAssign cst K .q p e h = some h' ∧ h' (.num p) = x ∧ h' (.den p) = 1 ∧
        ∀ l : ZLoc, l.below K → l ≠ .num p → l ≠ .den p → h' l = h l := by
  have H := evalQ_z_fields cst e hty hwt K p h hz
  simp only [execAssign]
  cases hr : evalTmpZ h.get e with
  | none => rw [hr] at H; exact H
  | some x => rw [hr] at H; exact H

-- non-vacuity, on a NON-canonical object (6/14): `q0 = q0.get_den() + q0.get_num()` gives 20/1
example : (execAssign false 4 .q 0 (.bin .add (.zd 0) (.zn 0)) ⟨fun l => match l with | .num 0 => 6 | .den 0 => 14 | _ => 1⟩).map
    (fun h => (h (.num 0), h (.den 0))) = some (20, 1) := by decide

-- NEGATIVE example: the seeded order (denominator := 1 before the integer expression is evaluated, `convZSeeded`) reads the
-- overwritten denominator: `q0 = q0.get_den() * 2` on 3/7 gives 2, not 14 — it is not what `convZ` (mpirxx.h) does, and
-- `acc_assign_order` fails for it.
example : (convZSeeded false 4 0 (.binR .mul (.zd 0) (.si 2)) exHeap).map (fun h => (h (.num 0), h (.den 0))) = some (2, 1) := by decide
example : (convZ false 4 0 (.binR .mul (.zd 0) (.si 2)) exHeap).map (fun h => (h (.num 0), h (.den 0))) = some (14, 1) := by decide
example : convZSeeded false 4 0 (.binR .mul (.zd 0) (.si 2)) exHeap ≠ convZ false 4 0 (.binR .mul (.zd 0) (.si 2)) exHeap := by
  intro e
  have := congrArg (fun r => r.map (fun h => h (.num 0))) e
  revert this; decide

/-- **Assignment through the accessors, then `canonicalize()`.**  `q_i.get_X1() = e1; q_i.get_X2() = e2; …; q_i.canonicalize();` —
    any number of steps, either field in any order, a compound `q_i.get_X() op= r` being the step with the tree `get_X() op r`
    mpirxx.h builds; every `e` an mpz-typed well-typed tree over variables below `K`, accessors of any object (also of `q_i`,
    whose fields are no canonical pair between the first step and `canonicalize()`) and built-ins.  As executed by mpirxx.h
    (`mpz_class::operator=` on the field object: the expression templates with the field as destination; both answers of
    `__builtin_constant_p`): an exception iff the statement-after-statement temporaries semantics `accTmp` raises one (a right-hand
    side raising, or a zero denominator at `canonicalize()`), otherwise `q_i` is canonical and holds the rational `n/d` of the
    final raw fields, and every other pre-existing object is unchanged. -/
theorem acc_canonicalize_correct (cst : Bool) (K i : Nat) (steps : List (Bool × E)) (h : Heap)
    (hok : ∀ s ∈ steps, s.2.ty = .z ∧ s.2.wt = true ∧ s.2.zbelow K) :
    match accTmp h (.acc i steps) with
    | none => execAcc cst K i steps h = none
    | some r => ∃ h', execAcc cst K i steps h = some h' ∧ Canon h' i ∧ qval h' i = r ∧
        ∀ l : ZLoc, l.below K → l ≠ .num i → l ≠ .den i → h' l = h l := by
  have H := execAcc_correct cst K i steps h hok
  simp only [accTmp]
  cases hr : accSteps i steps h with
  | none => rw [hr] at H; simpa using H
  | some s' =>
    rw [hr] at H
    simp only [Option.bind_some, canonVal]
    by_cases h0 : s' (.den i) = 0
    · simp only [h0, if_true] at H ⊢; exact H
    · simp only [h0, if_false] at H ⊢; exact H

/-- **`q.get_num() = e1; q.get_den() = e2; q.canonicalize();` is the rational n/d**: `n` the value of `e1` (temporaries semantics
    on the fields before the statement), `d` the value of `e2` on the fields after the first assignment (it reads the NEW
    numerator through `q.get_num()`), an exception iff `e1` or `e2` raises or `d = 0`. -/
theorem acc_set_num_den (cst : Bool) (K i : Nat) (e1 e2 : E) (h : Heap)
    (h1 : e1.ty = .z ∧ e1.wt = true ∧ e1.zbelow K) (h2 : e2.ty = .z ∧ e2.wt = true ∧ e2.zbelow K) :
    match evalTmpZ h.get e1 with
    | none => execAcc cst K i [(false, e1), (true, e2)] h = none
    | some n =>
      match evalTmpZ (h.set (.num i) n).get e2 with
      | none => execAcc cst K i [(false, e1), (true, e2)] h = none
      | some d =>
        if d = 0 then execAcc cst K i [(false, e1), (true, e2)] h = none
        else ∃ h', execAcc cst K i [(false, e1), (true, e2)] h = some h' ∧ Canon h' i ∧ qval h' i = Rat.divInt n d ∧
          ∀ l : ZLoc, l.below K → l ≠ .num i → l ≠ .den i → h' l = h l := by
  have H := acc_canonicalize_correct cst K i [(false, e1), (true, e2)] h (by
    intro s hs; simp only [List.mem_cons, List.not_mem_nil, or_false] at hs
    rcases hs with rfl | rfl
    · exact h1
    · exact h2)
  simp only [accTmp, accSteps, fld] at H
  cases hr1 : evalTmpZ h.get e1 with
  | none => rw [hr1] at H; simpa using H
  | some n =>
    rw [hr1] at H; simp only [Option.bind_some, Bool.false_eq_true, if_false] at H
    dsimp only
    cases hr2 : evalTmpZ (h.set (.num i) n).get e2 with
    | none => rw [hr2] at H; simpa using H
    | some d =>
      rw [hr2] at H
      simp only [Option.bind_some, if_true, canonVal, Heap.set_get] at H
      rw [Heap.set_get_ne _ _ _ _ (by simp), Heap.set_get] at H
      by_cases h0 : d = 0
      · simp only [h0, if_true] at H ⊢; exact H
      · simp only [h0, if_false] at H ⊢; exact H

-- non-vacuity (q0 = 3/7): `q0.get_num() = q0.get_den() * 2; q0.get_den() = q0.get_num() + 7; q0.canonicalize();` is 14/21 = 2/3
-- (the second right-hand side reads the new numerator); `q0.get_den() -= q0.get_den(); q0.canonicalize();` raises;
-- `q0.get_num() *= q0.get_den(); q0.get_den() = -3` gives -7/1.
example : (execAcc false 4 0 [(false, .binR .mul (.zd 0) (.si 2)), (true, .binR .add (.zn 0) (.si 7))] exHeap).map
    (fun h => (h (.num 0), h (.den 0))) = some (2, 3) := by decide +kernel
example : accTmp exHeap (.acc 0 [(false, .binR .mul (.zd 0) (.si 2)), (true, .binR .add (.zn 0) (.si 7))]) = some (2 / 3 : Rat) := by
  decide +kernel
example : execAcc true 4 0 [(true, .bin .sub (.zd 0) (.zd 0))] exHeap = none := by decide +kernel
example : (execAcc false 4 0 [(false, .bin .mul (.zn 0) (.zd 0)), (true, .un .neg (.zv 9))] ⟨fun l => match l with
    | .num 0 => 3 | .den 0 => 7 | .v 9 => 3 | _ => 1⟩).map (fun h => (h (.num 0), h (.den 0))) = some (-7, 1) := by decide +kernel

/-- **`mpq_class t(e1, e2); t.canonicalize();`** (mpirxx.h:1881; `e1`, `e2` mpz-typed trees over variables below `K`, accessors of
    the existing mpq objects — `hqd`; — and built-ins): the new object (mpq object `K`) is canonical and holds `n/d`, the values of
    the two expressions evaluated into temporaries; an exception iff one of them raises or `d = 0`; no existing object changes. -/
theorem init2_correct (cst : Bool) (K : Nat) (n d : E) (h : Heap)
    (hn : n.ty = .z ∧ n.wt = true ∧ n.zbelow K) (hd : d.ty = .z ∧ d.wt = true ∧ d.zbelow K) (hqd : d.qbelow K) :
    match accTmp h (.init2 n d) with
    | none => execInit2 cst K n d h = none
    | some r => ∃ h', execInit2 cst K n d h = some h' ∧ Canon h' K ∧ qval h' K = r ∧ ∀ l : ZLoc, l.belowQ K → h' l = h l := by
  have H := execInit2_correct cst K n d h hn hd hqd
  simp only [accTmp]
  cases hrn : evalTmpZ h.get n with
  | none => rw [hrn] at H; simpa using H
  | some x =>
    cases hrd : evalTmpZ h.get d with
    | none => rw [hrn, hrd] at H; simpa using H
    | some y =>
      rw [hrn, hrd] at H
      simp only [Option.bind_some, canonVal]
      by_cases h0 : y = 0
      · simp only [h0, if_true] at H ⊢; exact H
      · simp only [h0, if_false] at H ⊢; exact H

-- non-vacuity (q0 = 3/7, z1 = 2): `mpq_class t(q0.get_den() * z1, q0.get_num() + q0.get_num());` canonicalised is 14/6 = 7/3
example : (execInit2 false 4 (.bin .mul (.zd 0) (.zv 1)) (.bin .add (.zn 0) (.zn 0)) exHeap).map (fun h => (h (.num 4), h (.den 4))) = some (7, 3) := by
  decide +kernel

end Mpir.Cxx
