/-
  C05 (aliasing) — mpz division on the POINTER-LEVEL model (Mpir/Model/AliasMem.lean).
  Property theorems only; the proofs are in MpirProofs/Lemmas/AliasMem.lean and AliasDiv.lean.

  The model keeps an `mpz_t` as a header {alloc, size, ptr} plus a numbered limb block; `MPZ_REALLOC` moves the
  block and frees the old one, `TMP_ALLOC` hands out fresh blocks, the mpn entry points refuse operand overlaps
  their contract forbids, and every model function performs the header reads, reallocs, pointer fetches, temporary
  copies, mpn call and size stores in the order of the C file.  So the statements below are NOT vacuous with respect
  to aliasing: the negative examples at the end show that the same functions with one of the C's precautions removed
  (the temporary copy of the denominator / numerator, the pointer fetch after the realloc, `SIZ (quot) = 0` after
  the copy to rem, `temp_divisor`) break them on a concrete input.

  Shape of every theorem: for EVERY state satisfying the object invariant `Inv` (live distinct blocks of ALLOC limbs,
  normalised sizes), EVERY choice of variable ids the manual allows (all coincidences of outputs with inputs, of the
  two inputs, and for the two-output functions only `q ≠ r`), and a non-zero divisor: the call succeeds (no stale
  read, no forbidden overlap, no write past a block), `Inv` holds again, the output variables hold exactly the
  specified quotient / remainder OF THE VALUES BEFORE THE CALL, and every other variable keeps its value.  The
  `…_alias` corollaries put this in the words of the property: the aliased call leaves in its outputs what the call
  with distinct fresh output variables leaves in those.
-/
import MpirProofs.Lemmas.AliasDiv
import MpirProofs.Lemmas.AliasUi
import MpirProofs.Lemmas.AliasUi2
namespace Mpir.AliasMem
open Mpir

/-- the state used by the examples: variables 0..3 hold 2^200+12345, -(2^70+3), 7, 0 in exact-size blocks
    (4, 2, 1, 1 limbs) -/
def exSt : St := ofInts [2 ^ 200 + 12345, -(2 ^ 70 + 3), 7, 0]

/-- every state built by `ofInts` (what the driver and the harness start from) satisfies the invariant, and holds
    the given values: the hypotheses `Inv s` below are satisfiable, e.g. by `exSt` -/
theorem ofInts_ok (zs : List Int) : Inv (ofInts zs) ∧ ∀ i, i < zs.length → (ofInts zs).value i = zs.getD i 0 :=
  ⟨ofInts_inv zs, ofInts_value zs⟩

/-- what an example looks at: value, ALLOC, PTR of the first `k` variables, or the error -/
def look (r : R St) (k : Nat) : Except String (List (Int × Nat × Nat)) := r.map (·.view k)

/-! ## truncating division -/

/-- mpz_tdiv_qr (mpz/tdiv_qr.c), all alias patterns with q ≠ r: q = n, q = d, r = n, r = d, n = d and any
    combination (q = n ∧ r = d, q = d ∧ r = n, n = d = q, …). -/
theorem tdiv_qr_ptr_spec {s : St} (h : Inv s) {q r n d : Nat} (hq : q < s.nv) (hr : r < s.nv) (hn : n < s.nv)
    (hd : d < s.nv) (hqr : q ≠ r) (hd0 : s.value d ≠ 0) :
    ∃ s', tdiv_qr q r n d s = .ok s' ∧ Inv s' ∧ s'.nv = s.nv ∧
      s'.value q = DivZ.tdivQ (s.value n) (s.value d) ∧ s'.value r = DivZ.tdivR (s.value n) (s.value d) ∧
      ∀ i, i < s.nv → i ≠ q → i ≠ r → s'.value i = s.value i :=
  tdiv_qr_ok h hq hr hn hd hqr hd0

/-- … in the words of the property: outputs aliased to inputs in any permitted way (`q r`) against distinct
    output variables `q' r'` that are not inputs. -/
theorem tdiv_qr_alias {s : St} (h : Inv s) {q r n d q' r' : Nat} (hq : q < s.nv) (hr : r < s.nv) (hn : n < s.nv)
    (hd : d < s.nv) (hq' : q' < s.nv) (hr' : r' < s.nv) (hqr : q ≠ r) (hqr' : q' ≠ r') (hd0 : s.value d ≠ 0) :
    ∃ sa sd, tdiv_qr q r n d s = .ok sa ∧ tdiv_qr q' r' n d s = .ok sd ∧
      sa.value q = sd.value q' ∧ sa.value r = sd.value r' ∧
      ∀ i, i < s.nv → i ≠ q → i ≠ r → sa.value i = s.value i := by
  obtain ⟨sa, ea, _, _, aq, ar, ao⟩ := tdiv_qr_ok h hq hr hn hd hqr hd0
  obtain ⟨sd, ed, _, _, dq, dr, _⟩ := tdiv_qr_ok h hq' hr' hn hd hqr' hd0
  exact ⟨sa, sd, ea, ed, by rw [aq, dq], by rw [ar, dr], ao⟩

-- non-vacuity: q = n and r = d at once (both temporaries are made, quot keeps its 4-limb block, nothing moves);
-- q = d: the 2-limb block of d is too small for the 3-limb quotient, it moves (block 5; rem was moved first, block 4) — after the move the
-- denominator is read through the NEW pointer and then copied to scratch
example : look (tdiv_qr 0 1 0 1 exSt) 2 =
    .ok [(-1361129467683753853850039665213252304896, 4, 0), (10376293541461635129, 2, 1)] := by decide
example : look (tdiv_qr 1 3 0 1 exSt) 4 = .ok [(2 ^ 200 + 12345, 4, 0), (-1361129467683753853850039665213252304896, 3, 5),
    (7, 1, 2), (10376293541461635129, 2, 4)] := by decide

/-- mpz_tdiv_q (mpz/tdiv_q.c) and mpz_tdiv_r (mpz/tdiv_r.c): any coincidence of the output with n, d (and n = d). -/
theorem tdiv_q_ptr_spec {s : St} (h : Inv s) {q n d : Nat} (hq : q < s.nv) (hn : n < s.nv) (hd : d < s.nv)
    (hd0 : s.value d ≠ 0) :
    ∃ s', tdiv_q q n d s = .ok s' ∧ Inv s' ∧ s'.nv = s.nv ∧ s'.value q = DivZ.tdivQ (s.value n) (s.value d) ∧
      ∀ i, i < s.nv → i ≠ q → s'.value i = s.value i :=
  tdiv_q_ok h hq hn hd hd0

theorem tdiv_r_ptr_spec {s : St} (h : Inv s) {r n d : Nat} (hr : r < s.nv) (hn : n < s.nv) (hd : d < s.nv)
    (hd0 : s.value d ≠ 0) :
    ∃ s', tdiv_r r n d s = .ok s' ∧ Inv s' ∧ s'.nv = s.nv ∧ s'.value r = DivZ.tdivR (s.value n) (s.value d) ∧
      ∀ i, i < s.nv → i ≠ r → s'.value i = s.value i :=
  tdiv_r_ok h hr hn hd hd0

example : look (tdiv_q 1 0 1 exSt) 2 = .ok [(2 ^ 200 + 12345, 4, 0), (-1361129467683753853850039665213252304896, 3, 4)] := by
  decide
example : look (tdiv_r 0 0 1 exSt) 2 = .ok [(10376293541461635129, 4, 0), (-(2 ^ 70 + 3), 2, 1)] := by decide

/-! ## floor and ceiling division, mpz_mod -/

/-- mpz_fdiv_qr (`ceil = false`, mpz/fdiv_qr.c) and mpz_cdiv_qr (`ceil = true`, mpz/cdiv_qr.c): all alias patterns
    with q ≠ r, including the divisor being the q or the r variable (`temp_divisor`). -/
theorem cfdiv_qr_ptr_spec (ceil : Bool) {s : St} (h : Inv s) {q r n d : Nat} (hq : q < s.nv) (hr : r < s.nv)
    (hn : n < s.nv) (hd : d < s.nv) (hqr : q ≠ r) (hd0 : s.value d ≠ 0) :
    ∃ s', (if ceil then cdiv_qr q r n d s else fdiv_qr q r n d s) = .ok s' ∧ Inv s' ∧ s'.nv = s.nv ∧
      s'.value q = (if ceil then DivZ.cdivQ (s.value n) (s.value d) else DivZ.fdivQ (s.value n) (s.value d)) ∧
      s'.value r = (if ceil then DivZ.cdivR (s.value n) (s.value d) else DivZ.fdivR (s.value n) (s.value d)) ∧
      ∀ i, i < s.nv → i ≠ q → i ≠ r → s'.value i = s.value i := by
  have := cfdiv_qr_ok ceil h hq hr hn hd hqr hd0
  cases ceil <;> exact this

theorem cfdiv_qr_alias (ceil : Bool) {s : St} (h : Inv s) {q r n d q' r' : Nat} (hq : q < s.nv) (hr : r < s.nv)
    (hn : n < s.nv) (hd : d < s.nv) (hq' : q' < s.nv) (hr' : r' < s.nv) (hqr : q ≠ r) (hqr' : q' ≠ r')
    (hd0 : s.value d ≠ 0) :
    ∃ sa sd, cfdiv_qrV .c ceil q r n d s = .ok sa ∧ cfdiv_qrV .c ceil q' r' n d s = .ok sd ∧
      sa.value q = sd.value q' ∧ sa.value r = sd.value r' ∧
      ∀ i, i < s.nv → i ≠ q → i ≠ r → sa.value i = s.value i := by
  obtain ⟨sa, ea, _, _, aq, ar, ao⟩ := cfdiv_qr_ok ceil h hq hr hn hd hqr hd0
  obtain ⟨sd, ed, _, _, dq, dr, _⟩ := cfdiv_qr_ok ceil h hq' hr' hn hd hqr' hd0
  exact ⟨sa, sd, ea, ed, by rw [aq, dq], by rw [ar, dr], ao⟩

-- non-vacuity: floor with r = d (the divisor is copied to temp_divisor, the adjustment `rem += divisor` uses the copy)
example : look (fdiv_qr 2 1 0 1 exSt) 3 = .ok [(2 ^ 200 + 12345, 4, 0), (-1170215327175949668298, 3, 7),
    (-1361129467683753853850039665213252304897, 4, 6)] := by decide
example : Int.fdiv (2 ^ 200 + 12345) (-(2 ^ 70 + 3)) = -1361129467683753853850039665213252304897 ∧
    Int.fmod (2 ^ 200 + 12345) (-(2 ^ 70 + 3)) = -1170215327175949668298 := by decide

/-- mpz_fdiv_q / mpz_cdiv_q (fdiv_q.c, cdiv_q.c: the remainder is a local `MPZ_TMP_INIT` variable). -/
theorem cfdiv_q_ptr_spec (ceil : Bool) {s : St} (h : Inv s) {q n d : Nat} (hq : q < s.nv) (hn : n < s.nv)
    (hd : d < s.nv) (hd0 : s.value d ≠ 0) :
    ∃ s', (if ceil then cdiv_q q n d s else fdiv_q q n d s) = .ok s' ∧ Inv s' ∧ s'.nv = s.nv ∧
      s'.value q = (if ceil then DivZ.cdivQ (s.value n) (s.value d) else DivZ.fdivQ (s.value n) (s.value d)) ∧
      ∀ i, i < s.nv → i ≠ q → s'.value i = s.value i := by
  have := cfdiv_q_ok ceil h hq hn hd hd0
  cases ceil <;> exact this

/-- mpz_fdiv_r / mpz_cdiv_r (fdiv_r.c, cdiv_r.c): `dividend->_mp_size` is read AFTER the division — when r is the
    dividend variable that is the size of the preliminary remainder, and the result is still right. -/
theorem cfdiv_r_ptr_spec (ceil : Bool) {s : St} (h : Inv s) {r n d : Nat} (hr : r < s.nv) (hn : n < s.nv)
    (hd : d < s.nv) (hd0 : s.value d ≠ 0) :
    ∃ s', (if ceil then cdiv_r r n d s else fdiv_r r n d s) = .ok s' ∧ Inv s' ∧ s'.nv = s.nv ∧
      s'.value r = (if ceil then DivZ.cdivR (s.value n) (s.value d) else DivZ.fdivR (s.value n) (s.value d)) ∧
      ∀ i, i < s.nv → i ≠ r → s'.value i = s.value i := by
  have := cfdiv_r_ok ceil h hr hn hd hd0
  cases ceil <;> exact this

/-- mpz_mod (mod.c): the non-negative remainder, r = n, r = d, n = d allowed. -/
theorem mod_ptr_spec {s : St} (h : Inv s) {r n d : Nat} (hr : r < s.nv) (hn : n < s.nv) (hd : d < s.nv)
    (hd0 : s.value d ≠ 0) :
    ∃ s', AliasMem.mod r n d s = .ok s' ∧ Inv s' ∧ s'.nv = s.nv ∧ s'.value r = s.value n % s.value d ∧
      ∀ i, i < s.nv → i ≠ r → s'.value i = s.value i :=
  mod_ok h hr hn hd hd0

example : look (cdiv_q 0 0 1 exSt) 1 = .ok [(-1361129467683753853850039665213252304896, 4, 0)] := by decide
example : look (fdiv_r 0 0 1 exSt) 1 = .ok [(-1170215327175949668298, 4, 0)] := by decide
example : look (AliasMem.mod 1 0 1 exSt) 2 = .ok [(2 ^ 200 + 12345, 4, 0), (10376293541461635129, 2, 1)] := by decide

/-- mpz_divexact (mpz/divexact.c): q = n, q = d (quotient built in TMP space and copied back before TMP_FREE),
    n = d; `d ∣ n` is the documented precondition (the model's mpn_divexact stores N / D whatever N is). -/
theorem divexact_ptr_spec {s : St} (h : Inv s) {q n d : Nat} (hq : q < s.nv) (hn : n < s.nv) (hd : d < s.nv)
    (hd0 : s.value d ≠ 0) (_hdvd : s.value d ∣ s.value n) :
    ∃ s', divexact q n d s = .ok s' ∧ Inv s' ∧ s'.nv = s.nv ∧ s'.value q = DivZ.divexactS (s.value n) (s.value d) ∧
      ∀ i, i < s.nv → i ≠ q → s'.value i = s.value i :=
  divexact_ok h hq hn hd hd0

example : look (divexact 0 0 1 (ofInts [-(2 ^ 70 + 3) * (2 ^ 130 + 1), 2 ^ 70 + 3])) 2 =
    .ok [(-(2 ^ 130 + 1), 4, 0), (2 ^ 70 + 3, 2, 1)] := by decide
example : look (divexact 1 0 1 (ofInts [-(2 ^ 70 + 3) * (2 ^ 130 + 1), 2 ^ 70 + 3])) 2 =
    .ok [(-(2 ^ 70 + 3) * (2 ^ 130 + 1), 4, 0), (-(2 ^ 130 + 1), 3, 2)] := by decide

/-- mpz_tdiv_q_ui / mpz_fdiv_q_ui / mpz_cdiv_q_ui (`dir` = 0 / -1 / 1; tdiv_q_ui.c, fdiv_q_ui.c, cdiv_q_ui.c), q = n allowed
    (mpn_divrem_1 forms the quotient in place): the stored quotient is the one of the family, the return value is |r|. -/
theorem div_q_ui_ptr_spec (dir : Int) (hdir : dir = 0 ∨ dir = -1 ∨ dir = 1) {s : St} (h : Inv s) {q n : Nat}
    (hq : q < s.nv) (hn : n < s.nv) (d : Nat) (hd0 : d ≠ 0) (hdB : d < B) :
    ∃ s', div_q_ui dir q n d s = .ok (DivZ.uiRet (DivZ.specR dir (s.value n) d), s') ∧ Inv s' ∧ s'.nv = s.nv ∧
      s'.value q = DivZ.specQ dir (s.value n) d ∧ ∀ i, i < s.nv → i ≠ q → s'.value i = s.value i :=
  div_q_ui_ok dir hdir h hq hn d hd0 hdB

example : (div_q_ui (-1) 1 1 7 exSt).map (fun p => (p.1, p.2.view 2)) =
    .ok (2, [(2 ^ 200 + 12345, 4, 0), (-168655945816773043347, 2, 1)]) := by decide
example : Int.fdiv (-(2 ^ 70 + 3)) 7 = -168655945816773043347 ∧ Int.fmod (-(2 ^ 70 + 3)) 7 = 2 := by decide

/-- mpz_{t,f,c}div_r_ui (r = n allowed; `PTR (rem)[0] = rl` is stored without a realloc: `1 ≤ ALLOC (r)` is MPIR's object
    invariant) and mpz_{t,f,c}div_qr_ui (q ≠ r; q = n or r = n allowed). -/
theorem div_r_ui_ptr_spec (dir : Int) (hdir : dir = 0 ∨ dir = -1 ∨ dir = 1) {s : St} (h : Inv s) {r n : Nat}
    (hr : r < s.nv) (hn : n < s.nv) (d : Nat) (hd0 : d ≠ 0) (hdB : d < B) (ha : 1 ≤ s.alloc r) :
    ∃ s', div_r_ui dir r n d s = .ok (DivZ.uiRet (DivZ.specR dir (s.value n) d), s') ∧ Inv s' ∧ s'.nv = s.nv ∧
      s'.value r = DivZ.specR dir (s.value n) d ∧ ∀ i, i < s.nv → i ≠ r → s'.value i = s.value i :=
  div_r_ui_ok dir hdir h hr hn d hd0 hdB ha

theorem div_qr_ui_ptr_spec (dir : Int) (hdir : dir = 0 ∨ dir = -1 ∨ dir = 1) {s : St} (h : Inv s) {q r n : Nat}
    (hq : q < s.nv) (hr : r < s.nv) (hn : n < s.nv) (hqr : q ≠ r) (d : Nat) (hd0 : d ≠ 0) (hdB : d < B)
    (ha : 1 ≤ s.alloc r) :
    ∃ s', div_qr_ui dir q r n d s = .ok (DivZ.uiRet (DivZ.specR dir (s.value n) d), s') ∧ Inv s' ∧ s'.nv = s.nv ∧
      s'.value q = DivZ.specQ dir (s.value n) d ∧ s'.value r = DivZ.specR dir (s.value n) d ∧
      ∀ i, i < s.nv → i ≠ q → i ≠ r → s'.value i = s.value i :=
  div_qr_ui_ok dir hdir h hq hr hn hqr d hd0 hdB ha

/-- mpz_divexact_ui (dive_ui.c), dst = src allowed; `d ∣ src` is the documented precondition. -/
theorem divexact_ui_ptr_spec {s : St} (h : Inv s) {q n : Nat} (hq : q < s.nv) (hn : n < s.nv) (d : Nat) (hd0 : d ≠ 0)
    (hdB : d < B) (_hdvd : (d : Int) ∣ s.value n) :
    ∃ s', divexact_ui q n d s = .ok s' ∧ Inv s' ∧ s'.nv = s.nv ∧ s'.value q = DivZ.divexactS (s.value n) d ∧
      ∀ i, i < s.nv → i ≠ q → s'.value i = s.value i := by
  obtain ⟨s', e, hres⟩ := div_q_ui_ok 0 (Or.inl rfl) h hq hn d hd0 hdB
  refine ⟨s', ?_, ?_⟩
  · unfold divexact_ui; simp only [bind, Except.bind, e, pure, Except.pure]
  · have : DivZ.specQ 0 (s.value n) d = DivZ.divexactS (s.value n) d := by simp [DivZ.specQ, DivZ.divexactS]
    rw [this] at hres; exact hres

example : (divexact_ui 0 0 7 (ofInts [-(2 ^ 130 + 1) * 7])).map (·.view 1) = .ok [(-(2 ^ 130 + 1), 3, 0)] := by decide

-- r = n: the remainder limb lands on limb 0 of the operand; ceiling: r = -6, returned 6
example : (div_r_ui 1 0 0 7 exSt).map (fun p => (p.1, p.2.view 1)) = .ok (6, [(-6, 4, 0)]) := by decide
-- q = n in place, r separate, floor of a negative dividend
example : (div_qr_ui (-1) 1 2 1 7 exSt).map (fun p => (p.1, p.2.view 3)) =
    .ok (2, [(2 ^ 200 + 12345, 4, 0), (-168655945816773043347, 2, 1), (2, 1, 2)]) := by decide

/-- one statement for the three-argument functions: the aliased call leaves in `w` what the call with a distinct
    output variable `w'` leaves in `w'`. -/
theorem alias3 {f : Nat → Nat → Nat → St → R St} {F : Int → Int → Int} {s : St}
    (spec : ∀ w, w < s.nv → ∃ s', f w n d s = .ok s' ∧ Res s s' w (F (s.value n) (s.value d)))
    {w w' : Nat} (hw : w < s.nv) (hw' : w' < s.nv) :
    ∃ sa sd, f w n d s = .ok sa ∧ f w' n d s = .ok sd ∧ sa.value w = sd.value w' ∧
      ∀ i, i < s.nv → i ≠ w → sa.value i = s.value i := by
  obtain ⟨sa, ea, _, _, va, oa⟩ := spec w hw
  obtain ⟨sd, ed, _, _, vd, _⟩ := spec w' hw'
  exact ⟨sa, sd, ea, ed, by rw [va, vd], oa⟩

theorem div3_alias {s : St} (h : Inv s) {w w' n d : Nat} (hw : w < s.nv) (hw' : w' < s.nv) (hn : n < s.nv)
    (hd : d < s.nv) (hd0 : s.value d ≠ 0) (f : Nat → Nat → Nat → St → R St)
    (hf : f = tdiv_q ∨ f = tdiv_r ∨ f = fdiv_q ∨ f = cdiv_q ∨ f = fdiv_r ∨ f = cdiv_r ∨ f = AliasMem.mod ∨ f = divexact) :
    ∃ sa sd, f w n d s = .ok sa ∧ f w' n d s = .ok sd ∧ sa.value w = sd.value w' ∧
      ∀ i, i < s.nv → i ≠ w → sa.value i = s.value i := by
  rcases hf with e | e | e | e | e | e | e | e <;> subst e
  · exact alias3 (fun w hw => tdiv_q_ok h hw hn hd hd0) hw hw'
  · exact alias3 (fun w hw => tdiv_r_ok h hw hn hd hd0) hw hw'
  · exact alias3 (fun w hw => cfdiv_q_ok false h hw hn hd hd0) hw hw'
  · exact alias3 (fun w hw => cfdiv_q_ok true h hw hn hd hd0) hw hw'
  · exact alias3 (fun w hw => cfdiv_r_ok false h hw hn hd hd0) hw hw'
  · exact alias3 (fun w hw => cfdiv_r_ok true h hw hn hd hd0) hw hw'
  · exact alias3 (fun w hw => mod_ok h hw hn hd hd0) hw hw'
  · exact alias3 (fun w hw => divexact_ok h hw hn hd hd0) hw hw'

/-! ## negative examples: the model can exhibit the aliasing bugs the C guards against -/

def errOf (r : R St) : String := match r with | .error e => e | .ok _ => "ok"

-- without the temporary copy of the denominator (tdiv_qr.c:77-83), q = d: mpn_tdiv_qr gets overlapping operands
example : errOf (tdiv_qrV { copyDen := false } 1 3 0 1 exSt) = "ub:mpn_tdiv_qr operands overlap" := by decide
-- without the temporary copy of the numerator (tdiv_qr.c:86-92), q = n
example : errOf (tdiv_qrV { copyNum := false } 0 3 0 1 exSt) = "ub:mpn_tdiv_qr operands overlap" := by decide
example : errOf (tdiv_qV { copyNum := false } 0 0 1 exSt) = "ub:mpn_tdiv_q operands overlap" := by decide
example : errOf (tdiv_rV { copyDen := false } 1 0 1 exSt) = "ub:mpn_tdiv_qr operands overlap" := by decide
-- with `dp = PTR (den)` fetched BEFORE `MPZ_REALLOC (quot, ql)` and q = d (the block of d moves): stale pointer
example : errOf (tdiv_qrV { ptrAfterRealloc := false } 1 2 0 1 exSt) = "ub:read of a freed block" := by decide
-- with `SIZ (quot) = 0` BEFORE the copy of num to rem (tdiv_qr.c:57-59 the other way round) and q = n, |n| < |d|:
-- no error, but rem receives 0 instead of n — the statement of `tdiv_qr_ptr_spec` fails on this input
example : look (tdiv_qrV { quotSizeLast := false } 1 3 1 0 exSt) 4 =
    .ok [(2 ^ 200 + 12345, 4, 0), (0, 2, 1), (7, 1, 2), (0, 4, 4)] := by decide
example : look (tdiv_qr 1 3 1 0 exSt) 4 =
    .ok [(2 ^ 200 + 12345, 4, 0), (0, 2, 1), (7, 1, 2), (-(2 ^ 70 + 3), 4, 4)] := by decide
-- fdiv_qr without temp_divisor (fdiv_qr.c:39-44), r = d: `rem += divisor` adds the preliminary remainder to itself
example : look (cfdiv_qrV { fdivCopy := false } false 2 1 0 1 exSt) 2 =
    .ok [(2 ^ 200 + 12345, 4, 0), (20752587082923270258, 2, 1)] := by decide
-- mpz_divexact with the quotient written straight into quot although quot is den (divexact.c:68-69 removed)
example : errOf (divexactV { divexactTmp := false } 1 0 1 (ofInts [-(2 ^ 70 + 3) * (2 ^ 130 + 1), 2 ^ 70 + 3])) =
    "ub:mpn_divexact operands overlap" := by decide
-- mpz_divexact copying the scratch quotient back after TMP_FREE (divexact.c:79-82 the other way round), q = n
example : errOf (divexactV { copyBeforeFree := false } 0 0 1 (ofInts [-(2 ^ 70 + 3) * (2 ^ 130 + 1), 2 ^ 70 + 3])) =
    "ub:read of a freed block" := by decide

end Mpir.AliasMem
