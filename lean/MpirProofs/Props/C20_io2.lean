/-
  C20 (part c20_cxxio2) — stream I/O of the C++ interface, remaining statements: the mpf extractor, the auto-detect and
  mpq round trips, mpf insertion in every base.
  Property theorems only; helper lemmas live in MpirProofs/Lemmas/CxxIo.lean and CxxIo2.lean.  Every theorem is about the
  executable models in Mpir/Model/CxxIo.lean and CxxIo2.lean, which the correspondence run executes against the real
  operators (tools/cxxio_driver.cc) on every check.
-/
import MpirProofs.Lemmas.CxxIo2
namespace Mpir.CxxIo
open Mpir.Printf

/-! ## (a) `operator>> (istream &, mpf_ptr)` -/

/-- `extractF_spec`: `i >> f` on a good stream over the text `t`, for every setting of the flags and every destination
    `f0`, is the grammar `specF`: white space (under skipws), an optional sign ('+' is consumed and dropped), the LONGEST
    run of decimal digits, then, if the next character is '.', that point and again the longest run of digits — at least
    one digit in the two runs together —, then, if the next character is 'e' or 'E', that letter, an optional sign and the
    longest run of digits, which must not be empty.  basefield is not looked at: the digits are decimal in every case
    (ismpf.cc:86).  The scan never backs up more than the one character that stopped it: "1e+x" FAILS with "1e+" consumed,
    ".x" fails with the point consumed (`floatSpec`).  Exactly the characters of `FloatSpec.n` stay consumed (`after`:
    `done` / `rest` recompose the text), failbit is set exactly when nothing is stored, eofbit comes with failbit only
    (a successful read that ends at the end of the text leaves the stream good(): the code clears eofbit), and the value
    stored is `mpf_set_str` (`MpfStr.set_str`, property C13's model) of the collected text in base 10 at the precision of
    the destination. -/
theorem extractF_spec (f : Fmt) (t : List Char) (f0 : Mpf.F) : extractF (mkG t [] f) f0 = specF f t f0 := by
  unfold extractF specF specScanF
  rw [scanF_at f t []]
  simp only [List.append_nil]
  rfl

-- non-vacuity: sign, point, exponent, one character put back; '+' dropped from the text
example : scanF (mkG "  -12.50e+3x".toList [] {}) =
    ({ rest := ['x'], done := "  -12.50e+3".toList.reverse }, some "-12.50e+3".toList) := by decide +kernel
example : scanF (mkG "+.5E7".toList [] {}) = ({ rest := [], done := "+.5E7".toList.reverse }, some ".5E7".toList) := by decide +kernel
-- a hex stream still reads decimal digits only
example : scanF (mkG "1f".toList [] { dec := false, hex := true }) =
    ({ rest := ['f'], done := ['1'], fmt := { dec := false, hex := true } }, some ['1']) := by decide +kernel
-- no backtracking: the exponent letter and sign are consumed, the read fails (eofbit too at the end of the text)
example : scanF (mkG "1e+x".toList [] {}) = ({ rest := ['x'], done := "1e+".toList.reverse, fail := true }, none) ∧
    scanF (mkG "1e".toList [] {}) = ({ rest := [], done := "1e".toList.reverse, eof := true, fail := true }, none) ∧
    scanF (mkG ".x".toList [] {}) = ({ rest := ['x'], done := ['.'], fail := true }, none) ∧
    scanF (mkG "5.".toList [] {}) = ({ rest := [], done := ['.', '5'] }, some ['5', '.']) := by decide +kernel
-- the value: 2.5 at precision 2 (the division path of mpf_set_str delivers prec+1 limbs): [0, 2^63, 2], exponent 1
example : (extractF (mkG "2.5 ".toList [] {}) ⟨2, 1, 1, [5]⟩).2 = (some ⟨2, 3, 1, [0, 2 ^ 63, 2]⟩, false) := by decide +kernel

theorem floatSpec_props (u : List Char) :
    ((floatSpec u).fail = true ↔ (floatSpec u).text = none) ∧ ((floatSpec u).fail = false → (floatSpec u).eof = false) ∧
    (floatSpec u).n ≤ u.length := by
  have hl : ∀ (l : List Char), (l.takeWhile isdigit).length + (l.dropWhile isdigit).length = l.length := by
    intro l
    rw [← List.length_append, List.takeWhile_append_dropWhile]
  have he : ∀ k m (u : List Char), (((expSpec k m u).fail = true ↔ (expSpec k m u).text = none) ∧
      ((expSpec k m u).fail = false → (expSpec k m u).eof = false) ∧ (expSpec k m u).n ≤ k + u.length) := by
    intro k m u
    unfold expSpec
    split
    · rename_i e t
      split
      · have hs : (expSign t).1.length + (expSign t).2.length = t.length := by
          unfold expSign; split <;> simp <;> omega
        have := hl (expSign t).2
        simp only []
        split <;> simp <;> omega
      · simp
    · simp
  have hm : ∀ sg k (u : List Char), (((mantSpec sg k u).fail = true ↔ (mantSpec sg k u).text = none) ∧
      ((mantSpec sg k u).fail = false → (mantSpec sg k u).eof = false) ∧ (mantSpec sg k u).n ≤ k + u.length) := by
    intro sg k u
    have h1 := hl u
    unfold mantSpec
    simp only []
    split
    · rename_i t ht
      have h2 := hl t
      rw [ht] at h1
      simp only [List.length_cons] at h1
      split
      · simp; omega
      · have := he (k + (List.takeWhile isdigit u).length + 1 + (List.takeWhile isdigit t).length)
          (sg ++ List.takeWhile isdigit u ++ '.' :: List.takeWhile isdigit t) (List.dropWhile isdigit t)
        exact ⟨this.1, this.2.1, by omega⟩
    · split
      · simp
      · have := he (k + (List.takeWhile isdigit u).length) (sg ++ List.takeWhile isdigit u) (List.dropWhile isdigit u)
        exact ⟨this.1, this.2.1, by omega⟩
  unfold floatSpec
  split
  · have := hm ['-'] 1 ‹_›; exact ⟨this.1, this.2.1, by simp only [List.length_cons]; omega⟩
  · have := hm [] 1 ‹_›; exact ⟨this.1, this.2.1, by simp only [List.length_cons]; omega⟩
  · have := hm [] 0 u; exact ⟨this.1, this.2.1, by omega⟩

/-- `extractF_props`: for every text and every flag setting: no character is lost or invented, badbit is never set,
    failbit is set iff nothing is handed to mpf_set_str (the destination keeps its value), and a read that did not fail
    leaves the stream good(). -/
theorem extractF_props (f : Fmt) (t : List Char) :
    let r := scanF (mkG t [] f)
    r.1.text = t ∧ r.1.bad = false ∧ (r.1.fail = true ↔ r.2 = none) ∧ (r.1.fail = false → r.1.good = true) := by
  have hp := floatSpec_props (t.drop (wsPrefix f t).length)
  rw [scanF_at f t []]
  refine ⟨?_, rfl, hp.1, ?_⟩
  · have hw : wsPrefix f t = t.take (wsPrefix f t).length := by
      unfold wsPrefix; split
      · rw [take_takeWhile_length]
      · rfl
    simp only [after, IStream.text, List.append_nil, List.reverse_append, List.reverse_reverse, List.append_assoc,
      List.take_append_drop]
    rw [hw, List.length_take]
    have : min (wsPrefix f t).length t.length = (wsPrefix f t).length := by
      have : (wsPrefix f t).length ≤ t.length := by
        unfold wsPrefix; split
        · exact length_takeWhile_le' _ _
        · simp
      omega
    rw [this, List.take_append_drop]
  · intro hf
    have he := hp.2.1 hf
    simp only [after] at hf ⊢
    simp [IStream.good, hf, he]

end Mpir.CxxIo
