/-
  C20 (part c20_cxxio2) — stream I/O of the C++ interface, remaining statements: the mpf extractor, the auto-detect and
  mpq round trips, mpf insertion in every base.
  Property theorems only; helper lemmas live in MpirProofs/Lemmas/CxxIo.lean and CxxIo2.lean.  Every theorem is about the
  executable models in Mpir/Model/CxxIo.lean and CxxIo2.lean, which the correspondence run executes against the real
  operators (tools/cxxio_driver.cc) on every check.
-/
import MpirProofs.Lemmas.CxxIo2
namespace Mpir.CxxIo
open Mpir.Printf

/-! ## (a) `operator>> (istream &, mpf_ptr)` -/

/-- `extractF_spec`: `i >> f` on a good stream over the text `t`, for every setting of the flags and every destination
    `f0`, is the grammar `specF`: white space (under skipws), an optional sign ('+' is consumed and dropped), the LONGEST
    run of decimal digits, then, if the next character is '.', that point and again the longest run of digits — at least
    one digit in the two runs together —, then, if the next character is 'e' or 'E', that letter, an optional sign and the
    longest run of digits, which must not be empty.  basefield is not looked at: the digits are decimal in every case
    (ismpf.cc:86).  The scan never backs up more than the one character that stopped it: "1e+x" FAILS with "1e+" consumed,
    ".x" fails with the point consumed (`floatSpec`).  Exactly the characters of `FloatSpec.n` stay consumed (`after`:
    `done` / `rest` recompose the text), failbit is set exactly when nothing is stored, eofbit comes with failbit only
    (a successful read that ends at the end of the text leaves the stream good(): the code clears eofbit), and the value
    stored is `mpf_set_str` (`MpfStr.set_str`, property C13's model) of the collected text in base 10 at the precision of
    the destination. -/
theorem extractF_spec (f : Fmt) (t : List Char) (f0 : Mpf.F) : extractF (mkG t [] f) f0 = specF f t f0 := by
  unfold extractF specF specScanF
  rw [scanF_at f t []]
  simp only [List.append_nil]
  rfl

-- non-vacuity: sign, point, exponent, one character put back; '+' dropped from the text
example : scanF (mkG "  -12.50e+3x".toList [] {}) =
    ({ rest := ['x'], done := "  -12.50e+3".toList.reverse }, some "-12.50e+3".toList) := by decide +kernel
example : scanF (mkG "+.5E7".toList [] {}) = ({ rest := [], done := "+.5E7".toList.reverse }, some ".5E7".toList) := by decide +kernel
-- a hex stream still reads decimal digits only
example : scanF (mkG "1f".toList [] { dec := false, hex := true }) =
    ({ rest := ['f'], done := ['1'], fmt := { dec := false, hex := true } }, some ['1']) := by decide +kernel
-- no backtracking: the exponent letter and sign are consumed, the read fails (eofbit too at the end of the text)
example : scanF (mkG "1e+x".toList [] {}) = ({ rest := ['x'], done := "1e+".toList.reverse, fail := true }, none) ∧
    scanF (mkG "1e".toList [] {}) = ({ rest := [], done := "1e".toList.reverse, eof := true, fail := true }, none) ∧
    scanF (mkG ".x".toList [] {}) = ({ rest := ['x'], done := ['.'], fail := true }, none) ∧
    scanF (mkG "5.".toList [] {}) = ({ rest := [], done := ['.', '5'] }, some ['5', '.']) := by decide +kernel
-- the value: 2.5 at precision 2 (the division path of mpf_set_str delivers prec+1 limbs): [0, 2^63, 2], exponent 1
example : (extractF (mkG "2.5 ".toList [] {}) ⟨2, 1, 1, [5]⟩).2 = (some ⟨2, 3, 1, [0, 2 ^ 63, 2]⟩, false) := by decide +kernel

theorem floatSpec_props (u : List Char) :
    ((floatSpec u).fail = true ↔ (floatSpec u).text = none) ∧ ((floatSpec u).fail = false → (floatSpec u).eof = false) ∧
    (floatSpec u).n ≤ u.length := by
  have hl : ∀ (l : List Char), (l.takeWhile isdigit).length + (l.dropWhile isdigit).length = l.length := by
    intro l
    rw [← List.length_append, List.takeWhile_append_dropWhile]
  have he : ∀ k m (u : List Char), (((expSpec k m u).fail = true ↔ (expSpec k m u).text = none) ∧
      ((expSpec k m u).fail = false → (expSpec k m u).eof = false) ∧ (expSpec k m u).n ≤ k + u.length) := by
    intro k m u
    unfold expSpec
    split
    · rename_i e t
      split
      · have hs : (expSign t).1.length + (expSign t).2.length = t.length := by
          unfold expSign; split <;> simp <;> omega
        have := hl (expSign t).2
        simp only []
        split <;> simp <;> omega
      · simp
    · simp
  have hm : ∀ sg k (u : List Char), (((mantSpec sg k u).fail = true ↔ (mantSpec sg k u).text = none) ∧
      ((mantSpec sg k u).fail = false → (mantSpec sg k u).eof = false) ∧ (mantSpec sg k u).n ≤ k + u.length) := by
    intro sg k u
    have h1 := hl u
    unfold mantSpec
    simp only []
    split
    · rename_i t ht
      have h2 := hl t
      rw [ht] at h1
      simp only [List.length_cons] at h1
      split
      · simp; omega
      · have := he (k + (List.takeWhile isdigit u).length + 1 + (List.takeWhile isdigit t).length)
          (sg ++ List.takeWhile isdigit u ++ '.' :: List.takeWhile isdigit t) (List.dropWhile isdigit t)
        exact ⟨this.1, this.2.1, by omega⟩
    · split
      · simp
      · have := he (k + (List.takeWhile isdigit u).length) (sg ++ List.takeWhile isdigit u) (List.dropWhile isdigit u)
        exact ⟨this.1, this.2.1, by omega⟩
  unfold floatSpec
  split
  · have := hm ['-'] 1 ‹_›; exact ⟨this.1, this.2.1, by simp only [List.length_cons]; omega⟩
  · have := hm [] 1 ‹_›; exact ⟨this.1, this.2.1, by simp only [List.length_cons]; omega⟩
  · have := hm [] 0 u; exact ⟨this.1, this.2.1, by omega⟩

/-- `extractF_props`: for every text and every flag setting: no character is lost or invented, badbit is never set,
    failbit is set iff nothing is handed to mpf_set_str (the destination keeps its value), and a read that did not fail
    leaves the stream good(). -/
theorem extractF_props (f : Fmt) (t : List Char) :
    let r := scanF (mkG t [] f)
    r.1.text = t ∧ r.1.bad = false ∧ (r.1.fail = true ↔ r.2 = none) ∧ (r.1.fail = false → r.1.good = true) := by
  have hp := floatSpec_props (t.drop (wsPrefix f t).length)
  rw [scanF_at f t []]
  refine ⟨?_, rfl, hp.1, ?_⟩
  · have hw : wsPrefix f t = t.take (wsPrefix f t).length := by
      unfold wsPrefix; split
      · rw [take_takeWhile_length]
      · rfl
    simp only [after, IStream.text, List.append_nil, List.reverse_append, List.reverse_reverse, List.append_assoc,
      List.take_append_drop]
    rw [hw, List.length_take]
    have : min (wsPrefix f t).length t.length = (wsPrefix f t).length := by
      have : (wsPrefix f t).length ≤ t.length := by
        unfold wsPrefix; split
        · exact length_takeWhile_le' _ _
        · simp
      omega
    rw [this, List.take_append_drop]
  · intro hf
    have he := hp.2.1 hf
    simp only [after] at hf ⊢
    simp [IStream.good, hf, he]

/-- `extractF_never_invalid`: whatever the text and the flags, the string handed to mpf_set_str is one it accepts: the
    ASSERT_NOCARRY of ismpf.cc:130 cannot fire, the destination is either untouched (failbit) or holds the converted value. -/
theorem extractF_never_invalid (f : Fmt) (t : List Char) (f0 : Mpf.F) : (extractF (mkG t [] f) f0).2.2 = false := by
  rw [extractF_spec]
  unfold specF specScanF
  simp only []
  cases h : (floatSpec (t.drop (wsPrefix f t).length)).text with
  | none => rfl
  | some s =>
    have hp := parse_scanned _ s h
    obtain ⟨p, hq⟩ := Option.ne_none_iff_exists'.mp hp
    simp [MpfStr.set_str, hq]

example : (extractF (mkG "-.5e-3,".toList [] {}) ⟨2, 1, 1, [5]⟩).2.2 = false ∧ (extractF (mkG "-.5e-3,".toList [] {}) ⟨2, 1, 1, [5]⟩).2.1 ≠ none := by
  decide +kernel

/-- `extractF_not_good`: a stream that is not good() on entry gets failbit, nothing is read, the destination is untouched. -/
theorem extractF_not_good (i : IStream) (h : i.good = false) (f0 : Mpf.F) :
    extractF i f0 = ({ i with fail := true }, none, false) := by
  unfold extractF
  rw [scanF_not_good' i h]

example : extractF { rest := ['1'], eof := true } ⟨2, 1, 1, [5]⟩ = ({ rest := ['1'], eof := true, fail := true }, none, false) := by decide +kernel

/-! ## (b) round trips -/

section
open List

/-- `roundtripZ`: for every integer z, every output stream `fo` (any basefield bits, showbase, showpos, uppercase, any
    adjustfield, any fill) whose width is ≤ 0 (no padding) and every input stream `fi` with `ReadsBack fo fi`:
    `in >> y` after `out << z` stores y = z, consumes the whole text and leaves the stream good().  `ReadsBack` is
      * basefield of `fi` names, with exactly one bit, the base `fo` prints in, and `fo` is not hex with showbase, or
      * `fi` has no single basefield bit (the classic `in.unsetf (ios::basefield)`: base detected from the prefix) and `fo`
        prints decimal (then no prefix is written, and 0 comes back through the octal-zero rule) or has showbase (0x / 0X;
        0 in front of octal digits; the lone "0" of an octal or decimal zero).
    The exceptions are exact in this sense (examples below): hex + showbase read by a hex stream gives 0 and stops at the
    x; hex / octal WITHOUT showbase read with auto-detection are taken for decimal ("ff" fails, octal "17" gives 17).
    This replaces `roundtripZ_partial` (fixed basefield only). -/
theorem roundtripZ (fo fi : Fmt) (z w : Int) (hw : w ≤ 0) (fill : Char) (hc : ReadsBack fo fi) :
    extractZ (mkG (insertZ { fmt := fo, width := w, fill := fill } z).out [] fi) =
      (mkG [] (insertZ { fmt := fo, width := w, fill := fill } z).out.reverse fi, .value z) := by
  have htext : (insertZ { fmt := fo, width := w, fill := fill } z).out =
      (signStr fo (decide (z < 0)) ++ (prefixStr fo (decide (z.natAbs = 0)) ++ natDigits fo.outBase fo.outUpper z.natAbs)) ++ [] := by
    rw [insertZ_eq]
    simp only [fieldLayout_nopad _ _ _ _ _ _ hw, decide_natAbs z]
    simp [OStream.write, OStream.good]
  rw [htext, extractZ_at]
  simp only [wsPrefix_nil fi _ (written_head fo z []), length_nil, drop_zero, reverse_nil, nil_append]
  rw [numSpec_written fo fi hc (decide (z < 0)) z.natAbs _ [] (signStr_cases fo z) (Or.inl rfl), natAbs_val]
  simp only [append_nil]
  generalize signStr fo (decide (z < 0)) ++ (prefixStr fo (decide (z.natAbs = 0)) ++ natDigits fo.outBase fo.outUpper z.natAbs) = T
  simp [after, mkG]

end

-- non-vacuity: auto-detection of what showbase wrote, in each base; decimal zero through the octal-zero rule
example : extractZ (mkG (insertZ { fmt := { dec := false, hex := true, showbase := true, uppercase := true } } (-255)).out [] { dec := false }) =
    (mkG [] "-0XFF".toList.reverse { dec := false }, .value (-255)) := by decide +kernel
example : extractZ (mkG (insertZ { fmt := { dec := false, oct := true, showbase := true, showpos := true } } 15).out [] { dec := false }) =
    (mkG [] "+017".toList.reverse { dec := false }, .value 15) := by decide +kernel
example : extractZ (mkG (insertZ { fmt := {} } 0).out [] { dec := false }) = (mkG [] ['0'] { dec := false }, .value 0) := by decide +kernel
-- the exceptions are real: without showbase auto-detection takes hex / octal text for decimal
example : (extractZ (mkG (insertZ { fmt := { dec := false, hex := true } } 255).out [] { dec := false })).2 = .unchanged ∧
    (extractZ (mkG (insertZ { fmt := { dec := false, oct := true } } 15).out [] { dec := false })).2 = .value 17 ∧
    (extractZ (mkG (insertZ { fmt := { dec := false, hex := true } } 16).out [] { dec := false })).2 = .value 10 ∧
    (extractZ (mkG (insertZ { fmt := { dec := false, hex := true, showbase := true } } 31).out [] { dec := false, hex := true })).2 = .value 0 := by
  decide +kernel

section
open List

/-- `roundtripQ`: for every rational n/d with d > 0 (canonical or not), every output stream `fo` with width ≤ 0 and
    every input stream `fi` with `ReadsBack fo fi` (see `roundtripZ`): `in >> q` after `out << n/d` stores numerator n and
    denominator d, consumes the whole text and leaves the stream good().  (The denominator carries its own base prefix
    under showbase and is read with its own base detection; for d = 1 no "/1" is written and the extractor stores 1.) -/
theorem roundtripQ (fo fi : Fmt) (n d w : Int) (hd : 0 < d) (hw : w ≤ 0) (fill : Char) (hc : ReadsBack fo fi) :
    extractQ (mkG (insertQ { fmt := fo, width := w, fill := fill } n d).out [] fi) =
      (mkG [] (insertQ { fmt := fo, width := w, fill := fill } n d).out.reverse fi, .value n, .value d) := by
  have hdz : decide (d.natAbs = 0) = false := by simp; omega
  have hdv : ((d.natAbs : Nat) : Int) = d := by omega
  have htext : (insertQ { fmt := fo, width := w, fill := fill } n d).out =
      (signStr fo (decide (n < 0)) ++ (prefixStr fo (decide (n.natAbs = 0)) ++ natDigits fo.outBase fo.outUpper n.natAbs)) ++
        (if d = 1 then [] else '/' :: (([] ++ (prefixStr fo (decide (d.natAbs = 0)) ++ natDigits fo.outBase fo.outUpper d.natAbs)) ++ [])) := by
    rw [insertQ_eq _ _ _ hd]
    simp only [fieldLayout_nopad _ _ _ _ _ _ hw, decide_natAbs n, hdz]
    simp [OStream.write, OStream.good]
  rw [htext, extractQ_spec']
  generalize hA : signStr fo (decide (n < 0)) ++ (prefixStr fo (decide (n.natAbs = 0)) ++ natDigits fo.outBase fo.outUpper n.natAbs) = A
  have hnum : ∀ tail, TailOk tail → numSpec fi (A ++ tail) = ⟨A.length, .value n, false, false⟩ := by
    intro tail ht
    rw [← hA, numSpec_written fo fi hc (decide (n < 0)) n.natAbs _ tail (signStr_cases fo n) ht, natAbs_val]
  have hws : ∀ tail, wsPrefix fi (A ++ tail) = [] := by
    intro tail; rw [← hA]; exact wsPrefix_nil fi _ (written_head fo n tail)
  unfold specQ
  by_cases h1 : d = 1
  · subst h1
    simp only [if_true, hws, length_nil, drop_zero, reverse_nil, hnum [] (Or.inl rfl)]
    simp [after, mkG]
  · simp only [h1, if_false, hws, length_nil, drop_zero, reverse_nil]
    generalize hV : ([] ++ (prefixStr fo (decide (d.natAbs = 0)) ++ natDigits fo.outBase fo.outUpper d.natAbs)) = V
    have hden : numSpec fi (V ++ []) = ⟨V.length, .value d, false, false⟩ := by
      rw [← hV, numSpec_written fo fi hc false d.natAbs [] [] (Or.inl ⟨rfl, rfl⟩) (Or.inl rfl)]
      simp [hdv]
    rw [hnum ('/' :: (V ++ [])) (Or.inr ⟨_, rfl⟩)]
    simp only [Bool.false_eq_true, if_false, drop_left']
    rw [hden]
    simp [after, mkG]

end

example : extractQ (mkG (insertQ { fmt := { dec := false, hex := true, showbase := true } } (-255) 16).out [] { dec := false }) =
    (mkG [] "-0xff/0x10".toList.reverse { dec := false }, .value (-255), .value 16) := by decide +kernel
example : extractQ (mkG (insertQ { fmt := { dec := false, oct := true, showbase := true } } 0 8).out [] { dec := false, oct := true }) =
    (mkG [] "0/010".toList.reverse { dec := false, oct := true }, .value 0, .value 8) := by decide +kernel
example : extractQ (mkG (insertQ { fmt := { showpos := true } } 6 4).out [] {}) = (mkG [] "+6/4".toList.reverse {}, .value 6, .value 4) ∧
    extractQ (mkG (insertQ { fmt := {} } 5 1).out [] { dec := false }) = (mkG [] ['5'] { dec := false }, .value 5, .value 1) := by decide +kernel

/-! ## (c) `operator<< (ostream &, mpf_srcptr)` in every base -/

/-- `emitPieces_layout`: the output calls of `__gmp_doprnt_mpf` (doprntf.c:333-372), for every parameter record coming from a
    stream and every set of lengths the function can have computed (`piecesOf`: any digits, exponent, precision, notation),
    write  [padding] sign prefix [padding] body [padding]  where body = the first `intlen` digits, `intzeros` zeros, the
    point if `pointlen`, `fraczeros` zeros, the next `fraclen` digits, `preczeros` zeros, the exponent text; the padding
    is `width` − length fill characters placed by adjustfield as for integers (`fieldLayout`). -/
theorem emitPieces_layout (o : OStream) (letter : Char) (D : FDigits) :
    callsBytes (emitPieces (paramsFromIos o).1 (piecesOf (paramsFromIos o).1 letter D)) =
      fieldLayout o.fmt o.width o.fill (piecesOf (paramsFromIos o).1 letter D).sign.toList
        (piecesOf (paramsFromIos o).1 letter D).showbase (bodyOf (piecesOf (paramsFromIos o).1 letter D)) := by
  obtain ⟨h1, h3, h4, h5, h6, h7, h8⟩ := piecesOf_bounds (paramsFromIos o).1 letter D
  rw [emitPieces_bytes _ _ (fParams_justify o) h1 h3 h4 h5 h6 h7 h8, fParams_layout]

/-- `insertF_layout`: `o << f` for every stream state, every combination of flags (basefield: hex, octal, decimal or several
    bits = decimal; floatfield: fixed, scientific, none or both = general), every width, fill and precision and every mpf:
    the width is reset to 0 and what is handed to `o.write` is `specInsertF`:
      [padding] sign prefix [padding] integer-part [.] fraction trailing-zeros exponent [padding]
    with, for the digit string s and exponent e (value 0.s × base^e) that `mpfDigits` obtains from mpf_get_str (`D`):
      sign     "-" if mpf_get_str delivered one, else "+" under showpos;
      prefix   "0x"/"0X" under showbase on a hex stream, "0" under showbase on an octal stream unless s is empty;
      positional notation (fixed; general with -4 ≤ e-1 < max 1 prec): integer part = the first e digits, filled with zeros
               up to e places, or "0" when e ≤ 0; fraction = -e zeros and the digits, resp. the digits after the first e;
      scientific notation: integer part = first digit ("0" if none), fraction = the others, exponent = the letter ('@' on a
               hex stream, else 'e', 'E' under uppercase), the sign of e-1 and |e-1| in DECIMAL with at least two digits;
      trailing zeros up to `precision` fraction digits in fixed and scientific, up to `precision` digits in all in general
               with showpoint, none in general without showpoint; precision 0 means 6 except in fixed; negative = 0;
      the point is written iff a fraction digit or trailing zero follows or showpoint is set;
      padding  as for integers (`fieldLayout`); every byte is written, NUL fill characters included.
    A stream that is not good() receives nothing. -/
theorem insertF_layout (o : OStream) (f : Mpf.F) :
    insertFG o f = ({ o with width := 0 } : OStream).write
      (specInsertF o.fmt o.width o.fill (paramsFromIos o).1 (mpfDigits (paramsFromIos o).1 f)) := by
  have hw : (paramsFromIos o).2 = { o with width := 0 } := rfl
  unfold insertFG doprntMpfG mpfPieces specInsertF
  simp only [hw]
  rw [emitPieces_layout, piecesOf_sign, piecesOf_showbase, piecesOf_body]

/-- `insertF_sign`: the sign flag of `insertF_layout` is that of the operand: "-" is written exactly for negative values — also
    when the fixed format rounds all digits away ("-0.00") —, "+" under showpos for the others, zero included. -/
theorem insertF_sign (o : OStream) (f : Mpf.F) : (mpfDigits (paramsFromIos o).1 f).neg = decide (f.size < 0) :=
  mpfDigits_neg _ f

example : (insertFG { fmt := { fixed := true, showpos := true }, precision := 2 } ⟨2, -1, 0, [1]⟩).out = "-0.00".toList ∧
    (insertFG { fmt := { fixed := true, showpos := true }, precision := 2 } ⟨2, 0, 0, []⟩).out = "+0.00".toList := by decide +kernel

-- non-vacuity: 255/16 = 15.9375 = f.f (hex); scientific hex with '@' and a decimal exponent; octal with showbase; general
example : (insertFG { fmt := { dec := false, hex := true, fixed := true }, precision := 3 } ⟨2, 2, 1, [0xf000000000000000, 0xf]⟩).out = "f.f00".toList ∧
    (insertFG { fmt := { dec := false, hex := true, scientific := true, showbase := true, uppercase := true }, precision := 2 }
       ⟨2, -1, 1, [0xff]⟩).out = "-0XF.F0@+01".toList ∧
    (insertFG { fmt := { dec := false, oct := true, showbase := true, internal := true, showpos := true }, width := 9, fill := '_' } ⟨2, 1, 1, [8]⟩).out =
       "+0_____10".toList ∧
    (insertFG { fmt := { dec := false, hex := true }, precision := 4 } ⟨2, 1, 5, [1]⟩).out = "1@+64".toList ∧
    (insertFG { fmt := { showpoint := true } } ⟨2, 1, 1, [5]⟩).out = "5.00000".toList := by decide +kernel
-- fixed with precision 0 rounds to nearest on the next digit, with a carry into a new leading digit: 0xff.8 -> "100"
example : (insertFG { fmt := { dec := false, hex := true, fixed := true }, precision := 0 } ⟨2, 2, 1, [0x8000000000000000, 0xff]⟩).out = "100".toList := by
  decide +kernel

/-! ## (d) pinned oddities (the same inputs are corpus lines on the real library: corpus/C20/cxxio2/oddities.ops) -/

-- `os.fill ('\0')`: every byte is written (until /repo 2def0d3 the text was cut at the first NUL — `cstr` — and the buffer was
-- freed with strlen+1 instead of its allocated size, against the allocator contract of property C04)
example : (insertQ { width := 9, fill := '\x00' } 7 3).out = ['\x00', '\x00', '\x00', '\x00', '\x00', '\x00', '7', '/', '3'] ∧
    cstr (insertQ { width := 9, fill := '\x00' } 7 3).out = [] ∧
    (insertFG { fmt := { dec := false, hex := true, showbase := true, internal := true }, width := 8, fill := '\x00', precision := 3 } ⟨2, -1, 1, [255]⟩).out =
      ['-', '0', 'x', '\x00', '\x00', '\x00', 'f', 'f'] := by decide +kernel
-- "0x": without a basefield bit both characters are consumed; alone it fails at the end of the input (eofbit and failbit), before
-- a non-digit it fails with the x consumed and that character put back; a denominator "0x" fails the same way
example : extractZ (mkG "0xg".toList [] { dec := false }) = ({ rest := ['g'], done := ['x', '0'], fail := true, fmt := { dec := false } }, .unchanged) ∧
    extractZ (mkG "-0X".toList [] { dec := false }) = ({ rest := [], done := ['X', '0', '-'], eof := true, fail := true, fmt := { dec := false } }, .unchanged) ∧
    extractQ (mkG "1/0x".toList [] { dec := false }) =
      ({ rest := [], done := "1/0x".toList.reverse, eof := true, fail := true, fmt := { dec := false } }, .value 1, .unchanged) := by decide +kernel
-- eofbit is cleared after a successful read that ran into the end of the input (std::num_get leaves it set): mpz, mpq, mpf
example : extractZ (mkG "12".toList [] {}) = ({ rest := [], done := ['2', '1'] }, .value 12) ∧
    extractQ (mkG "5".toList [] {}) = ({ rest := [], done := ['5'] }, .value 5, .value 1) ∧
    extractQ (mkG "1/2".toList [] {}) = ({ rest := [], done := ['2', '/', '1'] }, .value 1, .value 2) ∧
    scanF (mkG "1.5".toList [] {}) = ({ rest := [], done := ['5', '.', '1'] }, some "1.5".toList) ∧
    (extractZ (mkG "12".toList [] {})).1.good = true := by decide +kernel
-- ... and stays after a failed one
example : (extractZ (mkG "-".toList [] {})).1.eof = true ∧ (scanF (mkG "1e+".toList [] {})).1.eof = true := by decide +kernel
-- mpq: "1/-2" the denominator takes its own sign and nothing is canonicalised; "1/0" stores a zero denominator without any error;
-- "4/2" stays 4/2; "1/" stores the numerator, sets failbit (and eofbit) and leaves the denominator; no white space after the slash
example : (extractQ (mkG "1/-2".toList [] {})).2 = (.value 1, .value (-2)) ∧ (extractQ (mkG "1/-2".toList [] {})).1.good = true ∧
    (extractQ (mkG "1/0".toList [] {})).2 = (.value 1, .value 0) ∧ (extractQ (mkG "1/0".toList [] {})).1.good = true ∧
    (extractQ (mkG "4/2".toList [] {})).2 = (.value 4, .value 2) ∧
    extractQ (mkG "1/".toList [] {}) = ({ rest := [], done := ['/', '1'], eof := true, fail := true }, .value 1, .unchanged) ∧
    extractQ (mkG "1/ 2".toList [] {}) = ({ rest := " 2".toList, done := ['/', '1'], fail := true }, .value 1, .unchanged) := by decide +kernel

end Mpir.CxxIo
