/- C13 (part: strings) — mpf_set_str and mpf_get_str.

   "For ... mpf_set_str, the result differs from the exact mathematical value by less than 2^(2-p) times its
   magnitude, where p = mpf_get_prec(rop) ..., and it equals the exact value whenever the operands and that
   value each fit in p bits. ... mpf_get_str yields at most the requested digits denoting a value within one
   unit of the last requested digit ..., and every result satisfies the mpf format rules."

   The theorems are about the model Mpir/Model/MpfStr.lean, which mirrors mpf/set_str.c and mpf/get_str.c and is
   compared bit for bit with the library on every run (ops mpf_set_str13, mpf_get_str13, mpf_str_roundtrip13). -/
import MpirProofs.Lemmas.MpfStrDiv
import MpirProofs.Lemmas.MpfStrGet
import MpirProofs.Lemmas.MpfStrParse
import MpirProofs.Lemmas.MpfStrScaled
import MpirProofs.Lemmas.MpfStrAcc
namespace Mpir.MpfStr
open Mpir Mpir.Mpf

/-! ## mpn_pow_1_highpart: base^e by repeated squaring with truncation to P limbs -/

/-- The value returned by mpn_pow_1_highpart — at most P limbs `r` (top limb non-zero) and a count `ign` of
    ignored low limbs — satisfies  r·B^ign ≤ base^e  and  base^e − r·B^ign ≤ e · B^(1-P) · base^e,  for every
    base ≥ 1, every e ≥ 1 and every P ≥ 1: each of the at most e truncations costs a factor (1 − B^(1-P)), and
    a squaring doubles the number of factors accumulated so far. -/
theorem powHigh_bound (base P e : ℕ) (hb : 1 ≤ base) (hP : 1 ≤ P) (he : 1 ≤ e) :
    (powHigh base e P).1 ≠ 0 ∧ limbLen (powHigh base e P).1 ≤ P ∧
    ((powHigh base e P).1 : ℚ) * (B : ℚ) ^ (powHigh base e P).2 ≤ (base : ℚ) ^ e ∧
    (base : ℚ) ^ e - ((powHigh base e P).1 : ℚ) * (B : ℚ) ^ (powHigh base e P).2 ≤
      (e : ℚ) * (1 / (B : ℚ) ^ (P - 1)) * (base : ℚ) ^ e := by
  obtain ⟨a, b, c⟩ := powHigh_appr base P e hb hP he
  exact ⟨a, b, c.2, Appr.err (epsP_nonneg P) (epsP_le_one P) (by positivity) c⟩

-- non-vacuity: 10^40 needs 3 limbs; with P = 2 one limb is dropped and the kept part is the true top part
example : powHigh 10 40 2 = (10 ^ 40 / B, 1) := by decide +kernel
example : powHigh 10 19 2 = (10 ^ 19, 0) := by decide +kernel

/-! ## mpf_set_str: the conversion -/

/-- A zero mantissa gives the canonical zero (SIZ = 0, EXP = 0), whatever the exponent. -/
theorem convert_zero (prec : ℕ) (p : Parsed) (h : p.mant = 0) : convert prec p = zero prec ∧ WF (convert prec p) := by
  unfold convert; rw [if_pos h]; exact ⟨rfl, WF_zero prec⟩

example : convert 2 ⟨true, 10, [0, 0], 1, 5⟩ = zero 2 := by decide +kernel

/-- **Accuracy of mpf_set_str.**  For an accepted string with non-zero mantissa M, base b ≥ 1 and
    e = |exponent − fraction length| < 2^63 (the range of the C `long` it is held in), the result of the
    conversion algorithm of mpf/set_str.c — mantissa cut to prec+1 limbs, base^e by mpn_pow_1_highpart with
    every intermediate square cut to prec+1 limbs, product cut to prec+1 limbs, or quotient of prec+1 limbs —
    is a well-formed mpf and differs from the exact value ±M·b^(±e) by less than 2^(2-p) times its magnitude,
    p = 64·prec − 64 = mpf_get_prec.  The accumulated truncations amount to at most e+2 (product) resp.
    2e+3 (quotient) factors (1 − B^(-prec)), against the 4·B·B^(-prec) the statement allows. -/
theorem convert_err (prec : ℕ) (hp : 1 ≤ prec) (p : Parsed) (hb : 1 ≤ p.base) (hM : p.mant ≠ 0)
    (he : p.scale.natAbs < 2 ^ 63) :
    WF (convert prec p) ∧ |toQ (convert prec p) - p.value| < eps prec * |p.value| := by
  have hMq : (0 : ℚ) < (p.mant : ℚ) := by exact_mod_cast Nat.pos_of_ne_zero hM
  have hbq : (0 : ℚ) < (p.base : ℚ) := by exact_mod_cast hb
  unfold convert Parsed.value
  rw [if_neg hM]
  by_cases h0 : p.scale.natAbs = 0
  · rw [if_pos h0]
    have hs : p.scale = 0 := Int.natAbs_eq_zero.mp h0
    obtain ⟨wf, R, hR, ap, _, _⟩ := convInt_spec prec p.neg p.mant hM
    refine ⟨wf, ?_⟩
    rw [hR, hs, zpow_zero, mul_one]
    exact err_with_sign p.neg prec hMq (err_of_appr prec hp hMq ap (by have := B_pos; omega))
  · rw [if_neg h0]
    have he1 : 1 ≤ p.scale.natAbs := by omega
    have h4B : p.scale.natAbs + 2 < 4 * B := by rw [B_eq]; omega
    by_cases hneg : p.scale < 0
    · rw [if_pos hneg]
      obtain ⟨wf, R, hR, lo, hi, _⟩ := convDiv_spec prec p.neg p.mant p.base p.scale.natAbs hM hb he1
      refine ⟨wf, ?_⟩
      have hs : p.scale = -(p.scale.natAbs : ℤ) := by omega
      have hV : sgn p.neg * (p.mant : ℚ) * (p.base : ℚ) ^ p.scale =
          sgn p.neg * ((p.mant : ℚ) / (p.base : ℚ) ^ p.scale.natAbs) := by
        rw [hs, zpow_neg, zpow_natCast, Int.natAbs_neg, Int.natAbs_natCast]; ring
      rw [hR, hV]
      have hVpos : (0 : ℚ) < (p.mant : ℚ) / (p.base : ℚ) ^ p.scale.natAbs := div_pos hMq (pow_pos hbq _)
      exact err_with_sign p.neg prec hVpos (err_of_two_sided prec hp hVpos lo hi he)
    · rw [if_neg hneg]
      obtain ⟨wf, R, hR, ap, _⟩ := convMul_spec prec p.neg p.mant p.base p.scale.natAbs hM hb he1
      refine ⟨wf, ?_⟩
      have hs : p.scale = (p.scale.natAbs : ℤ) := by omega
      have hV : sgn p.neg * (p.mant : ℚ) * (p.base : ℚ) ^ p.scale =
          sgn p.neg * ((p.mant : ℚ) * (p.base : ℚ) ^ p.scale.natAbs) := by
        rw [hs, zpow_natCast, Int.natAbs_natCast]; ring
      rw [hR, hV]
      have hVpos : (0 : ℚ) < (p.mant : ℚ) * (p.base : ℚ) ^ p.scale.natAbs := mul_pos hMq (pow_pos hbq _)
      exact err_with_sign p.neg prec hVpos (err_of_appr prec hp hVpos ap h4B)

-- non-vacuity: "1.e-1" (M = 1, base 10, scale -1) at 64-bit precision: 0.1 is not representable, the result is
-- the 3-limb quotient 0x1999…9999 9999…9999 9999…999a-ish / B^3; "7e77" goes through the truncated power
example : convert 2 ⟨false, 10, [1], 0, -1⟩ =
    ⟨2, 3, 0, [0x9999999999999999, 0x9999999999999999, 0x1999999999999999]⟩ := by decide +kernel
example : WF (convert 2 ⟨false, 10, [7], 0, 77⟩) ∧ (convert 2 ⟨false, 10, [7], 0, 77⟩).exp = 5 := by decide +kernel

/-- **Exactness of mpf_set_str.**  If the integer mantissa, the power base^|exponent − fraction length| and
    the value denoted each fit in p = 64·prec − 64 bits (are m·2^k with |m| < 2^p), the stored result equals the
    value denoted: the mantissa cut, every truncated square inside mpn_pow_1_highpart, the product cut and the
    final division drop nothing but zero limbs / leave no remainder. -/
theorem convert_exact_if_fits (prec : ℕ) (hp : 1 ≤ prec) (p : Parsed) (hb : 1 ≤ p.base) (hM : p.mant ≠ 0)
    (fM : Fits (p.mant : ℚ) (PREC_TO_BITS prec))
    (fb : Fits (((p.base ^ p.scale.natAbs : ℕ) : ℚ)) (PREC_TO_BITS prec))
    (fv : Fits p.value (PREC_TO_BITS prec)) :
    toQ (convert prec p) = p.value := by
  have hpb : PREC_TO_BITS prec = 64 * (prec - 1) := by unfold PREC_TO_BITS; omega
  rw [hpb] at fM fb fv
  have toN : ∀ N : ℕ, Fits (N : ℚ) (64 * (prec - 1)) → FitsN N (64 * (prec - 1)) := by
    intro N h
    apply fitsN_of_fits (Or.inl rfl) N 0
    simpa using h
  have fM' := toN _ fM
  have fb' := toN _ fb
  unfold Parsed.value at fv ⊢
  unfold convert
  rw [if_neg hM]
  by_cases h0 : p.scale.natAbs = 0
  · rw [if_pos h0]
    have hs : p.scale = 0 := Int.natAbs_eq_zero.mp h0
    obtain ⟨_, R, hR, _, _, ex⟩ := convInt_spec prec p.neg p.mant hM
    rw [hR, ex hp fM', hs, zpow_zero, mul_one]
  · rw [if_neg h0]
    have he1 : 1 ≤ p.scale.natAbs := by omega
    by_cases hneg : p.scale < 0
    · rw [if_pos hneg]
      obtain ⟨_, R, hR, _, _, ex⟩ := convDiv_spec prec p.neg p.mant p.base p.scale.natAbs hM hb he1
      have hs : p.scale = -(p.scale.natAbs : ℤ) := by omega
      have hV : sgn p.neg * (p.mant : ℚ) * (p.base : ℚ) ^ p.scale =
          sgn p.neg * ((p.mant : ℚ) / (p.base : ℚ) ^ p.scale.natAbs) := by
        rw [hs, zpow_neg, zpow_natCast, Int.natAbs_neg, Int.natAbs_natCast]; ring
      rw [hV] at fv ⊢
      rw [hR, ex hp fM' fb' (fits_sg (sgn_cases p.neg) fv)]
    · rw [if_neg hneg]
      obtain ⟨_, R, hR, _, ex⟩ := convMul_spec prec p.neg p.mant p.base p.scale.natAbs hM hb he1
      have hs : p.scale = (p.scale.natAbs : ℤ) := by omega
      have hV : sgn p.neg * (p.mant : ℚ) * (p.base : ℚ) ^ p.scale =
          sgn p.neg * (((p.mant * p.base ^ p.scale.natAbs : ℕ) : ℚ)) := by
        rw [hs, zpow_natCast, Int.natAbs_natCast]; push_cast; ring
      rw [hV] at fv ⊢
      have fv' : FitsN (p.mant * p.base ^ p.scale.natAbs) (64 * (prec - 1)) := by
        apply fitsN_of_fits (sgn_cases p.neg) _ 0
        simpa using fv
      rw [hR, ex hp fM' fb' fv']; push_cast; ring

-- non-vacuity: "5e-1" in base 10 is exactly 1/2 (through the division), "125e3" exactly 125000 (through the product)
example : toQ (convert 2 ⟨false, 10, [5], 0, -1⟩) = 1 / 2 := by
  have h := convert_exact_if_fits 2 (by norm_num) ⟨false, 10, [5], 0, -1⟩ (by decide) (by decide +kernel)
    ⟨5, 0, by norm_num [Parsed.mant, Radix.ofDigits], by norm_num [PREC_TO_BITS]⟩
    ⟨10, 0, by norm_num [Parsed.scale], by norm_num [PREC_TO_BITS]⟩
    ⟨1, -1, by norm_num [Parsed.value, Parsed.mant, Parsed.scale, Radix.ofDigits, sgn], by norm_num [PREC_TO_BITS]⟩
  rw [h]; norm_num [Parsed.value, Parsed.mant, Parsed.scale, Radix.ofDigits, sgn]
example : convert 2 ⟨false, 10, [5], 0, -1⟩ = ⟨2, 3, 0, [0, 0, B / 2]⟩ := by decide +kernel
example : convert 2 ⟨true, 10, [1, 2, 5], 0, 3⟩ = ⟨2, -1, 1, [125000]⟩ := by decide +kernel


/-- mpf_set_str as a whole: a rejected string leaves the destination untouched and returns -1; an accepted one
    returns 0 and stores the conversion of what the string denotes, to which `convert_zero` / `convert_err` apply. -/
theorem set_str_spec (prec : ℕ) (dst : F) (base : ℤ) (s : List ℕ) :
    (parse base s = none → set_str prec dst base s = (-1, dst)) ∧
    (∀ p, parse base s = some p → set_str prec dst base s = (0, convert prec p)) := by
  unfold set_str
  constructor
  · intro h; rw [h]
  · intro p h; rw [h]

example : set_str 2 ⟨2, 2, -3, [5, 7]⟩ 10 ("1e".toList.map Char.toNat) = (-1, ⟨2, 2, -3, [5, 7]⟩) := by decide +kernel

/-- What an accepted string yields: the base is |base| (10 for base 0) and lies in 2..62, every mantissa digit is a
    digit of that base, the fraction length does not exceed the digit count, and the sign is the `-` found after
    the leading white space. -/
theorem parse_sound (base : ℤ) (s : List ℕ) (p : Parsed) (h : parse base s = some p) :
    2 ≤ p.base ∧ p.base ≤ 62 ∧ p.base = baseOf base ∧
    (∀ d ∈ p.digits, d < p.base) ∧ p.frac ≤ p.digits.length ∧
    p.neg = (((s.takeWhile (· != 0)).dropWhile Radix.isSpace).head? == some 45) :=
  parse_wf base s p h

example : parse (-16) (" -fF.8@-10".toList.map Char.toNat) = some ⟨true, 16, [15, 15, 8], 1, -10⟩ := by decide +kernel
example : parse 10 ("1e5xyz".toList.map Char.toNat) = some ⟨false, 10, [1], 0, 5⟩ := by decide +kernel
example : parse 10 ("1.2.3".toList.map Char.toNat) = none ∧ parse 10 ("- 5".toList.map Char.toNat) = none ∧
    parse 16 ("1e5".toList.map Char.toNat) = some ⟨false, 16, [1, 14, 5], 0, 0⟩ ∧ parse 63 [49] = none ∧
    parse 10 ("1e5e3".toList.map Char.toNat) = none := by decide +kernel

/-- **mpf_set_str, all inputs.**  For every string, base and destination of precision prec ≥ 1 limb field:
    either the string is rejected (return -1, destination untouched), or it is accepted (return 0) and the
    destination then holds a well-formed mpf which is the canonical zero if the mantissa is zero, and otherwise
    differs from the value denoted, ±mantissa·base^(exponent − fraction length), by less than 2^(2-p) times its
    magnitude whenever that power fits the C `long` it is computed in, and equals it whenever mantissa, power
    and value fit in p bits. -/
theorem mpf_set_str_correct (prec : ℕ) (hp : 1 ≤ prec) (dst : F) (base : ℤ) (s : List ℕ) :
    (parse base s = none ∧ set_str prec dst base s = (-1, dst)) ∨
    (∃ p, parse base s = some p ∧ (set_str prec dst base s).1 = 0 ∧ WF (set_str prec dst base s).2 ∧
      (p.mant = 0 → (set_str prec dst base s).2 = zero prec) ∧
      (p.mant ≠ 0 → p.scale.natAbs < 2 ^ 63 →
        |toQ (set_str prec dst base s).2 - p.value| < eps prec * |p.value|) ∧
      (p.mant ≠ 0 → Fits (p.mant : ℚ) (PREC_TO_BITS prec) →
        Fits (((p.base ^ p.scale.natAbs : ℕ) : ℚ)) (PREC_TO_BITS prec) → Fits p.value (PREC_TO_BITS prec) →
        toQ (set_str prec dst base s).2 = p.value)) := by
  cases h : parse base s with
  | none => left; exact ⟨rfl, ((set_str_spec prec dst base s).1 h)⟩
  | some p =>
    right
    have hs := (set_str_spec prec dst base s).2 p h
    have hb : 1 ≤ p.base := by have := (parse_wf base s p h).1; omega
    refine ⟨p, rfl, by rw [hs], ?_, ?_, ?_, ?_⟩
    · rw [hs]
      by_cases hM : p.mant = 0
      · exact (convert_zero prec p hM).2
      · -- format rules hold for every exponent (the bound needs the `long` range only for the error)
        unfold convert
        rw [if_neg hM]
        by_cases h0 : p.scale.natAbs = 0
        · rw [if_pos h0]; exact (convInt_spec prec p.neg p.mant hM).1
        · rw [if_neg h0]
          by_cases hneg : p.scale < 0
          · rw [if_pos hneg]; exact (convDiv_spec prec p.neg p.mant p.base p.scale.natAbs hM hb (by omega)).1
          · rw [if_neg hneg]; exact (convMul_spec prec p.neg p.mant p.base p.scale.natAbs hM hb (by omega)).1
    · intro hM; rw [hs]; exact (convert_zero prec p hM).1
    · intro hM he; rw [hs]; exact (convert_err prec hp p hb hM he).2
    · intro hM f1 f2 f3; rw [hs]; exact convert_exact_if_fits prec hp p hb hM f1 f2 f3

example : (set_str 2 ⟨2, 2, -3, [5, 7]⟩ 10 ("-12.5e1".toList.map Char.toNat)) = (0, ⟨2, -1, 1, [125]⟩) := by decide +kernel

/-! ## mpf_get_str: what the run-time predicate decides -/

/-- The integer test `withinUnit` evaluated by the driver is the statement "the digits d₁…d_L with exponent x
    denote a value within one unit of the n-th digit of num/den":  |0.d₁…d_L · b^x − num/den| ≤ b^(x−n). -/
theorem withinUnit_iff (b : ℕ) (hb : 1 ≤ b) (ds : List ℕ) (x : ℤ) (n num den : ℕ) (hden : 0 < den)
    (hL : ds.length ≤ n) :
    withinUnit b ds x n num den = true ↔
      |(Radix.ofDigits b ds : ℚ) * (b : ℚ) ^ (x - (ds.length : ℤ)) - (num : ℚ) / (den : ℚ)| ≤ (b : ℚ) ^ (x - (n : ℤ)) :=
  withinUnit_iff_q b hb ds x n num den hden hL

/-- `GetOk`, the predicate applied to every answer of mpf_get_str for a non-zero operand of magnitude num/den
    (n = the digit count worked to: n_digits, or MPF_SIGNIFICANT_DIGITS when n_digits is 0 or larger than that),
    says exactly: between 1 and n digits, each below the base, the first and the last one non-zero ("trailing
    zeros are not returned"), and the value denoted is within one unit of the n-th digit. -/
theorem getOk_iff (b : ℕ) (hb : 1 ≤ b) (ds : List ℕ) (x : ℤ) (n num den : ℕ) (hden : 0 < den) :
    GetOk b ds x n num den = true ↔
      (1 ≤ ds.length ∧ ds.length ≤ n ∧ (∀ d ∈ ds, d < b) ∧ ds.head? ≠ some 0 ∧ ds.getLast? ≠ some 0 ∧
       |(Radix.ofDigits b ds : ℚ) * (b : ℚ) ^ (x - (ds.length : ℤ)) - (num : ℚ) / (den : ℚ)| ≤ (b : ℚ) ^ (x - (n : ℤ))) := by
  unfold GetOk
  simp only [Bool.and_eq_true, decide_eq_true_iff, List.all_eq_true]
  constructor
  · rintro ⟨⟨⟨⟨⟨h1, h2⟩, h3⟩, h4⟩, h5⟩, h6⟩
    exact ⟨h1, h2, h3, h4, h5, (withinUnit_iff_q b hb ds x n num den hden h2).mp h6⟩
  · rintro ⟨h1, h2, h3, h4, h5, h6⟩
    exact ⟨⟨⟨⟨⟨h1, h2⟩, h3⟩, h4⟩, h5⟩, (withinUnit_iff_q b hb ds x n num den hden h2).mpr h6⟩

-- non-vacuity: 3.1416 as "31416" with exponent 1 at n = 5 is accepted for 31416/10000 and for 314159/100000
-- (error 0.1 unit), and rejected for 3.1427 (1.1 units) and when a leading zero digit is delivered
example : GetOk 10 [3, 1, 4, 1, 6] 1 5 314159 100000 = true := by decide +kernel
example : GetOk 10 [3, 1, 4, 1, 6] 1 5 31427 10000 = false := by decide +kernel
example : GetOk 10 [0, 3, 1, 4, 2] 2 5 31416 10000 = false := by decide +kernel
example : GetOk 10 [1] 3 4 99996 1000 = true := by decide +kernel        -- 99.996 to 4 digits: "1", exponent 3

/-- **Rounding up** (get_str.c:259-280).  Adding one unit to the last kept digit: the digits returned — carried
    positions cut off, or the single digit 1 with the exponent raised by one when every digit was b-1 — denote
    exactly the old value plus one unit of its last place; they are digits of the base, at least one, not more
    than before, and the last one is not zero. -/
theorem roundUp_value (b : ℕ) (hb : 2 ≤ b) (ds : List ℕ) (x : ℤ) (hne : ds ≠ []) (hds : ∀ d ∈ ds, d < b) :
    digVal b (roundUp b ds x).1 (roundUp b ds x).2 = digVal b ds x + (b : ℚ) ^ (x - (ds.length : ℤ)) ∧
    (∀ d ∈ (roundUp b ds x).1, d < b) ∧ (roundUp b ds x).1.getLast? ≠ some 0 ∧
    1 ≤ (roundUp b ds x).1.length ∧ (roundUp b ds x).1.length ≤ ds.length := by
  obtain ⟨a, b', c, d, e⟩ := roundUp_spec b hb ds x hds
  refine ⟨?_, b', c, d, ?_⟩
  · rw [a]; unfold digVal; ring
  · rcases e with e | e
    · exact e
    · exact absurd e hne

example : roundUp 10 [9, 9, 9] 5 = ([1], 6) ∧ roundUp 10 [1, 2, 9, 9] 5 = ([1, 3], 5) ∧
    roundUp 16 [15, 14] (-3) = ([15, 15], -3) := by decide +kernel

/-- **Integers are converted exactly.**  If the operand holds the integer N > 0 (EXP ≥ number of limbs), N has at
    most as many digits as are worked to, all limbs are used (|size| ≤ n_limbs_needed), the multiplication
    branch is taken (EXP ≤ n_limbs_needed) and base^e stays below B^n_limbs_needed (so mpn_pow_1_highpart
    truncates nothing), then mpf_get_str delivers exactly the digits of N without its trailing zeros, and the
    exponent is the number of digits of N. -/
theorem get_digits_integer_exact (base nd0 : ℕ) (u : F) (hb : 2 ≤ base) (N : ℕ) (hN : 0 < N)
    (hlen : (u.d.length : ℤ) ≤ u.exp)
    (hval : N = val u.d * B ^ (u.exp - (u.d.length : ℤ)).toNat)
    (hun : u.d.length ≤ nLimbsNeeded base (effDigits base u.prec nd0))
    (hexp : u.exp ≤ (nLimbsNeeded base (effDigits base u.prec nd0) : ℤ))
    (hpow : base ^ (Radix.mulTrunc (64 * ((nLimbsNeeded base (effDigits base u.prec nd0) : ℤ) - u.exp).toNat)
        (Radix.cpbeBits base)) < B ^ nLimbsNeeded base (effDigits base u.prec nd0))
    (hdig : (Radix.digitsOf base N).length ≤ effDigits base u.prec nd0) :
    get_digits base nd0 u =
      (stripTrailingZeros (Radix.digitsOf base N), ((Radix.digitsOf base N).length : ℤ)) :=
  get_digits_integer base nd0 u hb N hN hlen hval hun hexp hpow hdig

-- non-vacuity: 12500 held by a 64-bit-precision mpf, all significant digits requested, base 10: "125", exponent 5
example : get_digits 10 0 ⟨2, 1, 1, [12500]⟩ = ([1, 2, 5], 5) := by
  rw [get_digits_integer_exact 10 0 ⟨2, 1, 1, [12500]⟩ (by norm_num) 12500 (by norm_num) (by decide) (by decide +kernel)
    (by decide +kernel) (by decide +kernel) (by decide +kernel) (by decide +kernel)]
  decide +kernel
example : get_str (-16) 3 ⟨2, -2, 1, [B / 2, 255]⟩ = ("-FF8".toList.map Char.toNat, 2) := by decide +kernel

/-- **The integer whose digits mpf_get_str develops** (get_str.c:180-250, n_limbs_needed = nln ≥ 1 limbs kept at
    every step).  With |u| the exact magnitude of a well-formed non-zero operand and ε = B^(1-nln):
    multiplication branch (EXP ≤ nln): the scaling exponent is some e ≥ 0 and
        |u|·base^e·(1−ε)^(e+1) − 1 < N ≤ |u|·base^e ;
    division branch (EXP > nln, and the power's ignored limbs do not exceed n_less_limbs_needed, which
    get_str.c:238 takes for granted): the scaling exponent is −e and
        |u|/base^e·(1−ε) − 1 < N   and   N·(1−ε)^e ≤ |u|/base^e .
    The accumulated factor (1−ε)^(e+1) is what one guard limb could not absorb for e in the thousands (the defect
    repaired in /repo); with nln = 3 + limbs(n_digits) it stays 2^-65·(e+1) below the last requested digit. -/
theorem scaledInt_bound (base nln : ℕ) (u : F) (hb : 1 ≤ base) (hn : 1 ≤ nln)
    (hl : Limbs u.d) (hne : u.d ≠ []) (ht : u.d.getLast? ≠ some 0) :
    (u.exp ≤ (nln : ℤ) →
      ∃ e : ℕ, (scaledInt base nln u).2 = (e : ℤ) ∧
        ((scaledInt base nln u).1 : ℚ) ≤ qv u.d u.exp * (base : ℚ) ^ e ∧
        qv u.d u.exp * (base : ℚ) ^ e * (1 - epsP nln) ^ (e + 1) - 1 < ((scaledInt base nln u).1 : ℚ)) ∧
    (¬ u.exp ≤ (nln : ℤ) →
      (powHigh0 base (Radix.mulTrunc (64 * (u.exp - (nln : ℤ)).toNat) (Radix.cpbeBits base)) nln).2 ≤ (u.exp - (nln : ℤ)).toNat →
      ∃ e : ℕ, (scaledInt base nln u).2 = -(e : ℤ) ∧
        ((scaledInt base nln u).1 : ℚ) * (1 - epsP nln) ^ e ≤ qv u.d u.exp / (base : ℚ) ^ e ∧
        qv u.d u.exp / (base : ℚ) ^ e * (1 - epsP nln) - 1 < ((scaledInt base nln u).1 : ℚ)) :=
  ⟨scaledInt_mul_bound base nln u hb hn hl hne ht, scaledInt_div_bound base nln u hb hn hl hne ht⟩

-- non-vacuity: 2^-64 (one limb, EXP = 0) in base 10 with 4 limbs: scaled by 10^77, N = ⌊10^77 / 2^64⌋;
-- 5·B^9 (EXP = 10) with 3 limbs: divided by 10^134
example : scaledInt 10 4 ⟨2, 1, 0, [1]⟩ = (10 ^ 77 / 2 ^ 64, 77) := by decide +kernel
example : (scaledInt 10 3 ⟨2, 1, 10, [5]⟩).2 = -134 := by decide +kernel

/-- **Accuracy of mpf_get_str's algorithm.**  For a well-formed non-zero operand u, a base ≥ 2 and any n_digits,
    if the adequacy conditions `adequate` hold — n_limbs_needed leaves two guard limbs beyond the digits worked to
    (base^n·2^64 ≤ B^(nln−1)), at least three more digits are developed than delivered, the scaling exponent is
    below 2^59, and in the division branch the power's ignored limbs do not exceed n_less_limbs_needed — then the
    digits d₁…d_L and exponent x delivered by the conversion algorithm of mpf/get_str.c (top limbs of u, base^e by
    mpn_pow_1_highpart cut to nln limbs at every squaring, product or quotient, digit development, rounding at
    the n-th digit, carry, stripping) denote a value WITHIN ONE UNIT OF THE n-th DIGIT of |u|:
        |0.d₁…d_L · base^x − |u|| ≤ base^(x − n).
    The conditions only concern the binary64 computations of get_str.c:180/189/226; the driver evaluates them on
    every mpf_get_str13 line of every run (a failure prints `!adequacy`).  With the single guard limb the code had
    before its repair the first condition reads base^n ≤ B^(nln−1), for which no such theorem holds (A.2). -/
theorem get_digits_accuracy (base nd0 : ℕ) (u : F) (hb : 2 ≤ base) (hu : OpWF u) (h0 : u.size ≠ 0)
    (had : adequate base nd0 u = true) :
    |digVal base (get_digits base nd0 u).1 (get_digits base nd0 u).2 - abs (toQ u)| ≤
      (base : ℚ) ^ ((get_digits base nd0 u).2 - (effDigits base u.prec nd0 : ℤ)) := by
  obtain ⟨hl, hlen, ht, _⟩ := hu
  have hne : u.d ≠ [] := by
    intro h; rw [h] at hlen; simp at hlen; omega
  have habs : abs (toQ u) = qv u.d u.exp := by
    rw [toQ_qv, abs_mul, abs_of_nonneg (qv_nonneg _ _)]
    rcases sg_cases u with h | h <;> rw [h] <;> simp
  unfold adequate at had
  simp only [Bool.and_eq_true, Bool.or_eq_true, decide_eq_true_iff] at had
  obtain ⟨⟨⟨H1, H2⟩, H3⟩, H4⟩ := had
  rw [habs]
  exact get_digits_within_unit base nd0 u hb hl hne ht H1 H2 H3 (fun h => H4.resolve_left h)

-- non-vacuity: 2^-64 in base 10, all significant digits (21): adequacy holds, so 0.542101086242752217004 · 10^-19
-- is within 10^(-19-21) of 2^-64; likewise 5·B^9 (division branch)
example : adequate 10 0 ⟨2, 1, 0, [1]⟩ = true ∧ adequate 10 0 ⟨2, 1, 10, [5]⟩ = true ∧
    adequate 3 40 ⟨2, 3, -128, [0x848073b81ed3faf5, 0x4af1d0f37852807, 0x9394374f077c93a1]⟩ = true := by decide +kernel
example : get_digits 10 0 ⟨2, 1, 0, [1]⟩ = ([5, 4, 2, 1, 0, 1, 0, 8, 6, 2, 4, 2, 7, 5, 2, 2, 1, 7, 0, 0, 4], -19) := by
  decide +kernel

end Mpir.MpfStr
