/-
  C03 — add, subtract, negate, shift and copy compute the exact limb-vector function.
  Property theorems only; helper lemmas live in MpirProofs/Lemmas/.
  Every theorem is about the executable models in Mpir/Model/Kernels.lean, which the correspondence
  check runs against the real mpn_* functions on every run.
-/
import MpirProofs.Lemmas.Kernels
namespace Mpir

/-- mpn_add_n: for all lengths and limb contents, result + B^n·carry = u + v, carry ∈ {0,1},
    result limbs proper, result has n limbs. -/
theorem add_n_val (u v : List Nat) (hu : Limbs u) (hv : Limbs v) (hl : u.length = v.length) :
    val (add_n u v).1 + B ^ u.length * (add_n u v).2 = val u + val v ∧
    (add_n u v).2 ≤ 1 ∧ Limbs (add_n u v).1 ∧ (add_n u v).1.length = u.length := by
  simpa [add_n] using addNC_val u v 0 hu hv hl (by omega)

-- non-vacuity: a concrete carry chain
example : add_n [B - 1, B - 1] [1, 0] = ([0, 0], 1) := by decide

/-- mpn_sub_n: for all lengths and limb contents, result + v = u + B^n·borrow, borrow ∈ {0,1},
    result limbs proper, result has n limbs. -/
theorem sub_n_val (u v : List Nat) (hu : Limbs u) (hv : Limbs v) (hl : u.length = v.length) :
    val (sub_n u v).1 + val v = val u + B ^ u.length * (sub_n u v).2 ∧
    (sub_n u v).2 ≤ 1 ∧ Limbs (sub_n u v).1 ∧ (sub_n u v).1.length = u.length := by
  simpa [sub_n] using subNC_val u v 0 hu hv hl (by omega)

-- non-vacuity: a borrow chain through a zero limb
example : sub_n [0, 0] [1, 0] = ([B - 1, B - 1], 1) := by decide

/-- mpn_add_1 (n ≥ 1, v a limb): result + B^n·carry = u + v, carry ∈ {0,1}; covers both the
    propagate path and the early-exit "copy the rest" path of `__GMPN_AORS_1`. -/
theorem add_1_val (u : List Nat) (v : Nat) (hu : Limbs u) (hn : 1 ≤ u.length) (hv : v < B) :
    val (add_1 u v).1 + B ^ u.length * (add_1 u v).2 = val u + v ∧
    (add_1 u v).2 ≤ 1 ∧ Limbs (add_1 u v).1 ∧ (add_1 u v).1.length = u.length := by
  match u, hn with
  | x :: xs, _ => exact add_1_val' x xs v hu hv

-- non-vacuity: carry stops at limb 1, limb 2 is copied
example : add_1 [B - 1, 5, 7] 3 = ([2, 6, 7], 0) := by decide
example : add_1 [B - 1, B - 1] 1 = ([0, 0], 1) := by decide

/-- mpn_sub_1 (n ≥ 1, v a limb): result + v = u + B^n·borrow, borrow ∈ {0,1}; both paths. -/
theorem sub_1_val (u : List Nat) (v : Nat) (hu : Limbs u) (hn : 1 ≤ u.length) (hv : v < B) :
    val (sub_1 u v).1 + v = val u + B ^ u.length * (sub_1 u v).2 ∧
    (sub_1 u v).2 ≤ 1 ∧ Limbs (sub_1 u v).1 ∧ (sub_1 u v).1.length = u.length := by
  match u, hn with
  | x :: xs, _ => exact sub_1_val' x xs v hu hv

example : sub_1 [1, 0, 7] 3 = ([B - 2, B - 1, 6], 0) := by decide
example : sub_1 [0, 0] 1 = ([B - 1, B - 1], 1) := by decide

/-- mpn_add (xsize ≥ ysize ≥ 0): result + B^xsize·carry = x + y, carry ∈ {0,1}, xsize limbs. -/
theorem add_val (x y : List Nat) (hx : Limbs x) (hy : Limbs y) (hl : y.length ≤ x.length) :
    val (add x y).1 + B ^ x.length * (add x y).2 = val x + val y ∧
    (add x y).2 ≤ 1 ∧ Limbs (add x y).1 ∧ (add x y).1.length = x.length :=
  add_val' x y hx hy hl

example : add [B - 1, B - 1, 4] [1] = ([0, 0, 5], 0) := by decide
example : add [B - 1, B - 1] [1] = ([0, 0], 1) := by decide
example : add [3, 4] [] = ([3, 4], 0) := by decide

/-- mpn_sub (xsize ≥ ysize ≥ 0): result + y = x + B^xsize·borrow, borrow ∈ {0,1}, xsize limbs. -/
theorem sub_val (x y : List Nat) (hx : Limbs x) (hy : Limbs y) (hl : y.length ≤ x.length) :
    val (sub x y).1 + val y = val x + B ^ x.length * (sub x y).2 ∧
    (sub x y).2 ≤ 1 ∧ Limbs (sub x y).1 ∧ (sub x y).1.length = x.length :=
  sub_val' x y hx hy hl

example : sub [0, 0, 4] [1] = ([B - 1, B - 1, 3], 0) := by decide
example : sub [0, 0] [1] = ([B - 1, B - 1], 1) := by decide

/-- mpn_com_n: result + u = B^n − 1 (every limb complemented), n limbs. -/
theorem com_n_val (u : List Nat) (hu : Limbs u) :
    val (com_n u) + val u = B ^ u.length - 1 ∧ Limbs (com_n u) ∧ (com_n u).length = u.length := by
  obtain ⟨hv, hl, hn⟩ := com_n_val' u hu
  exact ⟨by omega, hl, hn⟩

example : com_n [0, 5, B - 1] = [B - 1, B - 6, 0] := by decide

/-- mpn_neg_n (C domain n ≥ 1; the identity also holds for the empty vector): two's complement,
    result + u = B^n·borrow where borrow = 1 iff u ≠ 0 (zero run copied, first non-zero limb negated,
    the rest complemented). -/
theorem neg_n_val (u : List Nat) (hu : Limbs u) :
    val (neg_n u).1 + val u = B ^ u.length * (neg_n u).2 ∧
    (neg_n u).2 = (if val u = 0 then 0 else 1) ∧
    Limbs (neg_n u).1 ∧ (neg_n u).1.length = u.length := by
  obtain ⟨hv, hc, hl, hn⟩ := negNC_zero_val u hu
  refine ⟨hv, ?_, hl, hn⟩
  rcases hc with ⟨c0, v0⟩ | ⟨c1, v1⟩
  · rw [if_pos v0]; exact c0
  · rw [if_neg v1]; exact c1

example : neg_n [0, 5, 7] = ([0, B - 5, B - 8], 1) := by decide
example : neg_n [0, 0] = ([0, 0], 0) := by decide

/-- mpn_lshift (1 ≤ cnt ≤ 63; C domain n ≥ 1, the identity also holds for the empty vector):
    result + B^n·ret = u·2^cnt, the returned limb holds exactly the cnt bits shifted out. -/
theorem lshift_val (u : List Nat) (c : Nat) (hu : Limbs u) (hc1 : 1 ≤ c) (hc : c ≤ 63) :
    val (lshift u c).1 + B ^ u.length * (lshift u c).2 = val u * 2 ^ c ∧
    (lshift u c).2 < 2 ^ c ∧ Limbs (lshift u c).1 ∧ (lshift u c).1.length = u.length := by
  have := lshiftGo_val c (by omega) u 0 hu (by positivity)
  simpa [lshift] using this

example : lshift [B - 1, 1] 4 = ([B - 16, 31], 0) := by decide
example : lshift [3, 2 ^ 63 + 5] 1 = ([6, 10], 1) := by decide

/-- mpn_rshift (1 ≤ cnt ≤ 63, n ≥ 1): result·B + ret = u·2^(64−cnt): the result is u shifted right and
    the returned limb holds the cnt bits shifted out, left-aligned.  Equivalently (second part)
    result = ⌊u / 2^cnt⌋ and ret = (u mod 2^cnt)·2^(64−cnt). -/
theorem rshift_val (u : List Nat) (c : Nat) (hu : Limbs u) (hn : 1 ≤ u.length) (hc1 : 1 ≤ c) (hc : c ≤ 63) :
    val (rshift u c).1 * B + (rshift u c).2 = val u * 2 ^ (64 - c) ∧
    (rshift u c).2 < B ∧ Limbs (rshift u c).1 ∧ (rshift u c).1.length = u.length ∧
    val (rshift u c).1 = val u / 2 ^ c ∧ (rshift u c).2 = (val u % 2 ^ c) * 2 ^ (64 - c) := by
  match u, hn with
  | x :: xs, _ => exact rshift_val' x xs c hu hc1 hc

example : rshift [5, 3] 1 = ([2 ^ 63 + 2, 1], 2 ^ 63) := by decide
example : rshift [B - 1, B - 1] 60 = ([B - 1, 15], B - 16) := by decide

/-- mpn_cmp (equal sizes, size 0 allowed): the limb-by-limb comparison from the top returns the sign
    of val u − val v. -/
theorem cmp_spec (u v : List Nat) (hu : Limbs u) (hv : Limbs v) (hl : u.length = v.length) :
    cmp u v = (if val u < val v then -1 else if val u = val v then 0 else 1) := by
  have h := cmpRev_spec u.reverse v.reverse (Limbs_reverse hu) (Limbs_reverse hv) (by simpa using hl)
  rw [List.reverse_reverse, List.reverse_reverse] at h
  unfold cmp
  rcases h with ⟨h1, h2⟩ | ⟨h1, h2⟩ | ⟨h1, h2⟩
  · rw [h1, if_pos h2]
  · rw [h1, if_neg (by omega), if_pos h2]
  · rw [h1, if_neg (by omega), if_neg (by omega)]

example : cmp [5, 7] [6, 7] = -1 := by decide
example : cmp [B - 1, 2] [0, 3] = -1 := by decide
example : cmp [1, 3] [B - 1, 2] = 1 := by decide
example : cmp [4, 4] [4, 4] = 0 := by decide

/-- mpn_zero_p: returns true exactly when the value is zero (limbs need not even be proper). -/
theorem zero_p_iff (u : List Nat) : zero_p u = true ↔ val u = 0 := zero_p_iff' u

example : zero_p [0, 0, 0] = true ∧ zero_p [0, 0, 1] = false := by decide

end Mpir
