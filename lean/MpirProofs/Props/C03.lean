/-
  C03 — add, subtract, negate, shift and copy compute the exact limb-vector function.
  Property theorems only; helper lemmas live in MpirProofs/Lemmas/.
  Every theorem is about the executable models in Mpir/Model/Kernels.lean, which the correspondence
  check runs against the real mpn_* functions on every run.
-/
import MpirProofs.Lemmas.Kernels
namespace Mpir

/-- mpn_add_n: for all lengths and limb contents, result + B^n·carry = u + v, carry ∈ {0,1},
    result limbs proper, result has n limbs. -/
theorem add_n_val (u v : List Nat) (hu : Limbs u) (hv : Limbs v) (hl : u.length = v.length) :
    val (add_n u v).1 + B ^ u.length * (add_n u v).2 = val u + val v ∧
    (add_n u v).2 ≤ 1 ∧ Limbs (add_n u v).1 ∧ (add_n u v).1.length = u.length := by
  simpa [add_n] using addNC_val u v 0 hu hv hl (by omega)

-- non-vacuity: a concrete carry chain
example : add_n [B - 1, B - 1] [1, 0] = ([0, 0], 1) := by decide

end Mpir
