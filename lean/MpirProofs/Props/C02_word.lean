/-
  C02 (word level) — the 64-bit division primitives and one-limb division kernels are exact.
  Property theorems only; helper lemmas live in MpirProofs/Lemmas/DivWord.lean.
-/
import Mpir.Model.DivWord
namespace Mpir.DivWord
end Mpir.DivWord
