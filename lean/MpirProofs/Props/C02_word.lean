/-
  C02 (word level) — the 64-bit division primitives of gmp-impl.h and the one-limb division kernels
  return the exact Euclidean quotient/remainder (or the documented exact-division result).
  Property theorems only; helper lemmas live in MpirProofs/Lemmas/DivWord.lean.
  Every theorem is about the executable models in Mpir/Model/DivWord.lean, which the correspondence
  check runs against the real macros / mpn_* functions on every run.  B = 2^64; all statements
  quantify over ALL 64-bit words and ALL lengths.
-/
import MpirProofs.Lemmas.DivWordHensel
namespace Mpir.DivWord
open Mpir

/-- invert_limb (gmp-impl.h:2822): for every normalised d the macro returns ⌊(B²−1)/d⌋ − B. -/
theorem invert_limb_spec (d : Nat) (h1 : B / 2 ≤ d) (h2 : d < B) :
    invert_limb d = (B * B - 1) / d - B :=
  invert_limb_eq d h1 h2

example : invert_limb (B / 2) = B - 1 := by decide
example : invert_limb (B - 1) = 1 := by decide

/-- udiv_qrnnd_preinv (= udiv_qrnnd_preinv2, gmp-impl.h:2936, the variant used by mpn_mod_1,
    mpn_preinv_mod_1, mpn_divrem_euclidean_{qr,r}_1 and the preinv branches of mpn_divrem_1):
    for every normalised d, nh < d, any nl and di = invert_limb d the result is the exact
    quotient and remainder of nh·B + nl by d. -/
theorem udiv_qrnnd_preinv_spec (nh nl d di : Nat) (h1 : B / 2 ≤ d) (h2 : d < B) (hnh : nh < d) (hnl : nl < B)
    (hdi : di = invert_limb d) :
    udiv_qrnnd_preinv nh nl d di = ((nh * B + nl) / d, (nh * B + nl) % d) := by
  subst hdi; exact udiv_qrnnd_preinv2_eq nh nl d h1 h2 hnh hnl

example : udiv_qrnnd_preinv (B / 2) (B - 1) (B / 2 + 1) (invert_limb (B / 2 + 1)) = (B - 1, B / 2) := by decide

/-- udiv_qrnnd_preinv1 (gmp-impl.h:2907, the branching variant; `udiv_qrnnd_preinv` can be switched to it
    by one #define): same contract, all three correction branches. -/
theorem udiv_qrnnd_preinv1_spec (nh nl d di : Nat) (h1 : B / 2 ≤ d) (h2 : d < B) (hnh : nh < d) (hnl : nl < B)
    (hdi : di = invert_limb d) :
    udiv_qrnnd_preinv1 nh nl d di = ((nh * B + nl) / d, (nh * B + nl) % d) := by
  subst hdi; exact udiv_qrnnd_preinv1_eq nh nl d h1 h2 hnh hnl

example : udiv_qrnnd_preinv1 (B / 2) (B - 1) (B / 2 + 1) (invert_limb (B / 2 + 1)) = (B - 1, B / 2) := by decide

/-- mpir_invert_pi1 / invert_pi1 (gmp-impl.h:2831): for every normalised d1 and every d0 the macro
    returns the 3/2 reciprocal ⌊(B³−1)/(d1·B+d0)⌋ − B (all three adjustment branches covered). -/
theorem invert_pi1_spec (d1 d0 : Nat) (hnorm : B / 2 ≤ d1) (hd1 : d1 < B) (hd0 : d0 < B) :
    invert_pi1 d1 d0 = (B * B * B - 1) / (d1 * B + d0) - B :=
  invert_pi1_eq d1 d0 hnorm hd1 hd0

example : invert_pi1 (B / 2) 0 = B - 1 := by decide
example : invert_pi1 (B - 1) (B - 1) = 0 := by decide

/-- udiv_qr_3by2 (gmp-impl.h:2871): for all 64-bit words with d1 normalised, ⟨n2,n1⟩ < ⟨d1,d0⟩ and
    dinv = invert_pi1 d1 d0, q and ⟨r1,r0⟩ are the exact Euclidean quotient and remainder of
    n2·B²+n1·B+n0 by d1·B+d0 — including the second correction that random data reaches with
    probability ≈ 2^-64. -/
theorem udiv_qr_3by2_spec (n2 n1 n0 d1 d0 dinv : Nat) (hn2 : n2 < B) (hn1 : n1 < B) (hn0 : n0 < B)
    (hd1 : d1 < B) (hd0 : d0 < B) (hnorm : B / 2 ≤ d1) (hN : n2 * B + n1 < d1 * B + d0)
    (hdinv : dinv = invert_pi1 d1 d0) :
    udiv_qr_3by2 n2 n1 n0 d1 d0 dinv =
      ((n2 * B * B + n1 * B + n0) / (d1 * B + d0),
       ((n2 * B * B + n1 * B + n0) % (d1 * B + d0)) / B,
       ((n2 * B * B + n1 * B + n0) % (d1 * B + d0)) % B) :=
  udiv_qr_3by2_eq n2 n1 n0 d1 d0 dinv hn2 hn1 hn0 hd1 hd0 hnorm hN
    (by rw [hdinv]; exact invert_pi1_eq d1 d0 hnorm hd1 hd0)

-- non-vacuity: an input on which the second correction fires (found by the generator's search)
example : udiv_qr_3by2 0x800000000000002a 0xffffffffffffffa8 0xffffffffffffffff 0x800000000000002c 1
    (invert_pi1 0x800000000000002c 1) = (0xfffffffffffffffe, 0, 1) := by decide

/-- modlimb_invert (gmp-impl.h:3087): for every odd n the result is the inverse of n modulo B.
    The 128 table entries are checked by the kernel; each Newton step doubles the precision. -/
theorem modlimb_invert_spec (n : Nat) (hodd : n % 2 = 1) : n * modlimb_invert n % B = 1 :=
  modlimb_invert_mul n hodd

example : modlimb_invert 3 = 0xAAAAAAAAAAAAAAAB := by decide

/-- mpn_divrem_euclidean_qr_1 (assembly in this build, modelled by mpn/generic/divrem_euclidean_qr_1.c):
    quotient and remainder are exact for every length and every non-zero divisor. -/
theorem divrem_euclidean_qr_1_val (u : List Nat) (d : Nat) (hu : Limbs u) (hd0 : 0 < d) (hdB : d < B) :
    val (divrem_euclidean_qr_1 u d).1 * d + (divrem_euclidean_qr_1 u d).2 = val u ∧
    (divrem_euclidean_qr_1 u d).2 < d ∧ Limbs (divrem_euclidean_qr_1 u d).1 ∧
    (divrem_euclidean_qr_1 u d).1.length = u.length := by
  have := divrem_euclidean_qr_1_spec u d hu hd0 hdB
  simpa [Divrem1Spec] using this

example : divrem_euclidean_qr_1 [5, 7] 3 = ([0x5555555555555557, 2], 0) := by decide

/-- mpn_divrem_1 (mpn/generic/divrem_1.c): n·B^qxn = q·d + r, r < d, for all lengths, all fraction-limb
    counts and every non-zero divisor, on EVERY path of the function: normalised / unnormalised,
    plain (udiv_qrnnd) / preinv loops, mpn_divrem_euclidean_qr_1, and the Hensel path
    (divrem_1.c:102-108: remainder by mpn_divrem_euclidean_r_1 → mpn_mod_1_1/2/3 folding, quotient by the
    2-adic mpn_rsh_divrem_hensel_qr_1_1/_1_2 with on-the-fly right shift) — for every value of the
    thresholds in Gen/DivParams.lean. -/
theorem divrem_1_val (qxn : Nat) (u : List Nat) (d : Nat) (hu : Limbs u) (hd0 : 0 < d) (hdB : d < B) :
    val (divrem_1 qxn u d).1 * d + (divrem_1 qxn u d).2 = val u * B ^ qxn ∧
    (divrem_1 qxn u d).2 < d ∧ Limbs (divrem_1 qxn u d).1 ∧ (divrem_1 qxn u d).1.length = u.length + qxn :=
  divrem_1_spec qxn u d hu hd0 hdB

example : divrem_1 2 [7] 5 = ([0x6666666666666666, 0x6666666666666666, 1], 2) := by decide
example : divrem_1 1 [1, B - 1] (B - 1) = ([1, 0, 1], 1) := by decide
-- the Hensel path (30 limbs, d = 6): remainder by mod_1_3 folding, quotient by the 2-adic division shifted by 1
example : (divrem_1 0 (List.replicate 30 7) 6).2 = 3 := by decide
example : (divrem_1 0 (List.replicate 30 7) 6).1.head? = some 0xd555555555555556 := by decide

/-- mpn_mod_1 (mpn/generic/mod_1.c): the remainder, for all lengths and every non-zero divisor. -/
theorem mod_1_val (u : List Nat) (d : Nat) (hu : Limbs u) (hd0 : 0 < d) (hdB : d < B) :
    mod_1 u d = val u % d :=
  mod_1_eq u d hu hd0 hdB

example : mod_1 [5, 7, 11] 13 = 8 := by decide

/-- mpn_preinv_mod_1 (mpn/generic/preinv_mod_1.c): normalised d, dinv = invert_limb d. -/
theorem preinv_mod_1_val (u : List Nat) (d dinv : Nat) (hu : Limbs u) (h1 : B / 2 ≤ d) (h2 : d < B)
    (hdinv : dinv = invert_limb d) : preinv_mod_1 u d dinv = val u % d := by
  subst hdinv; exact preinv_mod_1_eq u d hu h1 h2

example : preinv_mod_1 [5, 7] (B - 1) (invert_limb (B - 1)) = 12 := by decide

/-- mpn_divexact_1 (mpn/generic/divexact_1.c): when d divides the dividend the result is the quotient. -/
theorem divexact_1_val (n : List Nat) (d : Nat) (hn : Limbs n) (hne : n ≠ []) (hd0 : 0 < d) (hdB : d < B)
    (hdvd : d ∣ val n) :
    val (divexact_1 n d) * d = val n ∧ Limbs (divexact_1 n d) ∧ (divexact_1 n d).length = n.length :=
  divexact_1_spec n d hn hne hd0 hdB hdvd

example : divexact_1 [B - 12, 11] 12 = [B - 1, 0] := by decide
example : divexact_1 [B - 7, 6] 7 = [B - 1, 0] := by decide

/-- mpn_divexact_by3c (assembly = mpn/generic/divexact_by3c.c): x + ret·B^n = 3·q + c with ret ∈ {0,1,2}
    ("(xp,n) = (qp,n)*3 - ret*B^n", with the carry-in c of a previous block), for every length. -/
theorem divexact_by3c_val (x : List Nat) (c : Nat) (hx : Limbs x) (hc : c ≤ 2) :
    val x + (divexact_by3c x c).2 * B ^ x.length = 3 * val (divexact_by3c x c).1 + c ∧
    (divexact_by3c x c).2 ≤ 2 ∧ Limbs (divexact_by3c x c).1 ∧ (divexact_by3c x c).1.length = x.length :=
  divexact_by3c_spec x c hx hc

example : divexact_by3c [1, 1] 0 = ([0xAAAAAAAAAAAAAAAB, 0x5555555555555555], 1) := by decide
example : divexact_by3c [B - 3, 2] 0 = ([B - 1, 0], 0) := by decide

/-- mpn_modexact_1c_odd (assembly, modelled by its dataflow) as documented in
    mpn/generic/modexact_1c_odd.c / gmp-impl.h: r·B^k + a − c = q·d with k = size, 0 ≤ r ≤ d, and
    r < d whenever c < d; for every length, every odd d and every carry-in c. -/
theorem modexact_1c_odd_val (a : List Nat) (d c : Nat) (ha : Limbs a) (hne : a ≠ []) (hodd : d % 2 = 1)
    (hdB : d < B) (hc : c < B) :
    ∃ q, val a + modexact_1c_odd a d c * B ^ a.length = q * d + c ∧
      modexact_1c_odd a d c ≤ d ∧ (c < d → modexact_1c_odd a d c < d) :=
  modexact_1c_odd_spec a d c ha hne hodd hdB hc

example : modexact_1c_odd [10, 0] 7 0 = 1 := by decide

/-- mpn_divrem_euclidean_r_1 (mpn/generic/divrem_euclidean_r_1.c, incl. mpn_mod_1_1/2/3_wrap and the
    mpn_mod_1_k folding with precomputed B^k mod d): the remainder, on every branch, for all lengths. -/
theorem divrem_euclidean_r_1_val (u : List Nat) (d : Nat) (hu : Limbs u) (hd0 : 0 < d) (hdB : d < B) :
    divrem_euclidean_r_1 u d = val u % d :=
  divrem_euclidean_r_1_spec u d hu hd0 hdB

example : divrem_euclidean_r_1 [1, 2, 3, 4, 5, 6, 7, 8, 9, 10, 11, 12, 13, 14] 1000003 = 616440 := by decide

/-- mpn_rsh_divrem_hensel_qr_1 (_1_1 below RSH_DIVREM_HENSEL_QR_1_THRESHOLD, else _1_2): for odd d,
    x + ret·B^n = Q·d + cin with Q < B^n, and the limbs written are ⌊Q / 2^s⌋. -/
theorem rsh_divrem_hensel_qr_1_val (x : List Nat) (d s cin : Nat) (hx : Limbs x) (hne : x ≠ [])
    (hodd : d % 2 = 1) (hdB : d < B) (hs : s ≤ 63) (hcin : cin < B) :
    ∃ Q, val x + (rsh_divrem_hensel_qr_1 x d s cin).2 * B ^ x.length = Q * d + cin ∧ Q < B ^ x.length ∧
      val (rsh_divrem_hensel_qr_1 x d s cin).1 = Q / 2 ^ s ∧ Limbs (rsh_divrem_hensel_qr_1 x d s cin).1 ∧
      (rsh_divrem_hensel_qr_1 x d s cin).1.length = x.length :=
  rsh_divrem_hensel_qr_1_spec x d s cin hx hne hodd hdB hs hcin

example : rsh_divrem_hensel_qr_1 [21, 0] 7 0 0 = ([3, 0], 0) := by decide

end Mpir.DivWord
