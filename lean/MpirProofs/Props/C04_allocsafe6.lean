/-
  C04, object-layer memory safety as theorems — the mpq arithmetic (models: Mpir/Model/AllocSafeMpq6.lean, mirrors of mpq/aors.c,
  mul.c, div.c, md_2exp.c on the memory model of Mpir/Model/AllocSafe.lean).  Property theorems only; helper lemmas live in
  MpirProofs/Lemmas/AllocSafeMpq6.lean.  Tied by ops `as6_*` (harness/ops_allocsafe6.c) and source pins.

  An mpq_t is its two mpz_t fields = two variable ids.  The alias assignments of the C (rop == op1, rop == op2, op1 == op2, all
  equal, all distinct) are assignments of ids; the theorems quantify over ALL ids and ask only for what every legal assignment
  satisfies: the two fields of rop are different variables, NUM (rop) is not a denominator field of an operand, and the scratch ids
  standing for the C's local mpz_t's are fresh.  `valOf` = the integer a field holds; the values are those of the C12 value model
  (Mpir/Model/Mpq.lean: `Mpq.zgcd`, `Mpq.divexact`).
-/
import MpirProofs.Lemmas.AllocSafeMpq6
import Mpir.Model.Mpq
namespace Mpir.AllocSafe6
open Mpir Mpir.AllocSafe

/-- heap for the examples: rop = (0, 1) = 5/3 in one-limb blocks, op1 = (2, 3) = -(B^2-2)/(B^3-1) in exact blocks, op2 = (4, 5) = 0/1 -/
def exq : St := ⟨fun i => if i = 0 then ⟨1, 0, ⟨1, [5]⟩⟩ else if i = 1 then ⟨1, 0, ⟨1, [3]⟩⟩
                  else if i = 2 then ⟨-2, 0, ⟨2, [B - 2, B - 1]⟩⟩ else if i = 3 then ⟨3, 0, ⟨3, [B - 1, B - 1, B - 1]⟩⟩
                  else if i = 4 then ⟨0, 0, ⟨1, [junk]⟩⟩ else ⟨1, 0, ⟨1, [1]⟩⟩, true⟩

/-- heap with two proper fractions: op1 = (2, 3) = 6/35, op2 = (4, 5) = -(14·B)/9, rop = (0, 1) = 5/3; all blocks exact -/
def exm : St := ⟨fun i => if i = 0 then ⟨1, 0, ⟨1, [5]⟩⟩ else if i = 1 then ⟨1, 0, ⟨1, [3]⟩⟩
                  else if i = 2 then ⟨1, 0, ⟨1, [6]⟩⟩ else if i = 3 then ⟨1, 0, ⟨1, [35]⟩⟩
                  else if i = 4 then ⟨-2, 0, ⟨2, [0, 14]⟩⟩ else ⟨1, 0, ⟨1, [9]⟩⟩, true⟩

/-! ## mpq_div (mpq/div.c) -/

/-- mpq_div (mpq/div.c:33-34): a zero divisor raises DIVIDE_BY_ZERO before anything is written, for every alias assignment. -/
theorem mpq_div_zero (s : St) (qn qd an ad bn bd g1 g2 t1 t2 nt : Nat) (h0 : (s.h bn).size = 0) :
    mpq_div s qn qd an ad bn bd g1 g2 t1 t2 nt = none := by
  simp [mpq_div, St.SIZ, h0]

example : mpq_div exq 0 1 2 3 4 5 6 7 8 9 10 = none := by decide

/-! ## mpq_mul (mpq/mul.c) -/

/-- mpq_mul, the squaring arm `op1 == op2` (mul.c:33-39), prod = (pn, pd) the operand itself or any other variable: two mpz_mul
    calls (each safe by `mpz_mul_alloc_safe`, incl. its in-place `free_me` / temporary-copy paths when prod is the operand);
    DEN (op1) is read after NUM (prod) was written, which is harmless because NUM (prod) is not a denominator field.  Both fields
    of prod well formed, nothing else touched, values num², den². -/
theorem mpq_mul_sqr_alloc_safe (s : St) (pn pd an ad g1 g2 t1 t2 : Nat) (hs : s.ok = true)
    (hpn : OWF (s.h pn)) (hpd : OWF (s.h pd)) (han : OWF (s.h an)) (had : OWF (s.h ad))
    (hf : pn ≠ pd) (hnd : pn ≠ ad) :
    let s' := mpq_mul s pn pd an ad an ad g1 g2 t1 t2
    s'.ok = true ∧ OWF (s'.h pn) ∧ OWF (s'.h pd) ∧ (∀ x, x ≠ pn → x ≠ pd → s'.h x = s.h x) ∧
    valOf s' pn = valOf s an * valOf s an ∧ valOf s' pd = valOf s ad * valOf s ad := by
  intro s'
  have e : s' = mpz_mul (mpz_mul s pn an an) pd ad ad := by simp [s', mpq_mul]
  have W1 := mpz_mul_wrote s pn an an hs hpn han han
  have W2 := mpz_mul_wrote _ pd ad ad W1.ok (W1.owf_of pd hpd) (W1.owf_of ad had) (W1.owf_of ad had)
  rw [e]
  refine ⟨W2.ok, W2.owf_of pn W1.owf, W2.owf, ?_, ?_, ?_⟩
  · intro x h1 h2; rw [W2.frame x h2, W1.frame x h1]
  · rw [W2.val_other pn hf, W1.val]
  · rw [W2.val, W1.val_other ad (Ne.symm hnd)]

-- (-(B^2-2)/(B^3-1))² in place (prod == op1 == op2): both fields regrown through mpz_mul's `free_me` path (2 → 4, 3 → 6 limbs)
example : (mpq_mul exq 2 3 2 3 2 3 6 7 8 9).ok = true ∧ (mpq_mul exq 2 3 2 3 2 3 6 7 8 9).ALLOC 2 = 4 ∧
    (mpq_mul exq 2 3 2 3 2 3 6 7 8 9).ALLOC 3 = 6 ∧ valOf (mpq_mul exq 2 3 2 3 2 3 6 7 8 9) 2 = ((B : Int) ^ 2 - 2) ^ 2 := by decide

/-- the scratch ids standing for the local mpz_t's of a function are pairwise different and none of them is an operand field -/
def Fresh (scr ops : List Nat) : Prop := scr.Nodup ∧ ∀ x ∈ scr, x ∉ ops

/-- mpq_mul, the general arm (mul.c:41-67; op1, op2 different variables), prod = (pn, pd) being op1, op2 or a third variable —
    in fact for EVERY assignment of ids in which the fields of prod differ and NUM (prod) is not a denominator field:
    the four mpz_init'ed locals are written by mpz_gcd / mpz_divexact_gcd (object-level callees: the sizes they request have room
    for their results — `mpz_divexact_gcd_wrote`), NUM (prod) is written by mpz_mul at :57 BEFORE DEN (op2), DEN (op1) are read
    again at :59-60 ("we dare to overwrite the numerator of PROD when we are finished with the numerators"), DEN (prod) last.
    No bad access, both fields of prod well formed, no variable other than prod and the locals changed, and the values are those
    of the C12 value model `Mpq.mul`: (n1/g1)(n2/g2) over (d2/g1)(d1/g2) with g1 = gcd (n1, d2), g2 = gcd (n2, d1).
    Hypotheses: operands well formed with positive denominators (the documented precondition "canonical form"; positivity is
    what makes the gcds non-zero for mpz_divexact_gcd's `ASSERT (mpz_sgn (d) > 0)`). -/
theorem mpq_mul_alloc_safe (s : St) (pn pd an ad bn bd g1 g2 t1 t2 : Nat) (hs : s.ok = true)
    (hop : ∀ x ∈ [pn, pd, an, ad, bn, bd], OWF (s.h x))
    (hne : ¬ (an = bn ∧ ad = bd)) (hf : pn ≠ pd) (hna : pn ≠ ad) (hnb : pn ≠ bd)
    (hfr : Fresh [g1, g2, t1, t2] [pn, pd, an, ad, bn, bd])
    (hda : 0 < valOf s ad) (hdb : 0 < valOf s bd) :
    let s' := mpq_mul s pn pd an ad bn bd g1 g2 t1 t2
    let G1 := Mpq.zgcd (valOf s an) (valOf s bd)
    let G2 := Mpq.zgcd (valOf s bn) (valOf s ad)
    s'.ok = true ∧ OWF (s'.h pn) ∧ OWF (s'.h pd) ∧
    (∀ x, x ≠ pn → x ≠ pd → x ∉ [g1, g2, t1, t2] → s'.h x = s.h x) ∧
    valOf s' pn = Mpq.divexact (valOf s an) G1 * Mpq.divexact (valOf s bn) G2 ∧
    valOf s' pd = Mpq.divexact (valOf s bd) G1 * Mpq.divexact (valOf s ad) G2 := by
  intro s' G1 G2
  obtain ⟨hN, hS⟩ := hfr
  simp only [List.nodup_cons, List.mem_cons, List.not_mem_nil, or_false, not_or, List.nodup_nil, and_true, not_false_eq_true] at hN
  obtain ⟨⟨n12, n13, n14⟩, ⟨n23, n24⟩, n34⟩ := hN
  have S1 := hS g1 (by simp); have S2 := hS g2 (by simp); have S3 := hS t1 (by simp); have S4 := hS t2 (by simp)
  simp only [List.mem_cons, List.not_mem_nil, or_false, not_or] at S1 S2 S3 S4
  obtain ⟨a1, a2, a3, a4, a5, a6⟩ := S1
  obtain ⟨b1, b2, b3, b4, b5, b6⟩ := S2
  obtain ⟨c1, c2, c3, c4, c5, c6⟩ := S3
  obtain ⟨d1, d2, d3, d4, d5, d6⟩ := S4
  have Opn := hop pn (by simp); have Opd := hop pd (by simp); have Oan := hop an (by simp)
  have Oad := hop ad (by simp); have Obn := hop bn (by simp); have Obd := hop bd (by simp)
  -- the four mpz_init's
  set s0 := mpzInit (mpzInit (mpzInit (mpzInit s g1) g2) t1) t2 with hs0
  have ok0 : s0.ok = true := by simpa [s0] using hs
  have I : ∀ x, OWF (s.h x) → OWF (s0.h x) := fun x h => mpzInit_owf _ _ _ (mpzInit_owf _ _ _ (mpzInit_owf _ _ _ (mpzInit_owf _ _ _ h)))
  have F0 : ∀ x, x ≠ g1 → x ≠ g2 → x ≠ t1 → x ≠ t2 → s0.h x = s.h x := by
    intro x h1 h2 h3 h4
    rw [hs0, mpzInit_other _ _ h4, mpzInit_other _ _ h3, mpzInit_other _ _ h2, mpzInit_other _ _ h1]
  have Og1 : OWF (s0.h g1) := by
    rw [hs0, mpzInit_other _ _ n14, mpzInit_other _ _ n13, mpzInit_other _ _ n12]; exact mpzInit_owf_self _ _
  have Og2 : OWF (s0.h g2) := by
    rw [hs0, mpzInit_other _ _ n24, mpzInit_other _ _ n23]; exact mpzInit_owf_self _ _
  have Ot1 : OWF (s0.h t1) := by rw [hs0, mpzInit_other _ _ n34]; exact mpzInit_owf_self _ _
  have Ot2 : OWF (s0.h t2) := mpzInit_owf_self _ _
  have V0 : ∀ x, x ≠ g1 → x ≠ g2 → x ≠ t1 → x ≠ t2 → valOf s0 x = valOf s x := by
    intro x h1 h2 h3 h4; unfold valOf; rw [F0 x h1 h2 h3 h4]
  have van := V0 an (Ne.symm a3) (Ne.symm b3) (Ne.symm c3) (Ne.symm d3)
  have vad := V0 ad (Ne.symm a4) (Ne.symm b4) (Ne.symm c4) (Ne.symm d4)
  have vbn := V0 bn (Ne.symm a5) (Ne.symm b5) (Ne.symm c5) (Ne.symm d5)
  have vbd := V0 bd (Ne.symm a6) (Ne.symm b6) (Ne.symm c6) (Ne.symm d6)
  -- :51-52 the two gcds
  have W1 := mpz_gcd_wrote s0 g1 an bd ok0 Og1
  have W2 := mpz_gcd_wrote _ g2 bn ad W1.ok (W1.owf_of g2 Og2)
  have hG1pos : 0 < G1 := by
    show (0 : Int) < ((Int.gcd (valOf s an) (valOf s bd) : Nat) : Int)
    exact_mod_cast Int.gcd_pos_of_ne_zero_right _ (by omega)
  have hG2pos : 0 < G2 := by
    show (0 : Int) < ((Int.gcd (valOf s bn) (valOf s ad) : Nat) : Int)
    exact_mod_cast Int.gcd_pos_of_ne_zero_right _ (by omega)
  have e1 : valOf (mpz_gcd s0 g1 an bd) g1 = G1 := by rw [W1.val, van, vbd]; rfl
  have e2 : valOf (mpz_gcd (mpz_gcd s0 g1 an bd) g2 bn ad) g2 = G2 := by
    rw [W2.val, W1.val_other bn (Ne.symm a5), W1.val_other ad (Ne.symm a4), vbn, vad]; rfl
  set s2 := mpz_gcd (mpz_gcd s0 g1 an bd) g2 bn ad with hs2
  have e1' : valOf s2 g1 = G1 := by rw [W2.val_other g1 n12, e1]
  have K2 : ∀ x, OWF (s0.h x) → OWF (s2.h x) := fun x h => W2.owf_of x (W1.owf_of x h)
  have V2 : ∀ x, x ≠ g1 → x ≠ g2 → valOf s2 x = valOf s0 x := fun x h1 h2 => by
    rw [W2.val_other x h2, W1.val_other x h1]
  -- :54-55
  have dv1 : valOf s2 g1 ∣ valOf s2 an := by
    rw [e1', V2 an (Ne.symm a3) (Ne.symm b3), van]; exact Int.gcd_dvd_left _ _
  have W3 := mpz_divexact_gcd_wrote s2 t1 an g1 W2.ok (K2 t1 Ot1) (K2 an (I an Oan)) (K2 g1 Og1) (by rw [e1']; exact hG1pos) dv1
  set s3 := mpz_divexact_gcd s2 t1 an g1 with hs3
  have e2' : valOf s3 g2 = G2 := by rw [W3.val_other g2 n23, e2]
  have dv2 : valOf s3 g2 ∣ valOf s3 bn := by
    rw [e2', W3.val_other bn (Ne.symm c5), V2 bn (Ne.symm a5) (Ne.symm b5), vbn]; exact Int.gcd_dvd_left _ _
  have K3 : ∀ x, OWF (s0.h x) → OWF (s3.h x) := fun x h => W3.owf_of x (K2 x h)
  have W4 := mpz_divexact_gcd_wrote s3 t2 bn g2 W3.ok (K3 t2 Ot2) (K3 bn (I bn Obn)) (K3 g2 Og2) (by rw [e2']; exact hG2pos) dv2
  set s4 := mpz_divexact_gcd s3 t2 bn g2 with hs4
  have K4 : ∀ x, OWF (s0.h x) → OWF (s4.h x) := fun x h => W4.owf_of x (K3 x h)
  -- :57 NUM (prod)
  have W5 := mpz_mul_wrote s4 pn t1 t2 W4.ok (K4 pn (I pn Opn)) (K4 t1 Ot1) (K4 t2 Ot2)
  set s5 := mpz_mul s4 pn t1 t2 with hs5
  have K5 : ∀ x, OWF (s0.h x) → OWF (s5.h x) := fun x h => W5.owf_of x (K4 x h)
  have vnum : valOf s5 pn = Mpq.divexact (valOf s an) G1 * Mpq.divexact (valOf s bn) G2 := by
    rw [W5.val, W4.val, W4.val_other t1 n34, W3.val, e2', e1', W3.val_other bn (Ne.symm c5),
      V2 bn (Ne.symm a5) (Ne.symm b5), V2 an (Ne.symm a3) (Ne.symm b3), van, vbn]; rfl
  -- values of the denominators and gcds seen after the store to NUM (prod)
  have V5 : ∀ x, x ≠ g1 → x ≠ g2 → x ≠ t1 → x ≠ t2 → x ≠ pn → valOf s5 x = valOf s0 x := fun x h1 h2 h3 h4 h5 => by
    rw [W5.val_other x h5, W4.val_other x h4, W3.val_other x h3, V2 x h1 h2]
  have g1s5 : valOf s5 g1 = G1 := by rw [W5.val_other g1 a1, W4.val_other g1 n14, W3.val_other g1 n13, e1']
  have g2s5 : valOf s5 g2 = G2 := by rw [W5.val_other g2 b1, W4.val_other g2 n24, e2']
  have bds5 : valOf s5 bd = valOf s bd := by
    rw [V5 bd (Ne.symm a6) (Ne.symm b6) (Ne.symm c6) (Ne.symm d6) (Ne.symm hnb), vbd]
  have ads5 : valOf s5 ad = valOf s ad := by
    rw [V5 ad (Ne.symm a4) (Ne.symm b4) (Ne.symm c4) (Ne.symm d4) (Ne.symm hna), vad]
  -- :59-60
  have W6 := mpz_divexact_gcd_wrote s5 t1 bd g1 W5.ok (K5 t1 Ot1) (K5 bd (I bd Obd)) (K5 g1 Og1) (by rw [g1s5]; exact hG1pos)
    (by rw [g1s5, bds5]; exact Int.gcd_dvd_right _ _)
  set s6 := mpz_divexact_gcd s5 t1 bd g1 with hs6
  have K6 : ∀ x, OWF (s0.h x) → OWF (s6.h x) := fun x h => W6.owf_of x (K5 x h)
  have W7 := mpz_divexact_gcd_wrote s6 t2 ad g2 W6.ok (K6 t2 Ot2) (K6 ad (I ad Oad)) (K6 g2 Og2)
    (by rw [W6.val_other g2 n23, g2s5]; exact hG2pos)
    (by rw [W6.val_other g2 n23, g2s5, W6.val_other ad (Ne.symm c4), ads5]; exact Int.gcd_dvd_right _ _)
  set s7 := mpz_divexact_gcd s6 t2 ad g2 with hs7
  have K7 : ∀ x, OWF (s0.h x) → OWF (s7.h x) := fun x h => W7.owf_of x (K6 x h)
  -- :62 DEN (prod)
  have W8 := mpz_mul_wrote s7 pd t1 t2 W7.ok (K7 pd (I pd Opd)) (K7 t1 Ot1) (K7 t2 Ot2)
  have e : s' = mpz_mul s7 pd t1 t2 := by
    simp only [s', mpq_mul]
    have hc : (an == bn && ad == bd) = false := by
      by_cases h : an = bn
      · have : ad ≠ bd := fun h' => hne ⟨h, h'⟩
        simp [this]
      · simp [h]
    rw [hc]; rfl
  rw [e]
  refine ⟨W8.ok, W8.owf_of pn (W7.owf_of pn (W6.owf_of pn W5.owf)), W8.owf, ?_, ?_, ?_⟩
  · intro x h1 h2 h3
    simp only [List.mem_cons, List.not_mem_nil, or_false, not_or] at h3
    obtain ⟨x1, x2, x3, x4⟩ := h3
    rw [W8.frame x h2, W7.frame x x4, W6.frame x x3, W5.frame x h1, W4.frame x x4, W3.frame x x3, W2.frame x x2, W1.frame x x1,
      F0 x x1 x2 x3 x4]
  · rw [W8.val_other pn hf, W7.val_other pn (Ne.symm d1), W6.val_other pn (Ne.symm c1), vnum]
  · rw [W8.val, W7.val, W7.val_other t1 n34, W6.val, W6.val_other g2 n23, g2s5, g1s5, W6.val_other ad (Ne.symm c4), ads5, bds5]; rfl

-- 6/35 · (-(14·B)/9): cross gcds 3 and 7, prod is op2 (in place, one-limb blocks): -(4·B)/15
example : (mpq_mul exm 4 5 2 3 4 5 6 7 8 9).ok = true ∧ valOf (mpq_mul exm 4 5 2 3 4 5 6 7 8 9) 4 = -(4 * (B : Int)) ∧
    valOf (mpq_mul exm 4 5 2 3 4 5 6 7 8 9) 5 = 15 := by decide +kernel
-- the same into op1 and into a third variable
example : valOf (mpq_mul exm 2 3 2 3 4 5 6 7 8 9) 2 = -(4 * (B : Int)) ∧ valOf (mpq_mul exm 0 1 2 3 4 5 6 7 8 9) 1 = 15 := by decide +kernel

/-! ## mpq_div (mpq/div.c), non-zero divisor -/

/-- mpq_div with NUM (op2) ≠ 0, quot = (qn, qd) being op1, op2, both or a third variable — for EVERY assignment of ids in which
    the two fields of quot differ (div.c reads no operand after its first store to quot: the numerator goes through `numtmp`):
    five mpz_init'ed locals; DEN (quot) by mpz_mul at :58, NUM (quot) by mpz_set from numtmp at :62, then the sign of the
    denominator is moved to the numerator by negating both size fields (:65-69).  No bad access, both fields well formed, the
    denominator positive … the values are those of the C12 value model `Mpq.div`:
    N = (n1/g1)(d2/g2), D = (n2/g1)(d1/g2) with g1 = gcd (n1, n2), g2 = gcd (d2, d1); result N/D or (-N)/(-D) when D < 0. -/
theorem mpq_div_alloc_safe (s : St) (qn qd an ad bn bd g1 g2 t1 t2 nt : Nat) (hs : s.ok = true)
    (hop : ∀ x ∈ [qn, qd, an, ad, bn, bd], OWF (s.h x))
    (hf : qn ≠ qd) (hfr : Fresh [g1, g2, t1, t2, nt] [qn, qd, an, ad, bn, bd])
    (hda : 0 < valOf s ad) (hnz : (s.h bn).size ≠ 0) :
    let G1 := Mpq.zgcd (valOf s an) (valOf s bn)
    let G2 := Mpq.zgcd (valOf s bd) (valOf s ad)
    let N := Mpq.divexact (valOf s an) G1 * Mpq.divexact (valOf s bd) G2
    let D := Mpq.divexact (valOf s bn) G1 * Mpq.divexact (valOf s ad) G2
    ∃ s', mpq_div s qn qd an ad bn bd g1 g2 t1 t2 nt = some s' ∧
      s'.ok = true ∧ OWF (s'.h qn) ∧ OWF (s'.h qd) ∧
      (∀ x, x ≠ qn → x ≠ qd → x ∉ [g1, g2, t1, t2, nt] → s'.h x = s.h x) ∧
      valOf s' qn = (if D < 0 then -N else N) ∧ valOf s' qd = (if D < 0 then -D else D) := by
  intro G1 G2 N D
  obtain ⟨hN, hS⟩ := hfr
  simp only [List.nodup_cons, List.mem_cons, List.not_mem_nil, or_false, not_or, List.nodup_nil, and_true, not_false_eq_true] at hN
  obtain ⟨⟨n12, n13, n14, n15⟩, ⟨n23, n24, n25⟩, ⟨n34, n35⟩, n45⟩ := hN
  have S1 := hS g1 (by simp); have S2 := hS g2 (by simp); have S3 := hS t1 (by simp); have S4 := hS t2 (by simp)
  have S5 := hS nt (by simp)
  simp only [List.mem_cons, List.not_mem_nil, or_false, not_or] at S1 S2 S3 S4 S5
  obtain ⟨a1, a2, a3, a4, a5, a6⟩ := S1
  obtain ⟨b1, b2, b3, b4, b5, b6⟩ := S2
  obtain ⟨c1, c2, c3, c4, c5, c6⟩ := S3
  obtain ⟨d1, d2, d3, d4, d5, d6⟩ := S4
  obtain ⟨f1, f2, f3, f4, f5, f6⟩ := S5
  have Oqn := hop qn (by simp); have Oqd := hop qd (by simp); have Oan := hop an (by simp)
  have Oad := hop ad (by simp); have Obn := hop bn (by simp); have Obd := hop bd (by simp)
  have hbn0 : valOf s bn ≠ 0 := valOf_ne_zero s bn Obn hnz
  set s0 := mpzInit (mpzInit (mpzInit (mpzInit (mpzInit s g1) g2) t1) t2) nt with hs0
  have ok0 : s0.ok = true := by simpa [s0] using hs
  have I : ∀ x, OWF (s.h x) → OWF (s0.h x) := fun x h =>
    mpzInit_owf _ _ _ (mpzInit_owf _ _ _ (mpzInit_owf _ _ _ (mpzInit_owf _ _ _ (mpzInit_owf _ _ _ h))))
  have F0 : ∀ x, x ≠ g1 → x ≠ g2 → x ≠ t1 → x ≠ t2 → x ≠ nt → s0.h x = s.h x := by
    intro x h1 h2 h3 h4 h5
    rw [hs0, mpzInit_other _ _ h5, mpzInit_other _ _ h4, mpzInit_other _ _ h3, mpzInit_other _ _ h2, mpzInit_other _ _ h1]
  have Og1 : OWF (s0.h g1) := by
    rw [hs0, mpzInit_other _ _ n15, mpzInit_other _ _ n14, mpzInit_other _ _ n13, mpzInit_other _ _ n12]; exact mpzInit_owf_self _ _
  have Og2 : OWF (s0.h g2) := by
    rw [hs0, mpzInit_other _ _ n25, mpzInit_other _ _ n24, mpzInit_other _ _ n23]; exact mpzInit_owf_self _ _
  have Ot1 : OWF (s0.h t1) := by rw [hs0, mpzInit_other _ _ n35, mpzInit_other _ _ n34]; exact mpzInit_owf_self _ _
  have Ot2 : OWF (s0.h t2) := by rw [hs0, mpzInit_other _ _ n45]; exact mpzInit_owf_self _ _
  have Ont : OWF (s0.h nt) := mpzInit_owf_self _ _
  have V0 : ∀ x, x ≠ g1 → x ≠ g2 → x ≠ t1 → x ≠ t2 → x ≠ nt → valOf s0 x = valOf s x := by
    intro x h1 h2 h3 h4 h5; unfold valOf; rw [F0 x h1 h2 h3 h4 h5]
  have van := V0 an (Ne.symm a3) (Ne.symm b3) (Ne.symm c3) (Ne.symm d3) (Ne.symm f3)
  have vad := V0 ad (Ne.symm a4) (Ne.symm b4) (Ne.symm c4) (Ne.symm d4) (Ne.symm f4)
  have vbn := V0 bn (Ne.symm a5) (Ne.symm b5) (Ne.symm c5) (Ne.symm d5) (Ne.symm f5)
  have vbd := V0 bd (Ne.symm a6) (Ne.symm b6) (Ne.symm c6) (Ne.symm d6) (Ne.symm f6)
  -- :47-48
  have W1 := mpz_gcd_wrote s0 g1 an bn ok0 Og1
  have W2 := mpz_gcd_wrote _ g2 bd ad W1.ok (W1.owf_of g2 Og2)
  have hG1pos : 0 < G1 := by
    show (0 : Int) < ((Int.gcd (valOf s an) (valOf s bn) : Nat) : Int)
    exact_mod_cast Int.gcd_pos_of_ne_zero_right _ hbn0
  have hG2pos : 0 < G2 := by
    show (0 : Int) < ((Int.gcd (valOf s bd) (valOf s ad) : Nat) : Int)
    exact_mod_cast Int.gcd_pos_of_ne_zero_right _ (by omega)
  have e1 : valOf (mpz_gcd s0 g1 an bn) g1 = G1 := by rw [W1.val, van, vbn]; rfl
  have e2 : valOf (mpz_gcd (mpz_gcd s0 g1 an bn) g2 bd ad) g2 = G2 := by
    rw [W2.val, W1.val_other bd (Ne.symm a6), W1.val_other ad (Ne.symm a4), vbd, vad]; rfl
  set s2 := mpz_gcd (mpz_gcd s0 g1 an bn) g2 bd ad with hs2
  have e1' : valOf s2 g1 = G1 := by rw [W2.val_other g1 n12, e1]
  have K2 : ∀ x, OWF (s0.h x) → OWF (s2.h x) := fun x h => W2.owf_of x (W1.owf_of x h)
  have V2 : ∀ x, x ≠ g1 → x ≠ g2 → valOf s2 x = valOf s0 x := fun x h1 h2 => by
    rw [W2.val_other x h2, W1.val_other x h1]
  -- :50-51
  have W3 := mpz_divexact_gcd_wrote s2 t1 an g1 W2.ok (K2 t1 Ot1) (K2 an (I an Oan)) (K2 g1 Og1) (by rw [e1']; exact hG1pos)
    (by rw [e1', V2 an (Ne.symm a3) (Ne.symm b3), van]; exact Int.gcd_dvd_left _ _)
  set s3 := mpz_divexact_gcd s2 t1 an g1 with hs3
  have e2' : valOf s3 g2 = G2 := by rw [W3.val_other g2 n23, e2]
  have K3 : ∀ x, OWF (s0.h x) → OWF (s3.h x) := fun x h => W3.owf_of x (K2 x h)
  have W4 := mpz_divexact_gcd_wrote s3 t2 bd g2 W3.ok (K3 t2 Ot2) (K3 bd (I bd Obd)) (K3 g2 Og2) (by rw [e2']; exact hG2pos)
    (by rw [e2', W3.val_other bd (Ne.symm c6), V2 bd (Ne.symm a6) (Ne.symm b6), vbd]; exact Int.gcd_dvd_left _ _)
  set s4 := mpz_divexact_gcd s3 t2 bd g2 with hs4
  have K4 : ∀ x, OWF (s0.h x) → OWF (s4.h x) := fun x h => W4.owf_of x (K3 x h)
  -- :53 numtmp
  have W5 := mpz_mul_wrote s4 nt t1 t2 W4.ok (K4 nt Ont) (K4 t1 Ot1) (K4 t2 Ot2)
  set s5 := mpz_mul s4 nt t1 t2 with hs5
  have K5 : ∀ x, OWF (s0.h x) → OWF (s5.h x) := fun x h => W5.owf_of x (K4 x h)
  have vnum : valOf s5 nt = N := by
    rw [W5.val, W4.val, W4.val_other t1 n34, W3.val, e2', e1', W3.val_other bd (Ne.symm c6),
      V2 bd (Ne.symm a6) (Ne.symm b6), V2 an (Ne.symm a3) (Ne.symm b3), van, vbd]; rfl
  have V5 : ∀ x, x ≠ g1 → x ≠ g2 → x ≠ t1 → x ≠ t2 → x ≠ nt → valOf s5 x = valOf s0 x := fun x h1 h2 h3 h4 h5 => by
    rw [W5.val_other x h5, W4.val_other x h4, W3.val_other x h3, V2 x h1 h2]
  have g1s5 : valOf s5 g1 = G1 := by rw [W5.val_other g1 n15, W4.val_other g1 n14, W3.val_other g1 n13, e1']
  have g2s5 : valOf s5 g2 = G2 := by rw [W5.val_other g2 n25, W4.val_other g2 n24, e2']
  have bns5 : valOf s5 bn = valOf s bn := by
    rw [V5 bn (Ne.symm a5) (Ne.symm b5) (Ne.symm c5) (Ne.symm d5) (Ne.symm f5), vbn]
  have ads5 : valOf s5 ad = valOf s ad := by
    rw [V5 ad (Ne.symm a4) (Ne.symm b4) (Ne.symm c4) (Ne.symm d4) (Ne.symm f4), vad]
  -- :55-56
  have W6 := mpz_divexact_gcd_wrote s5 t1 bn g1 W5.ok (K5 t1 Ot1) (K5 bn (I bn Obn)) (K5 g1 Og1) (by rw [g1s5]; exact hG1pos)
    (by rw [g1s5, bns5]; exact Int.gcd_dvd_right _ _)
  set s6 := mpz_divexact_gcd s5 t1 bn g1 with hs6
  have K6 : ∀ x, OWF (s0.h x) → OWF (s6.h x) := fun x h => W6.owf_of x (K5 x h)
  have W7 := mpz_divexact_gcd_wrote s6 t2 ad g2 W6.ok (K6 t2 Ot2) (K6 ad (I ad Oad)) (K6 g2 Og2)
    (by rw [W6.val_other g2 n23, g2s5]; exact hG2pos)
    (by rw [W6.val_other g2 n23, g2s5, W6.val_other ad (Ne.symm c4), ads5]; exact Int.gcd_dvd_right _ _)
  set s7 := mpz_divexact_gcd s6 t2 ad g2 with hs7
  have K7 : ∀ x, OWF (s0.h x) → OWF (s7.h x) := fun x h => W7.owf_of x (K6 x h)
  -- :58 DEN (quot), :62 NUM (quot)
  have W8 := mpz_mul_wrote s7 qd t1 t2 W7.ok (K7 qd (I qd Oqd)) (K7 t1 Ot1) (K7 t2 Ot2)
  set s8 := mpz_mul s7 qd t1 t2 with hs8
  have K8 : ∀ x, OWF (s0.h x) → OWF (s8.h x) := fun x h => W8.owf_of x (K7 x h)
  have vden : valOf s8 qd = D := by
    rw [W8.val, W7.val, W7.val_other t1 n34, W6.val, W6.val_other g2 n23, g2s5, g1s5, W6.val_other ad (Ne.symm c4), ads5, bns5]; rfl
  have W9 := mpz_set_wrote s8 qn nt W8.ok (K8 qn (I qn Oqn)) (K8 nt Ont)
  set s9 := mpz_set s8 qn nt with hs9
  have vn9 : valOf s9 qn = N := by
    rw [W9.val, W8.val_other nt f2, W7.val_other nt (Ne.symm n45), W6.val_other nt (Ne.symm n35), vnum]
  have vd9 : valOf s9 qd = D := by rw [W9.val_other qd (Ne.symm hf), vden]
  have Oqd9 : OWF (s9.h qd) := W9.owf_of qd W8.owf
  have F9 : ∀ x, x ≠ qn → x ≠ qd → x ∉ [g1, g2, t1, t2, nt] → s9.h x = s.h x := by
    intro x h1 h2 h3
    simp only [List.mem_cons, List.not_mem_nil, or_false, not_or] at h3
    obtain ⟨x1, x2, x3, x4, x5⟩ := h3
    rw [W9.frame x h1, W8.frame x h2, W7.frame x x4, W6.frame x x3, W5.frame x x5, W4.frame x x4, W3.frame x x3, W2.frame x x2,
      W1.frame x x1, F0 x x1 x2 x3 x4 x5]
  have hb : (s.SIZ bn == 0) = false := by simpa [St.SIZ] using hnz
  have hiff := size_neg_iff s9 qd Oqd9
  rw [vd9] at hiff
  by_cases hD : D < 0
  · -- :65-69 the sign moves to the numerator
    have hsz : s9.SIZ qd < 0 := hiff.mpr hD
    obtain ⟨O1, E1⟩ := setSize_neg s9 qd Oqd9
    set sa := s9.setSize qd (-(s9.h qd).size) with hsa
    have Oqn_a : OWF (sa.h qn) := by rw [hsa, setSize_other _ _ _ hf]; exact W9.owf
    obtain ⟨O2, E2⟩ := setSize_neg sa qn Oqn_a
    refine ⟨sa.setSize qn (-(sa.h qn).size), ?_, ?_, O2, ?_, ?_, ?_, ?_⟩
    · simp only [mpq_div, hb, Bool.false_eq_true, if_false]
      rw [if_pos hsz]; rfl
    · simpa [sa] using W9.ok
    · rw [setSize_other _ _ _ (Ne.symm hf)]; exact O1
    · intro x h1 h2 h3
      rw [setSize_other _ _ _ h1, hsa, setSize_other _ _ _ h2]; exact F9 x h1 h2 h3
    · rw [if_pos hD, E2]
      have : valOf sa qn = valOf s9 qn := by unfold valOf; rw [hsa, setSize_other _ _ _ hf]
      rw [this, vn9]
    · rw [if_pos hD]
      have : valOf (sa.setSize qn (-(sa.h qn).size)) qd = valOf sa qd := by
        unfold valOf; rw [setSize_other _ _ _ (Ne.symm hf)]
      rw [this, E1, vd9]
  · have hsz : ¬ s9.SIZ qd < 0 := fun h => hD (hiff.mp h)
    refine ⟨s9, ?_, W9.ok, W9.owf, Oqd9, F9, by rw [if_neg hD, vn9], by rw [if_neg hD, vd9]⟩
    simp only [mpq_div, hb, Bool.false_eq_true, if_false]
    rw [if_neg hsz]

-- (6/35) / (-(14·B)/9): gcd (6, 14B) = 2, gcd (9, 35) = 1; quotient 27/(-245·B), the sign moved: -27/(245·B); quot is op2 and op1
example : (mpq_div exm 4 5 2 3 4 5 6 7 8 9 10).map (fun s => (s.ok, valOf s 4, valOf s 5)) = some (true, -27, 245 * (B : Int)) := by
  decide +kernel
example : (mpq_div exm 2 3 2 3 4 5 6 7 8 9 10).map (fun s => (s.ok, valOf s 2, valOf s 3)) = some (true, -27, 245 * (B : Int)) := by
  decide +kernel

/-! ## mpq_div_2exp (mpq/md_2exp.c), zero numerator -/

/-- mpq_div_2exp with NUM (src) = 0 (md_2exp.c:93-99), dst any variable whose two fields differ: `SIZ (num) = 0`, `SIZ (den) = 1`
    and the store `den->_mp_d[0] = 1` — WITHOUT any MPZ_REALLOC, which is safe because every block has at least one limb.
    Result 0/1, both fields well formed, nothing else touched, allocations unchanged. -/
theorem mpq_div_2exp_zero_alloc_safe (s : St) (dn dd sn sd n : Nat) (hs : s.ok = true)
    (hdn : OWF (s.h dn)) (hdd : OWF (s.h dd)) (hf : dn ≠ dd) (h0 : (s.h sn).size = 0) :
    let s' := mpq_div_2exp s dn dd sn sd n
    s'.ok = true ∧ OWF (s'.h dn) ∧ OWF (s'.h dd) ∧ (∀ x, x ≠ dn → x ≠ dd → s'.h x = s.h x) ∧
    valOf s' dn = 0 ∧ valOf s' dd = 1 ∧ s'.ALLOC dn = s.ALLOC dn ∧ s'.ALLOC dd = s.ALLOC dd := by
  intro s'
  have W1 := setSize_zero_wrote s dn hs hdn
  set s1 := s.setSize dn 0 with hs1
  set s2 := s1.setSize dd 1 with hs2
  have e : s' = s2.wr (s2.PTR dd) [1] := by
    simp only [s', mpq_div_2exp, St.SIZ, h0, beq_self_eq_true, if_true, St.store, Ptr.add, St.PTR]; rfl
  have hdd1 : s1.h dd = s.h dd := setSize_other _ _ _ (Ne.symm hf)
  have ha : 1 ≤ (s.h dd).buf.alloc := by have := hdd.2.1; simpa [view] using this
  have hbuf2 : (s2.h dd).buf = (s.h dd).buf := by rw [hs2, setSize_buf, hdd1]
  have hroom : (s2.PTR dd).off + [1].length ≤ (s2.h (s2.PTR dd).id).buf.alloc := by
    simp only [St.PTR, List.length_singleton, hbuf2]; omega
  have hlimbs := wr_limbs s2 (s2.PTR dd) [1] hroom
  have hview : view ((s2.wr (s2.PTR dd) [1]).h dd) = ⟨(s.h dd).buf.alloc, 1, [1]⟩ := by
    have hl : ((s2.wr (s2.PTR dd) [1]).h dd).buf.limbs = 1 :: (s.h dd).buf.limbs.drop 1 := by
      have := hlimbs
      have hid : (s2.PTR dd).id = dd := rfl
      have hoff : (s2.PTR dd).off = 0 := rfl
      rw [hid, hoff, hbuf2] at this
      simpa using this
    simp only [view, wr_size, wr_alloc, hl, hbuf2]
    simp [hs2]
  rw [e]
  refine ⟨?_, ?_, ⟨?_, ?_⟩, ?_, ?_, ?_, ?_, ?_⟩
  · rw [wr_ok]
    have hlv : s2.live (s2.PTR dd) = true := by simp [St.live, St.PTR]
    rw [hlv]
    have : s2.ok = true := by simpa [hs2, hs1] using hs
    rw [this]; simpa using hroom
  · rw [wr_other _ _ _ (by simpa [St.PTR] using hf), hs2, setSize_other _ _ _ hf]; exact W1.owf
  · apply wr_BWF _ _ (by intro x hx; simp at hx; subst hx; exact Nat.lt_of_lt_of_le (by decide) (Nat.le_refl B))
    rw [hbuf2]; exact hdd.1
  · rw [hview]
    refine ⟨ha, by simpa using ha, rfl, by intro x hx; simp at hx; subst hx; unfold B; norm_num, by simp⟩
  · intro x h1 h2
    rw [wr_other _ _ _ (by simpa [St.PTR] using h2), hs2, setSize_other _ _ _ h2, hs1, setSize_other _ _ _ h1]
  · unfold valOf
    rw [wr_other _ _ _ (by simpa [St.PTR] using hf), hs2, setSize_other _ _ _ hf]; exact W1.val
  · unfold valOf; rw [hview]; simp [Mpz.toInt, val]
  · simp only [St.ALLOC, wr_alloc, hs2, hs1, setSize_buf]
  · simp only [St.ALLOC, wr_alloc, hs2, hs1, setSize_buf]

-- 0/1 divided by 2^200 into the variable (2, 3) (blocks of 2 and 3 limbs): 0/1, blocks kept
example : (mpq_div_2exp exq 2 3 4 5 200).ok = true ∧ view ((mpq_div_2exp exq 2 3 4 5 200).h 2) = ⟨2, 0, []⟩ ∧
    view ((mpq_div_2exp exq 2 3 4 5 200).h 3) = ⟨3, 1, [1]⟩ := by decide

/-! ## mpq_add, mpq_sub (mpq/aors.c) -/

/-- mpq_add / mpq_sub, the arm for coprime denominators (aors.c:81-89; "probability 6/π²"), rop = (rn, rd) any variable —
    for EVERY assignment of ids in which the fields of rop differ and NUM (rop) is not a denominator field (aors.c:87 stores
    NUM (rop) and :88 reads both denominators afterwards).  gcd, tmp1, tmp2 live in TMP space (MPZ_TMP_INIT with
    MIN (den sizes), |num1| + den2, |num2| + den1 limbs): `ok` includes that no callee reallocates them (`tmpKept`) — mpz_gcd
    stores one limb, the two mpz_mul find exactly usize + vsize limbs.  Both fields of rop well formed, no variable other than
    rop and the locals changed, values n1·d2 ± n2·d1 over d1·d2 (= `Mpq.aors` when gcd (d1, d2) = 1).
    PARTIAL with respect to mpq_add/mpq_sub as a whole: the common-divisor arm (aors.c:53-80: five more callees on TMP
    variables, the second gcd and both exits) is mirrored and tied (ops as6_add / as6_sub) but has no theorem yet; its statement
    is the same with the values of `Mpq.aors`. -/
theorem mpq_aors_coprime_alloc_safe_partial (isSub : Bool) (s : St) (rn rd an ad bn bd g t1 t2 t : Nat) (hs : s.ok = true)
    (hop : ∀ x ∈ [rn, rd, an, ad, bn, bd], OWF (s.h x))
    (hf : rn ≠ rd) (hna : rn ≠ ad) (hnb : rn ≠ bd)
    (hfr : Fresh [g, t1, t2] [rn, rd, an, ad, bn, bd])
    (hda : 0 < valOf s ad) (hdb : 0 < valOf s bd) (hco : Int.gcd (valOf s ad) (valOf s bd) = 1) :
    let s' := mpq_aors 0 0 isSub s rn rd an ad bn bd g t1 t2 t
    s'.ok = true ∧ OWF (s'.h rn) ∧ OWF (s'.h rd) ∧
    (∀ x, x ≠ rn → x ≠ rd → x ∉ [g, t1, t2] → s'.h x = s.h x) ∧
    valOf s' rn = (if isSub then valOf s an * valOf s bd - valOf s bn * valOf s ad
                   else valOf s an * valOf s bd + valOf s bn * valOf s ad) ∧
    valOf s' rd = valOf s ad * valOf s bd := by
  intro s'
  obtain ⟨hN, hS⟩ := hfr
  simp only [List.nodup_cons, List.mem_cons, List.not_mem_nil, or_false, not_or, List.nodup_nil, and_true, not_false_eq_true] at hN
  obtain ⟨⟨n12, n13⟩, n23⟩ := hN
  have S1 := hS g (by simp); have S2 := hS t1 (by simp); have S3 := hS t2 (by simp)
  simp only [List.mem_cons, List.not_mem_nil, or_false, not_or] at S1 S2 S3
  obtain ⟨a1, a2, a3, a4, a5, a6⟩ := S1
  obtain ⟨b1, b2, b3, b4, b5, b6⟩ := S2
  obtain ⟨c1, c2, c3, c4, c5, c6⟩ := S3
  have Orn := hop rn (by simp); have Ord := hop rd (by simp); have Oan := hop an (by simp)
  have Oad := hop ad (by simp); have Obn := hop bn (by simp); have Obd := hop bd (by simp)
  obtain ⟨eda, hda1⟩ := size_toNat s ad Oad hda
  obtain ⟨edb, hdb1⟩ := size_toNat s bd Obd hdb
  -- :43-45 the TMP variables
  set A0 := min (s.SIZ ad).toNat (s.SIZ bd).toNat - 0 with hA0
  set A1 := s.ABSIZ an + (s.SIZ bd).toNat with hA1
  set A2 := s.ABSIZ bn + (s.SIZ ad).toNat with hA2
  set s0 := tmpInit (tmpInit (tmpInit s g A0) t1 A1) t2 A2 with hs0
  have ok0 : s0.ok = true := by simpa [s0] using hs
  have F0 : ∀ x, x ≠ g → x ≠ t1 → x ≠ t2 → s0.h x = s.h x := by
    intro x h1 h2 h3
    rw [hs0, tmpInit_other _ _ _ h3, tmpInit_other _ _ _ h2, tmpInit_other _ _ _ h1]
  have hg0 : s0.h g = ⟨0, 0, Buf.new A0⟩ := by
    rw [hs0, tmpInit_other _ _ _ n13, tmpInit_other _ _ _ n12, tmpInit_same]
  have ht10 : s0.h t1 = ⟨0, 0, Buf.new A1⟩ := by rw [hs0, tmpInit_other _ _ _ n23, tmpInit_same]
  have ht20 : s0.h t2 = ⟨0, 0, Buf.new A2⟩ := by rw [hs0, tmpInit_same]
  have Og : OWF (s0.h g) := by rw [hg0]; exact tmp_owf _ (by omega)
  have Ot1 : OWF (s0.h t1) := by rw [ht10]; exact tmp_owf _ (by omega)
  have Ot2 : OWF (s0.h t2) := by rw [ht20]; exact tmp_owf _ (by omega)
  have I : ∀ x, x ≠ g → x ≠ t1 → x ≠ t2 → OWF (s.h x) → OWF (s0.h x) := fun x h1 h2 h3 h => by rw [F0 x h1 h2 h3]; exact h
  have V0 : ∀ x, x ≠ g → x ≠ t1 → x ≠ t2 → valOf s0 x = valOf s x := by
    intro x h1 h2 h3; unfold valOf; rw [F0 x h1 h2 h3]
  have Ian := I an (Ne.symm a3) (Ne.symm b3) (Ne.symm c3) Oan
  have Iad := I ad (Ne.symm a4) (Ne.symm b4) (Ne.symm c4) Oad
  have Ibn := I bn (Ne.symm a5) (Ne.symm b5) (Ne.symm c5) Obn
  have Ibd := I bd (Ne.symm a6) (Ne.symm b6) (Ne.symm c6) Obd
  have Irn := I rn (Ne.symm a1) (Ne.symm b1) (Ne.symm c1) Orn
  have Ird := I rd (Ne.symm a2) (Ne.symm b2) (Ne.symm c2) Ord
  have van := V0 an (Ne.symm a3) (Ne.symm b3) (Ne.symm c3)
  have vad := V0 ad (Ne.symm a4) (Ne.symm b4) (Ne.symm c4)
  have vbn := V0 bn (Ne.symm a5) (Ne.symm b5) (Ne.symm c5)
  have vbd := V0 bd (Ne.symm a6) (Ne.symm b6) (Ne.symm c6)
  -- :52 the gcd of the denominators: 1, stored in the TMP block without reallocation
  have W1 := mpz_gcd_wrote s0 g ad bd ok0 Og
  have hgv : valOf (mpz_gcd s0 g ad bd) g = 1 := by rw [W1.val, vad, vbd, hco]; rfl
  have hgk : ((mpz_gcd s0 g ad bd).h g).gen = 0 := by
    rw [mpz_gcd_gen_keep s0 g ad bd ok0 Og (by
      rw [vad, vbd, hco]
      have : (natLimbs 1).length ≤ 1 := natLimbs_len_le 1 1 (by unfold B; norm_num)
      simp only [St.ALLOC, hg0, Buf.new]; omega), hg0]
  set s1 := mpz_gcd s0 g ad bd with hs1
  have K1 : ∀ x, OWF (s0.h x) → OWF (s1.h x) := fun x h => W1.owf_of x h
  -- :85-86 the cross products in TMP space
  have hsz : ∀ x, x ≠ g → x ≠ t1 → x ≠ t2 → s1.SIZ x = s.SIZ x := fun x h1 h2 h3 => by
    simp only [St.SIZ]; rw [W1.frame x h1, F0 x h1 h2 h3]
  have W3 := mpz_mul_wrote s1 t1 an bd W1.ok (K1 t1 Ot1) (K1 an Ian) (K1 bd Ibd)
  have hk3 : ((mpz_mul s1 t1 an bd).h t1).gen = 0 := by
    rw [mpz_mul_gen_keep s1 t1 an bd (by
      rw [hsz an (Ne.symm a3) (Ne.symm b3) (Ne.symm c3), hsz bd (Ne.symm a6) (Ne.symm b6) (Ne.symm c6)]
      simp only [St.ALLOC, W1.frame t1 (Ne.symm n12), ht10, Buf.new, hA1, St.ABSIZ, St.SIZ] at edb ⊢
      omega), W1.frame t1 (Ne.symm n12), ht10]
  set s3 := mpz_mul s1 t1 an bd with hs3
  have K3 : ∀ x, OWF (s0.h x) → OWF (s3.h x) := fun x h => W3.owf_of x (K1 x h)
  have W4 := mpz_mul_wrote s3 t2 bn ad W3.ok (K3 t2 Ot2) (K3 bn Ibn) (K3 ad Iad)
  have hk4 : ((mpz_mul s3 t2 bn ad).h t2).gen = 0 := by
    rw [mpz_mul_gen_keep s3 t2 bn ad (by
      have e1 : s3.SIZ bn = s.SIZ bn := by
        simp only [St.SIZ]; rw [W3.frame bn (Ne.symm b5)]; exact hsz bn (Ne.symm a5) (Ne.symm b5) (Ne.symm c5)
      have e2 : s3.SIZ ad = s.SIZ ad := by
        simp only [St.SIZ]; rw [W3.frame ad (Ne.symm b4)]; exact hsz ad (Ne.symm a4) (Ne.symm b4) (Ne.symm c4)
      rw [e1, e2]
      simp only [St.ALLOC, W3.frame t2 (Ne.symm n23), W1.frame t2 (Ne.symm n13), ht20, Buf.new, hA2, St.ABSIZ, St.SIZ] at eda ⊢
      omega), W3.frame t2 (Ne.symm n23), W1.frame t2 (Ne.symm n13), ht20]
  set s4 := mpz_mul s3 t2 bn ad with hs4
  have K4 : ∀ x, OWF (s0.h x) → OWF (s4.h x) := fun x h => W4.owf_of x (K3 x h)
  have vt1 : valOf s4 t1 = valOf s an * valOf s bd := by
    rw [W4.val_other t1 n23, W3.val, W1.val_other an (Ne.symm a3), W1.val_other bd (Ne.symm a6), van, vbd]
  have vt2 : valOf s4 t2 = valOf s bn * valOf s ad := by
    rw [W4.val, W3.val_other bn (Ne.symm b5), W3.val_other ad (Ne.symm b4), W1.val_other bn (Ne.symm a5),
      W1.val_other ad (Ne.symm a4), vbn, vad]
  -- :87 NUM (rop), :88 DEN (rop)
  have W5 := zaors_wrote isSub s4 rn t1 t2 W4.ok (K4 rn Irn) (K4 t1 Ot1) (K4 t2 Ot2)
  set s5 := zaors isSub s4 rn t1 t2 with hs5
  have K5 : ∀ x, OWF (s0.h x) → OWF (s5.h x) := fun x h => W5.owf_of x (K4 x h)
  have W6 := mpz_mul_wrote s5 rd ad bd W5.ok (K5 rd Ird) (K5 ad Iad) (K5 bd Ibd)
  have V5 : ∀ x, x ≠ g → x ≠ t1 → x ≠ t2 → x ≠ rn → valOf s5 x = valOf s0 x := fun x h1 h2 h3 h4 => by
    rw [W5.val_other x h4, W4.val_other x h3, W3.val_other x h2, W1.val_other x h1]
  have e : s' = mpz_mul s5 rd ad bd := by
    have q1 : tmpKept s1 g = s1 := tmpKept_eq _ _ hgk
    have q2 : equal1 s1 g = (true, s1) := equal1_one s1 g W1.owf hgv
    have q3 : tmpKept s3 t1 = s3 := tmpKept_eq _ _ hk3
    have q4 : tmpKept s4 t2 = s4 := tmpKept_eq _ _ hk4
    simp only [s', mpq_aors]
    rw [← hA0, ← hA1, ← hA2, ← hs0, ← hs1, q1, q2]
    simp only [Bool.not_true, Bool.false_eq_true, if_false]
    rw [← hs3, q3, ← hs4, q4]
  rw [e]
  refine ⟨W6.ok, W6.owf_of rn W5.owf, W6.owf, ?_, ?_, ?_⟩
  · intro x h1 h2 h3
    simp only [List.mem_cons, List.not_mem_nil, or_false, not_or] at h3
    obtain ⟨x1, x2, x3⟩ := h3
    rw [W6.frame x h2, W5.frame x h1, W4.frame x x3, W3.frame x x2, W1.frame x x1, F0 x x1 x2 x3]
  · rw [W6.val_other rn hf, W5.val, vt1, vt2]
  · rw [W6.val, V5 ad (Ne.symm a4) (Ne.symm b4) (Ne.symm c4) (Ne.symm hna), V5 bd (Ne.symm a6) (Ne.symm b6) (Ne.symm c6) (Ne.symm hnb),
      vad, vbd]


/-- heap with a common denominator factor: op1 = (2, 3) = (B-1)/2, op2 = (4, 5) = 1/2, rop = (0, 1) = 5/3 -/
def exa : St := ⟨fun i => if i = 0 then ⟨1, 0, ⟨1, [5]⟩⟩ else if i = 1 then ⟨1, 0, ⟨1, [3]⟩⟩
                  else if i = 2 then ⟨1, 0, ⟨1, [B - 1]⟩⟩ else if i = 3 then ⟨1, 0, ⟨1, [2]⟩⟩
                  else if i = 4 then ⟨1, 0, ⟨1, [1]⟩⟩ else ⟨1, 0, ⟨1, [2]⟩⟩, true⟩

-- 6/35 + (-(14·B)/9), coprime denominators, into a third variable and in place into op2: (54 - 490·B)/315
example : (mpq_add exm 0 1 2 3 4 5 6 7 8 9).ok = true ∧ valOf (mpq_add exm 0 1 2 3 4 5 6 7 8 9) 0 = 54 - 490 * (B : Int) ∧
    valOf (mpq_add exm 0 1 2 3 4 5 6 7 8 9) 1 = 315 := by decide +kernel
example : (mpq_sub exm 4 5 2 3 4 5 6 7 8 9).ok = true ∧ valOf (mpq_sub exm 4 5 2 3 4 5 6 7 8 9) 4 = 54 + 490 * (B : Int) := by
  decide +kernel
-- negative: `MPZ_TMP_INIT (gcd, MIN (..) - 1)`: mpz_gcd has to reallocate a TMP block
example : (mpq_aors 1 0 false exm 0 1 2 3 4 5 6 7 8 9).ok = false := by decide +kernel
-- the common-divisor arm (theorem `mpq_aors_common_alloc_safe` below): (B-1)/2 + 1/2 = (B/2)/1 — t = B needs the `+ 1` limb of
-- `MPZ_TMP_INIT (t, MAX (..) + 1)`; without it mpz_add reallocates the TMP block
example : (mpq_add exa 0 1 2 3 4 5 6 7 8 9).ok = true ∧ valOf (mpq_add exa 0 1 2 3 4 5 6 7 8 9) 0 = 2 ^ 63 ∧
    valOf (mpq_add exa 0 1 2 3 4 5 6 7 8 9) 1 = 1 := by decide +kernel
example : (mpq_aors 0 1 false exa 0 1 2 3 4 5 6 7 8 9).ok = false := by decide +kernel

/-- the values `Mpq.aors` computes in its common-divisor arm (aors.c:57-78) -/
def aorsNum (isSub : Bool) (n1 d1 n2 d2 : Int) : Int :=
  let G := Mpq.zgcd d1 d2
  let T := if isSub then n1 * Mpq.divexact d2 G - n2 * Mpq.divexact d1 G else n1 * Mpq.divexact d2 G + n2 * Mpq.divexact d1 G
  if Mpq.zgcd T G = 1 then T else Mpq.divexact T (Mpq.zgcd T G)
def aorsDen (isSub : Bool) (n1 d1 n2 d2 : Int) : Int :=
  let G := Mpq.zgcd d1 d2
  let T := if isSub then n1 * Mpq.divexact d2 G - n2 * Mpq.divexact d1 G else n1 * Mpq.divexact d2 G + n2 * Mpq.divexact d1 G
  if Mpq.zgcd T G = 1 then d2 * Mpq.divexact d1 G else Mpq.divexact d2 (Mpq.zgcd T G) * Mpq.divexact d1 G

/-- mpq_add / mpq_sub, the arm for denominators with a common divisor (aors.c:53-80), rop = (rn, rd) any variable — for EVERY
    assignment of ids in which the fields of rop differ and NUM (rop) is not a denominator field.  All four locals live in TMP
    space and `ok` includes that none of the NINE callee calls on them reallocates: mpz_gcd (gcd ≤ MIN (den sizes) limbs, twice —
    the second time in place, gcd (t, gcd) ≤ gcd), mpz_divexact_gcd into tmp1 / tmp2 (request ≤ ABSIZ of the denominator ≤ the
    TMP size), mpz_mul (tmp1, num1, tmp1) in place (|num1| + |den2/gcd| ≤ |num1| + |den2|: its temporary-copy path, never the
    fresh-block path), mpz_add / mpz_sub into t (MAX (|tmp1|, |tmp2|) + 1 limbs: exactly its request).  NUM (rop) is stored at
    :71 / :76 and DEN (op2) read afterwards (:72 / :77).  Values: those of the C12 value model `Mpq.aors` (`aorsNum`, `aorsDen`). -/
theorem mpq_aors_common_alloc_safe (isSub : Bool) (s : St) (rn rd an ad bn bd g t1 t2 t : Nat) (hs : s.ok = true)
    (hop : ∀ x ∈ [rn, rd, an, ad, bn, bd], OWF (s.h x))
    (hf : rn ≠ rd) (hna : rn ≠ ad) (hnb : rn ≠ bd)
    (hfr : Fresh [g, t1, t2, t] [rn, rd, an, ad, bn, bd])
    (hda : 0 < valOf s ad) (hdb : 0 < valOf s bd) (hco : Int.gcd (valOf s ad) (valOf s bd) ≠ 1) :
    let s' := mpq_aors 0 0 isSub s rn rd an ad bn bd g t1 t2 t
    s'.ok = true ∧ OWF (s'.h rn) ∧ OWF (s'.h rd) ∧
    (∀ x, x ≠ rn → x ≠ rd → x ∉ [g, t1, t2, t] → s'.h x = s.h x) ∧
    valOf s' rn = aorsNum isSub (valOf s an) (valOf s ad) (valOf s bn) (valOf s bd) ∧
    valOf s' rd = aorsDen isSub (valOf s an) (valOf s ad) (valOf s bn) (valOf s bd) := by
  obtain ⟨hN, hS⟩ := hfr
  simp only [List.nodup_cons, List.mem_cons, List.not_mem_nil, or_false, not_or, List.nodup_nil, and_true, not_false_eq_true] at hN
  obtain ⟨⟨n12, n13, n14⟩, ⟨n23, n24⟩, n34⟩ := hN
  have S1 := hS g (by simp); have S2 := hS t1 (by simp); have S3 := hS t2 (by simp); have S4 := hS t (by simp)
  simp only [List.mem_cons, List.not_mem_nil, or_false, not_or] at S1 S2 S3 S4
  obtain ⟨a1, a2, a3, a4, a5, a6⟩ := S1
  obtain ⟨b1, b2, b3, b4, b5, b6⟩ := S2
  obtain ⟨c1, c2, c3, c4, c5, c6⟩ := S3
  obtain ⟨d1, d2, d3, d4, d5, d6⟩ := S4
  have Orn := hop rn (by simp); have Ord := hop rd (by simp); have Oan := hop an (by simp)
  have Oad := hop ad (by simp); have Obn := hop bn (by simp); have Obd := hop bd (by simp)
  obtain ⟨eda, hda1⟩ := size_toNat s ad Oad hda
  obtain ⟨edb, hdb1⟩ := size_toNat s bd Obd hdb
  have eda' : (s.h ad).size.toNat = (s.h ad).size.natAbs := eda
  have edb' : (s.h bd).size.toNat = (s.h bd).size.natAbs := edb
  -- abbreviations for the values
  set G : Int := Mpq.zgcd (valOf s ad) (valOf s bd) with hGdef
  have hGpos : 0 < G := by
    show (0 : Int) < ((Int.gcd (valOf s ad) (valOf s bd) : Nat) : Int)
    exact_mod_cast Int.gcd_pos_of_ne_zero_right _ (by omega)
  have hG1 : G ≠ 1 := by
    show ((Int.gcd (valOf s ad) (valOf s bd) : Nat) : Int) ≠ 1
    exact_mod_cast hco
  have hGad : G ∣ valOf s ad := Int.gcd_dvd_left _ _
  have hGbd : G ∣ valOf s bd := Int.gcd_dvd_right _ _
  have hGlt_a : G.natAbs < B ^ (s.h ad).size.natAbs :=
    Nat.lt_of_le_of_lt (Nat.le_of_dvd (by omega) (Int.natAbs_dvd_natAbs.mpr hGad)) (valOf_lt s ad Oad)
  have hGlt_b : G.natAbs < B ^ (s.h bd).size.natAbs :=
    Nat.lt_of_le_of_lt (Nat.le_of_dvd (by omega) (Int.natAbs_dvd_natAbs.mpr hGbd)) (valOf_lt s bd Obd)
  intro s'
  simp only [s', mpq_aors]
  -- :43-45
  set A0 := min (s.SIZ ad).toNat (s.SIZ bd).toNat - 0 with hA0
  set A1 := s.ABSIZ an + (s.SIZ bd).toNat with hA1
  set A2 := s.ABSIZ bn + (s.SIZ ad).toNat with hA2
  have hGltA0 : G.natAbs < B ^ A0 := by
    rw [hA0, eda, edb]
    rcases Nat.le_total (s.h ad).size.natAbs (s.h bd).size.natAbs with h | h
    · rw [Nat.min_eq_left h]; exact hGlt_a
    · rw [Nat.min_eq_right h]; exact hGlt_b
  set s0 := tmpInit (tmpInit (tmpInit s g A0) t1 A1) t2 A2 with hs0
  have ok0 : s0.ok = true := by simpa [s0] using hs
  have F0 : ∀ x, x ≠ g → x ≠ t1 → x ≠ t2 → s0.h x = s.h x := by
    intro x h1 h2 h3
    rw [hs0, tmpInit_other _ _ _ h3, tmpInit_other _ _ _ h2, tmpInit_other _ _ _ h1]
  have hg0 : s0.h g = ⟨0, 0, Buf.new A0⟩ := by
    rw [hs0, tmpInit_other _ _ _ n13, tmpInit_other _ _ _ n12, tmpInit_same]
  have ht10 : s0.h t1 = ⟨0, 0, Buf.new A1⟩ := by rw [hs0, tmpInit_other _ _ _ n23, tmpInit_same]
  have ht20 : s0.h t2 = ⟨0, 0, Buf.new A2⟩ := by rw [hs0, tmpInit_same]
  have hA0pos : 1 ≤ A0 := by rw [hA0, eda, edb]; omega
  have Og : OWF (s0.h g) := by rw [hg0]; exact tmp_owf _ hA0pos
  have Ot1 : OWF (s0.h t1) := by rw [ht10]; exact tmp_owf _ (by omega)
  have Ot2 : OWF (s0.h t2) := by rw [ht20]; exact tmp_owf _ (by omega)
  have I : ∀ x, x ≠ g → x ≠ t1 → x ≠ t2 → OWF (s.h x) → OWF (s0.h x) := fun x h1 h2 h3 h => by rw [F0 x h1 h2 h3]; exact h
  have V0 : ∀ x, x ≠ g → x ≠ t1 → x ≠ t2 → valOf s0 x = valOf s x := by
    intro x h1 h2 h3; unfold valOf; rw [F0 x h1 h2 h3]
  have Ian := I an (by dq) (by dq) (by dq) Oan
  have Iad := I ad (by dq) (by dq) (by dq) Oad
  have Ibn := I bn (by dq) (by dq) (by dq) Obn
  have Ibd := I bd (by dq) (by dq) (by dq) Obd
  have Irn := I rn (by dq) (by dq) (by dq) Orn
  have Ird := I rd (by dq) (by dq) (by dq) Ord
  have van := V0 an (by dq) (by dq) (by dq)
  have vad := V0 ad (by dq) (by dq) (by dq)
  have vbn := V0 bn (by dq) (by dq) (by dq)
  have vbd := V0 bd (by dq) (by dq) (by dq)
  -- :52 gcd
  have W1 := mpz_gcd_wrote s0 g ad bd ok0 Og
  have hlen1 : (natLimbs (Int.gcd (valOf s0 ad) (valOf s0 bd))).length ≤ s0.ALLOC g := by
    rw [vad, vbd]; simp only [St.ALLOC, hg0, Buf.new]
    exact natLimbs_len_le _ _ hGltA0
  have hk1 := mpz_gcd_gen_keep s0 g ad bd ok0 Og hlen1
  have hal1 := mpz_gcd_alloc_keep s0 g ad bd hlen1
  set s1 := mpz_gcd s0 g ad bd with hs1
  have vg1 : valOf s1 g = G := by rw [W1.val, vad, vbd]; rfl
  have q1 : tmpKept s1 g = s1 := tmpKept_eq _ _ (by rw [hk1, hg0])
  have q1e : equal1 s1 g = (false, s1) := by
    rw [equal1_spec s1 g W1.owf, vg1]; simp [hG1]
  rw [q1, q1e]
  simp only [Bool.not_false, if_true]
  have K1 : ∀ x, OWF (s0.h x) → OWF (s1.h x) := fun x h => W1.owf_of x h
  have H1 : ∀ x, x ≠ g → s1.h x = s0.h x := W1.frame
  -- :57 tmp1 = den2 / gcd
  have D2 := mpz_divexact_gcd_wrote' s1 t1 bd g W1.ok (K1 t1 Ot1) (K1 bd Ibd) W1.owf (by rw [vg1]; exact hGpos)
    (by rw [vg1, W1.val_other bd (by dq), vbd]; exact hGbd)
  have hroom2 : s1.ABSIZ bd ≤ s1.ALLOC t1 := by
    simp only [St.ABSIZ, St.ALLOC, H1 bd (by dq), H1 t1 (by dq), F0 bd (by dq) (by dq) (by dq), ht10, Buf.new, hA1]; omega
  have hk2 := D2.2 hroom2
  have hal2 := mpz_divexact_gcd_alloc_keep s1 t1 bd g (size_ne_zero_of_pos s1 g (by rw [vg1]; exact hGpos)) hroom2
  have W2 := D2.1
  set s2 := mpz_divexact_gcd s1 t1 bd g with hs2
  have q2 : tmpKept s2 t1 = s2 := tmpKept_eq _ _ (by rw [hk2, H1 t1 (by dq), ht10])
  rw [q2]
  have vt1_2 : valOf s2 t1 = Mpq.divexact (valOf s bd) G := by rw [W2.val, vg1, W1.val_other bd (by dq), vbd]; rfl
  have al_t1_2 : (s2.h t1).buf.alloc = A1 := by rw [hal2, H1 t1 (by dq), ht10]; rfl
  have K2 : ∀ x, OWF (s0.h x) → OWF (s2.h x) := fun x h => W2.owf_of x (K1 x h)
  -- :58 tmp1 = num1 * tmp1
  have hsz_t1 : (s2.h t1).size.natAbs ≤ (s.h bd).size.natAbs := by
    apply absiz_le s2 t1 W2.owf
    rw [vt1_2]
    exact Nat.lt_of_le_of_lt (natAbs_div_le _ _ hGpos hGbd) (valOf_lt s bd Obd)
  have hroom3 : (s2.SIZ an).natAbs + (s2.SIZ t1).natAbs ≤ s2.ALLOC t1 := by
    simp only [St.SIZ, St.ALLOC, al_t1_2, W2.frame an (by dq), H1 an (by dq), F0 an (by dq) (by dq) (by dq), hA1, St.ABSIZ]
    omega
  have W3 := mpz_mul_wrote s2 t1 an t1 W2.ok W2.owf (K2 an Ian) W2.owf
  have hk3 := mpz_mul_gen_keep s2 t1 an t1 hroom3 t1
  have hal3 := mpz_mul_alloc_keep s2 t1 an t1 hroom3 t1
  set s3 := mpz_mul s2 t1 an t1 with hs3
  have q3 : tmpKept s3 t1 = s3 := tmpKept_eq _ _ (by rw [hk3, hk2, H1 t1 (by dq), ht10])
  rw [q3]
  have vt1_3 : valOf s3 t1 = valOf s an * Mpq.divexact (valOf s bd) G := by
    rw [W3.val, vt1_2, W2.val_other an (by dq), W1.val_other an (by dq), van]
  have K3 : ∀ x, OWF (s0.h x) → OWF (s3.h x) := fun x h => W3.owf_of x (K2 x h)
  have vg3 : valOf s3 g = G := by rw [W3.val_other g (by dq), W2.val_other g (by dq), vg1]
  have H3 : ∀ x, x ≠ g → x ≠ t1 → s3.h x = s0.h x := fun x h1 h2 => by
    rw [W3.frame x h2, W2.frame x h2, H1 x h1]
  -- :60 tmp2 = den1 / gcd
  have vad3 : valOf s3 ad = valOf s ad := by unfold valOf; rw [H3 ad (by dq) (by dq), F0 ad (by dq) (by dq) (by dq)]
  have D4 := mpz_divexact_gcd_wrote' s3 t2 ad g W3.ok (K3 t2 Ot2) (K3 ad Iad) (K3 g Og) (by rw [vg3]; exact hGpos)
    (by rw [vg3, vad3]; exact hGad)
  have hroom4 : s3.ABSIZ ad ≤ s3.ALLOC t2 := by
    simp only [St.ABSIZ, St.ALLOC, H3 ad (by dq) (by dq), H3 t2 (by dq) (by dq), F0 ad (by dq) (by dq) (by dq), ht20, Buf.new, hA2]; omega
  have hk4 := D4.2 hroom4
  have hal4 := mpz_divexact_gcd_alloc_keep s3 t2 ad g (size_ne_zero_of_pos s3 g (by rw [vg3]; exact hGpos)) hroom4
  have W4 := D4.1
  set s4 := mpz_divexact_gcd s3 t2 ad g with hs4
  have gen_t2_4 : (s4.h t2).gen = 0 := by rw [hk4, H3 t2 (by dq) (by dq), ht20]
  have q4 : tmpKept s4 t2 = s4 := tmpKept_eq _ _ gen_t2_4
  rw [q4]
  have vt2_4 : valOf s4 t2 = Mpq.divexact (valOf s ad) G := by rw [W4.val, vg3, vad3]; rfl
  have al_t2_4 : (s4.h t2).buf.alloc = A2 := by rw [hal4, H3 t2 (by dq) (by dq), ht20]; rfl
  have K4 : ∀ x, OWF (s0.h x) → OWF (s4.h x) := fun x h => W4.owf_of x (K3 x h)
  -- :61 tmp2 = num2 * tmp2
  have hsz_t2 : (s4.h t2).size.natAbs ≤ (s.h ad).size.natAbs := by
    apply absiz_le s4 t2 W4.owf
    rw [vt2_4]
    exact Nat.lt_of_le_of_lt (natAbs_div_le _ _ hGpos hGad) (valOf_lt s ad Oad)
  have hroom5 : (s4.SIZ bn).natAbs + (s4.SIZ t2).natAbs ≤ s4.ALLOC t2 := by
    simp only [St.SIZ, St.ALLOC, al_t2_4, W4.frame bn (by dq), H3 bn (by dq) (by dq), F0 bn (by dq) (by dq) (by dq), hA2, St.ABSIZ]
    omega
  have W5 := mpz_mul_wrote s4 t2 bn t2 W4.ok W4.owf (K4 bn Ibn) W4.owf
  have hk5 := mpz_mul_gen_keep s4 t2 bn t2 hroom5 t2
  have hal5 := mpz_mul_alloc_keep s4 t2 bn t2 hroom5 t2
  set s5 := mpz_mul s4 t2 bn t2 with hs5
  have gen_t2_5 : (s5.h t2).gen = 0 := by rw [hk5, gen_t2_4]
  have q5 : tmpKept s5 t2 = s5 := tmpKept_eq _ _ gen_t2_5
  rw [q5]
  have vt2_5 : valOf s5 t2 = valOf s bn * Mpq.divexact (valOf s ad) G := by
    rw [W5.val, vt2_4, W4.val_other bn (by dq)]
    unfold valOf; rw [H3 bn (by dq) (by dq), F0 bn (by dq) (by dq) (by dq)]
  have K5 : ∀ x, OWF (s0.h x) → OWF (s5.h x) := fun x h => W5.owf_of x (K4 x h)
  have H5 : ∀ x, x ≠ g → x ≠ t1 → x ≠ t2 → s5.h x = s0.h x := fun x h1 h2 h3 => by
    rw [W5.frame x h3, W4.frame x h3, H3 x h1 h2]
  have vt1_5 : valOf s5 t1 = valOf s an * Mpq.divexact (valOf s bd) G := by
    rw [W5.val_other t1 (by dq), W4.val_other t1 (by dq), vt1_3]
  have vg5 : valOf s5 g = G := by rw [W5.val_other g (by dq), W4.val_other g (by dq), vg3]
  -- :63 t
  set A3 := max (s5.ABSIZ t1) (s5.ABSIZ t2) + 1 - 0 with hA3
  set s6 := tmpInit s5 t A3 with hs6
  have H6 : ∀ x, x ≠ t → s6.h x = s5.h x := fun x h => tmpInit_other _ _ _ h
  have ht6 : s6.h t = ⟨0, 0, Buf.new A3⟩ := tmpInit_same _ _ _
  have Ot6 : OWF (s6.h t) := by rw [ht6]; exact tmp_owf _ (by omega)
  have K6 : ∀ x, x ≠ t → OWF (s0.h x) → OWF (s6.h x) := fun x h hx => by rw [H6 x h]; exact K5 x hx
  have ok6 : s6.ok = true := by rw [hs6, tmpInit_ok]; exact W5.ok
  -- :65 t = tmp1 ± tmp2
  have W7 := zaors_wrote isSub s6 t t1 t2 ok6 Ot6 (K6 t1 (by dq) Ot1) (K6 t2 (by dq) Ot2)
  have hk7 := zaors_gen_keep isSub s6 t t1 t2 (by
    simp only [St.SIZ, St.ALLOC, H6 t1 (by dq), H6 t2 (by dq), ht6, Buf.new, hA3, St.ABSIZ]; omega) t
  set s7 := zaors isSub s6 t t1 t2 with hs7
  have q7 : tmpKept s7 t = s7 := tmpKept_eq _ _ (by rw [hk7, ht6])
  rw [q7]
  set T : Int := (if isSub then valOf s an * Mpq.divexact (valOf s bd) G - valOf s bn * Mpq.divexact (valOf s ad) G
    else valOf s an * Mpq.divexact (valOf s bd) G + valOf s bn * Mpq.divexact (valOf s ad) G) with hT
  have v6 : ∀ x, x ≠ t → valOf s6 x = valOf s5 x := fun x h => by unfold valOf; rw [H6 x h]
  have vt7 : valOf s7 t = T := by
    rw [W7.val, v6 t1 (by dq), v6 t2 (by dq), vt1_5, vt2_5]
  have K7 : ∀ x, OWF (s6.h x) → OWF (s7.h x) := fun x h => W7.owf_of x h
  have H7 : ∀ x, x ≠ g → x ≠ t1 → x ≠ t2 → x ≠ t → s7.h x = s0.h x := fun x h1 h2 h3 h4 => by
    rw [W7.frame x h4, H6 x h4, H5 x h1 h2 h3]
  have vg7 : valOf s7 g = G := by rw [W7.val_other g (by dq), v6 g (by dq), vg5]
  have vad7 : valOf s7 ad = valOf s ad := by unfold valOf; rw [H7 ad (by dq) (by dq) (by dq) (by dq), F0 ad (by dq) (by dq) (by dq)]
  -- :66 tmp2 = den1 / gcd
  have Og7 : OWF (s7.h g) := K7 g (K6 g (by dq) Og)
  have D8 := mpz_divexact_gcd_wrote' s7 t2 ad g W7.ok (K7 t2 (K6 t2 (by dq) Ot2)) (K7 ad (K6 ad (by dq) Iad)) Og7
    (by rw [vg7]; exact hGpos) (by rw [vg7, vad7]; exact hGad)
  have t2_7 : s7.h t2 = s5.h t2 := by rw [W7.frame t2 (by dq), H6 t2 (by dq)]
  have hroom8 : s7.ABSIZ ad ≤ s7.ALLOC t2 := by
    simp only [St.ABSIZ, St.ALLOC, t2_7, hal5, al_t2_4, H7 ad (by dq) (by dq) (by dq) (by dq), F0 ad (by dq) (by dq) (by dq), hA2]; omega
  have hk8 := D8.2 hroom8
  have W8 := D8.1
  set s8 := mpz_divexact_gcd s7 t2 ad g with hs8
  have q8 : tmpKept s8 t2 = s8 := tmpKept_eq _ _ (by rw [hk8, t2_7, gen_t2_5])
  rw [q8]
  have vt2_8 : valOf s8 t2 = Mpq.divexact (valOf s ad) G := by rw [W8.val, vg7, vad7]; rfl
  have K8 : ∀ x, OWF (s6.h x) → OWF (s8.h x) := fun x h => W8.owf_of x (K7 x h)
  -- :68 gcd = gcd (t, gcd)
  have g8 : s8.h g = s1.h g := by
    rw [W8.frame g (by dq), W7.frame g (by dq), H6 g (by dq), W5.frame g (by dq), W4.frame g (by dq), W3.frame g (by dq),
      W2.frame g (by dq)]
  have vg8 : valOf s8 g = G := by unfold valOf; rw [g8]; exact vg1
  have vt8 : valOf s8 t = T := by rw [W8.val_other t (by dq), vt7]
  have Og8 : OWF (s8.h g) := by rw [g8]; exact W1.owf
  have W9 := mpz_gcd_wrote s8 g t g W8.ok Og8
  have hlen9 : (natLimbs (Int.gcd (valOf s8 t) (valOf s8 g))).length ≤ s8.ALLOC g := by
    rw [vg8]; simp only [St.ALLOC, g8, hal1, hg0, Buf.new]
    exact gcd_len_le _ _ _ hGpos hGltA0
  have hk9 := mpz_gcd_gen_keep s8 g t g W8.ok Og8 hlen9
  set s9 := mpz_gcd s8 g t g with hs9
  have q9 : tmpKept s9 g = s9 := tmpKept_eq _ _ (by rw [hk9, g8, hk1, hg0])
  rw [q9]
  set G' : Int := Mpq.zgcd T G with hG'
  have vg9 : valOf s9 g = G' := by rw [W9.val, vt8, vg8]; rfl
  have hG'pos : 0 < G' := by
    show (0 : Int) < ((Int.gcd T G : Nat) : Int)
    exact_mod_cast Int.gcd_pos_of_ne_zero_right _ (by omega)
  have hG'T : G' ∣ T := Int.gcd_dvd_left _ _
  have hG'G : G' ∣ G := Int.gcd_dvd_right _ _
  rw [equal1_spec s9 g W9.owf, vg9]
  simp only []
  have K9 : ∀ x, OWF (s6.h x) → OWF (s9.h x) := fun x h => W9.owf_of x (K8 x h)
  have H9 : ∀ x, x ≠ g → x ≠ t1 → x ≠ t2 → x ≠ t → s9.h x = s0.h x := fun x h1 h2 h3 h4 => by
    rw [W9.frame x h1, W8.frame x h3, H7 x h1 h2 h3 h4]
  have v9 : ∀ x, x ≠ g → x ≠ t1 → x ≠ t2 → x ≠ t → valOf s9 x = valOf s x := fun x h1 h2 h3 h4 => by
    unfold valOf; rw [H9 x h1 h2 h3 h4, F0 x h1 h2 h3]
  have vt9 : valOf s9 t = T := by rw [W9.val_other t (by dq), vt8]
  have vt2_9 : valOf s9 t2 = Mpq.divexact (valOf s ad) G := by rw [W9.val_other t2 (by dq), vt2_8]
  have Orn9 : OWF (s9.h rn) := K9 rn (K6 rn (by dq) Irn)
  have Ord9 : OWF (s9.h rd) := K9 rd (K6 rd (by dq) Ird)
  have Ot9 : OWF (s9.h t) := K9 t Ot6
  have Ot29 : OWF (s9.h t2) := K9 t2 (K6 t2 (by dq) Ot2)
  have Ot19 : OWF (s9.h t1) := K9 t1 (K6 t1 (by dq) Ot1)
  have Obd9 : OWF (s9.h bd) := K9 bd (K6 bd (by dq) Ibd)
  have Fr9 : ∀ x, x ≠ rn → x ≠ rd → x ∉ [g, t1, t2, t] → s9.h x = s.h x := by
    intro x _ _ h3
    simp only [List.mem_cons, List.not_mem_nil, or_false, not_or] at h3
    obtain ⟨x1, x2, x3, x4⟩ := h3
    rw [H9 x x1 x2 x3 x4, F0 x x1 x2 x3]
  by_cases hone : G' = 1
  · -- :71-72
    simp only [hone, decide_true, if_true]
    have W10 := mpz_set_wrote s9 rn t W9.ok Orn9 Ot9
    have W11 := mpz_mul_wrote _ rd bd t2 W10.ok (W10.owf_of rd Ord9) (W10.owf_of bd Obd9) (W10.owf_of t2 Ot29)
    refine ⟨W11.ok, W11.owf_of rn W10.owf, W11.owf, ?_, ?_, ?_⟩
    · intro x h1 h2 h3
      rw [W11.frame x h2, W10.frame x h1]; exact Fr9 x h1 h2 h3
    · rw [W11.val_other rn hf, W10.val, vt9]
      simp only [aorsNum, ← hGdef, ← hT, ← hG', hone, if_true]
    · rw [W11.val, W10.val_other bd (by dq), W10.val_other t2 (by dq), v9 bd (by dq) (by dq) (by dq) (by dq), vt2_9]
      simp only [aorsDen, ← hGdef, ← hT, ← hG', hone, if_true]
  · -- :76-78
    have hd : decide (G' = 1) = false := by simpa using hone
    simp only [hd, Bool.false_eq_true, if_false]
    have W10 := mpz_divexact_gcd_wrote s9 rn t g W9.ok Orn9 Ot9 W9.owf (by rw [vg9]; exact hG'pos) (by rw [vg9, vt9]; exact hG'T)
    set s10 := mpz_divexact_gcd s9 rn t g with hs10
    have vg10 : valOf s10 g = G' := by rw [W10.val_other g (by dq), vg9]
    have vbd10 : valOf s10 bd = valOf s bd := by rw [W10.val_other bd (by dq), v9 bd (by dq) (by dq) (by dq) (by dq)]
    have D11 := mpz_divexact_gcd_wrote' s10 t1 bd g W10.ok (W10.owf_of t1 Ot19) (W10.owf_of bd Obd9) (W10.owf_of g W9.owf)
      (by rw [vg10]; exact hG'pos) (by rw [vg10, vbd10]; exact Int.dvd_trans hG'G hGbd)
    have t1_10 : s10.h t1 = s3.h t1 := by
      rw [W10.frame t1 (by dq), W9.frame t1 (by dq), W8.frame t1 (by dq), W7.frame t1 (by dq), H6 t1 (by dq), W5.frame t1 (by dq),
        W4.frame t1 (by dq)]
    have hroom11 : s10.ABSIZ bd ≤ s10.ALLOC t1 := by
      simp only [St.ABSIZ, St.ALLOC, t1_10, hal3, al_t1_2, W10.frame bd (by dq), H9 bd (by dq) (by dq) (by dq) (by dq),
        F0 bd (by dq) (by dq) (by dq), hA1]; omega
    have hk11 := D11.2 hroom11
    have W11 := D11.1
    set s11 := mpz_divexact_gcd s10 t1 bd g with hs11
    have q11 : tmpKept s11 t1 = s11 := tmpKept_eq _ _ (by rw [hk11, t1_10, hk3, hk2, H1 t1 (by dq), ht10])
    rw [q11]
    have W12 := mpz_mul_wrote s11 rd t1 t2 W11.ok (W11.owf_of rd (W10.owf_of rd Ord9)) W11.owf (W11.owf_of t2 (W10.owf_of t2 Ot29))
    refine ⟨W12.ok, W12.owf_of rn (W11.owf_of rn W10.owf), W12.owf, ?_, ?_, ?_⟩
    · intro x h1 h2 h3
      have h3' := h3
      simp only [List.mem_cons, List.not_mem_nil, or_false, not_or] at h3'
      rw [W12.frame x h2, W11.frame x h3'.2.1, W10.frame x h1]; exact Fr9 x h1 h2 h3
    · rw [W12.val_other rn hf, W11.val_other rn (by dq), W10.val, vt9, vg9]
      simp only [aorsNum, ← hGdef, ← hT, ← hG', hone, if_false]; rfl
    · rw [W12.val, W11.val, vbd10, vg10, W11.val_other t2 (by dq), W10.val_other t2 (by dq), vt2_9]
      simp only [aorsDen, ← hGdef, ← hT, ← hG', hone, if_false]; rfl


/-- mpq_add / mpq_sub (mpq/aors.c), BOTH arms, for every assignment of variable ids in which the two fields of rop differ,
    NUM (rop) is not a denominator field of an operand and the four scratch ids (gcd, tmp1, tmp2, t) are fresh — this covers
    rop == op1, rop == op2, op1 == op2, all equal and all distinct.  Operands well formed with positive denominators.
    `ok` stays true (no access outside a block, no stale pointer, no TMP variable ever reallocated), NUM (rop) and DEN (rop) are
    well formed, no other variable changes, and the values are those of the C12 value model `Mpq.aors`. -/
theorem mpq_aors_alloc_safe (isSub : Bool) (s : St) (rn rd an ad bn bd g t1 t2 t : Nat) (hs : s.ok = true)
    (hop : ∀ x ∈ [rn, rd, an, ad, bn, bd], OWF (s.h x))
    (hf : rn ≠ rd) (hna : rn ≠ ad) (hnb : rn ≠ bd)
    (hfr : Fresh [g, t1, t2, t] [rn, rd, an, ad, bn, bd])
    (hda : 0 < valOf s ad) (hdb : 0 < valOf s bd) :
    let s' := mpq_aors 0 0 isSub s rn rd an ad bn bd g t1 t2 t
    s'.ok = true ∧ OWF (s'.h rn) ∧ OWF (s'.h rd) ∧
    (∀ x, x ≠ rn → x ≠ rd → x ∉ [g, t1, t2, t] → s'.h x = s.h x) ∧
    valOf s' rn = (if Int.gcd (valOf s ad) (valOf s bd) = 1 then
        (if isSub then valOf s an * valOf s bd - valOf s bn * valOf s ad else valOf s an * valOf s bd + valOf s bn * valOf s ad)
      else aorsNum isSub (valOf s an) (valOf s ad) (valOf s bn) (valOf s bd)) ∧
    valOf s' rd = (if Int.gcd (valOf s ad) (valOf s bd) = 1 then valOf s ad * valOf s bd
      else aorsDen isSub (valOf s an) (valOf s ad) (valOf s bn) (valOf s bd)) := by
  intro s'
  by_cases hco : Int.gcd (valOf s ad) (valOf s bd) = 1
  · have hfr3 : Fresh [g, t1, t2] [rn, rd, an, ad, bn, bd] := by
      obtain ⟨hN, hS⟩ := hfr
      refine ⟨?_, fun x hx => hS x (by simp at hx ⊢; tauto)⟩
      simp only [List.nodup_cons, List.mem_cons, List.not_mem_nil, or_false, not_or, List.nodup_nil, and_true,
        not_false_eq_true] at hN ⊢
      tauto
    obtain ⟨h1, h2, h3, h4, h5, h6⟩ := mpq_aors_coprime_alloc_safe_partial isSub s rn rd an ad bn bd g t1 t2 t hs hop hf hna hnb hfr3 hda hdb hco
    refine ⟨h1, h2, h3, ?_, by rw [if_pos hco]; exact h5, by rw [if_pos hco]; exact h6⟩
    intro x x1 x2 x3
    exact h4 x x1 x2 (by simp at x3 ⊢; tauto)
  · obtain ⟨h1, h2, h3, h4, h5, h6⟩ := mpq_aors_common_alloc_safe isSub s rn rd an ad bn bd g t1 t2 t hs hop hf hna hnb hfr hda hdb hco
    exact ⟨h1, h2, h3, h4, by rw [if_neg hco]; exact h5, by rw [if_neg hco]; exact h6⟩

/-- mpq_add = mpq_aors with mpz_add (aors.c:94-98) -/
theorem mpq_add_alloc_safe (s : St) (rn rd an ad bn bd g t1 t2 t : Nat) (hs : s.ok = true)
    (hop : ∀ x ∈ [rn, rd, an, ad, bn, bd], OWF (s.h x)) (hf : rn ≠ rd) (hna : rn ≠ ad) (hnb : rn ≠ bd)
    (hfr : Fresh [g, t1, t2, t] [rn, rd, an, ad, bn, bd]) (hda : 0 < valOf s ad) (hdb : 0 < valOf s bd) :
    (mpq_add s rn rd an ad bn bd g t1 t2 t).ok = true ∧ OWF ((mpq_add s rn rd an ad bn bd g t1 t2 t).h rn) ∧
    OWF ((mpq_add s rn rd an ad bn bd g t1 t2 t).h rd) ∧
    (∀ x, x ≠ rn → x ≠ rd → x ∉ [g, t1, t2, t] → (mpq_add s rn rd an ad bn bd g t1 t2 t).h x = s.h x) :=
  have h := mpq_aors_alloc_safe false s rn rd an ad bn bd g t1 t2 t hs hop hf hna hnb hfr hda hdb
  ⟨h.1, h.2.1, h.2.2.1, h.2.2.2.1⟩

/-- mpq_sub = mpq_aors with mpz_sub (aors.c:100-104) -/
theorem mpq_sub_alloc_safe (s : St) (rn rd an ad bn bd g t1 t2 t : Nat) (hs : s.ok = true)
    (hop : ∀ x ∈ [rn, rd, an, ad, bn, bd], OWF (s.h x)) (hf : rn ≠ rd) (hna : rn ≠ ad) (hnb : rn ≠ bd)
    (hfr : Fresh [g, t1, t2, t] [rn, rd, an, ad, bn, bd]) (hda : 0 < valOf s ad) (hdb : 0 < valOf s bd) :
    (mpq_sub s rn rd an ad bn bd g t1 t2 t).ok = true ∧ OWF ((mpq_sub s rn rd an ad bn bd g t1 t2 t).h rn) ∧
    OWF ((mpq_sub s rn rd an ad bn bd g t1 t2 t).h rd) ∧
    (∀ x, x ≠ rn → x ≠ rd → x ∉ [g, t1, t2, t] → (mpq_sub s rn rd an ad bn bd g t1 t2 t).h x = s.h x) :=
  have h := mpq_aors_alloc_safe true s rn rd an ad bn bd g t1 t2 t hs hop hf hna hnb hfr hda hdb
  ⟨h.1, h.2.1, h.2.2.1, h.2.2.2.1⟩

-- non-vacuity of the common-divisor arm: the examples on `exa` above ((B-1)/2 + 1/2 = (B/2)/1; the second gcd is 2)
example : aorsNum false ((B : Int) - 1) 2 1 2 = 2 ^ 63 ∧ aorsDen false ((B : Int) - 1) 2 1 2 = 1 := by decide +kernel

/-! ## mpq_mul_2exp / mpq_div_2exp (mpq/md_2exp.c), non-zero arm: the skip loop proved (`skipZeros_spec`); the rest of mord_2exp
    (MPZ_REALLOC (rdst, len), copy / shift arm, mpz_mul_2exp / mpz_set of the other field) is run only (ops as6_mul_2exp / as6_div_2exp).
    Missing for `mpq_mul_2exp_alloc_safe`: the copy arm needs only `skipZeros_spec` + MPN_COPY range facts; the shift arm needs the
    list-level fact that mpn_rshift by < 64 bits of a vector with non-zero top limb leaves at most one zero top limb. -/

/-- 5/(3·B) in one variable (0, 1): the denominator has a whole zero low limb -/
def ex2e : St := ⟨fun i => if i = 0 then ⟨1, 0, ⟨1, [5]⟩⟩ else ⟨2, 0, ⟨2, [0, 3]⟩⟩, true⟩

-- in place, n = 64: the skip loop drops the zero limb (p = rsrc_ptr + 1), the limb 3 is odd, so the copy arm is taken and
-- `p != rdst_ptr` (md_2exp.c:57) copies the limb down: 5/3
example : (mpq_mul_2exp ex2e 0 1 0 1 64).ok = true ∧ view ((mpq_mul_2exp ex2e 0 1 0 1 64).h 1) = ⟨2, 1, [3]⟩ ∧
    view ((mpq_mul_2exp ex2e 0 1 0 1 64).h 0) = ⟨1, 1, [5]⟩ := by decide
-- negative (the defect repaired by commit 62c3bba): the test on the VARIABLES `rdst != rsrc` skips the copy — every access is
-- in range, but the denominator is left as the one limb 0 with SIZ = 1: malformed
example : (mord_2exp false ex2e 0 1 0 1 64).ok = true ∧ view ((mord_2exp false ex2e 0 1 0 1 64).h 1) = ⟨2, 1, [0]⟩ ∧
    ¬ Mpz.WF (view ((mord_2exp false ex2e 0 1 0 1 64).h 1)) := by decide
-- 5/(3·B) · 2^70 = 5·2^6/3: skip one limb, then the numerator is shifted left by the remaining 6 bits
example : valOf (mpq_mul_2exp ex2e 0 1 0 1 70) 0 = 320 ∧ valOf (mpq_mul_2exp ex2e 0 1 0 1 70) 1 = 3 := by decide

/-- the skip loop of mord_2exp (md_2exp.c:42-47) on a non-zero well-formed operand: every `*p` is inside the block (ok is
    kept), it stops at a limb index k < ABSIZ — at the latest on the non-zero top limb —, with `plow = p[k]` and n reduced by 64·k -/
theorem skipZeros_spec (s : St) (x : Nat) (hx : OWF (s.h x)) (h0 : (s.h x).size ≠ 0) :
    ∀ (fuel k n : Nat) (s1 : St), s1.h = s.h → fuel + k = (s.h x).size.natAbs → k < (s.h x).size.natAbs →
      let r := skipZeros s1 (s.PTR x) fuel k n ((s.h x).buf.limbs.getD k junk)
      r.2.2.2.h = s.h ∧ r.2.2.2.ok = s1.ok ∧ k ≤ r.1 ∧ r.1 < (s.h x).size.natAbs ∧
      r.2.2.1 = (s.h x).buf.limbs.getD r.1 junk ∧ r.2.1 + 64 * r.1 = n + 64 * k ∧ (r.2.1 < 64 ∨ r.2.2.1 % 2 = 1 ∨ r.2.2.1 ≠ 0) := by
  have htop := top_ne_zero (s.h x) hx h0
  have hfit : (s.h x).size.natAbs ≤ (s.h x).buf.alloc := view_fit hx
  intro fuel
  induction fuel with
  | zero => intro k n s1 _ hk hlt; omega
  | succ fuel ih =>
    intro k n s1 hs1 hk hlt
    simp only [skipZeros]
    by_cases hc : (decide (n ≥ 64) && (s.h x).buf.limbs.getD k junk == 0) = true
    · rw [if_pos hc]
      simp only [Bool.and_eq_true, decide_eq_true_eq, beq_iff_eq] at hc
      have hk1 : k + 1 < (s.h x).size.natAbs := by
        by_contra hcon
        have : k = (s.h x).size.natAbs - 1 := by omega
        rw [this] at hc; exact htop hc.2
      have hld : (s1.load (s.PTR x) (k + 1)).1 = (s.h x).buf.limbs.getD (k + 1) junk := by
        simp only [St.load, St.rd, Buf.read, Ptr.add, St.PTR, hs1, Nat.zero_add]
        rw [List.getD_eq_getElem?_getD]
        cases hh : (s.h x).buf.limbs[k + 1]? with
        | none => simp [List.getElem?_eq_none_iff] at hh; simp [List.drop_eq_nil_of_le hh]
        | some a => 
          have := List.getElem?_eq_some_iff.mp hh
          obtain ⟨hl, ha⟩ := this
          rw [List.drop_eq_getElem_cons hl]; simp [ha]
      have hok : (s1.load (s.PTR x) (k + 1)).2.ok = s1.ok := by
        simp only [St.load, chk_ok, St.rdOk, St.live, Buf.read, Ptr.add, St.PTR, hs1, Nat.zero_add]
        have : k + 1 + 1 ≤ (s.h x).buf.alloc := by omega
        simp [this]
      have hh : (s1.load (s.PTR x) (k + 1)).2.h = s.h := by simp [St.load, hs1]
      have := ih (k + 1) (n - 64) (s1.load (s.PTR x) (k + 1)).2 hh (by omega) hk1
      simp only [hld] 
      obtain ⟨r1, r2, r3, r4, r5, r6, r7⟩ := this
      refine ⟨r1, by rw [r2, hok], by omega, r4, r5, by omega, r7⟩
    · rw [if_neg hc]
      refine ⟨hs1, rfl, Nat.le_refl _, hlt, rfl, rfl, ?_⟩
      simp only [Bool.and_eq_true, decide_eq_true_eq, beq_iff_eq, not_and] at hc
      by_cases hn : n ≥ 64
      · right; right; exact hc hn
      · left; show n < 64; omega


-- on 3·B (limbs [0, 3]) with n = 70: one limb skipped, n left 6, plow = 3
example : (skipZeros ex2e (ex2e.PTR 1) 2 0 70 0).1 = 1 ∧ (skipZeros ex2e (ex2e.PTR 1) 2 0 70 0).2.1 = 6 ∧
    (skipZeros ex2e (ex2e.PTR 1) 2 0 70 0).2.2.1 = 3 := by decide

end Mpir.AllocSafe6
