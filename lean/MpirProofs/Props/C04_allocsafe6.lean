/-
  C04, object-layer memory safety as theorems — the mpq arithmetic (models: Mpir/Model/AllocSafeMpq6.lean, mirrors of mpq/aors.c,
  mul.c, div.c, md_2exp.c on the memory model of Mpir/Model/AllocSafe.lean).  Property theorems only; helper lemmas live in
  MpirProofs/Lemmas/AllocSafeMpq6.lean.  Tied by ops `as6_*` (harness/ops_allocsafe6.c) and source pins.
-/
import MpirProofs.Lemmas.AllocSafeMpq6
namespace Mpir.AllocSafe6
open Mpir Mpir.AllocSafe

/-- heap for the examples: rop = (0, 1) = 5/3 in one-limb blocks, op1 = (2, 3) = -(B^2-1)/(B^3-1)·… in exact blocks, op2 = (4, 5) = 0/1 -/
def exq : St := ⟨fun i => if i = 0 then ⟨1, 0, ⟨1, [5]⟩⟩ else if i = 1 then ⟨1, 0, ⟨1, [3]⟩⟩
                  else if i = 2 then ⟨-2, 0, ⟨2, [B - 2, B - 1]⟩⟩ else if i = 3 then ⟨3, 0, ⟨3, [B - 1, B - 1, B - 1]⟩⟩
                  else if i = 4 then ⟨0, 0, ⟨1, [junk]⟩⟩ else ⟨1, 0, ⟨1, [1]⟩⟩, true⟩

/-- mpq_div (mpq/div.c:33-34): a zero divisor raises DIVIDE_BY_ZERO before anything is written, for every alias assignment. -/
theorem mpq_div_zero (s : St) (qn qd an ad bn bd g1 g2 t1 t2 nt : Nat) (h0 : (s.h bn).size = 0) :
    mpq_div s qn qd an ad bn bd g1 g2 t1 t2 nt = none := by
  simp [mpq_div, St.SIZ, h0]

example : mpq_div exq 0 1 2 3 4 5 6 7 8 9 10 = none := by decide

end Mpir.AllocSafe6
