/-
  C04, object-layer memory safety as theorems — the mpq arithmetic (models: Mpir/Model/AllocSafeMpq6.lean, mirrors of mpq/aors.c,
  mul.c, div.c, md_2exp.c on the memory model of Mpir/Model/AllocSafe.lean).  Property theorems only; helper lemmas live in
  MpirProofs/Lemmas/AllocSafeMpq6.lean.  Tied by ops `as6_*` (harness/ops_allocsafe6.c) and source pins.

  An mpq_t is its two mpz_t fields = two variable ids.  The alias assignments of the C (rop == op1, rop == op2, op1 == op2, all
  equal, all distinct) are assignments of ids; the theorems quantify over ALL ids and ask only for what every legal assignment
  satisfies: the two fields of rop are different variables, NUM (rop) is not a denominator field of an operand, and the scratch ids
  standing for the C's local mpz_t's are fresh.  `valOf` = the integer a field holds; the values are those of the C12 value model
  (Mpir/Model/Mpq.lean: `Mpq.zgcd`, `Mpq.divexact`).
-/
import MpirProofs.Lemmas.AllocSafeMpq6
import Mpir.Model.Mpq
namespace Mpir.AllocSafe6
open Mpir Mpir.AllocSafe

/-- heap for the examples: rop = (0, 1) = 5/3 in one-limb blocks, op1 = (2, 3) = -(B^2-2)/(B^3-1) in exact blocks, op2 = (4, 5) = 0/1 -/
def exq : St := ⟨fun i => if i = 0 then ⟨1, 0, ⟨1, [5]⟩⟩ else if i = 1 then ⟨1, 0, ⟨1, [3]⟩⟩
                  else if i = 2 then ⟨-2, 0, ⟨2, [B - 2, B - 1]⟩⟩ else if i = 3 then ⟨3, 0, ⟨3, [B - 1, B - 1, B - 1]⟩⟩
                  else if i = 4 then ⟨0, 0, ⟨1, [junk]⟩⟩ else ⟨1, 0, ⟨1, [1]⟩⟩, true⟩

/-- heap with two proper fractions: op1 = (2, 3) = 6/35, op2 = (4, 5) = -(14·B)/9, rop = (0, 1) = 5/3; all blocks exact -/
def exm : St := ⟨fun i => if i = 0 then ⟨1, 0, ⟨1, [5]⟩⟩ else if i = 1 then ⟨1, 0, ⟨1, [3]⟩⟩
                  else if i = 2 then ⟨1, 0, ⟨1, [6]⟩⟩ else if i = 3 then ⟨1, 0, ⟨1, [35]⟩⟩
                  else if i = 4 then ⟨-2, 0, ⟨2, [0, 14]⟩⟩ else ⟨1, 0, ⟨1, [9]⟩⟩, true⟩

/-! ## mpq_div (mpq/div.c) -/

/-- mpq_div (mpq/div.c:33-34): a zero divisor raises DIVIDE_BY_ZERO before anything is written, for every alias assignment. -/
theorem mpq_div_zero (s : St) (qn qd an ad bn bd g1 g2 t1 t2 nt : Nat) (h0 : (s.h bn).size = 0) :
    mpq_div s qn qd an ad bn bd g1 g2 t1 t2 nt = none := by
  simp [mpq_div, St.SIZ, h0]

example : mpq_div exq 0 1 2 3 4 5 6 7 8 9 10 = none := by decide

/-! ## mpq_mul (mpq/mul.c) -/

/-- mpq_mul, the squaring arm `op1 == op2` (mul.c:33-39), prod = (pn, pd) the operand itself or any other variable: two mpz_mul
    calls (each safe by `mpz_mul_alloc_safe`, incl. its in-place `free_me` / temporary-copy paths when prod is the operand);
    DEN (op1) is read after NUM (prod) was written, which is harmless because NUM (prod) is not a denominator field.  Both fields
    of prod well formed, nothing else touched, values num², den². -/
theorem mpq_mul_sqr_alloc_safe (s : St) (pn pd an ad g1 g2 t1 t2 : Nat) (hs : s.ok = true)
    (hpn : OWF (s.h pn)) (hpd : OWF (s.h pd)) (han : OWF (s.h an)) (had : OWF (s.h ad))
    (hf : pn ≠ pd) (hnd : pn ≠ ad) :
    let s' := mpq_mul s pn pd an ad an ad g1 g2 t1 t2
    s'.ok = true ∧ OWF (s'.h pn) ∧ OWF (s'.h pd) ∧ (∀ x, x ≠ pn → x ≠ pd → s'.h x = s.h x) ∧
    valOf s' pn = valOf s an * valOf s an ∧ valOf s' pd = valOf s ad * valOf s ad := by
  intro s'
  have e : s' = mpz_mul (mpz_mul s pn an an) pd ad ad := by simp [s', mpq_mul]
  have W1 := mpz_mul_wrote s pn an an hs hpn han han
  have W2 := mpz_mul_wrote _ pd ad ad W1.ok (W1.owf_of pd hpd) (W1.owf_of ad had) (W1.owf_of ad had)
  rw [e]
  refine ⟨W2.ok, W2.owf_of pn W1.owf, W2.owf, ?_, ?_, ?_⟩
  · intro x h1 h2; rw [W2.frame x h2, W1.frame x h1]
  · rw [W2.val_other pn hf, W1.val]
  · rw [W2.val, W1.val_other ad (Ne.symm hnd)]

-- (-(B^2-2)/(B^3-1))² in place (prod == op1 == op2): both fields regrown through mpz_mul's `free_me` path (2 → 4, 3 → 6 limbs)
example : (mpq_mul exq 2 3 2 3 2 3 6 7 8 9).ok = true ∧ (mpq_mul exq 2 3 2 3 2 3 6 7 8 9).ALLOC 2 = 4 ∧
    (mpq_mul exq 2 3 2 3 2 3 6 7 8 9).ALLOC 3 = 6 ∧ valOf (mpq_mul exq 2 3 2 3 2 3 6 7 8 9) 2 = ((B : Int) ^ 2 - 2) ^ 2 := by decide

end Mpir.AllocSafe6
