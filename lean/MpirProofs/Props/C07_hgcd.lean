/- C07 — half-gcd layer (placeholder, theorems follow). -/
import Mpir.Model.Hgcd
namespace Mpir.C07h
end Mpir.C07h
