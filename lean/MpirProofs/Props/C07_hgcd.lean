/-
  C07 — the half-gcd layer (mpn/generic/hgcd_matrix.c, matrix22_mul.c, matrix22_mul1_inverse_vector.c,
  hgcd_step.c, gcd_subdiv_step.c, hgcd.c, hgcd_reduce.c, hgcd_appr.c).
  Property theorems only; they are about the value-level models of Mpir/Model/Hgcd.lean, which the
  correspondence run compares with the real functions on their full output (ops of harness/ops_hgcd.c).
  Notation: `MRel m x y X Y` is "det m = 1 and (X; Y) = m·(x; y)"; `mmul` the 2×2 product; `HM.Fits` "every
  entry is below B^(M->n)"; all entries are naturals, so non-negativity is built in.
-/
import MpirProofs.Lemmas.HgcdRec2
import MpirProofs.Lemmas.HgcdWrap
namespace Mpir.C07h
open Mpir Mpir.Gcd Mpir.Hgcd

/-! ## 1. Matrix arithmetic -/

/-- mpn_matrix22_mul — the basecase and the Strassen-like schedule of mpn_matrix22_mul_strassen with all its
    sign flags (r1s, r3s, s0s, t0s, u1s), stored carry limbs and dropped carries — returns the plain product
    R·M of 2×2 matrices, for all entries r_i < B^rn, m_i < B^mn and every MATRIX22_STRASSEN_THRESHOLD.
    In particular each ASSERT_NOCARRY of the C holds (the model reduces modulo the area size there). -/
theorem matrix22_mul_correct (thr r0 r1 r2 r3 rn m0 m1 m2 m3 mn : Nat)
    (h0 : r0 < B ^ rn) (h1 : r1 < B ^ rn) (h2 : r2 < B ^ rn) (h3 : r3 < B ^ rn)
    (g0 : m0 < B ^ mn) (g1 : m1 < B ^ mn) (g2 : m2 < B ^ mn) (g3 : m3 < B ^ mn) :
    matrix22Mul thr r0 r1 r2 r3 rn m0 m1 m2 m3 mn
      = (r0 * m0 + r1 * m2, r0 * m1 + r1 * m3, r2 * m0 + r3 * m2, r2 * m1 + r3 * m3) ∧
    strassen r0 r1 r2 r3 rn m0 m1 m2 m3 mn
      = (r0 * m0 + r1 * m2, r0 * m1 + r1 * m3, r2 * m0 + r3 * m2, r2 * m1 + r3 * m3) := by
  refine ⟨matrix22Mul_eq thr _ _ _ _ _ _ _ _ _ _ h0 h1 h2 h3 g0 g1 g2 g3, ?_⟩
  rw [strassen_eq _ _ _ _ _ _ _ _ _ _ h0 h1 h2 h3 g0 g1 g2 g3]
  unfold matrix22MulBase; simp only [Nat.add_comm]

-- non-vacuity: r3 < r2, r1 < |r3 - r2| and m3 < m2 (negative intermediate values), one-limb operands
example : strassen 5 2 (B - 1) 3 1 7 (B - 2) (B - 1) 1 1 =
    (5 * 7 + 2 * (B - 1), 5 * (B - 2) + 2 * 1, (B - 1) * 7 + 3 * (B - 1), (B - 1) * (B - 2) + 3 * 1) := by decide +kernel
example : matrix22Mul 1 5 2 (B - 1) 3 1 7 (B - 2) (B - 1) 1 1 = matrix22Mul 2 5 2 (B - 1) 3 1 7 (B - 2) (B - 1) 1 1 := by
  decide +kernel

/-- mpn_hgcd_matrix_init: the identity, M->n = 1, alloc = (n+1)/2 + 1. -/
theorem hgcd_matrix_init_correct (n : Nat) :
    (matInit n).toM1 = ⟨1, 0, 0, 1⟩ ∧ (matInit n).n = 1 ∧ (matInit n).alloc = (n + 1) / 2 + 1 ∧ (matInit n).Fits ∧
    det1 (matInit n).toM1 := matInit_spec n

example : matInit 7 = ⟨5, 1, 1, 0, 0, 1⟩ := by decide

/-- mpn_hgcd_matrix_update_q (M, q, col) for a normalised q > 0 (both the qn = 1 branch with mpn_addmul_1
    and the general branch with its normalisation loop): M := M·E, E = (1 0; q 1) for col = 0 and
    (1 q; 0 1) for col = 1; hence det M = 1 is preserved and (a; b) = M·(x; y) becomes (a; b) = M'·(x'; y')
    for the pair after the quotient step; the new M->n bounds every entry, M->n ≤ old + qn + 1, and for a
    one-limb q: old ≤ M->n ≤ old + 1. -/
theorem hgcd_matrix_update_q_correct (M : HM) (q col : Nat) (hq : 0 < q) (hcol : col ≤ 1) (hf : M.Fits) (hn : 1 ≤ M.n) :
    (updateQ M q col).toM1 = mmul M.toM1 (elemQ q col) ∧ (updateQ M q col).Fits ∧
    (updateQ M q col).alloc = M.alloc ∧ (updateQ M q col).n ≤ M.n + nlimbs q + 1 ∧
    (nlimbs q = 1 → M.n ≤ (updateQ M q col).n ∧ (updateQ M q col).n ≤ M.n + 1) ∧
    (det1 M.toM1 → det1 (updateQ M q col).toM1) ∧
    (∀ x y a b, MRel M.toM1 x y a b →
      (col = 1 → q * y ≤ x → MRel (updateQ M q col).toM1 (x - q * y) y a b) ∧
      (col = 0 → q * x ≤ y → MRel (updateQ M q col).toM1 x (y - q * x) a b)) := by
  obtain ⟨e, f, al, n1, n2⟩ := updateQ_spec M q col hq hcol hf hn
  refine ⟨e, f, al, n1, n2, fun hd => by rw [e]; exact det1_mmul hd (det1_elemQ q col), fun x y a b hr => ⟨?_, ?_⟩⟩
  · intro hc hle
    rw [e, hc]
    apply mrel_comp hr
    refine ⟨by simp [elemQ], ?_, ?_⟩ <;> simp [elemQ] <;> omega
  · intro hc hle
    rw [e, hc]
    apply mrel_comp hr
    refine ⟨by simp [elemQ], ?_, ?_⟩ <;> simp [elemQ] <;> omega

-- non-vacuity: a two-limb quotient, the column that is multiplied is shorter than M->n
example : updateQ ⟨6, 2, 3, B + 1, 2, B⟩ (B + 5) 0 = ⟨6, 3, 3 + (B + 1) * (B + 5), B + 1, 2 + B * (B + 5), B⟩ := by
  decide +kernel

/-- mpn_hgcd_matrix_mul_1 (M, M1) for a matrix of limbs below 2^63 (what mpn_hgcd2 returns): M := M·M1
    exactly (no carry limb lost in mpn_hgcd_mul_matrix1_vector), and M grows by at most one limb. -/
theorem hgcd_matrix_mul_1_correct (M : HM) (m : M1) (hf : M.Fits) (hm : Msb0 m) :
    (matMul1 M m).toM1 = mmul M.toM1 m ∧ (matMul1 M m).Fits ∧ (matMul1 M m).alloc = M.alloc ∧
    M.n ≤ (matMul1 M m).n ∧ (matMul1 M m).n ≤ M.n + 1 ∧
    (det1 M.toM1 → det1 m → det1 (matMul1 M m).toM1) := by
  obtain ⟨e, f, al, n1, n2⟩ := matMul1_spec M m hf hm
  exact ⟨e, f, al, n1, n2, fun h1 h2 => by rw [e]; exact det1_mmul h1 h2⟩

example : matMul1 ⟨4, 1, B - 1, 2, 3, B - 4⟩ ⟨2 ^ 62, 2 ^ 62 - 1, 3, 3⟩ =
    ⟨4, 2, (B - 1) * 2 ^ 62 + 2 * 3, (B - 1) * (2 ^ 62 - 1) + 2 * 3, 3 * 2 ^ 62 + (B - 4) * 3, 3 * (2 ^ 62 - 1) + (B - 4) * 3⟩ := by
  decide +kernel

/-- mpn_hgcd_matrix_mul (M, M1), any MATRIX22_STRASSEN_THRESHOLD: M := M·M1 exactly; the size after the
    three conditional decrements bounds every entry and is at most M->n + M1->n + 1; determinant 1 and the
    reconstruction (a; b) = M·(x; y), (x; y) = M1·(x'; y') ⇒ (a; b) = (M·M1)·(x'; y') are preserved. -/
theorem hgcd_matrix_mul_correct (thr : Nat) (M M1 : HM) (hf : M.Fits) (hf1 : M1.Fits) :
    (matMul thr M M1).toM1 = mmul M.toM1 M1.toM1 ∧ (matMul thr M M1).Fits ∧ (matMul thr M M1).alloc = M.alloc ∧
    1 ≤ (matMul thr M M1).n ∧ (matMul thr M M1).n ≤ M.n + M1.n + 1 ∧
    (det1 M.toM1 → det1 M1.toM1 → det1 (matMul thr M M1).toM1) ∧
    (∀ x y a b x' y', MRel M.toM1 x y a b → MRel M1.toM1 x' y' x y → MRel (matMul thr M M1).toM1 x' y' a b) := by
  obtain ⟨e, f, al, n1, n2⟩ := matMul_spec thr M M1 hf hf1
  exact ⟨e, f, al, n1, n2, fun h1 h2 => by rw [e]; exact det1_mmul h1 h2,
    fun x y a b x' y' h1 h2 => by rw [e]; exact mrel_comp h1 h2⟩

example : matMul 1 ⟨9, 2, B + 3, 1, 2, 1⟩ ⟨9, 1, 5, 7, 2, 3⟩ = ⟨9, 2, (B + 3) * 5 + 2, (B + 3) * 7 + 3, 12, 17⟩ := by
  decide +kernel

/-- mpn_matrix22_mul1_inverse_vector: whenever (a; b) = M1·(x; y) with det M1 = 1 it returns exactly (x; y)
    (the two high limbs the C only ASSERTs equal do cancel), and the returned size bounds both and is n or n-1,
    n only if one of the results uses limb n-1. -/
theorem matrix22_mul1_inverse_vector_correct (m : M1) (a b n x y : Nat) (h : MRel m x y a b)
    (ha : a < B ^ n) (hb : b < B ^ n) (hn : 1 ≤ n) :
    (mul1InvVec m a b n).1 = x ∧ (mul1InvVec m a b n).2.1 = y ∧
    x < B ^ (mul1InvVec m a b n).2.2 ∧ y < B ^ (mul1InvVec m a b n).2.2 ∧
    (mul1InvVec m a b n).2.2 ≤ n ∧ n - 1 ≤ (mul1InvVec m a b n).2.2 ∧
    ((mul1InvVec m a b n).2.2 = n → B ^ (n - 1) ≤ x ∨ B ^ (n - 1) ≤ y) :=
  mul1InvVec_spec m a b n x y h ha hb hn

example : mul1InvVec ⟨3, 2, 4, 3⟩ (3 * (B + 7) + 2 * 5) (4 * (B + 7) + 3 * 5) 2 = (B + 7, 5, 2) := by decide +kernel

/-- mpn_hgcd_matrix_adjust (M, n, a, b, p): the limbs of a, b from p on hold (s; t) = M⁻¹(S; T) for the
    high parts S, T of the original numbers, and M's off-diagonal entries do not exceed s resp. t (which
    the size contract of mpn_hgcd provides).  Then the result is EXACTLY M⁻¹ applied to the complete
    original numbers B^p·S + (a mod B^p), B^p·T + (b mod B^p) — so the C's `ASSERT (cy <= ah)`,
    `ASSERT (cy <= bh)` hold —, the returned size bounds both numbers, differs from n by at most one, is
    tight when it did not shrink, and the results are at least B^p·(s - m01) resp. B^p·(t - m10). -/
theorem hgcd_matrix_adjust_correct (M : HM) (n a b p S T : Nat) (hf : M.Fits) (hpn : p + M.n ≤ n)
    (ha : a < B ^ n) (hb : b < B ^ n) (hn : 1 ≤ n)
    (hr : MRel M.toM1 (a / B ^ p) (b / B ^ p) S T) (h01 : M.e01 ≤ a / B ^ p) (h10 : M.e10 ≤ b / B ^ p) :
    MRel M.toM1 (matAdjust M n a b p).2.1 (matAdjust M n a b p).2.2 (B ^ p * S + a % B ^ p) (B ^ p * T + b % B ^ p) ∧
    (matAdjust M n a b p).2.1 < B ^ (matAdjust M n a b p).1 ∧ (matAdjust M n a b p).2.2 < B ^ (matAdjust M n a b p).1 ∧
    n - 1 ≤ (matAdjust M n a b p).1 ∧ (matAdjust M n a b p).1 ≤ n + 1 ∧
    (n ≤ (matAdjust M n a b p).1 → B ^ ((matAdjust M n a b p).1 - 1) ≤ (matAdjust M n a b p).2.1 ∨
        B ^ ((matAdjust M n a b p).1 - 1) ≤ (matAdjust M n a b p).2.2) ∧
    B ^ p * (a / B ^ p - M.e01) ≤ (matAdjust M n a b p).2.1 ∧ B ^ p * (b / B ^ p - M.e10) ≤ (matAdjust M n a b p).2.2 :=
  matAdjust_spec M n a b p S T M.n hpn hf.1 hf.2.2.2 ha hb hn hr h01 h10

-- non-vacuity: M = (3 2; 4 3), p = 1, reduced high parts (B+7; B+5), low limbs (11; B-1)
example : matAdjust ⟨3, 1, 3, 2, 4, 3⟩ 3 (B * (B + 7) + 11) (B * (B + 5) + (B - 1)) 1
    = (3, B * (B + 7) + 3 * 11 - 2 * (B - 1), B * (B + 5) + 3 * (B - 1) - 4 * 11) := by decide +kernel

/-! ## 2. mpn_hgcd_step, mpn_hgcd, mpn_hgcd_reduce -/

theorem mrel_gcd {m : M1} {x y X Y : Nat} (h : MRel m x y X Y) : Nat.gcd X Y = Nat.gcd x y :=
  stepOk_gcd (m := m) (s := ⟨X, Y, 0, 1⟩) (s' := ⟨x, y, 0 * m.u00 + 1 * m.u10, 0 * m.u01 + 1 * m.u11⟩) ⟨h.1, h.2.1, h.2.2, rfl, rfl⟩

/-- mpn_hgcd_step (n, a, b, s, M) — an mpn_hgcd2 step on the (shifted) top limbs, else mpn_gcd_subdiv_step
    with hgcd_hook (subtraction, division, "quotient one too large" correction, every `return 0`) — for
    n > s ≥ 1, a, b < B^n, entries of M within M->n limbs.  Whatever is returned, M' = M·E and
    (a; b) = E·(a'; b') for a non-negative E with det E = 1: gcd(a', b') = gcd(a, b), det M is preserved and
    the reconstruction through M stays exact (also on the `return 0` path that has already recorded a
    subtraction).  On success E ≠ I, BOTH a', b' keep more than s limbs ("never below the given size s"),
    the returned size is exact and ≤ n; on `return 0` one of a', b', |a' - b'| fits in s limbs. -/
theorem hgcd_step_correct (n a b s : Nat) (M : HM) (hf : M.Fits) (hMn : 1 ≤ M.n) (hs : s < n) (hs0 : 1 ≤ s)
    (ha : a < B ^ n) (hb : b < B ^ n) :
    ∃ E : M1, det1 E ∧ (hgcdStep n a b s M).M.toM1 = mmul M.toM1 E ∧
      MRel E (hgcdStep n a b s M).a (hgcdStep n a b s M).b a b ∧
      Nat.gcd (hgcdStep n a b s M).a (hgcdStep n a b s M).b = Nat.gcd a b ∧
      (hgcdStep n a b s M).M.Fits ∧ (hgcdStep n a b s M).M.alloc = M.alloc ∧
      ((hgcdStep n a b s M).ret ≠ 0 → NonId E ∧ B ^ s ≤ (hgcdStep n a b s M).a ∧ B ^ s ≤ (hgcdStep n a b s M).b ∧
        (hgcdStep n a b s M).a < B ^ (hgcdStep n a b s M).ret ∧ (hgcdStep n a b s M).b < B ^ (hgcdStep n a b s M).ret ∧
        (B ^ ((hgcdStep n a b s M).ret - 1) ≤ (hgcdStep n a b s M).a ∨ B ^ ((hgcdStep n a b s M).ret - 1) ≤ (hgcdStep n a b s M).b) ∧
        (hgcdStep n a b s M).ret ≤ n) ∧
      ((hgcdStep n a b s M).ret = 0 → (hgcdStep n a b s M).a < B ^ s ∨ (hgcdStep n a b s M).b < B ^ s ∨
        absDiff (hgcdStep n a b s M).a (hgcdStep n a b s M).b < B ^ s) := by
  obtain ⟨E, e1, e2, e3, e4, e5, e6⟩ := hgcdStep_spec n a b s M ⟨hf, hMn⟩ (by omega) hs hs0 ha hb
  exact ⟨E, e2.1, e1, e2, (mrel_gcd e2).symm, e3.1, e4, e5, fun h => (e6 h).2.2.1⟩

-- non-vacuity: a subtract-and-divide step (top limbs too small for hgcd2), and an hgcd2 step
example : hgcdStep 3 (B ^ 2 + 5) (3 * B ^ 2 + B + 1) 2 (matInit 3) =
    ⟨3, B ^ 2 + 5, B ^ 2 + B - 9, ⟨3, 1, 1, 0, 2, 1⟩⟩ := by decide +kernel
example : (hgcdStep 4 (B ^ 4 - 1) (B ^ 4 - B ^ 3 + 77) 2 (matInit 4)).ret = 4 := by decide +kernel

/-- PARTIAL (full statement: the same for all n; missing: operands of HGCD_REDUCE_THRESHOLD limbs or more, where
    mpn_hgcd_reduce goes through mpn_hgcd_appr and hgcd_matrix_apply — the truncation analysis of mpn_hgcd_appr
    is not proved, `wrap_exact` covers the mod B^k − 1 products; and the bound M->n < M->alloc, which needs the
    normalisation argument of mpn_hgcd_matrix_mul's comment).
    **The contract of mpn_hgcd** (comment at the top of hgcd.c, hgcd_step.c and the size analysis), for the
    model `hgcd` — the recursion with p = n/2 through mpn_hgcd_reduce, the loop of steps while n > 3n/4 + 1, the
    second recursive call with mpn_hgcd_matrix_adjust and mpn_hgcd_matrix_mul, the final loop — for ALL
    thresholds with HGCD_THRESHOLD ≥ 8 (the tuner's minimum is 30) and every MATRIX22_STRASSEN_THRESHOLD,
    n < HGCD_REDUCE_THRESHOLD, a, b < B^n with one of them using limb n-1, M initialised by
    mpn_hgcd_matrix_init.  With s = n/2 + 1:
    * always: det M = 1, (a; b) = M·(a'; b') exactly over the naturals (so gcd(a', b') = gcd(a, b) and any
      cofactor relation transported through M is exact — no matter which branch was taken), the entries fit
      M->n limbs;
    * if nn > 0 is returned: M ≠ I, a' and b' both have MORE than s limbs (≥ B^s), |a' − b'| fits in s limbs
      (< B^s), both are below B^nn with one of them using limb nn-1, nn ≤ n;
    * if 0 is returned and n ≥ 5: a, b and M are unchanged. -/
theorem mpn_hgcd_correct_partial (thr : Thr) (ns : Nat → Nat) (h8 : 8 ≤ thr.hgcd) (n a b : Nat) (hthr : n < thr.reduce)
    (ha : a < B ^ n) (hb : b < B ^ n) (ht : B ^ (n - 1) ≤ a ∨ B ^ (n - 1) ≤ b) :
    let r := hgcd thr ns n a b (matInit n)
    det1 r.M.toM1 ∧ MRel r.M.toM1 r.a r.b a b ∧ Nat.gcd r.a r.b = Nat.gcd a b ∧ r.M.Fits ∧
    (r.ret ≠ 0 → NonId r.M.toM1 ∧ B ^ (n / 2 + 1) ≤ r.a ∧ B ^ (n / 2 + 1) ≤ r.b ∧ absDiff r.a r.b < B ^ (n / 2 + 1) ∧
        r.a < B ^ r.ret ∧ r.b < B ^ r.ret ∧ (B ^ (r.ret - 1) ≤ r.a ∨ B ^ (r.ret - 1) ≤ r.b) ∧ r.ret ≤ n) ∧
    (r.ret = 0 → 5 ≤ n → r.a = a ∧ r.b = b ∧ r.M = matInit n) := by
  intro r
  obtain ⟨⟨l1, l2, _, l4, l5⟩, l6⟩ := hgcd_spec thr ns h8 n a b (matInit n) hthr (hpre_matInit n a b ha hb ht)
  refine ⟨l1.1, l1, (mrel_gcd l1).symm, l2.1, fun h => ?_, fun h h5 => (l6 h).2.2 h5⟩
  obtain ⟨k1, k2, k3, k4, k5, k6, k7⟩ := l5 h
  exact ⟨k1, k2, k3, k7, k4, k5, k6, l4⟩

-- non-vacuity: 6-limb Fibonacci-like operands below and above a (small) HGCD_THRESHOLD: same reduction, 4 limbs left
example : (hgcd ⟨8, 50, 1000, 2⟩ id 9 (3 ^ 360) (5 ^ 240) (matInit 9)).ret = 6 := by decide +kernel
example : (hgcd ⟨100, 50, 1000, 2⟩ id 9 (3 ^ 360) (5 ^ 240) (matInit 9)).ret = 6 := by decide +kernel

/-- PARTIAL in the same sense (n < HGCD_REDUCE_THRESHOLD).  mpn_hgcd_reduce (M, a, b, n, p): mpn_hgcd on the
    limbs from p on, then mpn_hgcd_matrix_adjust.  On success (a; b) = M·(a'; b') exactly, M ≠ I, a', b' ≥
    B^(p + (n-p)/2) — for p = n/2 that is more than n/2 + 1 limbs —, below B^nn, nn exact and ≤ n; when 0 is
    returned (and n - p ≥ 5) nothing was changed. -/
theorem mpn_hgcd_reduce_correct_partial (thr : Thr) (ns : Nat → Nat) (h8 : 8 ≤ thr.hgcd) (a b n p : Nat) (hpn : p < n)
    (hthr : n < thr.reduce) (ha : a < B ^ n) (hb : b < B ^ n) (ht : B ^ (n - 1) ≤ a ∨ B ^ (n - 1) ≤ b) :
    let r := hgcdReduce thr ns (matInit (n - p)) a b n p
    r.M.Fits ∧
    (r.ret ≠ 0 → MRel r.M.toM1 r.a r.b a b ∧ Nat.gcd r.a r.b = Nat.gcd a b ∧ NonId r.M.toM1 ∧
        B ^ (p + (n - p) / 2) ≤ r.a ∧ B ^ (p + (n - p) / 2) ≤ r.b ∧ r.a < B ^ r.ret ∧ r.b < B ^ r.ret ∧
        (B ^ (r.ret - 1) ≤ r.a ∨ B ^ (r.ret - 1) ≤ r.b) ∧ r.ret ≤ n) ∧
    (r.ret = 0 → 5 ≤ n - p → r.a = a ∧ r.b = b ∧ r.M = matInit (n - p)) := by
  intro r
  obtain ⟨e1, e2, _, e4, _⟩ := matInit_spec (n - p)
  obtain ⟨q1, _, q3, q4⟩ := hgcdReduce_spec thr ns h8 (matInit (n - p)) a b n p hpn hthr ⟨e1, ⟨e4, by rw [e2]⟩, ha, hb, ht⟩
  refine ⟨q1.1, fun h => ?_, q4⟩
  obtain ⟨k1, k2, k3, k4, k5, k6, k7, k8⟩ := q3 h
  exact ⟨k1, (mrel_gcd k1).symm, k2, k3, k4, k5, k6, k7, k8⟩

example : (hgcdReduce ⟨100, 50, 1000, 2⟩ id (matInit 6) (3 ^ 360) (5 ^ 240) 9 3).ret = 8 := by decide +kernel

/-! ## 3. hgcd_matrix_apply: products modulo B^modn − 1 -/

/-- The "wrap-around" computation of hgcd_matrix_apply (hgcd_reduce.c:128-186).  (1) Folding an operand of at
    most 2·modn limbs (`cy = mpn_add (ap, ap, modn, ap + modn, n - modn); MPN_INCR_U (ap, modn, cy)`) gives a
    modn-limb number congruent to it modulo B^modn − 1.  (2) For ANY representatives t, s < B^modn of two
    products X, Y modulo B^modn − 1 (whatever mpn_mulmod_bnm1 leaves, including the two representatives of 0),
    the subtraction with end-around borrow (`cy = mpn_sub_n; MPN_DECR_U (tp, modn, cy)`) returns X − Y EXACTLY
    whenever 0 < X − Y < B^modn − 1 — which holds for the entries of M⁻¹(a; b): they are positive and, by
    the size bound nn = max(un, vn) < modn stated in the C, shorter than modn limbs. -/
theorem hgcd_matrix_apply_wrap_exact (modn : Nat) (hm : 1 ≤ modn) :
    (∀ a, a < B ^ modn * B ^ modn → foldBnm1 a modn < B ^ modn ∧ foldBnm1 a modn ≡ a [MOD B ^ modn - 1]) ∧
    (∀ t s X Y x, t < B ^ modn → s < B ^ modn → t ≡ X [MOD B ^ modn - 1] → s ≡ Y [MOD B ^ modn - 1] →
      X = Y + x → 0 < x → x < B ^ modn - 1 → subBnm1 t s modn = x) :=
  ⟨fun a ha => foldBnm1_spec a modn hm ha,
   fun t s X Y x ht hs hX hY hx h0 hP => wrap_exact t s modn X Y x hm ht hs hX hY hx h0 hP⟩

-- non-vacuity: modn = 1; X = 3·(B-1) + 7 ≡ 7, Y = B ≡ 1 with representative B - 1 + 1 - (B - 1) = 1; X - Y wraps around
example : foldBnm1 (B * 5 + (B - 2)) 1 = 4 := by decide +kernel
example : subBnm1 2 (B - 3) 1 = 4 := by decide +kernel

end Mpir.C07h
