/-
  C01 (the negacyclic transforms of mpir_fft_mulmod_2expp1) — what the models of Mpir/Model/FftNeg.lean compute
  (statement-by-statement mirrors of fft/fft_negacyclic.c, ifft_negacyclic.c and of mpir_fft_naive_convolution_1 in
  fft/mulmod_2expp1.c; run against the real functions on every check).  Property theorems only; lemmas in
  MpirProofs/Lemmas/FftXNeg.lean, FftXNegConv.lean.

  A negacyclic transform of 2n = 2^(d+2) entries (n = 2^(d+1) ≥ 2) with shift w works modulo p = 2^(n·w) + 1;
  τ = `s2 (n·w)` is √2 modulo p, so θ = τ^w is a primitive 4n-th root of unity (θ^(2n) = −1).

  Theorems:
    fft_negacyclic_weighted        out[rev i] ≡ Σ_j x_j·θ^((2i+1)·j): the values at the ODD powers of θ (the weights θ^j followed by
                                   the radix-2 transform with root θ²)
    ifft_negacyclic_inverts        mpir_ifft_negacyclic ∘ mpir_fft_negacyclic = 2n
    negacyclic_convolution_chain   transform, pointwise product (normalise, mpn_mulmod_2expp1_basecase), inverse transform, division
                                   by 2n ≡ the negacyclic convolution Σ_{i+k=j} a_i·b_k − Σ_{i+k=j+2n} a_i·b_k modulo p
    naive_convolution_1_val        mpir_fft_naive_convolution_1 = the same convolution of the low limbs modulo 2^64
    negacyclic_crt                 the two residues determine the coefficient: what mulmod_2expp1.c:127-139 stores
    negacyclic_sum_is_product      Σ_j c_j·X^j ≡ (Σ a_i X^i)(Σ b_k X^k) modulo X^(2n) + 1 for the negacyclic coefficients c_j (X = 2^bits1:
                                   the modulus is B^r_limbs + 1 and the right side is i1·i2)
    recombine_corrected            … and the sign correction of :153-167 applied to the stored pair (ii[j], r[j]) gives back the coefficient
  The whole function has a value-level model (Mpir/Model/FftMulmod.lean: `fft_mulmod_2expp1`, r1 as a number modulo
  B^(r_limbs+1)) that is run against the C (op fftx_fft_mulmod_2expp1) and, through mpn_mulmod_Bexpp1, against the
  specification (op fftx_mulmod_Bexpp1_fft).  NOT proved: the composition of the theorems above into
    -- theorem fft_mulmod_2expp1_val (i1 i2 : List Nat) (depth w : Nat) (hi1 : Limbs i1) (hi2 : Limbs i2)
    --     (hl : i2.length = i1.length) (hR : i1.length = 2 * 2 ^ depth * la) (hla : 1 ≤ la) (hd : 1 ≤ depth)
    --     (hw : 2 ^ depth * w = 128 * la) :
    --   fft_mulmod_2expp1 i1 i2 depth w = canon i1.length (val i1 * val i2)
  missing: the fold of mpir_fft_combine_bits and of the corrections over the 2n − 1 coefficients (every step an addition
  modulo B^(r_limbs+1), no carry leaves a window because the limb above it is still zero), the wrap-around of the last
  coefficient (X^(2n) = B^r_limbs ≡ −1; that coefficient is never negative) and the bound |Σ c_j X^j| < B^(r_limbs+1)/2 that
  makes the signed reading of r1 exact.
-/
import MpirProofs.Lemmas.FftXRecomb
import MpirProofs.Props.C01_fftx
namespace Mpir.FftX
open Mpir Finset

private theorem toZn (nw : Nat) {a b : Int}
    (h : (Int.castRingHom (ZMod (2 ^ nw + 1))) a = (Int.castRingHom (ZMod (2 ^ nw + 1))) b) : a ≡ b [ZMOD pOf nw] :=
  (zmod_eq_iff nw a b).mp h

/-- mpir_fft_negacyclic on 2n = 2^(d+2) entries: position rev(i) holds Σ_j x_j·θ^((2i+1)·j) with θ = τ^w, τ = √2 — the
    values of the polynomial at the odd powers of the primitive 4n-th root of unity, which is what makes the pointwise
    product a NEGACYCLIC convolution (θ^((2i+1)·2n) = −1). -/
theorem fft_negacyclic_weighted (d w : Nat) (hd : 64 ∣ 2 ^ (d + 1) * w) (xs : List Int) (i : Nat) (hi : i < 2 ^ (d + 2)) :
    (fft_negacyclic (d + 1) w xs).length = 2 ^ (d + 2) ∧
    el (fft_negacyclic (d + 1) w xs) (rev (d + 2) i) ≡
      ∑ j ∈ range (2 ^ (d + 2)), el xs j * ((s2 (2 ^ (d + 1) * w) ^ w) ^ (2 * i + 1)) ^ j [ZMOD pOf (2 ^ (d + 1) * w)] := by
  refine ⟨length_fft_negacyclic d w xs, toZn _ ?_⟩
  have hp : 2 ^ (d + 2) = 2 * 2 ^ (d + 1) := by rw [pow_succ]; ring
  rw [fft_negacyclic_dft _ d w hd (zmod_two_pow _) xs _ (rev_lt _ _), rev_rev _ _ hi, map_sum, hp]
  apply sum_congr rfl; intro j _
  simp only [map_mul, map_pow, ← pow_mul]

-- non-vacuity: 4 entries modulo 2^64+1 (n = 2, w = 32): θ = 2^16, the four values at θ, θ^5, θ^3, θ^7
example : (fft_negacyclic 1 32 [1, 2, 3, 4]).map (· % pOf 64) =
    [1 + 2 * 2 ^ 16 + 3 * 2 ^ 32 + 4 * 2 ^ 48, (1 + 2 * 2 ^ 80 + 3 * 2 ^ 160 + 4 * 2 ^ 240) % pOf 64,
     (1 + 2 * 2 ^ 48 + 3 * 2 ^ 96 + 4 * 2 ^ 144) % pOf 64, (1 + 2 * 2 ^ 112 + 3 * 2 ^ 224 + 4 * 2 ^ 336) % pOf 64] := by
  decide +kernel

/-- mpir_ifft_negacyclic applied to values congruent to those of mpir_fft_negacyclic returns the 2n-fold input (inverse
    radix-2 transform, then the weights −θ^(2n−j) = θ^(−j)). -/
theorem ifft_negacyclic_inverts (d w : Nat) (hd : 64 ∣ 2 ^ (d + 1) * w) (xs ys : List Int)
    (h : ∀ k < 2 ^ (d + 2), el ys k ≡ el (fft_negacyclic (d + 1) w xs) k [ZMOD pOf (2 ^ (d + 1) * w)])
    (j : Nat) (hj : j < 2 ^ (d + 2)) :
    el (ifft_negacyclic (d + 1) w ys) j ≡ 2 ^ (d + 2) * el xs j [ZMOD pOf (2 ^ (d + 1) * w)] := by
  apply toZn
  have := ifft_negacyclic_spec (Int.castRingHom (ZMod (2 ^ (2 ^ (d + 1) * w) + 1))) d w hd (zmod_two_pow _) xs ys
    (fun k hk => (zmod_eq_iff _ _ _).mpr (h k hk)) j hj
  rw [this]; simp

-- non-vacuity: even w (n = 2, w = 32) and odd w (n = 64, w = 1: the √2 weights), 2n-fold input back
example : (ifft_negacyclic 1 32 (fft_negacyclic 1 32 [1, 2, 3, 4])).map (· % pOf 64) = [4, 8, 12, 16] := by decide +kernel
example : let x : List Int := (List.range 128).map fun i => ((i : Int) + 1) * 12345
    (ifft_negacyclic 6 1 (fft_negacyclic 6 1 x)).map (fun v => v * 2 ^ (128 - 7) % pOf 64) = x := by decide +kernel

/-- Transform both coefficient vectors (2n entries) with mpir_fft_negacyclic, multiply pointwise modulo p (normalise,
    mpn_mulmod_2expp1_basecase), transform back with mpir_ifft_negacyclic and divide by 2n = 2^(d+2)
    (mpn_div_2expmod_2expp1 by depth + 1 bits, mulmod_2expp1.c:131): entry j is congruent to the negacyclic convolution
    Σ_{i ≤ j} a_i·b_(j−i) − Σ_{j < i < 2n} a_i·b_(2n+j−i). -/
theorem negacyclic_convolution_chain (d w L : Nat) (a b : List Int) (hL : 2 ^ (d + 1) * w = 64 * L) (hw : 1 ≤ w)
    (ha : ∀ i, 2 ^ (d + 2) ≤ i → el a i = 0) (hb : ∀ i, 2 ^ (d + 2) ≤ i → el b i = 0) (j : Nat) (hj : j < 2 ^ (d + 2)) :
    el (ifft_negacyclic (d + 1) w
        ((List.range (2 ^ (d + 2))).map fun j =>
          pointwise L (64 * L) (el (fft_negacyclic (d + 1) w a) j) (el (fft_negacyclic (d + 1) w b) j))) j *
        2 ^ (2 * (64 * L) - (d + 2))
      ≡ (∑ i ∈ range (j + 1), el a i * el b (j - i)) - ∑ i ∈ Ico (j + 1) (2 ^ (d + 2)), el a i * el b (2 ^ (d + 2) + j - i)
      [ZMOD pOf (64 * L)] := by
  have hp : 2 ^ (d + 2) = 2 * 2 ^ (d + 1) := by rw [pow_succ]; ring
  rw [hp] at ha hb hj ⊢
  have := neg_conv_chain d w L a b hL hw ha hb j hj
  rw [el_negconv _ _ _ _ hj] at this
  -- the second sum: only j < i < 2n contribute
  have e : ∑ i ∈ range (2 * 2 ^ (d + 1) + j + 1), el a i * el b (2 * 2 ^ (d + 1) + j - i) =
      ∑ i ∈ Ico (j + 1) (2 * 2 ^ (d + 1)), el a i * el b (2 * 2 ^ (d + 1) + j - i) := by
    rw [← Finset.sum_subset (s₁ := Ico (j + 1) (2 * 2 ^ (d + 1))) (s₂ := range (2 * 2 ^ (d + 1) + j + 1))]
    · intro i hi; simp only [mem_Ico] at hi; simp only [mem_range]; omega
    · intro i hi hni
      simp only [mem_range] at hi; simp only [mem_Ico, not_and, not_lt] at hni
      by_cases h1 : j + 1 ≤ i
      · rw [ha i (hni h1)]; ring
      · rw [hb (2 * 2 ^ (d + 1) + j - i) (by omega)]; ring
  rw [e] at this
  exact this

-- non-vacuity: (1 + 2X + 3X² + 4X³)² modulo X⁴ + 1 = −24 − 20X − 6X² + 20X³ through 4 entries modulo 2^64+1
example : ((ifft_negacyclic 1 32 ((List.range 4).map fun j =>
      pointwise 1 64 (el (fft_negacyclic 1 32 [1, 2, 3, 4]) j) (el (fft_negacyclic 1 32 [1, 2, 3, 4]) j))).map
    fun v => v * 2 ^ (128 - 2) % pOf 64) = [pOf 64 - 24, pOf 64 - 20, pOf 64 - 6, 20] := by decide +kernel

/-- mpir_fft_naive_convolution_1 (m ≥ 1 words each): word k of the result is Σ_{i ≤ k} ii[i]·jj[k−i] − Σ_{i > k} ii[i]·jj[m+k−i]
    modulo 2^64 — the negacyclic convolution of the low limbs, the second residue of every coefficient. -/
theorem naive_convolution_1_val (ii jj : List Nat) (hm : 1 ≤ ii.length) :
    (fft_naive_convolution_1 ii jj).length = ii.length ∧
    ∀ k < ii.length, (((fft_naive_convolution_1 ii jj).getD k 0 : Nat) : ZMod B) =
      ∑ i ∈ range ii.length,
        if i ≤ k then (ii.getD i 0 : ZMod B) * (jj.getD (k - i) 0 : ZMod B)
        else - ((ii.getD i 0 : ZMod B) * (jj.getD (ii.length + k - i) 0 : ZMod B)) := by
  obtain ⟨h1, h2⟩ := naive_convolution_1_spec ii jj hm
  exact ⟨h1, fun k hk => by rw [h2 k hk]; rfl⟩

-- non-vacuity: (1 + 2X + 3X²)·(4 + 5X + 6X²) modulo X³ + 1 and 2^64: 4 − 27, 13 − 18, 28
example : fft_naive_convolution_1 [1, 2, 3] [4, 5, 6] = [B - 23, B - 5, 28] := by decide +kernel
example : fft_naive_convolution_1 [B - 1, B - 1] [B - 1, 2] = [3, B - 1] := by decide +kernel

/-- The recombination of mulmod_2expp1.c:127-139: a coefficient c with |c| < B^(L+1)/2 (L = limbs ≥ 1), its canonical
    residue v modulo B^L + 1 (0 ≤ v ≤ B^L) and τ = (c mod B − v mod B) mod B — the word `r[j] - ii[j][0]`, r[j] being the
    word convolution — satisfy: v + τ·(B^L + 1), the number the code stores in ii[j] (limbs+1 limbs) and the overflow word
    r[j], is c itself for c ≥ 0 and c + B^(L+1) + B for c < 0. -/
theorem negacyclic_crt (L : Nat) (hL : 1 ≤ L) (c v : Int) (hv0 : 0 ≤ v) (hv1 : v ≤ (B : Int) ^ L)
    (hcv : c ≡ v [ZMOD (B : Int) ^ L + 1]) (hlo : -((B : Int) ^ (L + 1)) ≤ 2 * c) (hhi : 2 * c < (B : Int) ^ (L + 1)) :
    (0 ≤ c → v + ((c % B - v % B) % B) * ((B : Int) ^ L + 1) = c) ∧
    (c < 0 → v + ((c % B - v % B) % B) * ((B : Int) ^ L + 1) = c + (B : Int) ^ (L + 1) + B) := by
  obtain ⟨h1, h2⟩ := negacyclic_crt_lemma L hL c v hv0 hv1 hcv hlo hhi
  refine ⟨h1, fun hc => ?_⟩
  rw [h2 hc, pow_succ]; ring

-- non-vacuity (L = 1): c = −5 has residue v = B − 4 modulo B + 1 and B − 5 modulo B
example : (-5 : Int) ≡ (B : Int) - 4 [ZMOD (B : Int) ^ 1 + 1] := by decide
example : ((B : Int) - 4) + (((-5 : Int) % B - ((B : Int) - 4) % B) % B) * ((B : Int) ^ 1 + 1) = -5 + (B : Int) ^ 2 + B := by
  decide

/-- The negacyclic coefficients c_j = Σ_{i ≤ j} a_i·b_(j−i) − Σ_{i > j} a_i·b_(m+j−i) of two vectors of m entries represent the product
    of the polynomials modulo X^m + 1, for every integer X: Σ_j c_j·X^j ≡ (Σ a_i X^i)·(Σ b_k X^k).  In mpir_fft_mulmod_2expp1:
    m = 2n, X = 2^bits1, X^m + 1 = B^r_limbs + 1, and the right side is i1·i2 (mpir_fft_split_bits: `split_combine_id`). -/
theorem negacyclic_sum_is_product (a b : List Int) (m : Nat) (ha : ∀ i, m ≤ i → el a i = 0) (hb : ∀ i, m ≤ i → el b i = 0)
    (X : Int) :
    ∑ j ∈ range m, ((∑ i ∈ range (j + 1), el a i * el b (j - i)) - ∑ i ∈ Ico (j + 1) m, el a i * el b (m + j - i)) * X ^ j ≡
      (∑ i ∈ range m, el a i * X ^ i) * (∑ k ∈ range m, el b k * X ^ k) [ZMOD X ^ m + 1] := by
  have h := negconv_eval_modEq a b m ha hb X
  have e : ∑ j ∈ range m, el (negconv a b m) j * X ^ j =
      ∑ j ∈ range m, ((∑ i ∈ range (j + 1), el a i * el b (j - i)) - ∑ i ∈ Ico (j + 1) m, el a i * el b (m + j - i)) * X ^ j := by
    apply sum_congr rfl; intro j hj
    have hj := mem_range.mp hj
    rw [el_negconv _ _ _ _ hj]
    congr 2
    rw [← Finset.sum_subset (s₁ := Ico (j + 1) m) (s₂ := range (m + j + 1))]
    · intro i hi; simp only [mem_Ico] at hi; simp only [mem_range]; omega
    · intro i hi hni
      simp only [mem_range] at hi; simp only [mem_Ico, not_and, not_lt] at hni
      by_cases h1 : j + 1 ≤ i
      · rw [ha i (hni h1)]; ring
      · rw [hb (m + j - i) (by omega)]; ring
  rw [e] at h; exact h

-- non-vacuity: (1 + 2X + 3X²)(4 + 5X + 6X²) ≡ −23 − 5X + 28X² modulo X³ + 1, at X = 10
example : ((-23 : Int) - 5 * 10 + 28 * 10 ^ 2 - (1 + 2 * 10 + 3 * 10 ^ 2) * (4 + 5 * 10 + 6 * 10 ^ 2)) % (10 ^ 3 + 1) = 0 := by decide

/-- One coefficient of mpir_fft_mulmod_2expp1, from the residues to the corrected contribution: let v be the canonical
    residue (limbs+1 = L+1 limbs) of a coefficient c with |c| < B^(L+1)/2 and rj = c mod B the word of the word
    convolution.  `recombine` — mulmod_2expp1.c:133-138: τ = r[j] − ii[j][0], ii[j][limbs] = τ, mpn_add_1 of τ, the saved top
    limb added with add_ssaaaa, the carries collected in r[j] — leaves (U, r) with U < B^(L+1), r ≤ 1, and the C's correction
    (:153-167: subtract B when r[j] ≠ 0; subtract B and B^(L+1) when the top limb of ii[j] is negative as a signed limb)
    gives exactly c. -/
theorem recombine_corrected (L : Nat) (hL : 1 ≤ L) (c : Int) (v : List Nat) (rj : Nat)
    (hvl : v.length = L + 1) (hvL : Limbs v)
    (hvn : Fft.top v = 0 ∨ (Fft.top v = 1 ∧ val (Fft.lo v) = 0))
    (hcv : c ≡ Fft.rval v [ZMOD (B : Int) ^ L + 1]) (hr : (rj : Int) = c % B)
    (hlo : -((B : Int) ^ (L + 1)) ≤ 2 * c) (hhi : 2 * c < (B : Int) ^ (L + 1)) :
    ((recombine L v rj).1 : Int) -
        (if (recombine L v rj).2 ≠ 0 then (B : Int)
         else if (recombine L v rj).1 / B ^ L ≥ B / 2 then (B : Int) + (B : Int) ^ (L + 1) else 0) = c ∧
    (recombine L v rj).1 < B ^ (L + 1) ∧ (recombine L v rj).2 ≤ 1 :=
  recombine_spec L hL c v rj hvl hvL hvn hcv hr hlo hhi

-- non-vacuity (L = 1): c = −5 (residue B − 4, word B − 5): overflow word set; c = −B − 7: sign bit; c = 9
example : recombine 1 [B - 4, 0] (B - 5) = (B - 5, 1) := by decide +kernel
example : recombine 1 [B - 5, 0] (B - 7) = (B ^ 2 - 7, 0) := by decide +kernel
example : recombine 1 [9, 0] 9 = (9, 0) := by decide +kernel

end Mpir.FftX
