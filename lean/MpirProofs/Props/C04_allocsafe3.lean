/-
  C04, object-layer memory safety as theorems — second continuation (same statement shape `Safe` as C04_allocsafe.lean /
  C04_allocsafe2.lean: `ok = true`, destination well formed, every other variable untouched, value-level view = the
  list-level result; plus the integer identity).  Property theorems only; helper lemmas live in
  MpirProofs/Lemmas/AllocSafeIor2.lean (mpz/ior.c, the -- and +- cases), AllocSafeBit.lean (mpz/setbit.c, clrbit.c, combit.c).

  Models: Mpir/Model/AllocSafeMpz2.lean (ior), Mpir/Model/AllocSafeMpz3.lean (everything else here).
  Tied by ops `as2_ior` (part c04_allocsafe2) and `as3_*` (harness/ops_allocsafe3.c; ALLOC SIZ value compared exactly)
  and pins on every C file mirrored.
-/
import MpirProofs.Props.C04_allocsafe2
import MpirProofs.Lemmas.AllocSafeIor2
namespace Mpir.AllocSafe
open Mpir

/-- mpz_ior (mpz/ior.c), every sign case and alias pattern.  The blocks requested are `MAX (sizes)` limbs for ++,
    `MIN (sizes)` for --, `|op2|` for +- (op2 the negative operand) — never a `+ 1`, although the -- and +- cases end with
    `cy = mpn_add_1 (res_ptr, res_ptr, res_size, 1); if (cy) res_ptr[res_size] = cy`: the carry store is inside the block
    because the decremented operand is below B^n - 1, so a result of all ones has fewer limbs than the block.  Operands
    decremented into temporary space, `op1_ptr` / `res_ptr` re-read after `_mpz_realloc`; the result is the
    two's-complement OR. -/
theorem mpz_ior_alloc_safe (s : St) (w u v : Nat) (hs : s.ok = true)
    (hw : OWF (s.h w)) (hu : OWF (s.h u)) (hv : OWF (s.h v)) :
    Safe s (mpz_ior s w u v) w (Spec.ior (view (s.h w)) (view (s.h u)) (view (s.h v))) ∧
    Mpz.toInt (view ((mpz_ior s w u v).h w)) = Int.lor (Mpz.toInt (view (s.h u))) (Mpz.toInt (view (s.h v))) := by
  have R := ior_refines s w u v hs hw hu hv
  obtain ⟨hval, hzwf⟩ := Bits.mpz_ior_spec (zOf (view (s.h u))) (zOf (view (s.h v))) (zOf_WF hu.2) (zOf_WF hv.2)
  have E : Mpz.WF (Spec.ior (view (s.h w)) (view (s.h u)) (view (s.h v))) ∧
      Mpz.toInt (Spec.ior (view (s.h w)) (view (s.h u)) (view (s.h v))) =
        (Bits.mpz_ior (zOf (view (s.h u))) (zOf (view (s.h v)))).toInt := by
    unfold Spec.ior
    exact ofZ_spec _ _ hzwf (Nat.le_trans (ior_need_le _ _ hu.2 hv.2) (Mpz.grow_alloc _ _).1)
      (Nat.le_trans hw.2.1 (Mpz.grow_alloc _ _).2)
  refine ⟨R.safe E.1, ?_⟩
  rw [R.view, E.2, hval, zOf_toInt, zOf_toInt]

-- -(B^2-1) | -(B) : both negative, MIN = 2 limbs; (B-1)&(B^2-2) + 1 = B - 1 ... into the one-limb destination (grown to 2)
example : (mpz_ior ex2 0 1 2).ok = true ∧ (mpz_ior ex2 0 1 2).ALLOC 0 = 2 ∧
    Mpz.toInt (view ((mpz_ior ex2 0 1 2).h 0)) = Int.lor (-(B : Int)) (-(B ^ 2 - 1 : Int)) := by decide
-- (B^2-1) | -(B): +- in place on op1 and on op2 (result -1: everything cancels, `res_ptr[0] = 1`)
example : (mpz_ior ex2 3 3 1).ok = true ∧ view ((mpz_ior ex2 3 3 1).h 3) = ⟨2, -1, [1]⟩ := by decide
example : (mpz_ior ex2 1 3 1).ok = true ∧ view ((mpz_ior ex2 1 3 1).h 1) = ⟨2, -1, [1]⟩ := by decide
-- 1 | -(B^2) = -(B^2 - 1): +- with op1 shorter: the top limb of |op2| - 1 = B^2 - 1 became zero (op2_size 3 → 2), its
-- high part is copied to res_ptr + 1, the low limb is ~1 & (B - 1), then `+ 1`
example : view ((mpz_ior ⟨fun i => if i = 0 then ⟨1, 0, ⟨1, [1]⟩⟩ else ⟨-3, 0, ⟨3, [0, 0, 1]⟩⟩, true⟩ 0 0 1).h 0)
    = ⟨3, -2, [B - 1, B - 1]⟩ := by decide
-- negative: op1_ptr NOT re-read after `_mpz_realloc` (ior.c:188) with res == op1, the shorter non-negative operand
example : (ior_ false ⟨fun i => if i = 0 then ⟨1, 0, ⟨1, [1]⟩⟩ else ⟨-3, 0, ⟨3, [5, 0, 1]⟩⟩, true⟩ 0 0 1).ok = false := by decide

end Mpir.AllocSafe
