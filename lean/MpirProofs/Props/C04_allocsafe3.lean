/-
  C04, object-layer memory safety as theorems — second continuation (same statement shape `Safe` as C04_allocsafe.lean /
  C04_allocsafe2.lean: `ok = true`, destination well formed, every other variable untouched, value-level view = the
  list-level result; plus the integer identity).  Property theorems only; helper lemmas live in
  MpirProofs/Lemmas/AllocSafeIor2.lean (mpz/ior.c, the -- and +- cases), AllocSafeBit.lean (mpz/setbit.c, clrbit.c, combit.c).

  Models: Mpir/Model/AllocSafeMpz2.lean (ior), Mpir/Model/AllocSafeMpz3.lean (everything else here).
  Tied by ops `as2_ior` (part c04_allocsafe2) and `as3_*` (harness/ops_allocsafe3.c; ALLOC SIZ value compared exactly)
  and pins on every C file mirrored.
-/
import MpirProofs.Props.C04_allocsafe2
import MpirProofs.Lemmas.AllocSafeIor2
import MpirProofs.Lemmas.AllocSafeBit2
import MpirProofs.Lemmas.AllocSafeCfdiv
namespace Mpir.AllocSafe
open Mpir

/-- mpz_ior (mpz/ior.c), every sign case and alias pattern.  The blocks requested are `MAX (sizes)` limbs for ++,
    `MIN (sizes)` for --, `|op2|` for +- (op2 the negative operand) — never a `+ 1`, although the -- and +- cases end with
    `cy = mpn_add_1 (res_ptr, res_ptr, res_size, 1); if (cy) res_ptr[res_size] = cy`: the carry store is inside the block
    because the decremented operand is below B^n - 1, so a result of all ones has fewer limbs than the block.  Operands
    decremented into temporary space, `op1_ptr` / `res_ptr` re-read after `_mpz_realloc`; the result is the
    two's-complement OR. -/
theorem mpz_ior_alloc_safe (s : St) (w u v : Nat) (hs : s.ok = true)
    (hw : OWF (s.h w)) (hu : OWF (s.h u)) (hv : OWF (s.h v)) :
    Safe s (mpz_ior s w u v) w (Spec.ior (view (s.h w)) (view (s.h u)) (view (s.h v))) ∧
    Mpz.toInt (view ((mpz_ior s w u v).h w)) = Int.lor (Mpz.toInt (view (s.h u))) (Mpz.toInt (view (s.h v))) := by
  have R := ior_refines s w u v hs hw hu hv
  obtain ⟨hval, hzwf⟩ := Bits.mpz_ior_spec (zOf (view (s.h u))) (zOf (view (s.h v))) (zOf_WF hu.2) (zOf_WF hv.2)
  have E : Mpz.WF (Spec.ior (view (s.h w)) (view (s.h u)) (view (s.h v))) ∧
      Mpz.toInt (Spec.ior (view (s.h w)) (view (s.h u)) (view (s.h v))) =
        (Bits.mpz_ior (zOf (view (s.h u))) (zOf (view (s.h v)))).toInt := by
    unfold Spec.ior
    exact ofZ_spec _ _ hzwf (Nat.le_trans (ior_need_le _ _ hu.2 hv.2) (Mpz.grow_alloc _ _).1)
      (Nat.le_trans hw.2.1 (Mpz.grow_alloc _ _).2)
  refine ⟨R.safe E.1, ?_⟩
  rw [R.view, E.2, hval, zOf_toInt, zOf_toInt]

-- -(B^2-1) | -(B) : both negative, MIN = 2 limbs; (B-1)&(B^2-2) + 1 = B - 1 ... into the one-limb destination (grown to 2)
example : (mpz_ior ex2 0 1 2).ok = true ∧ (mpz_ior ex2 0 1 2).ALLOC 0 = 2 ∧
    Mpz.toInt (view ((mpz_ior ex2 0 1 2).h 0)) = Int.lor (-(B : Int)) (-(B ^ 2 - 1 : Int)) := by decide
-- (B^2-1) | -(B): +- in place on op1 and on op2 (result -1: everything cancels, `res_ptr[0] = 1`)
example : (mpz_ior ex2 3 3 1).ok = true ∧ view ((mpz_ior ex2 3 3 1).h 3) = ⟨2, -1, [1]⟩ := by decide
example : (mpz_ior ex2 1 3 1).ok = true ∧ view ((mpz_ior ex2 1 3 1).h 1) = ⟨2, -1, [1]⟩ := by decide
-- 1 | -(B^2) = -(B^2 - 1): +- with op1 shorter: the top limb of |op2| - 1 = B^2 - 1 became zero (op2_size 3 → 2), its
-- high part is copied to res_ptr + 1, the low limb is ~1 & (B - 1), then `+ 1`
example : view ((mpz_ior ⟨fun i => if i = 0 then ⟨1, 0, ⟨1, [1]⟩⟩ else ⟨-3, 0, ⟨3, [0, 0, 1]⟩⟩, true⟩ 0 0 1).h 0)
    = ⟨3, -2, [B - 1, B - 1]⟩ := by decide
-- negative: op1_ptr NOT re-read after `_mpz_realloc` (ior.c:188) with res == op1, the shorter non-negative operand
example : (ior_ false ⟨fun i => if i = 0 then ⟨1, 0, ⟨1, [1]⟩⟩ else ⟨-3, 0, ⟨3, [5, 0, 1]⟩⟩, true⟩ 0 0 1).ok = false := by decide

/-! ## mpz_setbit, mpz_clrbit, mpz_combit: in place on one variable, through the pointer `dp` taken on entry -/

/-- heap for the bit examples: 0 = 7 (one limb), 1 = -(B^2) (exact block of 3), 2 = -(B^2 - 32) (exact block of 2) -/
def ex3 : St := ⟨fun i => if i = 0 then ⟨1, 0, ⟨1, [7]⟩⟩ else if i = 1 then ⟨-3, 0, ⟨3, [0, 0, 1]⟩⟩
                  else ⟨-2, 0, ⟨2, [B - 32, B - 1]⟩⟩, true⟩

/-- mpz_setbit (mpz/setbit.c), every sign, bit index and allocation: the block is replaced — and `dp` re-assigned from the
    result of `_mpz_realloc` — exactly when the result has more limbs than the block (`limb_index + 1` for a bit above a
    non-negative number; the carry-out path `dsize + 1` of the negative case is never reached for setbit); the unbounded
    loops (`zero_bound`, `mpn_decr_u`) stay inside the number because it is non-zero; `dp[dsize - 1]` is read after the
    borrow; the result is `d | 2^i` in two's complement. -/
theorem mpz_setbit_alloc_safe (s : St) (d i : Nat) (hs : s.ok = true) (hd : OWF (s.h d)) :
    Safe s (mpz_setbit s d i) d (Spec.setbit (view (s.h d)) i) ∧
    Mpz.toInt (view ((mpz_setbit s d i).h d)) = Int.lor (Mpz.toInt (view (s.h d))) ((2 : Int) ^ i) := by
  have R := setbit_refines s d i hs hd
  obtain ⟨hval, hzwf⟩ := Bits.setbit_spec (zOf (view (s.h d))) (zOf_WF hd.2) i
  have E := ofZ_spec (max (view (s.h d)).alloc (Bits.mpz_setbit (zOf (view (s.h d))) i).mag.length) _ hzwf
    (Nat.le_max_right _ _) (Nat.le_trans hd.2.1 (Nat.le_max_left _ _))
  refine ⟨R.safe E.1, ?_⟩
  show Mpz.toInt (view ((setbit true 1 s d i).h d)) = _
  rw [R.view]
  unfold Spec.setbit
  rw [E.2, hval, zOf_toInt]

-- 7 | 2^130: one limb → three, block replaced; -(B^2) | 2^5 = -(B^2 - 32): the borrow runs through two zero limbs, top limb gone
example : (mpz_setbit ex3 0 130).ok = true ∧ view ((mpz_setbit ex3 0 130).h 0) = ⟨3, 3, [7, 0, 4]⟩ := by decide
example : (mpz_setbit ex3 1 5).ok = true ∧ view ((mpz_setbit ex3 1 5).h 1) = ⟨3, -2, [B - 32, B - 1]⟩ := by decide
-- negative: `_mpz_realloc (d, limb_index + 1)` without `dp =` (stale pointer), and `_mpz_realloc (d, limb_index)` (one short)
example : (setbit false 1 ex3 0 130).ok = false := by decide
example : (setbit true 0 ex3 0 130).ok = false := by decide

/-- mpz_clrbit (mpz/clrbit.c): as mpz_setbit with the roles of the signs exchanged; here the carry-out path is live:
    clearing the lowest set bit of `-(B^k - 2^m)` carries through every limb, `dsize++`, the block is replaced when it has
    exactly k limbs and `dp[i] = 1` goes to the new block; the result is `d & ~2^i`. -/
theorem mpz_clrbit_alloc_safe (s : St) (d i : Nat) (hs : s.ok = true) (hd : OWF (s.h d)) :
    Safe s (mpz_clrbit s d i) d (Spec.clrbit (view (s.h d)) i) ∧
    Mpz.toInt (view ((mpz_clrbit s d i).h d)) = Int.land (Mpz.toInt (view (s.h d))) (Int.lnot ((2 : Int) ^ i)) := by
  have R := clrbit_refines s d i hs hd
  obtain ⟨hval, hzwf⟩ := Bits.clrbit_spec (zOf (view (s.h d))) (zOf_WF hd.2) i
  have E := ofZ_spec (max (view (s.h d)).alloc (Bits.mpz_clrbit (zOf (view (s.h d))) i).mag.length) _ hzwf
    (Nat.le_max_right _ _) (Nat.le_trans hd.2.1 (Nat.le_max_left _ _))
  refine ⟨R.safe E.1, ?_⟩
  show Mpz.toInt (view ((clrbit true 1 s d i).h d)) = _
  rw [R.view]
  unfold Spec.clrbit
  rw [E.2, hval, zOf_toInt]

-- -(B^2 - 32) & ~2^5 = -(B^2): carry out of the top limb, exact block of 2 replaced by one of 3
example : (mpz_clrbit ex3 2 5).ok = true ∧ view ((mpz_clrbit ex3 2 5).h 2) = ⟨3, -3, [0, 0, 1]⟩ := by decide
-- -(B^2) & ~2^200: the bit lies above the number, zero fill and a new top limb
example : (mpz_clrbit ex3 1 200).ok = true ∧ view ((mpz_clrbit ex3 1 200).h 1) = ⟨4, -4, [0, 0, 1, 256]⟩ := by decide
-- negative: the seeded C04_a_2 (`if (ALLOC < dsize)` tested before `dsize++`, i.e. one limb short) and the lost `dp =`
example : (clrbit true 0 ex3 2 5).ok = false := by decide
example : (clrbit false 1 ex3 2 5).ok = false := by decide

/-- mpz_combit (mpz/combit.c): `MPZ_REALLOC (d, limb_index + 1)` + zero fill when the bit lies above the number; in the
    negative "clearing" branch a SECOND `MPZ_REALLOC (d, dsize + 1)` after the fill has been written (the fill survives the
    block replacement), `dp = LIMBS (d)` re-read, the carry limb stored at `dp[dsize]` (also when it is 0);
    MPN_NORMALIZE reads only what was written; the result is `d ^ 2^i`.  (The over-long length passed to mpn_sub_1 at
    combit.c:77 is modelled with the length the inline kernel touches, see the ASSUMPTIONS of the part.) -/
theorem mpz_combit_alloc_safe (s : St) (d i : Nat) (hs : s.ok = true) (hd : OWF (s.h d)) :
    Safe s (mpz_combit s d i) d (Spec.combit (view (s.h d)) i) ∧
    Mpz.toInt (view ((mpz_combit s d i).h d)) = Int.xor (Mpz.toInt (view (s.h d))) ((2 : Int) ^ i) := by
  have R := combit_refines s d i hs hd
  obtain ⟨hval, hzwf⟩ := Bits.combit_spec (zOf (view (s.h d))) (zOf_WF hd.2) i
  have hle := combit_need_le (view (s.h d)) hd.2 i
  have h1 : 1 ≤ (view (s.h d)).alloc := hd.2.1
  have E : Mpz.WF (Spec.combit (view (s.h d)) i) ∧
      Mpz.toInt (Spec.combit (view (s.h d)) i) = (Bits.mpz_combit (zOf (view (s.h d))) i).toInt := by
    unfold Spec.combit
    dsimp only
    refine ofZ_spec _ _ hzwf hle ?_
    generalize (view (s.h d)).alloc = a at *
    split <;> split <;> omega
  refine ⟨R.safe E.1, ?_⟩
  show Mpz.toInt (view ((combit 1 s d i).h d)) = _
  rw [R.view, E.2, hval, zOf_toInt]

-- -(B^2 - 32) ^ 2^5 = -(B^2): the clearing branch, carry into dp[dsize], exact block of 2 replaced by one of 3
example : (mpz_combit ex3 2 5).ok = true ∧ view ((mpz_combit ex3 2 5).h 2) = ⟨3, -3, [0, 0, 1]⟩ := by decide
-- -(B^2) ^ 2^200 (bit above the number, set in the sign extension): extension to 4 limbs, THEN the block grows to 5
example : (mpz_combit ex3 1 200).ok = true ∧ view ((mpz_combit ex3 1 200).h 1) = ⟨5, -4, [0, 0, 1, 256]⟩ := by decide
-- 7 ^ 2^1 = 5, in place, nothing grows
example : (mpz_combit ex3 0 1).ok = true ∧ view ((mpz_combit ex3 0 1).h 0) = ⟨1, 1, [5]⟩ := by decide
-- negative: `MPZ_REALLOC (d, dsize)` without the `+ 1` — `dp[dsize] = c` is outside the block
example : (combit 0 ex3 2 5).ok = false := by decide

/-! ## mpz_cdiv_q_2exp / mpz_fdiv_q_2exp (mpz/cfdiv_q_2exp.c): mirrored (Mpir/Model/AllocSafeMpz3.lean `cfdiv_q_2exp`) and tied by
    ops `as3_cdiv_q_2exp`, `as3_fdiv_q_2exp`; NO theorem yet.  Full statement to prove (shape of mpz_tdiv_q_2exp_alloc_safe):
      `Safe s (mpz_cdiv_q_2exp s w u cnt) w (Spec ..) ∧ toInt (view ((mpz_cdiv_q_2exp s w u cnt).h w)) = ⌈toInt u / 2^cnt⌉`
    (floor for fdiv); what it has to establish: `MPZ_REALLOC (w, wsize + 1)` covers `wp[wsize] = cy` after the rounding
    `mpn_add_1`, `PTR(w)[0] = 1` of the `wsize <= 0` case needs no realloc (alloc ≥ 1), the `round` loop reads `up[0, limb_cnt)`
    before anything is stored (in place).  Proved so far (MpirProofs/Lemmas/AllocSafeCfdiv.lean): `roundTail_spec`, the rounding
    tail cfdiv_q_2exp.c:74-89 on `wsize + 1` limbs of room.  Executions of the model: -/

-- ⌈(B^2-1) / 2^64⌉ = B: the rounding carries into a new top limb; into the one-limb destination (grown 1 → 2) and in place …
example : (mpz_cdiv_q_2exp ex 0 1 64).ok = true ∧ view ((mpz_cdiv_q_2exp ex 0 1 64).h 0) = ⟨2, 2, [0, 1]⟩ := by decide
example : (mpz_cdiv_q_2exp ex 1 1 64).ok = true ∧ view ((mpz_cdiv_q_2exp ex 1 1 64).h 1) = ⟨2, 2, [0, 1]⟩ := by decide
-- … ⌊(B^2-1) / 2^64⌋ = B - 1 into the one-limb destination (the `+ 1` limb is requested whether or not it is used)
example : (mpz_fdiv_q_2exp ex 0 1 64).ok = true ∧ view ((mpz_fdiv_q_2exp ex 0 1 64).h 0) = ⟨2, 1, [B - 1]⟩ := by decide
-- ⌈1 / 2^200⌉ = 1, ⌊-(B^2) / 2^200⌋ = -1: `PTR(w)[0] = 1` without any reallocation
example : view ((mpz_cdiv_q_2exp ex 0 2 200).h 0) = ⟨1, 1, [1]⟩ ∧ view ((mpz_fdiv_q_2exp ex3 0 1 200).h 0) = ⟨1, -1, [1]⟩ := by decide
-- negative: `MPZ_REALLOC (w, wsize)` without the "+1 limb to allow for mpn_add_1 below" — `wp[wsize] = cy` is outside the block
example : (cfdiv_q_2exp 0 ex 0 1 64 1).ok = false := by decide

end Mpir.AllocSafe
