/-
  C03, mpz object layer — mpz_add, sub, add_ui, sub_ui, ui_sub, neg, abs, mul_2exp, set, swap return the
  exact signed result as a well-formed object, for all well-formed inputs and any allocation of the
  destination.  Property theorems only; helper lemmas live in MpirProofs/Lemmas/Mpz.lean.

  The theorems are about the executable model Mpir/Model/Mpz.lean (mirror of mpz/aors.h, aors_ui.h,
  ui_sub.c, neg.c, abs.c, set.c, swap.c, mul_2exp.c), which the correspondence check runs against the real
  functions on every run, in every alias mode.  The destination `w` is an arbitrary object: only its
  allocation enters (`1 ≤ w.alloc` is MPIR's invariant "never allocate zero space", mpz/realloc.c:33);
  "the destination is also an input" is the instance `w := u` (or `w := v`) of the same theorem — the
  hypotheses put no condition relating `w` to the inputs — so the aliased call returns the same value
  as the call on distinct variables (C05 for these functions, at the level of this model).
-/
import MpirProofs.Lemmas.Mpz
namespace Mpir.Mpz

/-- mpz_add: exact sum, well-formed result; any destination (in particular `w = u` or `w = v`). -/
theorem mpz_add_exact (w u v : Mpz) (hu : WF u) (hv : WF v) :
    toInt (add w u v) = toInt u + toInt v ∧ WF (add w u v) := by
  have h := aors_spec false w u v hu hv
  exact ⟨by simpa [add] using h.2, h.1⟩

-- non-vacuity: B + (-1) cancels to one limb; (B^2-1) + 1 carries into a third limb; w = u aliasing
example : add init ⟨2, 2, [0, 1]⟩ ⟨1, -1, [1]⟩ = ⟨3, 1, [B - 1]⟩ := by decide
example : add init ⟨2, 2, [B - 1, B - 1]⟩ ⟨1, 1, [1]⟩ = ⟨3, 3, [0, 0, 1]⟩ := by decide
example : toInt (add ⟨1, -1, [7]⟩ ⟨1, -1, [7]⟩ ⟨1, 1, [7]⟩) = 0 := by decide

/-- mpz_sub: exact difference, well-formed result; any destination. -/
theorem mpz_sub_exact (w u v : Mpz) (hu : WF u) (hv : WF v) :
    toInt (sub w u v) = toInt u - toInt v ∧ WF (sub w u v) := by
  have h := aors_spec true w u v hu hv
  exact ⟨by simpa [sub, Int.sub_eq_add_neg] using h.2, h.1⟩

example : sub init ⟨1, 1, [3]⟩ ⟨2, 2, [0, 1]⟩ = ⟨3, -1, [B - 3]⟩ := by decide
example : sub init ⟨2, -2, [5, 9]⟩ ⟨2, -2, [5, 9]⟩ = ⟨3, 0, []⟩ := by decide

/-- mpz_add_ui: `u + v` for a one-limb unsigned `v`. -/
theorem mpz_add_ui_exact (w u : Mpz) (v : Nat) (hu : WF u) (hv : v < B) :
    toInt (add_ui w u v) = toInt u + (v : Int) ∧ WF (add_ui w u v) := by
  have h := aors_ui_spec false w u v hu hv
  exact ⟨by simpa [add_ui] using h.2, h.1⟩

example : add_ui init ⟨1, -1, [3]⟩ 5 = ⟨2, 1, [2]⟩ := by decide
example : add_ui init ⟨2, 2, [B - 1, B - 1]⟩ 1 = ⟨3, 3, [0, 0, 1]⟩ := by decide

/-- mpz_sub_ui: `u - v` for a one-limb unsigned `v`. -/
theorem mpz_sub_ui_exact (w u : Mpz) (v : Nat) (hu : WF u) (hv : v < B) :
    toInt (sub_ui w u v) = toInt u - (v : Int) ∧ WF (sub_ui w u v) := by
  have h := aors_ui_spec true w u v hu hv
  exact ⟨by simpa [sub_ui, Int.sub_eq_add_neg] using h.2, h.1⟩

example : sub_ui init ⟨2, 2, [0, 1]⟩ 1 = ⟨3, 1, [B - 1]⟩ := by decide
example : sub_ui init ⟨1, 1, [3]⟩ 5 = ⟨2, -1, [2]⟩ := by decide

/-- mpz_ui_sub: `u - v` for a one-limb unsigned `u`. -/
theorem mpz_ui_sub_exact (w : Mpz) (u : Nat) (v : Mpz) (hw : 1 ≤ w.alloc) (hv : WF v) (hu : u < B) :
    toInt (ui_sub w u v) = (u : Int) - toInt v ∧ WF (ui_sub w u v) := by
  have h := ui_sub_spec w u v hw hv hu
  exact ⟨h.2, h.1⟩

example : ui_sub init 1 ⟨2, 2, [0, 1]⟩ = ⟨2, -1, [B - 1]⟩ := by decide
example : ui_sub init 7 ⟨1, -1, [B - 1]⟩ = ⟨2, 2, [6, 1]⟩ := by decide

/-- mpz_neg.  `same` is the C test `u == w`; when it holds the two arguments are the same object. -/
theorem mpz_neg_exact (same : Bool) (w u : Mpz) (hw : 1 ≤ w.alloc) (hu : WF u)
    (hs : same = true → w = u) :
    toInt (neg same w u) = -toInt u ∧ WF (neg same w u) := by
  have h := neg_spec same w u hw hu hs
  exact ⟨h.2, h.1⟩

example : neg false init ⟨2, 2, [4, 1]⟩ = ⟨2, -2, [4, 1]⟩ := by decide
example : neg true ⟨2, -2, [4, 1]⟩ ⟨2, -2, [4, 1]⟩ = ⟨2, 2, [4, 1]⟩ := by decide

/-- mpz_abs. -/
theorem mpz_abs_exact (same : Bool) (w u : Mpz) (hw : 1 ≤ w.alloc) (hu : WF u)
    (hs : same = true → w = u) :
    toInt (abs same w u) = ((toInt u).natAbs : Int) ∧ WF (abs same w u) := by
  have h := abs_spec same w u hw hu hs
  exact ⟨h.2, h.1⟩

example : abs false init ⟨2, -2, [4, 1]⟩ = ⟨2, 2, [4, 1]⟩ := by decide

/-- mpz_mul_2exp: `u · 2^cnt` for every bit count (limb offset + in-limb shift). -/
theorem mpz_mul_2exp_exact (w u : Mpz) (cnt : Nat) (hw : 1 ≤ w.alloc) (hu : WF u) :
    toInt (mul_2exp w u cnt) = toInt u * 2 ^ cnt ∧ WF (mul_2exp w u cnt) := by
  have h := mul_2exp_spec w u cnt hw hu
  exact ⟨h.2, h.1⟩

-- shift by 65 = one limb + one bit, the bit shifted out of the top limb makes a new limb
example : mul_2exp init ⟨1, -1, [B - 1]⟩ 65 = ⟨3, -3, [0, B - 2, 1]⟩ := by decide
example : mul_2exp init ⟨1, 1, [3]⟩ 128 = ⟨4, 3, [0, 0, 3]⟩ := by decide

/-- mpz_set. -/
theorem mpz_set_exact (w u : Mpz) (hw : 1 ≤ w.alloc) (hu : WF u) :
    toInt (set w u) = toInt u ∧ WF (set w u) := by
  have h := set_spec w u hw hu
  exact ⟨h.2, h.1⟩

example : set init ⟨5, -2, [4, 1]⟩ = ⟨2, -2, [4, 1]⟩ := by decide

/-- mpz_swap: values (and well-formedness) exchanged. -/
theorem mpz_swap_exact (u v : Mpz) (hu : WF u) (hv : WF v) :
    toInt (swap u v).1 = toInt v ∧ toInt (swap u v).2 = toInt u ∧ WF (swap u v).1 ∧ WF (swap u v).2 :=
  ⟨rfl, rfl, hv, hu⟩

example : swap ⟨1, 1, [3]⟩ ⟨2, -2, [4, 1]⟩ = (⟨2, -2, [4, 1]⟩, ⟨1, 1, [3]⟩) := by decide

/-- C05 for mpz_add / mpz_sub at the level of this model: the value does not depend on which object is
    the destination — in particular `add u u v`, `add v u v` (rop is an input) and `add w u v` agree. -/
theorem mpz_add_alias_ok (w w' u v : Mpz) (hu : WF u) (hv : WF v) :
    toInt (add w u v) = toInt (add w' u v) ∧ toInt (sub w u v) = toInt (sub w' u v) := by
  rw [(mpz_add_exact w u v hu hv).1, (mpz_add_exact w' u v hu hv).1,
    (mpz_sub_exact w u v hu hv).1, (mpz_sub_exact w' u v hu hv).1]
  exact ⟨rfl, rfl⟩

example : toInt (add ⟨2, 2, [0, 1]⟩ ⟨2, 2, [0, 1]⟩ ⟨1, -1, [1]⟩) = toInt (add init ⟨2, 2, [0, 1]⟩ ⟨1, -1, [1]⟩) := by
  decide

end Mpir.Mpz
