/-
  C03, mpz object layer — mpz_add, sub, add_ui, sub_ui, ui_sub, neg, abs, mul_2exp, set, swap return the
  exact signed result as a well-formed object, for all well-formed inputs and any allocation of the
  destination.  Property theorems only; helper lemmas live in MpirProofs/Lemmas/Mpz.lean.
-/
import MpirProofs.Lemmas.Mpz
namespace Mpir.Mpz
end Mpir.Mpz
