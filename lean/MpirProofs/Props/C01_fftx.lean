import Mpir.Model.FftX
