/-
  C01 (FFT transforms) — what the value-level models of Mpir/Model/FftX.lean (statement-by-statement mirrors of
  fft/fft_radix2.c, ifft_radix2.c, fft_trunc.c, ifft_trunc.c, fft_trunc_sqrt2.c, ifft_trunc_sqrt2.c,
  mul_trunc_sqrt2.c; run against the real functions on every check, whole coefficient array compared) compute.
  Property theorems only; lemmas in MpirProofs/Lemmas/FftX*.lean.

  A transform of 2n = 2^(d+1) coefficients with shift w works modulo p = 2^(n·w) + 1 (`pOf (2^d*w)`); the C computes
  limbs = n·w/64, so 64 ∣ n·w is its precondition wherever the modulus enters (the inverse transforms, which divide).
  `el xs i` is `ii[i]`; `rev b k` reverses the low b bits of k (`revbin_eq_rev`: it is mpir_revbin);
  `TruncOk d t`: t even, 2 ≤ t ≤ 2n;  `TruncSOk d t`: t even, 2n < t ≤ 4n.

  Theorems:
    (a) fft_radix2_bitrev_dft         out[rev i] ≡ Σ_j in[j]·(2^w)^(i·j)
    (b) ifft_fft_radix2               ifft_radix2 (fft_radix2 x) ≡ 2n·x          (+ ifft_radix2_of_transform: congruent input)
    (c) fft_trunc1_prefix, fft_trunc_prefix            first `trunc` outputs = those of the full transform (exactly)
        ifft_trunc1_recovers, ifft_trunc_recovers      the inverse statements of ifft_trunc.c
        fft_trunc_sqrt2_prefix, fft_full_sqrt2_bitrev_dft, ifft_trunc_sqrt2_recovers    the same for the √2 transforms
    (d) convolution_chain             transform, pointwise product, inverse transform, scaling ≡ the acyclic convolution
        mul_trunc_sqrt2_val           limbs → split → … → combine = the product, under `FftParams.Sound`
        mul_fft_main_nonmfa_val       … hence for the parameters mpn_mul_fft_main selects (non-MFA path)
    MFA: fft_radix2_twiddle_bitrev_dft, fft_trunc1_twiddle_prefix, mfa_passes_dft (column pass + row pass = the
         plain DFT permuted), fft_mfa_trunc_sqrt2_permuted_dft (both half matrices of the model = the plain transform, permuted)
-/
import MpirProofs.Lemmas.FftXMul
import MpirProofs.Lemmas.FftXMfaMain
import MpirProofs.Props.C01_algo
namespace Mpir.FftX
open Mpir Finset

/-- the cast into ZMod p turns congruences into equalities and back -/
private theorem toZ (nw : Nat) {a b : Int}
    (h : (Int.castRingHom (ZMod (2 ^ nw + 1))) a = (Int.castRingHom (ZMod (2 ^ nw + 1))) b) : a ≡ b [ZMOD pOf nw] :=
  (zmod_eq_iff nw a b).mp h

private theorem hu_of (nw : Nat) : (Int.castRingHom (ZMod (2 ^ nw + 1))) 2 ^ (2 * nw) = 1 := by
  rw [pow_mul' ((Int.castRingHom (ZMod (2 ^ nw + 1))) 2) 2 nw, zmod_two_pow]; norm_num

/-! ### (a) the radix-2 transform -/

/-- mpir_fft_radix2 on 2n = 2^(d+1) coefficients with shift w: the output in place rev(i) is the i-th value of the
    DFT with root 2^w (of order 2n modulo p = 2^(n·w)+1):  out[rev i] ≡ Σ_j in[j]·(2^w)^(i·j). -/
theorem fft_radix2_bitrev_dft (d w : Nat) (xs : List Int) (i : Nat) (hi : i < 2 ^ (d + 1)) :
    (fft_radix2 d w xs).length = 2 ^ (d + 1) ∧
    el (fft_radix2 d w xs) (rev (d + 1) i) ≡ ∑ j ∈ range (2 ^ (d + 1)), el xs j * (2 ^ w) ^ (i * j) [ZMOD pOf (2 ^ d * w)] := by
  refine ⟨length_fft_radix2 d w xs, toZ _ ?_⟩
  rw [fft_radix2_dft _ d w xs (zmod_two_pow _) _ (rev_lt _ _), rev_rev _ _ hi, map_sum]
  apply sum_congr rfl; intro j _
  simp only [map_mul, map_pow]

-- non-vacuity: 4 points modulo 2^64+1, root 2^32 of order 4 (a fourth root of unity: (2^32)^2 = −1)
example : fft_radix2 1 32 [1, 2, 3, 4] = [10, -2, -2 - 2 * 2 ^ 32, 2 * 2 ^ 32 - 2] := by decide +kernel
example : (el (fft_radix2 1 32 [1, 2, 3, 4]) (rev 2 1) - (1 + 2 * 2 ^ 32 + 3 * (2 ^ 32) ^ 2 + 4 * (2 ^ 32) ^ 3)) % pOf 64 = 0 := by
  decide +kernel

/-- `rev` is the bit reversal the C uses (mpir_revbin: tables for bits ≤ 4, the shift loop above) -/
theorem revbin_eq_rev (bits k : Nat) (hk : k < 2 ^ bits) : revbin k bits = rev bits k := revbin_rev bits k hk

example : revbin 6 4 = 6 ∧ revbin 1 5 = 16 ∧ revbin 11 6 = 52 := by decide

/-! ### (b) the inverse transform -/

/-- mpir_ifft_radix2 applied to values congruent to a forward transform returns the 2n-fold coefficients
    (the scaling the callers then remove with mpn_div_2expmod_2expp1). -/
theorem ifft_radix2_of_transform (d w : Nat) (hd : 64 ∣ 2 ^ d * w) (xs ys : List Int)
    (h : ∀ k < 2 ^ (d + 1), el ys k ≡ el (fft_radix2 d w xs) k [ZMOD pOf (2 ^ d * w)]) (j : Nat) (hj : j < 2 ^ (d + 1)) :
    el (ifft_radix2 d w ys) j ≡ 2 ^ (d + 1) * el xs j [ZMOD pOf (2 ^ d * w)] := by
  apply toZ
  have := ifft_radix2_spec (Int.castRingHom (ZMod (2 ^ (2 ^ d * w) + 1))) d w hd (hu_of _) xs ys
    (fun k hk => (zmod_eq_iff _ _ _).mpr (h k hk)) j hj
  rw [this]; simp

/-- `ifft_radix2 ∘ fft_radix2` is multiplication by 2n, for every depth. -/
theorem ifft_fft_radix2 (d w : Nat) (hd : 64 ∣ 2 ^ d * w) (xs : List Int) (j : Nat) (hj : j < 2 ^ (d + 1)) :
    el (ifft_radix2 d w (fft_radix2 d w xs)) j ≡ 2 ^ (d + 1) * el xs j [ZMOD pOf (2 ^ d * w)] :=
  ifft_radix2_of_transform d w hd xs _ (fun _ _ => Int.ModEq.refl _) j hj

example : (ifft_radix2 1 32 (fft_radix2 1 32 [1, 2, 3, 4])).map (· % pOf 64) = [4, 8, 12, 16] := by decide +kernel

/-! ### (c) the truncated transforms -/

/-- mpir_fft_trunc1: the first `trunc` outputs are exactly those of the full transform, for every input. -/
theorem fft_trunc1_prefix (d w trunc : Nat) (xs : List Int) (ht : TruncOk d trunc) (k : Nat) (hk : k < trunc) :
    el (fft_trunc1 d w trunc xs) k = el (fft_radix2 d w xs) k := fft_trunc1_eq d w trunc xs ht k hk

/-- mpir_fft_trunc: for inputs that are zero from `trunc` on, the first `trunc` outputs are exactly those of the
    full transform. -/
theorem fft_trunc_prefix (d w trunc : Nat) (xs : List Int) (ht : TruncOk d trunc)
    (hz : ∀ j, trunc ≤ j → el xs j = 0) (k : Nat) (hk : k < trunc) :
    el (fft_trunc d w trunc xs) k = el (fft_radix2 d w xs) k := fft_trunc_eq d w trunc xs ht hz k hk

example : TruncOk 2 6 := by unfold TruncOk; decide
example : (fft_trunc 2 16 6 [1, 2, 3, 4, 5, 6, 0, 0]).take 6 = (fft_radix2 2 16 [1, 2, 3, 4, 5, 6, 0, 0]).take 6 := by
  decide +kernel
example : fft_trunc 2 16 6 [1, 2, 3, 4, 5, 6, 0, 0] ≠ fft_radix2 2 16 [1, 2, 3, 4, 5, 6, 0, 0] := by decide +kernel

/-- mpir_ifft_trunc1 (the comment of ifft_trunc.c): given the first `trunc` values of the transform of x and, in the
    places from `trunc` on, the 2n-fold coefficients themselves, it returns the 2n-fold first `trunc` coefficients. -/
theorem ifft_trunc1_recovers (d w trunc : Nat) (ht : TruncOk d trunc) (hd : 64 ∣ 2 ^ d * w) (hw : 1 ≤ w)
    (xs ys : List Int)
    (h1 : ∀ k < trunc, el ys k ≡ el (fft_radix2 d w xs) k [ZMOD pOf (2 ^ d * w)])
    (h2 : ∀ j, trunc ≤ j → j < 2 ^ (d + 1) → el ys j ≡ 2 ^ (d + 1) * el xs j [ZMOD pOf (2 ^ d * w)])
    (j : Nat) (hj : j < trunc) :
    el (ifft_trunc1 d w trunc ys) j ≡ 2 ^ (d + 1) * el xs j [ZMOD pOf (2 ^ d * w)] := by
  apply toZ
  have := ifft_trunc1_spec (Int.castRingHom (ZMod (2 ^ (2 ^ d * w) + 1))) d w trunc ht hd hw (hu_of _) xs ys
    (fun k hk => (zmod_eq_iff _ _ _).mpr (h1 k hk))
    (fun j a b => by have := (zmod_eq_iff _ _ _).mpr (h2 j a b); rw [this]; simp) j hj
  rw [this]; simp

/-- mpir_ifft_trunc: from the first `trunc` transform values of a coefficient vector that is zero from `trunc` on it
    recovers the (2n-fold) first `trunc` coefficients — whatever the other input entries hold. -/
theorem ifft_trunc_recovers (d w trunc : Nat) (ht : TruncOk d trunc) (hd : 64 ∣ 2 ^ d * w) (hw : 1 ≤ w)
    (xs ys : List Int)
    (h1 : ∀ k < trunc, el ys k ≡ el (fft_radix2 d w xs) k [ZMOD pOf (2 ^ d * w)])
    (h0 : ∀ j, trunc ≤ j → j < 2 ^ (d + 1) → el xs j ≡ 0 [ZMOD pOf (2 ^ d * w)])
    (j : Nat) (hj : j < trunc) :
    el (ifft_trunc d w trunc ys) j ≡ 2 ^ (d + 1) * el xs j [ZMOD pOf (2 ^ d * w)] := by
  apply toZ
  have := ifft_trunc_spec (Int.castRingHom (ZMod (2 ^ (2 ^ d * w) + 1))) d w trunc ht hd hw (hu_of _) xs ys
    (fun k hk => (zmod_eq_iff _ _ _).mpr (h1 k hk))
    (fun j a b => by have := (zmod_eq_iff _ _ _).mpr (h0 j a b); rw [this]; simp) j hj
  rw [this]; simp

-- non-vacuity: 6 of 8 coefficients recovered from 6 transform values, the other two entries being garbage
example : ((ifft_trunc 2 16 6 ((fft_radix2 2 16 [1, 2, 3, 4, 5, 6, 0, 0]).take 6 ++ [77, -5])).take 6).map (· % pOf 64) =
    [8, 16, 24, 32, 40, 48] := by decide +kernel

/-- mpir_fft_trunc_sqrt2 (4n coefficients, inputs zero from `trunc` on): the first `trunc` outputs are exactly those of
    the full length-4n transform `fft_full_sqrt2` (one layer with the twiddles (√2)^(i·w), then two radix-2 transforms). -/
theorem fft_trunc_sqrt2_prefix (d w trunc : Nat) (xs : List Int) (ht : TruncSOk d trunc)
    (hz : ∀ j, trunc ≤ j → el xs j = 0) (k : Nat) (hk : k < trunc) :
    el (fft_trunc_sqrt2 d w trunc xs) k = el (fft_full_sqrt2 d w xs) k := fft_trunc_sqrt2_eq d w trunc xs ht hz k hk

/-- the full √2 transform is the DFT of length 4n with root (√2)^w in bit-reversed order, where
    √2 = 2^(nw/4)·(2^(nw/2) − 1) (`s2`; `sqrt2_sq` of the ring layer: it squares to 2). -/
theorem fft_full_sqrt2_bitrev_dft (d w : Nat) (hd : 64 ∣ 2 ^ d * w) (xs : List Int) (i : Nat) (hi : i < 2 ^ (d + 2)) :
    el (fft_full_sqrt2 d w xs) (rev (d + 2) i) ≡
      ∑ j ∈ range (2 ^ (d + 2)), el xs j * (s2 (2 ^ d * w) ^ w) ^ (i * j) [ZMOD pOf (2 ^ d * w)] := by
  apply toZ
  rw [fft_full_sqrt2_dft _ d w hd (zmod_two_pow _) xs _ (rev_lt _ _), rev_rev _ _ hi, map_sum]
  apply sum_congr rfl; intro j _
  simp only [map_mul, map_pow]

/-- mpir_ifft_trunc_sqrt2: from the first `trunc` values of the full √2 transform of a vector that is zero from
    `trunc` on, the 4n-fold first `trunc` coefficients. -/
theorem ifft_trunc_sqrt2_recovers (d w trunc : Nat) (ht : TruncSOk d trunc) (hd : 64 ∣ 2 ^ d * w) (hw : 1 ≤ w)
    (xs ys : List Int)
    (h1 : ∀ k < trunc, el ys k ≡ el (fft_full_sqrt2 d w xs) k [ZMOD pOf (2 ^ d * w)])
    (h0 : ∀ j, trunc ≤ j → j < 2 ^ (d + 2) → el xs j ≡ 0 [ZMOD pOf (2 ^ d * w)])
    (j : Nat) (hj : j < trunc) :
    el (ifft_trunc_sqrt2 d w trunc ys) j ≡ 2 ^ (d + 2) * el xs j [ZMOD pOf (2 ^ d * w)] := by
  apply toZ
  have := ifft_trunc_sqrt2_spec (Int.castRingHom (ZMod (2 ^ (2 ^ d * w) + 1))) d w trunc ht hd hw (zmod_two_pow _) xs ys
    (fun k hk => (zmod_eq_iff _ _ _).mpr (h1 k hk))
    (fun j a b => by have := (zmod_eq_iff _ _ _).mpr (h0 j a b); rw [this]; simp) j hj
  rw [this]; simp

-- non-vacuity: n = 64, w = 1 (the real √2 butterflies; 256 coefficients modulo 2^64+1), 130 of them in use
example : TruncSOk 6 130 := by unfold TruncSOk; decide
example : let x := (List.range 130).map (fun i => ((i : Int) + 1) * 12345) ++ List.replicate 126 0
    ((ifft_trunc_sqrt2 6 1 130 ((fft_trunc_sqrt2 6 1 130 x).take 130 ++ List.replicate 126 9)).take 130).map
      (fun v => v * 2 ^ (128 - 8) % pOf 64) = x.take 130 := by decide +kernel

/-! ### the matrix Fourier (MFA) variants

The models of mpir_fft_radix2_twiddle / mpir_fft_trunc1_twiddle / mpir_fft_mfa_trunc_sqrt2 and their inverses
(Model/FftX.lean) are run against the library on every check (`fftx_mfa`, `fftx_imfa`: every n1, every trunc).
Proved for the FORWARD transform: what the twiddled column transform computes; its truncated version agrees with it on the
first `trunc` outputs; the column pass followed by the row pass leaves the DFT in the permutation (row j, column t) ↦
frequency j + n2·t; and, through the strided plumbing of the model (column folds with getCol/setCol, row folds),
`fft_mfa_trunc_sqrt2_permuted_dft`: both half matrices hold the values of the plain √2 transform in that permutation.
Not proved (run only): the inverse ifft_mfa_trunc_sqrt2 (its model and ops exist), the outer/inner variants and
mpn_mul_mfa_trunc_sqrt2 as a whole. -/

/-- mpir_fft_radix2_twiddle (2n entries of a column, shift w, ws = bits of z, r = first row, c = column, rs = row step):
    position rev(i) holds the DFT value of frequency i times 2^((r + rs·i)·c·ws).  With r = 0, rs = 1 that is the
    twiddle z^(i·c) between the column and the row pass. -/
theorem fft_radix2_twiddle_bitrev_dft (d w ws r c rs : Nat) (xs : List Int) (i : Nat) (hi : i < 2 ^ (d + 1)) :
    el (fft_radix2_twiddle d w ws r c rs xs) (rev (d + 1) i) ≡
      (∑ j ∈ range (2 ^ (d + 1)), el xs j * (2 ^ w) ^ (i * j)) * 2 ^ ((r + rs * i) * c * ws) [ZMOD pOf (2 ^ d * w)] := by
  apply toZ
  rw [fft_radix2_twiddle_dft _ d w ws r c rs xs (zmod_two_pow _) _ (rev_lt _ _), rev_rev _ _ hi, map_mul, map_sum]
  congr 1
  · apply sum_congr rfl; intro j _
    simp only [map_mul, map_pow]
  · simp only [map_pow]

example : (el (fft_radix2_twiddle 1 32 4 0 3 1 [1, 2, 3, 4]) (rev 2 1) -
    (1 + 2 * 2 ^ 32 + 3 * (2 ^ 32) ^ 2 + 4 * (2 ^ 32) ^ 3) * 2 ^ (1 * 3 * 4)) % pOf 64 = 0 := by decide +kernel

/-- mpir_fft_trunc1_twiddle: the first `trunc` outputs are exactly those of mpir_fft_radix2_twiddle (the twiddled
    analogue of `fft_trunc1_prefix`; the columns of the second half matrix). -/
theorem fft_trunc1_twiddle_prefix (d w ws r c rs trunc : Nat) (xs : List Int) (ht : TruncOk d trunc) (k : Nat)
    (hk : k < trunc) :
    el (fft_trunc1_twiddle d w ws r c rs trunc xs) k = el (fft_radix2_twiddle d w ws r c rs xs) k :=
  fft_trunc1_twiddle_eq d w ws r c rs trunc xs ht k hk

example : (fft_trunc1_twiddle 2 16 2 0 3 1 6 [1, 2, 3, 4, 5, 6, 7, 8]).take 6 =
    (fft_radix2_twiddle 2 16 2 0 3 1 [1, 2, 3, 4, 5, 6, 7, 8]).take 6 := by decide +kernel
example : fft_trunc1_twiddle 2 16 2 0 3 1 6 [1, 2, 3, 4, 5, 6, 7, 8] ≠ fft_radix2_twiddle 2 16 2 0 3 1 [1, 2, 3, 4, 5, 6, 7, 8] := by
  decide +kernel

/-- column pass then row pass of the matrix Fourier transform (n1 = 2^(e1+1) columns, n2 = 2^(e2+1) rows, the model's
    mpir_fft_radix2_twiddle / mpir_fft_radix2 / revbin swaps applied to the extracted columns and rows): row j,
    column t ends up with the value that the plain mpir_fft_radix2 of the same n1·n2 coefficients leaves in position
    rev(j + n2·t) — the same DFT, in a different permutation. -/
theorem mfa_passes_dft (e1 e2 w : Nat) (xs : List Int) (j t : Nat) (hj : j < 2 ^ (e2 + 1)) (ht : t < 2 ^ (e1 + 1)) :
    el (mfaRow e1 e2 w xs j) t ≡
      el (fft_radix2 (e1 + e2 + 1) w xs) (rev (e1 + e2 + 2) (j + 2 ^ (e2 + 1) * t)) [ZMOD pOf (2 ^ (e1 + e2 + 1) * w)] :=
  toZ _ (mfa_passes _ e1 e2 w xs (zmod_two_pow _) j t hj ht)

-- non-vacuity: 16 coefficients as a 4 × 4 matrix modulo 2^64+1 (w = 8)
example : let x : List Int := [3, 1, 4, 1, 5, 9, 2, 6, 5, 3, 5, 8, 9, 7, 9, 3]
    (List.range 4).flatMap (fun j => (mfaRow 1 1 8 x j).map (· % pOf 64)) =
      (List.range 4).flatMap (fun j => (List.range 4).map fun t =>
        el (fft_radix2 3 8 x) (rev 4 (j + 4 * t)) % pOf 64) := by decide +kernel

/-- mpir_fft_mfa_trunc_sqrt2 with n1 = 2^(e1+1) columns, n2 = 2^(e2+1) rows, n = n1·n2/2 (depth e1+e2+1), trunc a multiple of
    2·n1 in (2n, 4n], inputs zero from `trunc` on.  After the four loops
    * the entry (row j, column t) of the FIRST half matrix is congruent to the value the plain transform (`fft_full_sqrt2`,
      of which `fft_trunc_sqrt2` computes the first `trunc` outputs) has in position rev(j + n2·t), for all j < n2, t < n1;
    * in the SECOND half matrix the same holds (offset 2n on both sides) for the rows j = rev s, s < (trunc − 2n)/n1 — the
      rows the C transforms ("relevant rows"); these are exactly the positions 2n + rev(j + n2·t) below `trunc`.
    The matrix Fourier transform computes the same DFT values as the plain one, in the permutation
    (row j, column t) ↦ rev(j + n2·t). -/
theorem fft_mfa_trunc_sqrt2_permuted_dft (e1 e2 w trunc : Nat) (xs : List Int)
    (hlen : xs.length = 4 * 2 ^ (e1 + e2 + 1)) (ht : TruncSOk (e1 + e2 + 1) trunc) (hdiv : 2 * 2 ^ (e1 + 1) ∣ trunc)
    (hz0 : ∀ j, trunc ≤ j → el xs j = 0) :
    (∀ j t, j < 2 ^ (e2 + 1) → t < 2 ^ (e1 + 1) →
      el (fft_mfa_trunc_sqrt2 (e1 + e2 + 1) w (2 ^ (e1 + 1)) trunc xs) (j * 2 ^ (e1 + 1) + t) ≡
        el (fft_full_sqrt2 (e1 + e2 + 1) w xs) (rev (e1 + e2 + 2) (j + 2 ^ (e2 + 1) * t))
        [ZMOD pOf (2 ^ (e1 + e2 + 1) * w)]) ∧
    (∀ s t, s < (trunc - 2 * 2 ^ (e1 + e2 + 1)) / 2 ^ (e1 + 1) → t < 2 ^ (e1 + 1) →
      el (fft_mfa_trunc_sqrt2 (e1 + e2 + 1) w (2 ^ (e1 + 1)) trunc xs)
          (2 * 2 ^ (e1 + e2 + 1) + rev (e2 + 1) s * 2 ^ (e1 + 1) + t) ≡
        el (fft_full_sqrt2 (e1 + e2 + 1) w xs)
          (2 * 2 ^ (e1 + e2 + 1) + rev (e1 + e2 + 2) (rev (e2 + 1) s + 2 ^ (e2 + 1) * t))
        [ZMOD pOf (2 ^ (e1 + e2 + 1) * w)]) := by
  have hN : 2 ^ (e1 + 1) * 2 ^ (e2 + 1) = 2 * 2 ^ (e1 + e2 + 1) := by
    rw [← pow_add, ← pow_succ']; congr 1; ring
  have hP : 2 ^ (e1 + e2 + 1 + 1) = 2 * 2 ^ (e1 + e2 + 1) := by rw [pow_succ]; ring
  refine ⟨fun j t hj htt => toZ _ (fft_mfa_first_half _ e1 e2 w trunc xs hlen ht hz0 (zmod_two_pow _) j t hj htt), ?_⟩
  intro s t hs htt
  have := fft_mfa_second_half (Int.castRingHom (ZMod (2 ^ (2 ^ (e1 + e2 + 1) * w) + 1))) e1 e2 w trunc xs hlen ht
    (truncOk_of_dvd e1 e2 trunc ht hdiv) hz0 (zmod_two_pow _) s t hs htt
  rw [hN, hP] at this
  exact toZ _ this

-- non-vacuity: depth 3 (n = 8, 32 coefficients modulo 2^64+1, w = 8), n1 = 4, n2 = 4, trunc = 24 (trunc2 = 2)
example : TruncSOk 3 24 := by unfold TruncSOk; decide
example : let x : List Int := (List.range 24).map (fun i => ((i : Int) + 3) * 1000003) ++ List.replicate 8 0
    (List.range 4).flatMap (fun j => (List.range 4).map fun t =>
        el (fft_mfa_trunc_sqrt2 3 8 4 24 x) (j * 4 + t) % pOf 64) =
      (List.range 4).flatMap (fun j => (List.range 4).map fun t =>
        el (fft_full_sqrt2 3 8 x) (rev 4 (j + 4 * t)) % pOf 64) := by decide +kernel
example : let x : List Int := (List.range 24).map (fun i => ((i : Int) + 3) * 1000003) ++ List.replicate 8 0
    (List.range 2).flatMap (fun s => (List.range 4).map fun t =>
        el (fft_mfa_trunc_sqrt2 3 8 4 24 x) (16 + rev 2 s * 4 + t) % pOf 64) =
      (List.range 2).flatMap (fun s => (List.range 4).map fun t =>
        el (fft_full_sqrt2 3 8 x) (16 + rev 4 (rev 2 s + 4 * t)) % pOf 64) := by decide +kernel

/-! ### (d) the convolution theorem as the multiplier uses it -/

/-- Transform both (zero-padded) coefficient vectors with mpir_fft_trunc_sqrt2, multiply the first `trunc` entries
    pointwise modulo p (normalise, mpn_mulmod_2expp1_basecase), transform back with mpir_ifft_trunc_sqrt2 and divide by
    4n = 2^(depth+2): every entry below `trunc` is congruent to the acyclic convolution Σ_{i+k=j} a_i·b_k,
    provided the convolution fits (j1 + j2 − 1 ≤ trunc). -/
theorem convolution_chain (depth w L trunc j1 j2 : Nat) (a b : List Int) (hL : 2 ^ depth * w = 64 * L) (hw : 1 ≤ w)
    (ht : TruncSOk depth trunc) (ha : ∀ i, j1 ≤ i → el a i = 0) (hb : ∀ k, j2 ≤ k → el b k = 0)
    (hj1 : 1 ≤ j1) (hj2 : 1 ≤ j2) (hJ : j1 + j2 ≤ trunc + 1) (j : Nat) (hj : j < trunc) :
    el (ifft_trunc_sqrt2 depth w trunc
        ((List.range (4 * 2 ^ depth)).map fun j =>
          if j < trunc then pointwise L (64 * L) (el (fft_trunc_sqrt2 depth w trunc a) j) (el (fft_trunc_sqrt2 depth w trunc b) j)
          else el (fft_trunc_sqrt2 depth w trunc a) j)) j * 2 ^ (2 * (64 * L) - (depth + 2))
      ≡ ∑ i ∈ range (j + 1), el a i * el b (j - i) [ZMOD pOf (64 * L)] := by
  have := conv_chain depth w L trunc j1 j2 a b hL hw ht ha hb hj1 hj2 hJ j hj
  rwa [el_conv _ _ _ _ (by obtain ⟨_, _, h⟩ := ht; omega)] at this

/-- mpn_mul_trunc_sqrt2 (the model: mpir_fft_split_bits, the two forward transforms, the pointwise products, the inverse
    transform, the scaling and mpir_fft_combine_bits — limb-level models for split / product / combine, value-level for
    the transforms): for parameters satisfying `FftParams.Sound` — exactly what `fft_params_sound` proves about the
    selection in mpn_mul_fft_main: 64 ∣ n·w, bits ≥ 1, j1 + j2 − 1 ≤ 4n, 2·bits + depth + 1 ≤ n·w — the result is the
    (n1+n2)-limb product. -/
theorem mul_trunc_sqrt2_val (i1 i2 : List Nat) (depth w : Nat) (hi1 : Limbs i1) (hi2 : Limbs i2)
    (hn1 : 1 ≤ i1.length) (hn2 : 1 ≤ i2.length) (hs : FftParams.Sound i1.length i2.length ⟨false, depth, w⟩) :
    (mul_trunc_sqrt2 i1 i2 depth w).length = i1.length + i2.length ∧ Limbs (mul_trunc_sqrt2 i1 i2 depth w) ∧
    val (mul_trunc_sqrt2 i1 i2 depth w) = val i1 * val i2 :=
  mul_trunc_sqrt2_spec i1 i2 depth w hi1 hi2 hn1 hn2 hs

/-- … and therefore for the parameters that mpn_mul_fft_main passes to mpn_mul_trunc_sqrt2 (depth < 11 after the
    first loop: the non-MFA path), for every admissible tuning table and all operand lengths. -/
theorem mul_fft_main_nonmfa_val (tab : List (List Int))
    (htab : ∀ d w, 6 ≤ d → d < 11 → (w = 1 ∨ w = 2) → FftParams.tabGet tab d w ≤ 4)
    (i1 i2 : List Nat) (hi1 : Limbs i1) (hi2 : Limbs i2) (hn1 : 1 ≤ i1.length) (hn2 : 1 ≤ i2.length)
    (depth w : Nat) (hc : FftParams.fftParams tab i1.length i2.length = some ⟨false, depth, w⟩) :
    val (mul_trunc_sqrt2 i1 i2 depth w) = val i1 * val i2 :=
  (mul_trunc_sqrt2_val i1 i2 depth w hi1 hi2 hn1 hn2
    (FftParams.fft_params_sound_partial tab htab _ _ hn1 hn2 _ hc)).2.2

-- non-vacuity: a 2×1-limb product through 16 coefficients modulo 2^64+1, and the parameters chosen for 1×1 limbs
example : mul_trunc_sqrt2 [0xfedcba9876543210, 0x123456789abcdef] [0xffffffffffffffff] 2 16 =
    [0x123456789abcdf0, 0xfdb97530eca86420, 0x123456789abcdef] := by decide +kernel
example : FftParams.Sound 2 1 ⟨false, 2, 16⟩ := by decide
example : FftParams.fftParams Mpir.Gen.params.FFT_TAB 1 1 = some ⟨false, 2, 32⟩ := by decide

end Mpir.FftX
