import Mpir.Model.Life
