/- C04 — no operation history corrupts an object, breaks the allocator contract or leaks.
   Theorems about the life-cycle / ledger model `Mpir/Model/Life.lean` (mpz_init, mpz_init2, mpz_realloc2,
   mpz_set, mpz_clear).  The invariant `Inv` is defined in `MpirProofs/Lemmas/Life.lean`:
     breaches = 0; every live object owns the ledger block `(blk, alloc)`, `1 ≤ alloc`,
     `limbsOf val ≤ alloc`, `blk < next`; ledger ids pairwise distinct and `< next`; distinct slots own
     distinct blocks; every ledger entry is owned by a live object (no leak). -/
import Mpir.Model.Life
import MpirProofs.Lemmas.Life
namespace Mpir.Life

/-- The initial state (`n` uninitialised slots, empty ledger) satisfies the invariant. -/
theorem inv_init (n : Nat) : Inv (init n) where
  breaches := rfl
  live := fun k o h => by rw [getObj_init] at h; cases h
  distinct := List.Pairwise.nil
  below := fun p hp => by cases hp
  owners := fun j k oj ok hj _ _ => by rw [getObj_init] at hj; cases hj
  noleak := fun p hp => by cases hp

example : Inv (init 6) := inv_init 6
example : (init 6).objs.length = 6 ∧ getObj (init 6) 3 = none := by decide

/-- Every operation preserves the invariant — including operations on slots that do not exist, on slots
that are not initialised (`realloc2`/`set`/`clear`), and double initialisation: the model ignores those. -/
theorem inv_step (s : State) (op : Op) : Inv s → Inv (step s op) := by
  intro h
  cases op with
  | init k => exact inv_step_init h k
  | init2 k bits => exact inv_step_init2 h k bits
  | realloc2 k bits => exact inv_step_realloc2 h k bits
  | set k v => exact inv_step_set h k v
  | clear k => exact inv_step_clear h k

-- non-vacuity: a step that really allocates, and one that really reallocates and truncates
example : (step (init 2) (.init2 1 200)).ledger = [(0, 4)] := by decide
example : Inv (step (step (init 2) (.init2 1 200)) (.realloc2 1 0)) :=
  inv_step _ _ (inv_step _ _ (inv_init 2))
example : (step (step (init 2) (.init2 1 200)) (.realloc2 1 0)).ledger = [(1, 1)] := by decide

/-- The invariant holds along every history (induction over the list of operations). -/
theorem inv_run {s : State} (ops : List Op) : Inv s → Inv (run s ops) := by
  intro h
  unfold run
  induction ops generalizing s with
  | nil => exact h
  | cons op ops ih => exact ih (inv_step s op h)

example : Inv (run (init 3) [.init 0, .set 0 (2 ^ 130), .init2 1 64, .realloc2 0 64, .clear 1, .clear 7, .init 9]) :=
  inv_run _ (inv_init 3)

/-- Allocator contract: along every history from the initial state no `realloc`/`free` is ever announced
with a size other than the block's current size (the ledger's), and never for an unknown block. -/
theorem no_breach (n : Nat) (ops : List Op) : (run (init n) ops).breaches = 0 :=
  (inv_run ops (inv_init n)).breaches

-- non-vacuity: the breach counter is live — a release announced with a wrong size is counted
example : (ledgerRelease (step (init 1) (.init2 0 200)) 0 3).breaches = 1 := by decide
example : (run (init 2) [.init 0, .init2 1 500, .realloc2 1 10, .clear 0, .clear 1]).breaches = 0 :=
  no_breach 2 _

/-- No leak: once every slot has been cleared the ledger holds no block, and clearing breached nothing. -/
theorem clearAll_empties_ledger {s : State} : Inv s → (clearAll s).ledger = [] ∧ (clearAll s).breaches = 0 := by
  intro h
  have hc : Inv (clearAll s) := inv_clearList h _
  refine ⟨?_, hc.breaches⟩
  cases hl : (clearAll s).ledger with
  | nil => rfl
  | cons p l =>
      obtain ⟨k, o, hk, _⟩ := hc.noleak p (by rw [hl]; exact List.mem_cons_self)
      rw [getObj_clearAll] at hk; cases hk

example : (run (init 3) [.init 0, .init2 2 300, .realloc2 2 1000]).ledger = [(2, 16), (0, 1)] := by decide
example : (clearAll (run (init 3) [.init 0, .init2 2 300, .realloc2 2 1000])).ledger = [] :=
  (clearAll_empties_ledger (inv_run _ (inv_init 3))).1

/-- `mpz_realloc2` never corrupts a value: afterwards the object has exactly `bitsToLimbs bits` limbs and
its value is unchanged when it still fits, and `0` when it does not; every other slot is untouched. -/
theorem realloc2_value (s : State) (k bits : Nat) (o : Obj) (h : getObj s k = some o) :
    (∃ o', getObj (step s (.realloc2 k bits)) k = some o' ∧
        o'.alloc = bitsToLimbs bits ∧
        o'.val = if limbsOf o.val ≤ bitsToLimbs bits then o.val else 0) ∧
    ∀ j, j ≠ k → getObj (step s (.realloc2 k bits)) j = getObj s j := by
  simp only [step, h]
  refine ⟨⟨_, by rw [getObj_reallocObj h, if_pos rfl], rfl, ?_⟩, ?_⟩
  · simp only []
    split <;> split <;> first | rfl | omega
  · intro j hj
    rw [getObj_reallocObj h, if_neg hj]

-- non-vacuity (`decide +kernel`: `natLimbs` is a well-founded recursion): a 2-limb value survives a
-- shrink to 2 limbs and is cleared, not mangled, by a shrink to 1 limb; the neighbour slot is untouched
example : (getObj (run (init 2) [.init 0, .init 1, .set 1 7, .set 0 (2 ^ 100), .realloc2 0 128]) 0).map
    (fun o => (o.alloc, o.val)) = some (2, 2 ^ 100) := by decide +kernel
example : (getObj (run (init 2) [.init 0, .init 1, .set 1 7, .set 0 (2 ^ 100), .realloc2 0 64]) 0).map
    (fun o => (o.alloc, o.val)) = some (1, 0) := by decide +kernel
example : (getObj (run (init 2) [.init 0, .init 1, .set 1 7, .set 0 (2 ^ 100), .realloc2 0 64]) 1).map
    (fun o => (o.alloc, o.val)) = some (1, 7) := by decide +kernel

/-- `mpz_set` stores exactly the value it is given, whatever the allocation history of the destination:
afterwards the value is `v` and fits the allocation; the allocation is untouched when `v` already fitted
(and is exactly `max (limbsOf v) 1` otherwise); every other slot is untouched. -/
theorem set_value (s : State) (k : Nat) (v : Int) (o : Obj) (h : getObj s k = some o) :
    (∃ o', getObj (step s (.set k v)) k = some o' ∧
        o'.val = v ∧ limbsOf v ≤ o'.alloc ∧
        (limbsOf v ≤ o.alloc → o'.alloc = o.alloc) ∧
        (o.alloc < limbsOf v → o'.alloc = limbsOf v)) ∧
    ∀ j, j ≠ k → getObj (step s (.set k v)) j = getObj s j := by
  have hk := lt_of_getObj_some h
  simp only [step, h]
  split
  · rename_i hgt
    have hk' : k < (reallocObj s k o (max (limbsOf v) 1)).objs.length := by
      have := getObj_reallocObj h (max (limbsOf v) 1) k
      rw [if_pos rfl] at this
      exact lt_of_getObj_some this
    rw [getObj_reallocObj h, if_pos rfl]
    simp only []
    refine ⟨⟨_, by rw [getObj_setObj hk', if_pos rfl], rfl, ?_, ?_, ?_⟩, ?_⟩
    · simp only []; omega
    · intro hle; omega
    · intro _; simp only []; omega
    · intro j hj
      rw [getObj_setObj hk', if_neg hj, getObj_reallocObj h, if_neg hj]
  · rename_i hle
    refine ⟨⟨_, by rw [getObj_setObj hk, if_pos rfl], rfl, ?_, ?_, ?_⟩, ?_⟩
    · simp only []; omega
    · intro _; rfl
    · intro hlt; omega
    · intro j hj
      rw [getObj_setObj hk, if_neg hj]

-- non-vacuity: growing set (1 → 2 limbs), then a smaller value keeps the larger allocation
example : (getObj (run (init 1) [.init 0, .set 0 (-(2 ^ 100))]) 0).map
    (fun o => (o.alloc, o.val)) = some (2, -(2 ^ 100)) := by decide +kernel
example : (getObj (run (init 1) [.init 0, .set 0 (-(2 ^ 100)), .set 0 5]) 0).map
    (fun o => (o.alloc, o.val)) = some (2, 5) := by decide +kernel
-- the same value is reached through a different allocation history
example : (getObj (run (init 1) [.init2 0 1000, .realloc2 0 1, .set 0 5]) 0).map
    (fun o => (o.alloc, o.val)) = some (1, 5) := by decide +kernel

end Mpir.Life
