/-
  C01 (combining loops of mpn_mul) — the way mpn_mul (/repo/mpn/generic/mul.c) COMBINES partial products gives u·v.
  Property theorems only; the lemmas are in MpirProofs/Lemmas/MulLoops.lean, the models in Mpir/Model/MulLoops.lean
  (limb level: `mul_basecase`, `add_n`, `add_1`/`incr` of Mpir/Model/Kernels.lean; run against the real mpn_mul on every
  check through the ops `mpn_mul_chunkmodel` and `mpn_mul_model`).

  (A) chunk loop, mul.c:108-137          `chunk_addback_safe`, `chunk_prefix_exact`, `mul_chunked_basecase_exact`
  (B) slide loop, mul.c:210-277          `slide_accum_exact`, `mul_slide_loop_exact`
  (C) mpn_mul over the GENERATED skeleton `mpn_mul_n_model_exact`, `mpn_mul_val_partial2`
-/
import MpirProofs.Lemmas.MulLoops

namespace Mpir.MulLoops
open Mpir Mpir.Skel Mpir.Gen Mpir.MulDispatch

/-! ### (A) the long-by-short schoolbook path -/

/-- THE `/* safe? */` OF mul.c:121 AND :137 — yes.  For EVERY chunk `c` of at least one limb, every `v` of at least
    one limb and EVERY content of the saved triangle `tp` (vn limbs), in either operand order of the
    mpn_mul_basecase call (:119/:129 and :134), `cy = mpn_add_n (prodp, prodp, tp, vn); mpn_incr_u (prodp + vn, cy)`
    stops inside the |c| + vn limbs of the chunk product (the model answers `none` otherwise), which then hold
    c·v + tp exactly.  Reason: c·v + tp ≤ (B^|c| − 1)(B^vn − 1) + B^vn − 1 = B^(|c|+vn) − B^|c|. -/
theorem chunk_addback_safe (c v tp : List Nat) (hc : Limbs c) (hv : Limbs v) (ht : Limbs tp)
    (hc1 : 1 ≤ c.length) (hv1 : 1 ≤ v.length) (htl : tp.length = v.length) :
    (∃ r, addBack (mul_basecase c v) tp = some r ∧ val r = val c * val v + val tp ∧ Limbs r ∧
      r.length = c.length + v.length) ∧
    (∃ r, addBack (mul_basecase v c) tp = some r ∧ val r = val c * val v + val tp ∧ Limbs r ∧
      r.length = c.length + v.length) :=
  ⟨addBack_chunk c v tp hc hv ht hc1 hv1 htl, addBack_chunk_swapped c v tp hc hv ht hc1 hv1 htl⟩

-- non-vacuity: the carry out of the low limb meets two all-ones limbs and ripples into the top limb
example : addBack (mul_basecase [1, 1, 1] [B - 1]) [B - 2] = some [B - 3, 0, 0, 1] := by decide
-- the model does refuse a carry that leaves the product (a product that is not a product: all ones)
example : addBack [B - 1, B - 1, B - 1] [1] = none := by decide

/-- After EVERY chunk (k = 0, 1, …, as long as more than M limbs of u are left, i.e. at every head of the loop
    mul.c:117) the limbs below `prodp` together with the saved triangle are exactly (low (k+1)·M limbs of u)·v:
    no mpn_incr_u left its chunk on the way (`chunkAfter … = some`), and nothing was lost. -/
theorem chunk_prefix_exact (M : Nat) (hM : 1 ≤ M) (u v : List Nat) (hu : Limbs u) (hv : Limbs v) (hv1 : 1 ≤ v.length)
    (k : Nat) (hk : (k + 1) * M < u.length) :
    ∃ s, chunkAfter M u v k = some s ∧ s.done.length = (k + 1) * M ∧ s.tp.length = v.length ∧
      s.up = u.drop ((k + 1) * M) ∧
      val s.done + B ^ ((k + 1) * M) * val s.tp = val (u.take ((k + 1) * M)) * val v := by
  obtain ⟨s, h1, h2, h3⟩ := chunkAfter_inv M hM u v hu hv hv1 k hk
  exact ⟨s, h1, h3, h2.tp_len, h3 ▸ h2.up_eq, h3 ▸ h2.value⟩

example : ∃ s, chunkAfter 2 [1, 2, 3, 4, 5, 6, 7] [B - 1, 9] 1 = some s ∧ s.done.length = 4 ∧ s.tp.length = 2 ∧
    s.up = [5, 6, 7] ∧ val s.done + B ^ 4 * val s.tp = val [1, 2, 3, 4] * val [B - 1, 9] :=
  chunk_prefix_exact 2 (by decide) _ _ (by decide) (by decide) (by decide) 1 (by decide)

/-- mul.c:80-138 (`vn < MUL_KARATSUBA_THRESHOLD`, `un > MUL_BASECASE_MAX_UN`): for EVERY chunk size M ≥ 1, all
    un > M (any number of chunks, any size 1 … M of the last piece, including the swapped call :134 when it is not
    longer than v), all vn ≥ 1 and ALL limb contents, the limb-level model — mpn_mul_basecase per chunk, MPN_COPY
    of the high triangle, mpn_add_n + mpn_incr_u to add it back — terminates without any mpn_incr_u leaving its
    chunk product and stores exactly the un + vn limbs of u·v.
    (The C additionally has vn < MUL_KARATSUBA_THRESHOLD ≤ M + 1, which makes tp[] large enough and the chunk the
    longer operand — `mul_dispatch_safe`; the value argument does not need it.) -/
theorem mul_chunked_basecase_exact (M : Nat) (hM : 1 ≤ M) (u v : List Nat) (hu : Limbs u) (hv : Limbs v)
    (hv1 : 1 ≤ v.length) (hun : M < u.length) :
    mulChunked M u v = some (toLimbs (u.length + v.length) (val u * val v)) := by
  obtain ⟨r, h1, h2, h3, h4⟩ := mulChunked_exact M hM u v hu hv hv1 hun
  rw [h1, eq_toLimbs_of h3 h4 h2]

-- non-vacuity: three chunks of two limbs and a last piece of one limb (the swapped call), all ones
example : mulChunked 2 [B - 1, B - 1, B - 1, B - 1, B - 1, B - 1, B - 1] [B - 1, B - 1]
    = some (toLimbs 9 (val [B - 1, B - 1, B - 1, B - 1, B - 1, B - 1, B - 1] * val [B - 1, B - 1])) :=
  mul_chunked_basecase_exact 2 (by decide) _ _ (by decide) (by decide) (by decide) (by decide)
example : mulChunked 2 [B - 1, B - 1, B - 1, B - 1, B - 1, B - 1, B - 1] [B - 1, B - 1]
    = some [1, 0, B - 1, B - 1, B - 1, B - 1, B - 1, B - 2, B - 1] := by decide
example : mulChunked 2 [1, 2] [3] = none := by decide             -- un ≤ M: not this path (mul.c:80)

/-! ### (B) the slide loop -/

/-- One accumulation of the slide loop (mul.c:235-248, and :263-273 for the last piece): in all three branches
    (l < m, l = m, l > m) the window together with the pending carry `t` (weight B^l before, B^max(l,m) after) grows by
    exactly the m-limb product added — provided `t += carry` does not wrap, i.e. t ≤ B − 2. -/
theorem slide_accum_exact (w ws : List Nat) (t : Nat) (hw : Limbs w) (hws : Limbs ws) (ht : t + 1 < B) :
    val (accum w ws t).1 + B ^ (accum w ws t).1.length * (accum w ws t).2 = val w + B ^ w.length * t + val ws ∧
    (accum w ws t).1.length = max w.length ws.length ∧ Limbs (accum w ws t).1 :=
  accum_spec w ws t hw hws ht

example : accum [B - 1, B - 1, 5] [1, 0] 1 = ([0, 0, 6], 1) := by decide          -- l > m: carry c ripples, t stays
example : accum [B - 1] [1, B - 1, B - 1] 1 = ([0, 1, 0], 1) := by decide         -- l < m: t and the carry are added at ws + l

/-- mul.c:210-277 for very unbalanced operands (reached with un > vn ≥ MUL_KARATSUBA_THRESHOLD = kt): for EVERY
    callee `mulN` that returns the exact 2n-limb product on n-limb operands, kt ≤ n ≤ vn (`MulNExact`: that is what
    mpn_mul_n is assumed to do; `mpn_mul_n_model_exact` discharges it for basecase/Karatsuba/Toom-3/Toom-4 sizes),
    all sizes and ALL limb contents, the limb-level model of the loop — mpn_mul_n on vn-limb pieces, mpn_add_n /
    mpn_add_1 into the sliding window with the bookkeeping of `l` and `t`, MPN_SRCPTR_SWAP whenever the rest of u is
    shorter than v (any number of swaps: the sizes follow a subtractive Euclidean scheme), last piece by
    mpn_mul_basecase, final `t` dropped (:276) — stores exactly the un + vn limbs of u·v.
    Proved on the way (`SlideInv`): at every loop head vn ≤ l ≤ un and w + t·B^l < B^l + B^vn, hence t ≤ 1 — the
    `t += …` of :237/:247 never wraps, no carry is ever lost, and the dropped final `t` is 0. -/
theorem mul_slide_loop_exact (kt : Nat) (hkt : 1 ≤ kt) (mulN : List Nat → List Nat → Option (List Nat))
    (u v : List Nat) (hu : Limbs u) (hv : Limbs v) (hvk : kt ≤ v.length) (huv : v.length < u.length)
    (hmul : MulNExact kt v.length mulN) :
    mulSlide kt mulN u v = some (toLimbs (u.length + v.length) (val u * val v)) := by
  obtain ⟨r, h1, h2, h3, h4⟩ := mulSlide_exact kt hkt mulN u v hu hv hvk huv hmul
  rw [h1, eq_toLimbs_of h3 h4 h2]

/-- non-vacuity of the oracle assumption: the limb-level basecase is such a callee, for all sizes -/
theorem basecase_is_MulNExact (kt N : Nat) (hkt : 1 ≤ kt) : MulNExact kt N (fun a b => some (mul_basecase a b)) := by
  intro a b ha hb hl h1 _
  obtain ⟨pv, pL, pn⟩ := mul_basecase_val a b ha hb (by omega)
  exact ⟨_, rfl, pv, pL, by omega⟩

-- 7 × 3 limbs with threshold 2: pieces of 3, 3, then a swap (1 < 3): 3 × 1 with vn = 1 < kt by the basecase
example : mulSlide 2 (fun a b => some (mul_basecase a b)) [B - 1, B - 1, B - 1, B - 1, B - 1, B - 1, B - 1] [B - 1, B - 1, B - 1]
    = some (toLimbs 10 (val [B - 1, B - 1, B - 1, B - 1, B - 1, B - 1, B - 1] * val [B - 1, B - 1, B - 1])) :=
  mul_slide_loop_exact 2 (by decide) _ _ _ (by decide) (by decide) (by decide) (by decide)
    (basecase_is_MulNExact 2 3 (by decide))
example : mulSlide 2 (fun a b => some (mul_basecase a b)) [B - 1, B - 1, B - 1, B - 1, B - 1, B - 1, B - 1] [B - 1, B - 1, B - 1]
    = some [1, 0, 0, B - 1, B - 1, B - 1, B - 1, B - 2, B - 1, B - 1] := by decide
-- a callee that is wrong in one limb makes the model wrong too (the theorem is not true "for free")
example : mulSlide 2 (fun a b => some ((mul_basecase a b).set 0 7)) [1, 2, 3, 4, 5] [6, 7]
    ≠ some (toLimbs 7 (val [1, 2, 3, 4, 5] * val [6, 7])) := by decide

/-! ### (C) composition over the generated skeleton -/

/-- mpn_mul_n (rp, a, b, n), a ≠ b, modelled over the GENERATED skeleton of mul_n.c:282-330: at every size n ≥ 1 whose
    skeleton trace makes one product call, to mpn_mul_basecase (limb-level model) or to Karatsuba / Toom-3 / Toom-4
    (value-level models, `callValue`), the model returns the exact 2n limbs.  Uses `mul_n_dispatch_safe` (the call is
    inside its callee's domain) and `mpn_mul_val_partial` (such a call returns the exact product). -/
theorem mpn_mul_n_model_exact (P : Params) (hP : Valid P) (a b : List Nat) (ha : Limbs a) (hb : Limbs b)
    (hl : a.length = b.length) (h1 : 1 ≤ a.length) (hc : coveredN P a.length = true) :
    mulNModel P a b = some (toLimbs (2 * a.length) (val a * val b)) := by
  obtain ⟨r, e1, e2, e3, e4⟩ := mulNModel_exact P hP a b ha hb hl h1 hc
  rw [e1, eq_toLimbs_of e3 e4 e2]

example : coveredN params 16 = true ∧ coveredN params 17 = true ∧ coveredN params 100 = true
    ∧ coveredN params 237 = true ∧ coveredN params 238 = false := by decide

/-- PARTIAL composition, second step (full statement: "for all un ≥ vn ≥ 1 the limbs mpn_mul stores are
    toLimbs (un+vn) (u·v)").
    Proved: for EVERY parameter record satisfying `Valid`, all operands u, v (distinct objects) with un ≥ vn ≥ 1 and
    `covered P un vn` — i.e. the trace of the GENERATED skeleton of mpn_mul for (un, vn) consists of
      * one mpn_mul_basecase call (mul.c:81), or the chunk loop of mpn_mul_basecase calls (:112-137), or
      * one call to mpn_mul_n (:73) / mpn_toom4_mul / mpn_toom53_mul / mpn_toom42_mul / mpn_toom3_mul / mpn_toom32_mul
        whose selected algorithm has a value-level model, or
      * the slide loop (:210-277) with every mpn_mul_n size it can use (MUL_KARATSUBA_THRESHOLD ≤ n ≤ vn) selecting
        basecase / Karatsuba / Toom-3 / Toom-4 —
    the model of mpn_mul (`mpnMulModel`: the combining loops at limb level, leaf products by the limb-level
    basecase, Karatsuba/Toom calls by their value-level models) returns exactly toLimbs (un+vn) (val u · val v).
    This closes the gap "chunk/slide loop accumulation" of `mpn_mul_val_partial`.
    STILL ASSUMED / not covered (the model answers `none` there, `covered` is false): mpn_toom8h_mul (mul.c:157 and
    inside mpn_mul_n for n ≥ MUL_TOOM8H_THRESHOLD), mpn_mul_fft_main (mul.c:145 and inside mpn_mul_n), the squaring
    path up == vp (mpn_sqr, :68); and, inside the covered callees, the limb-level carry/buffer bookkeeping of
    Karatsuba/Toom (their models are value level: evaluation/interpolation sequences over ℤ). -/
theorem mpn_mul_val_partial2 (P : Params) (hP : Valid P) (u v : List Nat) (hu : Limbs u) (hv : Limbs v)
    (hv1 : 1 ≤ v.length) (huv : v.length ≤ u.length) (hc : covered P u.length v.length = true) :
    mpnMulModel P u v = some (toLimbs (u.length + v.length) (val u * val v)) := by
  obtain ⟨r, e1, e2, e3, e4⟩ := mpnMulModel_exact P hP u v hu hv hv1 huv hc
  rw [e1, eq_toLimbs_of e3 e4 e2]

-- non-vacuity with the tree's own parameters: chunk loop (3 and 6 products), slide loop without and with swaps,
-- single Toom calls, balanced sizes; and the sizes that stay uncovered
example : covered params 1300 7 = true ∧ covered params 2501 16 = true ∧ covered params 501 1 = true := by decide +kernel
example : covered params 200 20 = true ∧ covered params 213 20 = true := by decide +kernel
set_option maxRecDepth 8000 in
example : covered params 1000 237 = true := by decide +kernel
example : covered params 200 60 = true ∧ covered params 200 180 = true ∧ covered params 100 100 = true
    ∧ covered params 30 5 = true := by decide
example : covered params 1000 238 = false ∧ covered params 300 300 = false ∧ covered params 4000 3000 = false := by decide +kernel
example (u v : List Nat) (hu : Limbs u) (hv : Limbs v) (h1 : u.length = 213) (h2 : v.length = 20) :
    mpnMulModel params u v = some (toLimbs 233 (val u * val v)) := by
  have := mpn_mul_val_partial2 params params_valid u v hu hv (by omega) (by omega) (by rw [h1, h2]; decide +kernel)
  rwa [h1, h2] at this

end Mpir.MulLoops
