/-
  C01 (algorithm layer, Toom-8.5 / Toom-8 squaring) — property theorems only; lemmas are in
  MpirProofs/Lemmas/{Toom8, Toom8Interp, Toom8Points, Toom8Main}.lean.

  What the theorems are about: `Mpir.Toom8.*`, the hand-written value-level model of mpn_toom8h_mul, mpn_toom8_sqr_n,
  the four evaluation helpers (+ the degree-3 one), toom_couple_handling and mpn_toom_interpolate_16pts
  (Mpir/Model/Toom8.lean), run against the real entry points on every check (ops `mpn_toom8h_mul`, `mpn_toom8_sqr_n`
  answer `!model` when the model does not produce the product; ops `toom_eval_*`, `toom_couple`, `toom_interp16`
  compare the helpers' outputs limb for limb).
-/
import MpirProofs.Lemmas.Toom8Main
import MpirProofs.Lemmas.Toom8Dispatch

namespace Mpir.Toom8
open Mpir.MulAlgo (Interp)

/-- mpn_toom_eval_pm1 / _dgr3_pm1 / _pm2 / _pm2exp / _pm2rexp, for EVERY number of blocks and ALL block values:
    the first output is x(t) (resp. t^k·x(1/t) for the `rexp` helper), the second output with the returned flag read
    as a sign is x(−t) (resp. t^k·x(−1/t)) — including the quirk of mpn_toom_eval_pm2, whose flag for odd degree is
    "odd part ≥ even part" (set also when the value is 0).  `evalH x y` is the homogeneous evaluation
    Σ x_i x^i y^(k−i). -/
theorem toom_eval_helpers_exact (xs : List Nat) (sh : Nat) :
    EvalSpec (evalPm1 xs) (evalH 1 1 (toZ xs)) (evalH (-1) 1 (toZ xs)) ∧
    (xs.length = 4 → EvalSpec (evalDgr3Pm1 xs) (evalH 1 1 (toZ xs)) (evalH (-1) 1 (toZ xs))) ∧
    EvalSpec (evalPm2 xs) (evalH 2 1 (toZ xs)) (evalH (-2) 1 (toZ xs)) ∧
    EvalSpec (evalPm2exp xs sh) (evalH (2 ^ sh) 1 (toZ xs)) (evalH (-(2 ^ sh)) 1 (toZ xs)) ∧
    (xs ≠ [] → EvalSpec (evalPm2rexp xs sh) (evalH 1 (2 ^ sh) (toZ xs)) (evalH (-1) (2 ^ sh) (toZ xs))) :=
  ⟨evalPm1_spec xs, evalDgr3Pm1_spec xs, evalPm2_spec xs, evalPm2exp_spec xs sh, evalPm2rexp_spec xs sh⟩

-- non-vacuity: x = 1 + 2t + 3t² + 50t³: x(2) = 417, x(−2) = −391 (flag set, magnitude 391); odd degree, value 0 at −2:
-- x = 2 + t + 0t² + 0t³ … the flag is set although the value is 0 (the quirk)
example : evalPm2 [1, 2, 3, 50] = ⟨417, 391, true⟩ := by decide
example : evalPm2 [2, 1, 0, 0] = ⟨4, 0, true⟩ := by decide
example : evalPm2exp [2, 1, 0, 0] 1 = ⟨4, 0, false⟩ := by decide
example : evalPm2rexp [1, 2, 3, 4, 5] 3 = ⟨4096 + 1024 + 192 + 32 + 5, 4096 - 1024 + 192 - 32 + 5, false⟩ := by decide
example : evalPm1 [1, 9, 3, 0, 2] = ⟨15, 3, true⟩ := by decide

/-- toom_couple_handling.c:37-70: from f(x) and |f(−x)| with its sign flag the routine leaves
    ((f(x) − f(−x))/2 >> ps) + W·((f(x) + f(−x))/2 >> ns). -/
theorem toom_couple_handling_val (pp np : Int) (nsign : Bool) (W : Int) (ps ns : Nat) :
    (coupleHandling pp np nsign W ps ns).val = coupleVal pp (if nsign = true then -np else np) W ps ns :=
  coupleHandling_val pp np nsign W ps ns

-- f = 1 + 2x + 3x² at ±2: f(2) = 17, f(−2) = 9: odd part 4 (>> 1 = 2), even part 13 (>> 2 = 3)
example : (coupleHandling 17 9 false 1000 1 2).val = 2 + 1000 * 3 := by decide
example : (coupleHandling 17 9 false 1000 1 2).halved = 26 := by decide

/-- mpn_toom_interpolate_16pts (toom_interpolate_16pts.c:273-445), for ALL integer coefficients c0 … c15
    (g_j = c_{2j+1} + W·c_{2j+2} are the pairs the routine finally adds at pp + (2j+1)·n), ALL W and both values of
    `half`: the C's sequence — removal of the leading and constant coefficients (`DO_mpn_sublsh_n` by 14, 28, 42,
    `DO_mpn_subrsh` by 2, 4, 6), the three sum/difference butterflies, the `submul_1`/`addmul_1` by 1028, 1300,
    1052688, 12567555, 4095, 240, 400, 1428, 112896, 15181425, 3969, 900, the shifts by 7, 13, 19, the exact divisions
    by 255·188513325, 2835·64, 255·4, 255·182712915, 42525·16, 9·16 and the three final halvings — returns c0, g0 … g6,
    c15; every division is applied to a multiple of its divisor; the three values shifted right logically are
    2·g1, 2·g2, 2·g0 (non-negative for products of non-negative operands). -/
theorem toom_interp16_exact (c0 c15 g0 g1 g2 g3 g4 g5 g6 W : Int) (half : Bool) (hh : half = false → c15 = 0) :
    let r := interp16 c0
      (68719476736 * g0 + 1073741824 * g1 + 16777216 * g2 + 262144 * g3 + 4096 * g4 + 64 * g5 + g6 + c15 / 2 ^ 6 + W * (c0 * 2 ^ 42))
      (4096 * g0 + 1024 * g1 + 256 * g2 + 64 * g3 + 16 * g4 + 4 * g5 + g6 + c15 / 2 ^ 2 + W * (c0 * 2 ^ 14))
      (16777216 * g0 + 1048576 * g1 + 65536 * g2 + 4096 * g3 + 256 * g4 + 16 * g5 + g6 + c15 / 2 ^ 4 + W * (c0 * 2 ^ 28))
      (g0 + g1 + g2 + g3 + g4 + g5 + g6 + c15 + W * c0)
      (g0 + 4 * g1 + 16 * g2 + 64 * g3 + 256 * g4 + 1024 * g5 + 4096 * g6 + 16384 * c15 + W * (c0 / 2 ^ 2))
      (g0 + 16 * g1 + 256 * g2 + 4096 * g3 + 65536 * g4 + 1048576 * g5 + 16777216 * g6 + 268435456 * c15 + W * (c0 / 2 ^ 4))
      (g0 + 64 * g1 + 4096 * g2 + 262144 * g3 + 16777216 * g4 + 1073741824 * g5 + 68719476736 * g6 + 4398046511104 * c15 + W * (c0 / 2 ^ 6))
      c15 W half
    r.coeffs = [c0, g0, g1, g2, g3, g4, g5, g6, c15] ∧ (∀ p ∈ r.divs, p.2 ∣ p.1) ∧
    (0 ≤ g0 → 0 ≤ g1 → 0 ≤ g2 → ∀ p ∈ r.shifts, 0 ≤ p.1) :=
  interp16_spec c0 c15 g0 g1 g2 g3 g4 g5 g6 W half hh

-- non-vacuity: c_i = i + 1 (i ≤ 15), W = 1000: g_j = (2j+2) + 1000·(2j+3)
example : (interp16 1 4609835332865958 36417562 324546816487 64072 78613962 270592483962 1116281604067002 16 1000 true).coeffs
    = [1, 3002, 5004, 7006, 9008, 11010, 13012, 15014, 16] := by decide
example : ∀ p ∈ (interp16 1 4609835332865958 36417562 324546816487 64072 78613962 270592483962 1116281604067002 16 1000 true).divs,
    p.2 ∣ p.1 := by decide

/-- the `BINVERT_*` constants of toom_interpolate_16pts.c:107-135 (64-bit limbs) are the inverses modulo 2^64 of the
    odd parts of the divisors. -/
theorem toom_interp16_binvert :
    BINVERT_9 * 9 % B = 1 ∧ BINVERT_255 * 255 % B = 1 ∧ BINVERT_2835 * 2835 % B = 1 ∧ BINVERT_42525 * 42525 % B = 1 ∧
    BINVERT_255x182712915 * (255 * 182712915) % B = 1 ∧ BINVERT_255x188513325 * (255 * 188513325) % B = 1 := by
  decide

/-- toom8h_mul.c:97-148: for EVERY (an, bn) in the asserted domain (an ≥ bn ≥ 86, 4·an ≤ 13·bn) the cascade's
    decomposition — including the two "recover from badly chosen splitting" repairs — satisfies the C's own ASSERTs
    0 < s ≤ n, 0 < t ≤ n, half || s + t > 3, n > 2; the degrees add up to 14 (half = 0) or 15 (half = 1); q ≥ 3;
    and the pointwise products are on n + 1 < bn limbs (A(∞)·B(∞) on s, t ≤ n limbs), so the recursion through
    TOOM8H_MUL_N_REC / TOOM8H_MUL_REC is on strictly smaller sizes. -/
theorem toom8h_split_ok (an bn : Nat) (h1 : an ≥ bn) (h2 : bn ≥ 86) (h3 : an * 4 ≤ bn * 13) : SplitOk bn (split an bn) :=
  split_ok an bn h1 h2 h3

-- every shape occurs (smallest sizes), and both repairs
example : (split 86 86, split 91 86, split 106 86, split 118 86, split 141 86)
    = (⟨11, 7, 7, 9, 9, false⟩, ⟨11, 8, 7, 3, 9, true⟩, ⟨13, 8, 6, 2, 8, false⟩, ⟨13, 9, 6, 1, 8, true⟩, ⟨15, 9, 5, 6, 11, false⟩) := by
  decide
example : (split 151 86, split 187 86, split 199 86, split 246 86, split 268 86)
    = (⟨15, 10, 5, 1, 11, true⟩, ⟨18, 10, 4, 7, 14, false⟩, ⟨18, 11, 4, 1, 14, true⟩, ⟨22, 11, 3, 4, 20, false⟩, ⟨22, 12, 3, 4, 20, true⟩) := by
  decide
example : splitPQ 117 86 10 7 = ⟨13, 8, 6, 13, 8, false⟩ ∧ splitPQ 141 88 10 7 = ⟨15, 9, 5, 6, 13, false⟩ := by decide   -- s < 1, t < 1

/-- mpn_toom8h_mul (toom8h_mul.c:66-249) — ALL shapes: for every (an, bn) in the asserted domain and ALL operand
    values, the decomposition chosen by the ratio cascade, the seven couples of evaluations with their sign flags,
    the 14 pointwise products and A(0)·B(0), A(∞)·B(∞) (callee = exact product), toom_couple_handling, the 16-point
    interpolation sequence and the recomposition give a·b; in particular no ASSERT of the decomposition fails
    (the model answers `none` when one does). -/
theorem toom8h_exact (mul : Nat → Nat → Nat) (hmul : ∀ x y, mul x y = x * y) (a an b bn : Nat)
    (h1 : an ≥ bn) (h2 : bn ≥ 86) (h3 : an * 4 ≤ bn * 13) : toom8h_mul mul a an b bn = some (a * b) :=
  toom8h_mul_eq mul hmul a an b bn h1 h2 h3

example : toom8h_mul (· * ·) (B ^ 116 - 3) 117 (B ^ 85 + 5 * B ^ 40 + 7) 86 = some ((B ^ 116 - 3) * (B ^ 85 + 5 * B ^ 40 + 7)) :=
  toom8h_exact _ (fun _ _ => rfl) _ _ _ _ (by decide) (by decide) (by decide)
example : toom8h_mul (· * ·) 5 85 7 85 = none := by decide          -- outside the domain the model refuses

/-- mpn_toom8_sqr_n (toom8_sqr_n.c:55-154): from the documented minimum MPN_TOOM8_SQR_N_MINSIZE = 58 on, for ALL
    operand values, the ASSERTs of the decomposition hold and the result is a². -/
theorem toom8_sqr_exact (sqr : Nat → Nat) (hsqr : ∀ x, sqr x = x * x) (a an : Nat) (h : an ≥ 58) :
    toom8_sqr_n sqr a an = some (a * a) := toom8_sqr_n_eq sqr hsqr a an h

/-- … and for every size at which the C's ASSERTs pass at all (`ASSERT (an >= 40)` is weaker than what the
    decomposition needs: an = 41 … 57 except 48, 56 fail `0 < s` or `s + s > 3`), the result is a². -/
theorem toom8_sqr_exact_of_asserts (sqr : Nat → Nat) (hsqr : ∀ x, sqr x = x * x) (a an r : Nat)
    (h : toom8_sqr_n sqr a an = some r) : r = a * a := toom8_sqr_n_some sqr hsqr a an r h

example : toom8_sqr_n (fun x => x * x) (B ^ 57 + 12345) 58 = some ((B ^ 57 + 12345) * (B ^ 57 + 12345)) :=
  toom8_sqr_exact _ (fun _ => rfl) _ _ (by decide)
example : toom8_sqr_n (fun x => x * x) 5 41 = none ∧ toom8_sqr_n (fun x => x * x) 5 57 = none := by decide

/-! ### composition with the GENERATED dispatch skeletons (Mpir/Gen/MulDispatch.lean, thresholds of Mpir/Gen/Params.lean) -/
open Mpir.Skel Mpir.Gen Mpir.MulDispatch in
/-- PARTIAL (full statement: "for every n ≥ 1 below MUL_FFT_FULL_THRESHOLD the 2n limbs mpn_mul_n stores are
    toLimbs (2n) (a·b)").  Proved, for EVERY parameter record satisfying `Valid` and EVERY n ≥ 1: the product call the
    generated skeleton of mpn_mul_n (mul_n.c:282-330) records is mpn_mul_basecase, mpn_mul_fft_main, or a callee
    (Karatsuba, Toom-3, Toom-4, Toom-8.5) that is called inside its size domain (`mul_n_dispatch_safe`) and whose
    value-level model returns x·y for ALL operand values — so below the FFT threshold every size has an exactness
    theorem for the algorithm selected.  This is one step of the strong induction on n: inside each callee the
    recursive products are replaced by the exact product (`mul`), which is the induction hypothesis — they are made
    on strictly fewer limbs (Toom-8.5: `toom8h_split_ok`, n + 1 < bn; Karatsuba models its own recursion).
    ASSUMED leaves / missing for the full statement: mpn_mul_basecase (assembly; limb-level C model in C01_leaves),
    the FFT, the size arguments of the recursive calls of Toom-3/4 (value-level models carry no sizes), limb-level
    carries and buffers inside the callees. -/
theorem mpn_mul_n_exact_partial (P : Params) (hP : Valid P) (n : Nat) (hn : 1 ≤ n) (e : Ev)
    (he : e ∈ products (runMulN P n)) :
    e.name = "mpn_mul_basecase" ∨ e.name = "mpn_mul_fft_main" ∨ ∀ x y, callValue8 P e x y = some (x * y) :=
  mulN_call_exact P hP n hn e he

open Mpir.Skel Mpir.Gen Mpir.MulDispatch in
/-- PARTIAL, same for mpn_sqr (mul_n.c:332-387): the recorded call is a basecase, the FFT, or mpn_kara_sqr_n /
    mpn_toom3_sqr_n / mpn_toom4_sqr_n / mpn_toom8_sqr_n inside its domain (`sqr_dispatch_safe`) with a value-level model
    returning x² for ALL x.  mpn_toom8_sqr_n has its own model; the other three squarings are represented by the model
    of the corresponding multiplication with b = a (the ops of those names are compared with exactly that on every
    check) — their squaring-specific code (toom3_mul_n.c / toom4_mul_n.c) is NOT separately mirrored.
    `h58`: the minimum the decomposition of toom8_sqr_n.c needs (true for the tree's parameters, see the example). -/
theorem mpn_sqr_exact_partial (P : Params) (hP : Valid P) (h58 : 58 ≤ P.MPN_TOOM8_SQR_N_MINSIZE) (n : Nat) (hn : 1 ≤ n) (e : Ev)
    (he : e ∈ products (runSqr P n)) :
    e.name = "mpn_mul_basecase" ∨ e.name = "mpn_sqr_basecase" ∨ e.name = "mpn_mul_fft_main" ∨
    ∀ x, callValue8 P e x x = some (x * x) :=
  sqr_call_exact P hP h58 n hn e he

-- non-vacuity with the tree's own parameters: n = 238 … 3519 select Toom-8.5, squaring 321 … select Toom-8
open Mpir.Skel Mpir.Gen Mpir.MulDispatch in
example : products (runMulN params 238) = [⟨"mpn_toom8h_mul", [.ptr 1 0, .ptr 2 0, .sz 238, .ptr 3 0, .sz 238]⟩]
    ∧ products (runSqr params 321) = [⟨"mpn_toom8_sqr_n", [.ptr 1 0, .ptr 2 0, .sz 321]⟩]
    ∧ (58 : Int) ≤ params.MPN_TOOM8_SQR_N_MINSIZE := by decide
open Mpir.Skel Mpir.Gen Mpir.MulDispatch in
example (x y : Nat) : callValue8 params ⟨"mpn_toom8h_mul", [.ptr 1 0, .ptr 2 0, .sz 238, .ptr 3 0, .sz 238]⟩ x y = some (x * y) := by
  rcases mpn_mul_n_exact_partial params params_valid 238 (by decide)
    ⟨"mpn_toom8h_mul", [.ptr 1 0, .ptr 2 0, .sz 238, .ptr 3 0, .sz 238]⟩ (by decide) with h | h | h
  · exact absurd h (by decide)
  · exact absurd h (by decide)
  · exact h x y

end Mpir.Toom8
