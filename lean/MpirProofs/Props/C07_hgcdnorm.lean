/-
  C07 — the size field M->n of the hgcd matrix.
  The C asserts `M.n <= (n - p - 1)/2` on mpn_hgcd's result (gcdext.c:296, :347; "Constructs matrix M with elements of size
  at most (n+1)/2 − 1", hgcd.c) and, in mpn_hgcd_matrix_mul, that the size field is TIGHT: some entry uses limb M->n − 1.
  Proved here (lemmas: MpirProofs/Lemmas/HgcdNorm.lean), for the models of Mpir/Model/Hgcd.lean:
    * tightness is preserved by mpn_hgcd_matrix_update_q (one-limb and multi-limb quotient with its normalisation loop),
      mpn_hgcd_matrix_mul_1, hgcd_hook, every branch of mpn_gcd_subdiv_step, mpn_hgcd_step and the loops of steps;
    * tightness + the contract of mpn_hgcd (det 1, (a; b) = M·(a'; b'), a', b' ≥ B^(n/2+1)) ⇒ M->n ≤ (n − 1)/2;
    * hence the bound holds outright for mpn_hgcd on at most HGCD_THRESHOLD limbs, and for every size it is reduced to
      tightness of the returned matrix (`HgcdNorm`), i.e. to the claim in mpn_hgcd_matrix_mul's comment that the product
      M·M1 has normalised size ≥ M->n + M1->n − 2 (NOT proved: it needs, through the whole recursion and through mpn_hgcd2,
      that a matrix ending with a power of (1 q; 0 1) leaves a < 2b — "M ends with a quotient … either q or q + 1 is correct").
-/
import MpirProofs.Lemmas.HgcdNorm
import MpirProofs.Lemmas.HgcdMulSize
import MpirProofs.Props.C07_gcdextdc
namespace Mpir.C07n
open Mpir Mpir.Gcd Mpir.Hgcd Mpir.Gcdext

/-- The size field stays tight: if some entry of M uses limb M->n − 1 (and M fits M->n limbs, det M = 1), the same holds
    after mpn_hgcd_matrix_update_q (any normalised q > 0, either column), after mpn_hgcd_matrix_mul_1 with an mpn_hgcd2
    matrix, and after a complete mpn_hgcd_step (hgcd2 branch or any branch of mpn_gcd_subdiv_step with hgcd_hook). -/
theorem hgcd_matrix_norm_preserved (M : HM) (hf : M.Fits) (hn : 1 ≤ M.n) (hd : det1 M.toM1) (hN : M.NormD) :
    (∀ q col, 0 < q → col ≤ 1 → (updateQ M q col).NormD) ∧
    (∀ m : M1, Msb0 m → det1 m → (matMul1 M m).NormD) ∧
    (∀ n a b s, 2 ≤ n → s < n → 1 ≤ s → a < B ^ n → b < B ^ n → (hgcdStep n a b s M).M.NormD) := by
  obtain ⟨p0, p1⟩ := det1_pos hd
  exact ⟨fun q col hq hc => updateQ_norm M q col hq hc hf hn p0 p1 hN,
    fun m hm hdm => matMul1_norm M m hf hm hdm hn hN,
    fun n a b s h2 hs hs0 ha hb => hgcdStep_norm n a b s M ⟨hf, hn⟩ hd h2 hs hs0 ha hb hN⟩

-- non-vacuity: the multi-limb branch where the size DROPS by one limb w.r.t. n0 + qn (top limbs zero), still tight
example : updateQ ⟨6, 2, 3, B + 1, 2, B⟩ (B + 5) 0 = ⟨6, 3, 3 + (B + 1) * (B + 5), B + 1, 2 + B * (B + 5), B⟩ ∧
    (updateQ ⟨6, 2, 3, B + 1, 2, B⟩ (B + 5) 0).NormD := by
  unfold HM.NormD; decide +kernel

/-- what remains for `HgcdMn`: the matrix returned by a successful mpn_hgcd has a tight size field -/
def HgcdNorm (thr : Thr) (ns : Nat → Nat) : Prop := HgNorm (hgcd thr ns) thr.reduce

/-- **M->n ≤ (n − 1)/2 from tightness**: for any function meeting the contract of mpn_hgcd on fewer than R limbs, if the
    returned matrix has a tight size field then `ASSERT (M.n <= (n - p - 1)/2)` holds: the entries are below
    B^(n − n/2 − 1) because det M = 1, (a; b) = M·(a'; b') and a', b' ≥ B^(n/2 + 1). -/
theorem mpn_hgcd_mn_of_norm (hg : Nat → Nat → Nat → HM → StepRes) (R : Nat) (hok : HgOk hg R) (hN : HgNorm hg R) :
    HgMn hg R := by
  intro n a b hR hpre hret
  obtain ⟨⟨hrel, _, _, hle, hsucc⟩, _⟩ := hok n a b hR hpre
  obtain ⟨_, hx, hy, hxB, _, _, _⟩ := hsucc hret
  have h3 : n / 2 + 1 < n := lt_of_lt_of_le (pow_lt_of hx hxB) hle
  exact mn_le_of_norm n a b _ hpre.2.2.1 hpre.2.2.2.1 (by omega) hrel hx hy (hN n a b hR hpre hret)

/-- **mpn_hgcd on at most HGCD_THRESHOLD limbs** (the loop of mpn_hgcd_step calls, no recursion): on success the size field
    of M is tight and M->n ≤ (n − 1)/2 — for all a, b < B^n with one of them using limb n−1, M from mpn_hgcd_matrix_init. -/
theorem mpn_hgcd_mn_base (thr : Thr) (ns : Nat → Nat) (h8 : 8 ≤ thr.hgcd) (n a b : Nat) (hle : n ≤ thr.hgcd) (hR : n < thr.reduce)
    (ha : a < B ^ n) (hb : b < B ^ n) (ht : B ^ (n - 1) ≤ a ∨ B ^ (n - 1) ≤ b) :
    let r := hgcd thr ns n a b (matInit n)
    r.M.NormD ∧ (r.ret ≠ 0 → r.M.n ≤ (n - 1) / 2) := by
  intro r
  have hpre := hpre_matInit n a b ha hb ht
  have hN := hgcd_norm_base thr ns n a b hle hpre
  refine ⟨hN, fun hret => ?_⟩
  obtain ⟨⟨hrel, _, _, hle', hsucc⟩, _⟩ := hgcd_spec thr ns h8 n a b (matInit n) hR hpre
  obtain ⟨_, hx, hy, hxB, _, _, _⟩ := hsucc hret
  have h3 : n / 2 + 1 < n := lt_of_lt_of_le (pow_lt_of hx hxB) hle'
  exact mn_le_of_norm n a b _ ha hb (by omega) hrel hx hy hN

-- non-vacuity: 9 limbs below a (small) HGCD_THRESHOLD: success, M->n = 4 = (9 − 1)/2: the bound is attained
example : (hgcd ⟨100, 50, 1000, 2⟩ id 9 (3 ^ 360) (5 ^ 240) (matInit 9)).ret = 6 ∧
    (hgcd ⟨100, 50, 1000, 2⟩ id 9 (3 ^ 360) (5 ^ 240) (matInit 9)).M.n = 4 := by decide +kernel

/-- PARTIAL (full statement: `r.ok = true` without `hN`, and without `hR`; missing: tightness of the size field through
    mpn_hgcd_matrix_mul, see the header, and mpn_hgcd above HGCD_REDUCE_THRESHOLD).
    mpn_gcdext on the divide-and-conquer range: no store leaves the (n+1)-limb cofactor buffers — the C's ASSERTs
    `M.n + un <= ualloc`, `un < ualloc`, `lehmer_un + u1n <= ualloc`, `lehmer_vn + u0n <= ualloc` — given only that the
    matrices returned by mpn_hgcd have a tight size field (the C's own ASSERT in mpn_hgcd_matrix_mul), instead of the
    ASSERT (M.n <= (n - p - 1)/2) assumed by `mpn_gcdext_dc_correct_partial`. -/
theorem mpn_gcdext_dc_ok_of_norm_partial (thr : Thr) (ns : Nat → Nat) (h8 : 8 ≤ thr.hgcd) (dcThr : Nat) (h10 : 10 ≤ dcThr)
    (U V : Nat) (hV0 : 0 < V) (hle : nlimbs V ≤ nlimbs U) (hdc : dcThr ≤ nlimbs V)
    (hR : nlimbs V - nlimbs V / 3 < thr.reduce) (hN : HgcdNorm thr ns) :
    (mpnGcdextS (hgcd thr ns) dcThr U (nlimbs U) V (nlimbs V)).ok = true := by
  have hok : HgOk (hgcd thr ns) thr.reduce := fun n a b hn hpre => hgcd_spec thr ns h8 n a b (matInit n) hn hpre
  exact (Mpir.C07dc.mpn_gcdext_dc_correct_partial thr ns h8 dcThr h10 U V hV0 hle hdc hR).2.2.2.2.2.2
    (mpn_hgcd_mn_of_norm _ _ hok hN)

example : (mpnGcdextS (hgcd ⟨8, 50, 1000, 2⟩ id) 10 (3 ^ 480) 12 (5 ^ 320) 12).ok = true := by decide +kernel

/-- **The size claim in the comment of mpn_hgcd_matrix_mul**, given balance.  M (det 1, tight size field) reconstructs from
    the state (x, y); M1 (tight) reduces the limbs of (x, y) from p on to (u, v) ≥ T with |u − v| < T (what a successful
    mpn_hgcd returns); the state is balanced w.r.t. the last factor of M: if column 0 of M dominates ("M ends with a power
    of (1 0; 1 1)") then y ≤ K·x, if column 1 dominates then x ≤ K·y, with 8K ≤ B ("either q or q + 1 is a correct
    quotient", K = 2).  Then max(M)·max(M1) ≤ 8K·max(M·M1) — "we can't have M ending with a large power and M1 starting
    with a large power of the same matrix" — and mpn_hgcd_matrix_mul's three conditional decrements leave a TIGHT size
    field: its final `ASSERT ((M->p[0][0][n] | …) > 0)` holds, i.e. normalised size ≥ M->n + M1->n − 2.
    (Not yet connected to `HgcdNorm`: the balance hypothesis has to be carried through mpn_hgcd2 and the recursion.) -/
theorem hgcd_matrix_mul_tight_of_balance (thr : Nat) (M M1 : HM) (x y u v p T K : Nat) (hf : M.Fits) (hf1 : M1.Fits)
    (hn : 1 ≤ M.n) (hn1 : 1 ≤ M1.n) (hd : det1 M.toM1) (hN : M.NormD) (hN1 : M1.NormD) (hK : 1 ≤ K) (hKB : 8 * K ≤ B)
    (hrel : MRel M1.toM1 u v (x / B ^ p) (y / B ^ p)) (hu : T ≤ u) (hv : T ≤ v) (hT : 0 < T) (hdiff : absDiff u v < T)
    (hx : B ^ p ≤ x) (hy : B ^ p ≤ y)
    (hb0 : M.e01 ≤ M.e00 ∧ M.e11 ≤ M.e10 → y ≤ K * x) (hb1 : M.e00 ≤ M.e01 ∧ M.e10 ≤ M.e11 → x ≤ K * y) :
    mxM M.toM1 * mxM M1.toM1 ≤ 8 * K * mxM (mmul M.toM1 M1.toM1) ∧ (matMul thr M M1).NormD := by
  have hc := mul_size_claim M.toM1 M1.toM1 x y u v (B ^ p) T K (pow_pos B_pos _) hK hd hrel hu hv hT hdiff hx hy hb0 hb1
  exact ⟨hc, matMul_norm thr M M1 hf hf1 hn hn1 hd hrel.1 hN hN1 (le_trans hc (Nat.mul_le_mul_right _ hKB))⟩

-- non-vacuity: M = (2 1; 1 1) (column 0 dominates), state (5, 3), M1 = (1 1; 0 1) reducing it to (2, 3), K = 1
example : MRel (⟨9, 1, 1, 1, 0, 1⟩ : HM).toM1 2 3 (5 / B ^ 0) (3 / B ^ 0) ∧ absDiff 2 3 < 2 ∧
    matMul 1 ⟨9, 1, 2, 1, 1, 1⟩ ⟨9, 1, 1, 1, 0, 1⟩ = ⟨9, 1, 2, 3, 1, 2⟩ := by
  unfold MRel HM.toM1 absDiff; decide +kernel

end Mpir.C07n
