/-
  C04 (temporary memory): every function of the library that declares TMP_DECL — skeletons regenerated
  from the working tree on every run by tools/gen_tmpskel.py — marks before it allocates and frees before
  every return once something has been allocated, on every control-flow path (decided by the data-flow
  procedure `Mpir.TmpSkel.balanced`, checked here by the kernel on the whole regenerated table).
-/
import Mpir.Model.TmpSkel
namespace Mpir.TmpSkel
open Mpir.Gen

set_option maxRecDepth 100000 in
/-- no extracted TMP skeleton can reach an allocation while unmarked/freed, a re-mark with an outstanding
    allocation, or a return with an outstanding allocation -/
theorem tmp_balanced : ∀ f ∈ tmpFns, balanced f = true := by
  decide +kernel

-- non-vacuity: the table is populated, and the procedure rejects the shape of the defect that was found
-- and repaired in mpn_is_invert (mark; alloc; if (..) return; free; return)
example : tmpFns.length ≥ 100 := by decide +kernel
def leaky : TmpFn := ⟨"x", "leaky", 4, [(4, []), (3, [0]), (4, []), (0, [2, 1]), (1, [5]), (2, [3])]⟩
def fixed : TmpFn := ⟨"x", "fixed", 4, [(4, []), (3, [0]), (3, [0]), (0, [2, 1]), (1, [5]), (2, [3])]⟩
example : balanced leaky = false := by decide
example : balanced fixed = true := by decide

end Mpir.TmpSkel
