/-
  C04, object-layer memory safety as theorems — continuation of C04_allocsafe.lean (same statement shape `Safe`:
  `ok = true`, destination well formed, every other variable untouched, value-level view = the list-level result;
  plus the integer identity).  Property theorems only; helper lemmas live in MpirProofs/Lemmas/AllocSafeSpec.lean
  (value identities of `Spec.com`, `Spec.tdiv_q_2exp`), AllocSafeCore2.lean (read operands incl. temporary space,
  the `Wrote` invariant), AllocSafeLogic.lean (mpz/and.c), AllocSafeXor.lean (mpz/xor.c), AllocSafeMul.lean (mpz/mul_i.h).

  Models: Mpir/Model/AllocSafeMpz.lean (com, tdiv_q_2exp), Mpir/Model/AllocSafeMpz2.lean (and, ior, xor, mul_ui).
  Tied by ops `as_com`, `as_tdiv_q_2exp` (part c04_allocsafe) and `as2_and`, `as2_ior`, `as2_xor`, `as2_mul_ui`
  (harness/ops_allocsafe2.c; ALLOC SIZ value compared exactly) and pins on every C file mirrored.
  mpz_ior is mirrored and tied in every sign case and alias mode; its theorem is `_partial` (both operands non-negative).
-/
import MpirProofs.Props.C04_allocsafe
import MpirProofs.Props.C10
import MpirProofs.Lemmas.AllocSafeSpec
import MpirProofs.Lemmas.AllocSafeLogic
import MpirProofs.Lemmas.AllocSafeMul
import MpirProofs.Lemmas.AllocSafeXor
import MpirProofs.Lemmas.AllocSafeIor
import MpirProofs.Props.C01_mpz
namespace Mpir.AllocSafe
open Mpir

/-- mpz_com (mpz/com.c), complete: `size + 1` limbs cover the carry store of the non-negative case, `size` limbs the
    negative case incl. the read of `dst_ptr[size - 1]`; for every alias pattern and allocation; `~u = -u - 1`. -/
theorem mpz_com_alloc_safe (s : St) (w u : Nat) (hs : s.ok = true) (hw : OWF (s.h w)) (hu : OWF (s.h u)) :
    Safe s (mpz_com s w u) w (Spec.com (view (s.h w)) (view (s.h u))) ∧
    Mpz.toInt (view ((mpz_com s w u).h w)) = -Mpz.toInt (view (s.h u)) - 1 := by
  have R := com_refines s w u hs hw hu
  have E := Spec.com_spec (view (s.h w)) (view (s.h u)) hu.2
  refine ⟨R.safe E.1, ?_⟩
  show Mpz.toInt (view ((com 1 s w u).h w)) = _
  rw [R.view]; exact E.2

-- ~(B^2-1) = -B^2 in place (2 → 3 limbs); ~(-(B^2)) = B^2 - 1 shrinks by a limb
example : (mpz_com ex 1 1).ok = true ∧ Mpz.toInt (view ((mpz_com ex 1 1).h 1)) = -(B ^ 2 : Int) := by decide
example : view ((mpz_com ⟨fun _ => ⟨-3, 0, ⟨3, [0, 0, 1]⟩⟩, true⟩ 0 1).h 0) = ⟨3, 2, [B - 1, B - 1]⟩ := by decide

/-- mpz_tdiv_q_2exp (mpz/tdiv_q_2exp.c), complete: the source is read at `up + limb_cnt` for `|usize| - limb_cnt` limbs,
    `wp[wsize - 1]` is inside what was just written; quotient truncated towards zero. -/
theorem mpz_tdiv_q_2exp_alloc_safe (s : St) (w u : Nat) (cnt : Nat) (hs : s.ok = true)
    (hw : OWF (s.h w)) (hu : OWF (s.h u)) :
    Safe s (mpz_tdiv_q_2exp s w u cnt) w (Spec.tdiv_q_2exp (view (s.h w)) (view (s.h u)) cnt) ∧
    Mpz.toInt (view ((mpz_tdiv_q_2exp s w u cnt).h w)) = Int.tdiv (Mpz.toInt (view (s.h u))) (2 ^ cnt) := by
  have R := tdiv_q_2exp_refines s w u cnt hs hw hu
  have E := Spec.tdiv_q_2exp_spec (view (s.h w)) (view (s.h u)) cnt hw.2.1 hu.2
  refine ⟨R.safe E.1, ?_⟩
  rw [R.view]; exact E.2

-- -(B^2-1) >> 65 = -(2^63 - 1) (truncation, not floor)
example : view ((mpz_tdiv_q_2exp ⟨fun _ => ⟨-2, 0, ⟨2, [B - 1, B - 1]⟩⟩, true⟩ 0 1 65).h 0) = ⟨2, -1, [2 ^ 63 - 1]⟩ := by
  decide

/-- mpz_and (mpz/and.c), every sign case and alias pattern: the exact-size reallocations of the ++ and +- cases
    (after the scan for the result size), `1 + MAX` limbs for the -- case whose `+ 1` may carry into a new top limb,
    operands decremented into temporary space, the pointers re-read after `_mpz_realloc` (`res == op1` / `res == op2`);
    the result is the two's-complement AND. -/
theorem mpz_and_alloc_safe (s : St) (w u v : Nat) (hs : s.ok = true)
    (hw : OWF (s.h w)) (hu : OWF (s.h u)) (hv : OWF (s.h v)) :
    Safe s (mpz_and s w u v) w (Spec.and (view (s.h w)) (view (s.h u)) (view (s.h v))) ∧
    Mpz.toInt (view ((mpz_and s w u v).h w)) = Int.land (Mpz.toInt (view (s.h u))) (Mpz.toInt (view (s.h v))) := by
  have R := and_refines s w u v hs hw hu hv
  obtain ⟨hval, hzwf⟩ := Bits.mpz_and_spec (zOf (view (s.h u))) (zOf (view (s.h v))) (zOf_WF hu.2) (zOf_WF hv.2)
  have E : Mpz.WF (Spec.and (view (s.h w)) (view (s.h u)) (view (s.h v))) ∧
      Mpz.toInt (Spec.and (view (s.h w)) (view (s.h u)) (view (s.h v))) =
        (Bits.mpz_and (zOf (view (s.h u))) (zOf (view (s.h v)))).toInt := by
    unfold Spec.and
    refine ofZ_spec _ _ hzwf ?_ ?_
    · split
      · rename_i h
        exact Nat.le_trans (and_need_le _ _ hu.2 hv.2 h.1 h.2) (Mpz.grow_alloc _ _).1
      · exact (Mpz.grow_alloc _ _).1
    · exact Nat.le_trans hw.2.1 (Mpz.grow_alloc _ _).2
  refine ⟨R.safe E.1, ?_⟩
  rw [R.view, E.2, hval, zOf_toInt, zOf_toInt]

/-- heap for the examples: 0 = destination (one limb, value 0), 1 = -(B), 2 = -(B^2-1), 3 = B^2 - 1 (exact blocks) -/
def ex2 : St := ⟨fun i => if i = 0 then ⟨0, 0, ⟨1, [junk]⟩⟩ else if i = 1 then ⟨-2, 0, ⟨2, [0, 1]⟩⟩
                  else if i = 2 then ⟨-2, 0, ⟨2, [B - 1, B - 1]⟩⟩ else ⟨2, 0, ⟨2, [B - 1, B - 1]⟩⟩, true⟩

-- -(B) & -(B^2-1) = -(B^2): one limb longer than both operands; into the one-limb destination and in place
example : (mpz_and ex2 0 1 2).ok = true ∧ view ((mpz_and ex2 0 1 2).h 0) = ⟨3, -3, [0, 0, 1]⟩ := by decide
example : (mpz_and ex2 1 1 2).ok = true ∧ view ((mpz_and ex2 1 1 2).h 1) = ⟨3, -3, [0, 0, 1]⟩ := by decide
-- (B^2-1) & -(B) = B^2 - B, res == op1 (in place, nothing to grow) and res == op2 after the swap
example : (mpz_and ex2 3 3 1).ok = true ∧ view ((mpz_and ex2 3 3 1).h 3) = ⟨2, 2, [0, B - 1]⟩ := by decide
example : (mpz_and ex2 1 1 3).ok = true ∧ view ((mpz_and ex2 1 1 3).h 1) = ⟨2, 2, [0, B - 1]⟩ := by decide
-- negative: `res_alloc = MAX (op1_size, op2_size)` without the `1 +` — the carry store `res_ptr[res_size] = cy` is outside
example : (and_ true 0 ex2 0 1 2).ok = false := by decide
-- a variant that does NOT re-read op1_ptr / op2_ptr after `_mpz_realloc` (and.c:60-61, 229, 256) is not caught, and for a
-- reason: whenever res is one of the operands its block already has room for the result of these cases, so the block is
-- only ever replaced when res is a distinct variable or the other operand (the re-reads are defensive).  Here res == op2 = -4
-- in a one-limb block, op1 = B^2 - 1: res grows to two limbs, the stale `op1_ptr` still points into op1's live block:
example : (and_ false 1 ⟨fun i => if i = 1 then ⟨-1, 0, ⟨1, [4]⟩⟩ else ⟨2, 0, ⟨2, [B - 1, B - 1]⟩⟩, true⟩ 1 2 1).ok = true ∧
    view ((and_ false 1 ⟨fun i => if i = 1 then ⟨-1, 0, ⟨1, [4]⟩⟩ else ⟨2, 0, ⟨2, [B - 1, B - 1]⟩⟩, true⟩ 1 2 1).h 1)
      = ⟨2, 2, [B - 4, B - 1]⟩ := by decide

/-- mpz_xor (mpz/xor.c), every sign case and alias pattern: `MAX (sizes)` limbs for ++ and --, `MAX (sizes) + 1` for +-
    (the `+ 1` of `-(x) = ~x + 1` may carry into a new top limb), operands decremented into temporary space, the
    `if (res_ptr != op1_ptr) MPN_COPY` of the in-place ++ case, the pointers re-read after `_mpz_realloc`; MPN_NORMALIZE
    reads only what was written; the result is the two's-complement XOR. -/
theorem mpz_xor_alloc_safe (s : St) (w u v : Nat) (hs : s.ok = true)
    (hw : OWF (s.h w)) (hu : OWF (s.h u)) (hv : OWF (s.h v)) :
    Safe s (mpz_xor s w u v) w (Spec.xor (view (s.h w)) (view (s.h u)) (view (s.h v))) ∧
    Mpz.toInt (view ((mpz_xor s w u v).h w)) = Int.xor (Mpz.toInt (view (s.h u))) (Mpz.toInt (view (s.h v))) := by
  have R := xor_refines s w u v hs hw hu hv
  obtain ⟨hval, hzwf⟩ := Bits.mpz_xor_spec (zOf (view (s.h u))) (zOf (view (s.h v))) (zOf_WF hu.2) (zOf_WF hv.2)
  have E : Mpz.WF (Spec.xor (view (s.h w)) (view (s.h u)) (view (s.h v))) ∧
      Mpz.toInt (Spec.xor (view (s.h w)) (view (s.h u)) (view (s.h v))) =
        (Bits.mpz_xor (zOf (view (s.h u))) (zOf (view (s.h v)))).toInt := by
    unfold Spec.xor
    exact ofZ_spec _ _ hzwf (Nat.le_trans (xor_need_le _ _ hu.2 hv.2) (Mpz.grow_alloc _ _).1)
      (Nat.le_trans hw.2.1 (Mpz.grow_alloc _ _).2)
  refine ⟨R.safe E.1, ?_⟩
  rw [R.view, E.2, hval, zOf_toInt, zOf_toInt]

-- (B^2-1) ^ -(B) in place on op1 and on op2 (one-limb-longer allocation); -(B) ^ -(B^2-1) = (B-1) ^ (B^2-2) = B^2 - B + 1
example : (mpz_xor ex2 3 3 1).ok = true ∧ Mpz.toInt (view ((mpz_xor ex2 3 3 1).h 3)) = Int.xor (B ^ 2 - 1) (-(B : Int)) := by decide
example : (mpz_xor ex2 1 3 1).ok = true ∧ (mpz_xor ex2 1 3 1).ALLOC 1 = 3 := by decide
example : (mpz_xor ex2 0 1 2).ok = true ∧ view ((mpz_xor ex2 0 1 2).h 0) = ⟨2, 2, [1, B - 1]⟩ := by decide
-- (B^2-1) ^ -1 = -(B^2): the +- case carries into a third limb
example : view ((mpz_xor ⟨fun i => if i = 0 then ⟨2, 0, ⟨2, [B - 1, B - 1]⟩⟩ else ⟨-1, 0, ⟨1, [1]⟩⟩, true⟩ 0 0 1).h 0)
    = ⟨3, -3, [0, 0, 1]⟩ := by decide
-- negative: `res_alloc = MAX (op1_size, op2_size)` without the `+ 1` in the +- case — the carry store is outside the block
example : (xor_ true 0 ⟨fun i => if i = 0 then ⟨2, 0, ⟨2, [B - 1, B - 1]⟩⟩ else ⟨-1, 0, ⟨1, [1]⟩⟩, true⟩ 0 0 1).ok = false := by
  decide

/-- mpz_ior (mpz/ior.c), PARTIAL: both operands non-negative (ior.c:46-85: `_mpz_realloc (res, MAX size)`, the
    `if (res_ptr != op1_ptr) MPN_COPY` of the in-place case, the pointers re-read after the realloc).  Full statement: the same
    without `h1 h2`, with the allocation of the other sign cases (`MIN` limbs for --, `op2_size` for +-) in place of `max`;
    missing: the refinement proofs of `ior_nn` (ior.c:106-153) and `ior_pn` (ior.c:176-234) — the models are there
    (Mpir/Model/AllocSafeMpz2.lean) and tied by op `as2_ior` in all sign cases. -/
theorem mpz_ior_alloc_safe_partial (s : St) (w u v : Nat) (hs : s.ok = true)
    (hw : OWF (s.h w)) (hu : OWF (s.h u)) (hv : OWF (s.h v)) (h1 : 0 ≤ (s.h u).size) (h2 : 0 ≤ (s.h v).size) :
    Safe s (mpz_ior s w u v) w
      (ofZ (Mpz.grow (view (s.h w)) (max (s.h u).size.natAbs (s.h v).size.natAbs)).alloc
        (Bits.mpz_ior (zOf (view (s.h u))) (zOf (view (s.h v))))) ∧
    Mpz.toInt (view ((mpz_ior s w u v).h w)) = Int.lor (Mpz.toInt (view (s.h u))) (Mpz.toInt (view (s.h v))) := by
  have R0 := ior_pp_refines s w u v hs hw hu hv
  have h1' : ¬ (s.h u).size < 0 := by omega
  have h2' : ¬ (s.h v).size < 0 := by omega
  have em : mpz_ior s w u v = ior_pp true s w u v (s.h u).size.natAbs (s.h v).size.natAbs := by
    simp [mpz_ior, ior_, St.SIZ, h1, h2]
  have ez : Bits.mpz_ior (zOf (view (s.h u))) (zOf (view (s.h v))) = Bits.iorPP (view (s.h u)).d (view (s.h v)).d := by
    have e1 : (view (s.h u)).size = (s.h u).size := rfl
    have e2 : (view (s.h v)).size = (s.h v).size := rfl
    simp [Bits.mpz_ior, zOf, e1, e2, h1', h2']
  rw [em, ez]
  obtain ⟨hval, hzwf⟩ := Bits.mpz_ior_spec (zOf (view (s.h u))) (zOf (view (s.h v))) (zOf_WF hu.2) (zOf_WF hv.2)
  rw [ez] at hval hzwf
  have hlen : (Bits.iorPP (view (s.h u)).d (view (s.h v)).d).mag.length ≤ max (s.h u).size.natAbs (s.h v).size.natAbs := by
    have hA := view_d_length hu
    have hB := view_d_length hv
    unfold Bits.iorPP Bits.ior_n
    split <;> simp <;> omega
  have E := ofZ_spec (Mpz.grow (view (s.h w)) (max (s.h u).size.natAbs (s.h v).size.natAbs)).alloc _ hzwf
    (Nat.le_trans hlen (Mpz.grow_alloc _ _).1) (Nat.le_trans hw.2.1 (Mpz.grow_alloc _ _).2)
  refine ⟨R0.safe E.1, ?_⟩
  rw [R0.view, E.2, hval, zOf_toInt, zOf_toInt]

-- (B^2-1) | 1 in place on the longer operand (no copy: `res_ptr == op1_ptr`) and on the shorter one (block grown 1 → 2)
example : (mpz_ior ex 1 1 2).ok = true ∧ view ((mpz_ior ex 1 1 2).h 1) = ⟨2, 2, [B - 1, B - 1]⟩ := by decide
example : (mpz_ior ex 2 1 2).ok = true ∧ view ((mpz_ior ex 2 1 2).h 2) = ⟨2, 2, [B - 1, B - 1]⟩ := by decide
-- negative: op2_ptr NOT re-read after `_mpz_realloc` with res == op2 (the shorter operand, whose block is replaced)
example : (ior_ false ex 2 1 2).ok = false := by decide

/-- mpz_mul_ui (mpz/mul_i.h): `MPZ_REALLOC (prod, size + 1)` covers `pp[size] = cy`, also in place; exact product. -/
theorem mpz_mul_ui_alloc_safe (s : St) (w u : Nat) (v : Nat) (hs : s.ok = true)
    (hw : OWF (s.h w)) (hu : OWF (s.h u)) (hv : v < B) :
    Safe s (mpz_mul_ui s w u v) w (Mpz.mul_ui (view (s.h w)) (view (s.h u)) v) ∧
    Mpz.toInt (view ((mpz_mul_ui s w u v).h w)) = Mpz.toInt (view (s.h u)) * (v : Int) := by
  have R := mul_ui_refines s w u v hs hw hu hv
  have E := Mpz.mpz_mul_ui_exact (view (s.h w)) (view (s.h u)) v hw.2.1 hu.2 hv
  refine ⟨R.safe E.2, ?_⟩
  show Mpz.toInt (view ((mul_ui 1 s w u v).h w)) = _
  rw [R.view]; exact E.1

-- (B^2-1) * (B-1) in place: block grown 2 → 3, high product limb stored at index 2
example : (mpz_mul_ui ex 1 1 (B - 1)).ok = true ∧
    view ((mpz_mul_ui ex 1 1 (B - 1)).h 1) = ⟨3, 3, [1, B - 1, B - 2]⟩ := by decide
-- negative: `MPZ_REALLOC (prod, size)` — `pp[size] = cy` is outside the block
example : (mul_ui 0 ex 1 1 (B - 1)).ok = false := by decide

end Mpir.AllocSafe
