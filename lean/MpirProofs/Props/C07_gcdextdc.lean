/-
  C07 — the divide-and-conquer range of mpn_gcdext (gcdext.c:272-546): first mpn_hgcd round with p = n/2, the loop of
  rounds with p = n/3 and hgcd_mul_matrix_vector on the cofactors, the mpn_gcd_subdiv_step fallback with mpn_gcdext_hook,
  the exits (gcd found by the hook, a = b, u0 = 0, lehmer_un = 0, compute_v = 0) and the final combination.
  Property theorems only (lemmas: MpirProofs/Lemmas/GcdextDc.lean, GcdextDc2.lean).  They are about the sized model
  `Mpir.Gcdext.mpnGcdextS` of Mpir/Model/Gcdext.lean, compared with the real mpn_gcdext on {gp, gn}, *usize, {up, |*usize|}
  by the ops `mpn_gcdext_sz` / `mpn_gcdext_sz_p` of harness/ops_gcdext.c.
-/
import MpirProofs.Lemmas.GcdextDc2
namespace Mpir.C07dc
open Mpir Mpir.Gcd Mpir.Hgcd Mpir.Gcdext

/-- hgcd_mul_matrix_vector (gcdext.c:29) on cofactors u0, u1 < B^un (u1 ≥ 1) with a matrix of determinant 1 whose entries
    fit M->n limbs: the new pair is (u0·m00 + u1·m10, u0·m01 + u1·m11) exactly (the carry limbs ah, bh are stored), and
    the returned size is exact: both fit it and one of them uses its top limb (the C's `ASSERT ((u0[un-1] | u1[un-1]) > 0)`). -/
theorem hgcd_mul_matrix_vector_correct (M : HM) (u0 u1 un : Nat) (hf : M.Fits) (hd : det1 M.toM1) (h0 : u0 < B ^ un)
    (h1 : u1 < B ^ un) (hu1 : 1 ≤ u1) :
    (mulMatrixVector M u0 u1 un).1 = u0 * M.e00 + u1 * M.e10 ∧
    (mulMatrixVector M u0 u1 un).2.1 = u0 * M.e01 + u1 * M.e11 ∧
    u0 * M.e00 + u1 * M.e10 < B ^ (mulMatrixVector M u0 u1 un).2.2 ∧
    u0 * M.e01 + u1 * M.e11 < B ^ (mulMatrixVector M u0 u1 un).2.2 ∧
    (B ^ ((mulMatrixVector M u0 u1 un).2.2 - 1) ≤ u0 * M.e00 + u1 * M.e10 ∨
      B ^ ((mulMatrixVector M u0 u1 un).2.2 - 1) ≤ u0 * M.e01 + u1 * M.e11) ∧
    1 ≤ (mulMatrixVector M u0 u1 un).2.2 :=
  mulMatrixVector_spec M u0 u1 un hf hd h0 h1 hu1

-- non-vacuity: a carry into limb un + M->n, and a result two limbs shorter than un + M->n
example : mulMatrixVector ⟨3, 1, B - 1, B - 2, B - 1, B - 1⟩ (B - 1) (B - 1) 1 = ((B - 1) * (B - 1) + (B - 1) * (B - 1), (B - 1) * (B - 2) + (B - 1) * (B - 1), 3) := by
  decide +kernel
example : mulMatrixVector ⟨3, 2, 3, 2, 4, 3⟩ 1 5 2 = (23, 17, 1) := by decide +kernel

/-- compute_v (gcdext.c:93): for a non-zero Lehmer cofactor u = ±{up, |usize|} (normalised) of (a, b), g ≤ a, and the
    natural T with b·T = |g − u·a| (u·a − g for u > 0, g + |u|·a for u < 0), the function returns (T, nlimbs T): both
    `ASSERT_NOCARRY` hold (g ≤ u·a resp. g + |u|·a fits |usize| + an limbs), the `size == 0` exit is T = 0, the quotient
    size vn = size + 1 − bn minus a zero top limb is exact. -/
theorem compute_v_correct (a b g up T : Nat) (usize : Int) (ha : 0 < a) (hb : 0 < b) (hg : 0 < g) (hga : g ≤ a) (hup : 0 < up)
    (hsz : usize.natAbs = nlimbs up) (hT : if usize > 0 then b * T + g = a * up else b * T = a * up + g) :
    computeV a b g up usize = (T, nlimbs T) :=
  computeV_spec a b g up T usize ha hb hg hga hup hsz hT

example : computeV 5 3 1 2 1 = (3, 1) := by decide +kernel                      -- 2·5 − 1 = 3·3
example : computeV (B + 1) (B + 1) (B + 1) 1 1 = (0, 0) := by decide +kernel    -- u·a = g: the `size == 0` exit
example : computeV (B * B + 1) 3 1 1 (-1) = ((B * B + 2) / 3, 2) := by decide +kernel           -- g + |u|·a = 3·T

/-- what remains for the flag "no store outside a buffer": the size field of the matrix returned by mpn_hgcd, which the C
    asserts at gcdext.c:296 and :347 (`ASSERT (M.n <= (n - p - 1)/2)`); its proof needs the normalisation argument of
    mpn_hgcd_matrix_mul's comment (the entries themselves ARE bounded: `mpn_hgcd_correct_partial`). -/
def HgcdMn (thr : Thr) (ns : Nat → Nat) : Prop := HgMn (hgcd thr ns) thr.reduce

/-- PARTIAL (full statement: without `hR` and with `r.ok = true` unconditionally; missing: (1) mpn_hgcd for operands of
    HGCD_REDUCE_THRESHOLD limbs or more — mpn_hgcd_appr's truncation analysis — so the theorem covers divisors V with
    n − ⌊n/3⌋ < HGCD_REDUCE_THRESHOLD, i.e. n ≤ 10276 limbs on this build (the loop calls mpn_hgcd on n − n/3 limbs; NOT
    3·6852: after a failed first round the second call is on two thirds of the full size); (2) the bound on M->n, see `HgcdMn`).
    **The contract of mpn_gcdext on the divide-and-conquer range**, for every call satisfying the C's ASSERTs (an ≥ n > 0,
    bp[n-1] ≠ 0) with n ≥ GCDEXT_DC_THRESHOLD, any thresholds with HGCD_THRESHOLD ≥ 8 and GCDEXT_DC_THRESHOLD ≥ 10, for
    the sized model (initial mpn_tdiv_qr, zero-remainder exit, first mpn_hgcd round on the top n − n/2 limbs with
    mpn_hgcd_matrix_adjust and (u0, u1) := second row of M, the loop with p = n/3 and hgcd_mul_matrix_vector, the
    mpn_gcd_subdiv_step fallback with mpn_gcdext_hook and its `return ctx.gn`, after the loop the a = b exit, the u0 = 0
    shortcut, mpn_gcdext_lehmer_n on copies, the lehmer_un = 0 exit, compute_v, S = u·u1 − v·u0 with `negate`):
    G = gcd(U, V), V ∣ G − U·S, S = 1 or 2·G·|S| < V (precisely: 2·G·|S| < V, or S = 1 and V = 2G), S = 0 ↔ V ∣ U;
    {gp, gn} and {up, |usize|} are normalised, usize < 0 iff S < 0; and — given `HgcdMn` — no store went outside the
    (n+1)-limb cofactor buffers: the C's ASSERTs `M.n + un <= ualloc`, `un < ualloc`, `lehmer_un + u1n <= ualloc`,
    `lehmer_vn + u0n <= ualloc` hold.  The invariant: a = u1·A − v1·V, b = −u0·A + v0·V with determinant 1, hence
    V = u0·a + u1·b and u0, u1 < B^(N − k) whenever a, b ≥ B^k. -/
theorem mpn_gcdext_dc_correct_partial (thr : Thr) (ns : Nat → Nat) (h8 : 8 ≤ thr.hgcd) (dcThr : Nat) (h10 : 10 ≤ dcThr)
    (U V : Nat) (hV0 : 0 < V) (hle : nlimbs V ≤ nlimbs U) (hdc : dcThr ≤ nlimbs V)
    (hR : nlimbs V - nlimbs V / 3 < thr.reduce) :
    let r := mpnGcdextS (hgcd thr ns) dcThr U (nlimbs U) V (nlimbs V)
    mpnGcdextOk U V r.g r.S ∧ CofBound V r.g r.S ∧ r.gn = nlimbs r.g ∧ r.up = r.S.natAbs ∧ r.usize.natAbs = nlimbs r.up ∧
      (r.usize < 0 ↔ r.S < 0) ∧ (HgcdMn thr ns → r.ok = true) :=
  mpnGcdextS_dc_spec (hgcd thr ns) thr.reduce dcThr U V
    (fun n a b hn hpre => hgcd_spec thr ns h8 n a b (matInit n) hn hpre) h10 hV0 hle hdc hR

/-- the same with the thresholds of this build (GCDEXT_DC_THRESHOLD = 342, HGCD_REDUCE_THRESHOLD = 6852): divisors of
    342 … 10276 limbs. -/
theorem mpn_gcdext_dc_build_partial (t0 t1 t3 : Nat) (ns : Nat → Nat) (h8 : 8 ≤ t0) (U V : Nat) (hV0 : 0 < V)
    (hle : nlimbs V ≤ nlimbs U) (hdc : GCDEXT_DC_THRESHOLD ≤ nlimbs V) (hR : nlimbs V ≤ 10276) :
    let r := mpnGcdextS (hgcd ⟨t0, t1, 6852, t3⟩ ns) GCDEXT_DC_THRESHOLD U (nlimbs U) V (nlimbs V)
    mpnGcdextOk U V r.g r.S ∧ r.gn = nlimbs r.g ∧ r.usize.natAbs = nlimbs r.up ∧ (r.usize < 0 ↔ r.S < 0) := by
  intro r
  obtain ⟨c1, _, c3, _, c5, c6, _⟩ := mpn_gcdext_dc_correct_partial ⟨t0, t1, 6852, t3⟩ ns h8 GCDEXT_DC_THRESHOLD
    (by unfold GCDEXT_DC_THRESHOLD; omega) U V hV0 hle hdc (by show nlimbs V - nlimbs V / 3 < 6852; omega)
  exact ⟨c1, c3, c5, c6⟩

-- non-vacuity: a 12-limb call through the dc code (GCDEXT_DC_THRESHOLD = 10 here): first round, loop, Lehmer call, compute_v
example : (mpnGcdextS (hgcd ⟨8, 50, 1000, 2⟩ id) 10 (3 ^ 480) 12 (5 ^ 320) 12).ok = true ∧
    (mpnGcdextS (hgcd ⟨8, 50, 1000, 2⟩ id) 10 (3 ^ 480) 12 (5 ^ 320) 12).g = 1 := by decide +kernel

end Mpir.C07dc
