/-
  C16 — factorial, binomial, Fibonacci/Lucas, remove, primality.  Property theorems only.
-/
import MpirProofs.Lemmas.Numth
namespace Mpir.Numth

end Mpir.Numth
