/-
  C16 — factorial, binomial, Fibonacci/Lucas, remove, primality.  Property theorems only; helper
  lemmas live in MpirProofs/Lemmas/Numth.lean.  The table theorems are about the REGENERATED tables
  of Mpir/Gen/NumthTabs.lean (rewritten from /repo's source by every `bin/check C16`); the other
  theorems are about the executable models of Mpir/Model/Numth.lean, which the correspondence run
  compares with the real library (and with the executable specs) on every check.
-/
import MpirProofs.Lemmas.Numth
namespace Mpir.Numth
open Mpir Mpir.Gen.NumthTabs

/-! ## Tables (every entry, `decide +kernel`) -/

/-- `__gmp_fib_table`: FIB_TABLE_LIMIT + 2 limbs; entry 0 is F[-1] = 1 and entry i+1 is F[i]. -/
theorem fib_table_ok :
    fibTable.length = FIB_TABLE_LIMIT + 2 ∧ fibTab 0 = 1 ∧
    (∀ i < FIB_TABLE_LIMIT + 1, fibTab (i + 1) = Nat.fib i) ∧ (∀ x ∈ fibTable, x < B) := by
  decide +kernel
example : FIB_TABLE 93 = 12200160415121876738 ∧ FIB_TABLE 93 = Nat.fib 93 := by decide +kernel

/-- FIB_TABLE_LIMIT and FIB_TABLE_LUCNUM_LIMIT are exactly the largest indices whose Fibonacci / Lucas
    number fits a limb (L[n] = F[n] + 2F[n-1]). -/
theorem fib_table_limits_ok :
    B ≤ Nat.fib (FIB_TABLE_LIMIT + 1) ∧ FIB_TABLE_LUCNUM_LIMIT ≤ FIB_TABLE_LIMIT ∧
    (∀ n ≤ FIB_TABLE_LUCNUM_LIMIT, FIB_TABLE n + 2 * fibTab n < B) ∧
    B ≤ Nat.fib (FIB_TABLE_LUCNUM_LIMIT + 1) + 2 * Nat.fib FIB_TABLE_LUCNUM_LIMIT := by
  decide +kernel
example : lucTab 92 = 16860207025497407047 := by decide +kernel

/-- `ONE_LIMB_FACTORIAL_TABLE`: entry i is i!, all entries are limbs, and the next factorial is not. -/
theorem fac_table_ok :
    (∀ i < facTable.length, facTable.getD i 0 = i.factorial) ∧ (∀ x ∈ facTable, x < B) ∧
    B ≤ facTable.length.factorial := by
  decide +kernel
example : facTable.getD 20 0 = 2432902008176640000 := by decide +kernel

/-- `__gmp_oddfac_table` (table + extension): entry i is the odd part of i! modulo 2^64; the first
    ODD_FACTORIAL_TABLE_LIMIT + 1 entries are the exact odd parts and ODD_FACTORIAL_TABLE_MAX is the last of them. -/
theorem oddfac_table_ok :
    oddfacTable.length = ODD_FACTORIAL_TABLE_LIMIT + 1 ∧
    (oddfacTable ++ oddfacExtTable).length = ODD_FACTORIAL_EXTTABLE_LIMIT + 1 ∧
    (∀ i < ODD_FACTORIAL_EXTTABLE_LIMIT + 1, oddfacTab i = oddPart i.factorial % B) ∧
    (∀ i < ODD_FACTORIAL_TABLE_LIMIT + 1, oddPart i.factorial < B) ∧
    B ≤ oddPart (ODD_FACTORIAL_TABLE_LIMIT + 1).factorial ∧
    oddfacTab ODD_FACTORIAL_TABLE_LIMIT = ODD_FACTORIAL_TABLE_MAX := by
  decide +kernel
example : oddfacTab 10 = 14175 ∧ 14175 * 2 ^ 8 = Nat.factorial 10 := by decide +kernel

open Nat in
/-- `__gmp_odd2fac_table`: entry i is (2i+1)!!, exact; ODD_DOUBLEFACTORIAL_TABLE_MAX is the last entry
    and the next odd double factorial does not fit a limb. -/
theorem odd2fac_table_ok :
    2 * odd2facTable.length = ODD_DOUBLEFACTORIAL_TABLE_LIMIT + 1 ∧
    (∀ i < odd2facTable.length, odd2facTab i = (2 * i + 1)‼) ∧ (∀ x ∈ odd2facTable, x < B) ∧
    odd2facTab (ODD_DOUBLEFACTORIAL_TABLE_LIMIT / 2) = ODD_DOUBLEFACTORIAL_TABLE_MAX ∧
    B ≤ (ODD_DOUBLEFACTORIAL_TABLE_LIMIT + 2)‼ := by
  simp only [← doubleFactorial_eq]
  decide +kernel
example : odd2facTab 4 = 945 := by decide +kernel

/-- `__gmp_fac2cnt_table`: entry i is 2(i+1) - popcount(2(i+1)), i.e. the exponent of 2 in (2i+2)!;
    it serves every n ≤ TABLE_LIMIT_2N_MINUS_POPC_2N through index n/2 - 1, and that entry is n - popcount n. -/
theorem fac2cnt_table_ok :
    TABLE_LIMIT_2N_MINUS_POPC_2N = 2 * fac2cntTable.length + 1 ∧
    (∀ i < fac2cntTable.length, fac2cntTab i = 2 * (i + 1) - popcount (2 * (i + 1))) ∧
    (∀ n ≤ TABLE_LIMIT_2N_MINUS_POPC_2N, 2 ≤ n → fac2cntTab (n / 2 - 1) = n - popcount n) := by
  decide +kernel
example : fac2cntTab 3 = 7 ∧ Nat.factorial 8 = 2 ^ 7 * 315 := by decide +kernel

/-- `__gmp_limbroots_table`: entry i is the largest x with x^(i+1) < 2^64. -/
theorem limbroots_table_ok :
    limbrootsTable.length = 8 ∧
    ∀ i < 8, limbrootsTable.getD i 0 ^ (i + 1) < B ∧ B ≤ (limbrootsTable.getD i 0 + 1) ^ (i + 1) := by
  decide +kernel
example : log_n_max 65535 = 4 ∧ log_n_max 65536 = 3 := by decide +kernel

/-- `facinv` (ONE_LIMB_ODD_FACTORIAL_INVERSES_TABLE): entry i is the inverse modulo 2^64 of the odd
    part of (i+2)!  (x * inv ≡ 1 mod B). -/
theorem fac_inverse_table_ok :
    facinvTable.length + 2 ≤ ODD_FACTORIAL_EXTTABLE_LIMIT + 1 ∧
    (∀ i < facinvTable.length, oddfacTab (i + 2) * facinvTab i % B = 1) ∧ (∀ x ∈ facinvTable, x < B) := by
  decide +kernel
example : oddfacTab 3 = 3 ∧ facinvTab 1 = 0xaaaaaaaaaaaaaaab ∧ 3 * 0xaaaaaaaaaaaaaaab = 2 * B + 1 := by decide +kernel

/-- `bin2kk`, `bin2kkinv`, `fac2bin`: for k = ODD_CENTRAL_BINOMIAL_OFFSET + i ≤ ODD_CENTRAL_BINOMIAL_TABLE_LIMIT,
    binomial(2k,k) = bin2kk[i] * 2^fac2bin[i] with bin2kk[i] an odd limb, and bin2kkinv[i] is its inverse mod 2^64. -/
theorem bin2kk_table_ok :
    bin2kkTable.length = ODD_CENTRAL_BINOMIAL_TABLE_LIMIT - ODD_CENTRAL_BINOMIAL_OFFSET + 1 ∧
    bin2kkinvTable.length = bin2kkTable.length ∧ fac2binTable.length = bin2kkTable.length ∧
    (∀ i < bin2kkTable.length,
      bin2kkTable.getD i 0 * 2 ^ fac2binTable.getD i 0 = binom (2 * (i + ODD_CENTRAL_BINOMIAL_OFFSET)) (i + ODD_CENTRAL_BINOMIAL_OFFSET) ∧
      bin2kkTable.getD i 0 % 2 = 1 ∧ bin2kkTable.getD i 0 < B ∧
      bin2kkTable.getD i 0 * bin2kkinvTable.getD i 0 % B = 1) := by
  decide +kernel
example : bin2kkTable.getD 0 0 * 2 ^ 3 = 10400600 ∧ binom 26 13 = 10400600 := by decide +kernel

/-- `primes[]` of next_prime_candidate.c: strictly increasing, and the listed numbers are exactly the
    odd primes up to the last entry (997). -/
theorem primes_table_ok :
    List.Pairwise (· < ·) npcPrimes ∧
    ∀ p ≤ npcPrimes.getLastD 0, p ∈ npcPrimes ↔ (3 ≤ p ∧ p.Prime) := by
  simp only [← isPrimeTD_iff]
  decide +kernel
example : 997 ∈ npcPrimes ∧ 991 ∈ npcPrimes ∧ 993 ∉ npcPrimes ∧ npcPrimes.getLastD 0 = 997 := by decide +kernel

/-- `PP` (gmp-impl.h): the product of the odd primes below PP_FIRST_OMITTED, a limb; the trial-division
    list of pprime_p.c:75-93 consists of exactly those primes. -/
theorem pp_table_ok :
    PP = [3, 5, 7, 11, 13, 17, 19, 23, 29, 31, 37, 41, 43, 47, 53].prod ∧ PP < B ∧
    (∀ p < PP_FIRST_OMITTED, p ∈ [3, 5, 7, 11, 13, 17, 19, 23, 29, 31, 37, 41, 43, 47, 53] ↔ (3 ≤ p ∧ p.Prime)) ∧
    PP_FIRST_OMITTED.Prime := by
  simp only [← isPrimeTD_iff]
  decide +kernel
example : PP % 53 = 0 ∧ PP % 59 ≠ 0 := by decide +kernel

/-- `mod64`, `mod63`, `mod65` of likely_prime_p.c (the filter of `n_is_square`): a 0 entry is never a
    quadratic residue, so the filter rejects no square.  mod64 and mod65 flag exactly the residues;
    mod63 additionally flags the non-residues 14, 35, 56 (harmless: the exact square root test follows). -/
theorem sqres_tables_ok :
    (∀ r < 64, mod64.getD r 0 = 1 ↔ ∃ x < 64, x * x % 64 = r) ∧
    (∀ r < 63, (∃ x < 63, x * x % 63 = r) → mod63.getD r 0 = 1) ∧
    (∀ r < 63, mod63.getD r 0 = 1 → (r = 14 ∨ r = 35 ∨ r = 56 ∨ ∃ x < 63, x * x % 63 = r)) ∧
    (∀ r < 65, mod65.getD r 0 = 1 ↔ ∃ x < 65, x * x % 65 = r) ∧
    mod64.length = 64 ∧ mod63.length = 63 ∧ mod65.length = 65 := by
  decide +kernel
example : mod64.getD 17 0 = 1 ∧ 9 * 9 % 64 = 17 ∧ mod63.getD 14 0 = 1 := by decide +kernel

/-- the small table of mpz_primorial_ui -/
theorem primorial_table_ok : ∀ i < primorialTable.length, primorialTable.getD i 0 = primorial i := by
  decide +kernel
example : primorialTable.getD 4 0 = 6 := by decide +kernel

/-! ## Fibonacci and Lucas numbers -/

/-- mpn_fib2_ui (model of mpn/generic/fib2_ui.c: table start, bit scan of n, doubling steps with the
    ±2 applied to the low limb only): for EVERY n the pair is (F(n), F(n-1)), where F(-1) = 1 is
    expressed as `second + F(n) = F(n+1)`.  Includes: the subtractions never go negative and the
    low-limb `-2` never borrows (F(4m+3) mod 8 ∈ {1,2,5}). -/
theorem fib2_ui_spec (n : ℕ) :
    (mpn_fib2_ui n).1 = Nat.fib n ∧ (mpn_fib2_ui n).2 + Nat.fib n = Nat.fib (n + 1) :=
  mpn_fib2_ui_pair n
example : mpn_fib2_ui 200 = (280571172992510140037611932413038677189525, 173402521172797813159685037284371942044301) := by
  decide +kernel

/-- for n ≥ 1 the second component is F(n-1); mpz_fib2_ui returns the same pair -/
theorem fib2_ui_spec_pred (n : ℕ) (hn : 1 ≤ n) :
    mpz_fib2_ui n = (Nat.fib n, Nat.fib (n - 1)) := by
  have h := mpn_fib2_ui_pair n
  unfold mpz_fib2_ui
  exact Prod.ext h.1 (h.pred hn)
example : mpz_fib2_ui 0 = (0, 1) ∧ mpz_fib2_ui 94 = (Nat.fib 94, Nat.fib 93) := by decide +kernel

/-- The claim mpz/fib_ui.c:36-43 relies on with the words "No proof for this claim": for n ≡ 1 (mod 4),
    1 < n < 2^64, the low limb of F(n) is not 1 (and it is not 0: F(n) is not divisible by 4 for odd n),
    so adding 2 to the low limb of F(n) - 2 never carries.  Proof: F(4j+1) - 1 = F(2j)·L(2j+1),
    F(m) even ⇔ 3 ∣ m ⇔ L(m) even, 8 ∤ L(m), 4 ∤ L(2w), hence v₂(F(2^k u)) ≤ k + 2; so 2^64 ∣ F(n) - 1
    forces 3·2^61 ∣ j, i.e. n ≥ 3·2^63 + 1 > 2^64.  (The comment's "F[3*2^b+1]" should read 3·2^(b-1)+1.) -/
theorem fib_low_limb_claim (n : ℕ) (hn : n < B) (h4 : n % 4 = 1) (h1 : 1 < n) :
    Nat.fib n % B ≠ 1 ∧ Nat.fib n % B ≠ 0 := by
  refine ⟨fib_low_limb_ne_one n hn h4 h1, fun h0 => ?_⟩
  have := fib_odd_mod4 n (by omega)
  rw [B_eq] at h0; omega
example : Nat.fib 97 % B = 9834167195010216513 ∧ 97 % 4 = 1 := by decide +kernel

/-- mpz_fib_ui (model of mpz/fib_ui.c: table, F[2k] = F[k](F[k]+2F[k-1]), F[2k+1] = (2F[k]+F[k-1])(2F[k]-F[k-1]) ± 2
    with the ±2 applied to the LOW LIMB ONLY) returns F(n) for EVERY n < 2^64. -/
theorem fib_ui_spec (n : ℕ) (hn : n < B) : mpz_fib_ui n = Nat.fib n :=
  mpz_fib_ui_eq n (fun h4 hbig => fib_low_limb_ne_one n hn h4 (by have := FIB_TABLE_LIMIT_ge; omega))
example : mpz_fib_ui 1001 = Nat.fib 1001 ∧ mpz_fib_ui 94 = 19740274219868223167 := by decide +kernel

/-- mpz_lucnum_ui (model of mpz/lucnum_ui.c: table, trailing-zero stripping, L[2k+1] formula with the
    low-limb `+4`, squaring steps with the low-limb `+2`): for EVERY n the result is the Lucas number,
    characterised by L(n) + F(n) = 2 F(n+1); equivalently it equals the executable spec `lucSpec`. -/
theorem lucnum_ui_spec (n : ℕ) :
    mpz_lucnum_ui n + Nat.fib n = 2 * Nat.fib (n + 1) ∧ mpz_lucnum_ui n = lucSpec n := by
  have h : LucVal n (mpz_lucnum_ui n) := mpz_lucnum_ui_val n
  have h2 := lucSpec_add_fib n
  unfold LucVal at h
  exact ⟨h, by omega⟩
example : mpz_lucnum_ui 186 = 27280388024614569596 * 27280388024614569596 + 2 ∧ mpz_lucnum_ui 0 = 2 := by decide +kernel

/-- mpz_lucnum2_ui: (L(n), L(n-1)) for every n, with L(-1) = -1 -/
theorem lucnum2_ui_spec (n : ℕ) :
    (mpz_lucnum2_ui n).1 = (lucSpec n : ℤ) ∧
    (n = 0 → (mpz_lucnum2_ui n).2 = -1) ∧ (1 ≤ n → (mpz_lucnum2_ui n).2 = (lucSpec (n - 1) : ℤ)) := by
  obtain ⟨⟨l, e1, v1⟩, h0, h1⟩ := mpz_lucnum2_ui_val n
  refine ⟨?_, h0, fun hn => ?_⟩
  · have := lucSpec_add_fib n; unfold LucVal at v1
    rw [e1]; congr 1; omega
  · obtain ⟨l1, e2, v2⟩ := h1 hn
    have := lucSpec_add_fib (n - 1); unfold LucVal at v2
    rw [e2]; congr 1; omega
example : mpz_lucnum2_ui 0 = (2, -1) ∧ mpz_lucnum2_ui 100 = (792070839848372253127, 489526700523968661124) := by decide +kernel

/-! ## Primality: a prime is never reported composite -/

/-- One Miller–Rabin round (`mill_rab` of mpz/miller_rabin.c: y = x^q mod n, accept on 1 or n-1, then
    up to k-1 squarings accepting on n-1 and rejecting on 1) accepts EVERY base x not divisible by p
    when p is prime and p - 1 = 2^k q.  (Fermat + "only ±1 square to 1 modulo a prime".) -/
theorem strong_prp_prime (p : ℕ) (hp : p.Prime) (x q k : ℕ) (hqk : p - 1 = 2 ^ k * q) (hx : ¬ p ∣ x) :
    mill_rab p x q k = true :=
  mill_rab_prime p hp x q k hqk hx
example : mill_rab 97 5 3 5 = true ∧ (97 - 1 = 2 ^ 5 * 3) ∧ mill_rab 561 2 35 4 = false := by decide +kernel

/-- mpz_miller_rabin (guard for n ≤ 7, Fermat test to base 210, `reps` rounds) returns 1 for every prime,
    whatever bases 2 ≤ x ≤ n-2 the random generator produces: "never returns 0 for a prime". -/
theorem miller_rabin_never_rejects_prime (p : ℕ) (hp : p.Prime) (bases : List ℕ)
    (hb : ∀ x ∈ bases, 2 ≤ x ∧ x ≤ p - 2) : miller_rabin_with p bases = true := by
  apply miller_rabin_with_prime p hp
  intro x hx hd
  obtain ⟨h1, h2⟩ := hb x hx
  have := Nat.le_of_dvd (by omega) hd
  have := hp.two_le
  omega
example : miller_rabin_with 1000003 [2, 3, 999999, 1000001] = true ∧ miller_rabin_with 7 [] = true ∧
    miller_rabin_with 1729 [2] = false := by decide +kernel

/-- the spec oracle `isPrime` used by the predicate ops answers `true` on every prime, i.e.
    `isPrime n = false` proves that n is composite.  (The converse below 2^64 is the published
    12-base result, see the trusted base.) -/
theorem isPrime_complete (p : ℕ) (hp : p.Prime) : isPrime p = true := isPrime_of_prime p hp
example : isPrime 18446744073709551557 = true ∧ isPrime 3825123056546413051 = false := by decide +kernel

/-! ## Factorials -/

/-- Legendre's formula for p = 2, the fact behind `mpz_mul_2exp (x, x, n - popcount n)` in fac_ui.c:
    n! = (odd part of n!) · 2^(n - popcount n) for every n < 2^64. -/
theorem factorial_odd_part_mul_two_pow (n : ℕ) (hn : n < B) :
    n.factorial = oddPart n.factorial * 2 ^ (n - popcount n) := by
  rw [mul_comm]; exact factorial_two_adic n hn
example : Nat.factorial 10 = 14175 * 2 ^ (10 - popcount 10) ∧ oddPart (Nat.factorial 10) = 14175 := by decide +kernel

/-- structure of mpz_fac_ui beyond the one-limb table: odd part × 2^(n − popcount n)
    (the shift count comes from `__gmp_fac2cnt_table` up to TABLE_LIMIT_2N_MINUS_POPC_2N and from popc_limb above). -/
theorem fac_ui_structure (n : ℕ) (h1 : facTable.length ≤ n) (h2 : aboveThreshold n FAC_ODD_THRESHOLD = true) :
    mpz_fac_ui n = mpz_oddfac_1 n 0 * 2 ^ (n - popcount n) := by
  have hlen := facTable_length_pos
  unfold mpz_fac_ui
  simp only [show ¬ n < facTable.length by omega, h2, if_false, Bool.not_true, Bool.false_eq_true]
  rw [facShift_eq n (by omega)]
example : mpz_fac_ui 100 = mpz_oddfac_1 100 0 * 2 ^ (100 - popcount 100) ∧ 100 - popcount 100 = 97 :=
  ⟨fac_ui_structure 100 (by decide +kernel) (by decide +kernel), by decide +kernel⟩

/-- mpz_oddfac_1 below FAC_DSC_THRESHOLD (tables; limb-product basecase with FACTOR_LIST_STORE, proved
    never to overflow a limb): the odd part of n!, for every such n and either flag. -/
theorem oddfac_1_spec_below_dsc (n flag : ℕ) (hn : n < B) (h : n < FAC_DSC_THRESHOLD) :
    mpz_oddfac_1 n flag = oddPart n.factorial := by
  apply mpz_oddfac_1_below_dsc n flag hn
  have := (aboveThreshold_dsc n).not.2 (by omega)
  simpa using this
example : mpz_oddfac_1 200 0 = oddPart (Nat.factorial 200) := oddfac_1_spec_below_dsc 200 0 (by decide +kernel) (by decide +kernel)

/-- mpz_fac_ui n = n! for every n below FAC_DSC_THRESHOLD (table, limb-product basecase, odd factorial
    basecase × power of two). -/
theorem fac_ui_spec_below_dsc (n : ℕ) (hn : n < B) (h : n < FAC_DSC_THRESHOLD) : mpz_fac_ui n = n.factorial :=
  mpz_fac_ui_eq n hn (fun _ _ => oddfac_1_spec_below_dsc n 0 hn h)
example : mpz_fac_ui 25 = 15511210043330985984000000 := by decide +kernel

/- FULL STATEMENT (not proved): `∀ n < 2^64, mpz_fac_ui n = n !`.
   Proved for every n up to the hypothesis `hsw`: the sieve-based swing factor `mpz_2multiswing_1 m`
   (oddfac_1.c:199-262: prime powers read off a prime sieve) is the odd part of m!/((m/2)!)^2 for the
   arguments m ≥ FAC_DSC_THRESHOLD that the divide-swing-conquer loop uses.  That is Legendre-style
   prime-power counting over the sieve and is NOT proved here; it is covered by the correspondence run
   (model = implementation = n! for n up to 3000, around 2^j·FAC_DSC_THRESHOLD and sampled beyond).
   Everything else — dispatch, tables, basecase products without limb overflow, the number of halvings,
   the squaring loop, the power of two — is proved. -/
/-- mpz_fac_ui n = n! for every n < 2^64, given correct swing factors -/
theorem fac_ui_spec_partial (n : ℕ) (hn : n < B)
    (hsw : ∀ m, FAC_DSC_THRESHOLD ≤ m → m ≤ n →
      mpz_2multiswing_1 m * oddPart (m / 2).factorial ^ 2 = oddPart m.factorial) :
    mpz_fac_ui n = n.factorial :=
  mpz_fac_ui_eq n hn (fun _ _ => mpz_oddfac_1_of_swing n hn hsw)
example : mpz_2multiswing_1 900 * oddPart (Nat.factorial 450) ^ 2 = oddPart (Nat.factorial 900) := by decide +kernel

open Nat in
/-- mpz_2fac_ui n = n!! for every n below 2·FAC_DSC_THRESHOLD (even: odd factorial of n/2 × power of two;
    odd: table or limb-product basecase). -/
theorem two_fac_ui_spec_below_dsc (n : ℕ) (hn : n < B) (h : n < 2 * FAC_DSC_THRESHOLD) : mpz_2fac_ui n = n‼ := by
  rcases Nat.even_or_odd' n with ⟨k, rfl | rfl⟩
  · exact two_fac_even k hn (oddfac_1_spec_below_dsc k 0 (by omega) (by omega))
  · exact two_fac_odd (2 * k + 1) hn (by omega) (fun h2 => by have := FAC_2DSC_ge; omega)
example : mpz_2fac_ui 51 = 2980227913743310874726229193921875 ∧ mpz_2fac_ui 12 = 46080 := by decide +kernel

open Nat in
/- FULL STATEMENT (not proved): `∀ n < 2^64, mpz_2fac_ui n = n‼`; same gap as `fac_ui_spec_partial`. -/
/-- mpz_2fac_ui n = n!! for every n < 2^64, given correct swing factors (the odd case above
    FAC_2DSC_THRESHOLD is mpz_oddfac_1 with flag 1: the last square is skipped) -/
theorem two_fac_ui_spec_partial (n : ℕ) (hn : n < B)
    (hsw : ∀ m, FAC_DSC_THRESHOLD ≤ m → m ≤ n →
      mpz_2multiswing_1 m * oddPart (m / 2).factorial ^ 2 = oddPart m.factorial) :
    mpz_2fac_ui n = n‼ := by
  rcases Nat.even_or_odd' n with ⟨k, rfl | rfl⟩
  · exact two_fac_even k hn (mpz_oddfac_1_of_swing k (by omega) (fun m h1 h2 => hsw m h1 (by omega)))
  · exact two_fac_odd (2 * k + 1) hn (by omega) (fun _ => hsw)
example : mpz_2fac_ui 1801 = doubleFactorial 1801 := by decide +kernel

/-- the executable multifactorial spec obeys the defining recursion n!^(m) = n·(n-m)!^(m) -/
theorem multiFactorial_spec (n m : ℕ) (hm : 1 ≤ m) :
    multiFactorial n m = if n ≤ m then (if n = 0 then 1 else n) else n * multiFactorial (n - m) m :=
  multiFactorial_rec n m hm
example : multiFactorial 17 5 = 17 * 12 * 7 * 2 ∧ multiFactorial 0 3 = 1 := by decide +kernel

/-- mpz_mfac_uiui on the complete grid n < 80, 1 ≤ m < 24 (every gcd / m-class branch of mfac_uiui.c) -/
theorem mfac_uiui_small_spec : ∀ n < 80, ∀ m < 24, 1 ≤ m → mpz_mfac_uiui n m = multiFactorial n m := by
  decide +kernel
example : mpz_mfac_uiui 60 9 = 60 * 51 * 42 * 33 * 24 * 15 * 6 := by decide +kernel

/-- the executable primorial spec is Mathlib's `primorial` (product of the primes ≤ n) -/
theorem primorial_spec (n : ℕ) : primorial n = _root_.primorial n := primorial_eq n
example : primorial 12 = 2310 := by decide +kernel

/-- mpz_primorial_ui for every n < 400 (table, then the sieve walk with FACTOR_LIST_STORE) -/
theorem primorial_ui_small_spec : ∀ n < 400, mpz_primorial_ui n = _root_.primorial n := by
  simp only [← primorial_eq]
  decide +kernel
example : mpz_primorial_ui 30 = 6469693230 := by decide +kernel

/-! ## mpz_remove -/

/-- mpz_remove (model of mpz/remove.c: scan for f = 2, otherwise divide by f, f², f⁴, ... then back down):
    for every x ≠ 0 and f ≥ 2 the result (r, c) satisfies x = r·f^c and f ∤ r — all occurrences of the
    factor are removed and c is their number. -/
theorem remove_spec (x f : ℤ) (hf : 2 ≤ f) (hx : x ≠ 0) :
    ∃ r c, mpz_remove x f = some (r, c) ∧ x = r * f ^ c ∧ ¬ f ∣ r := by
  unfold mpz_remove
  have h1 : ¬ f ≤ 1 := by omega
  simp only [h1, hx, if_false]
  have ha0 : x.natAbs ≠ 0 := by omega
  by_cases h2 : f = 2
  · subst h2
    simp only [if_true]
    obtain ⟨e1, e2⟩ := ctzAux_spec (x.natAbs.log2 + 1) x.natAbs ha0 Nat.lt_log2_self
    have hnd : ¬ 2 ∣ x.natAbs >>> ctzAux (x.natAbs.log2 + 1) x.natAbs := by omega
    obtain ⟨s1, s2⟩ := signed_factor x _ 2 _ e1 hnd
    exact ⟨_, _, rfl, s1, s2⟩
  · simp only [h2, if_false]
    have hF : 3 ≤ f.toNat := by omega
    obtain ⟨m1, m2⟩ := mpz_remove_nat x.natAbs f.toNat ha0 hF
    obtain ⟨s1, s2⟩ := signed_factor x _ f.toNat _ m1 m2
    have hfc : ((f.toNat : ℕ) : ℤ) = f := Int.toNat_of_nonneg (by omega)
    rw [hfc] at s1 s2
    exact ⟨_, _, rfl, s1, s2⟩

example : mpz_remove (-2 ^ 70 * 3 ^ 5 * 7) 3 = some (-2 ^ 70 * 7, 5) ∧ mpz_remove 96 2 = some (3, 5) ∧
    mpz_remove (17 ^ 33) 17 = some (1, 33) := by decide +kernel

/-- f ≤ 1 (0, 1 and every negative f) raises DIVIDE_BY_ZERO in the C; 0 stays 0 -/
theorem remove_exceptions (x f : ℤ) : (f ≤ 1 → mpz_remove x f = none) ∧ (2 ≤ f → mpz_remove 0 f = some (0, 0)) := by
  unfold mpz_remove
  constructor
  · intro h; simp [h]
  · intro h; have : ¬ f ≤ 1 := by omega
    simp [this]
example : mpz_remove 5 1 = none ∧ mpz_remove 5 (-3) = none ∧ mpz_remove 0 7 = some (0, 0) := by decide +kernel

/-! ## Binomials -/

/-- mpz_bin_ui (model of mpz/bin_ui.c: sign rule for negative n, the bin(n,k) = bin(n,n-k) rewrite, the
    accumulate-and-divide loop whose DIVIDE steps are proved exact) for EVERY integer n and every k:
    binomial(n,k) for n ≥ 0 and (-1)^k binomial(-n+k-1,k) for n < 0. -/
theorem bin_ui_spec (n : ℤ) (k : ℕ) :
    mpz_bin_ui n k = if 0 ≤ n then ((n.toNat.choose k : ℕ) : ℤ)
      else (-1) ^ k * ((((-n).toNat + k - 1).choose k : ℕ) : ℤ) :=
  mpz_bin_ui_eq n k
example : mpz_bin_ui (-7) 3 = -84 ∧ mpz_bin_ui (2 ^ 70) 2 = 2 ^ 69 * (2 ^ 70 - 1) ∧ mpz_bin_ui 5 9 = 0 := by decide +kernel

/-- the executable spec `binom` used by the driver is `Nat.choose` -/
theorem binom_spec (n k : ℕ) : binom n k = n.choose k := binom_eq_choose n k
example : binom 67 33 = 14226520737620288370 := by decide +kernel

/-- mpz_bin_uiui for every n up to ODD_FACTORIAL_EXTTABLE_LIMIT and EVERY k: the k > n, k < 2 and
    `bc_bin_uiui` branches (odd-factorial table × two inverse-table entries × shift, all in limb
    arithmetic) give exactly binomial(n,k). -/
theorem bin_uiui_small_spec (n k : ℕ) (hn : n ≤ ODD_FACTORIAL_EXTTABLE_LIMIT) :
    mpz_bin_uiui n k = some (n.choose k) := by
  have hdec : ∀ n < ODD_FACTORIAL_EXTTABLE_LIMIT + 1, ∀ k < n + 1, mpz_bin_uiui n k = some (binom n k) := by
    decide +kernel
  by_cases hk : k ≤ n
  · rw [hdec n (by omega) k (by omega), binom_eq_choose]
  · have hlt : n < k := by omega
    unfold mpz_bin_uiui binDispatch
    simp [hlt, Nat.choose_eq_zero_of_lt hlt]
example : mpz_bin_uiui 67 33 = some 14226520737620288370 ∧ binDispatch 67 33 = (.bc, 33) := by decide +kernel

/- NOT PROVED as theorems: the other branches of mpz_bin_uiui (smallk, smallkdc, bdiv, Goetgheluck) for
   n > ODD_FACTORIAL_EXTTABLE_LIMIT.  Their models are compared with the implementation and with
   `binom` on a grid over every dispatch region and border on every run (see tools/props/c16_numth.py). -/

/-! ## The predicates of the correspondence run accept only what the property allows -/

open Mpir.Ops.Numth in
/-- If the driver's nextprime predicate accepts an implementation answer r for argument n, then r > n
    and there is no (real) prime strictly between: acceptance never hides a skipped prime. -/
theorem nextprime_pred_sound (n r : ℤ) (h : nextOk n r = none) :
    n < r ∧ ∀ j : ℕ, n < (j : ℤ) → (j : ℤ) < r → ¬ j.Prime :=
  nextOk_none n r h
open Mpir.Ops.Numth in
example : nextOk 113 127 = none ∧ nextOk 113 131 = some "prime-skipped" ∧ nextOk 113 113 ≠ none := by decide +kernel

open Mpir.Ops.Numth in
/-- If the driver's primality-code predicate accepts code r for n, then: r ≠ 0 whenever n is a (real)
    prime; r = 2 only when the oracle says prime; with ≥ 25 repetitions every oracle-composite has r = 0. -/
theorem prime_code_pred_sound (n : ℕ) (r : ℤ) (codes : List ℤ) (strict : Bool)
    (h : codeOk n r codes strict = none) :
    (n.Prime → r ≠ 0) ∧ (r = 2 → isPrime n = true) ∧ (strict = true → isPrime n = false → r = 0) :=
  codeOk_none n r codes strict h
open Mpir.Ops.Numth in
example : codeOk 97 1 [0, 1, 2] true = none ∧ codeOk 97 0 [0, 1, 2] false ≠ none ∧ codeOk 91 2 [0, 1, 2] false ≠ none ∧
    codeOk 561 1 [0, 1] true ≠ none := by decide +kernel

end Mpir.Numth
