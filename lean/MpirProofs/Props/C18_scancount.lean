/-
  C18, scanf side — the count returned by gmp_sscanf / gmp_fscanf for a format that is a LIST of directives.
  Property theorems only; the directive semantics (`Dir`, `render`, `stepDir`, `runDirs`, `countDirs`, the oracle for the
  standard conversions) and the lemmas are in MpirProofs/Lemmas/ScanfCount.lean.  Model: `doscan` / `scanRun`
  (Mpir/Model/Scanf.lean = scanf/doscan.c `__gmp_doscan`), tied by the ops gmp_sscanf / gmp_fscanf / gmp_vsscanf /
  gmp_vfscanf on generated multi-directive formats (tools/props/c18_scanrt2.py `multi`).
-/
import MpirProofs.Props.C18_scanrt
import MpirProofs.Lemmas.ScanfCount
namespace Mpir.Scanf
open Mpir.Printf

/-- `scan_count_oracle`: for EVERY oracle `O` standing for the C library's handling of the standard conversions (any
    function of the conversion and the input that answers "converted: value, characters, input left" / "matching failure" /
    "input failure" — C99 7.19.6.2), every list of directives and every state: the count `__gmp_doscan` returns is the
    number `k` of fields assigned before the first matching or input failure (`countDirs`: a directive counts exactly when
    it is a conversion — MPIR or standard — that completed and was not suppressed by `*`; white space, literals, `%%`, `%n`
    and suppressed conversions never count), and it is EOF (−1) exactly when the scan was stopped by an input failure with
    no field assigned so far. -/
theorem scan_count_oracle (O : Oracle) (dirs : List Dir) (inp : List Char) (r : ScanResult)
    (h : runDirs O dirs { inp := inp } = some r) :
    ∃ k e, countDirs O dirs { inp := inp } 0 = some (k, e) ∧
      r.fields = (if e = true ∧ k = 0 then -1 else (k : Int)) := by
  obtain ⟨k, e, h1, -, h3⟩ := runDirs_count O dirs { inp := inp } 0 r rfl h
  exact ⟨k, e, h1, h3⟩

/-- `scan_count_spec` (item 3, the count): for every well-formed list of directives — white-space directives, literal
    characters, `%%`, `%n` / `%*n`, `%[*][width]Z<c>` and `%[*][width]Q<c>` with c among d u i o x X, and the standard
    conversions `%[*][width]<c>` with c among d u i o x X s c handed to the C library — and every input:
    `gmp_sscanf (input, <the rendered format>, ...)` (the character-level model `doscan` of `__gmp_doscan`) returns the
    number of fields assigned before the first matching failure or input failure, and EOF exactly when an input failure
    happens with no field assigned; `%n` stores the character count but is not counted.
    PARTIAL with respect to the brief: (1) length modifiers (`%ld`, `%hhn`, `%Zn`) are not in `Dir` (the parser model has
    them, the run exercises `%ld %lx %li %lu %lo %ln %Zn`); (2) the locality statement "replacing everything after the
    consumed characters plus one leaves the result unchanged" is proved only for a single fixed-base `%Z` field
    (`scan_field_Z_fixed`: the input left is the input minus the characters counted), not for whole formats. -/
theorem scan_count_spec (dirs : List Dir) (hwf : ∀ d ∈ dirs, d.WF) (inp : List Char) (r : ScanResult)
    (h : doscan (dirs.flatMap Dir.render) inp = some r) :
    runDirs libcOracle dirs { inp := inp } = some r ∧
    ∃ k e, countDirs libcOracle dirs { inp := inp } 0 = some (k, e) ∧
      r.fields = (if e = true ∧ k = 0 then -1 else (k : Int)) := by
  unfold doscan at h
  rw [scanRun_dirs dirs hwf] at h
  exact ⟨h, scan_count_oracle libcOracle dirs inp r h⟩

/-- a format with every kind of directive: "x= %Zd,%*3Qi%n %d%%%5s" -/
def exDirs : List Dir :=
  [.lit 'x', .lit '=', .white ' ', .mpir false [] 'Z' 'd' 10, .lit ',', .mpir true ['3'] 'Q' 'i' 0, .count false, .white ' ',
   .libc false [] 'd', .pct, .libc false ['5'] 's']

-- non-vacuity: the rendered text, well-formedness, and the count at every stopping point
example : String.ofList (exDirs.flatMap Dir.render) = "x= %Zd,%*3Qi%n %d%%%5s" := by decide +kernel
example : ∀ d ∈ exDirs, d.WF := by
  intro d hd
  simp only [exDirs, List.mem_cons, List.not_mem_nil, or_false] at hd
  rcases hd with h | h | h | h | h | h | h | h | h | h | h <;> subst h <;> simp [Dir.WF, ConvChar] <;> decide
-- everything matches: Z, (suppressed Q), %n, d, %%, s: 3 fields; %n = 11 characters consumed when it is reached
example : view (doscan (exDirs.flatMap Dir.render) "x=  -12,0x7 77%hello world".toList) = some (3, [-12, 11] ++ [77] ++ "hello".toList.map (fun c => (c.toNat : Int)), " world") ∧
    countDirs libcOracle exDirs { inp := "x=  -12,0x7 77%hello world".toList } 0 = some (3, false) := by decide +kernel
-- input failure before the first conversion completes: EOF; literal mismatch: 0
example : view (doscan (exDirs.flatMap Dir.render) "x=".toList) = some (-1, [], "") ∧
    countDirs libcOracle exDirs { inp := "x=".toList } 0 = some (0, true) ∧
    view (doscan (exDirs.flatMap Dir.render) "y=1".toList) = some (0, [], "y=1") := by decide +kernel
-- input failure AFTER a field was assigned: the count, not EOF; the suppressed field and %n are not counted
example : view (doscan (exDirs.flatMap Dir.render) "x=5,".toList) = some (1, [5], "") ∧
    countDirs libcOracle exDirs { inp := "x=5,".toList } 0 = some (1, true) ∧
    view (doscan (exDirs.flatMap Dir.render) "x=5,12".toList) = some (1, [5, 6], "") := by decide +kernel
-- matching failure in the standard conversion: stops with the fields so far
example : view (doscan (exDirs.flatMap Dir.render) "x=5,1/2 zz".toList) = some (1, [5, 7], "zz") ∧
    countDirs libcOracle exDirs { inp := "x=5,1/2 zz".toList } 0 = some (1, false) := by decide +kernel

end Mpir.Scanf
