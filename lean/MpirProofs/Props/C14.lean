/-
  C14 — independence from tuning tables: every threshold vector shipped in the tree (each mpn/**/gmp-mparam.h with
  gmp-impl.h's defaults applied, regenerated from the source on every check into Mpir/Gen/ShippedParams.lean)
  satisfies the conditions the algorithms put on their thresholds (Mpir/Model/ParamsValid.lean), under every
  build configuration (native Karatsuba helpers or not, REDC_2 or not).
  Property theorems only.
-/
import Mpir.Model.ParamsValid
import Mpir.Gen.ShippedParams
namespace Mpir.Params

/-- Every shipped tuning table is valid: no dispatch chain hands an algorithm a size below its stated minimum,
    no recursion loses its base case, no fixed buffer is undersized, no threshold product overflows. -/
theorem all_shipped_params_valid : ∀ p ∈ Gen.shippedParams, Valid Gen.minSizes p := by
  decide +kernel

/-- The generated list is not empty (the theorem above is not vacuous) and contains the table of the pinned build. -/
theorem shipped_params_nonempty : 20 ≤ Gen.shippedParams.length ∧
    (Gen.shippedParams.map (·.file)).contains "mpn/x86_64/gmp-mparam.h" = true := by
  decide +kernel

private def sample : Params :=
  { file := "sample", mulKaratsuba := 16, mulToom3 := 105, mulToom4 := 246, mulToom8h := 303, mulFftFull := 3904,
    sqrBasecase := 0, sqrKaratsuba := 26, sqrToom3 := 162, sqrToom4 := 268, sqrToom8 := 348, sqrFftFull := 2880,
    mulhighBasecase := 10, mulhighDc := 27, mulmidToom42 := 36, dcDivQr := 30, invDivQr := 2089, dcDivQ := 44, invDivQ := 1470,
    dcBdivQr := 36, dcBdivQ := 44, binvNewton := 57, redc1ToRedc2 := 28, redc2ToRedcN := 0, redc1ToRedcN := 100,
    hgcd := 75, hgcdAppr := 50, mod11 := 6, mod12 := 8, mod13 := 19, getStrDc := 13, getStrPrecompute := 22,
    setStrDc := 890, setStrPrecompute := 2093, divremHenselQr1 := 996, rshDivremHenselQr1 := 5 }


private theorem mulMin_le (c : Cfg) (a : MulAlg) : mulMin Gen.minSizes c a ≤ sizeBound := by
  cases c with | mk k r => cases k <;> cases r <;> cases a <;> decide
private theorem sqrMin_le (c : Cfg) (a : SqrAlg) : sqrMin Gen.minSizes c a ≤ sizeBound := by
  cases c with | mk k r => cases k <;> cases r <;> cases a <;> decide

/-- For every shipped table, every build configuration and EVERY operand size n >= 1 (not only the sizes below
    `sizeBound` that `Valid` enumerates): the `if` chains of mpn_mul_n and mpn_sqr (mul_n.c:289-388, mirrored by
    `mulSel` / `sqrSel`) select an algorithm whose stated minimum size (MPN_*_MINSIZE of gmp-impl.h, regenerated) is at most n. -/
theorem shipped_dispatch_respects_minima :
    ∀ p ∈ Gen.shippedParams, ∀ c : Cfg, ∀ n, 1 ≤ n →
      mulMin Gen.minSizes c (mulSel p n) ≤ n ∧ sqrMin Gen.minSizes c (sqrSel p n) ≤ n := by
  intro p hp c n hn
  have hc : c ∈ allCfgs := by cases c with | mk k r => cases k <;> cases r <;> decide
  obtain ⟨_, h1, h2, _⟩ := all_shipped_params_valid p hp c hc
  by_cases hlt : n < sizeBound
  · exact ⟨h1 n hlt hn, h2 n hlt hn⟩
  · have hge : sizeBound ≤ n := Nat.le_of_not_lt hlt
    exact ⟨Nat.le_trans (mulMin_le c _) hge, Nat.le_trans (sqrMin_le c _) hge⟩

-- non-vacuity: with the table of the pinned build, n = 17 goes to Toom-3 exactly when the threshold allows it
example : mulSel sample 104 = .kara ∧ mulSel sample 105 = .toom3 ∧ sqrSel sample 26 = .kara ∧ sqrSel sample 25 = .sqrBasecase := by decide

-- non-vacuity: `Valid` accepts a real table …
example : Valid Gen.minSizes sample := by decide +kernel
-- … and rejects tables that break a stated requirement:
-- Toom-3 from n = 12 (toom3_mul_n.c:92 needs n >= 17)
example : ¬ Valid Gen.minSizes { sample with mulToom3 := 12 } := by decide +kernel
-- REDC_1 -> REDC_N "always": mpn_redc_n would be called with n <= 8 (redc_n.c:59)
example : ¬ Valid Gen.minSizes { sample with redc1ToRedc2 := 0 } := by decide +kernel
-- Karatsuba threshold 8 with the assembly karaadd/karasub: mpn_kara_mul_n is entered with n = 7 < 8
example : ¬ Valid Gen.minSizes { sample with mulKaratsuba := 8 } := by decide +kernel
-- GET_STR_DC_THRESHOLD above GET_STR_PRECOMPUTE_THRESHOLD overruns mpn_sb_get_str's stack buffers
example : ¬ Valid Gen.minSizes { sample with getStrDc := 40 } := by decide +kernel
-- RSH_DIVREM_HENSEL_QR_1_THRESHOLD = 2 would run the assembly mpn_rsh_divrem_hensel_qr_1_2 at n = 2, where it faults
example : ¬ Valid Gen.minSizes { sample with rshDivremHenselQr1 := 2 } := by decide +kernel
-- a "never" Toom-3 threshold overflows 2*MUL_TOOM3_THRESHOLD in mpn_mul
example : ¬ Valid Gen.minSizes { sample with mulToom3 := never } := by decide +kernel

end Mpir.Params
