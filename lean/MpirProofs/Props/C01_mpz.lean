/-
  C01, mpz object layer — mpz_mul, mul_ui, mul_si, addmul, submul, addmul_ui, submul_ui return the exact
  signed result as a well-formed object, for all well-formed inputs, every alias pattern and any
  allocation of the destination.  Property theorems only; helper lemmas live in
  MpirProofs/Lemmas/Mpz.lean and MpirProofs/Lemmas/MpzMul.lean.

  The theorems are about the executable model Mpir/Model/Mpz.lean (mirror of mpz/mul.c, mul_i.h,
  aorsmul.c, aorsmul_i.c), which the correspondence check runs against the real functions on every run,
  in every alias mode.  `mpn_mul`/`mpn_sqr` are the schoolbook product at this layer (the algorithm
  dispatch is the subject of the other C01 parts).  For `mpz_mul` the destination `w` is an arbitrary
  object with `1 ≤ alloc` and the alias pattern `al` is arbitrary, except that "u and v are the same
  variable" implies they are equal; for the accumulating forms `w` is an input and "w is also u" is the
  instance `w := u`.
-/
import MpirProofs.Lemmas.MpzMul
namespace Mpir.Mpz

/-- mpz_mul: exact product for every threshold, alias pattern and destination allocation. -/
theorem mpz_mul_exact (thr : Nat) (al : Alias) (w u v : Mpz) (hw : 1 ≤ w.alloc) (hu : WF u) (hv : WF v)
    (huv : al.uv = true → u = v) :
    toInt (mul thr al w u v) = toInt u * toInt v ∧ WF (mul thr al w u v) := by
  have h := mul_spec thr al w u v hw hu hv huv
  exact ⟨h.2, h.1⟩

-- non-vacuity: (B^2-1)·(-(B^2-1)) through the basecase path, and B·B (top product limb zero) through
-- the generic path with w = u = v
example : mul 17 {} init ⟨2, 2, [B - 1, B - 1]⟩ ⟨2, -2, [B - 1, B - 1]⟩
    = ⟨4, -4, [1, 0, B - 2, B - 1]⟩ := by decide
example : mul 17 ⟨true, true, true⟩ ⟨2, 2, [0, 1]⟩ ⟨2, 2, [0, 1]⟩ ⟨2, 2, [0, 1]⟩
    = ⟨4, 3, [0, 0, 1]⟩ := by decide
example : mul 17 {} init ⟨2, -2, [5, 7]⟩ ⟨1, -1, [B - 1]⟩ = ⟨3, 3, [B - 5, B - 3, 6]⟩ := by decide

/-- mpz_mul_ui. -/
theorem mpz_mul_ui_exact (w u : Mpz) (v : Nat) (hw : 1 ≤ w.alloc) (hu : WF u) (hv : v < B) :
    toInt (mul_ui w u v) = toInt u * (v : Int) ∧ WF (mul_ui w u v) := by
  have h := mul_i_spec w u v false hw hu hv
  exact ⟨by simpa [mul_ui] using h.2, h.1⟩

example : mul_ui init ⟨1, -1, [B - 1]⟩ (B - 1) = ⟨2, -2, [1, B - 2]⟩ := by decide

/-- mpz_mul_si, multiplier in the range of `long`. -/
theorem mpz_mul_si_exact (w u : Mpz) (v : Int) (hw : 1 ≤ w.alloc) (hu : WF u)
    (hv : -(2 ^ 63 : Int) ≤ v ∧ v < 2 ^ 63) :
    toInt (mul_si w u v) = toInt u * v ∧ WF (mul_si w u v) := by
  have hB : v.natAbs < B := by have := B_eq; omega
  have h := mul_i_spec w u v.natAbs (decide (v < 0)) hw hu hB
  refine ⟨?_, h.1⟩
  have e : (if decide (v < 0) = true then -(v.natAbs : Int) else (v.natAbs : Int)) = v := by
    by_cases hneg : v < 0
    · simp only [hneg, decide_true, if_true]; omega
    · simp only [hneg, decide_false, Bool.false_eq_true, if_false]; omega
  have h2 := h.2
  rw [e] at h2
  exact h2

example : mul_si init ⟨1, -1, [3]⟩ (-(2 ^ 63)) = ⟨2, 2, [2 ^ 63, 1]⟩ := by decide

/-- mpz_addmul: `w + u·v`. -/
theorem mpz_addmul_exact (w u v : Mpz) (hw : WF w) (hu : WF u) (hv : WF v) :
    toInt (addmul w u v) = toInt w + toInt u * toInt v ∧ WF (addmul w u v) := by
  have h := aorsmul_spec w u v false hw hu hv
  exact ⟨by simpa [addmul] using h.2, h.1⟩

-- -(B^2) + B·B cancels to zero; 1 + (B^2-1)·(B^2-1)
example : addmul ⟨3, -3, [0, 0, 1]⟩ ⟨2, 2, [0, 1]⟩ ⟨2, 2, [0, 1]⟩ = ⟨5, 0, []⟩ := by decide
example : addmul ⟨1, 1, [1]⟩ ⟨2, 2, [B - 1, B - 1]⟩ ⟨2, -2, [B - 1, B - 1]⟩
    = ⟨5, -4, [0, 0, B - 2, B - 1]⟩ := by decide

/-- mpz_submul: `w - u·v`. -/
theorem mpz_submul_exact (w u v : Mpz) (hw : WF w) (hu : WF u) (hv : WF v) :
    toInt (submul w u v) = toInt w - toInt u * toInt v ∧ WF (submul w u v) := by
  have h := aorsmul_spec w u v true hw hu hv
  exact ⟨by simpa [submul, Int.sub_eq_add_neg] using h.2, h.1⟩

example : submul ⟨1, 1, [5]⟩ ⟨2, 2, [3, 1]⟩ ⟨2, 2, [0, 1]⟩ = ⟨5, -3, [B - 5, 2, 1]⟩ := by decide

/-- mpz_addmul_ui: `w + u·v` for a one-limb unsigned `v`. -/
theorem mpz_addmul_ui_exact (w u : Mpz) (v : Nat) (hw : WF w) (hu : WF u) (hv : v < B) :
    toInt (addmul_ui w u v) = toInt w + toInt u * (v : Int) ∧ WF (addmul_ui w u v) := by
  have h := aorsmul_1_spec w u v false hw hu hv
  exact ⟨by simpa [addmul_ui] using h.2, h.1⟩

-- opposite signs, x longer than w, the borrow of mpn_submul_1 is 2^64-1 (aorsmul_i.c:167-170)
example : addmul_ui ⟨2, 2, [0, 1]⟩ ⟨3, -3, [B - 1, B - 1, 1]⟩ (B - 1)
    = ⟨4, -4, [1, B - 2, B - 3, 1]⟩ := by decide

/-- mpz_submul_ui: `w - u·v` for a one-limb unsigned `v`. -/
theorem mpz_submul_ui_exact (w u : Mpz) (v : Nat) (hw : WF w) (hu : WF u) (hv : v < B) :
    toInt (submul_ui w u v) = toInt w - toInt u * (v : Int) ∧ WF (submul_ui w u v) := by
  have h := aorsmul_1_spec w u v true hw hu hv
  exact ⟨by simpa [submul_ui, Int.sub_eq_add_neg] using h.2, h.1⟩

-- same length, borrow out of w: two's complement fix-up and sign flip (aorsmul_i.c:144-153)
example : submul_ui ⟨1, 1, [5]⟩ ⟨1, 1, [3]⟩ 2 = ⟨2, -1, [1]⟩ := by decide
example : submul_ui ⟨2, 2, [0, 1]⟩ ⟨2, 2, [1, 1]⟩ (B - 1) = ⟨3, -2, [B - 1, B - 2]⟩ := by decide
-- the held -1 (cy2) of aorsmul_i.c:169-178
example : toInt (submul_ui ⟨1, 1, [5]⟩ ⟨2, 2, [1, 1]⟩ 1) = 5 - (B + 1) := by decide

/-- C05 for mpz_mul at the level of this model: every alias pattern and every destination give the
    value of the call on distinct variables (`{}` = no two arguments are the same variable). -/
theorem mpz_mul_alias_ok (thr : Nat) (al : Alias) (w w' u v : Mpz) (hw : 1 ≤ w.alloc) (hw' : 1 ≤ w'.alloc)
    (hu : WF u) (hv : WF v) (huv : al.uv = true → u = v) :
    toInt (mul thr al w u v) = toInt (mul thr {} w' u v) := by
  rw [(mpz_mul_exact thr al w u v hw hu hv huv).1,
    (mpz_mul_exact thr {} w' u v hw' hu hv (by intro h; cases h)).1]

example : toInt (mul 17 ⟨true, true, true⟩ ⟨2, -2, [3, 1]⟩ ⟨2, -2, [3, 1]⟩ ⟨2, -2, [3, 1]⟩)
    = toInt (mul 17 {} init ⟨2, -2, [3, 1]⟩ ⟨2, -2, [3, 1]⟩) := by decide

end Mpir.Mpz
