/-
  C01, mpz object layer — mpz_mul, mul_ui, mul_si, addmul, submul, addmul_ui, submul_ui return the exact
  signed result as a well-formed object, for all well-formed inputs, every alias pattern and any
  allocation of the destination.  Property theorems only; helper lemmas live in MpirProofs/Lemmas/Mpz.lean.
-/
import MpirProofs.Lemmas.Mpz
namespace Mpir.Mpz
end Mpir.Mpz
