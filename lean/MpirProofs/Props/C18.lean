/-
  C18 — formatted output follows C printf semantics extended to the MPIR types.
  Property theorems only; helper lemmas live in MpirProofs/Lemmas/Printf.lean.  Every theorem is about the
  executable model in Mpir/Model/Printf.lean, which the correspondence check runs against the real
  gmp_*printf functions (and glibc's snprintf) on every run.
-/
import MpirProofs.Lemmas.Printf
namespace Mpir.Printf

/-- gmp_snprintf / gmp_vsnprintf (bounded writer of printf/snprntffuns.c), for every buffer size and every
    sequence of output callbacks: at most `size` bytes are stored (terminator included), the return value
    is the full length of the untruncated output, and the text stored is its first `size-1` bytes. -/
theorem snprintf_bound (size : Nat) (cs : List Call) :
    (snRun size cs).stored ≤ size ∧
    (snRun size cs).ret = (callsBytes cs).length ∧
    (snRun size cs).text = (callsBytes cs).take (size - 1) := by
  obtain ⟨h1, h2, h3⟩ := snCalls_spec cs { size := size } 0
  simp only [snRun]
  refine ⟨?_, by simpa using h1, by simpa using h2⟩
  simp only [h2, h3, List.nil_append, List.length_take]
  split <;> omega

-- non-vacuity: "-12" ++ padding into a 4-byte buffer: 3 bytes + terminator stored, 6 returned
example : snRun 4 [.reps '-' 1, .memory ['1', '2'], .reps ' ' 3] = { ret := 6, text := ['-', '1', '2'], stored := 4 } := by
  decide
example : snRun 0 [.memory ['1', '2']] = { ret := 2, text := [], stored := 0 } := by decide

/-- `doprnti_big_layout`: for every value of every size (in particular beyond every C integer type), every list
    of flag characters in any order, every width and precision form, every integer conversion: the bytes
    produced for `%<flags><width><prec>Z<conv>` are the C99 padding, sign and prefix rules (`layoutCore`)
    placed around the mpz_get_str digits of |v|, with o/x/X signed as the manual says.
    Outside: an empty precision `.` (documented: "not given") and `#` with precision 0 on the value 0 in
    base 16 (prints the bare prefix). -/
theorem doprnti_big_layout (fl : List Char) (w : WidthArg) (p : PrecArg) (conv : Conv) (v : Int)
    (hp : p ≠ .dot) (hx : ¬ ('#' ∈ fl ∧ cPrec p = some 0 ∧ v = 0 ∧ conv.base = 16)) :
    layoutModel fl w p conv v =
      layoutCore (cFlags fl w) (cWidth w) (cPrec p) conv.base conv.upper
        (signChars (cFlags fl w) (decide (v < 0))) v.natAbs :=
  layoutModel_eq_spec fl w p conv v hp hx

-- non-vacuity: −10^40 in hex with `#`, `+`, zero padding to 40 columns
example : String.ofList (layoutModel ['#', '+', '0'] (.num 40) .none .x (-(10 : Int) ^ 40)) =
    "-0x0001d6329f1c35ca4bfabb9f5610000000000" := by decide +kernel
example : String.ofList (layoutModel [' ', '-'] (.star (-12)) (.num 5) .o (2 ^ 64)) =
    " 2000000000000000000000" := by decide +kernel

/-- `doprnti_eq_c99`: for every value that fits a `long`, every list of flag characters (any order, repeats),
    every width form {none, number, `*` with any int incl. negative}, every precision form {none, number,
    `*` with any int incl. negative} and every conversion d i o x X to which C gives a meaning, outside the
    documented deviations (`Comparable`): the bytes of `gmp_printf ("%…Z<conv>", v)` are exactly the bytes
    ISO C99 prescribes for `printf ("%…l<conv>", (long) v)`. -/
theorem doprnti_eq_c99 (fl : List Char) (w : WidthArg) (p : PrecArg) (conv : Conv) (v : Int)
    (hv : -(2 ^ 63 : Int) ≤ v ∧ v < 2 ^ 63) (hc : Comparable fl p conv v) :
    layoutModel fl w p conv v = cprintfIntL (cFlags fl w) (cWidth w) (cPrec p) conv v := by
  obtain ⟨hu, hp, hs, hx⟩ := hc
  rw [layoutModel_eq_spec fl w p conv v hp hx]
  unfold gmpLayoutSpec cprintfIntL cFormatInt cFormatCore
  cases hsg : conv.signed with
  | true =>
    have hw : ((v + 2 ^ (64 - 1)) % 2 ^ 64) - 2 ^ (64 - 1) = v := by omega
    simp only [hw, if_true]
  | false =>
    rcases hs with hs | ⟨h0, hplus, hspace⟩
    · rw [hsg] at hs; cases hs
    · have hm : (v % 2 ^ 64).toNat = v.natAbs := by omega
      have hneg : ¬ v < 0 := by omega
      simp only [hm, Bool.false_eq_true, if_false, signChars, hneg, decide_false, cFlags]
      simp [hplus, hspace]

/-- the same statement for the `String` the specification function `cprintfInt` returns -/
theorem doprnti_eq_c99_string (fl : List Char) (w : WidthArg) (p : PrecArg) (conv : Conv) (v : Int)
    (hv : -(2 ^ 63 : Int) ≤ v ∧ v < 2 ^ 63) (hc : Comparable fl p conv v) :
    String.ofList (layoutModel fl w p conv v) = cprintfInt (cFlags fl w) (cWidth w) (cPrec p) conv v := by
  rw [doprnti_eq_c99 fl w p conv v hv hc]; rfl

-- non-vacuity: the hypotheses hold and both sides are the expected text
example : Comparable ['-', '0'] .none .d 1 := by decide
example : String.ofList (layoutModel ['-', '0'] (.num 5) .none .d 1) = "1    " ∧
    cprintfInt (cFlags ['-', '0'] (.num 5)) 5 none .d 1 = "1    " := by decide +kernel
example : cprintfInt { hash := true } 0 (some 5) .o 1 = "00001" ∧ cprintfInt { zero := true } 5 (some 3) .d 1 = "  001" ∧
    cprintfInt { plus := true, space := true } 0 none .d 0 = "+0" ∧
    cprintfInt {} 0 none .x (-1) = "ffffffffffffffff" := by decide +kernel
-- what the code did before commits 802f527, bbc62f3, 214972f, 68441a0 (the five defect classes found here):
example : String.ofList (layoutModelG true ['-', '0'] (.num 5) .none .d 1) = "10000" := by decide +kernel       -- D1 "%-05Zd"
example : String.ofList (layoutModelG true ['0'] (.num 5) (.num 3) .d 1) = "00001" := by decide +kernel         -- D2 "%05.3Zd"
example : String.ofList (layoutModelG true ['#'] .none (.num 5) .o 1) = "000001" := by decide +kernel           -- D3 "%#.5Zo"
example : String.ofList (layoutModelG true ['+', ' '] .none .none .d 0) = " 0" := by decide +kernel              -- D4 "%+ Zd"
example : String.ofList (layoutModelG true [] .none (.star (-1)) .d 0) = "" := by decide +kernel                 -- D5 "%.*Zd", -1
-- the documented deviations really are outside the C comparison
example : String.ofList (layoutModel ['+'] .none .none .x 1) = "+1" ∧ cprintfInt { plus := true } 0 none .x 1 = "1" := by
  decide +kernel
example : String.ofList (layoutModel ['#'] .none (.num 0) .x 0) = "0x" ∧ cprintfInt { hash := true } 0 (some 0) .x 0 = "" := by
  decide +kernel
example : String.ofList (layoutModel [] .none .dot .d 0) = "0" ∧ cprintfInt {} 0 (some 0) .d 0 = "" := by decide +kernel


/-- `asprintf_block`: gmp_asprintf / gmp_vasprintf, for every sequence of output callbacks (pieces formatted
    by the C library, MPIR digit strings, padding runs of any length): the growth loop terminates, no store
    goes outside the current allocation (`ok`), the text is the whole output, and the block handed to the
    caller has exactly length+1 bytes. -/
theorem asprintf_block (cs : List Call) :
    ∃ r, asRun cs = some r ∧ r.block = r.ret + 1 ∧ r.ret = (callsBytes cs).length ∧
      r.text = callsBytes cs ∧ r.ok = true := by
  obtain ⟨d, e, ⟨i1, i2⟩, b⟩ := asCalls_spec cs {} ⟨by decide, rfl⟩
  refine ⟨{ ret := (callsBytes cs).length, text := d.buf, block := d.buf.length + 1,
             ok := d.ok && decide (d.buf.length + 1 ≤ d.alloc) }, by simp only [asRun, e], ?_, rfl, ?_, ?_⟩
  · simp [b]
  · simpa using b
  · simp [i2]; exact i1

-- non-vacuity: a 300-byte padding run forces the 256-byte buffer to grow (to 2*300) and shrink to 301
example : (asRun [.reps ' ' 300]).map (fun r => (r.ret, r.block, r.ok)) = some (300, 301, true) := by decide +kernel
example : (asCalls {} [.reps ' ' 300]).map (fun d => d.reallocs) = some [(256, 600)] := by decide +kernel
-- a libc piece of exactly 511 bytes returns space-1 and makes vasprintf.c's loop go round again (space *= 2);
-- a longer one takes the `space = ret+2` exit
example : (asCalls {} [.format (List.replicate 511 'x')]).map (fun d => (d.alloc, d.ok)) = some (2048, true) := by
  decide +kernel
example : (asCalls {} [.format (List.replicate 600 'x')]).map (fun d => (d.alloc, d.ok)) = some (1204, true) := by
  decide +kernel


/-- `parser_total_partial`: "standard conversions mixed into the format are unaffected", in the part that is
    proved: a format string in which none of the characters `Z Q N M F n a A e E f g G` occurs (no MPIR type,
    no `%n`, no float conversion), whatever else it contains (flags, `*`, every length modifier, `%%`, `'`,
    unknown conversion characters), is consumed to its end and handed to the C library in one piece,
    unchanged, with the original argument list; nothing else is written and nothing is stored.
    FULL STATEMENT (not proved here, covered by the correspondence run on mixed formats only): for every
    format string the calls are the maximal pieces between MPIR conversions, each piece unchanged (with `M`
    replaced by `ll`) and given the arguments not yet consumed, interleaved with the MPIR conversions'
    own output; `%n` stores the running total. -/
theorem parser_total_partial (fmt : List Char) (args : List Arg) (h : ∀ c ∈ fmt, c ∉ mpirChars)
    (r : DoprntResult) (hr : doprnt fmt args = some r) :
    r.stores = [] ∧
    ((fmt = [] ∧ r.calls = [] ∧ r.retval = 0) ∨
     ∃ out, libcFormat fmt args = some out ∧ r.calls = [.format out] ∧ r.retval = out.length) := by
  unfold doprnt doprntG at hr
  cases hrun : run false fmt .text { ap := args, lastAp := args } with
  | none => rw [hrun] at hr; cases hr
  | some st =>
    rw [hrun] at hr
    simp only [Option.some.injEq] at hr
    subst hr
    have := run_forward args fmt .text { ap := args, lastAp := args } h trivial rfl rfl rfl rfl st hrun
    simpa using this

-- non-vacuity: a format with flags, `*`, length modifiers and %% is forwarded whole
example : (doprnt "a%-*ld|%#hhx%%%5s".toList [.int 6, .int (-42), .int 511, .str "xy".toList]).map (fun r => r.calls) =
    some [.format "a-42   |0xff%   xy".toList] := by decide +kernel
-- and with an MPIR conversion in the middle the two outer pieces go to the C library with the right arguments
example : (doprnt "%d<%Zx>%s".toList [.int 7, .mpz 255, .str "z".toList]).map (fun r => r.calls) =
    some [.format ['7', '<'], .memory ['f', 'f'], .format ['>', 'z']] := by decide +kernel


/-- `doprnti_big_layout_length`: consequences of `doprnti_big_layout` for values of any size: the output is
    max (width, sign + prefix + precision zeros + digits) bytes long, and when the width does not exceed
    that, it is exactly the sign followed by prefix, zeros and the mpz_get_str digits (no padding at all). -/
theorem doprnti_big_layout_length (fl : List Char) (w : WidthArg) (p : PrecArg) (conv : Conv) (v : Int)
    (hp : p ≠ .dot) (hx : ¬ ('#' ∈ fl ∧ cPrec p = some 0 ∧ v = 0 ∧ conv.base = 16)) :
    let sign := signChars (cFlags fl w) (decide (v < 0))
    let body := layoutBody (cFlags fl w) (cPrec p) conv.base conv.upper v.natAbs
    (layoutModel fl w p conv v).length = max (cWidth w) (sign.length + body.length) ∧
    (cWidth w ≤ sign.length + body.length → layoutModel fl w p conv v = sign ++ body) := by
  rw [doprnti_big_layout fl w p conv v hp hx]
  exact layoutCore_length _ _ _ _ _ _ _

-- non-vacuity: 2^64 with width 5 is the 20 digits alone; with width 25 it is 25 bytes
example : (layoutModel [] (.num 5) .none .d (2 ^ 64)).length = 20 ∧ (layoutModel ['-'] (.num 25) .none .d (2 ^ 64)).length = 25 := by
  decide +kernel


end Mpir.Printf

namespace Mpir.Scanf
open Mpir.Printf

/-- `scan_print_roundtrip_partial`: the conversion at the bottom of gmp_sscanf("%Zd") (mpz_set_str, base 10) gives
    back every integer from the digit string at the bottom of gmp_printf("%Zd") (mpz_get_str), for all values.
    FULL STATEMENT (not proved; exercised by the `gmp_print_scan_Z/Q` ops over the whole flag/width/precision grid):
    for every v and every print format % flags width prec Z conv with at least one digit printed,
    `doscan "%Z<conv'>" (callsBytes (doprnt fmt [v]))` returns count 1 and the value v, where conv' is the matching
    read conversion (d for d/i, o for o, x for x/X without `#`, i for `#` forms); the same for Q. -/
theorem scan_print_roundtrip_partial (v : Int) : setStr (mpzGetStr 10 v) 10 = some v :=
  setStr_getStr10 v

-- non-vacuity, through the whole model: print with flags and width, scan the text back
example : ((doprnt "%+-12Zd|".toList [.mpz (-(10 : Int) ^ 5)]).bind
    (fun r => doscan "%Zd".toList (callsBytes r.calls))).map (fun s => (s.fields, s.rest)) =
    some (1, "     |".toList) := by decide +kernel
example : (doscan "%Zi %Qi%n".toList "-0x1f 0x10/0x11;".toList).map (fun s => s.fields) = some 2 := by decide +kernel
-- the scanner takes no 0x prefix in a fixed base (observation S1): "%Zx" stops after the 0
example : (gmpscan { base := 16, type := 'Z' } "0x1f".toList).ret = 1 := by decide +kernel

end Mpir.Scanf

