/-
  C18 — formatted output follows C printf semantics extended to the MPIR types.
  Property theorems only; helper lemmas live in MpirProofs/Lemmas/Printf.lean.  Every theorem is about the
  executable model in Mpir/Model/Printf.lean, which the correspondence check runs against the real
  gmp_*printf functions (and glibc's snprintf) on every run.
-/
import MpirProofs.Lemmas.Printf
namespace Mpir.Printf

/-- gmp_snprintf / gmp_vsnprintf (bounded writer of printf/snprntffuns.c), for every buffer size and every
    sequence of output callbacks: at most `size` bytes are stored (terminator included), the return value
    is the full length of the untruncated output, and the text stored is its first `size-1` bytes. -/
theorem snprintf_bound (size : Nat) (cs : List Call) :
    (snRun size cs).stored ≤ size ∧
    (snRun size cs).ret = (callsBytes cs).length ∧
    (snRun size cs).text = (callsBytes cs).take (size - 1) := by
  obtain ⟨h1, h2, h3⟩ := snCalls_spec cs { size := size } 0
  simp only [snRun]
  refine ⟨?_, by simpa using h1, by simpa using h2⟩
  simp only [h2, h3, List.nil_append, List.length_take]
  split <;> omega

-- non-vacuity: "-12" ++ padding into a 4-byte buffer: 3 bytes + terminator stored, 6 returned
example : snRun 4 [.reps '-' 1, .memory ['1', '2'], .reps ' ' 3] = { ret := 6, text := ['-', '1', '2'], stored := 4 } := by
  decide
example : snRun 0 [.memory ['1', '2']] = { ret := 2, text := [], stored := 0 } := by decide

end Mpir.Printf
