/- Line-protocol driver.  Input lines: `op tok ... => impl-tok ...` (the part after `=>` is the
   implementation's answer, needed only by predicate ops).  Output per line: the model's answer,
   or `~ok` / `~bad:<why>` for predicate ops, or `?parse` / `?op`. -/
import Mpir.Ops.All
open Mpir

def words (s : String) : List String := (s.trimAscii.toString.splitOn " ").filter (· ≠ "")

def answer (line : String) : String :=
  let (lhs, rhs) := match line.splitOn " => " with
    | [a] => (a, "")
    | a :: rest => (a, " => ".intercalate rest)
    | [] => ("", "")
  match words lhs with
  | [] => ""
  | op :: args =>
    match args.mapM parseTok? with
    | none => "?parse"
    | some toks =>
      match Mpir.Ops.handlers.findSome? (fun h => h op toks) with
      | some out => renderLine out
      | none =>
        let impl := ((words rhs).mapM parseTok?).getD [Tok.err "unparsable"]
        match Mpir.Ops.predHandlers.findSome? (fun h => h op toks impl) with
        | some none => "~ok"
        | some (some why) => "~bad:" ++ why
        | none => "?op"

partial def loop (h : IO.FS.Stream) (out : IO.FS.Stream) : IO Unit := do
  let line ← h.getLine
  if line.isEmpty then return ()
  out.putStrLn (answer line)
  loop h out

def main : IO Unit := do
  let out ← IO.getStdout
  loop (← IO.getStdin) out
  out.flush
