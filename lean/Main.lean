/- Line-protocol driver.  Input lines: `op tok ... => impl-tok ...` (the part after `=>` is the
   implementation's answer, needed only by predicate ops).  Output per line: the model's answer,
   or `~ok` / `~bad:<why>` for predicate ops, or `?parse` / `?op`.
   Ops whose name starts with `@` are stateful (histories); `@reset` re-initialises every stateful handler. -/
import Mpir.Ops.All
open Mpir

def words (s : String) : List String := (s.trimAscii.toString.splitOn " ").filter (· ≠ "")

def splitLine (line : String) : String × String :=
  match line.splitOn " => " with
  | [a] => (a, "")
  | a :: rest => (a, " => ".intercalate rest)
  | [] => ("", "")

def answerPure (op : String) (toks : List Tok) (rhs : String) : String :=
  match Mpir.Ops.handlers.findSome? (fun h => h op toks) with
  | some out => renderLine out
  | none =>
    let impl := ((words rhs).mapM parseTok?).getD [Tok.err "unparsable"]
    match Mpir.Ops.predHandlers.findSome? (fun h => h op toks impl) with
    | some none => "~ok"
    | some (some why) => "~bad:" ++ why
    | none => "?op"

def answer (sts : List StatefulHandler) (line : String) : IO String := do
  let (lhs, rhs) := splitLine line
  match words lhs with
  | [] => pure ""
  | op :: args =>
    match args.mapM parseTok? with
    | none => pure "?parse"
    | some toks =>
      if op == "@reset" then
        for s in sts do s.reset
        pure "ok"
      else if op.startsWith "@" then
        let mut res : Option (List Tok) := none
        for s in sts do
          if res.isNone then res ← s.run op toks
        match res with
        | some out => pure (renderLine out)
        | none => pure (answerPure op toks rhs)
      else pure (answerPure op toks rhs)

partial def loop (sts : List StatefulHandler) (h : IO.FS.Stream) (out : IO.FS.Stream) : IO Unit := do
  let line ← h.getLine
  if line.isEmpty then return ()
  out.putStrLn (← answer sts line)
  loop sts h out

def main : IO Unit := do
  let out ← IO.getStdout
  let sts ← Mpir.Ops.statefulMakers.mapM id
  loop sts (← IO.getStdin) out
  out.flush
