import MpirProofs.Lemmas.Base
import MpirProofs.Lemmas.Kernels
import MpirProofs.Props.C03
import MpirProofs.Lemmas.Mpq
import MpirProofs.Lemmas.MpqConv
import MpirProofs.Props.C12
import MpirProofs.Props.C11Mpq
