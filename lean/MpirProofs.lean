import MpirProofs.Lemmas.Base
import MpirProofs.Lemmas.Kernels
import MpirProofs.Props.C03
import MpirProofs.Lemmas.Mpf
import MpirProofs.Props.C13
