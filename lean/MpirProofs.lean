import MpirProofs.Lemmas.Base
import MpirProofs.Lemmas.Kernels
import MpirProofs.Props.C03
import MpirProofs.Lemmas.MpzKernel
import MpirProofs.Lemmas.Mpz
import MpirProofs.Lemmas.MpzMul
import MpirProofs.Props.C03_mpz
import MpirProofs.Props.C01_mpz
