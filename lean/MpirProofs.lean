import MpirProofs.Lemmas.Base
import MpirProofs.Lemmas.Kernels
import MpirProofs.Props.C03
import MpirProofs.Lemmas.DivZ
import MpirProofs.Props.C02_mpz
