import MpirProofs.Lemmas.Base
import MpirProofs.Lemmas.Kernels
import MpirProofs.Props.C03
import MpirProofs.Lemmas.MulAlgo
import MpirProofs.Lemmas.MulDispatch
import MpirProofs.Lemmas.FftParams
import MpirProofs.Props.C01_algo
