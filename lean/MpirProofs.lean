import MpirProofs.Lemmas.Base
import MpirProofs.Lemmas.Kernels
import MpirProofs.Props.C03
import MpirProofs.Lemmas.Io
import MpirProofs.Props.C17
