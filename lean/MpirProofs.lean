import MpirProofs.Lemmas.Base
import MpirProofs.Lemmas.Kernels
import MpirProofs.Lemmas.Radix
import MpirProofs.Props.C03
import MpirProofs.Props.C06
