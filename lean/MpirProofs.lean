import MpirProofs.Lemmas.Base
import MpirProofs.Lemmas.Kernels
import MpirProofs.Lemmas.Life
import MpirProofs.Props.C03
import MpirProofs.Props.C04
