import MpirProofs.Lemmas.Base
import MpirProofs.Lemmas.Kernels
import MpirProofs.Props.C03
import MpirProofs.Lemmas.Root
import MpirProofs.Props.C09
