import MpirProofs.Lemmas.Base
import MpirProofs.Lemmas.Kernels
import MpirProofs.Props.C03
import MpirProofs.Lemmas.DivWord
import MpirProofs.Props.C02_word
