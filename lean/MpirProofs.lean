import MpirProofs.Lemmas.Base
import MpirProofs.Lemmas.Kernels
import MpirProofs.Props.C03
import MpirProofs.Lemmas.Printf
import MpirProofs.Props.C18
