import MpirProofs.Lemmas.Base
import MpirProofs.Lemmas.Kernels
import MpirProofs.Props.C03
import MpirProofs.Lemmas.DivWord
import MpirProofs.Lemmas.DivWordExact
import MpirProofs.Lemmas.DivWord3by2
import MpirProofs.Lemmas.DivWordHensel
import MpirProofs.Props.C02_word
