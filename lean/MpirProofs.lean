import MpirProofs.Lemmas.Base
import MpirProofs.Lemmas.Kernels
import MpirProofs.Props.C03
import MpirProofs.Lemmas.RandLc
import MpirProofs.Lemmas.RandMt
import MpirProofs.Lemmas.Rand
import MpirProofs.Lemmas.RandRr
import MpirProofs.Props.C19
