import Mpir.Base
import Mpir.Proto
import Mpir.Ops.All
