/* mpn_mullow_n (property C01) answered by the value model of Mpir/Model/MulLow.lean (the op of the same function in
   ops_mul.c is answered by the specification). */
#include "harness.h"
#include "gmp-impl.h"
#define NEED(c) do { if (!(c)) return -1; } while (0)

/* mlx_mullow_n [x] [y]: equal lengths n >= 1; the function stores 2n limbs, the low n are the result */
static int op_mullow(int argc, tok_t *a, out_t *o) {
  NEED(argc == 2 && a[0].kind == T_VEC && a[1].kind == T_VEC && a[0].n == a[1].n && a[0].n >= 1);
  long n = a[0].n; mp_limb_t *rp = dst_new(2 * n);
  mpn_mullow_n(rp, a[0].d, a[1].d, n);
  out_vec(o, rp, n); if (!dst_ok(rp, 2 * n)) out_err(o, "oob"); dst_free(rp); return 0;
}
const opdef_t ops_mullow[] = { {"mlx_mullow_n", op_mullow}, {0, 0} };
