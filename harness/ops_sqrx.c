/* The squaring variants (property C01): the real mpn_kara_sqr_n / mpn_toom3_sqr_n / mpn_toom4_sqr_n, answered on the Lean
   side by the squaring-specific value models of Mpir/Model/SqrAlgo.lean (op names of their own: the ops of ops_mul.c
   with the same C functions are answered by the multiplication models). */
#include "harness.h"
#include "gmp-impl.h"
#define NEED(c) do { if (!(c)) return -1; } while (0)

typedef void (*fn_sq_ws_t)(mp_ptr, mp_srcptr, mp_size_t, mp_ptr);
static int do_sq_ws(fn_sq_ws_t f, long minn, long ws_n, int argc, tok_t *a, out_t *o) {
  NEED(argc == 1 && a[0].kind == T_VEC && a[0].n >= minn);
  long n = 2 * a[0].n; mp_limb_t *rp = dst_new(n), *ws = dst_new(ws_n);
  f(rp, a[0].d, a[0].n, ws);
  out_vec(o, rp, n);
  if (!dst_ok(ws, ws_n) || !dst_ok(rp, n)) out_err(o, "oob");
  dst_free(ws); dst_free(rp); return 0;
}
/* sqrx_kara_sqr_n [a]: n >= MPN_KARA_SQR_N_MINSIZE; scratch MPN_KARA_SQR_N_TSIZE(n) */
static int op_kara(int argc, tok_t *a, out_t *o) {
  NEED(argc == 1 && a[0].kind == T_VEC);
  return do_sq_ws(mpn_kara_sqr_n, MPN_KARA_SQR_N_MINSIZE, MPN_KARA_SQR_N_TSIZE(a[0].n), argc, a, o);
}
/* sqrx_toom3_sqr_n [a]: ASSERT(n >= 17) (toom3_mul_n.c:266); scratch MPN_TOOM3_SQR_N_TSIZE(n) */
static int op_toom3(int argc, tok_t *a, out_t *o) {
  NEED(argc == 1 && a[0].kind == T_VEC);
  return do_sq_ws(mpn_toom3_sqr_n, MPN_TOOM3_SQR_N_MINSIZE, MPN_TOOM3_SQR_N_TSIZE(a[0].n), argc, a, o);
}
/* sqrx_toom4_sqr_n [a]: n >= MPN_TOOM4_SQR_N_MINSIZE; allocates its own scratch */
static int op_toom4(int argc, tok_t *a, out_t *o) {
  NEED(argc == 1 && a[0].kind == T_VEC && a[0].n >= MPN_TOOM4_SQR_N_MINSIZE);
  long n = 2 * a[0].n; mp_limb_t *rp = dst_new(n);
  mpn_toom4_sqr_n(rp, a[0].d, a[0].n);
  out_vec(o, rp, n); if (!dst_ok(rp, n)) out_err(o, "oob"); dst_free(rp); return 0;
}
const opdef_t ops_sqrx[] = {
  {"sqrx_kara_sqr_n", op_kara}, {"sqrx_toom3_sqr_n", op_toom3}, {"sqrx_toom4_sqr_n", op_toom4},
  {0, 0}
};
