/* C02, part c02_tdivq: the glue of mpn_tdiv_q (mpn/generic/tdiv_q.c).
   Model: lean/Mpir/Model/TdivQ.lean; theorems: lean/MpirProofs/Props/C02_tdivq.lean.

   tdiv_q_model [n] [d] DC_DIV_Q INV_DIV_Q DC_DIVAPPR_Q INV_DIVAPPR_Q
       calls the REAL mpn_tdiv_q (destination with guard limbs, operands checked unmodified) and prints
         q   branch   callee
       branch (recomputed here from the inputs): 0 dn == 1; 1 / 2 first branch (qn + FUDGE >= dn), divisor
       unnormalised / normalised; 3 / 4 second branch.  callee: 0 divrem_1, 1 divrem_2, 2 sb_div_q, 3 dc_div_q,
       4 inv_div_q, 5 sb_divappr_q, 6 dc_divappr_q, 7 inv_divappr_q, recomputed with the thresholds this harness was
       compiled with.  The four numbers on the line are the thresholds the generator read from the tree under test
       (gmp-mparam.h); the Lean side gets them from the line; `!thr` here if they are not the compiled-in ones.

   tdiv_q_guard [n] [d]
       what the second branch of tdiv_q.c computes, on the same truncated, shifted operands, with the REAL
       mpn_divrem_2 / mpn_sb_divappr_q / mpn_dc_divappr_q / mpn_inv_divappr_q (the ~90 lines :198-291 copied below
       with the intermediate values kept).  Accepts every shape with qn + 2 <= dn (FUDGE >= 1), not only those
       mpn_tdiv_q itself routes there.  Prints
         tp (qn+1 limbs, tp[0] = guard limb)   multiply-back done (0/1)   decrement done (0/1)   qp (qn limbs)
       The Lean side is a predicate: the claims of truncated_quotient_budget / guard_constant_sound / finish2. */
#include "harness.h"
#include "gmp-impl.h"
#include "longlong.h"
#define NEED(c) do { if (!(c)) return -1; } while (0)
#define VEC2 (argc >= 2 && a[0].kind == T_VEC && a[1].kind == T_VEC)
#define TOPNZ(t) ((t).n >= 1 && (t).d[(t).n - 1] != 0)
#define IS_UI(t) ((t).kind == T_NUM && !(t).neg && (t).n <= 1)
#define TQ_FUDGE 5          /* tdiv_q.c:79 */

static mp_limb_t *dcopy(const mp_limb_t *p, long n) { mp_limb_t *r = dst_new(n); memcpy(r, p, n * sizeof *r); return r; }
static void fin(out_t *o, mp_limb_t *p, long n) { if (!dst_ok(p, n)) out_err(o, "oob"); dst_free(p); }
static void unchanged(out_t *o, const mp_limb_t *p, const tok_t *t) { if (memcmp(p, t->d, t->n * sizeof *p)) out_err(o, "modified"); }

/* tdiv_q.c:130-151 / :169-190 */
static int callee_div_q(long dn, long new_nn, long nn) {
  if (dn == 2) return 1;
  if (BELOW_THRESHOLD (dn, DC_DIV_Q_THRESHOLD) || BELOW_THRESHOLD (new_nn - dn, DC_DIV_Q_THRESHOLD)) return 2;
  if (BELOW_THRESHOLD (dn, INV_DIV_Q_THRESHOLD) || BELOW_THRESHOLD (nn, 2 * INV_DIV_Q_THRESHOLD)) return 3;
  return 4;
}
/* tdiv_q.c:217-236 / :256-275 */
static int callee_divappr_q(long qn) {
  if (qn + 1 == 2) return 1;
  if (BELOW_THRESHOLD (qn - 1, DC_DIVAPPR_Q_THRESHOLD)) return 5;
  if (BELOW_THRESHOLD (qn - 1, INV_DIVAPPR_Q_THRESHOLD)) return 6;
  return 7;
}

static int op_tdiv_q_model(int argc, tok_t *a, out_t *o) {
  NEED(VEC2 && argc == 6 && TOPNZ(a[1]) && a[0].n >= a[1].n && IS_UI(a[2]) && IS_UI(a[3]) && IS_UI(a[4]) && IS_UI(a[5]));
  long nn = a[0].n, dn = a[1].n, qn = nn - dn + 1;
  mp_limb_t *np = dcopy(a[0].d, nn), *dp = dcopy(a[1].d, dn), *qp = dst_new(qn);
  mpn_tdiv_q(qp, np, nn, dp, dn);
  out_vec(o, qp, qn);
  /* branch tag and callee, from the inputs only */
  mp_limb_t dh = dp[dn - 1];
  int norm = (dh & GMP_NUMB_HIGHBIT) != 0, branch, callee;
  if (dn == 1) { branch = 0; callee = 0; }
  else if (qn + TQ_FUDGE >= dn) {
    long new_nn = nn;
    if (!norm) { int cnt; count_leading_zeros(cnt, dh); new_nn = nn + ((np[nn - 1] >> (GMP_NUMB_BITS - cnt)) != 0); }
    branch = 1 + norm; callee = callee_div_q(dn, new_nn, nn);
  } else { branch = 3 + norm; callee = callee_divappr_q(qn); }
  out_ulong(o, branch); out_ulong(o, callee);
  if (tok_ulong(&a[2]) != (unsigned long) DC_DIV_Q_THRESHOLD || tok_ulong(&a[3]) != (unsigned long) INV_DIV_Q_THRESHOLD ||
      tok_ulong(&a[4]) != (unsigned long) DC_DIVAPPR_Q_THRESHOLD || tok_ulong(&a[5]) != (unsigned long) INV_DIVAPPR_Q_THRESHOLD)
    out_err(o, "thr");
  unchanged(o, np, &a[0]); unchanged(o, dp, &a[1]);
  fin(o, qp, qn); fin(o, np, nn); fin(o, dp, dn); return 0;
}

static int op_tdiv_q_guard(int argc, tok_t *a, out_t *o) {
  NEED(VEC2 && argc == 2 && TOPNZ(a[1]) && a[0].n >= a[1].n);
  long nn = a[0].n, dn = a[1].n, qn = nn - dn + 1;
  NEED(qn + 2 <= dn);                                   /* what `qn + FUDGE < dn` gives for FUDGE >= 1 */
  mp_limb_t *np = dcopy(a[0].d, nn), *dp = dcopy(a[1].d, dn), *qp = dst_new(qn);
  mp_limb_t *new_np = dst_new(2 * qn + 2), *new_dp = dst_new(qn + 1), *tp = dst_new(qn + 1), *inv = dst_new(qn + 1);
  mp_limb_t *rp = dst_new(dn + qn);
  mp_limb_t cy, dh, qh, dinv;
  mp_size_t new_nn;
  int cnt, mulback = 0, decr = 0;
  mp_srcptr ddp;

  /* ---- tdiv_q.c:198-277, verbatim except for the allocation and `ddp` for the aliased new_dp ---- */
  new_nn = 2 * qn + 1;
  dh = dp[dn - 1];
  if (LIKELY ((dh & GMP_NUMB_HIGHBIT) == 0))
    {
      count_leading_zeros (cnt, dh);
      cy = mpn_lshift (new_np, np + nn - new_nn, new_nn, cnt);
      new_np[new_nn] = cy;
      new_nn += (cy != 0);
      mpn_lshift (new_dp, dp + dn - (qn + 1), qn + 1, cnt);
      new_dp[0] |= dp[dn - (qn + 1) - 1] >> (GMP_NUMB_BITS - cnt);
      if (qn + 1 == 2)
        qh = mpn_divrem_2 (tp, 0L, new_np, new_nn, new_dp);
      else if (BELOW_THRESHOLD (qn - 1, DC_DIVAPPR_Q_THRESHOLD))
        {
          mpir_invert_pi1(dinv, new_dp[qn], new_dp[qn - 1]);
          qh = mpn_sb_divappr_q (tp, new_np, new_nn, new_dp, qn + 1, dinv);
        }
      else if (BELOW_THRESHOLD (qn - 1, INV_DIVAPPR_Q_THRESHOLD))
        {
          mpir_invert_pi1(dinv, new_dp[qn], new_dp[qn - 1]);
          qh = mpn_dc_divappr_q (tp, new_np, new_nn, new_dp, qn + 1, dinv);
        }
      else
        {
          mpn_invert(inv, new_dp, qn + 1);
          qh = mpn_inv_divappr_q (tp, new_np, new_nn, new_dp, qn + 1, inv);
        }
      if (cy == 0)
        tp[qn] = qh;
      else if (UNLIKELY (qh != 0))
        {
          mp_size_t i, n;
          n = new_nn - (qn + 1);
          for (i = 0; i < n; i++)
            tp[i] = GMP_NUMB_MAX;
          qh = 0;
        }
    }
  else
    {
      MPN_COPY (new_np, np + nn - new_nn, new_nn);
      ddp = dp + dn - (qn + 1);
      if (qn == 2 - 1)
        qh = mpn_divrem_2 (tp, 0L, new_np, new_nn, ddp);
      else if (BELOW_THRESHOLD (qn - 1, DC_DIVAPPR_Q_THRESHOLD))
        {
          mpir_invert_pi1(dinv, dh, ddp[qn - 1]);
          qh = mpn_sb_divappr_q (tp, new_np, new_nn, ddp, qn + 1, dinv);
        }
      else if (BELOW_THRESHOLD (qn - 1, INV_DIVAPPR_Q_THRESHOLD))
        {
          mpir_invert_pi1(dinv, dh, ddp[qn - 1]);
          qh = mpn_dc_divappr_q (tp, new_np, new_nn, ddp, qn + 1, dinv);
        }
      else
        {
          mpn_invert(inv, ddp, qn + 1);
          qh = mpn_inv_divappr_q (tp, new_np, new_nn, ddp, qn + 1, inv);
        }
      tp[qn] = qh;
    }
  out_vec(o, tp, qn + 1);

  /* ---- tdiv_q.c:279-291 ---- */
  MPN_COPY (qp, tp + 1, qn);
  if (UNLIKELY(tp[0] <= 4))
    {
      mp_size_t rn;
      mulback = 1;
      mpn_mul (rp, dp, dn, tp + 1, qn);
      rn = dn + qn;
      rn -= rp[rn - 1] == 0;
      if (rn > nn || mpn_cmp (np, rp, nn) < 0)
        { decr = 1; mpn_decr_u (qp, 1); }
    }
  out_ulong(o, mulback); out_ulong(o, decr); out_vec(o, qp, qn);
  unchanged(o, np, &a[0]); unchanged(o, dp, &a[1]);
  fin(o, qp, qn); fin(o, np, nn); fin(o, dp, dn); fin(o, new_np, 2 * qn + 2); fin(o, new_dp, qn + 1);
  fin(o, tp, qn + 1); fin(o, inv, qn + 1); fin(o, rp, dn + qn); return 0;
}

const opdef_t ops_tdivq[] = {
  {"tdiv_q_model", op_tdiv_q_model}, {"tdiv_q_guard", op_tdiv_q_guard},
  {0, 0}
};
