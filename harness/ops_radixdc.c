/* C06 — divide-and-conquer radix conversion: the real mpn_get_str / mpn_set_str at sizes above the
   thresholds, compared with the dc MODELS (lean/Mpir/Model/RadixDc.lean), and the power table of
   mpn_set_str_compute_powtab.
     mpn_get_str_dcmodel base [limbs]      -> s<every digit value written>          (top limb non-zero)
     mpn_set_str_dcmodel base s<digits>    -> [limbs] exactly as returned
     set_str_powtab base un                -> for pi = 0 .. i:  shift digits_in_base [p limbs]      */
#include "harness.h"
#include "gmp-impl.h"
#include "longlong.h"
#define NEED(c) do { if (!(c)) return -1; } while (0)

static int op_get_dcmodel(int argc, tok_t *a, out_t *o) {
  NEED(argc == 2 && a[0].kind == T_NUM && a[1].kind == T_VEC);
  long base = tok_long(&a[0]); long n = a[1].n;
  NEED(base >= 2 && base <= 62 && n >= 1 && a[1].d[n - 1] != 0);
  mp_limb_t *top = malloc(n * sizeof *top); for (long i = 0; i < n; i++) top[i] = ~(mp_limb_t) 0;
  size_t need = mpn_sizeinbase(top, n, (int) base) + 1; free(top);
  unsigned char *buf = malloc(need + 16); memset(buf, 0x7e, need + 16);
  mp_limb_t *up = vec_copy(&a[1], 1);                    /* clobbered; one spare limb */
  size_t len = mpn_get_str(buf, (int) base, up, n);
  int oob = 0; for (int i = 0; i < 16; i++) if (buf[need + i] != 0x7e) oob = 1;
  if (len > need) oob = 1;
  if (oob) out_err(o, "oob"); else out_bytes(o, buf, len);
  free(up); free(buf); return 0;
}

static int op_set_dcmodel(int argc, tok_t *a, out_t *o) {
  NEED(argc == 2 && a[0].kind == T_NUM && a[1].kind == T_STR);
  long base = tok_long(&a[0]); long len = a[1].slen;
  NEED(base >= 2 && base <= 62 && len >= 1);
  for (long i = 0; i < len; i++) NEED(a[1].s[i] < base);
  long rn = (long) (len / mp_bases[base].chars_per_bit_exactly) / GMP_NUMB_BITS + 2;
  mp_limb_t *rp = dst_new(rn);
  unsigned char *s = malloc(len); memcpy(s, a[1].s, len);
  mp_size_t n = mpn_set_str(rp, s, len, (int) base);
  if (n < 0 || n > rn || !dst_ok(rp, rn)) out_err(o, "oob"); else out_vec(o, rp, n);
  free(s); dst_free(rp); return 0;
}

static int op_set_powtab(int argc, tok_t *a, out_t *o) {
  NEED(argc == 2 && a[0].kind == T_NUM && a[1].kind == T_NUM);
  long base = tok_long(&a[0]); long un = tok_long(&a[1]);
  NEED(base >= 2 && base <= 62 && un >= 2 && un <= 200000);
  long alloc = mpn_dc_set_str_powtab_alloc(un);
  mp_limb_t *mem = dst_new(alloc);
  powers_t powtab[GMP_LIMB_BITS];
  mpn_set_str_compute_powtab(powtab, mem, un, (int) base);
  int cnt; mp_limb_t m = (mp_limb_t) (un - 1);
  count_leading_zeros(cnt, m);
  long top = GMP_LIMB_BITS - 1 - cnt;
  if (!dst_ok(mem, alloc)) out_err(o, "oob");
  else for (long pi = 0; pi <= top; pi++) {
    out_long(o, (long) powtab[pi].shift);
    out_ulong(o, (unsigned long) powtab[pi].digits_in_base);
    out_vec(o, powtab[pi].p, powtab[pi].n);
  }
  dst_free(mem); return 0;
}

const opdef_t ops_radixdc[] = {
  {"mpn_get_str_dcmodel", op_get_dcmodel},
  {"mpn_set_str_dcmodel", op_set_dcmodel},
  {"set_str_powtab", op_set_powtab},
  {0, 0}
};
