/* Helpers of Toom-8.5 / Toom-8 squaring (property C01, part c01_toom8).  Every op calls the REAL internal entry point
   (exported as __gmpn_*, reachable through gmp-impl.h); the Lean side answers from the value-level model
   lean/Mpir/Model/Toom8.lean, so an agreement ties the model the theorems are about.
     toom_eval_pm1 k n [x]          mpn_toom_eval_pm1: ASSERT k > 3, n >= m > 0, x has k*n + m limbs   -> [plus] [minus] flag
     toom_eval_dgr3_pm1 n [x]       mpn_toom_eval_dgr3_pm1: x has 3n + x3n limbs, 0 < x3n <= n          -> [plus] [minus] flag
     toom_eval_pm2 k n [x]          mpn_toom_eval_pm2: 3 <= k < 64                                       -> [plus] [minus] flag
     toom_eval_pm2exp k n sh [x]    mpn_toom_eval_pm2exp: k >= 3, sh*k < 64                              -> [plus] [minus] flag
     toom_eval_pm2rexp q n s [x]    mpn_toom_eval_pm2rexp: q > 1, s != 0, s*q < 64, n >= t               -> [plus] [minus] flag
                                    (outputs are n+1 limbs; flag = 1 when the returned int is non-zero)
     toom_couple [pp] [np] nsign off ps ns   mpn_toom_couple_handling (pp, n, np, nsign, off, ps, ns), n = len pp = len np;
                                    requires pp >= np and pp ± np even (what the callers guarantee)       -> [pp: n + off limbs]
     toom_interp16 n spt half [pp] [r1] [r3] [r5] [r7]   mpn_toom_interpolate_16pts; pp has 14n + spt (half = 0) or 15n + spt
                                    limbs laid out as the C documents (r8 at 0, r6 at 3n, r4 at 7n, r2 at 11n, r0 at 15n)
                                                                                                         -> [pp] */
#include "harness.h"
#include "gmp-impl.h"
#define NEED(c) do { if (!(c)) return -1; } while (0)

static void finish_eval(out_t *o, mp_limb_t *pp, mp_limb_t *mp, mp_limb_t *tp, long n, int neg) {
  out_vec(o, pp, n + 1); out_vec(o, mp, n + 1); out_long(o, neg != 0);
  if (!dst_ok(pp, n + 1) || !dst_ok(mp, n + 1) || !dst_ok(tp, n + 1)) out_err(o, "oob");
  dst_free(pp); dst_free(mp); dst_free(tp);
}

static int op_eval_pm1(int argc, tok_t *a, out_t *o) {
  NEED(argc == 3 && a[0].kind == T_NUM && a[1].kind == T_NUM && a[2].kind == T_VEC);
  long k = tok_long(&a[0]), n = tok_long(&a[1]); NEED(k > 3 && k < 64 && n >= 1);
  long m = a[2].n - k * n; NEED(m > 0 && m <= n);                                 /* toom_eval_pm1.c:30 */
  mp_limb_t *pp = dst_new(n + 1), *mp = dst_new(n + 1), *tp = dst_new(n + 1);
  int neg = mpn_toom_eval_pm1(pp, mp, (unsigned)k, a[2].d, n, m, tp);
  finish_eval(o, pp, mp, tp, n, neg); return 0;
}
static int op_eval_dgr3_pm1(int argc, tok_t *a, out_t *o) {
  NEED(argc == 2 && a[0].kind == T_NUM && a[1].kind == T_VEC);
  long n = tok_long(&a[0]); NEED(n >= 1);
  long m = a[1].n - 3 * n; NEED(m > 0 && m <= n);                                 /* toom_eval_dgr3_pm1.c:37-38 */
  mp_limb_t *pp = dst_new(n + 1), *mp = dst_new(n + 1), *tp = dst_new(n + 1);
  int neg = mpn_toom_eval_dgr3_pm1(pp, mp, a[1].d, n, m, tp);
  finish_eval(o, pp, mp, tp, n, neg); return 0;
}
static int op_eval_pm2(int argc, tok_t *a, out_t *o) {
  NEED(argc == 3 && a[0].kind == T_NUM && a[1].kind == T_NUM && a[2].kind == T_VEC);
  long k = tok_long(&a[0]), n = tok_long(&a[1]); NEED(k >= 3 && k < 64 && n >= 1);   /* toom_eval_pm2.c:66-67 */
  long m = a[2].n - k * n; NEED(m > 0 && m <= n);                                 /* :69-70 */
  mp_limb_t *pp = dst_new(n + 1), *mp = dst_new(n + 1), *tp = dst_new(n + 1);
  int neg = mpn_toom_eval_pm2(pp, mp, (unsigned)k, a[2].d, n, m, tp);
  finish_eval(o, pp, mp, tp, n, neg); return 0;
}
static int op_eval_pm2exp(int argc, tok_t *a, out_t *o) {
  NEED(argc == 4 && a[0].kind == T_NUM && a[1].kind == T_NUM && a[2].kind == T_NUM && a[3].kind == T_VEC);
  long k = tok_long(&a[0]), n = tok_long(&a[1]), sh = tok_long(&a[2]);
  NEED(k >= 3 && sh >= 1 && sh * k < 64 && n >= 1);                               /* toom_eval_pm2exp.c:45-46 */
  long m = a[3].n - k * n; NEED(m > 0 && m <= n);                                 /* :48-49 */
  mp_limb_t *pp = dst_new(n + 1), *mp = dst_new(n + 1), *tp = dst_new(n + 1);
  int neg = mpn_toom_eval_pm2exp(pp, mp, (unsigned)k, a[3].d, n, m, (unsigned)sh, tp);
  finish_eval(o, pp, mp, tp, n, neg); return 0;
}
static int op_eval_pm2rexp(int argc, tok_t *a, out_t *o) {
  NEED(argc == 4 && a[0].kind == T_NUM && a[1].kind == T_NUM && a[2].kind == T_NUM && a[3].kind == T_VEC);
  long q = tok_long(&a[0]), n = tok_long(&a[1]), s = tok_long(&a[2]);
  NEED(q > 1 && s >= 1 && s * q < 64 && n >= 1);                                  /* toom_eval_pm2rexp.c:52-55 */
  long t = a[3].n - q * n; NEED(t > 0 && t <= n);
  mp_limb_t *pp = dst_new(n + 1), *mp = dst_new(n + 1), *tp = dst_new(n + 1);
  int neg = mpn_toom_eval_pm2rexp(pp, mp, (unsigned)q, a[3].d, n, t, (unsigned)s, tp);
  finish_eval(o, pp, mp, tp, n, neg); return 0;
}
static int op_couple(int argc, tok_t *a, out_t *o) {
  NEED(argc == 6 && a[0].kind == T_VEC && a[1].kind == T_VEC && a[2].kind == T_NUM && a[3].kind == T_NUM && a[4].kind == T_NUM && a[5].kind == T_NUM);
  long n = a[0].n, nsign = tok_long(&a[2]), off = tok_long(&a[3]), ps = tok_long(&a[4]), ns = tok_long(&a[5]);
  NEED(n >= 2 && a[1].n == n && off >= 1 && off < n && ps >= 0 && ps < 64 && ns >= 0 && ns < 64 && (nsign == 0 || nsign == 1));
  NEED(mpn_cmp(a[0].d, a[1].d, n) >= 0 && ((a[0].d[0] ^ a[1].d[0]) & 1) == 0);
  mp_limb_t *pp = dst_new(n + off), *np = dst_new(n);
  memcpy(pp, a[0].d, n * sizeof(mp_limb_t)); memset(pp + n, 0x5a, off * sizeof(mp_limb_t)); memcpy(np, a[1].d, n * sizeof(mp_limb_t));
  mpn_toom_couple_handling(pp, n, np, nsign ? ~0 : 0, off, (int)ps, (int)ns);
  out_vec(o, pp, n + off);
  if (!dst_ok(pp, n + off) || !dst_ok(np, n)) out_err(o, "oob");
  dst_free(pp); dst_free(np); return 0;
}
static int op_interp16(int argc, tok_t *a, out_t *o) {
  NEED(argc == 8 && a[0].kind == T_NUM && a[1].kind == T_NUM && a[2].kind == T_NUM);
  for (int i = 3; i < 8; i++) NEED(a[i].kind == T_VEC);
  long n = tok_long(&a[0]), spt = tok_long(&a[1]), half = tok_long(&a[2]);
  NEED(n >= 1 && spt >= 1 && spt <= 2 * n && (half == 0 || half == 1));           /* toom_interpolate_16pts.c:294 */
  long pn = (half ? 15 : 14) * n + spt, n3p1 = 3 * n + 1;
  NEED(a[3].n == pn); for (int i = 4; i < 8; i++) NEED(a[i].n == n3p1);
  mp_limb_t *pp = dst_new(pn), *r[4], *ws = dst_new(n3p1);
  memcpy(pp, a[3].d, pn * sizeof(mp_limb_t));
  for (int i = 0; i < 4; i++) { r[i] = dst_new(n3p1); memcpy(r[i], a[4 + i].d, n3p1 * sizeof(mp_limb_t)); }
  mpn_toom_interpolate_16pts(pp, r[0], r[1], r[2], r[3], n, spt, (int)half, ws);
  out_vec(o, pp, pn);
  int bad = !dst_ok(pp, pn) || !dst_ok(ws, n3p1);
  for (int i = 0; i < 4; i++) { bad |= !dst_ok(r[i], n3p1); dst_free(r[i]); }
  if (bad) out_err(o, "oob");
  dst_free(pp); dst_free(ws); return 0;
}

const opdef_t ops_toom8[] = {
  {"toom_eval_pm1", op_eval_pm1}, {"toom_eval_dgr3_pm1", op_eval_dgr3_pm1}, {"toom_eval_pm2", op_eval_pm2},
  {"toom_eval_pm2exp", op_eval_pm2exp}, {"toom_eval_pm2rexp", op_eval_pm2rexp},
  {"toom_couple", op_couple}, {"toom_interp16", op_interp16},
  {0, 0}
};
