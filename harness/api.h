/* Typed call table over the public mpz/mpq/mpf API; the table itself (api_gen.c) is generated from
   mpir.h of the tree under test by tools/gen_api.py. */
#ifndef API_H
#define API_H
#include "mpir.h"
typedef struct {
  mpz_ptr z[8]; mpq_ptr q[6]; mpf_ptr f[6];
  unsigned long u[6]; long s[6]; double d[4]; unsigned long b[4]; long i[6]; long n[4];
  gmp_randstate_t rs;
  unsigned long ru; long rs_; double rd;
} apicall_t;
typedef struct { const char *name; const char *sig; char ret; void (*fn)(apicall_t *); } apidesc_t;
extern const apidesc_t api_table[];
#endif
