/* C04 part allocsafe: the public mpz functions on objects of GIVEN allocations.  Every object is a token
   pair `alloc value` (alloc >= max (limbs of value, 1): the block has exactly alloc limbs, the unused ones
   poisoned by the recording allocator).  Leading alias-mode token:
     0 all variables distinct   1 w is u   2 w is v   3 u is v (w distinct)   4 all one variable
   (an aliased variable's own token pair is ignored).  Output: ALLOC (w), SIZ (w), value of w — the
   allocation decision of the C is compared exactly with the size-aware model (lean/Mpir/Model/AllocSafe*.lean),
   the recording allocator / red zones of the harness turn an overrun into a marker. */
#include "harness.h"
#include "gmp-impl.h"
#define NEED(c) do { if (!(c)) return -1; } while (0)
#define ISNUM(k) (a[k].kind == T_NUM)
#define ISUI(k) (a[k].kind == T_NUM && !a[k].neg && a[k].n <= 1)

static int mk(mpz_ptr z, const tok_t *al, const tok_t *v) {
  if (!(al->kind == T_NUM && !al->neg && al->n <= 1 && v->kind == T_NUM)) return -1;
  unsigned long alloc = tok_ulong(al);
  if (alloc < 1 || alloc > (1UL << 20) || (unsigned long)v->n > alloc) return -1;
  mpz_init2(z, alloc * GMP_NUMB_BITS);
  if ((unsigned long)ALLOC(z) != alloc) { mpz_clear(z); return -1; }
  for (long i = 0; i < v->n; i++) PTR(z)[i] = v->d[i];
  SIZ(z) = v->neg ? -(int)v->n : (int)v->n;
  return 0;
}
static void outw(out_t *o, mpz_srcptr w) { out_long(o, ALLOC(w)); out_long(o, SIZ(w)); out_mpz(o, w); }
static long mode_of(const tok_t *t) { return (t->kind == T_NUM && !t->neg && t->n <= 1) ? (long)tok_ulong(t) : -1; }

/* f (w, u, v): mode wa wv ua uv va vv */
typedef void (*f3_t)(mpz_ptr, mpz_srcptr, mpz_srcptr);
static int do3(f3_t f, int argc, tok_t *a, out_t *o) {
  NEED(argc == 7); long m = mode_of(&a[0]); NEED(m >= 0 && m <= 4);
  mpz_t w, u, v;
  NEED(mk(w, &a[1], &a[2]) == 0);
  if (mk(u, &a[3], &a[4])) { mpz_clear(w); return -1; }
  if (mk(v, &a[5], &a[6])) { mpz_clear(w); mpz_clear(u); return -1; }
  switch (m) {
    case 0: f(w, u, v); outw(o, w); break;
    case 1: f(u, u, v); outw(o, u); break;
    case 2: f(v, u, v); outw(o, v); break;
    case 3: f(w, u, u); outw(o, w); break;
    case 4: f(u, u, u); outw(o, u); break;
  }
  mpz_clear(w); mpz_clear(u); mpz_clear(v); return 0;
}
/* f (w, u): mode wa wv ua uv; mode 0 or 1 */
typedef void (*f2_t)(mpz_ptr, mpz_srcptr);
static int do2(f2_t f, int argc, tok_t *a, out_t *o) {
  NEED(argc == 5); long m = mode_of(&a[0]); NEED(m == 0 || m == 1);
  mpz_t w, u;
  NEED(mk(w, &a[1], &a[2]) == 0);
  if (mk(u, &a[3], &a[4])) { mpz_clear(w); return -1; }
  if (m == 0) { f(w, u); outw(o, w); } else { f(u, u); outw(o, u); }
  mpz_clear(w); mpz_clear(u); return 0;
}
/* f (w, u, ui): mode wa wv ua uv k */
typedef void (*fui_t)(mpz_ptr, mpz_srcptr, mpir_ui);
static int doui(fui_t f, unsigned long lim, int argc, tok_t *a, out_t *o) {
  NEED(argc == 6 && ISUI(5)); long m = mode_of(&a[0]); NEED(m == 0 || m == 1);
  mpir_ui k = tok_ulong(&a[5]); NEED(lim == 0 || k <= lim);
  mpz_t w, u;
  NEED(mk(w, &a[1], &a[2]) == 0);
  if (mk(u, &a[3], &a[4])) { mpz_clear(w); return -1; }
  if (m == 0) { f(w, u, k); outw(o, w); } else { f(u, u, k); outw(o, u); }
  mpz_clear(w); mpz_clear(u); return 0;
}
/* f (w, ui): wa wv k */
typedef void (*f1ui_t)(mpz_ptr, mpir_ui);
static int do1ui(f1ui_t f, unsigned long lim, int argc, tok_t *a, out_t *o) {
  NEED(argc == 3 && ISUI(2));
  mpir_ui k = tok_ulong(&a[2]); NEED(lim == 0 || k <= lim);
  mpz_t w; NEED(mk(w, &a[0], &a[1]) == 0);
  f(w, k); outw(o, w);
  mpz_clear(w); return 0;
}
/* mpz_set_si (w, si): wa wv si */
static int op_set_si(int argc, tok_t *a, out_t *o) {
  NEED(argc == 3 && ISNUM(2) && a[2].n <= 1);
  mp_limb_t mag = tok_ulong(&a[2]);
  NEED(a[2].neg ? mag <= ((mp_limb_t)1 << 63) : mag < ((mp_limb_t)1 << 63));
  mpir_si sv = a[2].neg ? (mpir_si)(0 - mag) : (mpir_si)mag;
  mpz_t w; NEED(mk(w, &a[0], &a[1]) == 0);
  mpz_set_si(w, sv); outw(o, w);
  mpz_clear(w); return 0;
}

#define OP3(name, fn) static int op_##name(int c, tok_t *a, out_t *o) { return do3(fn, c, a, o); }
#define OP2(name, fn) static int op_##name(int c, tok_t *a, out_t *o) { return do2(fn, c, a, o); }
#define OPUI(name, fn, lim) static int op_##name(int c, tok_t *a, out_t *o) { return doui(fn, lim, c, a, o); }
#define OP1UI(name, fn, lim) static int op_##name(int c, tok_t *a, out_t *o) { return do1ui(fn, lim, c, a, o); }
OP3(add, mpz_add) OP3(sub, mpz_sub)
OP2(set, mpz_set) OP2(neg, mpz_neg) OP2(abs, mpz_abs) OP2(com, mpz_com)
OPUI(add_ui, mpz_add_ui, 0) OPUI(sub_ui, mpz_sub_ui, 0)
OPUI(mul_2exp, mpz_mul_2exp, 1UL << 20) OPUI(tdiv_q_2exp, mpz_tdiv_q_2exp, 0)
OP1UI(set_ui, mpz_set_ui, 0)
#ifdef ALLOCSAFE_TODO   /* shapes ready for the functions not modelled yet (no handler on the Lean side) */
OP3(mul, mpz_mul) OP3(and, mpz_and) OP3(ior, mpz_ior) OP3(xor, mpz_xor) OP3(addmul, mpz_addmul) OP3(submul, mpz_submul)
OPUI(mul_ui, mpz_mul_ui, 0) OPUI(addmul_ui, mpz_addmul_ui, 0) OPUI(submul_ui, mpz_submul_ui, 0)
OPUI(fdiv_q_2exp, mpz_fdiv_q_2exp, 0) OPUI(cdiv_q_2exp, mpz_cdiv_q_2exp, 0)
OP1UI(setbit, mpz_setbit, 1UL << 20) OP1UI(clrbit, mpz_clrbit, 1UL << 20) OP1UI(combit, mpz_combit, 1UL << 20)
#endif

const opdef_t ops_allocsafe[] = {
  {"as_add", op_add}, {"as_sub", op_sub},
  {"as_set", op_set}, {"as_neg", op_neg}, {"as_abs", op_abs}, {"as_com", op_com},
  {"as_add_ui", op_add_ui}, {"as_sub_ui", op_sub_ui},
  {"as_mul_2exp", op_mul_2exp}, {"as_tdiv_q_2exp", op_tdiv_q_2exp},
  {"as_set_ui", op_set_ui}, {"as_set_si", op_set_si},
  {0, 0}
};
