/* C07, the size field of the hgcd matrix: mpn_hgcd called directly; prints the return value, M->n and the four
   entries on exactly M->n limbs.  The driver evaluates, on THIS output, the two facts the proofs still assume of
   mpn_hgcd above HGCD_THRESHOLD: the size field is tight (some entry uses limb M->n - 1: the ASSERT of
   mpn_hgcd_matrix_mul) and M->n <= (n - 1)/2 (the ASSERT at gcdext.c:296, :347).  Destinations guarded (!oob). */
#include "harness.h"
#include "gmp-impl.h"
#include "longlong.h"

/* mpn_hgcd_tight [a] [b] -> ret mn [e00] [e01] [e10] [e11]     (M initialised by mpn_hgcd_matrix_init (n)) */
static int op_hgcd_tight(int argc, tok_t *a, out_t *o) {
  if (!(argc == 2 && a[0].kind == T_VEC && a[1].kind == T_VEC && a[0].n == a[1].n && a[0].n >= 1)) return -1;
  long n = a[0].n;
  if (!(a[0].d[n - 1] | a[1].d[n - 1])) return -1;
  long mi = MPN_HGCD_MATRIX_INIT_ITCH(n), itch = mpn_hgcd_itch(n);
  mp_limb_t *mp = dst_new(mi), *tp = dst_new(itch), *ap = dst_new(n + 1), *bp = dst_new(n + 1);
  memcpy(ap, a[0].d, n * 8); memcpy(bp, a[1].d, n * 8); ap[n] = 0; bp[n] = 0;
  struct hgcd_matrix M; mpn_hgcd_matrix_init(&M, n, mp);
  long nn = mpn_hgcd(ap, bp, n, &M, tp);
  out_long(o, nn);
  if (M.n < 1 || M.n > M.alloc) out_err(o, "msize");
  else { out_long(o, M.n); out_vec(o, M.p[0][0], M.n); out_vec(o, M.p[0][1], M.n); out_vec(o, M.p[1][0], M.n); out_vec(o, M.p[1][1], M.n); }
  if (!dst_ok(mp, mi) || !dst_ok(tp, itch) || !dst_ok(ap, n + 1) || !dst_ok(bp, n + 1)) out_err(o, "oob");
  dst_free(mp); dst_free(tp); dst_free(ap); dst_free(bp); return 0;
}

const opdef_t ops_hgcdnorm[] = { {"mpn_hgcd_tight", op_hgcd_tight}, {0, 0} };
