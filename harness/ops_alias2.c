/* C05 part c05_ptr2: pointer-level alias model, second batch (lean/Mpir/Model/AliasMul.lean, AliasGcdext.lean, AliasPowm.lean).
   Same conventions as ops_alias.c: four variables holding v0..v3 in exact-size blocks, the function is called with the
   variables numbered i0.. as its arguments in prototype order (the same index twice = the same variable); output for
   each of the four variables: value, ALLOC, and 1 if the block changed.  "Changed" is `PTR moved` (the allocator of the
   harness always moves on realloc), except for a variable whose block the function replaces by free + allocate
   (mpz_mul, mul.c:118-131: the allocator may hand the same address back): there it is `ALLOC changed`. */
#include "harness.h"

#define NV 4
typedef struct { mpz_t v[NV]; mp_limb_t *p0[NV]; int a0[NV]; } vars_t;

static int all_num(int argc, tok_t *a) { for (int i = 0; i < argc; i++) if (a[i].kind != T_NUM) return 0; return 1; }
static void vars_init(vars_t *V, tok_t *a) {
  for (int i = 0; i < NV; i++) { mpz_init(V->v[i]); tok_mpz(V->v[i], &a[i]); V->p0[i] = V->v[i]->_mp_d; V->a0[i] = V->v[i]->_mp_alloc; }
}
static void vars_out(out_t *o, vars_t *V, unsigned byalloc) {
  for (int i = 0; i < NV; i++) {
    out_mpz(o, V->v[i]); out_long(o, V->v[i]->_mp_alloc);
    out_long(o, (byalloc >> i & 1) ? V->v[i]->_mp_alloc != V->a0[i] : V->v[i]->_mp_d != V->p0[i]);
  }
}
static void vars_clear(vars_t *V) { for (int i = 0; i < NV; i++) mpz_clear(V->v[i]); }
/* k variable ids at a[0..k-1]; `nullcode` (if >= 0) stands for a NULL pointer and is returned as -1 */
static int ids(tok_t *a, int k, long *ix, long nullcode) {
  for (int i = 0; i < k; i++) {
    ix[i] = tok_long(&a[i]);
    if (nullcode >= 0 && ix[i] == nullcode) { ix[i] = -1; continue; }
    if (ix[i] < 0 || ix[i] >= NV) return 0;
  }
  return 1;
}

/* alias_mul <w> <u> <v> 0 v0..v3 */
static int op_mul(int argc, tok_t *a, out_t *o) {
  long ix[3]; vars_t V;
  if (argc != 8 || !all_num(argc, a) || !ids(a, 3, ix, -1)) return -1;
  vars_init(&V, a + 4);
  mpz_mul(V.v[ix[0]], V.v[ix[1]], V.v[ix[2]]);
  vars_out(o, &V, 1u << ix[0]);
  vars_clear(&V); return 0;
}

/* alias_addmul / alias_submul <w> <x> <y> 0 v0..v3 */
static int aorsmul(int argc, tok_t *a, out_t *o, int sub) {
  long ix[3]; vars_t V;
  if (argc != 8 || !all_num(argc, a) || !ids(a, 3, ix, -1)) return -1;
  vars_init(&V, a + 4);
  if (sub) mpz_submul(V.v[ix[0]], V.v[ix[1]], V.v[ix[2]]); else mpz_addmul(V.v[ix[0]], V.v[ix[1]], V.v[ix[2]]);
  vars_out(o, &V, 0);
  vars_clear(&V); return 0;
}
static int op_addmul(int argc, tok_t *a, out_t *o) { return aorsmul(argc, a, o, 0); }
static int op_submul(int argc, tok_t *a, out_t *o) { return aorsmul(argc, a, o, 1); }

/* alias_gcdext <g> <s> <t> <a> <b> v0..v3; s, t: 7 = NULL; g, s, t pairwise distinct */
static int op_gcdext(int argc, tok_t *a, out_t *o) {
  long ix[5]; vars_t V;
  if (argc != 9 || !all_num(argc, a) || !ids(a, 1, ix, -1) || !ids(a + 1, 2, ix + 1, 7) || !ids(a + 3, 2, ix + 3, -1)) return -1;
  if (ix[0] == ix[1] || ix[0] == ix[2] || (ix[1] >= 0 && ix[1] == ix[2])) return -1;
  vars_init(&V, a + 5);
  mpz_gcdext(V.v[ix[0]], ix[1] < 0 ? NULL : V.v[ix[1]], ix[2] < 0 ? NULL : V.v[ix[2]], V.v[ix[3]], V.v[ix[4]]);
  vars_out(o, &V, 0);
  vars_clear(&V); return 0;
}

/* alias_powm <r> <b> <e> <m> v0..v3 */
static int op_powm(int argc, tok_t *a, out_t *o) {
  long ix[4]; vars_t V;
  if (argc != 8 || !all_num(argc, a) || !ids(a, 4, ix, -1)) return -1;
  vars_init(&V, a + 4);
  int e = GUARD(mpz_powm(V.v[ix[0]], V.v[ix[1]], V.v[ix[2]], V.v[ix[3]]));
  if (e) out_err(o, "div0"); else vars_out(o, &V, 0);
  vars_clear(&V); return 0;
}

/* alias_powm_ui <r> <b> <m> <el> v0..v3 */
static int op_powm_ui(int argc, tok_t *a, out_t *o) {
  long ix[3]; vars_t V;
  if (argc != 8 || !all_num(argc, a) || !ids(a, 3, ix, -1) || a[3].neg || a[3].n > 1) return -1;
  unsigned long el = tok_ulong(&a[3]);
  vars_init(&V, a + 4);
  int e = GUARD(mpz_powm_ui(V.v[ix[0]], V.v[ix[1]], el, V.v[ix[2]]));
  if (e) out_err(o, "div0"); else vars_out(o, &V, 0);
  vars_clear(&V); return 0;
}

/* alias_sqrt <root> <op> 0 0 v0..v3;  alias_lcm <r> <u> <v> 0 v0..v3;  alias_invert <r> <x> <n> 0 v0..v3 (return value first) */
static int op_sqrt(int argc, tok_t *a, out_t *o) {
  long ix[2]; vars_t V;
  if (argc != 8 || !all_num(argc, a) || !ids(a, 2, ix, -1)) return -1;
  vars_init(&V, a + 4);
  int e = GUARD(mpz_sqrt(V.v[ix[0]], V.v[ix[1]]));
  if (e) out_err(o, "sqrtneg"); else vars_out(o, &V, 1u << ix[0]);
  vars_clear(&V); return 0;
}
static int op_lcm(int argc, tok_t *a, out_t *o) {
  long ix[3]; vars_t V;
  if (argc != 8 || !all_num(argc, a) || !ids(a, 3, ix, -1)) return -1;
  vars_init(&V, a + 4);
  mpz_lcm(V.v[ix[0]], V.v[ix[1]], V.v[ix[2]]);
  vars_out(o, &V, 1u << ix[0]);      /* the general arm ends in mpz_mul (r, g, v): free + allocate of r's block (mul.c:118-131) */
  vars_clear(&V); return 0;
}
static int op_invert(int argc, tok_t *a, out_t *o) {
  long ix[3]; vars_t V;
  if (argc != 8 || !all_num(argc, a) || !ids(a, 3, ix, -1)) return -1;
  vars_init(&V, a + 4);
  int ret = 0;
  int e = GUARD(ret = mpz_invert(V.v[ix[0]], V.v[ix[1]], V.v[ix[2]]));
  if (e) out_err(o, "div0"); else { out_long(o, ret != 0); vars_out(o, &V, 0); }
  vars_clear(&V); return 0;
}

/* alias_root <root> <u> 0 <nth> v0..v3 (return value: exact or not);  alias_remove <dest> <src> <f> 0 v0..v3 (return value: the
   multiplicity);  alias_bin_ui <r> <n> 0 <k> v0..v3 */
static int op_root(int argc, tok_t *a, out_t *o) {
  long ix[2]; vars_t V;
  if (argc != 8 || !all_num(argc, a) || !ids(a, 2, ix, -1) || a[3].neg || a[3].n > 1) return -1;
  unsigned long nth = tok_ulong(&a[3]);
  vars_init(&V, a + 4);
  int neg_even = V.v[ix[1]]->_mp_size < 0 && (nth & 1) == 0;
  int ret = 0;
  int e = GUARD(ret = mpz_root(V.v[ix[0]], V.v[ix[1]], nth));
  if (e) out_err(o, neg_even ? "sqrtneg" : "div0"); else { out_long(o, ret != 0); vars_out(o, &V, 0); }
  vars_clear(&V); return 0;
}
static int op_remove(int argc, tok_t *a, out_t *o) {
  long ix[3]; vars_t V;
  if (argc != 8 || !all_num(argc, a) || !ids(a, 3, ix, -1)) return -1;
  vars_init(&V, a + 4);
  mp_bitcnt_t ret = 0;
  int e = GUARD(ret = mpz_remove(V.v[ix[0]], V.v[ix[1]], V.v[ix[2]]));
  if (e) out_err(o, "div0"); else { out_ulong(o, ret); vars_out(o, &V, 0); }
  vars_clear(&V); return 0;
}
static int op_bin_ui(int argc, tok_t *a, out_t *o) {
  long ix[2]; vars_t V;
  if (argc != 8 || !all_num(argc, a) || !ids(a, 2, ix, -1) || a[3].neg || a[3].n > 1) return -1;
  unsigned long k = tok_ulong(&a[3]);
  if (k > 200) return -1;
  vars_init(&V, a + 4);
  mpz_bin_ui(V.v[ix[0]], V.v[ix[1]], k);
  vars_out(o, &V, 0);
  vars_clear(&V); return 0;
}

/* ---- mpf: alias_fdiv / alias_fmul <r> <u> <v> 0 A0 A1 A2, alias_fsqrt <r> <u> 0 0 A0 A1 A2, alias_fdiv_ui <r> <u> 0 <ui> A0 A1 A2
   three mpf variables, each given as the token group `prec size exp [limbs]` and held in a block of max (prec + 1, |size|)
   limbs with `prec` in the _mp_prec field (more limbs than prec + 1: the state mpf_set_prec_raw leaves behind); stale data
   above the limbs.  Output for each variable: prec size exp [limbs] (raw fields), or the exception marker. */
#define NF 3
typedef struct { mpf_t f; mp_size_t real_prec; } fvar_t;
static int f_is_opnd(const tok_t *a) {
  if (!(a[0].kind == T_NUM && a[1].kind == T_NUM && a[2].kind == T_NUM && a[3].kind == T_VEC)) return 0;
  long s = tok_long(&a[1]); if (s < 0) s = -s;
  return a[1].n <= 1 && a[2].n <= 1 && s == a[3].n && !a[0].neg && a[0].n <= 1 && tok_long(&a[0]) >= 2;
}
static void f_make(fvar_t *x, const tok_t *a) {
  long prec = tok_long(&a[0]), n = a[3].n;
  long p0 = prec; if (n - 1 > p0) p0 = n - 1;
  mpf_init2(x->f, (mp_bitcnt_t)64 * (p0 - 1));       /* __GMPF_BITS_TO_PREC (64 (p0 - 1)) == p0 for p0 >= 2 */
  x->real_prec = x->f->_mp_prec;
  x->f->_mp_prec = prec;
  for (long i = 0; i <= x->real_prec; i++) x->f->_mp_d[i] = 0xDEADBEEFDEADBEEFUL;
  for (long i = 0; i < n; i++) x->f->_mp_d[i] = a[3].d[i];
  x->f->_mp_size = (int)tok_long(&a[1]);
  x->f->_mp_exp = tok_long(&a[2]);
}
static void f_out(out_t *o, fvar_t *F) {
  for (int i = 0; i < NF; i++) {
    long n = F[i].f->_mp_size < 0 ? -(long)F[i].f->_mp_size : F[i].f->_mp_size;
    out_long(o, F[i].f->_mp_prec); out_long(o, F[i].f->_mp_size); out_long(o, F[i].f->_mp_exp);
    if (n > F[i].real_prec + 1) out_err(o, "oob"); else out_vec(o, F[i].f->_mp_d, n);
  }
}
static void f_clear(fvar_t *F) { for (int i = 0; i < NF; i++) { F[i].f->_mp_prec = F[i].real_prec; mpf_clear(F[i].f); } }
static int frun(int argc, tok_t *a, out_t *o, int which) {
  if (argc != 16) return -1;
  for (int i = 0; i < 4; i++) if (a[i].kind != T_NUM) return -1;
  for (int i = 0; i < NF; i++) if (!f_is_opnd(a + 4 + 4 * i)) return -1;
  long r = tok_long(&a[0]), u = tok_long(&a[1]), v = tok_long(&a[2]);
  if (r < 0 || r >= NF || u < 0 || u >= NF || v < 0 || v >= NF || a[3].neg || a[3].n > 1) return -1;
  unsigned long ui = tok_ulong(&a[3]);
  fvar_t F[NF];
  for (int i = 0; i < NF; i++) f_make(&F[i], a + 4 + 4 * i);
  int e = 0;
  switch (which) {
  case 0: e = GUARD(mpf_div(F[r].f, F[u].f, F[v].f)); break;
  case 1: e = GUARD(mpf_mul(F[r].f, F[u].f, F[v].f)); break;
  case 2: e = GUARD(mpf_sqrt(F[r].f, F[u].f)); break;
  case 3: e = GUARD(mpf_div_ui(F[r].f, F[u].f, ui)); break;
  case 4: e = GUARD(mpf_floor(F[r].f, F[u].f)); break;
  case 5: e = GUARD(mpf_ceil(F[r].f, F[u].f)); break;
  case 6: e = GUARD(mpf_trunc(F[r].f, F[u].f)); break;
  case 7: if (ui > 100000) { f_clear(F); return -1; } e = GUARD(mpf_mul_2exp(F[r].f, F[u].f, ui)); break;
  case 8: if (ui > 100000) { f_clear(F); return -1; } e = GUARD(mpf_div_2exp(F[r].f, F[u].f, ui)); break;
  default: e = GUARD(mpf_ui_div(F[r].f, ui, F[v].f)); break;
  }
  if (e) out_err(o, which == 2 ? "sqrtneg" : "div0"); else f_out(o, F);
  f_clear(F); return 0;
}
static int op_fdiv(int argc, tok_t *a, out_t *o) { return frun(argc, a, o, 0); }
static int op_fmul(int argc, tok_t *a, out_t *o) { return frun(argc, a, o, 1); }
static int op_fsqrt(int argc, tok_t *a, out_t *o) { return frun(argc, a, o, 2); }
static int op_fdiv_ui(int argc, tok_t *a, out_t *o) { return frun(argc, a, o, 3); }
/* alias_ffloor / alias_fceil / alias_ftrunc <r> <u> 0 0 A0 A1 A2;  alias_fmul_2exp / alias_fdiv_2exp <r> <u> 0 <cnt> A0 A1 A2;
   alias_fui_div <r> 0 <v> <ui> A0 A1 A2 */
static int op_ffloor(int argc, tok_t *a, out_t *o) { return frun(argc, a, o, 4); }
static int op_fceil(int argc, tok_t *a, out_t *o) { return frun(argc, a, o, 5); }
static int op_ftrunc(int argc, tok_t *a, out_t *o) { return frun(argc, a, o, 6); }
static int op_fmul_2exp(int argc, tok_t *a, out_t *o) { return frun(argc, a, o, 7); }
static int op_fdiv_2exp(int argc, tok_t *a, out_t *o) { return frun(argc, a, o, 8); }
static int op_fui_div(int argc, tok_t *a, out_t *o) { return frun(argc, a, o, 9); }

const opdef_t ops_alias2[] = {
  {"alias_fdiv", op_fdiv}, {"alias_fmul", op_fmul}, {"alias_fsqrt", op_fsqrt}, {"alias_fdiv_ui", op_fdiv_ui},
  {"alias_ffloor", op_ffloor}, {"alias_fceil", op_fceil}, {"alias_ftrunc", op_ftrunc}, {"alias_fmul_2exp", op_fmul_2exp},
  {"alias_fdiv_2exp", op_fdiv_2exp}, {"alias_fui_div", op_fui_div},
  {"alias_root", op_root}, {"alias_remove", op_remove}, {"alias_bin_ui", op_bin_ui},
  {"alias_mul", op_mul}, {"alias_addmul", op_addmul}, {"alias_submul", op_submul},
  {"alias_gcdext", op_gcdext}, {"alias_powm", op_powm}, {"alias_powm_ui", op_powm_ui},
  {"alias_sqrt", op_sqrt}, {"alias_lcm", op_lcm}, {"alias_invert", op_invert},
  {0, 0}
};
