/* Round trip print -> scan with %n (property C18, scanf side).

     gmp_rt_Z  s<pfmt> s<sfmt> [star...] x        gmp_snprintf (buf, pfmt, [star...,] x), then
                                                  gmp_sscanf (buf, sfmt, y, &n)      -> sTEXT ret y n
     gmp_rtf_Z s<pfmt> s<sfmt> [star...] x        the same through gmp_fscanf on an fmemopen stream -> sTEXT ret y n pos
     gmp_rt_Q / gmp_rtf_Q  s<pfmt> s<sfmt> [star...] num den                         -> sTEXT ret ynum yden n [pos]
   pfmt holds exactly one MPIR conversion with up to two `*`; sfmt is "%Z<c>%n", "%<w>Z<c>%n", "%*Z<c>%n" (then y stays
   at the sentinel: the harness still passes the pointer, which the library must not touch).
   y starts as a sentinel, n as -7: an unassigned target shows.                                            */
#define _GNU_SOURCE
#include <stdio.h>
#include <stdlib.h>
#include "harness.h"
#include <limits.h>

#define NEED(c) do { if (!(c)) return -1; } while (0)
#define RT_BIG 8192
#define RT_SENT (-77777)
#define CG 32
static unsigned char *rb_new(size_t n) {
  unsigned char *raw = malloc(n + 2 * CG + 1);
  memset(raw, 0xA7, CG); memset(raw + CG, 0xEE, n); memset(raw + CG + n, 0xA7, CG);
  return raw + CG;
}
static int rb_ok(const unsigned char *p, size_t n) {
  for (int i = 1; i <= CG; i++) if (p[-i] != 0xA7) return 0;
  for (int i = 0; i < CG; i++) if (p[n + i] != 0xA7) return 0;
  return 1;
}
static void rb_free(unsigned char *p) { free(p - CG); }

static int rt(int q, int file, int argc, tok_t *a, out_t *o) {
  int nval = q ? 2 : 1;
  NEED(argc >= 2 + nval && argc <= 4 + nval && a[0].kind == T_STR && a[1].kind == T_STR);
  for (int i = 2; i < argc; i++) NEED(a[i].kind == T_NUM);
  int nstar = argc - 2 - nval;
  int star[2] = { 0, 0 };
  for (int i = 0; i < nstar; i++) star[i] = (int) tok_long(&a[2 + i]);
  int ignore = strstr((char *)a[1].s, "*") != NULL;
  unsigned char *buf = rb_new(RT_BIG);
  int n = -7, r, k; long pos = -1;
  mpz_t x, y; mpq_t qx, qy; void *src, *dst;
  if (!q) {
    mpz_init(x); tok_mpz(x, &a[2 + nstar]); mpz_init_set_si(y, RT_SENT); src = x; dst = y;
  } else {
    mpq_init(qx); mpq_init(qy); tok_mpz(mpq_numref(qx), &a[2 + nstar]); tok_mpz(mpq_denref(qx), &a[3 + nstar]);
    mpq_set_si(qy, RT_SENT, 1); src = qx; dst = qy;
  }
  if (nstar == 0) r = gmp_snprintf((char *)buf, RT_BIG, (char *)a[0].s, src);
  else if (nstar == 1) r = gmp_snprintf((char *)buf, RT_BIG, (char *)a[0].s, star[0], src);
  else r = gmp_snprintf((char *)buf, RT_BIG, (char *)a[0].s, star[0], star[1], src);
  if (r < 0 || r >= RT_BIG) out_err(o, "toolong");
  else {
    size_t len = strlen((char *)buf);
    out_bytes(o, buf, len);
    if (!file) k = ignore ? gmp_sscanf((char *)buf, (char *)a[1].s, &n) : gmp_sscanf((char *)buf, (char *)a[1].s, dst, &n);
    else {
      static char one[1] = { 0 };
      FILE *fp = len ? fmemopen(buf, len, "r") : fmemopen(one, 1, "r");
      if (!len) fgetc(fp);
      k = ignore ? gmp_fscanf(fp, (char *)a[1].s, &n) : gmp_fscanf(fp, (char *)a[1].s, dst, &n);
      pos = len ? ftell(fp) : 0; fclose(fp);
    }
    out_long(o, k);
    if (!q) out_mpz(o, y); else out_mpq(o, qy);
    out_long(o, n);
    if (file) out_long(o, pos);
  }
  if (!q) { mpz_clear(x); mpz_clear(y); } else { mpq_clear(qx); mpq_clear(qy); }
  if (!rb_ok(buf, RT_BIG)) out_err(o, "oob");
  rb_free(buf); return 0;
}
static int op_rt_Z(int c, tok_t *a, out_t *o) { return rt(0, 0, c, a, o); }
static int op_rtf_Z(int c, tok_t *a, out_t *o) { return rt(0, 1, c, a, o); }
static int op_rt_Q(int c, tok_t *a, out_t *o) { return rt(1, 0, c, a, o); }
static int op_rtf_Q(int c, tok_t *a, out_t *o) { return rt(1, 1, c, a, o); }

const opdef_t ops_scanrt[] = {
  {"gmp_rt_Z", op_rt_Z}, {"gmp_rtf_Z", op_rtf_Z}, {"gmp_rt_Q", op_rt_Q}, {"gmp_rtf_Q", op_rtf_Q}, {0, 0}
};
