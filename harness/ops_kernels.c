/* mpn limb-vector kernels: properties C03 (add/sub/shift/copy/cmp) and leaves of C01 (mul_1 family).
   `_ov` variants exercise the overlaps the manual permits; the expected answer is the same. */
#include "harness.h"
#include "gmp-impl.h"
#define NEED(c) do { if (!(c)) return -1; } while (0)
#define FIN(rp, n) do { if (!dst_ok(rp, n)) out_err(o, "oob"); dst_free(rp); } while (0)

typedef mp_limb_t (*f3_t)(mp_ptr, mp_srcptr, mp_srcptr, mp_size_t);
static int do3(f3_t f, int argc, tok_t *a, out_t *o) {
  NEED(argc == 2 && a[0].kind == T_VEC && a[1].kind == T_VEC && a[0].n == a[1].n && a[0].n >= 1);
  long n = a[0].n; mp_limb_t *rp = dst_new(n);
  mp_limb_t c = f(rp, a[0].d, a[1].d, n);
  out_vec(o, rp, n); out_ulong(o, c); FIN(rp, n); return 0;
}
/* mode 1: rp==up, 2: rp==vp, 3: rp==up==vp (data of u used for both) */
static int do3ov(f3_t f, int argc, tok_t *a, out_t *o) {
  NEED(argc == 3 && a[0].kind == T_NUM && a[1].kind == T_VEC && a[2].kind == T_VEC && a[1].n == a[2].n && a[1].n >= 1);
  long n = a[1].n, mode = tok_long(&a[0]); mp_limb_t *rp = dst_new(n), c;
  if (mode == 1) { memcpy(rp, a[1].d, n * 8); c = f(rp, rp, a[2].d, n); }
  else if (mode == 2) { memcpy(rp, a[2].d, n * 8); c = f(rp, a[1].d, rp, n); }
  else { memcpy(rp, a[1].d, n * 8); c = f(rp, rp, rp, n); }
  out_vec(o, rp, n); out_ulong(o, c); FIN(rp, n); return 0;
}
static int op_add_n(int c, tok_t *a, out_t *o) { return do3(mpn_add_n, c, a, o); }
static int op_sub_n(int c, tok_t *a, out_t *o) { return do3(mpn_sub_n, c, a, o); }
static int op_add_n_ov(int c, tok_t *a, out_t *o) { return do3ov(mpn_add_n, c, a, o); }
static int op_sub_n_ov(int c, tok_t *a, out_t *o) { return do3ov(mpn_sub_n, c, a, o); }

typedef mp_limb_t (*f1_t)(mp_ptr, mp_srcptr, mp_size_t, mp_limb_t);
static int do1(f1_t f, int inplace, int argc, tok_t *a, out_t *o) {
  NEED(argc == 2 && a[0].kind == T_VEC && a[1].kind == T_NUM && a[0].n >= 1 && a[1].n <= 1 && !a[1].neg);
  long n = a[0].n; mp_limb_t *rp = dst_new(n), c;
  if (inplace) { memcpy(rp, a[0].d, n * 8); c = f(rp, rp, n, tok_ulong(&a[1])); }
  else c = f(rp, a[0].d, n, tok_ulong(&a[1]));
  out_vec(o, rp, n); out_ulong(o, c); FIN(rp, n); return 0;
}
static int op_add_1(int c, tok_t *a, out_t *o) { return do1(mpn_add_1, 0, c, a, o); }
static int op_sub_1(int c, tok_t *a, out_t *o) { return do1(mpn_sub_1, 0, c, a, o); }
static int op_add_1_ip(int c, tok_t *a, out_t *o) { return do1(mpn_add_1, 1, c, a, o); }
static int op_sub_1_ip(int c, tok_t *a, out_t *o) { return do1(mpn_sub_1, 1, c, a, o); }
static int op_mul_1(int c, tok_t *a, out_t *o) { return do1(mpn_mul_1, 0, c, a, o); }
static int op_mul_1_ip(int c, tok_t *a, out_t *o) { return do1(mpn_mul_1, 1, c, a, o); }

typedef mp_limb_t (*f2_t)(mp_ptr, mp_srcptr, mp_size_t, mp_srcptr, mp_size_t);
static int do2(f2_t f, int inplace, int argc, tok_t *a, out_t *o) {
  NEED(argc == 2 && a[0].kind == T_VEC && a[1].kind == T_VEC && a[0].n >= a[1].n && a[0].n >= 1);
  long n = a[0].n; mp_limb_t *rp = dst_new(n), c;
  if (inplace) { memcpy(rp, a[0].d, n * 8); c = f(rp, rp, n, a[1].d, a[1].n); }
  else c = f(rp, a[0].d, n, a[1].d, a[1].n);
  out_vec(o, rp, n); out_ulong(o, c); FIN(rp, n); return 0;
}
static int op_add(int c, tok_t *a, out_t *o) { return do2(mpn_add, 0, c, a, o); }
static int op_sub(int c, tok_t *a, out_t *o) { return do2(mpn_sub, 0, c, a, o); }
static int op_add_ip(int c, tok_t *a, out_t *o) { return do2(mpn_add, 1, c, a, o); }
static int op_sub_ip(int c, tok_t *a, out_t *o) { return do2(mpn_sub, 1, c, a, o); }

static int op_neg(int argc, tok_t *a, out_t *o) {
  NEED(argc == 1 && a[0].kind == T_VEC && a[0].n >= 1);
  long n = a[0].n; mp_limb_t *rp = dst_new(n); mp_limb_t c = mpn_neg_n(rp, a[0].d, n);
  out_vec(o, rp, n); out_ulong(o, c); FIN(rp, n); return 0;
}
static int op_neg_ip(int argc, tok_t *a, out_t *o) {
  NEED(argc == 1 && a[0].kind == T_VEC && a[0].n >= 1);
  long n = a[0].n; mp_limb_t *rp = dst_new(n); memcpy(rp, a[0].d, n * 8); mp_limb_t c = mpn_neg_n(rp, rp, n);
  out_vec(o, rp, n); out_ulong(o, c); FIN(rp, n); return 0;
}
static int op_com(int argc, tok_t *a, out_t *o) {
  NEED(argc == 1 && a[0].kind == T_VEC && a[0].n >= 1);
  long n = a[0].n; mp_limb_t *rp = dst_new(n); mpn_com_n(rp, a[0].d, n);
  out_vec(o, rp, n); FIN(rp, n); return 0;
}
/* shifts: `k` = rp - up offset in limbs inside one buffer (lshift: k >= 0, rshift: k <= 0); absent = separate */
static int do_shift(int left, int argc, tok_t *a, out_t *o) {
  NEED((argc == 2 || argc == 3) && a[0].kind == T_VEC && a[1].kind == T_NUM && a[0].n >= 1);
  long n = a[0].n; unsigned cnt = tok_ulong(&a[1]); NEED(cnt >= 1 && cnt <= 63);
  mp_limb_t c;
  if (argc == 2) {
    mp_limb_t *rp = dst_new(n);
    c = left ? mpn_lshift(rp, a[0].d, n, cnt) : mpn_rshift(rp, a[0].d, n, cnt);
    out_vec(o, rp, n); out_ulong(o, c); FIN(rp, n); return 0;
  }
  long k = tok_long(&a[2]); NEED(left ? k >= 0 : k <= 0); long ak = k < 0 ? -k : k;
  mp_limb_t *buf = dst_new(n + ak), *up, *rp;
  if (left) { up = buf; rp = buf + ak; } else { rp = buf; up = buf + ak; }
  memcpy(up, a[0].d, n * 8);
  mp_limb_t save[64]; long ns = 0;   /* limbs of the buffer outside rp[0..n) must keep their content unless part of up (which may be clobbered only inside rp range) */
  (void)save; (void)ns;
  c = left ? mpn_lshift(rp, up, n, cnt) : mpn_rshift(rp, up, n, cnt);
  out_vec(o, rp, n); out_ulong(o, c);
  if (!dst_ok(buf, n + ak)) out_err(o, "oob");
  dst_free(buf); return 0;
}
static int op_lshift(int c, tok_t *a, out_t *o) { return do_shift(1, c, a, o); }
static int op_rshift(int c, tok_t *a, out_t *o) { return do_shift(0, c, a, o); }
/* copies: k = rp - up offset (copyi: k <= 0 allowed, copyd: k >= 0 allowed) */
static int do_copy(int incr, int argc, tok_t *a, out_t *o) {
  NEED((argc == 1 || argc == 2) && a[0].kind == T_VEC && a[0].n >= 1);
  long n = a[0].n, k = argc == 2 ? tok_long(&a[1]) : 0;
  if (argc == 1) { mp_limb_t *rp = dst_new(n); if (incr) mpn_copyi(rp, a[0].d, n); else mpn_copyd(rp, a[0].d, n); out_vec(o, rp, n); FIN(rp, n); return 0; }
  NEED(incr ? k <= 0 : k >= 0); long ak = k < 0 ? -k : k;
  mp_limb_t *buf = dst_new(n + ak), *up, *rp;
  if (!incr) { up = buf; rp = buf + ak; } else { rp = buf; up = buf + ak; }
  memcpy(up, a[0].d, n * 8);
  if (incr) mpn_copyi(rp, up, n); else mpn_copyd(rp, up, n);
  out_vec(o, rp, n); if (!dst_ok(buf, n + ak)) out_err(o, "oob"); dst_free(buf); return 0;
}
static int op_copyi(int c, tok_t *a, out_t *o) { return do_copy(1, c, a, o); }
static int op_copyd(int c, tok_t *a, out_t *o) { return do_copy(0, c, a, o); }
static int op_zero(int argc, tok_t *a, out_t *o) {
  NEED(argc == 1 && a[0].kind == T_NUM); long n = tok_long(&a[0]); NEED(n >= 1 && n < 100000);
  mp_limb_t *rp = dst_new(n); for (long i = 0; i < n; i++) rp[i] = 0x1234; mpn_zero(rp, n);
  out_vec(o, rp, n); FIN(rp, n); return 0;
}
static int op_cmp(int argc, tok_t *a, out_t *o) {
  NEED(argc == 2 && a[0].kind == T_VEC && a[1].kind == T_VEC && a[0].n == a[1].n);
  int r = mpn_cmp(a[0].d, a[1].d, a[0].n); out_long(o, r > 0 ? 1 : r < 0 ? -1 : 0); return 0;
}
static int op_zero_p(int argc, tok_t *a, out_t *o) {
  NEED(argc == 1 && a[0].kind == T_VEC && a[0].n >= 1);
  out_long(o, mpn_zero_p(a[0].d, a[0].n) != 0); return 0;
}
static int do_aorsmul(f1_t f, int argc, tok_t *a, out_t *o) {
  NEED(argc == 3 && a[0].kind == T_VEC && a[1].kind == T_VEC && a[2].kind == T_NUM && a[0].n == a[1].n && a[0].n >= 1 && a[2].n <= 1);
  long n = a[0].n; mp_limb_t *rp = dst_new(n); memcpy(rp, a[0].d, n * 8);
  mp_limb_t c = f(rp, a[1].d, n, tok_ulong(&a[2]));
  out_vec(o, rp, n); out_ulong(o, c); FIN(rp, n); return 0;
}
static int op_addmul_1(int c, tok_t *a, out_t *o) { return do_aorsmul(mpn_addmul_1, c, a, o); }
static int op_submul_1(int c, tok_t *a, out_t *o) { return do_aorsmul(mpn_submul_1, c, a, o); }
static int op_mul_basecase(int argc, tok_t *a, out_t *o) {
  NEED(argc == 2 && a[0].kind == T_VEC && a[1].kind == T_VEC && a[0].n >= a[1].n && a[1].n >= 1);
  long n = a[0].n + a[1].n; mp_limb_t *rp = dst_new(n);
  mpn_mul_basecase(rp, a[0].d, a[0].n, a[1].d, a[1].n);
  out_vec(o, rp, n); FIN(rp, n); return 0;
}

const opdef_t ops_kernels[] = {
  {"mpn_add_n", op_add_n}, {"mpn_sub_n", op_sub_n}, {"mpn_add_n_ov", op_add_n_ov}, {"mpn_sub_n_ov", op_sub_n_ov},
  {"mpn_add_1", op_add_1}, {"mpn_sub_1", op_sub_1}, {"mpn_add_1_ip", op_add_1_ip}, {"mpn_sub_1_ip", op_sub_1_ip},
  {"mpn_add", op_add}, {"mpn_sub", op_sub}, {"mpn_add_ip", op_add_ip}, {"mpn_sub_ip", op_sub_ip},
  {"mpn_neg", op_neg}, {"mpn_neg_ip", op_neg_ip}, {"mpn_com", op_com},
  {"mpn_lshift", op_lshift}, {"mpn_rshift", op_rshift}, {"mpn_copyi", op_copyi}, {"mpn_copyd", op_copyd},
  {"mpn_zero", op_zero}, {"mpn_cmp", op_cmp}, {"mpn_zero_p", op_zero_p},
  {"mpn_mul_1", op_mul_1}, {"mpn_mul_1_ip", op_mul_1_ip}, {"mpn_addmul_1", op_addmul_1}, {"mpn_submul_1", op_submul_1},
  {"mpn_mul_basecase", op_mul_basecase},
  {0, 0}
};
