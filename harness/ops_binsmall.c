/* Property C16, part binsmall: the limb-level pieces of mpz/bin_uiui.c that the theorems of
   lean/MpirProofs/Props/C16_binsmall.lean speak about.
   bin_mulfunc w m              -> limb      mulfunc[w-1] (m)   (mul1 .. mul8, any limb m: the wrapping cases too)
   bin_alg_assert alg n k       -> value [!assert]   the static algorithm (3 = smallk, 4 = smallkdc, 6 = bdiv) run from a copy of the
                                   tree's mpz/bin_uiui.c compiled HERE WITH ITS ASSERTs ALIVE (ASSERT (nn < alloc), ASSERT (rn < alloc),
                                   ASSERT (cnt < GMP_NUMB_BITS) ...): `!assert` is printed when one of them fails
   hensel_rsh_preinv [x] d m s  -> [q] ret   mpn_divrem_hensel_rsh_qr_1_preinv (q, x, n, d, m, s) of the library */
#include "harness.h"
#include "gmp-impl.h"
#include "longlong.h"
#define NEED(c) do { if (!(c)) return -1; } while (0)
#define IS_UI(t) ((t).kind == T_NUM && !(t).neg && (t).n <= 1)

static int bs_assert_line;
static void bs_assert_failed(int line) { if (!bs_assert_line) bs_assert_line = line; }
#undef ASSERT
#define ASSERT(e) do { if (!(e)) bs_assert_failed(__LINE__); } while (0)
#undef WANT_ASSERT
#define WANT_ASSERT 1

#undef mpz_bin_uiui
#define mpz_bin_uiui bs_copy_mpz_bin_uiui
#include "mpz/bin_uiui.c"
#undef mpz_bin_uiui
#define mpz_bin_uiui __gmpz_bin_uiui

static int op_mulfunc(int argc, tok_t *a, out_t *o) {
  NEED(argc == 2 && IS_UI(a[0]) && IS_UI(a[1]));
  unsigned long w = tok_ulong(&a[0]);
  NEED(w >= 1 && w <= M);
  out_ulong(o, mulfunc[w - 1](tok_ulong(&a[1])));
  return 0;
}

static int op_alg_assert(int argc, tok_t *a, out_t *o) {
  NEED(argc == 3 && IS_UI(a[0]) && IS_UI(a[1]) && IS_UI(a[2]));
  unsigned long alg = tok_ulong(&a[0]);
  mpir_ui n = tok_ulong(&a[1]), k = tok_ulong(&a[2]);
  NEED(k >= 2 && k <= n / 2);
  mpz_t r; mpz_init2(r, 1);
  bs_assert_line = 0;
  if (alg == 3) { NEED(k <= ODD_FACTORIAL_TABLE_LIMIT); mpz_smallk_bin_uiui(r, n, k); }
  else if (alg == 4) { NEED(k > ODD_FACTORIAL_TABLE_LIMIT && k <= 2 * ODD_CENTRAL_BINOMIAL_TABLE_LIMIT && n > ODD_FACTORIAL_EXTTABLE_LIMIT);
                       mpz_smallkdc_bin_uiui(r, n, k); }
  else if (alg == 6) { NEED(k > ODD_FACTORIAL_TABLE_LIMIT && k <= 200000); mpz_bdiv_bin_uiui(r, n, k); }
  else { mpz_clear(r); return -1; }
  out_mpz(o, r);
  if (bs_assert_line) out_err(o, "assert");
  mpz_clear(r); return 0;
}

static int op_hensel(int argc, tok_t *a, out_t *o) {
  NEED(argc == 4 && a[0].kind == T_VEC && a[0].n >= 1 && IS_UI(a[1]) && IS_UI(a[2]) && IS_UI(a[3]));
  mp_limb_t d = tok_ulong(&a[1]), m = tok_ulong(&a[2]); unsigned long s = tok_ulong(&a[3]);
  NEED((d & 1) && s < GMP_LIMB_BITS && (mp_limb_t)(d * m) == 1);
  long n = a[0].n;
  mp_limb_t *x = vec_copy(&a[0], 0), *q = dst_new(n);
  mp_limb_t ret = mpn_divrem_hensel_rsh_qr_1_preinv(q, x, n, d, m, (int) s);
  if (!dst_ok(q, n)) out_err(o, "oob"); else { out_vec(o, q, n); out_ulong(o, ret); }
  free(x); dst_free(q); return 0;
}

const opdef_t ops_binsmall[] = {
  {"bin_mulfunc", op_mulfunc}, {"bin_alg_assert", op_alg_assert}, {"hensel_rsh_preinv", op_hensel},
  {0, 0}
};
