/* C07, cofactor layer: mpn_gcdext_hook (both halves) called directly on a hand-built struct gcdext_ctx,
   mpn_gcdext_lehmer_n and mpn_gcdext with the size fields printed ({gp, gn}, *usize, {up, |*usize|}).
   Models: lean/Mpir/Model/Gcdext.lean.  All buffers are guarded (!oob). */
#include "harness.h"
#include "gmp-impl.h"
#include "longlong.h"
#define NEED(c) do { if (!(c)) return -1; } while (0)
#define VEC(i) (a[i].kind == T_VEC)
static int fits_ul(const tok_t *t) { return t->kind == T_NUM && !t->neg && t->n <= 1; }
#define UL(i) tok_ulong(&a[i])

/* mpn_gcdext_hook_q ualloc [u0] [u1] [q] d -> un' [u0'] [u1']
   u0, u1: exactly un limbs (the buffers have ualloc limbs, zero above un); {q, qn} as mpn_tdiv_qr leaves it
   (at most the top limb zero, value > 0); d in {0, 1}; un + qn + 1 <= ualloc. */
static int op_hook_q(int argc, tok_t *a, out_t *o) {
  NEED(argc == 5 && fits_ul(&a[0]) && VEC(1) && VEC(2) && VEC(3) && fits_ul(&a[4]) && UL(4) <= 1);
  long ualloc = UL(0), un = a[1].n, qn = a[3].n;
  NEED(un >= 1 && a[2].n == un && qn >= 1 && ualloc <= 100000 && un + qn + 1 <= ualloc);
  NEED(a[3].d[qn - 1] != 0 || (qn >= 2 && a[3].d[qn - 2] != 0));
  mp_limb_t *u0 = dst_new(ualloc), *u1 = dst_new(ualloc), *tp = dst_new(ualloc), *gp = dst_new(1), *up = dst_new(1);
  memset(u0, 0, ualloc * 8); memset(u1, 0, ualloc * 8); memset(tp, 0x5a, ualloc * 8);
  memcpy(u0, a[1].d, un * 8); memcpy(u1, a[2].d, un * 8);
  mp_size_t usize = 0x7777;
  struct gcdext_ctx ctx; ctx.gp = gp; ctx.gn = 0x6666; ctx.up = up; ctx.usize = &usize; ctx.un = un; ctx.u0 = u0; ctx.u1 = u1; ctx.tp = tp;
  mpn_gcdext_hook(&ctx, NULL, 0, a[3].d, qn, (int)UL(4));
  out_long(o, ctx.un);
  if (ctx.un < 1 || ctx.un > ualloc) out_err(o, "size");
  else { out_vec(o, u0, ctx.un); out_vec(o, u1, ctx.un); }
  for (long i = (ctx.un < 1 ? 0 : ctx.un); i < ualloc; i++) if (u0[i] | u1[i]) { out_err(o, "dirty"); break; }
  if (usize != 0x7777 || ctx.gn != 0x6666) out_err(o, "result-touched");
  if (!dst_ok(u0, ualloc) || !dst_ok(u1, ualloc) || !dst_ok(tp, ualloc) || !dst_ok(gp, 1) || !dst_ok(up, 1)) out_err(o, "oob");
  dst_free(u0); dst_free(u1); dst_free(tp); dst_free(gp); dst_free(up); return 0;
}
/* mpn_gcdext_hook_g [u0] [u1] [g] d -> gn [g] usize [up]     u0, u1 exactly un limbs; g normalised; d in {-1, 0, 1};
   for d = -1 the C requires u0 != u1 or u0 = u1 = 1 (its ASSERT) */
static int op_hook_g(int argc, tok_t *a, out_t *o) {
  NEED(argc == 4 && VEC(0) && VEC(1) && VEC(2) && a[3].kind == T_NUM && a[3].n <= 1);
  long un = a[0].n, gn = a[2].n; long d = tok_long(&a[3]);
  NEED(un >= 1 && a[1].n == un && gn >= 1 && a[2].d[gn - 1] != 0 && d >= -1 && d <= 1);
  mp_limb_t *u0 = dst_new(un + 1), *u1 = dst_new(un + 1), *gp = dst_new(gn), *up = dst_new(un);
  memcpy(u0, a[0].d, un * 8); memcpy(u1, a[1].d, un * 8); u0[un] = 0; u1[un] = 0;
  mp_size_t usize = 0x7777;
  struct gcdext_ctx ctx; ctx.gp = gp; ctx.gn = 0x6666; ctx.up = up; ctx.usize = &usize; ctx.un = un; ctx.u0 = u0; ctx.u1 = u1; ctx.tp = NULL;
  mp_limb_t one = 1;
  mpn_gcdext_hook(&ctx, a[2].d, gn, &one, 1, (int)d);
  long asn = usize < 0 ? -usize : usize;
  out_long(o, ctx.gn);
  if (ctx.gn != gn || asn > un) out_err(o, "size");
  else { out_vec(o, gp, gn); out_long(o, usize); out_vec(o, up, asn); }
  if (!dst_ok(u0, un + 1) || !dst_ok(u1, un + 1) || !dst_ok(gp, gn) || !dst_ok(up, un)) out_err(o, "oob");
  dst_free(u0); dst_free(u1); dst_free(gp); dst_free(up); return 0;
}
static void out_res(out_t *o, long gn, long n, mp_limb_t *gp, mp_size_t usize, mp_limb_t *up) {
  long asn = usize < 0 ? -usize : usize;
  out_long(o, gn);
  if (gn < 1 || gn > n || asn > n + 1) { out_err(o, "size"); return; }
  out_vec(o, gp, gn); out_long(o, usize); out_vec(o, up, asn);
}
/* mpn_gcdext_lehmer_n_sz [a] [b] -> gn [g] usize [up]      same length n >= 1, top limbs not both zero, a, b > 0;
   up has n + 1 limbs, tp MPN_GCDEXT_LEHMER_N_ITCH (n) */
static int op_lehmer_sz(int argc, tok_t *a, out_t *o) {
  NEED(argc == 2 && VEC(0) && VEC(1) && a[0].n == a[1].n && a[0].n >= 1);
  long n = a[0].n; NEED(a[0].d[n - 1] | a[1].d[n - 1]);
  int za = 1, zb = 1; for (long i = 0; i < n; i++) { if (a[0].d[i]) za = 0; if (a[1].d[i]) zb = 0; }
  NEED(!za && !zb);
  long itch = MPN_GCDEXT_LEHMER_N_ITCH(n);
  mp_limb_t *ap = dst_new(n), *bp = dst_new(n), *gp = dst_new(n), *up = dst_new(n + 1), *tp = dst_new(itch);
  memcpy(ap, a[0].d, n * 8); memcpy(bp, a[1].d, n * 8); memset(tp, 0x5a, itch * 8);
  mp_size_t usize = 0x7777;
  long gn = mpn_gcdext_lehmer_n(gp, up, &usize, ap, bp, n, tp);
  out_res(o, gn, n, gp, usize, up);
  if (!dst_ok(ap, n) || !dst_ok(bp, n) || !dst_ok(gp, n) || !dst_ok(up, n + 1) || !dst_ok(tp, itch)) out_err(o, "oob");
  dst_free(ap); dst_free(bp); dst_free(gp); dst_free(up); dst_free(tp); return 0;
}
/* mpn_gcdext_sz HGCD APPR REDUCE STRASSEN DC [u] [v] -> gn [g] usize [up]     an >= n >= 1, both top limbs non-zero.
   The thresholds are those the generator read from the tree; refused (?args) if the library was built with others. */
static int op_gcdext_sz(int argc, tok_t *a, out_t *o) {
  NEED(argc == 7 && fits_ul(&a[0]) && fits_ul(&a[1]) && fits_ul(&a[2]) && fits_ul(&a[3]) && fits_ul(&a[4]) && VEC(5) && VEC(6));
  NEED(UL(0) == HGCD_THRESHOLD && UL(1) == HGCD_APPR_THRESHOLD && UL(2) == HGCD_REDUCE_THRESHOLD
       && UL(3) == MATRIX22_STRASSEN_THRESHOLD && UL(4) == GCDEXT_DC_THRESHOLD);
  long an = a[5].n, n = a[6].n;
  NEED(an >= n && n >= 1 && a[6].d[n - 1] != 0 && a[5].d[an - 1] != 0);
  mp_limb_t *ap = dst_new(an + 1), *bp = dst_new(n + 1), *gp = dst_new(n), *up = dst_new(n + 1);
  memcpy(ap, a[5].d, an * 8); memcpy(bp, a[6].d, n * 8); ap[an] = 0x1111; bp[n] = 0x2222;
  mp_size_t usize = 0x7777;
  long gn = mpn_gcdext(gp, up, &usize, ap, an, bp, n);
  out_res(o, gn, n, gp, usize, up);
  if (!dst_ok(ap, an + 1) || !dst_ok(bp, n + 1) || !dst_ok(gp, n) || !dst_ok(up, n + 1)) out_err(o, "oob");
  dst_free(ap); dst_free(bp); dst_free(gp); dst_free(up); return 0;
}

const opdef_t ops_gcdext[] = {
  {"mpn_gcdext_hook_q", op_hook_q}, {"mpn_gcdext_hook_g", op_hook_g},
  {"mpn_gcdext_lehmer_n_sz", op_lehmer_sz}, {"mpn_gcdext_sz", op_gcdext_sz}, {"mpn_gcdext_sz_p", op_gcdext_sz},
  {0, 0}
};
