/* Property C16, part sieve: the binomial algorithms of mpz/bin_uiui.c.
   bin_uiui_sel n k alg  -> value   (the library's mpz_bin_uiui; `alg` is the algorithm the generator expects the
                                      dispatcher to select — ignored here, checked by the Lean side against its dispatch model)
   The static algorithms are reached by compiling the tree's mpz/bin_uiui.c into this file under another name:
   goetgheluck_bin_uiui n k, smallk_bin_uiui n k, smallkdc_bin_uiui n k, bdiv_bin_uiui n k  -> value
   (each inside the domain its ASSERTs / the dispatcher guarantee, enforced below). */
#include "harness.h"
#include "gmp-impl.h"
#include "longlong.h"
#define NEED(c) do { if (!(c)) return -1; } while (0)
#define IS_UI(t) ((t).kind == T_NUM && !(t).neg && (t).n <= 1)

#undef mpz_bin_uiui
#define mpz_bin_uiui sv_copy_mpz_bin_uiui
#include "mpz/bin_uiui.c"
#undef mpz_bin_uiui
#define mpz_bin_uiui __gmpz_bin_uiui

static mp_limb_t sb_n_to_bit(mp_limb_t n) { return ((n - 5) | 1) / 3U; }

static int op_bin_uiui_sel(int argc, tok_t *a, out_t *o) {
  NEED(argc == 3 && IS_UI(a[0]) && IS_UI(a[1]) && IS_UI(a[2]));
  mpz_t r, c; mpz_init2(r, 1); mpz_init2(c, 1);
  mpz_bin_uiui(r, tok_ulong(&a[0]), tok_ulong(&a[1]));
  out_mpz(o, r);
  sv_copy_mpz_bin_uiui(c, tok_ulong(&a[0]), tok_ulong(&a[1]));
  if (mpz_cmp(r, c) != 0) out_err(o, "copy-differs");
  mpz_clear(r); mpz_clear(c); return 0;
}

typedef void (*alg_t)(mpz_ptr, mpir_ui, mpir_ui);
static int run_alg(alg_t f, mpir_ui n, mpir_ui k, out_t *o) {
  mpz_t r; mpz_init2(r, 1);
  f(r, n, k);
  out_mpz(o, r); mpz_clear(r); return 0;
}
static int op_goet(int argc, tok_t *a, out_t *o) {
  NEED(argc == 2 && IS_UI(a[0]) && IS_UI(a[1]));
  mpir_ui n = tok_ulong(&a[0]), k = tok_ulong(&a[1]);
  NEED(n >= 25 && n <= 50000000UL && k <= n / 2 && sb_n_to_bit(n - k) < sb_n_to_bit(n));   /* the ASSERTs of :629, :678 */
  return run_alg(mpz_goetgheluck_bin_uiui, n, k, o);
}
static int op_smallk(int argc, tok_t *a, out_t *o) {
  NEED(argc == 2 && IS_UI(a[0]) && IS_UI(a[1]));
  mpir_ui n = tok_ulong(&a[0]), k = tok_ulong(&a[1]);
  NEED(k >= 2 && k <= ODD_FACTORIAL_TABLE_LIMIT && k <= n / 2);                           /* dispatcher: 2 <= k <= limit */
  return run_alg(mpz_smallk_bin_uiui, n, k, o);
}
static int op_smallkdc(int argc, tok_t *a, out_t *o) {
  NEED(argc == 2 && IS_UI(a[0]) && IS_UI(a[1]));
  mpir_ui n = tok_ulong(&a[0]), k = tok_ulong(&a[1]);
  NEED(k > ODD_FACTORIAL_TABLE_LIMIT && k <= 2 * ODD_CENTRAL_BINOMIAL_TABLE_LIMIT && k <= n / 2 && n > ODD_FACTORIAL_EXTTABLE_LIMIT);
  return run_alg(mpz_smallkdc_bin_uiui, n, k, o);
}
static int op_bdiv(int argc, tok_t *a, out_t *o) {
  NEED(argc == 2 && IS_UI(a[0]) && IS_UI(a[1]));
  mpir_ui n = tok_ulong(&a[0]), k = tok_ulong(&a[1]);
  NEED(k > ODD_FACTORIAL_TABLE_LIMIT && k <= n / 2 && k <= 200000);                        /* ASSERT (k > ODD_FACTORIAL_TABLE_LIMIT) */
  return run_alg(mpz_bdiv_bin_uiui, n, k, o);
}

const opdef_t ops_sieve_bin[] = {
  {"bin_uiui_sel", op_bin_uiui_sel}, {"goetgheluck_bin_uiui", op_goet}, {"smallk_bin_uiui", op_smallk},
  {"smallkdc_bin_uiui", op_smallkdc}, {"bdiv_bin_uiui", op_bdiv},
  {0, 0}
};
