/* mpir_fft_mulmod_2expp1 (property C01) with explicit (depth, w), answered by the whole-function value model of
   Mpir/Model/FftMulmod.lean. */
#include "harness.h"
#include "gmp-impl.h"
#define NEED(c) do { if (!(c)) return -1; } while (0)
#define ISV(t) ((t).kind == T_VEC)
#define ISN(t) ((t).kind == T_NUM && !(t).neg)

/* fftx_fft_mulmod_2expp1 same depth w [i1] [i2]: r_limbs = length of both, 1 <= depth <= 8, n = 2^depth,
   2n | r_limbs (bits1 = 64*r_limbs/(2n) a multiple of 64), n*w = 2*bits1 (the parameters mpn_mulmod_Bexpp1 derives),
   r_limbs <= 1024; same = 1 passes i2 = i1 (jj = ii) */
static int op_fft_mulmod(int argc, tok_t *a, out_t *o) {
  NEED(argc == 5 && ISN(a[0]) && tok_ulong(&a[0]) <= 1 && ISN(a[1]) && ISN(a[2]) && ISV(a[3]) && ISV(a[4]));
  int same = tok_ulong(&a[0]) == 1; long depth = tok_long(&a[1]), w = tok_long(&a[2]), R = a[3].n;
  NEED(a[4].n == R && depth >= 1 && depth <= 8 && w >= 1 && w < (1L << 20) && R >= 1 && R <= 1024);
  long n = 1L << depth; NEED(R % (2 * n) == 0);
  long bits1 = 64 * R / (2 * n); NEED(n * w == 2 * bits1);
  mp_limb_t *r1 = dst_new(R + 1);
  mpir_fft_mulmod_2expp1(r1, a[3].d, same ? a[3].d : a[4].d, R, depth, w);
  out_vec(o, r1, R + 1); if (!dst_ok(r1, R + 1)) out_err(o, "oob"); dst_free(r1); return 0;
}
const opdef_t ops_fftmulmod[] = { {"fftx_fft_mulmod_2expp1", op_fft_mulmod}, {0, 0} };
