/* FFT transforms (property C01): the real mpir_fft_radix2 / mpir_ifft_radix2 / mpir_fft_trunc1 / mpir_fft_trunc /
   mpir_ifft_trunc1 / mpir_ifft_trunc / mpir_fft_trunc_sqrt2 / mpir_ifft_trunc_sqrt2 / mpir_fft_mfa_trunc_sqrt2 /
   mpir_ifft_mfa_trunc_sqrt2 on a private coefficient array.  The array travels as ONE limb vector (count residues
   of limbs+1 limbs, concatenated); the whole array is printed after the call, every entry normalised with
   mpn_normmod_2expp1 so that the comparison with the value-level model is on canonical residues.
   n = 2^d, limbs = n*w/64 (must be exact, as in every caller). */
#include "harness.h"
#include "gmp-impl.h"
#define NEED(c) do { if (!(c)) return -1; } while (0)
#define ISV(t) ((t).kind == T_VEC)
#define ISN(t) ((t).kind == T_NUM && !(t).neg)

typedef struct { long d, w, n, limbs, size, cnt; mp_limb_t **ii, *t1, *t2, *s1; mp_limb_t *bufs[3]; } arr_t;

/* d <= 8, 1 <= w < 2^20, limbs = n*w/64 exact, 1 <= limbs <= 64; flat vector of cnt residues */
static int arr_init(arr_t *A, tok_t *td, tok_t *tw, tok_t *flat, long cntmul) {
  if (!(ISN(*td) && ISN(*tw) && ISV(*flat))) return -1;
  unsigned long d = tok_ulong(td), w = tok_ulong(tw);
  if (!(d <= 8 && w >= 1 && w < (1UL << 20))) return -1;
  long n = 1L << d, nw = n * (long)w;
  if (!(nw % 64 == 0 && nw / 64 >= 1 && nw / 64 <= 64)) return -1;
  A->d = d; A->w = w; A->n = n; A->limbs = nw / 64; A->size = A->limbs + 1; A->cnt = cntmul * n;
  if (flat->n != A->cnt * A->size) return -1;
  A->ii = malloc(A->cnt * sizeof *A->ii);
  for (long i = 0; i < A->cnt; i++) {
    A->ii[i] = dst_new(A->size);
    memcpy(A->ii[i], flat->d + i * A->size, A->size * sizeof(mp_limb_t));
  }
  for (int k = 0; k < 3; k++) { A->bufs[k] = dst_new(A->size); memset(A->bufs[k], 0x5a, A->size * sizeof(mp_limb_t)); }
  A->t1 = A->bufs[0]; A->t2 = A->bufs[1]; A->s1 = A->bufs[2];
  return 0;
}
/* the transforms permute the cnt+2 buffers among ii[], t1, t2 (MP_PTR_SWAP); s1 (temp) is never swapped */
static void arr_fin(arr_t *A, out_t *o) {
  long total = A->cnt * A->size, bad = 0;
  mp_limb_t *flat = malloc(total * sizeof *flat);
  for (long i = 0; i < A->cnt; i++) {
    if ((A->ii[i][A->limbs] == (mp_limb_t)1 << 63)) bad = 1; else mpn_normmod_2expp1(A->ii[i], A->limbs);
    memcpy(flat + i * A->size, A->ii[i], A->size * sizeof(mp_limb_t));
  }
  out_vec(o, flat, total); free(flat);
  if (bad) out_err(o, "topmin");
  for (long i = 0; i < A->cnt; i++) { if (!dst_ok(A->ii[i], A->size)) bad = 2; dst_free(A->ii[i]); }
  if (!dst_ok(A->t1, A->size) || !dst_ok(A->t2, A->size) || !dst_ok(A->s1, A->size)) bad = 2;
  dst_free(A->t1); dst_free(A->t2); dst_free(A->s1);
  if (bad == 2) out_err(o, "oob");
  free(A->ii);
}
static int trunc_ok(tok_t *t, long lo, long hi, long *out) {
  if (!ISN(*t)) return 0;
  long v = tok_long(t); *out = v;
  return v % 2 == 0 && lo < v && v <= hi;
}

/* fftx_radix2 d w [flat(2n)] */
static int op_radix2(int argc, tok_t *a, out_t *o) {
  arr_t A; NEED(argc == 3 && arr_init(&A, &a[0], &a[1], &a[2], 2) == 0);
  mpir_fft_radix2(A.ii, A.n, A.w, &A.t1, &A.t2);
  arr_fin(&A, o); return 0;
}
static int op_iradix2(int argc, tok_t *a, out_t *o) {
  arr_t A; NEED(argc == 3 && arr_init(&A, &a[0], &a[1], &a[2], 2) == 0);
  mpir_ifft_radix2(A.ii, A.n, A.w, &A.t1, &A.t2);
  arr_fin(&A, o); return 0;
}
/* fftx_trunc1 / fftx_trunc / fftx_itrunc1 / fftx_itrunc d w trunc [flat(2n)]: trunc even, 2 <= trunc <= 2n
   (an odd or zero trunc recurses down to n = 0, where the C never returns) */
typedef void (*fn_trunc_t)(mp_ptr *, mp_size_t, mp_bitcnt_t, mp_ptr *, mp_ptr *, mp_size_t);
static int do_trunc(fn_trunc_t f, int argc, tok_t *a, out_t *o) {
  NEED(argc == 4 && ISN(a[0]) && tok_ulong(&a[0]) <= 8);
  long trunc, n = 1L << tok_ulong(&a[0]); NEED(trunc_ok(&a[2], 0, 2 * n, &trunc));
  arr_t A; NEED(arr_init(&A, &a[0], &a[1], &a[3], 2) == 0);
  f(A.ii, A.n, A.w, &A.t1, &A.t2, trunc);
  arr_fin(&A, o); return 0;
}
static int op_trunc1(int c, tok_t *a, out_t *o) { return do_trunc(mpir_fft_trunc1, c, a, o); }
static int op_trunc(int c, tok_t *a, out_t *o) { return do_trunc(mpir_fft_trunc, c, a, o); }
static int op_itrunc1(int c, tok_t *a, out_t *o) { return do_trunc(mpir_ifft_trunc1, c, a, o); }
static int op_itrunc(int c, tok_t *a, out_t *o) { return do_trunc(mpir_ifft_trunc, c, a, o); }

/* fftx_trunc_sqrt2 / fftx_itrunc_sqrt2 d w trunc [flat(4n)]: 2n < trunc <= 4n, trunc even */
typedef void (*fn_sqrt2_t)(mp_ptr *, mp_size_t, mp_bitcnt_t, mp_ptr *, mp_ptr *, mp_ptr *, mp_size_t);
static int do_sqrt2(fn_sqrt2_t f, int argc, tok_t *a, out_t *o) {
  NEED(argc == 4 && ISN(a[0]) && tok_ulong(&a[0]) <= 8);
  long trunc, n = 1L << tok_ulong(&a[0]); NEED(trunc_ok(&a[2], 2 * n, 4 * n, &trunc));
  arr_t A; NEED(arr_init(&A, &a[0], &a[1], &a[3], 4) == 0);
  f(A.ii, A.n, A.w, &A.t1, &A.t2, &A.s1, trunc);
  arr_fin(&A, o); return 0;
}
static int op_trunc_sqrt2(int c, tok_t *a, out_t *o) { return do_sqrt2(mpir_fft_trunc_sqrt2, c, a, o); }
static int op_itrunc_sqrt2(int c, tok_t *a, out_t *o) { return do_sqrt2(mpir_ifft_trunc_sqrt2, c, a, o); }

/* fftx_mfa / fftx_imfa d w n1 trunc [flat(4n)]: n1 a power of two, 2 <= n1 <= n (n2 = 2n/n1 >= 2; the column code
   tests the parity of the column index i for the sqrt2 twiddles of j = i + m*n1), 2n < trunc <= 4n, trunc a
   multiple of 2*n1 (trunc2 = (trunc-2n)/n1 even; the inverse steps j = trunc + i - 2n by n1) */
typedef void (*fn_mfa_t)(mp_ptr *, mp_size_t, mp_bitcnt_t, mp_ptr *, mp_ptr *, mp_ptr *, mp_size_t, mp_size_t);
static int do_mfa(fn_mfa_t f, int argc, tok_t *a, out_t *o) {
  NEED(argc == 5 && ISN(a[0]) && tok_ulong(&a[0]) <= 8 && ISN(a[2]));
  long trunc, n = 1L << tok_ulong(&a[0]), n1 = tok_long(&a[2]);
  NEED(n1 >= 2 && n1 <= n && (n1 & (n1 - 1)) == 0);
  NEED(trunc_ok(&a[3], 2 * n, 4 * n, &trunc) && trunc % (2 * n1) == 0);
  arr_t A; NEED(arr_init(&A, &a[0], &a[1], &a[4], 4) == 0);
  f(A.ii, A.n, A.w, &A.t1, &A.t2, &A.s1, n1, trunc);
  arr_fin(&A, o); return 0;
}
static int op_mfa(int c, tok_t *a, out_t *o) { return do_mfa(mpir_fft_mfa_trunc_sqrt2, c, a, o); }
static int op_imfa(int c, tok_t *a, out_t *o) { return do_mfa(mpir_ifft_mfa_trunc_sqrt2, c, a, o); }

/* fftx_revbin x bits */
static int op_revbin(int argc, tok_t *a, out_t *o) {
  NEED(argc == 2 && ISN(a[0]) && ISN(a[1]));
  unsigned long x = tok_ulong(&a[0]), bits = tok_ulong(&a[1]); NEED(bits <= 20 && x < (1UL << bits));
  out_ulong(o, mpir_revbin(x, bits)); return 0;
}

/* fftx_mul_trunc_sqrt2 depth w [u] [v]: the real mpn_mul_trunc_sqrt2, answered by the transform-level model
   (requirements as for mpn_mul_trunc_sqrt2 in ops_mul.c) */
static int op_mul_trunc_sqrt2(int argc, tok_t *a, out_t *o) {
  NEED(argc == 4 && ISN(a[0]) && ISN(a[1]) && ISV(a[2]) && ISV(a[3]));
  long depth = tok_long(&a[0]), w = tok_long(&a[1]), n1 = a[2].n, n2 = a[3].n;
  NEED(depth >= 1 && depth <= 12 && w >= 1 && w < (1L << 20) && n1 >= 1 && n2 >= 1);
  long n = 1L << depth; NEED((n * w) % GMP_LIMB_BITS == 0 && n * w > depth + 1);
  long bits1 = (n * w - (depth + 1)) / 2; NEED(bits1 >= 1);
  long j1 = (n1 * GMP_LIMB_BITS - 1) / bits1 + 1, j2 = (n2 * GMP_LIMB_BITS - 1) / bits1 + 1;
  NEED(j1 + j2 - 1 <= 4 * n);
  long rn = n1 + n2; mp_limb_t *rp = dst_new(rn);
  mpn_mul_trunc_sqrt2(rp, a[2].d, n1, a[3].d, n2, depth, w);
  out_vec(o, rp, rn); if (!dst_ok(rp, rn)) out_err(o, "oob"); dst_free(rp); return 0;
}

const opdef_t ops_fftx[] = {
  {"fftx_radix2", op_radix2}, {"fftx_iradix2", op_iradix2},
  {"fftx_trunc1", op_trunc1}, {"fftx_trunc", op_trunc}, {"fftx_itrunc1", op_itrunc1}, {"fftx_itrunc", op_itrunc},
  {"fftx_trunc_sqrt2", op_trunc_sqrt2}, {"fftx_itrunc_sqrt2", op_itrunc_sqrt2},
  {"fftx_mfa", op_mfa}, {"fftx_imfa", op_imfa},
  {"fftx_revbin", op_revbin}, {"fftx_mul_trunc_sqrt2", op_mul_trunc_sqrt2},
  {0, 0}
};
