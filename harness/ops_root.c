/* Property C09: integer roots, remainders, perfect-square / perfect-power predicates.
   mpz ops take a `mode` selecting the aliasing of destination and source (the answer must not depend on it):
     mpz_sqrt     mode u      0: separate   1: rop == op
     mpz_sqrtrem  mode u      0: separate   1: rop1 == op   2: rop2 == op
     mpz_root     mode u n    0: separate   1: rop == op    2: rop == NULL (only the return value)
     mpz_nthroot  mode u n    0: separate   1: rop == op
     mpz_rootrem  mode u n    0: separate   1: root == u    2: rem == u
   mpn ops: mpn_sqrtrem [u] -> [s] [r] rn ; mpn_sqrtrem_ip (r2p == sp) ; mpn_sqrtrem_norem [u] -> [s] flag (r2p == NULL)
            mpn_rootrem [u] n -> [root] [rem] rn ; mpn_rootrem_norem [u] n -> [root] flag
            mpn_perfect_square_p [u] (u may have zero high limbs) ; mpz_perfect_square_p u ; mpz_perfect_power_p u
   The mpz root ops and mpn_perfect_square_p run under a watchdog: `!hang` after 20 s.
   mpn_sqrtrem1/2 and mpn_dc_sqrtrem are static in sqrtrem.c: reached through mpn_sqrtrem with 1 and 2 limbs. */
#include "harness.h"
#include "gmp-impl.h"
#include <signal.h>
#include <unistd.h>
#define NEED(c) do { if (!(c)) return -1; } while (0)

/* watchdog: the root functions with a huge index and mpn_perfect_square_p on unnormalised operands once did not
   return (or tried to allocate terabytes).  A call that is still running after WD_SECS prints `!hang`
   instead of stalling the whole check. */
#define WD_SECS 20
static sigjmp_buf wd_jmp;
static void on_alarm(int sig) { (void)sig; siglongjmp(wd_jmp, 1); }
#define WATCH(hung, stmt) do { signal(SIGALRM, on_alarm); \
    if (sigsetjmp(wd_jmp, 1) == 0) { alarm(WD_SECS); stmt; alarm(0); (hung) = 0; } \
    else { h_armed = 0; h_exc_happened = 1; (hung) = 1; } } while (0)

static int op_mpz_sqrt(int argc, tok_t *a, out_t *o) {
  NEED(argc == 2 && a[0].kind == T_NUM && a[1].kind == T_NUM);
  long mode = tok_long(&a[0]); NEED(mode == 0 || mode == 1);
  mpz_t u, r; mpz_init(u); mpz_init2(r, 1); tok_mpz(u, &a[1]);
  int e;
  if (mode == 1) { e = GUARD(mpz_sqrt(u, u)); if (e) out_exc(o, e); else out_mpz(o, u); }
  else { e = GUARD(mpz_sqrt(r, u)); if (e) out_exc(o, e); else out_mpz(o, r); }
  mpz_clear(u); mpz_clear(r); return 0;
}

static int op_mpz_sqrtrem(int argc, tok_t *a, out_t *o) {
  NEED(argc == 2 && a[0].kind == T_NUM && a[1].kind == T_NUM);
  long mode = tok_long(&a[0]); NEED(mode >= 0 && mode <= 2);
  mpz_t u, s, r; mpz_init(u); mpz_init2(s, 1); mpz_init2(r, 1); tok_mpz(u, &a[1]);
  mpz_ptr sp = mode == 1 ? u : s, rp = mode == 2 ? u : r;
  int e = GUARD(mpz_sqrtrem(sp, rp, u));
  if (e) out_exc(o, e); else { out_mpz(o, sp); out_mpz(o, rp); }
  mpz_clear(u); mpz_clear(s); mpz_clear(r); return 0;
}

static int op_mpz_root(int argc, tok_t *a, out_t *o) {
  NEED(argc == 3 && a[0].kind == T_NUM && a[1].kind == T_NUM && a[2].kind == T_NUM && !a[2].neg && a[2].n <= 1);
  long mode = tok_long(&a[0]); NEED(mode >= 0 && mode <= 2);
  mpz_t u, r; mpz_init(u); mpz_init2(r, 1); tok_mpz(u, &a[1]);
  mpz_ptr rp = mode == 1 ? u : mode == 2 ? NULL : r;
  volatile int ret = 0, e = 0; int hung;
  WATCH(hung, e = GUARD(ret = mpz_root(rp, u, tok_ulong(&a[2]))));
  if (hung) { out_err(o, "hang"); return 0; }
  if (e) out_exc(o, e); else { if (rp) out_mpz(o, rp); out_long(o, ret != 0); }
  mpz_clear(u); mpz_clear(r); return 0;
}

static int op_mpz_nthroot(int argc, tok_t *a, out_t *o) {
  NEED(argc == 3 && a[0].kind == T_NUM && a[1].kind == T_NUM && a[2].kind == T_NUM && !a[2].neg && a[2].n <= 1);
  long mode = tok_long(&a[0]); NEED(mode == 0 || mode == 1);
  mpz_t u, r; mpz_init(u); mpz_init2(r, 1); tok_mpz(u, &a[1]);
  mpz_ptr rp = mode == 1 ? u : r;
  volatile int e = 0; int hung;
  WATCH(hung, e = GUARD(mpz_nthroot(rp, u, tok_ulong(&a[2]))));
  if (hung) { out_err(o, "hang"); return 0; }
  if (e) out_exc(o, e); else out_mpz(o, rp);
  mpz_clear(u); mpz_clear(r); return 0;
}

static int op_mpz_rootrem(int argc, tok_t *a, out_t *o) {
  NEED(argc == 3 && a[0].kind == T_NUM && a[1].kind == T_NUM && a[2].kind == T_NUM && !a[2].neg && a[2].n <= 1);
  long mode = tok_long(&a[0]); NEED(mode >= 0 && mode <= 2);
  mpz_t u, s, r; mpz_init(u); mpz_init2(s, 1); mpz_init2(r, 1); tok_mpz(u, &a[1]);
  mpz_ptr sp = mode == 1 ? u : s, rp = mode == 2 ? u : r;
  volatile int e = 0; int hung;
  WATCH(hung, e = GUARD(mpz_rootrem(sp, rp, u, tok_ulong(&a[2]))));
  if (hung) { out_err(o, "hang"); return 0; }
  if (e) out_exc(o, e); else { out_mpz(o, sp); out_mpz(o, rp); }
  mpz_clear(u); mpz_clear(s); mpz_clear(r); return 0;
}

/* which: 0 separate remainder, 1 r2p == sp (in place), 2 r2p == NULL */
static int do_mpn_sqrtrem(int which, int argc, tok_t *a, out_t *o) {
  NEED(argc == 1 && a[0].kind == T_VEC && a[0].n >= 1 && a[0].d[a[0].n - 1] != 0);
  long n = a[0].n, tn = (n + 1) / 2;
  mp_limb_t *sp = dst_new(tn), *rp = dst_new(n), *np = dst_new(n);
  memcpy(np, a[0].d, n * sizeof(mp_limb_t));
  mp_size_t rn;
  if (which == 0) rn = mpn_sqrtrem(sp, rp, np, n);
  else if (which == 1) rn = mpn_sqrtrem(sp, np, np, n);
  else rn = mpn_sqrtrem(sp, NULL, np, n);
  out_vec(o, sp, tn);
  if (which == 2) out_long(o, rn != 0);
  else if (rn < 0 || rn > n) out_err(o, "malformed");
  else { out_vec(o, which == 1 ? np : rp, rn); out_long(o, rn); }
  if (which != 1 && memcmp(np, a[0].d, n * sizeof(mp_limb_t))) out_err(o, "srcmod");   /* input-only operand */
  if (!dst_ok(sp, tn) || !dst_ok(rp, n) || !dst_ok(np, n)) out_err(o, "oob");
  dst_free(sp); dst_free(rp); dst_free(np); return 0;
}
static int op_mpn_sqrtrem(int c, tok_t *a, out_t *o) { return do_mpn_sqrtrem(0, c, a, o); }
static int op_mpn_sqrtrem_ip(int c, tok_t *a, out_t *o) { return do_mpn_sqrtrem(1, c, a, o); }
static int op_mpn_sqrtrem_norem(int c, tok_t *a, out_t *o) { return do_mpn_sqrtrem(2, c, a, o); }

static int do_mpn_rootrem(int norem, int argc, tok_t *a, out_t *o) {
  NEED(argc == 2 && a[0].kind == T_VEC && a[0].n >= 1 && a[0].d[a[0].n - 1] != 0 && a[1].kind == T_NUM && !a[1].neg && a[1].n == 1);
  mp_limb_t k = tok_ulong(&a[1]); NEED(k >= 2);
  long n = a[0].n, tn = (n - 1) / k + 1;
  mp_limb_t *sp = dst_new(tn), *rp = dst_new(n), *np = dst_new(n);
  memcpy(np, a[0].d, n * sizeof(mp_limb_t));
  mp_size_t rn = mpn_rootrem(sp, norem ? NULL : rp, np, n, k);
  out_vec(o, sp, tn);
  if (norem) out_long(o, rn != 0);
  else if (rn < 0 || rn > n) out_err(o, "malformed");
  else { out_vec(o, rp, rn); out_long(o, rn); }
  if (memcmp(np, a[0].d, n * sizeof(mp_limb_t))) out_err(o, "srcmod");
  if (!dst_ok(sp, tn) || !dst_ok(rp, n) || !dst_ok(np, n)) out_err(o, "oob");
  dst_free(sp); dst_free(rp); dst_free(np); return 0;
}
static int op_mpn_rootrem(int c, tok_t *a, out_t *o) { return do_mpn_rootrem(0, c, a, o); }
static int op_mpn_rootrem_norem(int c, tok_t *a, out_t *o) { return do_mpn_rootrem(1, c, a, o); }

static int op_mpn_perfect_square_p(int argc, tok_t *a, out_t *o) {
  NEED(argc == 1 && a[0].kind == T_VEC && a[0].n >= 1);      /* high zero limbs are allowed (manual: any {s1p, n}) */
  long n = a[0].n; mp_limb_t *np = dst_new(n); memcpy(np, a[0].d, n * sizeof(mp_limb_t));
  volatile int ret = 0; int hung;
  WATCH(hung, ret = mpn_perfect_square_p(np, n));
  if (hung) { out_err(o, "hang"); return 0; }
  out_long(o, ret != 0);
  if (memcmp(np, a[0].d, n * sizeof(mp_limb_t))) out_err(o, "srcmod");
  if (!dst_ok(np, n)) out_err(o, "oob");
  dst_free(np); return 0;
}
static int op_mpz_perfect_square_p(int argc, tok_t *a, out_t *o) {
  NEED(argc == 1 && a[0].kind == T_NUM);
  mpz_t u; mpz_init(u); tok_mpz(u, &a[0]);
  out_long(o, mpz_perfect_square_p(u) != 0);
  mpz_clear(u); return 0;
}
static int op_mpz_perfect_power_p(int argc, tok_t *a, out_t *o) {
  NEED(argc == 1 && a[0].kind == T_NUM);
  mpz_t u; mpz_init(u); tok_mpz(u, &a[0]);
  volatile int ret = 0;
  int e = GUARD(ret = mpz_perfect_power_p(u));
  if (e) out_exc(o, e); else out_long(o, ret != 0);
  mpz_clear(u); return 0;
}

const opdef_t ops_root[] = {
  {"mpz_sqrt", op_mpz_sqrt}, {"mpz_sqrtrem", op_mpz_sqrtrem}, {"mpz_root", op_mpz_root},
  {"mpz_nthroot", op_mpz_nthroot}, {"mpz_rootrem", op_mpz_rootrem},
  {"mpn_sqrtrem", op_mpn_sqrtrem}, {"mpn_sqrtrem_ip", op_mpn_sqrtrem_ip}, {"mpn_sqrtrem_norem", op_mpn_sqrtrem_norem},
  {"mpn_rootrem", op_mpn_rootrem}, {"mpn_rootrem_norem", op_mpn_rootrem_norem},
  {"mpn_perfect_square_p", op_mpn_perfect_square_p}, {"mpz_perfect_square_p", op_mpz_perfect_square_p},
  {"mpz_perfect_power_p", op_mpz_perfect_power_p},
  {0, 0}
};
