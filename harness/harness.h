/* Correspondence harness: shared declarations.  The harness links the libmpir.a rebuilt from
   /repo's working tree and calls the real functions in-process.  Number parsing/printing is done
   here by hand (never through the library under test). */
#ifndef HARNESS_H
#define HARNESS_H
#include <stdio.h>
#include <stdlib.h>
#include <string.h>
#include <stdint.h>
#include "mpir.h"

enum { T_NUM, T_VEC, T_STR };

typedef struct {
  int kind;
  int neg;            /* T_NUM: sign */
  mp_limb_t *d;       /* T_NUM magnitude / T_VEC limbs (n entries, may have n==0; d always non-NULL) */
  long n;
  unsigned char *s;   /* T_STR bytes (NUL terminated for convenience) */
  long slen;
} tok_t;

typedef struct { char *buf; size_t len, cap; } out_t;

typedef int (*opfn_t)(int argc, tok_t *argv, out_t *o);   /* return 0 = ok, -1 = bad arguments */
typedef struct { const char *name; opfn_t fn; } opdef_t;

/* output tokens */
void out_raw(out_t *o, const char *s);
void out_vec(out_t *o, const mp_limb_t *p, long n);
void out_mag(out_t *o, int neg, const mp_limb_t *p, long n);   /* strips high zeros */
void out_long(out_t *o, long v);
void out_ulong(out_t *o, unsigned long v);
void out_bytes(out_t *o, const void *p, size_t n);
void out_err(out_t *o, const char *name);                      /* `!name` */
void out_mpz(out_t *o, mpz_srcptr z);     /* value; appends !malformed if not well formed */
void out_mpq(out_t *o, mpq_srcptr q);     /* num den */
void out_mpf(out_t *o, mpf_srcptr f);     /* sign-mag limbs exp: `size exp [limbs]` */

/* argument access */
long tok_long(const tok_t *t);            /* small signed integer */
unsigned long tok_ulong(const tok_t *t);
void tok_mpz(mpz_ptr z, const tok_t *t);  /* z must be initialised; exact-size allocation */
mp_limb_t *vec_copy(const tok_t *t, long extra);   /* malloc'd copy with `extra` spare limbs (red-zoned by caller if wanted) */

mp_limb_t *dst_new(long n);            /* destination with guard limbs around it */
int dst_ok(const mp_limb_t *p, long n);
void dst_free(mp_limb_t *p);
extern int h_exc_happened;

int mpz_wf(mpz_srcptr z);
int mpf_wf(mpf_srcptr f);

/* guard: run `call` catching MPIR's SIGFPE exceptions; evaluates to 0 or the gmp_errno bits */
#include <setjmp.h>
extern sigjmp_buf h_jmp;
extern volatile int h_armed;
#define GUARD(call) (h_armed = 1, sigsetjmp(h_jmp, 1) == 0 ? ((call), h_armed = 0, 0) : (h_armed = 0, h_exc_code()))
int h_exc_code(void);
void out_exc(out_t *o, int code);

/* allocator ledger */
extern long h_live_blocks;
extern long h_alloc_errors;
extern char h_alloc_msg[256];
extern long h_alloc_calls, h_realloc_calls, h_free_calls;
size_t h_block_size(void *p);          /* ledger size of a live block, (size_t)-1 if unknown */

#endif
