/* C15: N threads run seeded operation lists on thread-private destination objects, reading shared
   read-only sources; the same lists are then run sequentially and the per-thread digests must agree.
   Built normally and with -fsanitize=thread (any TSan report aborts the harness: exit code 66).
   op:  threads N seed nops   ->  0 when every thread's digest equals its sequential digest */
#include "harness.h"
#include "gmp-impl.h"      /* RANDS_CLEAR, __gmp_rands_initialized (cells_trace) */
#include <pthread.h>
#define NSRC 8
#define NPRIV 6
static mpz_t src_z[NSRC]; static mpq_t src_q[4]; static mpf_t src_f[4];
typedef struct { int id; unsigned long seed; long nops; unsigned long digest; } job_t;

static unsigned long xs(unsigned long *s) { unsigned long x = *s; x ^= x << 13; x ^= x >> 7; x ^= x << 17; return *s = x; }
static unsigned long fold_z(unsigned long h, mpz_srcptr z) {
  long n = z->_mp_size < 0 ? -z->_mp_size : z->_mp_size;
  h = h * 1099511628211UL ^ (unsigned long) z->_mp_size;
  for (long i = 0; i < n; i++) h = (h ^ z->_mp_d[i]) * 1099511628211UL;
  return h;
}
static unsigned long fold_f(unsigned long h, mpf_srcptr f) {
  long n = f->_mp_size < 0 ? -f->_mp_size : f->_mp_size;
  h = h * 1099511628211UL ^ (unsigned long) f->_mp_size ^ ((unsigned long) f->_mp_exp << 20);
  for (long i = 0; i < n; i++) h = (h ^ f->_mp_d[i]) * 1099511628211UL;
  return h;
}
static void *worker(void *arg) {
  job_t *j = arg; unsigned long s = j->seed * 2654435761UL + 88172645463325252UL + j->id, h = 1469598103934665603UL;
  mpz_t z[NPRIV]; mpq_t q[3]; mpf_t f[3]; gmp_randstate_t rs; char buf[400];
  for (int i = 0; i < NPRIV; i++) mpz_init(z[i]);
  for (int i = 0; i < 3; i++) { mpq_init(q[i]); mpf_init2(f[i], 64 * (1 + i * 3)); }
  gmp_randinit_default(rs); gmp_randseed_ui(rs, j->seed + 7 * j->id);
  gmp_randstate_t rl; gmp_randinit_lc_2exp_size(rl, 64); gmp_randseed_ui(rl, j->seed + j->id);
  for (long k = 0; k < j->nops; k++) {
    unsigned long r = xs(&s); int d = r % NPRIV, a = (r >> 8) % NSRC, b = (r >> 16) % NSRC, p = (r >> 24) % NPRIV;
    mpz_srcptr A = (r >> 40 & 3) ? src_z[a] : z[p], B = src_z[b];
    switch ((r >> 32) % 40) {
    case 0: mpz_add(z[d], A, B); break;
    case 1: mpz_sub(z[d], A, B); break;
    case 2: mpz_mul(z[d], A, B); break;              /* big sources: Toom/FFT scratch above the alloca cut-over */
    case 3: if (mpz_sgn(B)) mpz_tdiv_q(z[d], A, B); break;
    case 4: if (mpz_sgn(B)) mpz_fdiv_r(z[d], A, B); break;
    case 5: if (mpz_sgn(B)) mpz_tdiv_qr(z[d], z[(d + 1) % NPRIV], A, B); break;
    case 6: mpz_gcd(z[d], A, B); break;
    case 7: mpz_gcdext(z[d], z[(d + 1) % NPRIV], z[(d + 2) % NPRIV], src_z[a % 4], src_z[b % 4]); break;
    case 8: mpz_and(z[d], A, B); break;
    case 9: mpz_ior(z[d], A, B); break;
    case 10: mpz_xor(z[d], A, B); break;
    case 11: mpz_mul_2exp(z[d], A, r >> 50 & 255); break;
    case 12: mpz_fdiv_q_2exp(z[d], A, r >> 50 & 255); break;
    case 13: mpz_sqrt(z[d], src_z[a]->_mp_size >= 0 ? src_z[a] : src_z[0]); break;
    case 14: mpz_root(z[d], src_z[0], 1 + (r >> 50) % 5); break;
    case 15: if (mpz_sgn(src_z[b % 4]) > 0) mpz_powm_ui(z[d], src_z[a % 4], (r >> 50) % 40, src_z[b % 4]); break;
    case 16: if (mpz_sgn(src_z[b % 4]) > 0) mpz_powm(z[d], src_z[a % 4], src_z[1], src_z[b % 4]); break;
    case 17: mpz_fac_ui(z[d], (r >> 50) % 300); break;
    case 18: mpz_fib_ui(z[d], (r >> 50) % 500); break;
    case 19: mpz_bin_uiui(z[d], 40 + (r >> 50) % 200, (r >> 44) % 40); break;
    case 20: mpz_nextprime(z[d], src_z[a % 3]); break;
    case 21: h = h * 31 + mpz_probab_prime_p(src_z[a % 3], 5); break;
    case 22: { char *st = mpz_get_str(NULL, 2 + (r >> 50) % 61, A); for (char *c = st; *c; c++) h = h * 131 + *c; mpz_set_str(z[d], st, 2 + (r >> 50) % 61); void (*fr)(void *, size_t); mp_get_memory_functions(NULL, NULL, &fr); fr(st, strlen(st) + 1); } break;
    case 23: gmp_snprintf(buf, sizeof buf, "%Zd|%#Zx|%Qd|%.10Ff", src_z[a % 3], B->_mp_size > 30 || B->_mp_size < -30 ? src_z[2] : B, src_q[a % 4], src_f[b % 4]); for (char *c = buf; *c; c++) h = h * 131 + *c; break;
    case 24: { unsigned long v = 0; gmp_sscanf("123456789012345678901234567890 77", "%Zd %lu", z[d], &v); h += v; } break;
    case 25: mpz_urandomb(z[d], rs, 1 + (r >> 50) % 300); break;
    case 26: if (mpz_sgn(src_z[b % 4]) > 0) mpz_urandomm(z[d], rs, src_z[b % 4]); break;
    case 27: mpz_urandomb(z[d], rl, 1 + (r >> 50) % 200); break;
    case 28: mpq_add(q[d % 3], src_q[a % 4], src_q[b % 4]); break;
    case 29: mpq_mul(q[d % 3], src_q[a % 4], q[p % 3]); break;
    case 30: if (mpq_sgn(src_q[b % 4])) mpq_div(q[d % 3], src_q[a % 4], src_q[b % 4]); break;
    case 31: mpf_add(f[d % 3], src_f[a % 4], src_f[b % 4]); break;
    case 32: mpf_mul(f[d % 3], src_f[a % 4], f[p % 3]); break;
    case 33: if (mpf_sgn(src_f[b % 4])) mpf_div(f[d % 3], src_f[a % 4], src_f[b % 4]); break;
    case 34: mpf_sqrt(f[d % 3], mpf_sgn(src_f[a % 4]) >= 0 ? src_f[a % 4] : src_f[0]); break;
    case 35: mpf_set_z(f[d % 3], src_z[a % 4]); break;
    case 36: mpz_set_f(z[d], src_f[a % 4]); break;
    case 37: h = h * 31 + mpz_cmp(A, B) + 2 * mpz_sizeinbase(A, 10) + mpz_popcount(src_z[0]); break;
    case 38: mpz_lcm(z[d], src_z[a % 4], src_z[b % 4]); break;
    case 39: h = h * 31 + mpz_jacobi(A, src_z[3]) + mpz_perfect_power_p(src_z[a % 4]); break;
    }
    /* keep private values bounded */
    if (z[d]->_mp_size > 3000 || z[d]->_mp_size < -3000) mpz_tdiv_r_2exp(z[d], z[d], 64 * 50);
  }
  for (int i = 0; i < NPRIV; i++) { h = fold_z(h, z[i]); mpz_clear(z[i]); }
  for (int i = 0; i < 3; i++) { h = fold_z(fold_z(h, mpq_numref(q[i])), mpq_denref(q[i])); h = fold_f(h, f[i]); mpq_clear(q[i]); mpf_clear(f[i]); }
  gmp_randclear(rs); gmp_randclear(rl);
  j->digest = h; return 0;
}
static int op_threads(int argc, tok_t *a, out_t *o) {
  if (argc != 3) return -1;
  int n = tok_long(&a[0]); unsigned long seed = tok_ulong(&a[1]); long nops = tok_long(&a[2]);
  if (n < 1 || n > 16 || nops < 0 || nops > 100000) return -1;
  /* shared read-only sources: small, medium, and large enough that products/divisions need heap temporaries */
  gmp_randstate_t rs; gmp_randinit_default(rs); gmp_randseed_ui(rs, seed);
  static const long bits[NSRC] = {200, 190, 64 * 5, 127, 64 * 40, 64 * 300, 64 * 2500, 64 * 2600};
  for (int i = 0; i < NSRC; i++) { mpz_init(src_z[i]); mpz_urandomb(src_z[i], rs, bits[i]); if (i == 3) mpz_setbit(src_z[i], 0); if (i == 2 || i == 5) mpz_neg(src_z[i], src_z[i]); mpz_add_ui(src_z[i], src_z[i], i != 2 && i != 5 ? 3 : 0); }
  for (int i = 0; i < 4; i++) { mpq_init(src_q[i]); mpz_urandomb(mpq_numref(src_q[i]), rs, 60 + 100 * i); mpz_urandomb(mpq_denref(src_q[i]), rs, 50 + 90 * i); mpz_add_ui(mpq_denref(src_q[i]), mpq_denref(src_q[i]), 1); mpq_canonicalize(src_q[i]); if (i == 1) mpq_neg(src_q[i], src_q[i]);
    mpf_init2(src_f[i], 64 * (1 + 2 * i)); mpf_urandomb(src_f[i], rs, 64 * (1 + 2 * i)); mpf_mul_2exp(src_f[i], src_f[i], 10 * i); mpf_add_ui(src_f[i], src_f[i], 1); }
  gmp_randclear(rs);
  job_t par[16], seq[16]; pthread_t th[16];
  for (int i = 0; i < n; i++) { par[i].id = seq[i].id = i; par[i].seed = seq[i].seed = seed; par[i].nops = seq[i].nops = nops; }
  for (int i = 0; i < n; i++) pthread_create(&th[i], 0, worker, &par[i]);
  for (int i = 0; i < n; i++) pthread_join(th[i], 0);
  for (int i = 0; i < n; i++) worker(&seq[i]);
  int bad = 0; for (int i = 0; i < n; i++) if (par[i].digest != seq[i].digest) bad++;
  for (int i = 0; i < NSRC; i++) mpz_clear(src_z[i]);
  for (int i = 0; i < 4; i++) { mpq_clear(src_q[i]); mpf_clear(src_f[i]); }
  if (bad) { out_err(o, "thread-result-differs"); out_long(o, bad); } else out_long(o, 0);
  return 0;
}

/* ---------------------------------------------------------------------------------------------------------
   threadsx N seed nops profile: histories aimed at the places where a library keeps hidden state —
   bit 0 printf/scanf (private buffers), bit 1 string conversion (below and above the precompute thresholds),
   bit 2 factorial / binomial / fibonacci (tables + sieve + prime-swing), bit 3 primality (trial division,
   Miller-Rabin with the function's own generator, private states), bit 4 one random state per thread
   (MT, LC, copies, reseeding), bit 5 READS of the default mpf precision (set by the main thread BEFORE the
   threads exist, restored after they are joined: the documented discipline), bit 6 the documented exception: thread 0
   — and only thread 0 — also uses the obsolete random functions on the library's global generator (mpn_random,
   mpn_random2, mpf_random2) and clears it before it ends; the other threads never touch those cells.
   Per-thread memory accounting: an allocator with thread-local counters is installed (again before thread
   creation); every thread must free exactly what it allocated, and its allocation count and byte total must
   equal those of the sequential run (a shared cache filled by whichever thread comes first breaks this). */
static void *(*x_alloc0)(size_t); static void *(*x_realloc0)(void *, size_t, size_t); static void (*x_free0)(void *, size_t);
static __thread unsigned long x_na, x_nf, x_ba, x_bf;
static void *x_alloc(size_t n) { x_na++; x_ba += n; return x_alloc0(n); }
static void *x_realloc(void *p, size_t o, size_t n) { x_na++; x_nf++; x_ba += n; x_bf += o; return x_realloc0(p, o, n); }
static void x_free(void *p, size_t n) { x_nf++; x_bf += n; x_free0(p, n); }
typedef struct { int id; unsigned long seed; long nops; int profile; unsigned long digest, na, ba; long live_blocks, live_bytes; } jobx_t;
#define NPR 6
static mpz_t srcx_p[NPR];      /* shared read-only: primes and composites that survive trial division */
static unsigned long fold_s(unsigned long h, const char *c) { for (; *c; c++) h = h * 131 + (unsigned char) *c; return h; }
static void x_freestr(char *st) { void (*fr)(void *, size_t); mp_get_memory_functions(NULL, NULL, &fr); fr(st, strlen(st) + 1); }

static void *workerx(void *arg) {
  jobx_t *j = arg; unsigned long s = j->seed * 0x9E3779B97F4A7C15UL + 0x1234567 + 977 * j->id, h = 1469598103934665603UL;
  x_na = x_nf = x_ba = x_bf = 0;
  mpz_t z[4]; mpq_t q; mpf_t f; gmp_randstate_t mt, lc, cp; char buf[600];
  for (int i = 0; i < 4; i++) mpz_init(z[i]);
  mpq_init(q); mpf_init2(f, 300);
  gmp_randinit_mt(mt); gmp_randseed_ui(mt, j->seed ^ (0x55 * (j->id + 1)));
  gmp_randinit_lc_2exp_size(lc, 100); gmp_randseed_ui(lc, j->seed + 3 * j->id);
  int kinds[7], nk = 0; for (int b = 0; b < 6; b++) if (j->profile >> b & 1) kinds[nk++] = b;
  if ((j->profile >> 6 & 1) && j->id == 0) kinds[nk++] = 6;
  if (!nk) kinds[nk++] = 0;
  for (long k = 0; k < j->nops; k++) {
    unsigned long r = xs(&s); int d = r & 3, sub = (r >> 8) % 8; unsigned long v = r >> 40;
    switch (kinds[(r >> 2) % nk]) {
    case 0:                       /* printf / scanf */
      mpz_urandomb(z[d], mt, 1 + v % 700); if (v & 1) mpz_neg(z[d], z[d]);
      mpq_set_ui(q, 1 + v % 977, 1 + (v >> 10) % 1009); mpq_canonicalize(q); mpf_set_z(f, z[d]); mpf_div_ui(f, f, 7 + v % 90);
      switch (sub) {
      case 0: gmp_snprintf(buf, sizeof buf, "%Zd", z[d]); break;
      case 1: gmp_snprintf(buf, sizeof buf, "%#40Zx|%-+30Zd|%Qd", z[d], z[(d + 1) & 3], q); break;   /* format longer than 40 characters below */
      case 2: gmp_snprintf(buf, sizeof buf, "a rather long literal prefix, then %Zd and %Qx and %.20Fe and %lu", z[(d + 1) & 3], q, f, v); break;
      case 3: gmp_sprintf(buf, "%.30Ff %Fg %5.3Fe", f, f, f); break;
      case 4: { char *st = 0; int n = gmp_asprintf(&st, "%Zo %Qd %d", z[d], q, (int) (v % 1000)); h = h * 31 + n; strncpy(buf, st, sizeof buf - 1); buf[sizeof buf - 1] = 0; x_freestr(st); } break;
      case 5: { int n = 0; gmp_snprintf(buf, 24, "%Zd%n", z[d], &n); h = h * 31 + n; } break;
      case 6: { gmp_snprintf(buf, sizeof buf, "%Zd %Qd %Fe", z[d], q, f); mpz_t a; mpq_t b; mpf_t c; mpz_init(a); mpq_init(b); mpf_init2(c, 300); int n = gmp_sscanf(buf, "%Zd %Qd %Ff", a, b, c);
                h = fold_z(fold_z(fold_z(fold_f(h * 31 + n, c), a), mpq_numref(b)), mpq_denref(b)); mpz_clear(a); mpq_clear(b); mpf_clear(c); } break;
      case 7: { long a = 0; unsigned long b = 0; int n = 0; gmp_sscanf(" -123 0x7fffffff   99999999999999999999999", "%ld %li%n %Zi", &a, &b, &n, z[d]); h = h * 31 + a + b + n; buf[0] = 0; } break;
      }
      h = fold_s(h, buf); break;
    case 1: {                     /* string conversion: 2..62, negative bases, sizes around SET_STR_DC/PRECOMPUTE and GET_STR thresholds */
      static const int sizes[8] = {1, 60, 640, 1100, 6000, 9000, 30000, 200};
      int base = 2 + v % 61; if (sub == 7) base = 10;
      mpz_urandomb(z[d], mt, sizes[sub]); if (v >> 20 & 1) mpz_neg(z[d], z[d]);
      char *st = mpz_get_str(NULL, (v >> 21 & 1) && base <= 36 ? -base : base, z[d]); h = fold_s(h, st);
      mpz_set_str(z[(d + 1) & 3], st, base); h = h * 31 + (mpz_cmp(z[d], z[(d + 1) & 3]) == 0); x_freestr(st);
      if (sub == 2) { mp_exp_t e; mpf_set_z(f, z[d]); mpf_sqrt_ui(f, 2 + v % 50); st = mpf_get_str(NULL, &e, base, 40, f); h = fold_s(h, st) + e; x_freestr(st); mpf_set_str(f, "-1.25e-3", 10); h = fold_f(h, f); }
      if (sub == 3) { mpq_set_z(q, z[d]); mpz_set_ui(mpq_denref(q), 1 + 2 * (v % 1000)); mpq_canonicalize(q); st = mpq_get_str(NULL, base, q); h = fold_s(h, st); mpq_set_str(q, st, base); x_freestr(st); }
      } break;
    case 2: {                     /* factorial / binomial / fibonacci: table range, just above it, sieve range, prime-swing range */
      static const unsigned long ns[8] = {0, 20, 36, 37, 100, 900, 2500, 6000};
      unsigned long n = ns[sub] + v % 13;
      switch ((v >> 8) % 8) {
      case 0: mpz_fac_ui(z[d], n); break;
      case 1: mpz_2fac_ui(z[d], n); break;
      case 2: mpz_mfac_uiui(z[d], n, 1 + (v >> 12) % 5); break;
      case 3: mpz_primorial_ui(z[d], n); break;
      case 4: mpz_bin_uiui(z[d], n + 40, (v >> 12) % (n + 41)); break;
      case 5: mpz_urandomb(z[(d + 1) & 3], mt, 90); mpz_bin_ui(z[d], z[(d + 1) & 3], (v >> 12) % 50); break;
      case 6: mpz_fib_ui(z[d], n); mpz_fib2_ui(z[(d + 1) & 3], z[(d + 2) & 3], n * 3); break;
      case 7: mpz_lucnum_ui(z[d], n); mpz_lucnum2_ui(z[(d + 1) & 3], z[(d + 2) & 3], n + 1); break;
      }
      h = fold_z(h, z[d]); } break;
    case 3: {                     /* primality */
      mpz_srcptr P = srcx_p[v % NPR];
      switch (sub) {
      case 0: case 1: h = h * 31 + mpz_probab_prime_p(P, 5 + v % 20); break;        /* Miller-Rabin stage reached: n > 10^6 without small factors */
      case 2: mpz_nextprime(z[d], P); h = fold_z(h, z[d]); break;
      case 3: h = h * 31 + mpz_likely_prime_p(P, mt, 0); break;
      case 4: h = h * 31 + mpz_probable_prime_p(P, lc, 10, 0); break;
      case 5: mpz_next_prime_candidate(z[d], P, mt); h = fold_z(h, z[d]); break;
      case 6: mpz_urandomb(z[d], mt, 40 + v % 300); mpz_setbit(z[d], 0); h = h * 31 + mpz_probab_prime_p(z[d], 10); break;
      case 7: mpz_set_ui(z[d], 1000003 + 2 * (v % 5000)); h = h * 31 + mpz_probab_prime_p(z[d], 3) + 3 * mpz_millerrabin(z[d], 4); break;
      }
      } break;
    case 4:                       /* one random state per thread */
      switch (sub) {
      case 0: mpz_urandomb(z[d], mt, 1 + v % 2000); break;
      case 1: mpz_urandomb(z[d], lc, 1 + v % 500); break;
      case 2: mpz_urandomb(z[(d + 1) & 3], mt, 1 + v % 300); mpz_add_ui(z[(d + 1) & 3], z[(d + 1) & 3], 1); mpz_urandomm(z[d], (v >> 12 & 1) ? mt : lc, z[(d + 1) & 3]); break;
      case 3: mpz_rrandomb(z[d], mt, 1 + v % 900); break;
      case 4: mpf_urandomb(f, lc, 1 + v % 300); h = fold_f(h, f); break;
      case 5: gmp_randinit_set(cp, (v >> 12 & 1) ? mt : lc); mpz_urandomb(z[d], cp, 128); gmp_randclear(cp); break;
      case 6: mpz_urandomb(z[(d + 1) & 3], lc, 1 + v % 700); gmp_randseed(mt, z[(d + 1) & 3]); mpz_urandomb(z[d], mt, 64); break;
      case 7: h = h * 31 + gmp_urandomb_ui(mt, 1 + v % 64) + gmp_urandomm_ui(lc, 1 + v % 1000003); break;
      }
      h = fold_z(h, z[d]); break;
    case 5: {                     /* reads of the default precision */
      mpf_t g;
      switch (sub % 6) {
      case 0: mpf_init(g); break;
      case 1: mpf_init_set_ui(g, v); break;
      case 2: mpf_init_set_si(g, -(long) (v % 100000)); break;
      case 3: mpf_init_set_d(g, (double) (v % 4096) / 64.0); break;
      case 4: mpf_init_set_str(g, "3.14159265358979323846264338327950288419716939937510582097494459", 10); break;
      case 5: mpf_init_set(g, f); break;
      }
      h = fold_f(h * 31 + g->_mp_prec + mpf_get_prec(g) + mpf_get_default_prec(), g);
      mpf_sqrt_ui(g, 2 + v % 100); h = fold_f(h, g); mpf_clear(g); } break;
    case 6: {                     /* the global generator, from this thread only */
      mp_limb_t t[40]; long n = 1 + v % 40;
      switch (sub % 3) {
      case 0: mpn_random(t, n); for (long i = 0; i < n; i++) h = (h ^ t[i]) * 1099511628211UL; break;
      case 1: mpn_random2(t, n); for (long i = 0; i < n; i++) h = (h ^ t[i]) * 1099511628211UL; break;
      case 2: mpf_random2(f, 1 + v % 4, 3); h = fold_f(h, f); break;
      }
      } break;
    }
  }
  if ((j->profile >> 6 & 1) && j->id == 0) RANDS_CLEAR();
  for (int i = 0; i < 4; i++) mpz_clear(z[i]);
  mpq_clear(q); mpf_clear(f); gmp_randclear(mt); gmp_randclear(lc);
  j->digest = h; j->na = x_na; j->ba = x_ba; j->live_blocks = (long) (x_na - x_nf); j->live_bytes = (long) (x_ba - x_bf);
  return 0;
}
static int op_threadsx(int argc, tok_t *a, out_t *o) {
  if (argc != 4) return -1;
  int n = tok_long(&a[0]); unsigned long seed = tok_ulong(&a[1]); long nops = tok_long(&a[2]); int profile = tok_long(&a[3]);
  if (n < 1 || n > 16 || nops < 0 || nops > 100000 || profile < 0 || profile > 127) return -1;
  gmp_randstate_t rs; gmp_randinit_default(rs); gmp_randseed_ui(rs, seed);
  static const long pbits[NPR] = {24, 40, 64, 130, 400, 90};
  for (int i = 0; i < NPR; i++) { mpz_init(srcx_p[i]); mpz_urandomb(srcx_p[i], rs, pbits[i]); mpz_setbit(srcx_p[i], pbits[i] - 1); mpz_nextprime(srcx_p[i], srcx_p[i]); }
  { mpz_t t; mpz_init(t); mpz_urandomb(t, rs, 50); mpz_setbit(t, 49); mpz_nextprime(t, t); mpz_mul(srcx_p[5], srcx_p[5], t); mpz_clear(t); }   /* composite without small factors */
  gmp_randclear(rs);
  /* the documented discipline: shared cells are written only while no other thread exists */
  mp_bitcnt_t prec0 = mpf_get_default_prec(); mpf_set_default_prec(64 + seed % 700);
  mp_get_memory_functions(&x_alloc0, &x_realloc0, &x_free0); mp_set_memory_functions(x_alloc, x_realloc, x_free);
  jobx_t par[16], seq[16]; pthread_t th[16];
  for (int i = 0; i < n; i++) { par[i].id = seq[i].id = i; par[i].seed = seq[i].seed = seed; par[i].nops = seq[i].nops = nops; par[i].profile = seq[i].profile = profile; }
  for (int i = 0; i < n; i++) pthread_create(&th[i], 0, workerx, &par[i]);
  for (int i = 0; i < n; i++) pthread_join(th[i], 0);
  for (int i = 0; i < n; i++) workerx(&seq[i]);
  mp_set_memory_functions(x_alloc0, x_realloc0, x_free0); mpf_set_default_prec(prec0);
  int bad = 0, unbal = 0, acct = 0;
  for (int i = 0; i < n; i++) {
    if (par[i].digest != seq[i].digest) bad++;
    if (par[i].live_blocks || par[i].live_bytes || seq[i].live_blocks || seq[i].live_bytes) unbal++;
    if (par[i].na != seq[i].na || par[i].ba != seq[i].ba) acct++;
  }
  for (int i = 0; i < NPR; i++) mpz_clear(srcx_p[i]);
  if (bad) { out_err(o, "thread-result-differs"); out_long(o, bad); }
  else if (unbal) { out_err(o, "thread-memory-not-balanced"); out_long(o, unbal); }
  else if (acct) { out_err(o, "thread-memory-accounting-differs"); out_long(o, acct); }
  else out_long(o, 0);
  return 0;
}

/* ---------------------------------------------------------------------------------------------------------
   cells_trace [codes]: a sequential trace of the API calls that touch the documented shared cells, answered by
   the Lean model `Mpir.Threads.runApi` (lean/Mpir/Model/Threads.lean).  Codes: 1 a r f  mp_set_memory_functions
   (0 = NULL, 1/2 = counting families); 2 mp_get_memory_functions; 3 b mpf_set_default_prec; 4 mpf_get_default_prec;
   5 mpf_init; 6 mpz_init2/realloc2/clear; 7 mpn_random (RANDS); 8 RANDS_CLEAR; 9 gmp_errno.
   The op starts from, and restores, the state of a freshly loaded library. */
static long c_cnt[3][3];      /* [family][alloc, realloc, free] */
static void *c_a1(size_t n) { c_cnt[1][0]++; return malloc(n); }
static void *c_r1(void *p, size_t o, size_t n) { c_cnt[1][1]++; return realloc(p, n); }
static void c_f1(void *p, size_t n) { c_cnt[1][2]++; free(p); }
static void *c_a2(size_t n) { c_cnt[2][0]++; return malloc(n); }
static void *c_r2(void *p, size_t o, size_t n) { c_cnt[2][1]++; return realloc(p, n); }
static void c_f2(void *p, size_t n) { c_cnt[2][2]++; free(p); }
static long c_snap[3];
static void c_mark(void) { for (int k = 0; k < 3; k++) c_snap[k] = c_cnt[1][k] + 1000000 * c_cnt[2][k]; }
static unsigned long c_who(int k) { long d = c_cnt[1][k] + 1000000 * c_cnt[2][k] - c_snap[k]; return d == 0 ? 0 : d == 1 ? 1 : d == 1000000 ? 2 : 99; }
static int op_cells_trace(int argc, tok_t *a, out_t *o) {
  if (!(argc == 1 && a[0].kind == T_VEC)) return -1;
  long n = a[0].n; const mp_limb_t *c = a[0].d;
  /* validate first (same language as Mpir.Threads.decodeCalls) */
  for (long i = 0; i < n; ) {
    if (c[i] == 1) { if (i + 3 >= n || c[i + 1] > 2 || c[i + 2] > 2 || c[i + 3] > 2) return -1; i += 4; }
    else if (c[i] == 3) { if (i + 1 >= n || c[i + 1] > (1UL << 20)) return -1; i += 2; }
    else if (c[i] == 2 || (c[i] >= 4 && c[i] <= 9)) i++;
    else return -1;
  }
  void *(*sa)(size_t); void *(*sr)(void *, size_t, size_t); void (*sf)(void *, size_t);
  mp_get_memory_functions(&sa, &sr, &sf);
  mp_bitcnt_t prec0 = mpf_get_default_prec();
  mp_set_memory_functions(0, 0, 0); mpf_set_default_prec(53); RANDS_CLEAR();
  void *(*d_a)(size_t); void *(*d_r)(void *, size_t, size_t); void (*d_f)(void *, size_t);
  mp_get_memory_functions(&d_a, &d_r, &d_f);        /* the library's defaults */
  static void *(*const fa[3])(size_t) = {0, c_a1, c_a2}; static void *(*const fr[3])(void *, size_t, size_t) = {0, c_r1, c_r2}; static void (*const ff[3])(void *, size_t) = {0, c_f1, c_f2};
  mp_limb_t *obs = malloc((3 * n + 4) * sizeof *obs); long m = 0;
  for (long i = 0; i < n; ) {
    switch (c[i]) {
    case 1: mp_set_memory_functions(fa[c[i + 1]], fr[c[i + 2]], ff[c[i + 3]]); i += 4; break;
    case 2: { void *(*ga)(size_t); void *(*gr)(void *, size_t, size_t); void (*gf)(void *, size_t); mp_get_memory_functions(&ga, &gr, &gf);
              obs[m++] = ga == d_a ? 0 : ga == c_a1 ? 1 : ga == c_a2 ? 2 : 99; obs[m++] = gr == d_r ? 0 : gr == c_r1 ? 1 : gr == c_r2 ? 2 : 99; obs[m++] = gf == d_f ? 0 : gf == c_f1 ? 1 : gf == c_f2 ? 2 : 99; i++; } break;
    case 3: mpf_set_default_prec(c[i + 1]); i += 2; break;
    case 4: obs[m++] = mpf_get_default_prec(); i++; break;
    case 5: { mpf_t x; c_mark(); mpf_init(x); obs[m++] = x->_mp_prec; obs[m++] = mpf_get_prec(x); obs[m++] = c_who(0); mpf_clear(x); i++; } break;
    case 6: { mpz_t z; c_mark(); mpz_init2(z, 320); mpz_realloc2(z, 3200); mpz_clear(z); obs[m++] = c_who(0); obs[m++] = c_who(1); obs[m++] = c_who(2); i++; } break;
    case 7: { mp_limb_t t[2]; c_mark(); mpn_random(t, 2); obs[m++] = __gmp_rands_initialized ? c_who(0) : 98; obs[m++] = __gmp_rands_initialized; i++; } break;
    case 8: { c_mark(); RANDS_CLEAR(); obs[m++] = c_who(2); i++; } break;
    case 9: obs[m++] = (unsigned long) gmp_errno; i++; break;
    }
  }
  RANDS_CLEAR(); mp_set_memory_functions(sa, sr, sf); mpf_set_default_prec(prec0);
  out_vec(o, obs, m); free(obs);
  return 0;
}
const opdef_t ops_threads[] = { {"threads", op_threads}, {"threadsx", op_threadsx}, {"cells_trace", op_cells_trace}, {0, 0} };
