/* C15: N threads run seeded operation lists on thread-private destination objects, reading shared
   read-only sources; the same lists are then run sequentially and the per-thread digests must agree.
   Built normally and with -fsanitize=thread (any TSan report aborts the harness: exit code 66).
   op:  threads N seed nops   ->  0 when every thread's digest equals its sequential digest */
#include "harness.h"
#include <pthread.h>
#define NSRC 8
#define NPRIV 6
static mpz_t src_z[NSRC]; static mpq_t src_q[4]; static mpf_t src_f[4];
typedef struct { int id; unsigned long seed; long nops; unsigned long digest; } job_t;

static unsigned long xs(unsigned long *s) { unsigned long x = *s; x ^= x << 13; x ^= x >> 7; x ^= x << 17; return *s = x; }
static unsigned long fold_z(unsigned long h, mpz_srcptr z) {
  long n = z->_mp_size < 0 ? -z->_mp_size : z->_mp_size;
  h = h * 1099511628211UL ^ (unsigned long) z->_mp_size;
  for (long i = 0; i < n; i++) h = (h ^ z->_mp_d[i]) * 1099511628211UL;
  return h;
}
static unsigned long fold_f(unsigned long h, mpf_srcptr f) {
  long n = f->_mp_size < 0 ? -f->_mp_size : f->_mp_size;
  h = h * 1099511628211UL ^ (unsigned long) f->_mp_size ^ ((unsigned long) f->_mp_exp << 20);
  for (long i = 0; i < n; i++) h = (h ^ f->_mp_d[i]) * 1099511628211UL;
  return h;
}
static void *worker(void *arg) {
  job_t *j = arg; unsigned long s = j->seed * 2654435761UL + 88172645463325252UL + j->id, h = 1469598103934665603UL;
  mpz_t z[NPRIV]; mpq_t q[3]; mpf_t f[3]; gmp_randstate_t rs; char buf[400];
  for (int i = 0; i < NPRIV; i++) mpz_init(z[i]);
  for (int i = 0; i < 3; i++) { mpq_init(q[i]); mpf_init2(f[i], 64 * (1 + i * 3)); }
  gmp_randinit_default(rs); gmp_randseed_ui(rs, j->seed + 7 * j->id);
  gmp_randstate_t rl; gmp_randinit_lc_2exp_size(rl, 64); gmp_randseed_ui(rl, j->seed + j->id);
  for (long k = 0; k < j->nops; k++) {
    unsigned long r = xs(&s); int d = r % NPRIV, a = (r >> 8) % NSRC, b = (r >> 16) % NSRC, p = (r >> 24) % NPRIV;
    mpz_srcptr A = (r >> 40 & 3) ? src_z[a] : z[p], B = src_z[b];
    switch ((r >> 32) % 40) {
    case 0: mpz_add(z[d], A, B); break;
    case 1: mpz_sub(z[d], A, B); break;
    case 2: mpz_mul(z[d], A, B); break;              /* big sources: Toom/FFT scratch above the alloca cut-over */
    case 3: if (mpz_sgn(B)) mpz_tdiv_q(z[d], A, B); break;
    case 4: if (mpz_sgn(B)) mpz_fdiv_r(z[d], A, B); break;
    case 5: if (mpz_sgn(B)) mpz_tdiv_qr(z[d], z[(d + 1) % NPRIV], A, B); break;
    case 6: mpz_gcd(z[d], A, B); break;
    case 7: mpz_gcdext(z[d], z[(d + 1) % NPRIV], z[(d + 2) % NPRIV], src_z[a % 4], src_z[b % 4]); break;
    case 8: mpz_and(z[d], A, B); break;
    case 9: mpz_ior(z[d], A, B); break;
    case 10: mpz_xor(z[d], A, B); break;
    case 11: mpz_mul_2exp(z[d], A, r >> 50 & 255); break;
    case 12: mpz_fdiv_q_2exp(z[d], A, r >> 50 & 255); break;
    case 13: mpz_sqrt(z[d], src_z[a]->_mp_size >= 0 ? src_z[a] : src_z[0]); break;
    case 14: mpz_root(z[d], src_z[0], 1 + (r >> 50) % 5); break;
    case 15: if (mpz_sgn(src_z[b % 4]) > 0) mpz_powm_ui(z[d], src_z[a % 4], (r >> 50) % 40, src_z[b % 4]); break;
    case 16: if (mpz_sgn(src_z[b % 4]) > 0) mpz_powm(z[d], src_z[a % 4], src_z[1], src_z[b % 4]); break;
    case 17: mpz_fac_ui(z[d], (r >> 50) % 300); break;
    case 18: mpz_fib_ui(z[d], (r >> 50) % 500); break;
    case 19: mpz_bin_uiui(z[d], 40 + (r >> 50) % 200, (r >> 44) % 40); break;
    case 20: mpz_nextprime(z[d], src_z[a % 3]); break;
    case 21: h = h * 31 + mpz_probab_prime_p(src_z[a % 3], 5); break;
    case 22: { char *st = mpz_get_str(NULL, 2 + (r >> 50) % 61, A); for (char *c = st; *c; c++) h = h * 131 + *c; mpz_set_str(z[d], st, 2 + (r >> 50) % 61); void (*fr)(void *, size_t); mp_get_memory_functions(NULL, NULL, &fr); fr(st, strlen(st) + 1); } break;
    case 23: gmp_snprintf(buf, sizeof buf, "%Zd|%#Zx|%Qd|%.10Ff", src_z[a % 3], B->_mp_size > 30 || B->_mp_size < -30 ? src_z[2] : B, src_q[a % 4], src_f[b % 4]); for (char *c = buf; *c; c++) h = h * 131 + *c; break;
    case 24: { unsigned long v = 0; gmp_sscanf("123456789012345678901234567890 77", "%Zd %lu", z[d], &v); h += v; } break;
    case 25: mpz_urandomb(z[d], rs, 1 + (r >> 50) % 300); break;
    case 26: if (mpz_sgn(src_z[b % 4]) > 0) mpz_urandomm(z[d], rs, src_z[b % 4]); break;
    case 27: mpz_urandomb(z[d], rl, 1 + (r >> 50) % 200); break;
    case 28: mpq_add(q[d % 3], src_q[a % 4], src_q[b % 4]); break;
    case 29: mpq_mul(q[d % 3], src_q[a % 4], q[p % 3]); break;
    case 30: if (mpq_sgn(src_q[b % 4])) mpq_div(q[d % 3], src_q[a % 4], src_q[b % 4]); break;
    case 31: mpf_add(f[d % 3], src_f[a % 4], src_f[b % 4]); break;
    case 32: mpf_mul(f[d % 3], src_f[a % 4], f[p % 3]); break;
    case 33: if (mpf_sgn(src_f[b % 4])) mpf_div(f[d % 3], src_f[a % 4], src_f[b % 4]); break;
    case 34: mpf_sqrt(f[d % 3], mpf_sgn(src_f[a % 4]) >= 0 ? src_f[a % 4] : src_f[0]); break;
    case 35: mpf_set_z(f[d % 3], src_z[a % 4]); break;
    case 36: mpz_set_f(z[d], src_f[a % 4]); break;
    case 37: h = h * 31 + mpz_cmp(A, B) + 2 * mpz_sizeinbase(A, 10) + mpz_popcount(src_z[0]); break;
    case 38: mpz_lcm(z[d], src_z[a % 4], src_z[b % 4]); break;
    case 39: h = h * 31 + mpz_jacobi(A, src_z[3]) + mpz_perfect_power_p(src_z[a % 4]); break;
    }
    /* keep private values bounded */
    if (z[d]->_mp_size > 3000 || z[d]->_mp_size < -3000) mpz_tdiv_r_2exp(z[d], z[d], 64 * 50);
  }
  for (int i = 0; i < NPRIV; i++) { h = fold_z(h, z[i]); mpz_clear(z[i]); }
  for (int i = 0; i < 3; i++) { h = fold_z(fold_z(h, mpq_numref(q[i])), mpq_denref(q[i])); h = fold_f(h, f[i]); mpq_clear(q[i]); mpf_clear(f[i]); }
  gmp_randclear(rs); gmp_randclear(rl);
  j->digest = h; return 0;
}
static int op_threads(int argc, tok_t *a, out_t *o) {
  if (argc != 3) return -1;
  int n = tok_long(&a[0]); unsigned long seed = tok_ulong(&a[1]); long nops = tok_long(&a[2]);
  if (n < 1 || n > 16 || nops < 0 || nops > 100000) return -1;
  /* shared read-only sources: small, medium, and large enough that products/divisions need heap temporaries */
  gmp_randstate_t rs; gmp_randinit_default(rs); gmp_randseed_ui(rs, seed);
  static const long bits[NSRC] = {200, 190, 64 * 5, 127, 64 * 40, 64 * 300, 64 * 2500, 64 * 2600};
  for (int i = 0; i < NSRC; i++) { mpz_init(src_z[i]); mpz_urandomb(src_z[i], rs, bits[i]); if (i == 3) mpz_setbit(src_z[i], 0); if (i == 2 || i == 5) mpz_neg(src_z[i], src_z[i]); mpz_add_ui(src_z[i], src_z[i], i != 2 && i != 5 ? 3 : 0); }
  for (int i = 0; i < 4; i++) { mpq_init(src_q[i]); mpz_urandomb(mpq_numref(src_q[i]), rs, 60 + 100 * i); mpz_urandomb(mpq_denref(src_q[i]), rs, 50 + 90 * i); mpz_add_ui(mpq_denref(src_q[i]), mpq_denref(src_q[i]), 1); mpq_canonicalize(src_q[i]); if (i == 1) mpq_neg(src_q[i], src_q[i]);
    mpf_init2(src_f[i], 64 * (1 + 2 * i)); mpf_urandomb(src_f[i], rs, 64 * (1 + 2 * i)); mpf_mul_2exp(src_f[i], src_f[i], 10 * i); mpf_add_ui(src_f[i], src_f[i], 1); }
  gmp_randclear(rs);
  job_t par[16], seq[16]; pthread_t th[16];
  for (int i = 0; i < n; i++) { par[i].id = seq[i].id = i; par[i].seed = seq[i].seed = seed; par[i].nops = seq[i].nops = nops; }
  for (int i = 0; i < n; i++) pthread_create(&th[i], 0, worker, &par[i]);
  for (int i = 0; i < n; i++) pthread_join(th[i], 0);
  for (int i = 0; i < n; i++) worker(&seq[i]);
  int bad = 0; for (int i = 0; i < n; i++) if (par[i].digest != seq[i].digest) bad++;
  for (int i = 0; i < NSRC; i++) mpz_clear(src_z[i]);
  for (int i = 0; i < 4; i++) { mpq_clear(src_q[i]); mpf_clear(src_f[i]); }
  if (bad) { out_err(o, "thread-result-differs"); out_long(o, bad); } else out_long(o, 0);
  return 0;
}
const opdef_t ops_threads[] = { {"threads", op_threads}, {0, 0} };
