/* C07: gcd, gcdext, lcm, invert, jacobi/kronecker.  mpz ops take an alias mode as first argument:
     two-operand functions   0 = rop distinct, 1 = rop is the variable a, 2 = rop is the variable b
     mpz_gcdext              see GX_MODES below (g/s/t aliased with a/b in every way the code allows)
   mpn ops copy their operands (the library destroys them) and use guarded destinations. */
#include "harness.h"
#include "gmp-impl.h"
#include "longlong.h"
#define NEED(c) do { if (!(c)) return -1; } while (0)
#define NUM(i) (a[i].kind == T_NUM)
#define VEC(i) (a[i].kind == T_VEC)

static int fits_ulong(const tok_t *t) { return t->kind == T_NUM && !t->neg && t->n <= 1; }
static int fits_long(const tok_t *t) {
  if (t->kind != T_NUM || t->n > 1) return 0;
  if (t->n == 0) return 1;
  return t->neg ? t->d[0] <= 0x8000000000000000UL : t->d[0] <= 0x7fffffffffffffffUL;
}
static long get_long(const tok_t *t) { unsigned long m = t->n ? t->d[0] : 0; return (long)(t->neg ? 0UL - m : m); }

/* ---- two-operand mpz functions with alias modes ---- */
typedef void (*zz_t)(mpz_ptr, mpz_srcptr, mpz_srcptr);
static int do_zz(zz_t f, int argc, tok_t *a, out_t *o) {
  NEED(argc == 3 && NUM(0) && NUM(1) && NUM(2));
  long mode = tok_long(&a[0]); NEED(mode >= 0 && mode <= 2);
  mpz_t x, y, r; mpz_init(x); mpz_init(y); mpz_init2(r, 1);
  tok_mpz(x, &a[1]); tok_mpz(y, &a[2]);
  mpz_ptr rp = mode == 1 ? x : mode == 2 ? y : r;
  int e = GUARD(f(rp, x, y));
  if (e) out_exc(o, e); else out_mpz(o, rp);
  mpz_clear(x); mpz_clear(y); mpz_clear(r); return 0;
}
static int op_mpz_gcd(int c, tok_t *a, out_t *o) { return do_zz(mpz_gcd, c, a, o); }
static int op_mpz_lcm(int c, tok_t *a, out_t *o) { return do_zz(mpz_lcm, c, a, o); }

/* mpz_gcd_ui mode a u: mode 0 = w distinct, 1 = w is a, 2 = w NULL.  prints [w] ret */
static int op_mpz_gcd_ui(int argc, tok_t *a, out_t *o) {
  NEED(argc == 3 && NUM(0) && NUM(1) && fits_ulong(&a[2]));
  long mode = tok_long(&a[0]); NEED(mode >= 0 && mode <= 2);
  mpz_t x, r; mpz_init(x); mpz_init2(r, 1); tok_mpz(x, &a[1]);
  mpz_ptr rp = mode == 1 ? x : mode == 2 ? NULL : r;
  unsigned long ret = 0;
  int e = GUARD(ret = mpz_gcd_ui(rp, x, tok_ulong(&a[2])));
  if (e) out_exc(o, e); else { if (rp) out_mpz(o, rp); out_ulong(o, ret); }
  mpz_clear(x); mpz_clear(r); return 0;
}
static int op_mpz_lcm_ui(int argc, tok_t *a, out_t *o) {
  NEED(argc == 3 && NUM(0) && NUM(1) && fits_ulong(&a[2]));
  long mode = tok_long(&a[0]); NEED(mode >= 0 && mode <= 1);
  mpz_t x, r; mpz_init(x); mpz_init2(r, 1); tok_mpz(x, &a[1]);
  mpz_ptr rp = mode == 1 ? x : r;
  int e = GUARD(mpz_lcm_ui(rp, x, tok_ulong(&a[2])));
  if (e) out_exc(o, e); else out_mpz(o, rp);
  mpz_clear(x); mpz_clear(r); return 0;
}

/* mpz_gcdext: which of g, s, t is the variable a (1) or b (2), 0 = own variable */
static const unsigned char GX_MODES[][3] = {
  {0,0,0}, {1,0,0}, {2,0,0}, {0,1,0}, {0,2,0}, {0,0,1}, {0,0,2},
  {1,2,0}, {2,1,0}, {1,0,2}, {2,0,1}, {0,1,2}, {0,2,1},
};
#define N_GX_MODES ((long)(sizeof GX_MODES / sizeof GX_MODES[0]))
static int do_gcdext(int with_t, int argc, tok_t *a, out_t *o) {
  NEED(argc == 3 && NUM(0) && NUM(1) && NUM(2));
  long mode = tok_long(&a[0]); NEED(mode >= 0 && mode < N_GX_MODES);
  if (!with_t) NEED(GX_MODES[mode][2] == 0);
  mpz_t x, y, g, s, t; mpz_init(x); mpz_init(y); mpz_init2(g, 1); mpz_init2(s, 1); mpz_init2(t, 1);
  tok_mpz(x, &a[1]); tok_mpz(y, &a[2]);
  mpz_ptr v[3] = { g, s, t };
  for (int i = 0; i < 3; i++) { if (GX_MODES[mode][i] == 1) v[i] = x; else if (GX_MODES[mode][i] == 2) v[i] = y; }
  int e = GUARD(mpz_gcdext(v[0], v[1], with_t ? v[2] : NULL, x, y));
  if (e) out_exc(o, e); else { out_mpz(o, v[0]); out_mpz(o, v[1]); if (with_t) out_mpz(o, v[2]); }
  mpz_clear(x); mpz_clear(y); mpz_clear(g); mpz_clear(s); mpz_clear(t); return 0;
}
static int op_mpz_gcdext(int c, tok_t *a, out_t *o) { return do_gcdext(1, c, a, o); }
static int op_mpz_gcdext_nt(int c, tok_t *a, out_t *o) { return do_gcdext(0, c, a, o); }

/* mpz_invert mode a m -> flag [value if flag != 0] */
static int op_mpz_invert(int argc, tok_t *a, out_t *o) {
  NEED(argc == 3 && NUM(0) && NUM(1) && NUM(2));
  long mode = tok_long(&a[0]); NEED(mode >= 0 && mode <= 2);
  mpz_t x, y, r; mpz_init(x); mpz_init(y); mpz_init2(r, 1);
  tok_mpz(x, &a[1]); tok_mpz(y, &a[2]);
  mpz_ptr rp = mode == 1 ? x : mode == 2 ? y : r;
  int ret = 0;
  int e = GUARD(ret = mpz_invert(rp, x, y));
  if (e) out_exc(o, e); else { out_long(o, ret != 0); if (ret) out_mpz(o, rp); }
  mpz_clear(x); mpz_clear(y); mpz_clear(r); return 0;
}

/* ---- Jacobi / Kronecker ---- */
typedef int (*jz_t)(mpz_srcptr, mpz_srcptr);
static int do_jzz(int which, int argc, tok_t *a, out_t *o) {
  NEED(argc == 2 && NUM(0) && NUM(1));
  mpz_t x, y; mpz_init(x); mpz_init(y); tok_mpz(x, &a[0]); tok_mpz(y, &a[1]);
  int r = 0, e;
  if (which == 0) e = GUARD(r = mpz_jacobi(x, y));
  else if (which == 1) e = GUARD(r = mpz_legendre(x, y));
  else e = GUARD(r = mpz_kronecker(x, y));
  if (e) out_exc(o, e); else out_long(o, r);
  mpz_clear(x); mpz_clear(y); return 0;
}
static int op_mpz_jacobi(int c, tok_t *a, out_t *o) { return do_jzz(0, c, a, o); }
static int op_mpz_legendre(int c, tok_t *a, out_t *o) { return do_jzz(1, c, a, o); }
static int op_mpz_kronecker(int c, tok_t *a, out_t *o) { return do_jzz(2, c, a, o); }
static int op_mpz_kronecker_si(int argc, tok_t *a, out_t *o) {
  NEED(argc == 2 && NUM(0) && fits_long(&a[1]));
  mpz_t x; mpz_init(x); tok_mpz(x, &a[0]); int r = 0;
  int e = GUARD(r = mpz_kronecker_si(x, get_long(&a[1])));
  if (e) out_exc(o, e); else out_long(o, r);
  mpz_clear(x); return 0;
}
static int op_mpz_kronecker_ui(int argc, tok_t *a, out_t *o) {
  NEED(argc == 2 && NUM(0) && fits_ulong(&a[1]));
  mpz_t x; mpz_init(x); tok_mpz(x, &a[0]); int r = 0;
  int e = GUARD(r = mpz_kronecker_ui(x, tok_ulong(&a[1])));
  if (e) out_exc(o, e); else out_long(o, r);
  mpz_clear(x); return 0;
}
static int op_mpz_si_kronecker(int argc, tok_t *a, out_t *o) {
  NEED(argc == 2 && fits_long(&a[0]) && NUM(1));
  mpz_t y; mpz_init(y); tok_mpz(y, &a[1]); int r = 0;
  int e = GUARD(r = mpz_si_kronecker(get_long(&a[0]), y));
  if (e) out_exc(o, e); else out_long(o, r);
  mpz_clear(y); return 0;
}
static int op_mpz_ui_kronecker(int argc, tok_t *a, out_t *o) {
  NEED(argc == 2 && fits_ulong(&a[0]) && NUM(1));
  mpz_t y; mpz_init(y); tok_mpz(y, &a[1]); int r = 0;
  int e = GUARD(r = mpz_ui_kronecker(tok_ulong(&a[0]), y));
  if (e) out_exc(o, e); else out_long(o, r);
  mpz_clear(y); return 0;
}

/* ---- mpn level ---- */
static int top_nonzero(const tok_t *t) { return t->n >= 1 && t->d[t->n - 1] != 0; }
static int vec_nonzero(const tok_t *t) { for (long i = 0; i < t->n; i++) if (t->d[i]) return 1; return 0; }
/* number of significant bits */
static long vec_bits(const tok_t *t) { long n = t->n; while (n > 0 && t->d[n - 1] == 0) n--; if (!n) return 0; int c; count_leading_zeros(c, t->d[n - 1]); return 64 * n - c; }

/* mpn_gcd [u] [v] -> [g]; un >= vn > 0, v odd, top limbs non-zero, bits(u) >= bits(v) */
static int op_mpn_gcd(int argc, tok_t *a, out_t *o) {
  NEED(argc == 2 && VEC(0) && VEC(1) && a[0].n >= a[1].n && top_nonzero(&a[0]) && top_nonzero(&a[1]));
  NEED((a[1].d[0] & 1) && vec_bits(&a[0]) >= vec_bits(&a[1]));
  long un = a[0].n, vn = a[1].n;
  mp_limb_t *up = dst_new(un), *vp = dst_new(vn), *gp = dst_new(vn);
  memcpy(up, a[0].d, un * 8); memcpy(vp, a[1].d, vn * 8);
  mp_size_t gn = mpn_gcd(gp, up, un, vp, vn);
  if (gn < 1 || gn > vn) out_err(o, "size"); else out_vec(o, gp, gn);
  if (!dst_ok(up, un) || !dst_ok(vp, vn) || !dst_ok(gp, vn)) out_err(o, "oob");
  dst_free(up); dst_free(vp); dst_free(gp); return 0;
}
/* mpn_gcd_1 [u] v -> g; u non-zero (any zero limbs allowed), v != 0 */
static int op_mpn_gcd_1(int argc, tok_t *a, out_t *o) {
  NEED(argc == 2 && VEC(0) && fits_ulong(&a[1]) && a[0].n >= 1 && vec_nonzero(&a[0]) && tok_ulong(&a[1]) != 0);
  out_ulong(o, mpn_gcd_1(a[0].d, a[0].n, tok_ulong(&a[1]))); return 0;
}
/* mpn_gcdext [u] [v] -> [g] s; un >= vn > 0, v top limb non-zero; buffers as the manual requires */
static int op_mpn_gcdext(int argc, tok_t *a, out_t *o) {
  NEED(argc == 2 && VEC(0) && VEC(1) && a[0].n >= a[1].n && a[1].n >= 1 && top_nonzero(&a[1]) && top_nonzero(&a[0]));
  long un = a[0].n, vn = a[1].n;
  mp_limb_t *up = dst_new(un + 1), *vp = dst_new(vn + 1), *gp = dst_new(un + 1), *sp = dst_new(un + 1);
  memcpy(up, a[0].d, un * 8); memcpy(vp, a[1].d, vn * 8); up[un] = 0x1111; vp[vn] = 0x2222;
  mp_size_t sn = 0x7777;
  mp_size_t gn = mpn_gcdext(gp, sp, &sn, up, un, vp, vn);
  long asn = sn < 0 ? -sn : sn;
  if (gn < 1 || gn > vn || asn > vn + 1) out_err(o, "size");
  else {
    out_vec(o, gp, gn);
    if (asn > 0 && sp[asn - 1] == 0) out_err(o, "unnormalised");
    out_mag(o, sn < 0, sp, asn);
  }
  if (!dst_ok(up, un + 1) || !dst_ok(vp, vn + 1) || !dst_ok(gp, un + 1) || !dst_ok(sp, un + 1)) out_err(o, "oob");
  dst_free(up); dst_free(vp); dst_free(gp); dst_free(sp); return 0;
}
/* mpn_gcdext_1 u v -> g s t */
static int op_mpn_gcdext_1(int argc, tok_t *a, out_t *o) {
  NEED(argc == 2 && fits_ulong(&a[0]) && fits_ulong(&a[1]) && tok_ulong(&a[0]) && tok_ulong(&a[1]));
  mp_limb_signed_t s = 0x55, t = 0x66;
  mp_limb_t g = mpn_gcdext_1(&s, &t, tok_ulong(&a[0]), tok_ulong(&a[1]));
  out_ulong(o, g); out_long(o, s); out_long(o, t); return 0;
}
/* mpn_hgcd2 ah al bh bl -> flag [u00 u01 u10 u11] */
static int op_mpn_hgcd2(int argc, tok_t *a, out_t *o) {
  NEED(argc == 4 && fits_ulong(&a[0]) && fits_ulong(&a[1]) && fits_ulong(&a[2]) && fits_ulong(&a[3]));
  struct hgcd_matrix1 M; memset(&M, 0x7e, sizeof M);
  int r = mpn_hgcd2(tok_ulong(&a[0]), tok_ulong(&a[1]), tok_ulong(&a[2]), tok_ulong(&a[3]), &M);
  out_long(o, r);
  if (r) { out_ulong(o, M.u[0][0]); out_ulong(o, M.u[0][1]); out_ulong(o, M.u[1][0]); out_ulong(o, M.u[1][1]); }
  return 0;
}
/* mpn_jacobi_base a b bit -> -1/0/1; b odd, b > 1; bit in {0, 2} */
static int op_mpn_jacobi_base(int argc, tok_t *a, out_t *o) {
  NEED(argc == 3 && fits_ulong(&a[0]) && fits_ulong(&a[1]) && fits_ulong(&a[2]));
  unsigned long b = tok_ulong(&a[1]); NEED((b & 1) && b > 1 && tok_ulong(&a[2]) <= 3);
  out_long(o, mpn_jacobi_base(tok_ulong(&a[0]), b, (int)tok_ulong(&a[2]))); return 0;
}
/* mpn_jacobi_n [a] [b] s -> -1/0/1; same length n >= 1, b odd, top limbs not both zero, s in {0,1} */
static int op_mpn_jacobi_n(int argc, tok_t *a, out_t *o) {
  NEED(argc == 3 && VEC(0) && VEC(1) && fits_ulong(&a[2]) && a[0].n == a[1].n && a[0].n >= 1);
  long n = a[0].n; NEED((a[1].d[0] & 1) && (a[0].d[n - 1] | a[1].d[n - 1]) && tok_ulong(&a[2]) <= 1);
  mp_limb_t *ap = dst_new(n), *bp = dst_new(n);
  memcpy(ap, a[0].d, n * 8); memcpy(bp, a[1].d, n * 8);
  int r = mpn_jacobi_n(ap, bp, n, mpn_jacobi_init(ap[0], bp[0], tok_ulong(&a[2])));
  out_long(o, r);
  if (!dst_ok(ap, n) || !dst_ok(bp, n)) out_err(o, "oob");
  dst_free(ap); dst_free(bp); return 0;
}
/* mpn_jacobi_2 [a0,a1] [b0,b1] bit -> -1/0/1; b odd */
static int op_mpn_jacobi_2(int argc, tok_t *a, out_t *o) {
  NEED(argc == 3 && VEC(0) && VEC(1) && fits_ulong(&a[2]) && a[0].n == 2 && a[1].n == 2 && (a[1].d[0] & 1) && tok_ulong(&a[2]) <= 1);
  out_long(o, mpn_jacobi_2(a[0].d, a[1].d, tok_ulong(&a[2]))); return 0;
}
/* mpn_modexact_1_odd [u] d -> r; d odd */
static int op_mpn_modexact_1_odd(int argc, tok_t *a, out_t *o) {
  NEED(argc == 2 && VEC(0) && fits_ulong(&a[1]) && a[0].n >= 1 && (tok_ulong(&a[1]) & 1));
  out_ulong(o, mpn_modexact_1_odd(a[0].d, a[0].n, tok_ulong(&a[1]))); return 0;
}

const opdef_t ops_gcd[] = {
  {"mpz_gcd", op_mpz_gcd}, {"mpz_gcd_ui", op_mpz_gcd_ui}, {"mpz_lcm", op_mpz_lcm}, {"mpz_lcm_ui", op_mpz_lcm_ui},
  {"mpz_gcdext", op_mpz_gcdext}, {"mpz_gcdext_x", op_mpz_gcdext}, {"mpz_gcdext_nt", op_mpz_gcdext_nt}, {"mpz_gcdext_nt_x", op_mpz_gcdext_nt},
  {"mpz_invert", op_mpz_invert}, {"mpz_invert_x", op_mpz_invert},
  {"mpz_jacobi", op_mpz_jacobi}, {"mpz_legendre", op_mpz_legendre}, {"mpz_kronecker", op_mpz_kronecker},
  {"mpz_kronecker_si", op_mpz_kronecker_si}, {"mpz_kronecker_ui", op_mpz_kronecker_ui},
  {"mpz_si_kronecker", op_mpz_si_kronecker}, {"mpz_ui_kronecker", op_mpz_ui_kronecker},
  {"mpn_gcd", op_mpn_gcd}, {"mpn_gcd_1", op_mpn_gcd_1}, {"mpn_gcdext", op_mpn_gcdext}, {"mpn_gcdext_x", op_mpn_gcdext},
  {"mpn_gcdext_1", op_mpn_gcdext_1}, {"mpn_hgcd2", op_mpn_hgcd2}, {"mpn_hgcd2_x", op_mpn_hgcd2},
  {"mpn_jacobi_base", op_mpn_jacobi_base}, {"mpn_jacobi_n", op_mpn_jacobi_n}, {"mpn_jacobi_2", op_mpn_jacobi_2},
  {"mpn_modexact_1_odd", op_mpn_modexact_1_odd},
  {0, 0}
};
