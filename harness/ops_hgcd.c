/* C07, half-gcd layer: the internal functions of hgcd_matrix.c, matrix22_mul.c, matrix22_mul1_inverse_vector.c,
   hgcd_step.c, hgcd.c, hgcd_reduce.c, hgcd_appr.c and gcdext_lehmer.c called directly.
   A matrix is passed as `mn [e00] [e01] [e10] [e11]` (each vector exactly mn = M->n limbs) and printed the same way.
   Ops whose code path depends on a threshold carry the threshold values the generator read from the tree under
   test; the op refuses (?args) when they are not the values this library was compiled with, so that model and
   implementation always branch on the same numbers.  All destinations are guarded (!oob). */
#include "harness.h"
#include "gmp-impl.h"
#include "longlong.h"
#define NEED(c) do { if (!(c)) return -1; } while (0)
#define NUM(i) (a[i].kind == T_NUM)
#define VEC(i) (a[i].kind == T_VEC)

static int fits_ul(const tok_t *t) { return t->kind == T_NUM && !t->neg && t->n <= 1; }
#define UL(i) tok_ulong(&a[i])

/* a matrix whose entries live in guarded areas of `alloc` limbs */
typedef struct { struct hgcd_matrix M; mp_limb_t *e[4]; long alloc; } gm_t;
static void gm_new(gm_t *g, long alloc) {
  g->alloc = alloc;
  for (int i = 0; i < 4; i++) { g->e[i] = dst_new(alloc); memset(g->e[i], 0, alloc * 8); }
  g->M.alloc = alloc; g->M.n = 1;
  g->M.p[0][0] = g->e[0]; g->M.p[0][1] = g->e[1]; g->M.p[1][0] = g->e[2]; g->M.p[1][1] = g->e[3];
}
/* load `mn [..] [..] [..] [..]` from a[i..i+4] */
static int gm_load(gm_t *g, tok_t *a, int i) {
  if (!(fits_ul(&a[i]) && a[i+1].kind == T_VEC && a[i+2].kind == T_VEC && a[i+3].kind == T_VEC && a[i+4].kind == T_VEC)) return -1;
  long mn = (long)tok_ulong(&a[i]);
  if (mn < 1 || mn > g->alloc) return -1;
  for (int k = 0; k < 4; k++) { if (a[i+1+k].n != mn) return -1; memcpy(g->e[k], a[i+1+k].d, mn * 8); }
  g->M.n = mn; return 0;
}
static void gm_out(out_t *o, gm_t *g) {
  long mn = g->M.n;
  if (mn < 1 || mn > g->alloc) { out_err(o, "msize"); return; }
  out_long(o, mn);
  for (int k = 0; k < 4; k++) out_vec(o, g->e[k], mn);
  /* "depends on zero initialization": limbs above M->n that the function did not clear must not matter */
}
static void gm_free(out_t *o, gm_t *g) {
  int bad = 0;
  for (int i = 0; i < 4; i++) { if (!dst_ok(g->e[i], g->alloc)) bad = 1; dst_free(g->e[i]); }
  if (bad) out_err(o, "oob");
}
static int thr_ok(tok_t *a, int i) {   /* hgcd appr reduce strassen */
  return fits_ul(&a[i]) && fits_ul(&a[i+1]) && fits_ul(&a[i+2]) && fits_ul(&a[i+3])
    && tok_ulong(&a[i]) == HGCD_THRESHOLD && tok_ulong(&a[i+1]) == HGCD_APPR_THRESHOLD
    && tok_ulong(&a[i+2]) == HGCD_REDUCE_THRESHOLD && tok_ulong(&a[i+3]) == MATRIX22_STRASSEN_THRESHOLD;
}

/* hgcd_matrix_init n -> alloc mn [..]x4 */
static int op_matrix_init(int argc, tok_t *a, out_t *o) {
  NEED(argc == 1 && fits_ul(&a[0]) && UL(0) >= 1 && UL(0) <= 100000);
  long n = UL(0), itch = MPN_HGCD_MATRIX_INIT_ITCH(n);
  mp_limb_t *p = dst_new(itch); memset(p, 0x5a, itch * 8);
  struct hgcd_matrix M; mpn_hgcd_matrix_init(&M, n, p);
  out_long(o, M.alloc); out_long(o, M.n);
  if (M.n >= 1 && M.n <= M.alloc && 4 * M.alloc <= itch) { out_vec(o, M.p[0][0], M.n); out_vec(o, M.p[0][1], M.n); out_vec(o, M.p[1][0], M.n); out_vec(o, M.p[1][1], M.n); }
  /* the whole area must be zero except the two ones */
  long nz = 0; for (long i = 0; i < itch; i++) nz += p[i] != 0;
  if (nz != 2) out_err(o, "notzero");
  if (!dst_ok(p, itch)) out_err(o, "oob");
  dst_free(p); return 0;
}
/* hgcd_matrix_update_q alloc mn [..]x4 [q] col -> mn' [..]x4     q normalised, qn + (size of column 1-col) <= alloc */
static int op_update_q(int argc, tok_t *a, out_t *o) {
  NEED(argc == 8 && fits_ul(&a[0]) && VEC(6) && fits_ul(&a[7]) && UL(7) <= 1 && UL(0) >= 2 && UL(0) <= 100000);
  long qn = a[6].n; NEED(qn >= 1 && a[6].d[qn - 1] != 0);
  gm_t g; gm_new(&g, UL(0));
  if (gm_load(&g, a, 1) || g.M.n + qn + 1 > g.alloc) { gm_free(o, &g); o->len = 0; return -1; }
  mp_limb_t *tp = dst_new(g.alloc + qn + 2);
  mpn_hgcd_matrix_update_q(&g.M, a[6].d, qn, (unsigned)UL(7), tp);
  gm_out(o, &g);
  if (!dst_ok(tp, g.alloc + qn + 2)) out_err(o, "oob");
  dst_free(tp); gm_free(o, &g); return 0;
}
/* hgcd_matrix_mul_1 alloc mn [..]x4 u00 u01 u10 u11 -> mn' [..]x4 */
static int op_mul_1(int argc, tok_t *a, out_t *o) {
  NEED(argc == 10 && fits_ul(&a[0]) && fits_ul(&a[6]) && fits_ul(&a[7]) && fits_ul(&a[8]) && fits_ul(&a[9]) && UL(0) >= 2 && UL(0) <= 100000);
  gm_t g; gm_new(&g, UL(0));
  if (gm_load(&g, a, 1) || g.M.n + 1 > g.alloc) { gm_free(o, &g); o->len = 0; return -1; }
  struct hgcd_matrix1 M1; M1.u[0][0] = UL(6); M1.u[0][1] = UL(7); M1.u[1][0] = UL(8); M1.u[1][1] = UL(9);
  mp_limb_t *tp = dst_new(g.M.n);
  long tn = g.M.n;
  mpn_hgcd_matrix_mul_1(&g.M, &M1, tp);
  gm_out(o, &g);
  if (!dst_ok(tp, tn)) out_err(o, "oob");
  dst_free(tp); gm_free(o, &g); return 0;
}
/* hgcd_matrix_mul thr alloc mn [..]x4 mn1 [..]x4 -> mn' [..]x4        mn + mn1 < alloc */
static int op_matrix_mul(int argc, tok_t *a, out_t *o) {
  NEED(argc == 12 && fits_ul(&a[0]) && UL(0) == MATRIX22_STRASSEN_THRESHOLD && fits_ul(&a[1]) && UL(1) >= 3 && UL(1) <= 100000);
  gm_t g, h; gm_new(&g, UL(1)); gm_new(&h, UL(1));
  if (gm_load(&g, a, 2) || gm_load(&h, a, 7) || g.M.n + h.M.n >= g.alloc) { gm_free(o, &g); gm_free(o, &h); o->len = 0; return -1; }
  long itch = 3 * (g.M.n + h.M.n) + 5;
  mp_limb_t *tp = dst_new(itch);
  mpn_hgcd_matrix_mul(&g.M, &h.M, tp);
  gm_out(o, &g);
  if (!dst_ok(tp, itch)) out_err(o, "oob");
  dst_free(tp); gm_free(o, &g); gm_free(o, &h); return 0;
}
/* mpn_matrix22_mul thr which [r0][r1][r2][r3] [m0][m1][m2][m3] -> [r0][r1][r2][r3] (rn+mn+1 limbs each)
   which: 0 = mpn_matrix22_mul (dispatch on thr), 1 = mpn_matrix22_mul_strassen directly (any sizes) */
static int op_matrix22_mul(int argc, tok_t *a, out_t *o) {
  NEED(argc == 10 && fits_ul(&a[0]) && UL(0) == MATRIX22_STRASSEN_THRESHOLD && fits_ul(&a[1]) && UL(1) <= 1);
  for (int i = 2; i < 10; i++) NEED(VEC(i));
  long rn = a[2].n, mn = a[6].n; NEED(rn >= 1 && mn >= 1 && a[3].n == rn && a[4].n == rn && a[5].n == rn && a[7].n == mn && a[8].n == mn && a[9].n == mn);
  mp_limb_t *r[4], *m[4];
  for (int i = 0; i < 4; i++) { r[i] = dst_new(rn + mn + 1); memset(r[i], 0x33, (rn + mn + 1) * 8); memcpy(r[i], a[2 + i].d, rn * 8); m[i] = dst_new(mn); memcpy(m[i], a[6 + i].d, mn * 8); }
  long itch = 3 * (rn + mn) + 5;   /* >= 3 rn + 2 mn */
  mp_limb_t *tp = dst_new(itch);
  if (UL(1)) mpn_matrix22_mul_strassen(r[0], r[1], r[2], r[3], rn, m[0], m[1], m[2], m[3], mn, tp);
  else mpn_matrix22_mul(r[0], r[1], r[2], r[3], rn, m[0], m[1], m[2], m[3], mn, tp);
  for (int i = 0; i < 4; i++) out_vec(o, r[i], rn + mn + 1);
  int bad = !dst_ok(tp, itch);
  for (int i = 0; i < 4; i++) { if (!dst_ok(r[i], rn + mn + 1) || !dst_ok(m[i], mn) || memcmp(m[i], a[6 + i].d, mn * 8)) bad = 1; dst_free(r[i]); dst_free(m[i]); }
  if (bad) out_err(o, "oob");
  dst_free(tp); return 0;
}
/* mpn_hgcd_matrix_adjust [a] [b] p mn [..]x4 -> n' [a'] [b']       a, b of n limbs, p + mn < n */
static int op_adjust(int argc, tok_t *a, out_t *o) {
  NEED(argc == 8 && VEC(0) && VEC(1) && fits_ul(&a[2]) && a[0].n == a[1].n);
  long n = a[0].n, p = UL(2); NEED(fits_ul(&a[3]) && p >= 1 && p + (long)UL(3) < n);
  gm_t g; gm_new(&g, UL(3) + 1);
  if (gm_load(&g, a, 3)) { gm_free(o, &g); o->len = 0; return -1; }
  mp_limb_t *ap = dst_new(n + 1), *bp = dst_new(n + 1); long itch = 2 * (p + g.M.n);
  mp_limb_t *tp = dst_new(itch);
  memcpy(ap, a[0].d, n * 8); memcpy(bp, a[1].d, n * 8); ap[n] = 0x1111; bp[n] = 0x2222;
  long nn = mpn_hgcd_matrix_adjust(&g.M, n, ap, bp, p, tp);
  out_long(o, nn);
  if (nn >= 1 && nn <= n + 1) { out_vec(o, ap, nn); out_vec(o, bp, nn); }
  if (!dst_ok(ap, n + 1) || !dst_ok(bp, n + 1) || !dst_ok(tp, itch)) out_err(o, "oob");
  dst_free(ap); dst_free(bp); dst_free(tp); gm_free(o, &g); return 0;
}
/* mpn_matrix22_mul1_inverse_vector u00 u01 u10 u11 [a] [b] -> n' [r] [b']  (n limbs printed) */
static int op_mul1_inverse_vector(int argc, tok_t *a, out_t *o) {
  NEED(argc == 6 && fits_ul(&a[0]) && fits_ul(&a[1]) && fits_ul(&a[2]) && fits_ul(&a[3]) && VEC(4) && VEC(5) && a[4].n == a[5].n && a[4].n >= 1);
  long n = a[4].n;
  struct hgcd_matrix1 M1; M1.u[0][0] = UL(0); M1.u[0][1] = UL(1); M1.u[1][0] = UL(2); M1.u[1][1] = UL(3);
  mp_limb_t *rp = dst_new(n), *bp = dst_new(n);
  memcpy(bp, a[5].d, n * 8);
  long nn = mpn_matrix22_mul1_inverse_vector(&M1, rp, a[4].d, bp, n);
  out_long(o, nn); out_vec(o, rp, n); out_vec(o, bp, n);
  if (!dst_ok(rp, n) || !dst_ok(bp, n)) out_err(o, "oob");
  dst_free(rp); dst_free(bp); return 0;
}
/* mpn_hgcd_mul_matrix1_vector u00 u01 u10 u11 [a] [b] -> n' [r] [b']  (n+1 limbs printed) */
static int op_mul_matrix1_vector(int argc, tok_t *a, out_t *o) {
  NEED(argc == 6 && fits_ul(&a[0]) && fits_ul(&a[1]) && fits_ul(&a[2]) && fits_ul(&a[3]) && VEC(4) && VEC(5) && a[4].n == a[5].n && a[4].n >= 1);
  long n = a[4].n;
  struct hgcd_matrix1 M1; M1.u[0][0] = UL(0); M1.u[0][1] = UL(1); M1.u[1][0] = UL(2); M1.u[1][1] = UL(3);
  mp_limb_t *rp = dst_new(n + 1), *bp = dst_new(n + 1);
  memcpy(bp, a[5].d, n * 8);
  long nn = mpn_hgcd_mul_matrix1_vector(&M1, rp, a[4].d, bp, n);
  out_long(o, nn); out_vec(o, rp, n + 1); out_vec(o, bp, n + 1);
  if (!dst_ok(rp, n + 1) || !dst_ok(bp, n + 1)) out_err(o, "oob");
  dst_free(rp); dst_free(bp); return 0;
}
static void out_ab(out_t *o, long ret, long n, mp_limb_t *ap, mp_limb_t *bp) {
  long k = ret > 0 ? ret : n;
  out_long(o, ret);
  if (ret < 0 || ret > n + 1) { out_err(o, "size"); return; }
  out_vec(o, ap, k); out_vec(o, bp, k);
}
/* mpn_hgcd_step s [a] [b] alloc mn [..]x4 -> ret [a'] [b'] mn' [..]x4       n = length, n > s >= 1, top limbs not both zero */
static int op_hgcd_step(int argc, tok_t *a, out_t *o) {
  NEED(argc == 9 && fits_ul(&a[0]) && VEC(1) && VEC(2) && a[1].n == a[2].n && fits_ul(&a[3]));
  long n = a[1].n, s = UL(0); NEED(s >= 1 && n > s && (a[1].d[n - 1] | a[2].d[n - 1]) && UL(3) >= 2 && UL(3) <= 100000);
  gm_t g; gm_new(&g, UL(3));
  if (gm_load(&g, a, 4) || g.M.n + (n - s) + 1 > g.alloc) { gm_free(o, &g); o->len = 0; return -1; }
  mp_limb_t *ap = dst_new(n + 1), *bp = dst_new(n + 1); long itch = 2 * n + g.alloc + 8;
  mp_limb_t *tp = dst_new(itch);
  memcpy(ap, a[1].d, n * 8); memcpy(bp, a[2].d, n * 8); ap[n] = 0; bp[n] = 0;
  long nn = mpn_hgcd_step(n, ap, bp, s, &g.M, tp);
  out_ab(o, nn, n, ap, bp); gm_out(o, &g);
  if (!dst_ok(ap, n + 1) || !dst_ok(bp, n + 1) || !dst_ok(tp, itch)) out_err(o, "oob");
  dst_free(ap); dst_free(bp); dst_free(tp); gm_free(o, &g); return 0;
}
/* mpn_hgcd T T T T [a] [b] -> ret [a'] [b'] mn [..]x4     (M initialised by mpn_hgcd_matrix_init (n)) */
static int op_hgcd(int argc, tok_t *a, out_t *o) {
  NEED(argc == 6 && thr_ok(a, 0) && VEC(4) && VEC(5) && a[4].n == a[5].n && a[4].n >= 1);
  long n = a[4].n; NEED(a[4].d[n - 1] | a[5].d[n - 1]);
  long mi = MPN_HGCD_MATRIX_INIT_ITCH(n), itch = mpn_hgcd_itch(n);
  mp_limb_t *mp = dst_new(mi), *tp = dst_new(itch), *ap = dst_new(n + 1), *bp = dst_new(n + 1);
  memcpy(ap, a[4].d, n * 8); memcpy(bp, a[5].d, n * 8); ap[n] = 0; bp[n] = 0;
  struct hgcd_matrix M; mpn_hgcd_matrix_init(&M, n, mp);
  long nn = mpn_hgcd(ap, bp, n, &M, tp);
  out_ab(o, nn, n, ap, bp);
  if (M.n < 1 || M.n > M.alloc) out_err(o, "msize");
  else { out_long(o, M.n); out_vec(o, M.p[0][0], M.n); out_vec(o, M.p[0][1], M.n); out_vec(o, M.p[1][0], M.n); out_vec(o, M.p[1][1], M.n); }
  if (!dst_ok(mp, mi) || !dst_ok(tp, itch) || !dst_ok(ap, n + 1) || !dst_ok(bp, n + 1)) out_err(o, "oob");
  dst_free(mp); dst_free(tp); dst_free(ap); dst_free(bp); return 0;
}
/* mpn_hgcd_reduce T T T T p [a] [b] -> ret [a'] [b'] mn [..]x4     (M initialised for n - p limbs) */
static int op_hgcd_reduce(int argc, tok_t *a, out_t *o) {
  NEED(argc == 7 && thr_ok(a, 0) && fits_ul(&a[4]) && VEC(5) && VEC(6) && a[5].n == a[6].n && a[5].n >= 2);
  long n = a[5].n, p = UL(4); NEED(p >= 1 && p < n && (a[5].d[n - 1] | a[6].d[n - 1]));
  long mi = MPN_HGCD_MATRIX_INIT_ITCH(n - p), itch = mpn_hgcd_reduce_itch(n, p);
  mp_limb_t *mp = dst_new(mi), *tp = dst_new(itch), *ap = dst_new(n + 1), *bp = dst_new(n + 1);
  memcpy(ap, a[5].d, n * 8); memcpy(bp, a[6].d, n * 8); ap[n] = 0; bp[n] = 0;
  struct hgcd_matrix M; mpn_hgcd_matrix_init(&M, n - p, mp);
  long nn = mpn_hgcd_reduce(&M, ap, bp, n, p, tp);
  out_ab(o, nn, n, ap, bp);
  if (M.n < 1 || M.n > M.alloc) out_err(o, "msize");
  else { out_long(o, M.n); out_vec(o, M.p[0][0], M.n); out_vec(o, M.p[0][1], M.n); out_vec(o, M.p[1][0], M.n); out_vec(o, M.p[1][1], M.n); }
  if (!dst_ok(mp, mi) || !dst_ok(tp, itch) || !dst_ok(ap, n + 1) || !dst_ok(bp, n + 1)) out_err(o, "oob");
  dst_free(mp); dst_free(tp); dst_free(ap); dst_free(bp); return 0;
}
/* mpn_hgcd_appr T T T T [a] [b] -> ret mn [..]x4 */
static int op_hgcd_appr(int argc, tok_t *a, out_t *o) {
  NEED(argc == 6 && thr_ok(a, 0) && VEC(4) && VEC(5) && a[4].n == a[5].n && a[4].n >= 1);
  long n = a[4].n; NEED(a[4].d[n - 1] | a[5].d[n - 1]);
  long mi = MPN_HGCD_MATRIX_INIT_ITCH(n), itch = mpn_hgcd_appr_itch(n);
  mp_limb_t *mp = dst_new(mi), *tp = dst_new(itch), *ap = dst_new(n + 1), *bp = dst_new(n + 1);
  memcpy(ap, a[4].d, n * 8); memcpy(bp, a[5].d, n * 8); ap[n] = 0; bp[n] = 0;
  struct hgcd_matrix M; mpn_hgcd_matrix_init(&M, n, mp);
  int r = mpn_hgcd_appr(ap, bp, n, &M, tp);
  out_long(o, r != 0);
  if (M.n < 1 || M.n > M.alloc) out_err(o, "msize");
  else { out_long(o, M.n); out_vec(o, M.p[0][0], M.n); out_vec(o, M.p[0][1], M.n); out_vec(o, M.p[1][0], M.n); out_vec(o, M.p[1][1], M.n); }
  if (!dst_ok(mp, mi) || !dst_ok(tp, itch) || !dst_ok(ap, n + 1) || !dst_ok(bp, n + 1)) out_err(o, "oob");
  dst_free(mp); dst_free(tp); dst_free(ap); dst_free(bp); return 0;
}
/* mpn_gcdext_lehmer_n [a] [b] -> [g] s     same length n >= 1, top limbs not both zero, a, b > 0 */
static int op_gcdext_lehmer_n(int argc, tok_t *a, out_t *o) {
  NEED(argc == 2 && VEC(0) && VEC(1) && a[0].n == a[1].n && a[0].n >= 1);
  long n = a[0].n; NEED(a[0].d[n - 1] | a[1].d[n - 1]);
  int za = 1, zb = 1; for (long i = 0; i < n; i++) { if (a[0].d[i]) za = 0; if (a[1].d[i]) zb = 0; }
  NEED(!za && !zb);
  long itch = MPN_GCDEXT_LEHMER_N_ITCH(n);
  mp_limb_t *ap = dst_new(n + 1), *bp = dst_new(n + 1), *gp = dst_new(n + 1), *up = dst_new(n + 1), *tp = dst_new(itch);
  memcpy(ap, a[0].d, n * 8); memcpy(bp, a[1].d, n * 8); ap[n] = 0; bp[n] = 0;
  mp_size_t usize = 0x7777;
  long gn = mpn_gcdext_lehmer_n(gp, up, &usize, ap, bp, n, tp);
  long un = usize < 0 ? -usize : usize;
  if (gn < 1 || gn > n || un > n + 1) out_err(o, "size");
  else { out_vec(o, gp, gn); if (un > 0 && up[un - 1] == 0) out_err(o, "unnormalised"); out_mag(o, usize < 0, up, un); }
  if (!dst_ok(ap, n + 1) || !dst_ok(bp, n + 1) || !dst_ok(gp, n + 1) || !dst_ok(up, n + 1) || !dst_ok(tp, itch)) out_err(o, "oob");
  dst_free(ap); dst_free(bp); dst_free(gp); dst_free(up); dst_free(tp); return 0;
}

const opdef_t ops_hgcd[] = {
  {"hgcd_matrix_init", op_matrix_init}, {"hgcd_matrix_update_q", op_update_q}, {"hgcd_matrix_mul_1", op_mul_1},
  {"hgcd_matrix_mul", op_matrix_mul}, {"mpn_matrix22_mul", op_matrix22_mul}, {"hgcd_matrix_adjust", op_adjust},
  {"mpn_matrix22_mul1_inverse_vector", op_mul1_inverse_vector}, {"mpn_hgcd_mul_matrix1_vector", op_mul_matrix1_vector},
  {"mpn_hgcd_step", op_hgcd_step}, {"mpn_hgcd", op_hgcd}, {"mpn_hgcd_p", op_hgcd}, {"mpn_hgcd_reduce", op_hgcd_reduce},
  {"mpn_hgcd_appr", op_hgcd_appr}, {"mpn_gcdext_lehmer_n", op_gcdext_lehmer_n}, {"mpn_gcdext_lehmer_n_p", op_gcdext_lehmer_n},
  {0, 0}
};
