/* Memory-level ops for the overlap clause of C03 (tools/props/c03_overlap.py, lean/Mpir/Ops/KernelsMem.lean):
   the real mpn kernel is called on pointers INTO ONE BUFFER at the given limb offsets, and the whole buffer
   is printed afterwards together with the return value, so that the result region, the frame (words outside
   the destination) and the behaviour under every PERMITTED source/destination overlap are compared with the
   memory-level model.  A request for an overlap the manual forbids is refused (`?args`): the library is never
   asked to do what its ASSERTs exclude.
     mem_lshift/mem_rshift [buf] upoff rpoff n cnt         -> [buf'] ret
     mem_copyi/mem_copyd/mem_com_n [buf] upoff rpoff n     -> [buf']
     mem_neg_n [buf] upoff rpoff n                         -> [buf'] ret
     mem_add_n/mem_sub_n [buf] upoff vpoff rpoff n         -> [buf'] ret
     mem_add_1/sub_1/mul_1/addmul_1/submul_1 [buf] upoff rpoff n v -> [buf'] ret
     mem_add/mem_sub [buf] xoff xn yoff yn woff            -> [buf'] ret
   The call is made twice: on a buffer with guard limbs (checked: `!oob`) and on an exact-size malloc block
   (so that the AddressSanitizer replay sees any access outside the buffer); the two must agree (`!nondet`). */
#include "harness.h"
#define NEED(c) do { if (!(c)) return -1; } while (0)

enum { K_LSHIFT, K_RSHIFT, K_COPYI, K_COPYD, K_COM, K_NEG, K_ADD_N, K_SUB_N,
       K_ADD_1, K_SUB_1, K_MUL_1, K_ADDMUL_1, K_SUBMUL_1, K_ADD, K_SUB };

/* the predicates of gmp-impl.h, on offsets */
static int overlap_p(long xp, long xn, long yp, long yn) { return xp + xn > yp && yp + yn > xp; }
static int same_or_sep2(long xp, long xn, long yp, long yn) { return xp == yp || !overlap_p(xp, xn, yp, yn); }
static int same_or_sep(long xp, long yp, long n) { return same_or_sep2(xp, n, yp, n); }
static int same_or_incr(long d, long s, long n) { return d <= s || !overlap_p(d, n, s, n); }
static int same_or_decr(long d, long s, long n) { return d >= s || !overlap_p(d, n, s, n); }

typedef struct { int kind; long up, vp, rp, n, n2; mp_limb_t v; unsigned cnt; } call_t;

static mp_limb_t do_call(const call_t *c, mp_limb_t *b) {
  mp_limb_t *rp = b + c->rp; const mp_limb_t *up = b + c->up, *vp = b + c->vp;
  switch (c->kind) {
    case K_LSHIFT: return mpn_lshift(rp, up, c->n, c->cnt);
    case K_RSHIFT: return mpn_rshift(rp, up, c->n, c->cnt);
    case K_COPYI: mpn_copyi(rp, up, c->n); return 0;
    case K_COPYD: mpn_copyd(rp, up, c->n); return 0;
    case K_COM: mpn_com_n(rp, up, c->n); return 0;
    case K_NEG: return mpn_neg_n(rp, up, c->n);
    case K_ADD_N: return mpn_add_n(rp, up, vp, c->n);
    case K_SUB_N: return mpn_sub_n(rp, up, vp, c->n);
    case K_ADD_1: return mpn_add_1(rp, up, c->n, c->v);
    case K_SUB_1: return mpn_sub_1(rp, up, c->n, c->v);
    case K_MUL_1: return mpn_mul_1(rp, up, c->n, c->v);
    case K_ADDMUL_1: return mpn_addmul_1(rp, up, c->n, c->v);
    case K_SUBMUL_1: return mpn_submul_1(rp, up, c->n, c->v);
    case K_ADD: return mpn_add(rp, up, c->n, vp, c->n2);
    case K_SUB: return mpn_sub(rp, up, c->n, vp, c->n2);
  }
  return 0;
}

static int finish(const call_t *c, const tok_t *bt, int has_ret, out_t *o) {
  long len = bt->n;
  mp_limb_t *g = dst_new(len); memcpy(g, bt->d, len * sizeof *g);
  mp_limb_t r1 = do_call(c, g);
  mp_limb_t *e = malloc((len ? len : 1) * sizeof *e); memcpy(e, bt->d, len * sizeof *e);
  mp_limb_t r2 = do_call(c, e);
  out_vec(o, g, len); if (has_ret) out_ulong(o, r1);
  if (!dst_ok(g, len)) out_err(o, "oob");
  if (r1 != r2 || memcmp(g, e, len * sizeof *g)) out_err(o, "nondet");
  free(e); dst_free(g); return 0;
}

static int in_buf(const tok_t *bt, long off, long n) { return off >= 0 && n >= 0 && off + n <= bt->n; }
static int small(const tok_t *t) { return t->kind == T_NUM && !t->neg && t->n <= 1 && tok_ulong(t) < (1UL << 40); }

/* [buf] upoff rpoff n (+ cnt | v) */
static int op2(int kind, int extra, int has_ret, int argc, tok_t *a, out_t *o) {
  NEED(argc == 4 + (extra ? 1 : 0) && a[0].kind == T_VEC && small(&a[1]) && small(&a[2]) && small(&a[3]));
  call_t c = {0}; c.kind = kind; c.up = tok_long(&a[1]); c.rp = tok_long(&a[2]); c.n = tok_long(&a[3]);
  int copy = kind == K_COPYI || kind == K_COPYD;
  NEED(c.n >= (copy ? 0 : 1) && in_buf(&a[0], c.up, c.n) && in_buf(&a[0], c.rp, c.n));
  if (extra == 1) { NEED(small(&a[4])); c.cnt = tok_ulong(&a[4]); NEED(c.cnt >= 1 && c.cnt <= 63); }
  if (extra == 2) { NEED(a[4].kind == T_NUM && !a[4].neg && a[4].n <= 1); c.v = tok_ulong(&a[4]); }
  switch (kind) {
    case K_LSHIFT: case K_COPYD: NEED(same_or_decr(c.rp, c.up, c.n)); break;
    case K_RSHIFT: case K_COPYI: case K_MUL_1: NEED(same_or_incr(c.rp, c.up, c.n)); break;
    default: NEED(same_or_sep(c.rp, c.up, c.n));
  }
  return finish(&c, &a[0], has_ret, o);
}
/* [buf] upoff vpoff rpoff n */
static int op3(int kind, int argc, tok_t *a, out_t *o) {
  NEED(argc == 5 && a[0].kind == T_VEC && small(&a[1]) && small(&a[2]) && small(&a[3]) && small(&a[4]));
  call_t c = {0}; c.kind = kind; c.up = tok_long(&a[1]); c.vp = tok_long(&a[2]); c.rp = tok_long(&a[3]); c.n = tok_long(&a[4]);
  NEED(c.n >= 1 && in_buf(&a[0], c.up, c.n) && in_buf(&a[0], c.vp, c.n) && in_buf(&a[0], c.rp, c.n));
  NEED(same_or_sep(c.rp, c.up, c.n) && same_or_sep(c.rp, c.vp, c.n));
  return finish(&c, &a[0], 1, o);
}
/* [buf] xoff xn yoff yn woff */
static int op_aors(int kind, int argc, tok_t *a, out_t *o) {
  NEED(argc == 6 && a[0].kind == T_VEC && small(&a[1]) && small(&a[2]) && small(&a[3]) && small(&a[4]) && small(&a[5]));
  call_t c = {0}; c.kind = kind; c.up = tok_long(&a[1]); c.n = tok_long(&a[2]); c.vp = tok_long(&a[3]); c.n2 = tok_long(&a[4]); c.rp = tok_long(&a[5]);
  NEED(c.n >= 1 && c.n2 >= 0 && c.n2 <= c.n && in_buf(&a[0], c.up, c.n) && in_buf(&a[0], c.vp, c.n2) && in_buf(&a[0], c.rp, c.n));
  NEED(same_or_sep2(c.rp, c.n, c.up, c.n) && same_or_sep2(c.rp, c.n, c.vp, c.n2));
  return finish(&c, &a[0], 1, o);
}

static int op_lshift(int c, tok_t *a, out_t *o) { return op2(K_LSHIFT, 1, 1, c, a, o); }
static int op_rshift(int c, tok_t *a, out_t *o) { return op2(K_RSHIFT, 1, 1, c, a, o); }
static int op_copyi(int c, tok_t *a, out_t *o) { return op2(K_COPYI, 0, 0, c, a, o); }
static int op_copyd(int c, tok_t *a, out_t *o) { return op2(K_COPYD, 0, 0, c, a, o); }
static int op_com_n(int c, tok_t *a, out_t *o) { return op2(K_COM, 0, 0, c, a, o); }
static int op_neg_n(int c, tok_t *a, out_t *o) { return op2(K_NEG, 0, 1, c, a, o); }
static int op_add_1(int c, tok_t *a, out_t *o) { return op2(K_ADD_1, 2, 1, c, a, o); }
static int op_sub_1(int c, tok_t *a, out_t *o) { return op2(K_SUB_1, 2, 1, c, a, o); }
static int op_mul_1(int c, tok_t *a, out_t *o) { return op2(K_MUL_1, 2, 1, c, a, o); }
static int op_addmul_1(int c, tok_t *a, out_t *o) { return op2(K_ADDMUL_1, 2, 1, c, a, o); }
static int op_submul_1(int c, tok_t *a, out_t *o) { return op2(K_SUBMUL_1, 2, 1, c, a, o); }
static int op_add_n(int c, tok_t *a, out_t *o) { return op3(K_ADD_N, c, a, o); }
static int op_sub_n(int c, tok_t *a, out_t *o) { return op3(K_SUB_N, c, a, o); }
static int op_add(int c, tok_t *a, out_t *o) { return op_aors(K_ADD, c, a, o); }
static int op_sub(int c, tok_t *a, out_t *o) { return op_aors(K_SUB, c, a, o); }

const opdef_t ops_kernmem[] = {
  {"mem_lshift", op_lshift}, {"mem_rshift", op_rshift}, {"mem_copyi", op_copyi}, {"mem_copyd", op_copyd},
  {"mem_com_n", op_com_n}, {"mem_neg_n", op_neg_n}, {"mem_add_n", op_add_n}, {"mem_sub_n", op_sub_n},
  {"mem_add_1", op_add_1}, {"mem_sub_1", op_sub_1}, {"mem_mul_1", op_mul_1},
  {"mem_addmul_1", op_addmul_1}, {"mem_submul_1", op_submul_1}, {"mem_add", op_add}, {"mem_sub", op_sub},
  {0, 0}
};
