/* mpq layer: C12 (arithmetic exact and canonical), the mpq part of C11 (comparisons, set_d) and the
   mpq alias patterns of C05.  Operands arrive as num/den pairs and are loaded into mpq_t variables with
   exact-size allocation; destinations that are not aliased are fresh mpq_init'ed variables (1 limb
   each), so the call has to size them.  After the call every variable involved is printed, so that
   untouched inputs are checked too.  Comparisons print only the sign. */
#include "harness.h"
#define NEED(c) do { if (!(c)) return -1; } while (0)

static int allnum(int argc, tok_t *a) { for (int i = 0; i < argc; i++) if (a[i].kind != T_NUM) return 0; return 1; }
static void load(mpq_ptr q, const tok_t *n, const tok_t *d) { tok_mpz(mpq_numref(q), n); tok_mpz(mpq_denref(q), d); }
static int fits_ulong(const tok_t *t) { return !t->neg && t->n <= 1; }
static int fits_long(const tok_t *t) {
  if (t->n == 0) return 1;
  if (t->n > 1) return 0;
  return t->neg ? t->d[0] <= (mp_limb_t)1 << 63 : t->d[0] < (mp_limb_t)1 << 63;
}
static long get_long(const tok_t *t) { mp_limb_t v = t->n ? t->d[0] : 0; return (long)(t->neg ? 0UL - v : v); }
/* MPIR's __gmp_exception (errno.c) raises SIGFPE without recording the cause in gmp_errno, so the
   shared out_exc cannot tell; every exception reachable from the mpq functions called here with
   well-formed operands is DIVIDE_BY_ZERO (set_d's invalid-operation is handled in op_set_d). */
static void out_div0(out_t *o, int e) { if (e & ~(GMP_ERROR_UNSUPPORTED_ARGUMENT | GMP_ERROR_DIVISION_BY_ZERO)) out_exc(o, e); else out_err(o, "div0"); }
static void out_sign(out_t *o, int c) { out_long(o, c > 0 ? 1 : c < 0 ? -1 : 0); }

/* ---- three-operand functions; mode: 0 distinct, 1 rop==op1, 2 rop==op2, 3 op1==op2, 4 all the same */
typedef void (*q3_t)(mpq_ptr, mpq_srcptr, mpq_srcptr);
static int do_q3(q3_t f, int argc, tok_t *a, out_t *o) {
  NEED(argc == 5 && allnum(argc, a) && fits_long(&a[0]));
  long mode = get_long(&a[0]); NEED(mode >= 0 && mode <= 4);
  mpq_t v0, v1, v2; mpq_init(v0); mpq_init(v1); mpq_init(v2);
  load(v1, &a[1], &a[2]); load(v2, &a[3], &a[4]);
  mpq_ptr rop = v0, op1 = v1, op2 = v2;
  switch (mode) {
    case 1: rop = v1; break;
    case 2: rop = v2; break;
    case 3: op2 = v1; break;
    case 4: rop = v1; op2 = v1; break;
  }
  int e = GUARD(f(rop, op1, op2));
  if (e) out_div0(o, e); else { out_mpq(o, rop); out_mpq(o, op1); out_mpq(o, op2); }
  mpq_clear(v0); mpq_clear(v1); mpq_clear(v2); return 0;
}
static int op_add(int c, tok_t *a, out_t *o) { return do_q3(mpq_add, c, a, o); }
static int op_sub(int c, tok_t *a, out_t *o) { return do_q3(mpq_sub, c, a, o); }
static int op_mul(int c, tok_t *a, out_t *o) { return do_q3(mpq_mul, c, a, o); }
static int op_div(int c, tok_t *a, out_t *o) { return do_q3(mpq_div, c, a, o); }

/* ---- two-operand functions; mode: 0 distinct, 1 dst==src */
typedef void (*q2_t)(mpq_ptr, mpq_srcptr);
static int do_q2(q2_t f, int argc, tok_t *a, out_t *o) {
  NEED(argc == 3 && allnum(argc, a) && fits_long(&a[0]));
  long mode = get_long(&a[0]); NEED(mode == 0 || mode == 1);
  mpq_t v0, v1; mpq_init(v0); mpq_init(v1); load(v1, &a[1], &a[2]);
  mpq_ptr dst = mode ? v1 : v0;
  int e = GUARD(f(dst, v1));
  if (e) out_div0(o, e); else { out_mpq(o, dst); out_mpq(o, v1); }
  mpq_clear(v0); mpq_clear(v1); return 0;
}
static int op_inv(int c, tok_t *a, out_t *o) { return do_q2(mpq_inv, c, a, o); }
static int op_neg(int c, tok_t *a, out_t *o) { return do_q2(mpq_neg, c, a, o); }
static int op_abs(int c, tok_t *a, out_t *o) { return do_q2(mpq_abs, c, a, o); }
static int op_set(int c, tok_t *a, out_t *o) { return do_q2(mpq_set, c, a, o); }

typedef void (*q2e_t)(mpq_ptr, mpq_srcptr, mp_bitcnt_t);
static int do_2exp(q2e_t f, int argc, tok_t *a, out_t *o) {
  NEED(argc == 4 && allnum(argc, a) && fits_long(&a[0]) && fits_ulong(&a[3]));
  long mode = get_long(&a[0]); NEED(mode == 0 || mode == 1);
  mpq_t v0, v1; mpq_init(v0); mpq_init(v1); load(v1, &a[1], &a[2]);
  mpq_ptr dst = mode ? v1 : v0;
  int e = GUARD(f(dst, v1, tok_ulong(&a[3])));
  if (e) out_div0(o, e); else { out_mpq(o, dst); out_mpq(o, v1); }
  mpq_clear(v0); mpq_clear(v1); return 0;
}
static int op_mul_2exp(int c, tok_t *a, out_t *o) { return do_2exp(mpq_mul_2exp, c, a, o); }
static int op_div_2exp(int c, tok_t *a, out_t *o) { return do_2exp(mpq_div_2exp, c, a, o); }

/* ---- canonicalize: num/den stored directly, then the call */
static int op_canonicalize(int argc, tok_t *a, out_t *o) {
  NEED(argc == 2 && allnum(argc, a));
  mpq_t q; mpq_init(q); load(q, &a[0], &a[1]);
  int e = GUARD(mpq_canonicalize(q));
  if (e) out_div0(o, e); else out_mpq(o, q);
  mpq_clear(q); return 0;
}

/* ---- setters: the destination holds n0/d0 before the call */
static int op_set_z(int argc, tok_t *a, out_t *o) {
  NEED(argc == 3 && allnum(argc, a));
  mpq_t q; mpz_t z; mpq_init(q); mpz_init(z); load(q, &a[0], &a[1]); tok_mpz(z, &a[2]);
  mpq_set_z(q, z); out_mpq(o, q);
  mpq_clear(q); mpz_clear(z); return 0;
}
static int op_set_num(int argc, tok_t *a, out_t *o) {
  NEED(argc == 3 && allnum(argc, a));
  mpq_t q; mpz_t z; mpq_init(q); mpz_init(z); load(q, &a[0], &a[1]); tok_mpz(z, &a[2]);
  mpq_set_num(q, z); out_mpq(o, q);
  mpq_clear(q); mpz_clear(z); return 0;
}
static int op_set_den(int argc, tok_t *a, out_t *o) {
  NEED(argc == 3 && allnum(argc, a));
  mpq_t q; mpz_t z; mpq_init(q); mpz_init(z); load(q, &a[0], &a[1]); tok_mpz(z, &a[2]);
  mpq_set_den(q, z); out_mpq(o, q);
  mpq_clear(q); mpz_clear(z); return 0;
}
static int op_set_si(int argc, tok_t *a, out_t *o) {
  NEED(argc == 4 && allnum(argc, a) && fits_long(&a[2]) && fits_ulong(&a[3]));
  mpq_t q; mpq_init(q); load(q, &a[0], &a[1]);
  mpq_set_si(q, get_long(&a[2]), tok_ulong(&a[3]));
  /* a zero denominator is stored with size 0: print the raw pair, out_mpz accepts size 0 */
  out_mpq(o, q); mpq_clear(q); return 0;
}
static int op_set_ui(int argc, tok_t *a, out_t *o) {
  NEED(argc == 4 && allnum(argc, a) && fits_ulong(&a[2]) && fits_ulong(&a[3]));
  mpq_t q; mpq_init(q); load(q, &a[0], &a[1]);
  mpq_set_ui(q, tok_ulong(&a[2]), tok_ulong(&a[3]));
  out_mpq(o, q); mpq_clear(q); return 0;
}
static int op_set_d(int argc, tok_t *a, out_t *o) {
  NEED(argc == 3 && allnum(argc, a) && fits_ulong(&a[2]));
  mpq_t q; mpq_init(q); load(q, &a[0], &a[1]);
  uint64_t b = tok_ulong(&a[2]); double d; memcpy(&d, &b, 8);
  int e = GUARD(mpq_set_d(q, d));
  if (e) out_err(o, "invalid");      /* __gmp_invalid_operation raises SIGFPE without an error code */
  else out_mpq(o, q);
  mpq_clear(q); return 0;
}

/* mpq_set_f n0 d0 sign [limbs] exp : the mpf operand is built field by field (top limb non-zero) */
static int op_set_f(int argc, tok_t *a, out_t *o) {
  NEED(argc == 5 && a[0].kind == T_NUM && a[1].kind == T_NUM && a[2].kind == T_NUM && a[3].kind == T_VEC && a[4].kind == T_NUM && fits_long(&a[4]));
  long n = a[3].n; NEED(n == 0 || a[3].d[n - 1] != 0);
  mpq_t q; mpf_t f; mpq_init(q); load(q, &a[0], &a[1]);
  mpf_init2(f, 64 * (n > 0 ? n : 1));
  NEED(n <= f->_mp_prec + 1);
  for (long i = 0; i < n; i++) f->_mp_d[i] = a[3].d[i];
  f->_mp_size = a[2].neg ? -(int)n : (int)n; f->_mp_exp = n ? get_long(&a[4]) : 0;
  mpq_set_f(q, f); out_mpq(o, q);
  mpq_clear(q); mpf_clear(f); return 0;
}
/* mpq_get_num / mpq_get_den n d z0 : the destination mpz holds z0 before the call */
static int op_get_numden(int which, int argc, tok_t *a, out_t *o) {
  NEED(argc == 3 && allnum(argc, a));
  mpq_t q; mpz_t z; mpq_init(q); mpz_init(z); load(q, &a[0], &a[1]); tok_mpz(z, &a[2]);
  if (which) mpq_get_den(z, q); else mpq_get_num(z, q);
  out_mpz(o, z); out_mpq(o, q);
  mpq_clear(q); mpz_clear(z); return 0;
}
static int op_get_num(int c, tok_t *a, out_t *o) { return op_get_numden(0, c, a, o); }
static int op_get_den(int c, tok_t *a, out_t *o) { return op_get_numden(1, c, a, o); }
static int op_get_d(int argc, tok_t *a, out_t *o) {
  NEED(argc == 2 && allnum(argc, a));
  mpq_t q; mpq_init(q); load(q, &a[0], &a[1]);
  double d = mpq_get_d(q); uint64_t b; memcpy(&b, &d, 8); out_ulong(o, b);
  mpq_clear(q); return 0;
}

/* ---- swap / comparisons on two variables; mode 0 distinct, 1 the same variable */
static int two_vars(int argc, tok_t *a, mpq_t v1, mpq_t v2, mpq_ptr *u, mpq_ptr *v) {
  NEED(argc == 5 && allnum(argc, a) && fits_long(&a[0]));
  long mode = get_long(&a[0]); NEED(mode == 0 || mode == 1);
  mpq_init(v1); mpq_init(v2); load(v1, &a[1], &a[2]); load(v2, &a[3], &a[4]);
  *u = v1; *v = mode ? v1 : v2; return 0;
}
static int op_swap(int argc, tok_t *a, out_t *o) {
  mpq_t v1, v2; mpq_ptr u, v; NEED(two_vars(argc, a, v1, v2, &u, &v) == 0);
  mpq_swap(u, v); out_mpq(o, u); out_mpq(o, v);
  mpq_clear(v1); mpq_clear(v2); return 0;
}
static int op_cmp(int argc, tok_t *a, out_t *o) {
  mpq_t v1, v2; mpq_ptr u, v; NEED(two_vars(argc, a, v1, v2, &u, &v) == 0);
  out_sign(o, mpq_cmp(u, v));
  mpq_clear(v1); mpq_clear(v2); return 0;
}
static int op_equal(int argc, tok_t *a, out_t *o) {
  mpq_t v1, v2; mpq_ptr u, v; NEED(two_vars(argc, a, v1, v2, &u, &v) == 0);
  out_long(o, mpq_equal(u, v) != 0);
  mpq_clear(v1); mpq_clear(v2); return 0;
}
static int op_cmp_z(int argc, tok_t *a, out_t *o) {
  NEED(argc == 3 && allnum(argc, a));
  mpq_t q; mpz_t z; mpq_init(q); mpz_init(z); load(q, &a[0], &a[1]); tok_mpz(z, &a[2]);
  out_sign(o, mpq_cmp_z(q, z));
  mpq_clear(q); mpz_clear(z); return 0;
}
static int op_cmp_ui(int argc, tok_t *a, out_t *o) {
  NEED(argc == 4 && allnum(argc, a) && fits_ulong(&a[2]) && fits_ulong(&a[3]));
  mpq_t q; mpq_init(q); load(q, &a[0], &a[1]);
  unsigned long n = tok_ulong(&a[2]), d = tok_ulong(&a[3]); volatile int c = 0;
  int e = GUARD(c = mpq_cmp_ui(q, n, d));
  if (e) out_div0(o, e); else out_sign(o, c);
  mpq_clear(q); return 0;
}
static int op_cmp_si(int argc, tok_t *a, out_t *o) {
  NEED(argc == 4 && allnum(argc, a) && fits_long(&a[2]) && fits_ulong(&a[3]));
  mpq_t q; mpq_init(q); load(q, &a[0], &a[1]);
  long n = get_long(&a[2]); unsigned long d = tok_ulong(&a[3]); volatile int c = 0;
  int e = GUARD(c = mpq_cmp_si(q, n, d));
  if (e) out_div0(o, e); else out_sign(o, c);
  mpq_clear(q); return 0;
}

const opdef_t ops_mpq[] = {
  {"mpq_add", op_add}, {"mpq_sub", op_sub}, {"mpq_mul", op_mul}, {"mpq_div", op_div},
  {"mpq_inv", op_inv}, {"mpq_neg", op_neg}, {"mpq_abs", op_abs}, {"mpq_set", op_set},
  {"mpq_mul_2exp", op_mul_2exp}, {"mpq_div_2exp", op_div_2exp},
  {"mpq_canonicalize", op_canonicalize},
  {"mpq_set_z", op_set_z}, {"mpq_set_num", op_set_num}, {"mpq_set_den", op_set_den},
  {"mpq_set_si", op_set_si}, {"mpq_set_ui", op_set_ui}, {"mpq_set_d", op_set_d},
  {"mpq_set_f", op_set_f}, {"mpq_get_d", op_get_d}, {"mpq_get_num", op_get_num}, {"mpq_get_den", op_get_den},
  {"mpq_swap", op_swap}, {"mpq_cmp", op_cmp}, {"mpq_equal", op_equal},
  {"mpq_cmp_z", op_cmp_z}, {"mpq_cmp_ui", op_cmp_ui}, {"mpq_cmp_si", op_cmp_si},
  {0, 0}
};
