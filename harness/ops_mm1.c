/* C08 / C01: mpn_mulmod_2expm1 and mpn_mulmod_bnm1 compared EXACTLY with the limb-level model
   (lean/Mpir/Model/Mulmod2expm1.lean), and mpn_mulmod_bnm1_next_size. */
#include "harness.h"
#include "gmp-impl.h"
#define NEED(c) do { if (!(c)) return -1; } while (0)

/* mpn_mulmod_2expm1_x b [y] [z]: n = ceil(b/64) limbs each, below 2^b (mulmod_2expm1.c:128-133); scratch
   5(n + lg b) limbs ("tp requires 5(n + lg(b)) space"); yp, zp are modified temporarily: copies are passed */
static int op_mm1_x(int argc, tok_t *a, out_t *o) {
  NEED(argc == 3 && a[0].kind == T_NUM && a[1].kind == T_VEC && a[2].kind == T_VEC);
  unsigned long b = tok_ulong(&a[0]); NEED(b >= 1 && b < (1UL << 30));
  long n = (b + 63) / 64, k = 64 * n - b; NEED(a[1].n == n && a[2].n == n);
  NEED(k == 0 || (a[1].d[n - 1] >> (64 - k) == 0 && a[2].d[n - 1] >> (64 - k) == 0));
  long tn = 5 * (n + 64); mp_limb_t *xp = dst_new(n), *yp = dst_new(n), *zp = dst_new(n), *tp = dst_new(tn);
  memcpy(yp, a[1].d, n * 8); memcpy(zp, a[2].d, n * 8);
  mpn_mulmod_2expm1(xp, yp, zp, b, tp);
  out_vec(o, xp, n);
  if (memcmp(yp, a[1].d, n * 8) || memcmp(zp, a[2].d, n * 8)) out_err(o, "inputmod");
  if (!dst_ok(tp, tn) || !dst_ok(yp, n) || !dst_ok(zp, n) || !dst_ok(xp, n)) out_err(o, "oob");
  dst_free(tp); dst_free(yp); dst_free(zp); dst_free(xp); return 0;
}

/* mpn_mulmod_bnm1_x rn [a] [b]: 0 < bn <= an <= rn; scratch mpn_mulmod_bnm1_itch; min(rn, an+bn) limbs written */
static int op_bnm1_x(int argc, tok_t *a, out_t *o) {
  NEED(argc == 3 && a[0].kind == T_NUM && a[1].kind == T_VEC && a[2].kind == T_VEC);
  long rn = tok_long(&a[0]), an = a[1].n, bn = a[2].n;
  NEED(0 < bn && bn <= an && an <= rn && rn < (1L << 22));
  long wn = an + bn < rn ? an + bn : rn, tn = mpn_mulmod_bnm1_itch(rn, an, bn);
  mp_limb_t *rp = dst_new(wn), *tp = dst_new(tn);
  mpn_mulmod_bnm1(rp, rn, a[1].d, an, a[2].d, bn, tp);
  out_vec(o, rp, wn);
  if (!dst_ok(tp, tn) || !dst_ok(rp, wn)) out_err(o, "oob");
  dst_free(tp); dst_free(rp); return 0;
}

/* mpn_mulmod_bnm1_next_size n */
static int op_next_size(int argc, tok_t *a, out_t *o) {
  NEED(argc == 1 && a[0].kind == T_NUM);
  long n = tok_long(&a[0]); NEED(n >= 1 && n < (1L << 40));
  out_long(o, mpn_mulmod_bnm1_next_size(n)); return 0;
}

const opdef_t ops_mm1[] = {
  {"mpn_mulmod_2expm1_x", op_mm1_x}, {"mpn_mulmod_bnm1_x", op_bnm1_x}, {"mpn_mulmod_bnm1_next_size", op_next_size},
  {0, 0}
};
