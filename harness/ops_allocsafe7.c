/* C04 part c04_allocsafe7: the mpf assignment / addition functions on a destination that is never reallocated.
   Every object is built by hand: the destination's limb block has EXACTLY PREC + 1 limbs (in the aliased calls: max (PREC + 1,
   operand length), the state mpf_set_prec_raw leaves) between guard limbs, filled with the pattern the model uses for fresh memory;
   operands sit in blocks of exactly their length.  Output: SIZ, EXP and the WHOLE destination block (`!oob` when a guard limb
   changed, `!opchanged` when an operand that is not the destination changed).  Lean side: Mpir/Ops/AllocSafe7.lean. */
#include <string.h>
#include <stdlib.h>
#include "harness.h"
#include "gmp-impl.h"

#define NEED(c) do { if (!(c)) return -1; } while (0)
#define ISNUM(k) (a[k].kind == T_NUM)
#define ISVEC(k) (a[k].kind == T_VEC)
#define ISUI(k) (a[k].kind == T_NUM && !a[k].neg && a[k].n <= 1)
#define JUNK 0xA5A5A5A5A5A5A5A5UL

typedef struct { __mpf_struct f; long alloc; mp_limb_t *save; long nsave; } fobj;

/* block of max (n, len) limbs: the limbs of the token, then junk */
static void f_make(fobj *x, long prec, int neg, long e, const tok_t *d, long n) {
  long len = d ? d->n : 0, al = len > n ? len : n;
  mp_limb_t *p = dst_new(al);
  for (long i = 0; i < al; i++) p[i] = i < len ? d->d[i] : JUNK;
  x->f._mp_prec = (int) prec; x->f._mp_size = (int) (neg ? -len : len); x->f._mp_exp = e; x->f._mp_d = p; x->alloc = al;
  x->nsave = al; x->save = malloc((al + 1) * sizeof(mp_limb_t)); memcpy(x->save, p, al * sizeof(mp_limb_t));
}
static int f_same(const fobj *x, int size, long e) {
  return x->f._mp_size == size && x->f._mp_exp == e && memcmp(x->save, x->f._mp_d, x->nsave * sizeof(mp_limb_t)) == 0;
}
static void f_free(fobj *x) { dst_free(x->f._mp_d); free(x->save); }
static void f_out(out_t *o, const fobj *r) {
  if (!dst_ok(r->f._mp_d, r->alloc)) { out_err(o, "oob"); return; }
  out_long(o, r->f._mp_size); out_long(o, r->f._mp_exp); out_vec(o, r->f._mp_d, r->alloc);
}
static int opnd_ok(const tok_t *neg, const tok_t *e, const tok_t *d) {
  if (!(neg->kind == T_NUM && e->kind == T_NUM && d->kind == T_VEC)) return 0;
  long ng = tok_long(neg); if (!(ng == 0 || ng == 1)) return 0;
  if (d->n > 0 && d->d[d->n - 1] == 0) return 0;
  if (d->n == 0 && !(tok_long(e) == 0 && ng == 0)) return 0;
  return 1;
}
static int prec_ok(const tok_t *p) { return p->kind == T_NUM && !p->neg && p->n <= 1 && tok_long(p) >= 1 && tok_long(p) < 4096; }

/* as7_set m prec neg exp [u]: m = 0 mpf_set (r, u), m = 1 mpf_set (r, r) */
static int op_set(int argc, tok_t *a, out_t *o) {
  NEED(argc == 5 && ISNUM(0) && prec_ok(&a[1]) && opnd_ok(&a[2], &a[3], &a[4]));
  long m = tok_long(&a[0]), prec = tok_long(&a[1]); NEED(m == 0 || m == 1);
  fobj r, u;
  if (m == 0) {
    f_make(&r, prec, 0, 0, NULL, prec + 1); f_make(&u, 0, (int) tok_long(&a[2]), tok_long(&a[3]), &a[4], 1);
    int us = u.f._mp_size; long ue = u.f._mp_exp;
    mpf_set(&r.f, &u.f);
    if (!f_same(&u, us, ue)) out_err(o, "opchanged"); else f_out(o, &r);
    f_free(&u);
  } else {
    f_make(&r, prec, (int) tok_long(&a[2]), tok_long(&a[3]), &a[4], prec + 1);
    mpf_set(&r.f, &r.f);
    f_out(o, &r);
  }
  f_free(&r); return 0;
}

static int op_set_ui(int argc, tok_t *a, out_t *o) {
  NEED(argc == 2 && prec_ok(&a[0]) && ISUI(1));
  fobj r; f_make(&r, tok_long(&a[0]), 0, 0, NULL, tok_long(&a[0]) + 1);
  mpf_set_ui(&r.f, tok_ulong(&a[1]));
  f_out(o, &r); f_free(&r); return 0;
}

static int op_set_si(int argc, tok_t *a, out_t *o) {
  NEED(argc == 2 && prec_ok(&a[0]) && ISNUM(1) && a[1].n <= 1);
  mp_limb_t mag = a[1].n ? a[1].d[0] : 0;
  NEED(a[1].neg ? mag <= (1UL << 63) : mag < (1UL << 63));
  long v = a[1].neg ? (long) (0UL - mag) : (long) mag;
  fobj r; f_make(&r, tok_long(&a[0]), 0, 0, NULL, tok_long(&a[0]) + 1);
  mpf_set_si(&r.f, v);
  f_out(o, &r); f_free(&r); return 0;
}

/* as7_set_z prec zalloc z: the mpz operand in a block of zalloc limbs */
static int op_set_z(int argc, tok_t *a, out_t *o) {
  NEED(argc == 3 && prec_ok(&a[0]) && ISUI(1) && ISNUM(2));
  long za = tok_long(&a[1]); NEED(za >= 1 && za <= 65536);
  long zn = a[2].n; while (zn > 0 && a[2].d[zn - 1] == 0) zn--;
  NEED(zn <= za);
  mp_limb_t *zp = dst_new(za);
  for (long i = 0; i < za; i++) zp[i] = i < zn ? a[2].d[i] : JUNK;
  __mpz_struct z; z._mp_alloc = (int) za; z._mp_size = (int) (a[2].neg ? -zn : zn); z._mp_d = zp;
  fobj r; f_make(&r, tok_long(&a[0]), 0, 0, NULL, tok_long(&a[0]) + 1);
  mpf_set_z(&r.f, &z);
  int same = z._mp_alloc == za && z._mp_size == (int) (a[2].neg ? -zn : zn) && z._mp_d == zp;
  for (long i = 0; i < za && same; i++) same = zp[i] == (i < zn ? a[2].d[i] : JUNK);
  if (!same) out_err(o, "opchanged"); else f_out(o, &r);
  f_free(&r); dst_free(zp); return 0;
}

/* as7_mul_ui m prec neg exp [u] v */
static int op_mul_ui(int argc, tok_t *a, out_t *o) {
  NEED(argc == 6 && ISNUM(0) && prec_ok(&a[1]) && opnd_ok(&a[2], &a[3], &a[4]) && ISUI(5));
  long m = tok_long(&a[0]), prec = tok_long(&a[1]); NEED(m == 0 || m == 1);
  unsigned long v = tok_ulong(&a[5]);
  fobj r, u;
  if (m == 0) {
    f_make(&r, prec, 0, 0, NULL, prec + 1); f_make(&u, 0, (int) tok_long(&a[2]), tok_long(&a[3]), &a[4], 1);
    int us = u.f._mp_size; long ue = u.f._mp_exp;
    mpf_mul_ui(&r.f, &u.f, v);
    if (!f_same(&u, us, ue)) out_err(o, "opchanged"); else f_out(o, &r);
    f_free(&u);
  } else {
    f_make(&r, prec, (int) tok_long(&a[2]), tok_long(&a[3]), &a[4], prec + 1);
    mpf_mul_ui(&r.f, &r.f, v);
    f_out(o, &r);
  }
  f_free(&r); return 0;
}

/* as7_add m prec uneg uexp [u] vneg vexp [v]: m = 0 distinct, 1 r == u, 2 r == v, 3 u == v, 4 r == u == v; operands of
   different sign go through mpf_sub resp. mpf_add of the library; as7_sub: the same for mpf_sub */
static int op_aors(int argc, tok_t *a, out_t *o, int sub) {
  NEED(argc == 8 && ISNUM(0) && prec_ok(&a[1]) && opnd_ok(&a[2], &a[3], &a[4]) && opnd_ok(&a[5], &a[6], &a[7]));
  long m = tok_long(&a[0]), prec = tok_long(&a[1]); NEED(m >= 0 && m <= 4);
  int un = (int) tok_long(&a[2]), vn = (int) tok_long(&a[5]);
  fobj r, u, v; int hr = 0, hu = 0, hv = 0;
  __mpf_struct *rp, *up, *vp;
  if (m == 0) { f_make(&r, prec, 0, 0, NULL, prec + 1); f_make(&u, 0, un, tok_long(&a[3]), &a[4], 1); f_make(&v, 0, vn, tok_long(&a[6]), &a[7], 1); hr = hu = hv = 1; rp = &r.f; up = &u.f; vp = &v.f; }
  else if (m == 1) { f_make(&r, prec, un, tok_long(&a[3]), &a[4], prec + 1); f_make(&v, 0, vn, tok_long(&a[6]), &a[7], 1); hr = hv = 1; rp = up = &r.f; vp = &v.f; }
  else if (m == 2) { f_make(&u, 0, un, tok_long(&a[3]), &a[4], 1); f_make(&r, prec, vn, tok_long(&a[6]), &a[7], prec + 1); hr = hu = 1; rp = vp = &r.f; up = &u.f; }
  else if (m == 3) { f_make(&r, prec, 0, 0, NULL, prec + 1); f_make(&u, 0, un, tok_long(&a[3]), &a[4], 1); hr = hu = 1; rp = &r.f; up = vp = &u.f; }
  else { f_make(&r, prec, un, tok_long(&a[3]), &a[4], prec + 1); hr = 1; rp = up = vp = &r.f; }
  int us = hu ? u.f._mp_size : 0, vs = hv ? v.f._mp_size : 0; long ue = hu ? u.f._mp_exp : 0, ve = hv ? v.f._mp_exp : 0;
  if (sub) mpf_sub(rp, up, vp); else mpf_add(rp, up, vp);
  if ((hu && !f_same(&u, us, ue)) || (hv && !f_same(&v, vs, ve))) out_err(o, "opchanged"); else f_out(o, &r);
  if (hr) f_free(&r);
  if (hu) f_free(&u);
  if (hv) f_free(&v);
  return 0;
}

static int op_add(int argc, tok_t *a, out_t *o) { return op_aors(argc, a, o, 0); }
static int op_sub(int argc, tok_t *a, out_t *o) { return op_aors(argc, a, o, 1); }

/* as7_mul_2exp / as7_div_2exp m prec neg exp [u] k */
static int op_2exp(int argc, tok_t *a, out_t *o, int div) {
  NEED(argc == 6 && ISNUM(0) && prec_ok(&a[1]) && opnd_ok(&a[2], &a[3], &a[4]) && ISUI(5));
  long m = tok_long(&a[0]), prec = tok_long(&a[1]); NEED(m == 0 || m == 1);
  unsigned long k = tok_ulong(&a[5]); NEED(k < (1UL << 32));
  fobj r, u;
  if (m == 0) {
    f_make(&r, prec, 0, 0, NULL, prec + 1); f_make(&u, 0, (int) tok_long(&a[2]), tok_long(&a[3]), &a[4], 1);
    int us = u.f._mp_size; long ue = u.f._mp_exp;
    if (div) mpf_div_2exp(&r.f, &u.f, k); else mpf_mul_2exp(&r.f, &u.f, k);
    if (!f_same(&u, us, ue)) out_err(o, "opchanged"); else f_out(o, &r);
    f_free(&u);
  } else {
    f_make(&r, prec, (int) tok_long(&a[2]), tok_long(&a[3]), &a[4], prec + 1);
    if (div) mpf_div_2exp(&r.f, &r.f, k); else mpf_mul_2exp(&r.f, &r.f, k);
    f_out(o, &r);
  }
  f_free(&r); return 0;
}
static int op_mul_2exp(int argc, tok_t *a, out_t *o) { return op_2exp(argc, a, o, 0); }
static int op_div_2exp(int argc, tok_t *a, out_t *o) { return op_2exp(argc, a, o, 1); }

const opdef_t ops_allocsafe7[] = {
  {"as7_set", op_set}, {"as7_set_ui", op_set_ui}, {"as7_set_si", op_set_si}, {"as7_set_z", op_set_z},
  {"as7_mul_ui", op_mul_ui}, {"as7_add", op_add}, {"as7_sub", op_sub}, {"as7_mul_2exp", op_mul_2exp}, {"as7_div_2exp", op_div_2exp},
  {0, 0}
};
