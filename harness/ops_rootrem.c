/* Property C09, part rootrem: the internal entry points behind mpn_rootrem.
     mpn_rootrem_basecase [u] k -> [root (xn limbs)] [rem] rn      (u[un-1] != 0, k >= 2; any size: the function is
                                                                    called directly, not through the threshold dispatch)
   xn = ceil (xnb / 64), xnb = (bits(u) - 1) / k + 1: the limbs the function writes to rootp.
     mpn_rootrem_i [u] k -> [root] [rem] rn ; mpn_rootrem_i_norem [u] k -> [root] flag     (mpn_rootrem; remp == NULL)
   mpn_rootrem_internal is static in rootrem.c: it is reached through mpn_rootrem with un >= ROOTREM_THRESHOLD.  An ASSERT_ALWAYS that fires is reported as `!abort`. */
#include "harness.h"
#include "gmp-impl.h"
#include "longlong.h"
#include <signal.h>
#include <setjmp.h>
#define NEED(c) do { if (!(c)) return -1; } while (0)

static sigjmp_buf ab_jmp;
static void on_abort(int sig) { (void)sig; siglongjmp(ab_jmp, 1); }

static int op_mpn_rootrem_basecase(int argc, tok_t *a, out_t *o) {
  NEED(argc == 2 && a[0].kind == T_VEC && a[0].n >= 1 && a[0].d[a[0].n - 1] != 0 && a[1].kind == T_NUM && !a[1].neg && a[1].n == 1);
  mp_limb_t k = tok_ulong(&a[1]); NEED(k >= 2);
  long n = a[0].n;
  int cnt; count_leading_zeros(cnt, a[0].d[n - 1]);
  unsigned long unb = n * 64 - cnt, xnb = (unb - 1) / k + 1;
  long xn = (xnb + 63) / 64;
  mp_limb_t *sp = dst_new(xn), *rp = dst_new(n), *np = dst_new(n);
  memcpy(np, a[0].d, n * sizeof(mp_limb_t));
  volatile mp_size_t rn = 0; volatile int aborted = 0;
  void (*old)(int) = signal(SIGABRT, on_abort);
  if (sigsetjmp(ab_jmp, 1) == 0) rn = mpn_rootrem_basecase(sp, rp, np, n, k); else aborted = 1;
  signal(SIGABRT, old);
  if (aborted) { out_err(o, "abort"); return 0; }          /* buffers are left to the leak check on purpose */
  out_vec(o, sp, xn);
  if (rn < 0 || rn > n) out_err(o, "malformed");
  else { out_vec(o, rp, rn); out_long(o, rn); }
  if (memcmp(np, a[0].d, n * sizeof(mp_limb_t))) out_err(o, "srcmod");
  if (!dst_ok(sp, xn) || !dst_ok(rp, n) || !dst_ok(np, n)) out_err(o, "oob");
  dst_free(sp); dst_free(rp); dst_free(np); return 0;
}

/* mpn_rootrem (same call as ops_root.c: mpn_rootrem) — answered on the Lean side by the model of the dispatcher and of
   mpn_rootrem_internal; norem: remp == NULL */
static int do_rootrem_i(int norem, int argc, tok_t *a, out_t *o) {
  NEED(argc == 2 && a[0].kind == T_VEC && a[0].n >= 1 && a[0].d[a[0].n - 1] != 0 && a[1].kind == T_NUM && !a[1].neg && a[1].n == 1);
  mp_limb_t k = tok_ulong(&a[1]); NEED(k >= 2);
  long n = a[0].n, tn = (n - 1) / k + 1;
  mp_limb_t *sp = dst_new(tn), *rp = dst_new(n), *np = dst_new(n);
  memcpy(np, a[0].d, n * sizeof(mp_limb_t));
  volatile mp_size_t rn = 0; volatile int aborted = 0;
  void (*old)(int) = signal(SIGABRT, on_abort);
  if (sigsetjmp(ab_jmp, 1) == 0) rn = mpn_rootrem(sp, norem ? NULL : rp, np, n, k); else aborted = 1;
  signal(SIGABRT, old);
  if (aborted) { out_err(o, "abort"); return 0; }
  out_vec(o, sp, tn);
  if (norem) out_long(o, rn != 0);
  else if (rn < 0 || rn > n) out_err(o, "malformed");
  else { out_vec(o, rp, rn); out_long(o, rn); }
  if (memcmp(np, a[0].d, n * sizeof(mp_limb_t))) out_err(o, "srcmod");
  if (!dst_ok(sp, tn) || !dst_ok(rp, n) || !dst_ok(np, n)) out_err(o, "oob");
  dst_free(sp); dst_free(rp); dst_free(np); return 0;
}
static int op_rootrem_i(int c, tok_t *a, out_t *o) { return do_rootrem_i(0, c, a, o); }
static int op_rootrem_i_norem(int c, tok_t *a, out_t *o) { return do_rootrem_i(1, c, a, o); }

/* mpn_sqrtrem_dc [u] -> [root (nn/2 limbs)] [rem] rn : mpn_sqrtrem on an operand with an EVEN number of limbs and a
   normalised top limb (>= B/4): the branch that hands {np, nn} to mpn_dc_sqrtrem unshifted (sqrtrem.c:362-368); answered
   on the Lean side by the limb-level model Mpir.SqrtL (carries c, b, q of mpn_dc_sqrtrem). */
static int op_sqrtrem_dc(int argc, tok_t *a, out_t *o) {
  NEED(argc == 1 && a[0].kind == T_VEC && a[0].n >= 2 && a[0].n % 2 == 0 && a[0].d[a[0].n - 1] >= ((mp_limb_t) 1 << 62));
  long n = a[0].n, tn = n / 2;
  mp_limb_t *sp = dst_new(tn), *rp = dst_new(n), *np = dst_new(n);
  memcpy(np, a[0].d, n * sizeof(mp_limb_t));
  mp_size_t rn = mpn_sqrtrem(sp, rp, np, n);
  out_vec(o, sp, tn);
  if (rn < 0 || rn > n) out_err(o, "malformed");
  else { out_vec(o, rp, rn); out_long(o, rn); }
  if (memcmp(np, a[0].d, n * sizeof(mp_limb_t))) out_err(o, "srcmod");
  if (!dst_ok(sp, tn) || !dst_ok(rp, n) || !dst_ok(np, n)) out_err(o, "oob");
  dst_free(sp); dst_free(rp); dst_free(np); return 0;
}

const opdef_t ops_rootrem[] = {
  {"mpn_sqrtrem_dc", op_sqrtrem_dc},
  {"mpn_rootrem_basecase", op_mpn_rootrem_basecase},
  {"mpn_rootrem_i", op_rootrem_i}, {"mpn_rootrem_i_norem", op_rootrem_i_norem},
  {0, 0}
};
